/- placeholder until harness/ctmverif/translate.py has run -/
import CTM.Model.Procs
namespace CTM.Generated
open CTM.Procs

def stages : List Stage := []

def runMappingShape : MappingShape := expectedMappingShape

end CTM.Generated
