import CTM.Drive.Util
import CTM.Model.Sanitize
open Lean

namespace CTM.Drive.Sanitize
open CTM CTM.Drive CTM.Sanitize

def asChars (j : Json) : R Str := (asStr j).map String.toList
def jChars (s : Str) : Json := jStr (String.ofList s)

/-- host = {"existing": [path strings in `str(Path)` form], "resolve": [[path, resolved]],
"mapperRoot": str} -/
def parseHost (j : Json) : R Host := do
  let existing ← asList asChars (fieldD j "existing" (Json.arr #[]))
  let res ← asList (asPair asChars asChars) (fieldD j "resolve" (Json.arr #[]))
  let root ← asChars (fieldD j "mapperRoot" (Json.str "/nonexistent-mapper-root"))
  return {
    ex := fun p => existing.contains p.toStr,
    resolve := fun p => match res.find? (fun kv => kv.1 == p.toStr) with
      | some kv => kv.2
      | none => p.toStr,
    mapperRoot := root }

/-- values travel as {"s": str} | {"l": [..]} | {"d": [[key, value], ..]} | {"o": n}
(JSON objects would lose the dict order) -/
partial def parseVal (j : Json) : R Val := do
  match j.getObjVal? "s" with
  | .ok s => return .str (← asChars s)
  | .error _ =>
  match j.getObjVal? "l" with
  | .ok l => return .list (← asList parseVal l)
  | .error _ =>
  match j.getObjVal? "d" with
  | .ok d => return .dict (← asList (asPair asChars parseVal) d)
  | .error _ => return .other (← asNat (← field j "o"))

partial def jVal : Val → Json
  | .str s => jObj [("s", jChars s)]
  | .list xs => jObj [("l", jList jVal xs)]
  | .dict kvs => jObj [("d", jList (jPair jChars jVal) kvs)]
  | .other t => jObj [("o", jNat t)]

def sanErrName : SanErr → String
  | .relativeTo => "relativeTo"

def jSan {α} (f : α → Json) : Except SanErr α → Json
  | .ok a => jObj [("ok", f a)]
  | .error e => jObj [("err", jStr (sanErrName e))]

def jCfg {α} (f : α → Json) : Except CfgErr α → Json
  | .ok a => jObj [("ok", f a)]
  | .error (.san e) => jObj [("err", jStr (sanErrName e))]
  | .error (.keyError k) => jObj [("err", jStr ("KeyError:" ++ String.ofList k))]

def handle : Handler := fun op inp =>
  match op with
  | "sanitize.str" => some do
      let h ← parseHost (← field inp "host")
      let s ← asChars (← field inp "s")
      let words := splitWs s
      return jObj [
        ("result", jSan jChars (sanitizeStr h s)),
        ("words", jList (fun w =>
            let p := wordToPath w
            Json.arr #[jChars w, jChars p.toStr, jBool (isExposed h.ex p)]) words)]
  | "sanitize.val" => some do
      let h ← parseHost (← field inp "host")
      let v ← parseVal (← field inp "v")
      return jSan jVal (sanitizeVal h v)
  | "sanitize.config" => some do
      let h ← parseHost (← field inp "host")
      let cs ← asBool (← field inp "cloudSafe")
      let v ← parseVal (← field inp "config")
      match v with
      | .dict kvs => return jCfg (fun c => jVal (.dict c)) (safeConfig h cs kvs)
      | _ => .error "config must be a dict"
  | "sanitize.log" => some do
      let h ← parseHost (← field inp "host")
      let cs ← asBool (← field inp "cloudSafe")
      let log ← asList asChars (← field inp "log")
      return jSan (jList jChars) (outputLog h cs log)
  | "sanitize.parse" => some do
      let s ← asChars (← field inp "s")
      let p := parsePath s
      return jObj [("root", jNat p.root), ("parts", jList jChars p.parts),
                   ("str", jChars p.toStr), ("name", jChars p.name),
                   ("parent", jChars p.parent.toStr)]
  | _ => none

end CTM.Drive.Sanitize
