import CTM.Drive.Util
import CTM.Model.Output
open Lean

namespace CTM.Drive.Output
open CTM CTM.Drive CTM.Output

/-! JSON encodings

* `Num`: `null` | `"nan"` | `[num, den]`
* `LevelRec`: `{"a","p","c","g","d","ra","rp","rc"}` (`ra/rp/rc` null when absent)
* `Record`: `{"id", "levels": [[level, LevelRec], ...]}`
* `Tree`: `{"hierarchy", "levels": [[level, [[node, [..]], ..]], ..],
   "nameMapper": null | [[level, [[node, {"name","alias"}], ..]], ..],
   "hierarchyMapper": null | [[level, str], ..]}`
-/

def parseNum (j : Json) : R Num :=
  if j.isNull then .ok .null
  else match j with
    | .str "nan" => .ok .nan
    | _ => (asRat j).map .val

def jNum : Num → Json
  | .null => Json.null
  | .nan => jStr "nan"
  | .val q => jRat q

def parseLevelRec (j : Json) : R LevelRec := do
  return {
    assignment := ← asNat (← field j "a"),
    prob := ← parseNum (fieldD j "p" Json.null),
    corr := ← parseNum (fieldD j "c" Json.null),
    agg := ← parseNum (fieldD j "g" Json.null),
    direct := ← asBool (← field j "d"),
    runAsg := ← asOption natList (fieldD j "ra" Json.null),
    runProb := ← asOption (asList parseNum) (fieldD j "rp" Json.null),
    runCorr := ← asOption (asList parseNum) (fieldD j "rc" Json.null) }

def jLevelRec (r : LevelRec) : Json :=
  jObj [("a", jNat r.assignment), ("p", jNum r.prob), ("c", jNum r.corr), ("g", jNum r.agg),
        ("d", jBool r.direct), ("ra", jOpt jNats r.runAsg),
        ("rp", jOpt (jList jNum) r.runProb), ("rc", jOpt (jList jNum) r.runCorr)]

def parseRecord (j : Json) : R Record := do
  return { cellId := ← asNat (← field j "id"),
           levels := ← asList (asPair asNat parseLevelRec) (← field j "levels") }

def jRecord (r : Record) : Json :=
  jObj [("id", jNat r.cellId), ("levels", jList (jPair jNat jLevelRec) r.levels)]

def parseNameEntry (j : Json) : R NameEntry := do
  return { name := ← asOption asNat (fieldD j "name" Json.null),
           alias := ← asOption asNat (fieldD j "alias" Json.null) }

def parseTree (j : Json) : R Output.Tree := do
  return {
    hierarchy := ← natList (← field j "hierarchy"),
    levels := ← asList (asPair asNat (asList (asPair asNat natList))) (← field j "levels"),
    nameMapper := ← asOption (asList (asPair asNat (asList (asPair asNat parseNameEntry))))
      (fieldD j "nameMapper" Json.null),
    hierarchyMapper := ← asOption (asList (asPair asNat asNat)) (fieldD j "hierarchyMapper" Json.null) }

def jNameEntry (e : NameEntry) : Json :=
  jObj [("name", jOpt jNat e.name), ("alias", jOpt jNat e.alias)]

def jTree (t : Output.Tree) : Json :=
  jObj [("hierarchy", jNats t.hierarchy),
        ("levels", jList (jPair jNat (jList (jPair jNat jNats))) t.levels),
        ("nameMapper", jOpt (jList (jPair jNat (jList (jPair jNat jNameEntry)))) t.nameMapper),
        ("hierarchyMapper", jOpt (jList (jPair jNat jNat)) t.hierarchyMapper)]

def parseBlob (j : Json) : R Blob := do
  return { tree := ← parseTree (← field j "tree"),
           nRunners := ← asNat (← field j "nRunners"),
           results := ← asList parseRecord (← field j "results") }

def jBlob (b : Blob) : Json :=
  jObj [("tree", jTree b.tree), ("nRunners", jNat b.nRunners),
        ("results", jList jRecord b.results)]

def jExcept {α} (f : α → Json) : Except Err α → Json
  | .ok a => jObj [("ok", f a)]
  | .error e => jObj [("err", jStr e.name)]

def jH5 (h : H5) : Json :=
  jObj [("tree", jTree h.tree), ("nRunners", jNat h.nRunners),
        ("directlyAssigned", jList jBool h.directlyAssigned),
        ("intToNode", jList (jPair jNat jNats) h.intToNode),
        ("cellId", jNats h.cellId),
        ("assignment", jList jInts h.assignment),
        ("prob", jList (jList jNum) h.prob),
        ("agg", jList (jList jNum) h.agg),
        ("corr", jList (jList jNum) h.corr),
        ("runners", jOpt (fun (r : RunnerArrays) =>
          jObj [("asg", jList (jList jInts) r.asg),
                ("prob", jList (jList (jList jNum)) r.prob),
                ("corr", jList (jList (jList jNum)) r.corr)]) h.runners)]

def jCell : Cell → Json
  | .str s => jObj [("s", jNat s)]
  | .fixed4 q => jObj [("f4", jRat q)]
  | .raw q => jObj [("raw", jRat q)]
  | .empty => Json.null

def colKindName : ColKind → String
  | .label => "label" | .name => "name" | .alias => "alias" | .conf => "conf"

def jColumn : Option (StrId × ColKind) → Json
  | none => Json.null
  | some (s, k) => Json.arr #[jNat s, jStr (colKindName k)]

def jComments (c : Comments) : Json :=
  jObj [("metadata", jOpt jNat c.metadata), ("hierarchy", jNats c.hierarchy),
        ("readable", jOpt jNats c.readable),
        ("algorithmIsCorrelation", jOpt jBool c.algorithmIsCorrelation)]

/-- `PyVal` as JSON: `{"t": tag, "v": payload}` -/
partial def parsePyVal (j : Json) : R PyVal := do
  let t ← asStr (← field j "t")
  let v := fieldD j "v" Json.null
  match t with
  | "none" => return .none
  | "bool" => return .bool (← asBool v)
  | "npBool" => return .npBool (← asBool v)
  | "int" => return .int (← asInt v)
  | "npInt64" => return .npInt64 (← asInt v)
  | "num" => return .num (← parseNum v)
  | "str" => return .str (← asNat v)
  | "other" => return .other (← asNat v)
  | "list" => return .list (← asList parsePyVal v)
  | "tuple" => return .tuple (← asList parsePyVal v)
  | "intSet" => return .intSet (← intList v)
  | "ndarray" => return .ndarray (← asList parsePyVal v)
  | "dict" => return .dict (← asList (asPair parsePyVal parsePyVal) v)
  | _ => .error s!"unknown PyVal tag {t}"

partial def jPyVal : PyVal → Json
  | .none => jObj [("t", jStr "none")]
  | .bool b => jObj [("t", jStr "bool"), ("v", jBool b)]
  | .npBool b => jObj [("t", jStr "npBool"), ("v", jBool b)]
  | .int i => jObj [("t", jStr "int"), ("v", jInt i)]
  | .npInt64 i => jObj [("t", jStr "npInt64"), ("v", jInt i)]
  | .num x => jObj [("t", jStr "num"), ("v", jNum x)]
  | .str s => jObj [("t", jStr "str"), ("v", jNat s)]
  | .other k => jObj [("t", jStr "other"), ("v", jNat k)]
  | .list xs => jObj [("t", jStr "list"), ("v", Json.arr (xs.map jPyVal).toArray)]
  | .tuple xs => jObj [("t", jStr "tuple"), ("v", Json.arr (xs.map jPyVal).toArray)]
  | .intSet xs => jObj [("t", jStr "intSet"), ("v", jInts xs)]
  | .ndarray xs => jObj [("t", jStr "ndarray"), ("v", Json.arr (xs.map jPyVal).toArray)]
  | .dict kvs => jObj [("t", jStr "dict"),
      ("v", Json.arr (kvs.map (fun (k, v) => Json.arr #[jPyVal k, jPyVal v])).toArray)]

def handle : Handler := fun op inp =>
  match op with
  | "output.h5" => some do
      -- blob_to_hdf5 then hdf5_to_blob
      let b ← parseBlob (← field inp "blob")
      let h := toH5 b
      let back : Except Err Blob := match h with
        | .ok h => ofH5 h
        | .error e => .error e
      return jObj [("h5", jExcept jH5 h), ("back", jExcept jBlob back),
                   ("outInv", jBool (outInv b))]
  | "output.csv" => some do
      let t ← parseTree (← field inp "tree")
      -- readable level names as text: the model computes which confidence
      -- columns `blob_to_df` makes categorical (`taintOf`)
      let texts ← asList (asPair asNat asStr) (fieldD inp "readableText" (Json.arr #[]))
      let textOf : Lvl → String := fun l => (texts.lookup l).getD ""
      let iters ← asNat (← field inp "bootstrapIteration")
      let results ← asList parseRecord (← field inp "results")
      let mname ← asOption asNat (fieldD inp "metadataName" Json.null)
      let flat ← asOption asBool (fieldD inp "flatten" Json.null)
      let ck := confidenceKey iters
      let taint := taintOf textOf ck t.hierarchy
      return jObj [
        ("taint", jNats taint),
        ("confColumns", jList (fun l => Json.arr #[jNat l, jStr (dfConfColumn (textOf l) ck),
            jStr (csvConfColumn (textOf l) ck)]) t.hierarchy),
        ("comments", jComments (csvComments t mname flat)),
        ("columns", jList jColumn (csvColumns t)),
        ("confIsCorrelation", jBool (ck == .avgCorrelation)),
        ("rows", jExcept (jList (jList jCell)) (csvRows t taint ck results))]
  | "output.fmt4" => some do
      let xs ← ratList (← field inp "xs")
      return jList (fun q => jObj [("v", jRat (fmt4 q)), ("s", jStr (fmt4Str q))]) xs
  | "output.dropCells" => some do
      let t ← parseTree (← field inp "tree")
      let dl ← asOption asNat (fieldD inp "dropLevel" Json.null)
      let fl ← asBool (fieldD inp "flatten" (Json.bool false))
      return jTree (embeddedTree t dl fl)
  | "output.cleanForJson" => some do
      let v ← parsePyVal (← field inp "value")
      return jObj [("clean", jPyVal (clean v)), ("plain", jBool (plain (clean v))),
                   ("noOther", jBool (noOther v))]
  | "output.reorder" => some do
      let results ← asList parseRecord (← field inp "results")
      let order ← natList (← field inp "order")
      return jExcept (jList jRecord) (reorder results order)
  | _ => none

end CTM.Drive.Output
