import CTM.Drive.Util
open Lean

namespace CTM.Drive.Output
open CTM CTM.Drive

/-- ops of this module (stub: none yet) -/
def handle : Handler := fun op _inp =>
  match op with
  | _ => none

end CTM.Drive.Output
