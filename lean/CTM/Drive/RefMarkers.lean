import CTM.Drive.Util
import CTM.Model.Holm
import CTM.Model.RefMarkers
import CTM.Model.RefMarkersCompose
open Lean

namespace CTM.Drive.RefMarkers
open CTM CTM.Drive CTM.Holm CTM.RefMarkers CTM.Sparse CTM.Procs

def parseTh (j : Json) : R Thresholds := do
  return { pTh := ← asRat (← field j "pTh"), q1Th := ← asRat (← field j "q1Th"),
           qdiffTh := ← asRat (← field j "qdiffTh"), foldTh := ← asRat (← field j "foldTh"),
           q1Min := ← asRat (← field j "q1Min"), qdiffMin := ← asRat (← field j "qdiffMin"),
           foldMin := ← asRat (← field j "foldMin") }

def parseScores (j : Json) : R (List GeneScore) := do
  let q1 ← ratList (← field j "q1")
  let qd ← ratList (← field j "qdiff")
  let fd ← ratList (← field j "fold")
  if q1.length ≠ qd.length ∨ q1.length ≠ fd.length then .error "scores: lengths differ"
  return List.zipWith (fun (a : Rat × Rat) c => { q1 := a.1, qdiff := a.2, fold := c }) (q1.zip qd) fd

def parseGeneIdx (j : Json) : R (Option (List Nat)) := asOption natList (fieldD j "geneIdx" Json.null)

def jBools (bs : List Bool) : Json := jList jBool bs
def jRats (xs : List Rat) : Json := jList jRat xs

def jExcept {α} (f : α → Json) : Except Err α → Json
  | .ok a => jObj [("ok", f a)]
  | .error e => jObj [("err", jStr e.name)]

def jGeneDist (d : GeneDist) : Json :=
  jObj [("true", jRat d.distSq), ("q1", jRat d.q1), ("qdiff", jRat d.qdiff), ("fold", jRat d.fold),
        ("wgt", jRat d.wgt), ("invalid", jBool d.invalid)]

def jOut (o : Out) : Json :=
  let ud := upDown o
  jObj [("valid", jBools o.valid), ("up", jBools o.up), ("upIdx", jNats ud.1), ("downIdx", jNats ud.2)]

/-- an order handed in by the harness must be a genuine argsort -/
def vetOrder (order : Option (List Nat)) (p : List Rat) : R (List Nat) :=
  match order with
  | none => .ok (argsort p)
  | some o => if isArgsortB o p then .ok o else .error "order is not an argsort of p"

def parseOrder (j : Json) (k : String) : R (Option (List Nat)) := asOption natList (fieldD j k Json.null)

def handle : Handler := fun op inp =>
  match op with
  | "refmarkers.holm" => some do
      let p ← ratList (← field inp "p")
      let pad ← asNat (fieldD inp "padding" (Json.num 0))
      let o ← vetOrder (← parseOrder inp "order") p
      return jRats (correctTtestWith o p pad)
  | "refmarkers.holmApprox" => some do
      let p ← ratList (← field inp "p")
      let th ← asRat (← field inp "th")
      let sub := gather (interestingIdx p th) p
      let o ← vetOrder (← parseOrder inp "order") sub
      return jRats (approxCorrectTtestWith o p th)
  | "refmarkers.qscore" => some do
      let p1 ← ratList (← field inp "p1")
      let p2 ← ratList (← field inp "p2")
      return jList (fun (a : Rat × Rat) => let q := qScore a.1 a.2; Json.arr #[jRat q.1, jRat q.2]) (p1.zip p2)
  | "refmarkers.pij" => some do
      let ge1 ← natList (← field inp "ge1")
      let n ← asNat (← field inp "n")
      return jRats (ge1.map (fun g => pij g n))
  | "refmarkers.distance" => some do
      let t ← parseTh (← field inp "th")
      let q1 ← ratList (← field inp "q1")
      let qd ← ratList (← field inp "qdiff")
      let fd ← ratList (← field inp "fold")
      return jExcept (jList jGeneDist) (penetranceParameterDistance t q1 qd fd)
  | "refmarkers.penetrance" => some do
      let t ← parseTh (← field inp "th")
      let g ← parseScores inp
      let exact ← asBool (← field inp "exact")
      let nValid ← asNat (← field inp "nValid")
      return jExcept jBools (penetranceTests t exact nValid g)
  | "refmarkers.score" => some do
      let t ← parseTh (← field inp "th")
      let g ← parseScores inp
      let praw ← ratList (← field inp "praw")
      let c : Config := {
        th := t, nCellsMin := ← asNat (fieldD inp "nCellsMin" (Json.num 2)),
        exact := ← asBool (← field inp "exact"), nValid := ← asNat (← field inp "nValid"),
        nValidMin := ← asNat (fieldD inp "nValidMin" (Json.num 10)), geneIdx := ← parseGeneIdx inp }
      let n1 ← asNat (← field inp "n1")
      let n2 ← asNat (← field inp "n2")
      let m1 ← ratList (← field inp "mean1")
      let m2 ← ratList (← field inp "mean2")
      let o ← vetOrder (← parseOrder inp "order") (gather (interestingIdx praw t.pTh) praw)
      return jExcept jOut (scoreCoreWith o c n1 n2 praw g m1 m2)
  | "refmarkers.maskRow" => some do
      let t ← parseTh (← field inp "th")
      let g ← parseScores inp
      let praw ← ratList (← field inp "praw")
      let n1 ← asNat (← field inp "n1")
      let n2 ← asNat (← field inp "n2")
      return jExcept (jList (jPair jNat jRat)) (pValuesWorkerRow id t n1 n2 praw g)
  | "refmarkers.validityFromMask" => some do
      let nValid ← asNat (← field inp "nValid")
      let nGenes ← asNat (← field inp "nGenes")
      let row ← asList (asPair asNat asRat) (← field inp "row")
      return jExcept jBools (getValidityMask nValid nGenes row (← parseGeneIdx inp))
  | "refmarkers.sparse" => some do
      let rows ← asList natList (← field inp "rows")
      let nPer ← asNat (← field inp "nPer")
      let d := lookupToSparse rows
      let m := mergeSparse ((chunksOf nPer rows).map lookupToSparse)
      return jObj [("direct", jPair jNats jNats d), ("merged", jPair jNats jNats m),
                   ("chunks", jNat (chunksOf nPer rows).length)]
  | "refmarkers.ttnu" => some do
      let m1 ← ratList (← field inp "m1")
      let v1 ← ratList (← field inp "v1")
      let m2 ← ratList (← field inp "m2")
      let v2 ← ratList (← field inp "v2")
      let n1 ← asNat (← field inp "n1")
      let n2 ← asNat (← field inp "n2")
      let rows := List.zip (List.zip m1 v1) (List.zip m2 v2)
      return jList (fun (r : (Rat × Rat) × (Rat × Rat)) =>
        Json.arr #[jRat (welchTSq r.1.1 r.1.2 n1 r.2.1 r.2.2 n2), jOpt jRat (welchNu r.1.2 n1 r.2.2 n2)]) rows
  | "refmarkers.pairs" => some do
      let n ← asNat (← field inp "n")
      return jList (jPair jNat jNat) (combos2 (List.range n))
  | "refmarkers.byGene" => some do
      -- gene-major table from the pair-major rows (B's on-disk transposition, no value array)
      let rows ← asList natList (← field inp "rows")
      let nGenes ← asNat (← field inp "nGenes")
      let nProc ← asNat (← field inp "nProc")
      let lo ← asNat (fieldD inp "chunk" (Json.num 100))
      match byGeneTable nProc nGenes ⟨lo, lo, lo⟩ (lookupToSparse rows) with
      | .ok out => return jObj [("ok", jPair jNats jNats (out.indptr, out.indices))]
      | .error e => return jObj [("err", jStr e.name)]
  | "refmarkers.mergeKeyed" => some do
      -- per-chunk files keyed by col0, in completion order
      let done ← asList (asPair asNat (asPair natList natList)) (← field inp "done")
      return jOpt (jPair jNats jNats) (mergeTables done)
  | "refmarkers.consecutive" => some do
      let idx ← natList (← field inp "idx")
      return jExcept (fun _ => Json.null) (consecutiveCheck idx)
  | "refmarkers.nPerMain" => some do
      return jNat (nPerMain (← asNat (← field inp "nPairs")) (← asNat (← field inp "nProc")))
  | _ => none

end CTM.Drive.RefMarkers
