/-
  JSON helpers for the line-protocol driver.  Imports `Lean.Data.Json` only
  (no Mathlib) so that `Driver.lean` links as a `lean_exe`.
-/
import Lean.Data.Json
open Lean

namespace CTM.Drive

abbrev R := Except String

def field (j : Json) (k : String) : R Json :=
  match j.getObjVal? k with
  | .ok v => .ok v
  | .error _ => .error s!"missing field {k}"

def fieldD (j : Json) (k : String) (d : Json) : Json :=
  match j.getObjVal? k with
  | .ok v => v
  | .error _ => d

def asNat (j : Json) : R Nat :=
  match j.getNat? with
  | .ok v => .ok v
  | .error e => .error s!"nat expected: {e}"

def asInt (j : Json) : R Int :=
  match j.getInt? with
  | .ok v => .ok v
  | .error e => .error s!"int expected: {e}"

def asBool (j : Json) : R Bool :=
  match j.getBool? with
  | .ok v => .ok v
  | .error e => .error s!"bool expected: {e}"

def asStr (j : Json) : R String :=
  match j.getStr? with
  | .ok v => .ok v
  | .error e => .error s!"string expected: {e}"

def asArr (j : Json) : R (List Json) :=
  match j.getArr? with
  | .ok v => .ok v.toList
  | .error e => .error s!"array expected: {e}"

def asList {α} (f : Json → R α) (j : Json) : R (List α) := do
  let xs ← asArr j
  xs.mapM f

def asPair {α β} (f : Json → R α) (g : Json → R β) (j : Json) : R (α × β) := do
  match ← asArr j with
  | [a, b] => return (← f a, ← g b)
  | _ => .error "pair expected"

def asOption {α} (f : Json → R α) (j : Json) : R (Option α) :=
  if j.isNull then .ok none else (f j).map some

def natList (j : Json) : R (List Nat) := asList asNat j
def intList (j : Json) : R (List Int) := asList asInt j

/-- exact rationals travel as `[num, den]` with `den > 0` (Python
`float.as_integer_ratio` / `Fraction`), or a bare integer -/
def asRat (j : Json) : R Rat :=
  match j with
  | .arr #[n, d] => do
    let n ← asInt n
    let d ← asNat d
    if d == 0 then .error "zero denominator" else return mkRat n d
  | _ => (asInt j).map (fun i => (i : Rat))

def ratList (j : Json) : R (List Rat) := asList asRat j

def jNat (n : Nat) : Json := Json.num n
def jInt (n : Int) : Json := Json.num (JsonNumber.fromInt n)
def jBool (b : Bool) : Json := Json.bool b
def jStr (s : String) : Json := Json.str s
def jList {α} (f : α → Json) (xs : List α) : Json := Json.arr (xs.map f).toArray
def jNats (xs : List Nat) : Json := jList jNat xs
def jInts (xs : List Int) : Json := jList jInt xs
def jPair {α β} (f : α → Json) (g : β → Json) (p : α × β) : Json := Json.arr #[f p.1, g p.2]
def jOpt {α} (f : α → Json) : Option α → Json
  | none => Json.null
  | some a => f a
def jRat (q : Rat) : Json := Json.arr #[jInt q.num, jNat q.den]
def jObj (kvs : List (String × Json)) : Json := Json.mkObj kvs

/-- handler type: `none` = op not mine -/
abbrev Handler := String → Json → Option (R Json)

end CTM.Drive
