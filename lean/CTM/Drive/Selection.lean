import CTM.Drive.Util
import CTM.Model.Selection
open Lean

namespace CTM.Drive.Selection
open CTM CTM.Drive CTM.Selection

def parsePair (j : Json) : R Pair := do
  let (d, u) ← asPair natList natList j
  return { down := d, up := u }

def parseTable (j : Json) : R RefTable := do
  let g ← asNat (← field j "nGenes")
  let ps ← asList parsePair (← field j "pairs")
  return { nGenes := g, pairs := ps }

def jErr (e : Err) : Json := jObj [("err", jStr e.name)]

def jExcept {α} (f : α → Json) : Except Err α → Json
  | .ok a => jObj [("ok", f a)]
  | .error e => jErr e

structure ParentIn where
  leaves : List Nat
  n : Nat
  trace : List Nat
  behemoth : Option Bool

def parseParent (j : Json) : R ParentIn := do
  let l ← natList (← field j "leaves")
  let n ← asNat (← field j "n")
  let tr ← natList (fieldD j "trace" (Json.arr #[]))
  let b ← asOption asBool (fieldD j "behemoth" Json.null)
  return { leaves := l, n := n, trace := tr, behemoth := b }

/-- oracle by name; "trace" replays the recorded picks (reference ids) -/
def mkTie (policy : String) (kept : List Nat) (trace : List Nat) : Tie :=
  match policy with
  | "first" => tieFirst
  | "last" => tieLast
  | _ => scripted (trace.map (fun g => kept.idxOf g)) kept.length

def jSlot (s : Slot) : Json :=
  jObj [("cDown", jNat s.cDown), ("cUp", jNat s.cUp), ("agg", jNat s.agg),
        ("fDown", jBool s.fDown), ("fUp", jBool s.fUp),
        ("censusDown", jNat s.censusDown), ("censusUp", jNat s.censusUp)]

/-- the facts `_run_selection` logs about its exit state -/
def jDetail (kept : List Nat) (nDesperate : Nat) (nOriginal : Nat) (st : St) : Json :=
  jObj [("chosen", jNats (st.chosen.map (fun i => kept.getD i 0))),
        ("nDesperate", jNat nDesperate),
        ("nOriginal", jNat nOriginal),
        ("filled", jNat ((st.slots.map (fun s => s.fDown.toNat + s.fUp.toNat)).sum)),
        ("size", jNat (2 * st.slots.length)),
        ("slots", jList jSlot st.slots),
        ("util", jInts st.util)]

/-- one parent in detail: exit state of `_run_selection` -/
def detail (th : Thinned) (p : ParentIn) (behemoth : Bool) (policy : String) : Json :=
  if p.leaves.isEmpty then jObj [("ok", jObj [("chosen", jNats []), ("skipped", jBool true)])]
  else if hasDup p.leaves then jErr .dupPair
  else match lookupPairs th.pairs (localOrder p.leaves behemoth) with
    | .error e => jErr e
    | .ok ps =>
      let nG := th.kept.length
      let nOrig := ((initState nG ps).util.filter (fun u => decide (0 < u))).length
      match preState nG ps p.n with
      | .error e => jErr e
      | .ok st2 =>
        match loop p.n (mkTie policy th.kept p.trace) (nG + 1) st2 with
        | .error e => jErr e
        | .ok st => jObj [("ok", jDetail th.kept st2.chosen.length nOrig st)]

def handle : Handler := fun op inp =>
  match op with
  | "selection.select_all" => some do
      let t ← parseTable (← field inp "table")
      let q ← natList (← field inp "query")
      let ps ← asList parseParent (← field inp "parents")
      let cutoff ← asNat (← field inp "cutoff")
      let policy ← asStr (fieldD inp "policy" (jStr "trace"))
      let kept := keptGenes t.nGenes q
      let res := selectAll t q (ps.map (fun p => { leaves := p.leaves, n := p.n })) cutoff
        (fun i => mkTie policy kept ((ps.getD i { leaves := [], n := 0, trace := [], behemoth := none }).trace))
      return jExcept (jList (jExcept jNats)) res
  | "selection.detail" => some do
      let t ← parseTable (← field inp "table")
      let q ← natList (← field inp "query")
      let ps ← asList parseParent (← field inp "parents")
      let cutoff ← asNat (← field inp "cutoff")
      let policy ← asStr (fieldD inp "policy" (jStr "trace"))
      match thin t q with
      | .error e => return jErr e
      | .ok th =>
        return jObj [("ok", jList (fun p =>
          detail th p ((p.behemoth).getD (isBehemoth t.pairs.length cutoff p.leaves)) policy) ps)]
  | "selection.assign" => some do
      let cs ← asList natList (← field inp "census")
      return jList (jOpt jNat) (cs.map assignFile)
  | _ => none

end CTM.Drive.Selection
