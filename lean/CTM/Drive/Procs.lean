import CTM.Drive.Util
import CTM.Model.Procs
import CTM.Generated.Skeleton
open Lean

namespace CTM.Drive.Procs
open CTM CTM.Drive CTM.Procs

def parseCode (j : Json) : R ExitCode := asOption asInt j

def parseKind (j : Json) : R Container := do
  match ← asStr j with
  | "list" => return .list
  | "dict" => return .dict
  | s => .error s!"container kind {s}"

def jOutcome (r : Res) : Json :=
  let s := r.state
  let base := [("started", jNat s.started), ("procs", jList (jPair jNat jNat) s.procs),
               ("file", jList jStr s.file), ("seeds", jList (jPair jNat jNat) s.seeds),
               ("pollsLeft", jNat s.sched.length)]
  match r with
  | .ok _ => jObj (("outcome", jStr "ok") :: base)
  | .failed c _ => jObj (("outcome", jStr "failed") :: ("code", jInt c) :: base)
  | .spin _ => jObj (("outcome", jStr "spin") :: base)

def nth (xs : List Int) (d : Int) (i : Nat) : Int := xs.getD i d
def nthNat (xs : List Nat) (i : Nat) : Nat := xs.getD i i

def jMerge : Merge → Json
  | .appendRekey => jStr "appendRekey" | .sumCreationOrder => jStr "sumCreationOrder"
  | .sortedKeys => jStr "sortedKeys" | .concatCreationOrder => jStr "concatCreationOrder"
  | .dictByKey => jStr "dictByKey" | .unknown => jStr "unknown"

def jStage (s : Stage) : Json :=
  jObj [("name", jStr s.name),
        ("container", jStr (match s.container with | .list => "list" | .dict => "dict")),
        ("wellFormed", jBool (wellFormed s.prog)),
        ("writes", jList jStr (writes s.prog)),
        ("failureFiles", jList (jList jStr) (failureFiles s.prog)),
        ("tryFinally", jBool s.tryFinally),
        ("merge", jMerge s.merge)]

def findStage (name : String) : R Stage :=
  match CTM.Generated.stages.find? (fun s => s.name == name) with
  | some s => .ok s
  | none => .error s!"no stage {name}"

def parseInner (j : Json) : R InnerRun := do
  return { assignRaises := ← asBool (← field j "assignRaises"),
           csvRequested := ← asBool (fieldD j "csvRequested" (Json.bool true)),
           lateRaises := ← asBool (fieldD j "lateRaises" (Json.bool false)),
           summaryRaises := ← asBool (fieldD j "summaryRaises" (Json.bool false)),
           logRequested := ← asBool (fieldD j "logRequested" (Json.bool true)),
           jsonRequested := ← asBool (fieldD j "jsonRequested" (Json.bool true)),
           hdf5Requested := ← asBool (fieldD j "hdf5Requested" (Json.bool true)) }

def jLogLine : LogLine → Json
  | .info _ => jStr "info" | .success => jStr "success"
  | .traceback => jStr "traceback" | .cleaningUp => jStr "cleaningUp"

def jWorld (w : MappingWorld) : Json :=
  jObj [("raised", jBool w.raised),
        ("json", jOpt (jList jStr) w.json),
        ("hdf5", jOpt (fun p => jObj [("metadata", jList jStr p.1), ("datasets", jList jStr p.2)]) w.hdf5),
        ("csv", jBool w.csv),
        ("log", jOpt (jList jLogLine) w.logFile)]

def parseRecords (j : Json) : R (List (Nat × Nat)) := asList (asPair asNat asNat) j

def handle : Handler := fun op inp =>
  match op with
  | "procs.winnowList" => some do
      let codes ← asList parseCode (← field inp "codes")
      let ps := codes.zipIdx.map (fun (c, i) => (i, c))
      match winnowList ps with
      | .ok r => return jObj [("ok", jNats (r.map (·.1)))]
      | .error c => return jObj [("err", jInt c)]
  | "procs.winnowDict" => some do
      let items ← asList (asPair asNat parseCode) (← field inp "items")
      match winnowDict items with
      | .ok r => return jObj [("ok", jNats (r.map (·.1)))]
      | .error (k, c) => return jObj [("err", Json.arr #[jNat k, jInt c])]
  | "procs.pollLoop" => some do
      let kind ← parseKind (← field inp "kind")
      let nItems ← asNat (← field inp "nItems")
      let nProc ← asNat (← field inp "nProc")
      let keys ← natList (fieldD inp "keys" (Json.arr #[]))
      let sched ← asList natList (← field inp "sched")
      let exit ← intList (← field inp "exit")
      return jOutcome (pollLoop kind nItems nProc (nthNat keys) sched (nth exit 0))
  | "procs.execStage" => some do
      let st ← findStage (← asStr (← field inp "stage"))
      let nItems ← asNat (← field inp "nItems")
      let nProc ← asNat (← field inp "nProc")
      let keys ← natList (fieldD inp "keys" (Json.arr #[]))
      let sched ← asList natList (← field inp "sched")
      let exit ← intList (← field inp "exit")
      let blocked ← natList (fieldD inp "blocked" (Json.arr #[]))
      return jOutcome (exec st.container
        { nItems, nProc, keyOf := nthNat keys, exit := nth exit 0,
          blocked := fun w => blocked.contains w }
        st.prog { sched := sched })
  | "procs.stages" => some do
      return jList jStage CTM.Generated.stages
  | "procs.mappingShape" => some do
      return jObj [("matches", jBool (CTM.Generated.runMappingShape == expectedMappingShape))]
  | "procs.runMapping" => some do
      return jWorld (runMapping (← parseInner inp))
  | "procs.blobToHdf5" => some do
      let keys ← asList asStr (← field inp "keys")
      let r := blobToHdf5 keys
      return jObj [("metadata", jList jStr r.1), ("datasets", jList jStr r.2)]
  | "procs.completionOrders" => some do
      let n ← asNat (← field inp "nWorkers")
      let p ← asNat (← field inp "nProc")
      return jList jNats (completionOrders n p)
  | "procs.reorderBlob" => some do
      let blob ← parseRecords (← field inp "blob")
      let order ← natList (← field inp "order")
      return jOpt (jList (jPair jNat jNat)) (reorderBlob blob order)
  | "procs.mergeAppendRekey" => some do
      let per ← asList parseRecords (← field inp "perWorker")
      let comp ← natList (← field inp "completion")
      let order ← natList (← field inp "order")
      return jOpt (jList (jPair jNat jNat)) (mergeAppendRekey (gather per comp) order)
  | "procs.mergeKeyed" => some do
      -- done = [(key, value)] in completion order; values are ids of opaque results
      let disc ← asStr (← field inp "discipline")
      let done ← parseRecords (← field inp "done")
      let paths ← natList (fieldD inp "paths" (Json.arr #[]))
      match disc with
      | "sumCreationOrder" =>
        -- buffers are numbers here; the sum is an exact Nat sum
        return jOpt jNat (mergeSumCreationOrder (· + ·) 0 paths done)
      | "sortedKeys" => return jOpt jNats (mergeSortedKeys done)
      | "concatCreationOrder" => return jOpt jNats (mergeConcatCreationOrder paths done)
      | "dictByKey" => return jList (jOpt jNat) (mergeDictByKey done paths)
      | d => .error s!"discipline {d}"
  | "procs.sortKeys" => some do
      return jNats (sortKeys (← natList (← field inp "keys")))
  | "procs.chunksOf" => some do
      -- the row iterator with the observed step as a parameter
      let n ← asNat (← field inp "nRows")
      let st ← asNat (← field inp "step")
      return jList (jPair jNat jNat) (chunks n st)
  | "procs.chunks" => some do
      let n ← asNat (← field inp "nRows")
      let p ← asNat (← field inp "nProc")
      let cs ← asNat (← field inp "chunkSize")
      let e := effChunk n p cs
      return jObj [("effChunk", jNat e), ("chunks", jList (jPair jNat jNat) (chunks n e))]
  | _ => none

end CTM.Drive.Procs
