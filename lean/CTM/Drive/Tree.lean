import CTM.Drive.Util
import CTM.Model.Tree
open Lean

namespace CTM.Drive.Tree
open CTM CTM.Drive

def parseLevelMap (j : Json) : R LevelMap := asList (asPair asNat natList) j

def parseTree (j : Json) : R RawTree := do
  let hh ← asBool (fieldD j "hasHierarchy" (Json.bool true))
  let h ← natList (fieldD j "hierarchy" (Json.arr #[]))
  let lv ← asList (asPair asNat parseLevelMap) (← field j "levels")
  let ns ← asBool (fieldD j "nodesAreStr" (Json.bool true))
  return { hasHierarchy := hh, hierarchy := h, levels := lv, nodesAreStr := ns }

def jLevelMap (m : LevelMap) : Json := jList (jPair jNat jNats) m

def jTree (t : RawTree) : Json :=
  jObj [("hasHierarchy", jBool t.hasHierarchy), ("hierarchy", jNats t.hierarchy),
        ("levels", jList (jPair jNat jLevelMap) t.levels), ("nodesAreStr", jBool t.nodesAreStr)]

def jErr (e : TreeErr) : Json := jObj [("err", jStr e.name)]

def jExcept {α} (f : α → Json) : Except TreeErr α → Json
  | .ok a => jObj [("ok", f a)]
  | .error e => jErr e

def parseParent (j : Json) : R (Option (Level × Node)) := asOption (asPair asNat asNat) j

/-- every public answer of a validated tree, in a canonical form -/
def queryAll (t : RawTree) : Json :=
  let perNode (f : Level → Node → Json) : Json :=
    jList (fun l => jPair jNat (jList (fun n => jPair jNat id (n, f l n))) (l, t.nodesAt l)) t.hierarchy
  jObj [
    ("nodesAt", jList (fun l => jPair jNat jNats (l, t.nodesAt l)) t.hierarchy),
    ("children", perNode (fun l n => jNats (t.entry l n))),
    ("rootChildren", jExcept jNats (t.children none)),
    ("parents", perNode (fun l n => jList (jPair jNat jNat) (t.parents l n))),
    ("asLeaves", perNode (fun l n => jNats (t.asLeaves l n))),
    ("allParents", jList (jOpt (jPair jNat jNat)) t.allParents),
    ("leafPairs", jList (fun p => jPair (jOpt (jPair jNat jNat)) (jList (jPair jNat jNat)) (p, t.leafPairs p))
        (t.allParents ++ (match t.leafLevel with
          | none => []
          | some ll => (t.nodesAt ll).map (fun n => some (ll, n)))))
  ]

def handle : Handler := fun op inp =>
  match op with
  | "tree.validate" => some do
      let t ← parseTree (← field inp "tree")
      return jExcept (fun _ => Json.null) t.validate
  | "tree.validate_lenient" => some do
      let t ← parseTree (← field inp "tree")
      return jExcept (fun _ => Json.null) (t.validateWith false)
  | "tree.query" => some do
      let t ← parseTree (← field inp "tree")
      return queryAll t
  | "tree.drop" => some do
      let t ← parseTree (← field inp "tree")
      let l ← asNat (← field inp "level")
      let al ← asBool (fieldD inp "allowLeaf" (Json.bool false))
      return jExcept jTree (t.dropLevel l al)
  | "tree.flatten" => some do
      let t ← parseTree (← field inp "tree")
      return jTree t.flatten
  | "tree.dropCells" => some do
      let t ← parseTree (← field inp "tree")
      return jTree t.dropCells
  | "tree.fromLinks" => some do
      let h ← natList (← field inp "hierarchy")
      let rows ← asList natList (← field inp "rows")
      let rows := rows.filterMap (fun r => match r with
        | [a, b, c, d] => some ({ label := a, level := b, parent := c, parentLevel := d } : RawTree.LinkRow)
        | _ => none)
      return jExcept jTree (RawTree.fromLinks h rows)
  | "tree.fromRecords" => some do
      let cols ← natList (← field inp "cols")
      let recs ← asList natList (← field inp "recs")
      return jExcept jTree (RawTree.fromRecords cols recs)
  | _ => none

end CTM.Drive.Tree
