import CTM.Drive.Util
import CTM.Model.Chunking
import CTM.Model.Sparse
import CTM.Generated.SparseConsts
open Lean

namespace CTM.Drive.Sparse
open CTM CTM.Drive CTM.Chunking CTM.Sparse

/-- `{"indptr": [...], "indices": [...], "data": [...] | null}`; a missing
value array (transposition without `data`) is replaced by zeros -/
def parseMat (j : Json) : R (Mat Rat) := do
  let ip ← natList (← field j "indptr")
  let ind ← natList (← field j "indices")
  let dj := fieldD j "data" Json.null
  let dat ← if dj.isNull then pure (List.replicate ind.length (0 : Rat)) else ratList dj
  return ⟨ip, ind, dat⟩

def jVal (q : Rat) : Json := if q.den == 1 then jInt q.num else jRat q
def jMat (M : Mat Rat) : Json :=
  jObj [("indptr", jNats M.indptr), ("indices", jNats M.indices), ("data", jList jVal M.data)]
def jDense (D : Dense Rat) : Json := jList (jList jVal) D
def parseDense (j : Json) : R (Dense Rat) := asList ratList j

def jExcept {α} (f : α → Json) : Except SpErr α → Json
  | .ok a => jObj [("ok", f a)]
  | .error e => jObj [("err", jStr e.name)]

def jPairs (ps : List (Nat × Nat)) : Json := jList (jPair jNat jNat) ps
def jBlocks (bs : List (Dense Rat × Nat × Nat)) : Json :=
  jList (fun b => Json.arr #[jDense b.1, jNat b.2.1, jNat b.2.2]) bs

def parseSlice (j : Json) : R (Option (Nat × Nat)) := asOption (asPair asNat asNat) j

/-- the constants as regenerated from the current source -/
def sourceConsts : BudgetConsts :=
  { minCount := CTM.Generated.SparseConsts.countMinLoadChunk
    minLoad := CTM.Generated.SparseConsts.transposeMinLoadChunk
    minEl := CTM.Generated.SparseConsts.transposeMinElements
    dexBytes := CTM.Generated.SparseConsts.dexBytes }

/-- `{"countGb": q, "loadGb": q, "elGb": q, "dataBytes": n, "indptrBytes": n,
"indicesBytes": n}` or directly `{"loCount": n, "lo": n, "el": n}` -/
def parseBudget (j : Json) : R Budget := do
  match j.getObjVal? "lo" with
  | .ok _ =>
    return { loCount := ← asNat (← field j "loCount"), lo := ← asNat (← field j "lo"),
             el := ← asNat (← field j "el") }
  | .error _ =>
    return Budget.ofConsts sourceConsts (← asRat (← field j "countGb")) (← asRat (← field j "loadGb"))
      (← asRat (← field j "elGb")) (← asNat (← field j "dataBytes"))
      (← asNat (← field j "indptrBytes")) (← asNat (← field j "indicesBytes"))

def jBudget (b : Budget) : Json :=
  jObj [("loCount", jNat b.loCount), ("lo", jNat b.lo), ("el", jNat b.el)]

def parseIterOp (j : Json) : R IterOp := do
  let k ← asStr (← field j "op")
  if k == "next" then return .next
  else if k == "getChunk" then
    return .getChunk (← asNat (← field j "r0")) (← asNat (← field j "r1"))
  else if k == "getItem" then return .getItem (← asNat (← field j "i"))
  else if k == "getItemList" then return .getItemList (← natList (← field j "xs"))
  else if k == "getBatch" then return .getBatch (← natList (← field j "rows"))
  else .error s!"unknown iterator op {k}"

def jIterOut : IterOut Rat → Json
  | .stop => jObj [("stop", jBool true)]
  | .block b r0 r1 => jObj [("block", jDense b), ("r0", jNat r0), ("r1", jNat r1)]
  | .batch b => jObj [("batch", jDense b)]
  | .err e => jObj [("err", jStr e.name)]

def handle : Handler := fun op inp =>
  match op with
  | "sparse.chunks" => some do
      return jPairs (chunks (← asNat (← field inp "n")) (← asNat (← field inp "cs")))
  | "sparse.effChunk" => some do
      return jNat (effChunk (← asNat (← field inp "n")) (← asNat (← field inp "nProc"))
        (← asNat (← field inp "cs")))
  | "sparse.budget" => some do
      return jBudget (← parseBudget (← field inp "budget"))
  | "sparse.toDense" => some do
      let M ← parseMat (← field inp "mat")
      return jDense (toDense 0 M (← asNat (← field inp "nMajor")) (← asNat (← field inp "nMinor")))
  | "sparse.iter" => some do
      -- kind = csr | csc | dense
      let kind ← asStr (← field inp "kind")
      let cs ← asNat (← field inp "cs")
      if kind == "dense" then
        let D ← parseDense (← field inp "dense")
        return jObj [("ok", jBlocks (denseIter D cs))]
      else
        let M ← parseMat (← field inp "mat")
        let nRows ← asNat (← field inp "nRows")
        let nCols ← asNat (← field inp "nCols")
        if kind == "csr" then
          return jExcept jBlocks (csrIter 0 M nRows nCols cs)
        else
          let B ← parseBudget (← field inp "budget")
          return jExcept jBlocks (cscIter 0 M nRows nCols cs B)
  | "sparse.iterRun" => some do
      -- kind = csr | csc | dense ; ops on ONE iterator object, from cursor 0
      let kind ← asStr (← field inp "kind")
      let cs ← asNat (← field inp "cs")
      let ops ← asList parseIterOp (← field inp "ops")
      let nCols ← asNat (← field inp "nCols")
      let rd : Except SpErr (Reader Rat) ←
        if kind == "dense" then do
          let D ← parseDense (← field inp "dense")
          pure (.ok (denseReader 0 D nCols))
        else do
          let M ← parseMat (← field inp "mat")
          let nRows ← asNat (← field inp "nRows")
          if kind == "csr" then pure (.ok (csrReader 0 M nRows nCols))
          else do
            let B ← parseBudget (← field inp "budget")
            pure (cscReader 0 M nRows nCols B)
      match rd with
      | .error e => return jObj [("err", jStr e.name)]
      | .ok rd =>
        let r := iterRun rd cs 0 ops
        return jObj [("cursor", jNat r.1), ("outs", jList jIterOut r.2),
                     ("nextRows", jDense (nextRows ops r.2))]
  | "sparse.getChunk" => some do
      let r0 ← asNat (← field inp "r0")
      let r1 ← asNat (← field inp "r1")
      let kind ← asStr (← field inp "kind")
      if kind == "dense" then
        let D ← parseDense (← field inp "dense")
        return jObj [("ok", jBlocks [denseGetChunk D r0 r1])]
      else
        let M ← parseMat (← field inp "mat")
        let nCols ← asNat (← field inp "nCols")
        return jExcept (fun b => jBlocks [b]) (csrGetChunk 0 M nCols r0 r1)
  | "sparse.getBatch" => some do
      let rows ← natList (← field inp "rows")
      let kind ← asStr (← field inp "kind")
      let nCols ← asNat (← field inp "nCols")
      if kind == "dense" then
        let D ← parseDense (← field inp "dense")
        return jExcept jDense (denseGetBatch 0 D nCols rows)
      else
        let M ← parseMat (← field inp "mat")
        return jExcept jDense (csrGetBatch 0 M nCols rows)
  | "sparse.loadDisjoint" => some do
      let M ← parseMat (← field inp "mat")
      return jExcept jMat (loadDisjoint M (← natList (← field inp "rows")))
  | "sparse.mergeIndexList" => some do
      return jExcept jPairs (mergeIndexList (← natList (← field inp "xs")))
  | "sparse.transpose" => some do
      let M ← parseMat (← field inp "mat")
      let imax ← asNat (← field inp "indicesMax")
      let sl ← parseSlice (fieldD inp "slice" Json.null)
      let B ← parseBudget (← field inp "budget")
      let blocks := match calcIndptr M.indices imax sl B.loCount with
        | .ok r => blockCuts r.1 B.el
        | .error _ => []
      return jObj [("res", jExcept jMat (transposeOnDisk M imax sl B)),
                   ("flat", jExcept jMat (transposeOnDiskFlat 0 M imax sl B)),
                   ("budget", jBudget B), ("blocks", jPairs blocks)]
  | "sparse.transposeV2" => some do
      let M ← parseMat (← field inp "mat")
      let imax ← asNat (← field inp "indicesMax")
      let nProc ← asNat (← field inp "nProc")
      let B ← parseBudget (← field inp "budget")
      let jb ← asNat (fieldD inp "joinBlock" (Json.num 0))
      let res := if jb == 0 then transposeV2 M imax nProc B
                 else transposeV2Blocked 0 M imax nProc B jb
      return jObj [("res", jExcept jMat res), ("budget", jBudget B),
                   ("slices", jPairs (chunks imax (ceilDiv imax nProc)))]
  | "sparse.pivot" => some do
      let M ← parseMat (← field inp "mat")
      let nCols ← asNat (← field inp "nCols")
      let nProc ← asNat (← field inp "nProc")
      let B ← parseBudget (← field inp "budget")
      let delta ← asNat (← field inp "delta")
      return jExcept jMat (pivotCsr M nCols nProc B delta)
  | "sparse.shuffle" => some do
      let M ← parseMat (← field inp "mat")
      return jMat (shuffleRows M (← natList (← field inp "order")))
  | "sparse.subset" => some do
      let M ← parseMat (← field inp "mat")
      return jMat (subsetColumns M (← natList (← field inp "chosen")))
  | "sparse.amalgamate" => some do
      let parts ← asList parseMat (← field inp "parts")
      return jMat (amalgamateCsr parts)
  | "sparse.mergeCsr" => some do
      let parts ← asList parseMat (← field inp "parts")
      return jMat (mergeCsr parts)
  | "sparse.chunkCopy" => some do
      return jList jVal (chunkCopy (← asNat (← field inp "c")) (← ratList (← field inp "xs")))
  | "sparse.copyDense" => some do
      let D ← parseDense (← field inp "dense")
      let ch ← asOption (asPair asNat asNat) (fieldD inp "chunks" Json.null)
      return jDense (copyDenseLayer ch D (← asNat (← field inp "nCols")))
  | "sparse.tileCopy" => some do
      let D ← parseDense (← field inp "dense")
      let perDim ← asNat (← field inp "perDim")
      let m ← asNat (← field inp "nCols")
      return jDense (tileCopy (copySlices1 perDim D.length) (copySlices1 perDim m) D)
  | "sparse.copySlices" => some do
      let shape ← natList (← field inp "shape")
      return jList jPairs (copySlices (← asNat (← field inp "perDim")) shape)
  | _ => none

end CTM.Drive.Sparse
