import CTM.Drive.Util
import CTM.Model.Validate
open Lean

namespace CTM.Drive.Validate
open CTM CTM.Drive CTM.Validate

def asName (j : Json) : R Validate.Name := (asStr j).map String.toList
def jName (n : Validate.Name) : Json := jStr (String.ofList n)

def parseStorage (j : Json) : R Storage := do
  let kind ← asStr (← field j "kind")
  if kind == "dense" then
    let m ← asList ratList (← field j "m")
    let nCols ← asNat (← field j "nCols")
    let ch ← asOption (asPair asNat asNat) (fieldD j "chunks" Json.null)
    return .dense m nCols ch
  else if kind == "sparse" then
    let d ← ratList (← field j "data")
    let ch ← asOption asNat (fieldD j "chunks" Json.null)
    return .sparse d ch
  else .error s!"storage kind {kind}"

/-- `f"unmapped_{k}_{timestamp}"` with the timestamp canonicalised to `T` -/
def placeholderT (k : Nat) : Validate.Name := ("unmapped_" ++ toString k ++ "_T").toList

def jErr (e : VErr) : Json := jObj [("err", jStr e.name)]

def jExcept {α} (f : α → Json) : Except VErr α → Json
  | .ok a => jObj [("ok", f a)]
  | .error e => jErr e

def jMinMax (o : Option (Rat × Rat)) : Json := jOpt (jPair jRat jRat) o

def jPlan (p : Plan) : Json :=
  jObj [("writeNew", jBool p.writeNew),
        ("genes", jList jName p.genes),
        ("values", jList (jOpt jRat) p.values),
        ("dtype", jOpt jStr p.dtype),
        ("mapping", jOpt (jList (jPair jName jName)) p.mapping),
        ("nMapped", jNat p.nMapped),
        ("hasWarnings", jBool p.hasWarnings)]

def parseLookup (j : Json) : R (List (Validate.Name × Validate.Name)) := asList (asPair asName asName) j

def handle : Handler := fun op inp =>
  match op with
  | "validate.round" => some do
      let vs ← ratList (← field inp "vals")
      return jInts (vs.map roundHalfEven)
  | "validate.chooseDtype" => some do
      let fb ← asOption asNat (fieldD inp "floatBits" Json.null)
      let mn ← asRat (← field inp "mn")
      let mx ← asRat (← field inp "mx")
      let r := chooseIntDtype fb mn mx
      return jObj [("dtype", jStr r.1), ("min", jInt r.2.1), ("max", jInt r.2.2)]
  | "validate.toFloatBits" => some do
      let p ← asNat (← field inp "bits")
      let xs ← intList (← field inp "ints")
      return jList jRat (xs.map (toFloatBits p))
  | "validate.minmax" => some do
      let s ← parseStorage (← field inp "storage")
      return jExcept jMinMax s.minmax
  | "validate.isIntegers" => some do
      let s ← parseStorage (← field inp "storage")
      let eps ← asRat (← field inp "eps")
      return jBool (isIntegersChunked eps s.readChunks)
  | "validate.isEnsembl" => some do
      let ns ← asList asName (← field inp "names")
      return jList jBool (ns.map isEnsembl)
  | "validate.mapGenes" => some do
      let lk ← parseLookup (← field inp "lookup")
      let start ← asNat (fieldD inp "start" (Json.num 0))
      let genes ← asList asName (← field inp "genes")
      return jExcept (fun o => jObj [("mapped", jList jName o.mapped),
          ("nUnmapped", jNat o.nUnmapped), ("ct", jNat o.ct)])
        (mapGenes lk placeholderT start genes)
  | "validate.plan" => some do
      let cellIds ← asList asName (← field inp "cellIds")
      let genes ← asList asName (← field inp "genes")
      let layerIsX ← asBool (← field inp "layerIsX")
      let roundToInt ← asBool (← field inp "roundToInt")
      let intDtype ← asBool (← field inp "intDtype")
      let fb ← asOption asNat (fieldD inp "floatBits" Json.null)
      let storage ← parseStorage (← field inp "storage")
      let eps ← asRat (← field inp "eps")
      let em ← asOption asRat (fieldD inp "expectedMax" Json.null)
      let lk ← parseLookup (← field inp "lookup")
      let start ← asNat (fieldD inp "start" (Json.num 0))
      let i : Input := { cellIds, genes, layerIsX, roundToInt, intDtype, floatBits := fb,
                         storage, eps, expectedMax := em, lookup := lk, start }
      return jExcept jPlan (validate placeholderT i)
  | _ => none

end CTM.Drive.Validate
