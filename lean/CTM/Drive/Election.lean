import CTM.Drive.Util
import CTM.Model.Election
open Lean

namespace CTM.Drive.Election
open CTM CTM.Drive CTM.Numeric CTM.Election

def jRats (xs : List Rat) : Json := jList jRat xs

def jDrawErr : DrawErr → String
  | .negativeSample => "negativeSample"
  | .sampleTooLarge => "sampleTooLarge"

def jTallyErr : TallyErr → String
  | .draw e => jDrawErr e
  | .indexOutOfRange => "indexOutOfRange"
  | .noReference => "noReference"

def jChooseErr : ChooseErr → String
  | .indexError => "indexError"
  | .zeroIterations => "zeroIterations"

def ratMatrix (j : Json) : R (List (List Rat)) := asList ratList j

def jRunner (r : Runner) : Json :=
  jObj [("type", jNat r.type), ("valid", jBool r.valid), ("avgCorr", jRat r.avgCorr),
        ("prob", jRat r.prob)]

def jTriple (t : List Nat × List Rat × List Rat) : Json :=
  jObj [("assignment", jNats t.1), ("correlation", jRats t.2.1), ("probability", jRats t.2.2)]

def jChoice (c : Choice) : Json :=
  jObj [("winner", jNat c.winner), ("prob", jRat c.prob), ("avgCorr", jRat c.avgCorr),
        ("runners", jList jRunner c.runners), ("kept", jTriple (keepRunners c.runners))]

def parseLevelRec (j : Json) : R LevelRec := do
  return { assignment := ← asNat (← field j "assignment"),
           prob := ← asRat (← field j "prob"),
           avgCorr := ← asOption asRat (fieldD j "avgCorr" Json.null),
           runnerAssignment := ← natList (fieldD j "runnerAssignment" (Json.arr #[])),
           runnerCorrelation := ← ratList (fieldD j "runnerCorrelation" (Json.arr #[])),
           runnerProbability := ← ratList (fieldD j "runnerProbability" (Json.arr #[])) }

def parseOutRec (j : Json) : R OutRec := do
  let rj := fieldD j "runners" Json.null
  let runners ← if rj.isNull then pure none else do
    pure (some (← natList (← field rj "assignment"), ← ratList (← field rj "correlation"),
                ← ratList (← field rj "probability")))
  return { assignment := ← asNat (← field j "assignment"),
           prob := ← asRat (← field j "prob"),
           avgCorr := ← asOption asRat (fieldD j "avgCorr" Json.null),
           aggregate := ← asRat (← field j "aggregate"),
           runners := runners,
           directlyAssigned := ← asBool (← field j "directlyAssigned") }

def jOutRec (r : OutRec) : Json :=
  jObj [("assignment", jNat r.assignment), ("prob", jRat r.prob),
        ("avgCorr", jOpt jRat r.avgCorr), ("aggregate", jRat r.aggregate),
        ("runners", jOpt jTriple r.runners), ("directlyAssigned", jBool r.directlyAssigned)]

def jIter (refs : List (List Rat)) (x : List Rat) (s : List Nat) : Json :=
  match tallyIter refs x s with
  | .error e => jObj [("err", jStr (jTallyErr e))]
  | .ok (i, q) =>
    jObj [("idx", jNat i), ("ssq", jRat q),
          ("scores", jRats ((refs.map (pick s)).map (fun m => corrSsq m (pick s x))))]

def lookup3 (tbl : List (Nat × Nat × Nat)) (cl c : Nat) : Option Nat :=
  (tbl.find? (fun e => e.1 == cl && e.2.1 == c)).map (·.2.2)

def asTriple (j : Json) : R (Nat × Nat × Nat) := do
  match ← asArr j with
  | [a, b, c] => return (← asNat a, ← asNat b, ← asNat c)
  | _ => .error "triple expected"

def handle : Handler := fun op inp =>
  match op with
  | "election.round" => some do
      let q ← asRat (← field inp "q")
      return jInt (roundHalfEven q)
  | "election.bootstrapSize" => some do
      let q ← asRat (← field inp "flProd")
      let n ← asNat (← field inp "n")
      return match drawSize q n with
        | .ok k => jObj [("ok", jNat k), ("raw", jInt (bootstrapSize q n))]
        | .error e => jObj [("err", jStr (jDrawErr e)), ("raw", jInt (bootstrapSize q n))]
  | "election.subsetOk" => some do
      let n ← asNat (← field inp "n")
      let k ← asNat (← field inp "size")
      let ss ← asList natList (← field inp "subsets")
      return jList (fun s => jBool (subsetOk n k s)) ss
  | "election.corr" => some do
      -- signed squared correlation matrix: refs x queries
      let refs ← ratMatrix (← field inp "refs")
      let xs ← ratMatrix (← field inp "xs")
      return jList (fun x =>
        jObj [("scores", jRats (refs.map (fun m => corrSsq m x))),
              ("nearest", match nearestLeaf refs x with
                          | none => Json.null
                          | some (i, _) => jNat i)]) xs
  | "election.cellVotes" => some do
      -- every bootstrap iteration of one node for a list of cells
      let refs ← ratMatrix (← field inp "refs")
      let xs ← ratMatrix (← field inp "xs")
      let ss ← asList natList (← field inp "subsets")
      return jList (fun x => jList (jIter refs x) ss) xs
  | "election.tallyCell" => some do
      let n ← asNat (← field inp "nLeaves")
      let rows ← asList (asPair asNat asRat) (← field inp "rows")
      let (v, c) := tallyCell n rows
      return jObj [("votes", jNats v), ("corrSum", jRats c)]
  | "election.aggregate" => some do
      let types ← natList (← field inp "types")
      let votes ← natList (← field inp "votes")
      let corr ← ratList (← field inp "corr")
      let (v, c, t) := aggregateVotes types votes corr
      return jObj [("votes", jNats v), ("corr", jRats c), ("types", jNats t)]
  | "election.columns" => some do
      let types ← natList (← field inp "types")
      let votes ← natList (← field inp "votes")
      let corr ← ratList (← field inp "corr")
      let (v, c, t) := columns types votes corr
      return jObj [("votes", jNats v), ("corr", jRats c), ("types", jNats t),
                   ("aggregated", jBool (hasDupTypes types))]
  | "election.choose" => some do
      let types ← natList (← field inp "types")
      let votes ← natList (← field inp "votes")
      let corr ← ratList (← field inp "corr")
      let iters ← asNat (← field inp "iters")
      let nA ← asNat (← field inp "nAssign")
      let order ← natList (← field inp "order")
      let (v, _, _) := columns types votes corr
      let valid := decide (ValidOrder v order)
      return match chooseCell types votes corr iters nA order with
        | .ok c => jObj [("ok", jChoice c), ("validOrder", jBool valid)]
        | .error e => jObj [("err", jStr (jChooseErr e)), ("validOrder", jBool valid)]
  | "election.finishCell" => some do
      let recs ← asList parseLevelRec (← field inp "recs")
      return jList jOutRec (finishCell recs)
  | "election.inferLevels" => some do
      let hier ← natList (← field inp "hier")
      let tbl ← asList asTriple (← field inp "parentOf")
      let cell ← asList (asPair asNat parseOutRec) (← field inp "cell")
      return match inferLevels (lookup3 tbl) hier cell with
        | .ok c => jObj [("ok", jList (jPair jNat jOutRec) c)]
        | .error _ => jObj [("err", jStr "keyError")]
  | "election.assemble" => some do
      let kids ← natList (← field inp "kids")
      let tbl ← asList (asPair asNat natList) (← field inp "leaves")
      let leavesOf := fun c => ((tbl.find? (fun e => e.1 == c)).map (·.2)).getD []
      let (rows, types) := assembleRows kids leavesOf
      return jObj [("rows", jNats rows), ("types", jNats types)]
  | "election.cpm" => some do
      let xs ← ratList (← field inp "row")
      return jRats (cpm xs)
  | _ => none

end CTM.Drive.Election
