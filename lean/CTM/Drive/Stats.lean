import CTM.Drive.Util
import CTM.Drive.Tree
import CTM.Drive.Markers
import CTM.Model.Stats
import CTM.Model.StageFiles
open Lean

namespace CTM.Drive.Stats
open CTM CTM.Drive CTM.Stats

/-! JSON shapes
  row    = [n, [[sum, sumsq, gt0, gt1, ge1], ...]]
  cell   = [name, [v, ...]]
  file   = [pathId, [cell, ...]]
  table  = [[key, value], ...]
-/

def parseGStat (j : Json) : R GStat := do
  match ← asArr j with
  | [a, b, c, d, e] => return ⟨← asRat a, ← asRat b, ← asNat c, ← asNat d, ← asNat e⟩
  | _ => .error "gstat: 5 entries expected"

def parseRow (j : Json) : R Row := do
  let (n, gs) ← asPair asNat (asList parseGStat) j
  return ⟨n, gs⟩

def parseBuffer (j : Json) : R Buffer := asList parseRow j

def parseCell (j : Json) : R CellRec := do
  let (n, vs) ← asPair asNat ratList j
  return ⟨n, vs⟩

def parseFile (j : Json) : R (Nat × List CellRec) := asPair asNat (asList parseCell) j

def parseTable (j : Json) : R (List (Nat × Nat)) := asList (asPair asNat asNat) j

def jGStat (s : GStat) : Json :=
  Json.arr #[jRat s.sum, jRat s.sumsq, jNat s.gt0, jNat s.gt1, jNat s.ge1]

def jRow (r : Row) : Json := Json.arr #[jNat r.n, jList jGStat r.genes]

def jBuffer (b : Buffer) : Json := jList jRow b

def jExcept {α} (f : α → Json) : Except StatsErr α → Json
  | .ok a => jObj [("ok", f a)]
  | .error e => jObj [("err", jStr e.name)]

def jChunk (c : Chunk) : Json := Json.arr #[jNat c.file, jNat c.r0, jNat c.r1]

def jAgg (a : Agg) : Json :=
  jObj [("n", jNat a.n), ("mean", jList jRat a.mean), ("var", jList jRat a.var),
        ("gt0", jNats a.gt0), ("gt1", jNats a.gt1), ("ge1", jNats a.ge1)]

/-! stage files (C18 names): file = {clusterToRow, colNames, data, tree}, matrix = {cellIds, geneIds, data} -/

def parseStatsFile (j : Json) : R StageFiles.StatsFile := do
  let c2r ← parseTable (← field j "clusterToRow")
  let cols ← natList (← field j "colNames")
  let data ← parseBuffer (← field j "data")
  let t ← Tree.parseTree (← field j "tree")
  return { clusterToRow := c2r, colNames := cols, data := data, tree := t }

def parseMatrix (j : Json) : R StageFiles.Matrix := do
  return { cellIds := ← natList (← field j "cellIds"), geneIds := ← natList (← field j "geneIds"),
           data := ← asList ratList (← field j "data") }

def jMatrix (m : StageFiles.Matrix) : Json :=
  jObj [("cellIds", jNats m.cellIds), ("geneIds", jNats m.geneIds),
        ("data", jList (jList jRat) m.data)]

def jSE {α} (f : α → Json) : Except StageFiles.SErr α → Json
  | .ok a => jObj [("ok", f a)]
  | .error e => jObj [("err", jStr e.name)]

def jRefFile (r : StageFiles.RefFile) : Json :=
  jObj [("geneNames", jNats r.geneNames), ("nPairs", jNat r.nPairs),
        ("pairToIdx", jList (fun e => Json.arr #[jNat e.1.1, jNat e.1.2, jNat e.2]) r.pairToIdx)]

def handle : Handler := fun op inp =>
  match op with
  | "stats.leafMeans" => some do
      let f ← parseStatsFile (← field inp "file")
      return jSE jMatrix (StageFiles.leafMeans f)
  | "stats.refFile" => some do
      let leaves ← natList (← field inp "leaves")
      let names ← natList (← field inp "geneNames")
      return jRefFile (StageFiles.prepOutput leaves names)
  | "stats.taxonomyIdx" => some do
      let t ← Tree.parseTree (← field inp "tree")
      let names ← natList (← field inp "geneNames")
      let parent ← Markers.parseKey (fieldD inp "parent" Json.null)
      return jSE jNats (StageFiles.taxonomyIdx (StageFiles.prepOutput (StageFiles.leavesOf t) names) t parent)
  | "stats.markerTable" => some do
      let names ← natList (← field inp "geneNames")
      let chosen ← asList (asPair Markers.parseKey natList) (← field inp "chosen")
      let r : StageFiles.RefFile := { geneNames := names, pairToIdx := [], nPairs := 0 }
      return jSE Markers.jLookup (StageFiles.markerTable r (chosen.map (·.1))
        (fun p => (chosen.lookup p).getD []))
  | "stats.mapperNode" => some do
      let f ← parseStatsFile (← field inp "file")
      let lk ← Markers.parseLookup (← field inp "lookup")
      let q ← parseMatrix (← field inp "query")
      let m ← asNat (← field inp "m")
      let parent ← Markers.parseKey (fieldD inp "parent" Json.null)
      return jSE (fun (nd : StageFiles.NodeData) =>
        jObj [("query", jMatrix nd.query), ("reference", jMatrix nd.reference)])
        (StageFiles.mapperNode f lk q m parent)
  | "stats.precomputeLoads" => some do
      -- the OBSERVED assignment of chunks to workers: loads = [[[file, r0, r1], ...], ...]
      let nC ← asNat (← field inp "nClusters")
      let g ← asNat (← field inp "g")
      let tbl ← parseTable (← field inp "nameToRow")
      let files ← asList parseFile (← field inp "files")
      let loads ← asList (asList (asList asNat)) (← field inp "loads")
      let mk : List Nat → R Chunk := fun c =>
        match c with
        | [f, r0, r1] =>
          match files.lookup f with
          | some cells => .ok ⟨f, r0, r1, slice cells r0 r1⟩
          | none => .error "chunk of an unknown file"
        | _ => .error "chunk: [file, r0, r1] expected"
      let ls ← loads.mapM (fun l => l.mapM mk)
      return jExcept jBuffer (precomputeLoads nC g tbl ls)
  | "stats.precompute" => some do
      let nC ← asNat (← field inp "nClusters")
      let g ← asNat (← field inp "g")
      let tbl ← parseTable (← field inp "nameToRow")
      let files ← asList parseFile (← field inp "files")
      let rows ← asNat (← field inp "rows")
      let nProc ← asNat (← field inp "nProc")
      let gl ← asOption (asList natList) (fieldD inp "geneLists" Json.null)
      match gl with
      | none => return jExcept jBuffer (precompute nC g tbl files rows nProc)
      | some gl => return jExcept jBuffer (precomputeChecked gl nC g tbl files rows nProc)
  | "stats.worksplit" => some do
      -- files given by their sizes only: cells are dummies
      let sizes ← asList (asPair asNat asNat) (← field inp "sizes")
      let rows ← asNat (← field inp "rows")
      let nProc ← asNat (← field inp "nProc")
      let files := sizes.map (fun p => (p.1, List.replicate p.2 (⟨0, []⟩ : CellRec)))
      return jExcept (jList (jList jChunk)) (workSplit files rows nProc)
  | "stats.nameToRow" => some do
      let l2c ← asList (asPair asNat natList) (← field inp "leafToCells")
      return jExcept (jList (jPair jNat jNat)) (nameToRowOfTree l2c)
  | "stats.cellStat" => some do
      let vs ← ratList (← field inp "vals")
      return jRow (cellStat vs)
  | "stats.truncate" => some do
      let g ← asNat (← field inp "g")
      let data ← parseBuffer (← field inp "data")
      let o2r ← parseTable (← field inp "oldLeafToRow")
      let newLeaves ← natList (← field inp "newLeaves")
      let anc ← parseTable (← field inp "anc")
      return jExcept jBuffer (truncate g data o2r newLeaves anc)
  | "stats.mergeMax" => some do
      let files ← asList parseBuffer (← field inp "files")
      return jExcept jBuffer (mergeMax files)
  | "stats.aggregate" => some do
      let g ← asNat (← field inp "g")
      let data ← parseBuffer (← field inp "data")
      let c2r ← parseTable (← field inp "clusterToRow")
      let leaves ← natList (← field inp "leaves")
      return jExcept jAgg (aggregateStats g data c2r leaves)
  | _ => none

end CTM.Drive.Stats
