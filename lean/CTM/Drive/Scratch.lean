import CTM.Drive.Util
import CTM.Model.Scratch
import CTM.Generated.Resources
open Lean

namespace CTM.Drive.Scratch
open CTM CTM.Drive CTM.Scratch

def asPath (j : Json) : R Path := asList asStr j
def jPath (p : Path) : Json := jList jStr p

def parseKind (j : Json) : R Kind := do
  match ← asStr j with
  | "dir" => return .dir
  | "file" => return .file 0
  | s => .error s!"kind expected, got {s}"

def jKind : Option Kind → Json
  | none => Json.null
  | some .dir => jStr "dir"
  | some (.file _) => jStr "file"

def parseOp (j : Json) : R Op := do
  let p ← asPath (← field j "p")
  match ← asStr (← field j "op") with
  | "mkdtemp" => return .mkdtemp p
  | "mkstemp" => return .mkstemp p
  | "mkdir" => return .mkdir p
  | "write" => return .write p (← asNat (fieldD j "tok" (Json.num 1)))
  | "openRO" => return .openRO p
  | "listdir" => return .listdir p
  | "unlink" => return .unlink p
  | "rmdir" => return .rmdir p
  | "rmtree" => return .rmtree p
  | "move" => return .move p (← asPath (← field j "q"))
  | s => .error s!"unknown fs op {s}"

def parseDecl (j : Json) : R Decl := do
  return { scratch := ← asList asPath (fieldD j "scratch" (Json.arr #[])),
           outputs := ← asList asPath (fieldD j "outputs" (Json.arr #[])),
           inputs := ← asList asPath (fieldD j "inputs" (Json.arr #[])) }

def fsOf (init : List (Path × Kind)) : FS := fun q =>
  match init.find? (fun e => e.1 == q) with
  | some e => some e.2
  | none => none

def jOut (o : Out) : Json :=
  jObj [("norm", jNats o.norm), ("ret", jNats o.ret), ("exc", jNats o.exc)]

def skeletons : List (String × List CTM.Skeleton.Stmt) := [
  ("runMapping", CTM.Generated.runMapping),
  ("precompute", CTM.Generated.precompute),
  ("validateH5ad", CTM.Generated.validateH5ad),
  ("findMarkers", CTM.Generated.findMarkers),
  ("typeAssignment", CTM.Generated.typeAssignment),
  ("findMarkersFromPMask", CTM.Generated.findMarkersFromPMask),
  ("createPValueMask", CTM.Generated.createPValueMask),
  ("amalgamateH5ad", CTM.Generated.amalgamateH5ad),
  ("pivotCsrH5ad", CTM.Generated.pivotCsrH5ad),
  ("transposeByWayOfDisk", CTM.Generated.transposeByWayOfDisk),
  ("transposeOnDiskV2", CTM.Generated.transposeOnDiskV2),
  ("addSparseByGene", CTM.Generated.addSparseByGene),
  ("roundXToIntegers", CTM.Generated.roundXToIntegers)]

def handle : Handler := fun op inp =>
  match op with
  | "scratch.replay" => some do
      let init ← asList (asPair asPath parseKind) (← field inp "initial")
      let ops ← asList parseOp (← field inp "ops")
      let decl ← parseDecl (← field inp "decl")
      let probe ← asList asPath (← field inp "probe")
      let fs0 := fsOf init
      let fs1 := exec fs0 ops
      return jObj [
        ("footprintOk", jBool (footprintOk decl ops)),
        ("firstOutside", jOpt jNat (firstOutside decl [] ops 0)),
        ("firstNotOk", jOpt jNat (firstNotOk fs0 ops 0)),
        ("fresh", jList jPath (freshOf ops)),
        ("final", jList (fun p => Json.arr #[jPath p, jKind (fs1 p)]) probe)]
  | "scratch.skeleton" => some do
      return jObj (skeletons.map (fun (n, s) => (n, jOut (postL s []))))
  | "scratch.post" => some do
      -- analysis of a skeleton given as JSON is not needed: the generated ones are linked in
      .error "not supported"
  | _ => none

end CTM.Drive.Scratch
