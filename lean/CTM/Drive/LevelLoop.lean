import CTM.Drive.Util
import CTM.Drive.Tree
import CTM.Model.LevelLoop
import CTM.Drive.Markers
open Lean

namespace CTM.Drive.LevelLoop
open CTM CTM.Drive CTM.LevelLoop

/-! JSON forms
  parent  : null | [level, node]
  vote    : {"a": node, "p": rat, "c": rat|null, "ru": null | [[node, valid, corr, prob], ...]}
  oracle  : [[parent, cell, vote], ...]   (cell = a Nat naming the cell's expression vector)
  entry   : {"a", "p", "c", "ru": null | [[nodes],[rats],[rats]], "agg": rat|null, "d": bool|null}
  record  : {"id": cellId, "levels": [[level, entry], ...]}
-/

def parseParent (j : Json) : R Parent := asOption (asPair asNat asNat) j

def parseRunnerUp (j : Json) : R RunnerUp := do
  match ← asArr j with
  | [n, v, c, p] => return { node := ← asNat n, valid := ← asBool v, corr := ← asRat c, prob := ← asRat p }
  | _ => .error "runner-up 4-tuple expected"

def parseVote (j : Json) : R Vote := do
  let a ← asNat (← field j "a")
  let p ← asRat (← field j "p")
  let c ← asOption asRat (fieldD j "c" Json.null)
  let ru ← asOption (asList parseRunnerUp) (fieldD j "ru" Json.null)
  return { assignment := a, prob := p, corr := c, runnersUp := ru }

/-- a vote for a (parent, cell) the harness did not script: a node id no tree
contains, so that the model's answer cannot silently agree -/
def missingVote : Vote := { assignment := 4000000000, prob := 0, corr := none, runnersUp := none }

def parseOracle (j : Json) : R (Oracle Nat) := do
  let rows ← asList (fun r => do
    match ← asArr r with
    | [p, c, v] => return ((← parseParent p, ← asNat c), ← parseVote v)
    | _ => .error "oracle row [parent, cell, vote] expected") j
  return fun p _ c => (rows.lookup (p, c)).getD missingVote

def jEntry (e : Entry) : Json :=
  jObj [("a", jNat e.assignment), ("p", jRat e.prob), ("c", jOpt jRat e.corr),
        ("ru", jOpt (fun (a, c, p) => Json.arr #[jNats a, jList jRat c, jList jRat p]) e.ru),
        ("agg", jOpt jRat e.agg), ("d", jOpt jBool e.direct)]

def parseEntry (j : Json) : R Entry := do
  let a ← asNat (← field j "a")
  let p ← asRat (← field j "p")
  let c ← asOption asRat (fieldD j "c" Json.null)
  let ru ← asOption (fun r => do
    match ← asArr r with
    | [x, y, z] => return (← natList x, ← ratList y, ← ratList z)
    | _ => .error "ru triple expected") (fieldD j "ru" Json.null)
  let agg ← asOption asRat (fieldD j "agg" Json.null)
  let d ← asOption asBool (fieldD j "d" Json.null)
  return { assignment := a, prob := p, corr := c, ru := ru, agg := agg, direct := d }

def jLevels (ls : List (Level × Entry)) : Json := jList (jPair jNat jEntry) ls

def jRecord (r : Record) : Json := jObj [("id", jNat r.cellId), ("levels", jLevels r.levels)]

def parseRecord (j : Json) : R Record := do
  let id ← asNat (← field j "id")
  let ls ← asList (asPair asNat parseEntry) (← field j "levels")
  return { cellId := id, levels := ls }

def jExcept {α} (f : α → Json) : Except Err α → Json
  | .ok a => jObj [("ok", f a)]
  | .error e => jObj [("err", jStr e.name)]

def parseConfig (j : Json) : R Config := do
  let dl ← asOption asNat (fieldD j "dropLevel" Json.null)
  let fl ← asBool (fieldD j "flatten" (Json.bool false))
  let cs ← asNat (← field j "chunkSize")
  let np ← asNat (← field j "nProc")
  return { dropLevel := dl, flatten := fl, chunkSize := cs, nProc := np }

def handle : Handler := fun op inp =>
  match op with
  | "levelloop.run" => some do
      let t ← Tree.parseTree (← field inp "tree")
      let vote ← parseOracle (← field inp "oracle")
      let cells ← natList (← field inp "cells")
      return jObj [
        ("loop", jExcept (jList jLevels) (runLevelLoop t vote cells)),
        ("walk", jExcept (jList jLevels) (cells.mapM (walk t vote))),
        ("wf", jBool (wfb t))]
  | "levelloop.pipeline" => some do
      let t ← Tree.parseTree (← field inp "tree")
      let cfg ← parseConfig (← field inp "config")
      let vote ← parseOracle (← field inp "oracle")
      let ids ← natList (← field inp "ids")
      let cells ← natList (← field inp "cells")
      let order ← natList (← field inp "order")
      let n := cells.length
      let cs := effChunk n cfg.nProc cfg.chunkSize
      -- "borders": the chunk borders the workers were really handed (hook
      -- trace); absent => the clamp of the present code
      let borders ← asOption (asList (asPair asNat asNat)) (fieldD inp "borders" Json.null)
      let res := match borders with
        | some b => mapPipelineChunks t cfg vote ids cells b order
        | none => mapPipeline t cfg vote ids cells order
      return jObj [
        ("result", jExcept (jList jRecord) res),
        ("tiles", jBool (tilesB n (borders.getD (chunks n cs)))),
        ("runTree", jExcept Tree.jTree (runTree t cfg)),
        ("runTreeWf", jBool (match runTree t cfg with | .ok rt => wfb rt | .error _ => false)),
        ("effChunk", jNat cs),
        ("chunks", jList (jPair jNat jNat) (chunks n cs))]
  | "levelloop.setup" => some do
      -- tree + marker table after the drop_level / flatten blocks, and the
      -- root gene list of a flattened run (own spec + group E's full stage)
      let t ← Tree.parseTree (← field inp "tree")
      let cfg ← parseConfig (← field inp "config")
      let lk ← CTM.Drive.Markers.parseLookup (← field inp "lookup")
      let q ← natList (← field inp "Q")
      let r ← natList (← field inp "R")
      let m ← asNat (← field inp "m")
      let stageRoot : Json := match CTM.Markers.stage t lk r q m cfg.dropLevel cfg.flatten with
        | .ok o => jOpt jNats (o.used.lookup none)
        | .error e => jObj [("err", jStr e.name)]
      return jObj [
        ("setup", jExcept (fun (tl : RawTree × CTM.Markers.Lookup) =>
            jObj [("tree", Tree.jTree tl.1), ("lookup", CTM.Drive.Markers.jLookup tl.2)])
          (mapSetup t cfg lk)),
        ("flatRoot", jNats (flatRootGenes lk r q)),
        ("stageRoot", stageRoot)]
  | "levelloop.wf" => some do
      let t ← Tree.parseTree (← field inp "tree")
      return jBool (wfb t)
  | "levelloop.backfill" => some do
      let t ← Tree.parseTree (← field inp "tree")
      let rs ← asList parseRecord (← field inp "records")
      return jExcept (jList jRecord) (backfill t rs)
  | "levelloop.reorder" => some do
      let ids ← natList (← field inp "ids")
      let rs ← asList parseRecord (← field inp "records")
      return jExcept (jList jRecord) (reorderBlob ids rs)
  | "levelloop.chunks" => some do
      let n ← asNat (← field inp "n")
      let np ← asNat (← field inp "nProc")
      let cs ← asNat (← field inp "chunkSize")
      let e := effChunk n np cs
      return jObj [("effChunk", jNat e), ("chunks", jList (jPair jNat jNat) (chunks n e))]
  | _ => none

end CTM.Drive.LevelLoop
