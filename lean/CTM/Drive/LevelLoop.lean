import CTM.Drive.Util
open Lean

namespace CTM.Drive.LevelLoop
open CTM CTM.Drive

/-- ops of this module (stub: none yet) -/
def handle : Handler := fun op _inp =>
  match op with
  | _ => none

end CTM.Drive.LevelLoop
