import CTM.Drive.Util
import CTM.Drive.Tree
import CTM.Model.Markers
import CTM.Model.Normalize
open Lean

namespace CTM.Drive.Markers
open CTM CTM.Drive CTM.Markers CTM.Normalize

def parseKey (j : Json) : R PKey := asOption (asPair asNat asNat) j
def parseLookup (j : Json) : R Lookup := asList (asPair parseKey natList) j

def jKey (k : PKey) : Json := jOpt (jPair jNat jNat) k
def jLookup (lk : List (PKey × List Gene)) : Json := jList (jPair jKey jNats) lk

def jME {α} (f : α → Json) : Except MErr α → Json
  | .ok a => jObj [("ok", f a)]
  | .error e => jObj [("err", jStr e.name)]

def jNE {α} (f : α → Json) : Except NErr α → Json
  | .ok a => jObj [("ok", f a)]
  | .error e => jObj [("err", jStr e.name)]

def jCache (c : Cache) : Json :=
  jObj [("groups", jList (jPair jKey (jList (jPair jNat jNat))) c.groups),
        ("allQuery", jNats c.allQuery), ("allRef", jNats c.allRef)]

def parseNorm (j : Json) : R Norm := do
  match ← asStr j with
  | "raw" => return .raw
  | "log2CPM" => return .log2CPM
  | s => .error s!"bad normalization {s}"

def jRows (X : List (List Rat)) : Json := jList (jList jRat) X

def handle : Handler := fun op inp =>
  match op with
  | "markers.validate" => some do
      let t ← Tree.parseTree (← field inp "tree")
      let lk ← parseLookup (← field inp "lookup")
      let q ← natList (← field inp "Q")
      let m ← asNat (← field inp "m")
      return jME jLookup (validateLookup t q m lk)
  | "markers.createCache" => some do
      let t ← asOption Tree.parseTree (fieldD inp "tree" Json.null)
      let lk ← parseLookup (← field inp "lookup")
      let q ← natList (← field inp "Q")
      let r ← natList (← field inp "R")
      let m ← asNat (← field inp "m")
      match createCache t lk r q m with
      | .error e => return jObj [("err", jStr e.name)]
      | .ok c =>
        let ser : Json := match t with
          | none => Json.null
          | some t => jME jLookup (serialize t c)
        let rec_ : Json := match t with
          | none => Json.null
          | some t => jME (fun _ => Json.null) (reconcile t c)
        let asm : Json := jList (fun g => jPair jKey (jME jNats) (g.1, assemble c g.1)) c.groups
        return jObj [("ok", jCache c), ("serialize", ser), ("assemble", asm),
                     ("reconcile", rec_)]
  | "markers.stage" => some do
      let t ← Tree.parseTree (← field inp "tree")
      let lk ← parseLookup (← field inp "lookup")
      let q ← natList (← field inp "Q")
      let r ← natList (← field inp "R")
      let m ← asNat (← field inp "m")
      let dl ← asOption asNat (fieldD inp "dropLevel" Json.null)
      let fl ← asBool (fieldD inp "flatten" (Json.bool false))
      return jME (fun (o : StageOut) =>
        jObj [("reported", jLookup o.reported), ("used", jLookup o.used)])
        (stage t lk r q m dl fl)
  | "markers.flatten" => some do
      let lk ← parseLookup (← field inp "lookup")
      return jLookup (flattenLookup lk)
  | "norm.cpm" => some do
      let x ← asList ratList (← field inp "X")
      return jRows (convertToCpm x)
  | "norm.minSparse" => some do
      let d ← ratList (← field inp "stored")
      let c ← asOption asNat (fieldD inp "chunk" Json.null)
      let u ← asBool (fieldD inp "unsigned" (Json.bool false))
      let nm ← parseNorm (fieldD inp "norm" (Json.str "raw"))
      let mn := minSparse d c
      return jObj [("min", jNE jRat mn),
                   ("geZero", jNE (jPair jBool jRat) (isGeZero u mn)),
                   ("check", jNE (fun _ => Json.null) (negativeCheck nm u mn))]
  | "norm.minDense" => some do
      let x ← asList ratList (← field inp "X")
      let w ← asNat (← field inp "width")
      let c ← asOption (asPair asNat asNat) (fieldD inp "chunk" Json.null)
      let u ← asBool (fieldD inp "unsigned" (Json.bool false))
      let nm ← parseNorm (fieldD inp "norm" (Json.str "raw"))
      let mn := minDense x w c
      return jObj [("min", jNE jRat mn),
                   ("geZero", jNE (jPair jBool jRat) (isGeZero u mn)),
                   ("check", jNE (fun _ => Json.null) (negativeCheck nm u mn))]
  | "norm.node" => some do
      -- f = identity: the harness applies log2(1 + .) itself
      let x ← asList ratList (← field inp "X")
      let w ← asNat (← field inp "width")
      let genes ← natList (← field inp "genes")
      let nm ← parseNorm (← field inp "norm")
      let am ← natList (← field inp "allMarkers")
      let nmk ← natList (← field inp "nodeMarkers")
      let chunk := prepareChunk id x w genes nm am
      let renorm : Json := match chunk with
        | .ok c => jNE (fun _ => Json.null) (({ c with norm := .raw } : CBG).toLog2CPM id)
        | .error _ => Json.null
      return jObj [("chunk", jNE (fun (c : CBG) => jObj [("data", jRows c.data), ("genes", jNats c.genes)]) chunk),
                   ("node", jNE jRows (nodeData id x w genes nm am nmk)),
                   ("renormAfterDownsample", renorm)]
  | _ => none

end CTM.Drive.Markers
