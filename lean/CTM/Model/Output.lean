/-
  Model of the output serialisations of `cell_type_mapper`
  (src/cell_type_mapper/utils/output_utils.py, cli/from_specified_markers.py,
  taxonomy/taxonomy_tree.py: `to_str`, `label_to_name`, `level_to_name`).

  Core Lean only (no Mathlib): this file is linked into the driver executable.

  Conventions (DESIGN.md §3, CONTRIBUTING.md): every Python string (cell id,
  level label, node label, readable name, alias) is a `Nat` id from one string
  table kept by the harness, so "the name defaults to the label" is literally
  `fun label => label`.  A Python `dict` is an association list; a record's
  per-level dict is kept in hierarchy order (Python dict equality ignores the
  order, the harness canonicalises).  A float is an exact `Rat`
  (`float.as_integer_ratio`), `NaN`, or JSON `null` (`None`).
-/
namespace CTM.Output

abbrev Lvl := Nat
abbrev NodeId := Nat
abbrev StrId := Nat

/-- a number as the JSON output shows it: finite float (exact value), `NaN`,
or `null` (Python `None`) -/
inductive Num where
  | val (q : Rat)
  | nan
  | null
  deriving DecidableEq, Repr, Inhabited

/-- `arr[i] = x` on a float64 numpy array: `None` is stored as `NaN`, floats
are copied -/
def Num.toFloat : Num → Num
  | .null => .nan
  | x => x

/-- the Python exceptions reachable in the modelled functions -/
inductive Err where
  | keyError | indexError | typeError
  deriving DecidableEq, Repr, Inhabited

def Err.name : Err → String
  | .keyError => "KeyError" | .indexError => "IndexError" | .typeError => "TypeError"

/-- `cell[level]` of the extended JSON output -/
structure LevelRec where
  assignment : NodeId
  /-- `bootstrapping_probability` -/
  prob : Num
  /-- `avg_correlation` -/
  corr : Num
  /-- `aggregate_probability` -/
  agg : Num
  /-- `directly_assigned` -/
  direct : Bool
  /-- `runner_up_assignment` (absent = `none`) -/
  runAsg : Option (List NodeId)
  /-- `runner_up_probability` -/
  runProb : Option (List Num)
  /-- `runner_up_correlation` -/
  runCorr : Option (List Num)
  deriving DecidableEq, Repr, Inhabited

/-- one element of `results` -/
structure Record where
  cellId : StrId
  levels : List (Lvl × LevelRec)
  deriving DecidableEq, Repr, Inhabited

inductive NameKey where
  | name | alias
  deriving DecidableEq, Repr, Inhabited

/-- `name_mapper[level][label]`: a dict that may hold `name` and/or `alias` -/
structure NameEntry where
  name : Option StrId
  alias : Option StrId
  deriving DecidableEq, Repr, Inhabited

/-- `name_key in name_mapper[level][label]` / its value -/
def NameEntry.get (e : NameEntry) : NameKey → Option StrId
  | .name => e.name
  | .alias => e.alias

/-- the taxonomy dict as embedded in the output (`blob['taxonomy_tree']`):
`hierarchy`, one dict per level (node ↦ children, or ↦ cells at the leaf
level), and the optional name tables -/
structure Tree where
  hierarchy : List Lvl
  levels : List (Lvl × List (NodeId × List Nat))
  /-- `name_mapper[level][label][name|alias]` -/
  nameMapper : Option (List (Lvl × List (NodeId × NameEntry)))
  /-- `hierarchy_mapper[level]` -/
  hierarchyMapper : Option (List (Lvl × StrId))
  deriving DecidableEq, Repr, Inhabited

/-- the extended output, as far as the serialisers look into it -/
structure Blob where
  /-- `blob['taxonomy_tree']` -/
  tree : Tree
  /-- `blob['config']['type_assignment']['n_runners_up']` -/
  nRunners : Nat
  results : List Record
  deriving DecidableEq, Repr, Inhabited

/-! ### taxonomy look-ups -/

/-- `TaxonomyTree.leaf_level` = `hierarchy[-1]` -/
def Tree.leafLevel (t : Tree) : Option Lvl := t.hierarchy.getLast?

/-- `TaxonomyTree.nodes_at_level(level)` = `list(tree[level].keys())`
(`none`: level not in the tree, Python raises) -/
def Tree.nodesAt (t : Tree) (l : Lvl) : Option (List NodeId) :=
  (t.levels.lookup l).map (·.map (·.1))

/-- `TaxonomyTree.label_to_name(level, label, name_key)`: four nested
membership tests, each falling back to the label itself -/
def Tree.labelToName (t : Tree) (level : Lvl) (label : NodeId) (k : NameKey) : StrId :=
  match t.nameMapper with
  | none => label
  | some nm =>
    match nm.lookup level with
    | none => label
    | some m =>
      match m.lookup label with
      | none => label
      | some e =>
        match e.get k with
        | none => label
        | some s => s

/-- `TaxonomyTree.level_to_name(level_label)` -/
def Tree.levelToName (t : Tree) (level : Lvl) : StrId :=
  match t.hierarchyMapper with
  | none => level
  | some hm =>
    match hm.lookup level with
    | none => level
    | some s => s

/-- `to_str(drop_cells=True)` as data: every leaf's cell list becomes `[]`,
everything else (hierarchy, parent levels, name tables) is copied -/
def Tree.dropCells (t : Tree) : Tree :=
  { t with levels := t.levels.map (fun (l, m) =>
      if some l = t.leafLevel then (l, m.map (fun (n, _) => (n, []))) else (l, m)) }

/-- what `_run_mapping` embeds as `output['taxonomy_tree']`:
`tree_for_metadata = TaxonomyTree(json.loads(tree.to_str(drop_cells=True)))`,
built *before* `drop_level` / `flatten`, then
`json.loads(tree_for_metadata.to_str())`.  `dropLevel`/`flatten` are
arguments only to make explicit that they are not consulted. -/
def embeddedTree (t : Tree) (_dropLevel : Option Lvl) (_flatten : Bool) : Tree :=
  t.dropCells

/-! ### node ↔ integer tables -/

/-- `node_to_int[level][node]` where `node_to_int[level]` enumerates
`nodes_at_level(level)` (dict keys, hence distinct) -/
def indexIn (n : NodeId) : List NodeId → Option Nat
  | [] => none
  | x :: xs => if x = n then some 0 else (indexIn n xs).map (· + 1)

/-- Python list indexing with an integer (negative indices count from the
end) -/
def pyIndex {α} (l : List α) (i : Int) : Except Err α :=
  let j : Int := if i < 0 then i + l.length else i
  if j < 0 then .error .indexError
  else match l[j.toNat]? with
    | some a => .ok a
    | none => .error .indexError

/-! ### HDF5 side -/

/-- what the datasets hold for one `(cell, level)` -/
structure Slot where
  /-- `assignment[i_cell, i_level]` -/
  asg : Int
  /-- `bootstrapping_probability[i_cell, i_level]` -/
  prob : Num
  /-- `average_correlation[i_cell, i_level]` -/
  corr : Num
  /-- `aggregate_probability[i_cell, i_level]` -/
  agg : Num
  /-- `runner_up_assignment[i_cell, i_level, :]` (width `n_runners_up`) -/
  rAsg : List Int
  rProb : List Num
  rCorr : List Num
  deriving DecidableEq, Repr, Inhabited

/-- the three runner-up datasets (present iff `n_runners_up > 0`) -/
structure RunnerArrays where
  asg : List (List (List Int))
  prob : List (List (List Num))
  corr : List (List (List Num))
  deriving DecidableEq, Repr, Inhabited

/-- the HDF5 file written by `blob_to_hdf5` for a successful run -/
structure H5 where
  /-- inside the `metadata` dataset (everything but `results`) -/
  tree : Tree
  nRunners : Nat
  /-- `directly_assigned` (one flag per level) -/
  directlyAssigned : List Bool
  /-- `int_to_node` (JSON) -/
  intToNode : List (Lvl × List NodeId)
  cellId : List StrId
  assignment : List (List Int)
  prob : List (List Num)
  agg : List (List Num)
  corr : List (List Num)
  runners : Option RunnerArrays
  deriving DecidableEq, Repr, Inhabited

/-- the runner-up loop of `_blob_to_hdf5_results` for one `(cell, level)`:
`room` = slots left in the arrays' last axis.  Order of the failure sites as
in the Python loop body: node look-up, array slot, probability, correlation. -/
def encRunners (nodes : List NodeId) (hasArr : Bool) :
    (room : Nat) → List NodeId → List Num → List Num →
    Except Err (List Int × List Num × List Num)
  | room, [], _, _ =>
    .ok (List.replicate room (-1), List.replicate room (.val 0), List.replicate room (.val 0))
  | room, n :: ns, ps, cs =>
    match indexIn n nodes with
    | none => .error .keyError
    | some idx =>
      if !hasArr then .error .typeError
      else match room with
        | 0 => .error .indexError
        | room' + 1 =>
          match ps, cs with
          | p :: ps', c :: cs' =>
            match encRunners nodes hasArr room' ns ps' cs' with
            | .error e => .error e
            | .ok (ra, rp, rc) => .ok ((idx : Int) :: ra, p.toFloat :: rp, c.toFloat :: rc)
          | _, _ => .error .indexError

/-- one `(cell, level)` of the main loop of `_blob_to_hdf5_results` -/
def encLevel (nodes : List NodeId) (nRunners : Nat) (r : LevelRec) : Except Err Slot :=
  match indexIn r.assignment nodes with
  | none => .error .keyError
  | some idx =>
    match r.runAsg with
    | none =>
      .ok { asg := idx, prob := r.prob.toFloat, corr := r.corr.toFloat, agg := r.agg.toFloat,
            rAsg := List.replicate nRunners (-1),
            rProb := List.replicate nRunners (.val 0),
            rCorr := List.replicate nRunners (.val 0) }
    | some ra =>
      -- `cell[level]['runner_up_probability']` is only touched inside the loop
      match ra, r.runProb, r.runCorr with
      | [], _, _ =>
        .ok { asg := idx, prob := r.prob.toFloat, corr := r.corr.toFloat, agg := r.agg.toFloat,
              rAsg := List.replicate nRunners (-1),
              rProb := List.replicate nRunners (.val 0),
              rCorr := List.replicate nRunners (.val 0) }
      | _ :: _, some rp, some rc =>
        match encRunners nodes (decide (nRunners > 0)) nRunners ra rp rc with
        | .error e => .error e
        | .ok (a, p, c) =>
          .ok { asg := idx, prob := r.prob.toFloat, corr := r.corr.toFloat,
                agg := r.agg.toFloat, rAsg := a, rProb := p, rCorr := c }
      | n :: _, rp?, rc? =>
        -- a list is missing: node look-up, array slot, then the two lists in turn
        match indexIn n nodes with
        | none => .error .keyError
        | some _ =>
          if nRunners = 0 then .error .typeError
          else match rp? with
            | none => .error .keyError
            | some [] => .error .indexError
            | some (_ :: _) =>
              match rc? with
              | none => .error .keyError
              | some _ => .error .indexError

/-- the levels of one cell: `for i_level, level in enumerate(hierarchy)` -/
def encCell (t : Tree) (nRunners : Nat) (r : Record) : List Lvl → Except Err (List Slot)
  | [] => .ok []
  | l :: ls =>
    match r.levels.lookup l with
    | none => .error .keyError
    | some lr =>
      match t.nodesAt l with
      | none => .error .keyError
      | some nodes =>
        match encLevel nodes nRunners lr with
        | .error e => .error e
        | .ok s =>
          match encCell t nRunners r ls with
          | .error e => .error e
          | .ok ss => .ok (s :: ss)

def encCells (t : Tree) (nRunners : Nat) : List Record → Except Err (List (List Slot))
  | [] => .ok []
  | r :: rs =>
    match encCell t nRunners r t.hierarchy with
    | .error e => .error e
    | .ok row =>
      match encCells t nRunners rs with
      | .error e => .error e
      | .ok rows => .ok (row :: rows)

/-- first loop of `_blob_to_hdf5_results`:
`directly_assigned[i_level] = results[0][level]['directly_assigned']` and the
node tables -/
def firstFlags (t : Tree) (first : Record) : List Lvl → Except Err (List (Bool × Lvl × List NodeId))
  | [] => .ok []
  | l :: ls =>
    match first.levels.lookup l with
    | none => .error .keyError
    | some lr =>
      match t.nodesAt l with
      | none => .error .keyError
      | some nodes =>
        match firstFlags t first ls with
        | .error e => .error e
        | .ok rest => .ok ((lr.direct, l, nodes) :: rest)

/-- `blob_to_hdf5` (successful run: `taxonomy_tree` and `results` present) -/
def toH5 (b : Blob) : Except Err H5 :=
  match b.results with
  | [] =>
    -- `results[0]` (reached iff the hierarchy is not empty)
    match b.tree.hierarchy with
    | [] => .ok { tree := b.tree, nRunners := b.nRunners, directlyAssigned := [],
                  intToNode := [], cellId := [], assignment := [], prob := [], agg := [],
                  corr := [],
                  runners := if b.nRunners > 0 then some ⟨[], [], []⟩ else none }
    | _ :: _ => .error .indexError
  | first :: _ =>
    match firstFlags b.tree first b.tree.hierarchy with
    | .error e => .error e
    | .ok flags =>
      match encCells b.tree b.nRunners b.results with
      | .error e => .error e
      | .ok slots =>
        .ok { tree := b.tree, nRunners := b.nRunners,
              directlyAssigned := flags.map (·.1),
              intToNode := flags.map (·.2),
              cellId := b.results.map (·.cellId),
              assignment := slots.map (·.map (·.asg)),
              prob := slots.map (·.map (·.prob)),
              agg := slots.map (·.map (·.agg)),
              corr := slots.map (·.map (·.corr)),
              runners := if b.nRunners > 0 then
                  some { asg := slots.map (·.map (·.rAsg)),
                         prob := slots.map (·.map (·.rProb)),
                         corr := slots.map (·.map (·.rCorr)) }
                else none }

/-- the runner-up loop of `hdf5_to_blob`: stop at the first negative entry -/
def decRunners (nodes : List NodeId) :
    List Int → List Num → List Num → Except Err (List NodeId × List Num × List Num)
  | a :: as, p :: ps, c :: cs =>
    if a < 0 then .ok ([], [], [])
    else match pyIndex nodes a with
      | .error e => .error e
      | .ok n =>
        match decRunners nodes as ps cs with
        | .error e => .error e
        | .ok (ns, ps', cs') => .ok (n :: ns, p :: ps', c :: cs')
  | _, _, _ => .ok ([], [], [])

/-- one `(cell, level)` of `hdf5_to_blob` -/
def decLevel (intToNode : List (Lvl × List NodeId)) (hasR : Bool)
    (level : Lvl) (direct : Bool) (s : Slot) : Except Err (Lvl × LevelRec) :=
  match intToNode.lookup level with
  | none => .error .keyError
  | some nodes =>
    match pyIndex nodes s.asg with
    | .error e => .error e
    | .ok a =>
      if direct then
        if hasR then
          match decRunners nodes s.rAsg s.rProb s.rCorr with
          | .error e => .error e
          | .ok (ra, rp, rc) =>
            .ok (level, { assignment := a, prob := s.prob, corr := s.corr, agg := s.agg,
                          direct := true, runAsg := some ra, runProb := some rp,
                          runCorr := some rc })
        else
          .ok (level, { assignment := a, prob := s.prob, corr := s.corr, agg := s.agg,
                        direct := true, runAsg := some [], runProb := some [],
                        runCorr := some [] })
      else
        .ok (level, { assignment := a, prob := s.prob, corr := s.corr, agg := s.agg,
                      direct := false, runAsg := none, runProb := none, runCorr := none })

/-- `for i_level, level in enumerate(hierarchy)` of `hdf5_to_blob`; the
arrays are indexed `[i_cell, i_level]`, i.e. zipped with the hierarchy -/
def decCell (intToNode : List (Lvl × List NodeId)) (hasR : Bool) :
    List (Lvl × Bool × Slot) → Except Err (List (Lvl × LevelRec))
  | [] => .ok []
  | (l, d, s) :: rest =>
    match decLevel intToNode hasR l d s with
    | .error e => .error e
    | .ok x =>
      match decCell intToNode hasR rest with
      | .error e => .error e
      | .ok xs => .ok (x :: xs)

/-- the slot of `(i_cell, i_level)` re-assembled from the seven datasets
(struct of arrays → array of structs) -/
def slotRow (a : List Int) (p c g : List Num) (ra : List (List Int))
    (rp rc : List (List Num)) : List Slot :=
  (a.zip (p.zip (c.zip (g.zip (ra.zip (rp.zip rc)))))).map
    (fun (a, p, c, g, ra, rp, rc) =>
      { asg := a, prob := p, corr := c, agg := g, rAsg := ra, rProb := rp, rCorr := rc })

def decCells (hierarchy : List Lvl) (directlyAssigned : List Bool)
    (intToNode : List (Lvl × List NodeId)) (hasR : Bool) :
    List (StrId × List Slot) → Except Err (List Record)
  | [] => .ok []
  | (cid, row) :: rest =>
    match decCell intToNode hasR (hierarchy.zip (directlyAssigned.zip row)) with
    | .error e => .error e
    | .ok levels =>
      match decCells hierarchy directlyAssigned intToNode hasR rest with
      | .error e => .error e
      | .ok rs => .ok ({ cellId := cid, levels := levels } :: rs)

/-- `hdf5_to_blob` on a file that holds results -/
def ofH5 (h : H5) : Except Err Blob :=
  let blank3 {α} (m : List (List Int)) : List (List (List α)) := m.map (·.map (fun _ => []))
  let (hasR, ra, rp, rc) : Bool × List (List (List Int)) × List (List (List Num)) ×
      List (List (List Num)) :=
    match h.runners with
    | some r => (true, r.asg, r.prob, r.corr)
    | none => (false, blank3 h.assignment, blank3 h.assignment, blank3 h.assignment)
  let rows : List (List Slot) :=
    (h.assignment.zip (h.prob.zip (h.corr.zip (h.agg.zip (ra.zip (rp.zip rc)))))).map
      (fun (a, p, c, g, ra, rp, rc) => slotRow a p c g ra rp rc)
  match decCells h.tree.hierarchy h.directlyAssigned h.intToNode hasR (h.cellId.zip rows) with
  | .error e => .error e
  | .ok rs => .ok { tree := h.tree, nRunners := h.nRunners, results := rs }

/-! ### `OutInv`: what C01 / C03 establish about the extended output -/

/-- the number is a float (possibly `NaN`), not JSON `null` -/
def numOK : Num → Bool
  | .null => false
  | _ => true

def nodupB : List Nat → Bool
  | [] => true
  | x :: xs => !(xs.contains x) && nodupB xs

/-- one level of one record: the assignment is a node of its level, the flag
is the level's flag, the numbers are present; on a directly assigned level
the three runner-up lists are present, of equal length ≤ `n_runners_up`, and
name nodes of the level; on an inferred level they are absent -/
def levelOK (nodes : List NodeId) (nRunners : Nat) (flag : Bool) (lr : LevelRec) : Bool :=
  nodes.contains lr.assignment && (lr.direct == flag) &&
  numOK lr.prob && numOK lr.corr && numOK lr.agg &&
  (if flag then
    match lr.runAsg, lr.runProb, lr.runCorr with
    | some ra, some rp, some rc =>
      (ra.length == rp.length) && (ra.length == rc.length) && decide (ra.length ≤ nRunners) &&
      ra.all nodes.contains && rp.all numOK && rc.all numOK
    | _, _, _ => false
  else lr.runAsg.isNone && lr.runProb.isNone && lr.runCorr.isNone)

/-- every level entry of a record is `levelOK` w.r.t. the node list of its
level and the flag the *first* record has at that level (uniform flag) -/
def levelsOK (t : Tree) (nRunners : Nat) (first : Record) : List (Lvl × LevelRec) → Bool
  | [] => true
  | (l, lr) :: rest =>
    (match t.nodesAt l, first.levels.lookup l with
     | some nodes, some f => levelOK nodes nRunners f.direct lr
     | _, _ => false) && levelsOK t nRunners first rest

/-- `OutInv`: at least one cell; distinct level names; every record has
exactly the levels of the hierarchy (kept in hierarchy order) and each of
them is `levelOK` -/
def outInv (b : Blob) : Bool :=
  match b.results with
  | [] => false
  | first :: _ =>
    nodupB b.tree.hierarchy &&
    b.results.all (fun r =>
      (r.levels.map (·.1) == b.tree.hierarchy) && levelsOK b.tree b.nRunners first r.levels)

/-! ### CSV side -/

/-- round half to even of a rational -/
def roundHalfEven (q : Rat) : Int :=
  let f := q.floor
  let r := q - (f : Rat)
  if r < 1 / 2 then f
  else if 1 / 2 < r then f + 1
  else if f % 2 = 0 then f else f + 1

/-- the *value* printed by `'%.4f' % x` for the exact binary value `x` -/
def fmt4 (q : Rat) : Rat := (roundHalfEven (q * 10000) : Rat) / 10000

/-- the *text* printed by `'%.4f' % x` (`x` not the float `-0.0`) -/
def fmt4Str (q : Rat) : String :=
  let n := (roundHalfEven (q * 10000)).natAbs
  let frac := toString (n % 10000)
  (if q < 0 then "-" else "") ++ toString (n / 10000) ++ "." ++
    String.ofList (List.replicate (4 - frac.length) '0') ++ frac

/-- which JSON field feeds the confidence column -/
inductive ConfKey where
  | bootstrappingProbability | avgCorrelation
  deriving DecidableEq, Repr, Inhabited

/-- `_run_mapping`: `avg_correlation` / `correlation_coefficient` iff
`bootstrap_iteration == 1` -/
def confidenceKey (bootstrapIteration : Nat) : ConfKey :=
  if bootstrapIteration = 1 then .avgCorrelation else .bootstrappingProbability

def LevelRec.conf (r : LevelRec) : ConfKey → Num
  | .bootstrappingProbability => r.prob
  | .avgCorrelation => r.corr

/-- one CSV field -/
inductive Cell where
  /-- a string (cell id, label, name, alias) -/
  | str (s : StrId)
  /-- a float through `float_format='%.4f'`: the value printed -/
  | fixed4 (q : Rat)
  /-- a float in a column pandas turned into a `category` (column name
  contains `label`/`name`/`alias`/`assignment`): `float_format` is not
  applied, the float is written with its full `repr` -/
  | raw (q : Rat)
  /-- `None` / `NaN`: empty field -/
  | empty
  deriving DecidableEq, Repr, Inhabited

def confCell (tainted : Bool) : Num → Cell
  | .val q => if tainted then .raw q else .fixed4 (fmt4 q)
  | _ => .empty

/-! #### `blob_to_df`'s substring-based column typing

`blob_to_df` turns a column into a pandas `category` when its NAME contains one
of four words; `DataFrame.to_csv(float_format='%.4f')` does not format a
categorical column.  Column names are real text here (the rest of the model
keeps strings as ids). -/

/-- `'label' in col or 'name' in col or 'alias' in col or 'assignment' in col` -/
def taintWords : List String := ["label", "name", "alias", "assignment"]

/-- `w in s` (Python substring test) on character lists -/
def infixB (w : List Char) : List Char → Bool
  | [] => w.isEmpty
  | c :: s => w.isPrefixOf (c :: s) || infixB w s

/-- `w in s` -/
def strContains (s w : String) : Bool := infixB w.toList s.toList

/-- the column becomes categorical -/
def colIsCategory (col : String) : Bool := taintWords.any (strContains col)

/-- the JSON key of the confidence (`confidence_key`) -/
def ConfKey.keyName : ConfKey → String
  | .bootstrappingProbability => "bootstrapping_probability"
  | .avgCorrelation => "avg_correlation"

/-- the CSV label of the confidence (`confidence_label`) -/
def ConfKey.label : ConfKey → String
  | .bootstrappingProbability => "bootstrapping_probability"
  | .avgCorrelation => "correlation_coefficient"

/-- the dataframe column holding the confidence of a level when `blob_to_df`
types the columns: `f"{readable_level}_{element}"` (before `blob_to_csv`
renames it to `f"{readable_level}_{confidence_label}"`) -/
def dfConfColumn (readable : String) (ck : ConfKey) : String :=
  readable ++ "_" ++ ck.keyName

def csvConfColumn (readable : String) (ck : ConfKey) : String :=
  readable ++ "_" ++ ck.label

/-- the levels whose confidence column is categorical, from the text of the
readable level names -/
def taintOf (readableText : Lvl → String) (ck : ConfKey) (hierarchy : List Lvl) : List Lvl :=
  hierarchy.filter (fun l => colIsCategory (dfConfColumn (readableText l) ck))

inductive ColKind where
  | label | name | alias | conf
  deriving DecidableEq, Repr, Inhabited

/-- the columns `blob_to_csv` keeps, in order; `none` = `cell_id`; a column
is `f"{readable_level}_{kind}"` -/
def csvColumns (t : Tree) : List (Option (StrId × ColKind)) :=
  none :: t.hierarchy.flatMap (fun l =>
    let rl := t.levelToName l
    [some (rl, .label), some (rl, .name)]
      ++ (if some l = t.leafLevel then [some (rl, .alias)] else [])
      ++ [some (rl, .conf)])

/-- the fields of one level of one row (`blob_to_df` then the column
selection of `blob_to_csv`); `taint` = levels whose readable name contains
`label`, `name`, `alias` or `assignment` -/
def csvLevelCells (t : Tree) (taint : List Lvl) (ck : ConfKey) (l : Lvl) (lr : LevelRec) :
    List Cell :=
  [.str lr.assignment, .str (t.labelToName l lr.assignment .name)]
    ++ (if some l = t.leafLevel then [.str (t.labelToName l lr.assignment .alias)] else [])
    ++ [confCell (taint.contains l) (lr.conf ck)]

def csvLevels (t : Tree) (taint : List Lvl) (ck : ConfKey) (r : Record) :
    List Lvl → Except Err (List Cell)
  | [] => .ok []
  | l :: ls =>
    match r.levels.lookup l with
    | none => .error .keyError
    | some lr =>
      match csvLevels t taint ck r ls with
      | .error e => .error e
      | .ok rest => .ok (csvLevelCells t taint ck l lr ++ rest)

/-- one CSV row -/
def csvRow (t : Tree) (taint : List Lvl) (ck : ConfKey) (r : Record) : Except Err (List Cell) :=
  match csvLevels t taint ck r t.hierarchy with
  | .error e => .error e
  | .ok cells => .ok (.str r.cellId :: cells)

def csvRows (t : Tree) (taint : List Lvl) (ck : ConfKey) : List Record → Except Err (List (List Cell))
  | [] => .ok []
  | r :: rs =>
    match csvRow t taint ck r with
    | .error e => .error e
    | .ok row =>
      match csvRows t taint ck rs with
      | .error e => .error e
      | .ok rows => .ok (row :: rows)

/-- the `#` lines at the top of the CSV file -/
structure Comments where
  /-- `# metadata = <file name of the JSON output>` -/
  metadata : Option StrId
  /-- `# taxonomy hierarchy = [...]` -/
  hierarchy : List Lvl
  /-- `# readable taxonomy hierarchy = [...]`, only if it differs -/
  readable : Option (List StrId)
  /-- `algorithm:` `some true` = 'correlation' (flatten), `some false` =
  'hierarchical', `none` = no config given -/
  algorithmIsCorrelation : Option Bool
  deriving DecidableEq, Repr, Inhabited

def csvComments (t : Tree) (metadataName : Option StrId) (flatten : Option Bool) : Comments :=
  let readable := t.hierarchy.map t.levelToName
  { metadata := metadataName, hierarchy := t.hierarchy,
    readable := if readable ≠ t.hierarchy then some readable else none,
    algorithmIsCorrelation := flatten }

/-! ### `re_order_blob` -/

/-- `{c['cell_id']: c for c in results}[cid]`: the *last* record wins -/
def lookupLast (cid : StrId) : List Record → Option Record
  | [] => none
  | r :: rs =>
    match lookupLast cid rs with
    | some x => some x
    | none => if r.cellId = cid then some r else none

/-- `re_order_blob`: the records in the order of the query's `obs` index -/
def reorder (results : List Record) : List StrId → Except Err (List Record)
  | [] => .ok []
  | c :: cs =>
    match lookupLast c results with
    | none => .error .keyError
    | some r =>
      match reorder results cs with
      | .error e => .error e
      | .ok rs => .ok (r :: rs)

/-! ### `clean_for_json` (utils/utils.py) -/

/-- a Python value as `clean_for_json` distinguishes them -/
inductive PyVal where
  | none
  | bool (b : Bool)
  /-- `np.bool_` -/
  | npBool (b : Bool)
  | int (i : Int)
  /-- `np.int64` -/
  | npInt64 (i : Int)
  /-- `float` (`np.float64` is a subclass of `float`) -/
  | num (x : Num)
  | str (s : StrId)
  /-- anything else (`np.int32`, `np.float32`, a `Path`, …): returned as is -/
  | other (tag : Nat)
  | list (xs : List PyVal)
  | tuple (xs : List PyVal)
  /-- a `set` of integers, in whatever order it is enumerated -/
  | intSet (xs : List Int)
  /-- `np.ndarray`, given by its `.tolist()` -/
  | ndarray (xs : List PyVal)
  | dict (kvs : List (PyVal × PyVal))
  deriving Repr, Inhabited

mutual
/-- `clean_for_json`: `np.int64 → int`, `np.bool_ → bool`, list / tuple →
list, set → sorted list, ndarray → (cleaned) `.tolist()`, dict → dict with
cleaned keys and values, everything else untouched -/
def clean : PyVal → PyVal
  | .npInt64 i => .int i
  | .npBool b => .bool b
  | .list xs => .list (cleanList xs)
  | .tuple xs => .list (cleanList xs)
  | .intSet xs => .list ((xs.mergeSort (fun a b => decide (a ≤ b))).map .int)
  | .ndarray xs => .list (cleanList xs)
  | .dict kvs => .dict (cleanKVs kvs)
  | v => v
def cleanList : List PyVal → List PyVal
  | [] => []
  | x :: xs => clean x :: cleanList xs
def cleanKVs : List (PyVal × PyVal) → List (PyVal × PyVal)
  | [] => []
  | (k, v) :: rest => (clean k, clean v) :: cleanKVs rest
end

mutual
/-- made of `None`, `bool`, `int`, `float`, `str`, `list`, `dict` only: what
`json.dumps` encodes -/
def plain : PyVal → Bool
  | .npInt64 _ => false
  | .npBool _ => false
  | .other _ => false
  | .tuple _ => false
  | .intSet _ => false
  | .ndarray _ => false
  | .list xs => plainList xs
  | .dict kvs => plainKVs kvs
  | _ => true
def plainList : List PyVal → Bool
  | [] => true
  | x :: xs => plain x && plainList xs
def plainKVs : List (PyVal × PyVal) → Bool
  | [] => true
  | (k, v) :: rest => plain k && plain v && plainKVs rest
end

mutual
/-- no leaf of an unknown type -/
def noOther : PyVal → Bool
  | .other _ => false
  | .list xs => noOtherList xs
  | .tuple xs => noOtherList xs
  | .ndarray xs => noOtherList xs
  | .dict kvs => noOtherKVs kvs
  | _ => true
def noOtherList : List PyVal → Bool
  | [] => true
  | x :: xs => noOther x && noOtherList xs
def noOtherKVs : List (PyVal × PyVal) → Bool
  | [] => true
  | (k, v) :: rest => noOther k && noOther v && noOtherKVs rest
end

/-- the JSON value a Python value stands for -/
inductive JVal where
  | null
  | bool (b : Bool)
  | int (i : Int)
  | num (x : Num)
  | str (s : StrId)
  | other (tag : Nat)
  | arr (xs : List JVal)
  | obj (kvs : List (JVal × JVal))
  deriving Repr, Inhabited

mutual
/-- forget the Python container / scalar types (a set stands for the sorted
array of its elements) -/
def erase : PyVal → JVal
  | .none => .null
  | .bool b => .bool b
  | .npBool b => .bool b
  | .int i => .int i
  | .npInt64 i => .int i
  | .num x => .num x
  | .str s => .str s
  | .other t => .other t
  | .list xs => .arr (eraseList xs)
  | .tuple xs => .arr (eraseList xs)
  | .intSet xs => .arr ((xs.mergeSort (fun a b => decide (a ≤ b))).map .int)
  | .ndarray xs => .arr (eraseList xs)
  | .dict kvs => .obj (eraseKVs kvs)
def eraseList : List PyVal → List JVal
  | [] => []
  | x :: xs => erase x :: eraseList xs
def eraseKVs : List (PyVal × PyVal) → List (JVal × JVal)
  | [] => []
  | (k, v) :: rest => (erase k, erase v) :: eraseKVs rest
end

end CTM.Output
