/-
  Model of the process orchestration of `cell_type_mapper`:

    utils/multiprocessing_utils.py   winnow_process_list, winnow_process_dict
    the start / poll / drain loop shared by the parallel stages
      type_assignment/election.py        run_type_assignment_on_h5ad_cpu
      diff_exp/precompute_from_anndata.py _precompute_summary_stats_from_h5ad_and_lookup
      diff_exp/markers.py                create_sparse_by_pair_marker_file
      diff_exp/p_value_mask.py           _create_p_value_mask_file
      diff_exp/p_value_markers.py        create_sparse_by_pair_marker_file_from_p_mask
      marker_selection/selection_pipeline.py select_all_markers
      utils/csc_to_csr_parallel.py       _transpose_sparse_matrix_on_disk_v2
    cli/from_specified_markers.py    run_mapping (try / except / finally)
    utils/output_utils.py            blob_to_hdf5 (metadata only), re_order_blob
    the four ways worker results are merged (C04)

  Core Lean only (no Mathlib): linked into the driver executable.

  Conventions.  A worker is the `Nat` index of its dispatch (0 = first
  started).  What the operating system does is a parameter: `exit w` is the
  exit code worker `w` ends with, a *schedule* is the list of answers the
  successive polls get (`Poll` = the set of workers whose exit code is visible
  at that poll; nothing forces it to be monotone or fair).  A schedule that
  runs out while a `while` loop is still waiting is the loop spinning for
  ever (`Res.spin`), never a success.
-/
namespace CTM.Procs

/-- `multiprocessing.Process.exitcode`: `none` while the process runs -/
abbrev ExitCode := Option Int

/-! ### `winnow_process_list` -/

/-- first loop of `winnow_process_list`
```
to_pop = []
for ii in range(len(process_list)-1, -1, -1):
    if process_list[ii].exitcode is not None:
        to_pop.append(ii)
        if process_list[ii].exitcode != 0: raise RuntimeError
```
`rev` is the list of `(process, index)` from the last index down to 0. -/
def winnowScan {α} : List ((α × ExitCode) × Nat) → List Nat → Except Int (List Nat)
  | [], acc => .ok acc
  | ((_, none), _) :: r, acc => winnowScan r acc
  | ((_, some c), i) :: r, acc =>
    if c != 0 then .error c else winnowScan r (acc ++ [i])

/-- second loop: `for ii in to_pop: process_list.pop(ii)` -/
def popAll {α} (ps : List α) (toPop : List Nat) : List α :=
  toPop.foldl (fun l i => l.eraseIdx i) ps

/-- `winnow_process_list(process_list)`: the surviving list, or the exit code
in the `RuntimeError` -/
def winnowList {α} (ps : List (α × ExitCode)) : Except Int (List (α × ExitCode)) :=
  match winnowScan ps.zipIdx.reverse [] with
  | .error c => .error c
  | .ok toPop => .ok (popAll ps toPop)

/-! ### `winnow_process_dict` -/

/-- `winnow_process_dict(process_dict)`
```
key_list = list(process_dict.keys())
for k in key_list:
    if process_dict[k].exitcode is not None:
        if process_dict[k].exitcode != 0: raise RuntimeError(key=k, code)
        process_dict.pop(k)
```
The dict is its item list in insertion order (keys distinct, as in any Python
dict). -/
def winnowDict {κ} : List (κ × ExitCode) → Except (κ × Int) (List (κ × ExitCode))
  | [] => .ok []
  | (k, none) :: r =>
    match winnowDict r with
    | .ok r' => .ok ((k, none) :: r')
    | .error e => .error e
  | (k, some c) :: r =>
    if c != 0 then .error (k, c) else winnowDict r

/-! ### the poll loop -/

/-- which container a stage registers its started processes in, i.e. which
winnow function polls them -/
inductive Container where
  | list | dict
  deriving Repr, DecidableEq, Inhabited

/-- the workers whose exit code is visible at one poll -/
abbrev Poll := List Nat

/-- what `p.exitcode` shows for worker `w` at a poll -/
def view (exit : Nat → Int) (poll : Poll) (w : Nat) : ExitCode :=
  if poll.contains w then some (exit w) else none

/-- container contents: `(key, worker)`; for a list the key is not used -/
abbrev Procs := List (Nat × Nat)

/-- `process_list.append(p)` / `process_dict[key] = p` (an existing key is
overwritten in place: the process registered there before is forgotten) -/
def register : Container → Procs → Nat → Nat → Procs
  | .list, c, k, w => c ++ [(k, w)]
  | .dict, c, k, w =>
    if c.any (fun e => e.1 == k) then c.map (fun e => if e.1 == k then (k, w) else e)
    else c ++ [(k, w)]

/-- one `container = winnow_process_*(container)` at a poll -/
def winnow (kind : Container) (exit : Nat → Int) (poll : Poll) (c : Procs) :
    Except Int Procs :=
  match kind with
  | .list =>
    match winnowList (c.map fun e => (e, view exit poll e.2)) with
    | .ok r => .ok (r.map (·.1))
    | .error code => .error code
  | .dict =>
    match winnowDict (c.map fun e => (e, view exit poll e.2)) with
    | .ok r => .ok (r.map (·.1))
    | .error (_, code) => .error code

inductive WaitRes where
  | done (procs : Procs) (sched : List Poll)
  | failed (code : Int)
  | spin
  deriving Repr, DecidableEq

/-- `while len(container) >= limit: container = winnow(container)`; every
iteration consumes one poll of the schedule -/
def waitBelow (kind : Container) (exit : Nat → Int) (limit : Nat) :
    Procs → List Poll → WaitRes
  | procs, [] => if procs.length < limit then .done procs [] else .spin
  | procs, poll :: rest =>
    if procs.length < limit then .done procs (poll :: rest)
    else match winnow kind exit poll procs with
      | .error c => .failed c
      | .ok procs' => waitBelow kind exit limit procs' rest

/-- the in-loop poll of `select_all_markers`
```
while len(process_dict) >= n_processors or not have_chosen_parent:
    k0 = set(process_dict.keys()); process_dict = winnow_process_dict(process_dict)
    k1 = set(process_dict.keys())
    if len(k1) < len(k0): completed_parents |= k0 - k1; have_chosen_parent = True
```
`blocked` = `not have_chosen_parent`: no work item could be chosen in this
iteration (a "behemoth" is still running); it is cleared as soon as a poll
removes a process -/
def waitBelowOrBlocked (kind : Container) (exit : Nat → Int) (limit : Nat) :
    Bool → Procs → List Poll → WaitRes
  | blocked, procs, [] => if procs.length < limit && !blocked then .done procs [] else .spin
  | blocked, procs, poll :: rest =>
    if procs.length < limit && !blocked then .done procs (poll :: rest)
    else match winnow kind exit poll procs with
      | .error c => .failed c
      | .ok procs' =>
        waitBelowOrBlocked kind exit limit (blocked && !(procs'.length < procs.length)) procs' rest

/-! ### skeleton IR of a parallel stage (the translator's target) -/

/-- statements of the dispatch loop body -/
inductive LoopStmt where
  /-- the child seed is drawn from the parent generator
  (`np.random.default_rng(rng.integers(...))` in the `Process(...)` call) -/
  | draw
  /-- `p.start()`; `registered` = the next statements put `p` into the polled
  container -/
  | start (registered : Bool)
  /-- `while len(c) >= n_processors: c = winnow(c)` -/
  | pollWhileFull
  /-- `while len(c) >= n_processors or not have_chosen: c = winnow(c); if
  shrank: have_chosen = True` (`select_all_markers`) -/
  | pollWhileFullOrBlocked
  deriving Repr, DecidableEq, Inhabited

/-- statements of the stage, in source order (calls into the next function of
the stage's call chain are inlined by the translator) -/
inductive Stmt where
  /-- a statement that creates / extends the file at the requested output
  location (tag = the callee) -/
  | writeOut (tag : String)
  /-- the loop over the work items -/
  | dispatch (body : List LoopStmt)
  /-- `while len(c) > 0: c = winnow(c)` -/
  | drain
  /-- `shutil.move(src=<scratch>, dst=<requested output>)` -/
  | moveIntoPlace
  deriving Repr, DecidableEq, Inhabited

/-- how the stage combines what its workers produced (C04) -/
inductive Merge where
  /-- results appended to a shared list / per-chunk files, then re-keyed by
  cell id (`re_order_blob`) -/
  | appendRekey
  /-- per-worker buffers summed in creation order (`buffer_path_list`) -/
  | sumCreationOrder
  /-- per-chunk files in a dict keyed by first index, merged in sorted key order -/
  | sortedKeys
  /-- per-chunk files in a list filled at dispatch, concatenated in that order -/
  | concatCreationOrder
  /-- results stored in a dict keyed by the work item (`output_dict[parent]`) -/
  | dictByKey
  /-- the translator did not recognise the merge -/
  | unknown
  deriving Repr, DecidableEq, Inhabited

structure Stage where
  name : String
  container : Container
  prog : List Stmt
  /-- scratch directory removed in a `finally` of the call chain -/
  tryFinally : Bool
  merge : Merge
  /-- dict stages: the key under which a process is registered is distinct for
  distinct workers by construction - it is the loop variable of a
  `for k in range(...)` dispatch loop, or a value chosen under `if x not in
  started:` and added to that set before the registration (`KeysOK` of the
  theorems).  `true` for list stages. -/
  keysDistinct : Bool := true
  deriving Repr, DecidableEq, Inhabited

structure Env where
  nItems : Nat
  nProc : Nat
  /-- key under which worker `w` is registered (dict stages) -/
  keyOf : Nat → Nat
  exit : Nat → Int
  /-- `select_all_markers`: in the iteration that follows the start of worker
  `w` no further work item can be chosen yet (a behemoth is running); any
  pattern is allowed, the theorems quantify over it -/
  blocked : Nat → Bool := fun _ => false

structure St where
  procs : Procs := []
  /-- number of workers started so far (their ids are `0 … started-1`) -/
  started : Nat := 0
  sched : List Poll := []
  /-- tags of the writes that have happened at the requested output location -/
  file : List String := []
  /-- draws taken from the parent generator so far -/
  draws : Nat := 0
  /-- `(worker, index of the parent draw that seeded it)` -/
  seeds : List (Nat × Nat) := []
  deriving Repr, DecidableEq, Inhabited

inductive Res where
  | ok (s : St)
  /-- the stage function raised `RuntimeError(exit code …)` -/
  | failed (code : Int) (s : St)
  /-- a `while` loop waits for ever -/
  | spin (s : St)
  deriving Repr, DecidableEq

def execLoopStmt (kind : Container) (env : Env) : LoopStmt → St → Res
  | .draw, s => .ok { s with draws := s.draws + 1, seeds := s.seeds ++ [(s.started, s.draws)] }
  | .start reg, s =>
    .ok { s with started := s.started + 1,
                 procs := if reg then register kind s.procs (env.keyOf s.started) s.started
                          else s.procs }
  | .pollWhileFull, s =>
    match waitBelow kind env.exit env.nProc s.procs s.sched with
    | .done p sc => .ok { s with procs := p, sched := sc }
    | .failed c => .failed c s
    | .spin => .spin s
  | .pollWhileFullOrBlocked, s =>
    match waitBelowOrBlocked kind env.exit env.nProc (env.blocked s.started) s.procs s.sched with
    | .done p sc => .ok { s with procs := p, sched := sc }
    | .failed c => .failed c s
    | .spin => .spin s

def execBody (kind : Container) (env : Env) : List LoopStmt → St → Res
  | [], s => .ok s
  | st :: r, s =>
    match execLoopStmt kind env st s with
    | .ok s' => execBody kind env r s'
    | res => res

/-- `for item in items: body` -/
def execDispatch (kind : Container) (env : Env) (body : List LoopStmt) : Nat → St → Res
  | 0, s => .ok s
  | n + 1, s =>
    match execBody kind env body s with
    | .ok s' => execDispatch kind env body n s'
    | res => res

def execStmt (kind : Container) (env : Env) : Stmt → St → Res
  | .writeOut tag, s => .ok { s with file := s.file ++ [tag] }
  | .moveIntoPlace, s => .ok { s with file := s.file ++ ["shutil.move"] }
  | .dispatch body, s => execDispatch kind env body env.nItems s
  | .drain, s =>
    match waitBelow kind env.exit 1 s.procs s.sched with
    | .done p sc => .ok { s with procs := p, sched := sc }
    | .failed c => .failed c s
    | .spin => .spin s

def exec (kind : Container) (env : Env) : List Stmt → St → Res
  | [], s => .ok s
  | st :: r, s =>
    match execStmt kind env st s with
    | .ok s' => exec kind env r s'
    | res => res

/-- the tags a complete run writes at the requested output location -/
def writes : List Stmt → List String
  | [] => []
  | .writeOut tag :: r => tag :: writes r
  | .moveIntoPlace :: r => "shutil.move" :: writes r
  | _ :: r => writes r

def Stmt.isSync : Stmt → Bool
  | .dispatch _ => true
  | .drain => true
  | _ => false

/-- what can be at the requested output location when the stage fails: the
writes preceding some dispatch loop / drain -/
def failureFiles : List Stmt → List (List String)
  | [] => []
  | st :: r =>
    let rest := (failureFiles r).map (fun f => writes [st] ++ f)
    if st.isSync then [] :: rest else rest

/-- every `p.start()` is followed by the registration of `p` -/
def allRegistered : List Stmt → Bool
  | [] => true
  | .dispatch body :: r => body.all (fun ls => ls != .start false) && allRegistered r
  | _ :: r => allRegistered r

/-- every dispatch loop is followed by a drain (`pending` = a loop has run and
no drain since) -/
def drainedFrom : Bool → List Stmt → Bool
  | pending, [] => !pending
  | _, .dispatch _ :: r => drainedFrom true r
  | _, .drain :: r => drainedFrom false r
  | pending, _ :: r => drainedFrom pending r

def wellFormed (prog : List Stmt) : Bool := allRegistered prog && drainedFrom false prog

/-- the stage has a dispatch loop at all (an unrecognised stage is emitted by
the translator with an empty program) -/
def hasDispatch : List Stmt → Bool
  | [] => false
  | .dispatch _ :: _ => true
  | _ :: r => hasDispatch r

/-- what `./check` demands of every regenerated stage skeleton -/
def Stage.ok (s : Stage) : Bool :=
  wellFormed s.prog && hasDispatch s.prog && s.merge != .unknown && s.keysDistinct

/-- the skeleton every stage is expected to have:
```
for item in items:
    p = Process(...); p.start(); container.register(p)
    while len(container) >= n_processors: container = winnow(container)
while len(container) > 0: container = winnow(container)
``` -/
def canonicalProg : List Stmt := [.dispatch [.start true, .pollWhileFull], .drain]

inductive Outcome where
  | ok | failed (code : Int) | spin
  deriving Repr, DecidableEq

def Res.outcome : Res → Outcome
  | .ok _ => .ok
  | .failed c _ => .failed c
  | .spin _ => .spin

def Res.state : Res → St
  | .ok s => s
  | .failed _ s => s
  | .spin s => s

/-- the common start / poll / drain loop on `nItems` work items -/
def pollLoop (kind : Container) (nItems nProc : Nat) (keyOf : Nat → Nat)
    (sched : List Poll) (exit : Nat → Int) : Res :=
  exec kind { nItems, nProc, keyOf, exit } canonicalProg { sched := sched }

/-! ### `run_mapping` (cli/from_specified_markers.py) -/

/-- what `_run_mapping` does, as far as `run_mapping` can tell -/
structure InnerRun where
  /-- `run_type_assignment_on_h5ad` raised (a worker failed): nothing after it
  in `_run_mapping` is executed -/
  assignRaises : Bool
  /-- `config['csv_result_path'] is not None` -/
  csvRequested : Bool
  /-- a step of `_run_mapping` after the CSV was written raises (obsm append…) -/
  lateRaises : Bool := false
  /-- the `summary_metadata_path` block of `run_mapping` raises -/
  summaryRaises : Bool := false
  /-- `log_path`, `output_path`, `hdf5_output_path` are given -/
  logRequested : Bool := true
  jsonRequested : Bool := true
  hdf5Requested : Bool := true
  deriving Repr, DecidableEq, Inhabited

inductive LogLine where
  | info (msg : String)     -- anything `_run_mapping` logs on its way
  | success                 -- "MAPPING FROM SPECIFIED MARKERS RAN SUCCESSFULLY"
  | traceback               -- "an ERROR occurred ===="
  | cleaningUp              -- "CLEANING UP"
  deriving Repr, DecidableEq, Inhabited

/-- the keys of the `output` dict -/
abbrev Keys := List String

/-- `_run_mapping`: `(raised, csv written, returned keys)` -/
def innerRun (r : InnerRun) : Bool × Bool × Keys :=
  if r.assignRaises then (true, false, [])
  else
    let csv := r.csvRequested
    if r.lateRaises then (true, csv, [])
    else (false, csv, ["results", "marker_genes", "taxonomy_tree", "n_unmapped_genes"])

/-- datasets `blob_to_hdf5` creates for an output blob with these keys:
`metadata` always (a JSON dict of every key but `results`); the result
datasets only if both `taxonomy_tree` and `results` are present -/
def resultDatasets : List String :=
  ["cell_identifiers", "assignment", "bootstrapping_probability",
   "aggregate_probability", "avg_correlation", "runner_up_assignment",
   "runner_up_probability", "runner_up_correlation", "node_to_int",
   "taxonomy_tree", "directly_assigned", "level_list"]

def blobToHdf5 (keys : Keys) : Keys × List String :=
  let metadata := keys.filter (· != "results")
  let succeeded := keys.contains "taxonomy_tree" && keys.contains "results"
  (metadata, "metadata" :: (if succeeded then resultDatasets else []))

structure MappingWorld where
  raised : Bool
  /-- keys of the JSON written at `output_path` (none = no file) -/
  json : Option Keys
  /-- `(keys of the metadata dataset, dataset names)` of the HDF5 file -/
  hdf5 : Option (Keys × List String)
  csv : Bool
  /-- the log file, if written -/
  logFile : Option (List LogLine)
  deriving Repr, DecidableEq

/-- `run_mapping`
```
output = dict()
try:
    output = _run_mapping(...)
    [summary metadata]
    log.info("... RAN SUCCESSFULLY")
except Exception:
    log.add_msg(traceback); raise
finally:
    for scratch_dir in (tmp_result_dir, tmp_dir):
        try: _clean_up(scratch_dir)
        except OSError: log.add_msg("could not remove scratch directory")
    log.info("CLEANING UP"); write log
    output["config"], output["log"], output["metadata"] = ...
    write JSON; blob_to_hdf5
``` -/
def runMapping (r : InnerRun) : MappingWorld :=
  let (innerRaised, csv, innerKeys) := innerRun r
  -- try block
  let output₀ : Keys := []
  let (raised, output, log) :=
    if innerRaised then (true, output₀, [LogLine.info "run", .traceback])
    else
      let output := innerKeys
      if r.summaryRaises then (true, output, [LogLine.info "run", .traceback])
      else (false, output, [LogLine.info "run", .success])
  -- finally block
  let log := log ++ [.cleaningUp]
  let output := output ++ ["config", "log", "metadata"]
  { raised := raised
    json := if r.jsonRequested then some output else none
    hdf5 := if r.hdf5Requested then some (blobToHdf5 output) else none
    csv := csv
    logFile := if r.logRequested then some log else none }

/-- the shape of `run_mapping` the model above depends on; the translator
re-extracts it from the source on every run -/
structure MappingShape where
  /-- `output = dict()` precedes the `try` -/
  outputInitEmpty : Bool
  /-- the first statement of the `try` that touches `output` is
  `output = _run_mapping(...)` -/
  outputAssignedFromInner : Bool
  /-- the success line is logged inside the `try`, after that assignment, as
  its last statement -/
  successLoggedLastInTry : Bool
  /-- `except Exception:` logs and ends with a bare `raise` -/
  exceptReraises : Bool
  /-- in `finally`: `log.write_log(log_path)`, JSON dump to `output_path`,
  `blob_to_hdf5(dst_path=hdf5_output_path)` -/
  finallyWritesLog : Bool
  finallyWritesJson : Bool
  finallyWritesHdf5 : Bool
  /-- no `return` inside `finally` (it would swallow the exception) -/
  finallyHasNoReturn : Bool
  /-- every `_clean_up(...)` in `finally` that precedes the writing of the log
  / JSON / HDF5 sits in a `try` with an `except OSError` handler, so a scratch
  directory that cannot be removed (an orphaned worker still writing into it)
  cannot pre-empt those writes -/
  finallyCleanupGuarded : Bool
  /-- in `_run_mapping`: `blob_to_csv` comes after `run_type_assignment_on_h5ad`
  and `output["results"]` is assigned after both -/
  csvAfterAssignment : Bool
  resultsAfterAssignment : Bool
  /-- `blob_to_hdf5` skips the key `results` in the metadata and writes result
  datasets only under `run_succeeded` -/
  hdf5SkipsResults : Bool
  hdf5ResultsGuarded : Bool
  deriving Repr, DecidableEq, Inhabited

def expectedMappingShape : MappingShape :=
  { outputInitEmpty := true, outputAssignedFromInner := true,
    successLoggedLastInTry := true, exceptReraises := true,
    finallyWritesLog := true, finallyWritesJson := true, finallyWritesHdf5 := true,
    finallyHasNoReturn := true, finallyCleanupGuarded := true, csvAfterAssignment := true,
    resultsAfterAssignment := true, hdf5SkipsResults := true,
    hdf5ResultsGuarded := true }

/-! ### merging worker results (C04)

A *completion order* is the list of the workers' records in the order the
workers finished: any permutation of the dispatch-order list.  Keys (cell ids,
scratch paths, first pair index, parent ids) are `Nat` ids. -/

/-- Python `dict` assignment `d[k] = v` on the item list -/
def dictSet {ν} (d : List (Nat × ν)) (k : Nat) (v : ν) : List (Nat × ν) :=
  if d.any (fun e => e.1 == k) then d.map (fun e => if e.1 == k then (k, v) else e)
  else d ++ [(k, v)]

/-- `{k: v for (k, v) in items}` / a store filled record by record -/
def dictOfList {ν} (items : List (Nat × ν)) : List (Nat × ν) :=
  items.foldl (fun d e => dictSet d e.1 e.2) []

/-- `d[k]` (`none` = KeyError / missing file) -/
def dictGet {ν} (d : List (Nat × ν)) (k : Nat) : Option ν := d.lookup k

/-- `[f(x) for x in xs]` where any `f(x)` may raise: `none` if one does -/
def collect {α} : List (Option α) → Option (List α)
  | [] => some []
  | none :: _ => none
  | some a :: r => (collect r).map (a :: ·)

/-- the workers' outputs in the order the workers completed -/
def gather {ρ} (results : List ρ) (completion : List Nat) : List ρ :=
  completion.filterMap (fun w => results[w]?)

/-- `re_order_blob(results_blob, query_path)`:
`{c['cell_id']: c for c in blob}` then `[blob[c] for c in cell_order]` -/
def reorderBlob {ν} (blob : List (Nat × ν)) (cellOrder : List Nat) : Option (List (Nat × ν)) :=
  let d := dictOfList blob
  collect (cellOrder.map (fun c => (dictGet d c).map (fun v => (c, v))))

/-- discipline 1 (mapping): each worker appends its cells' records to the
shared list under the lock (or writes its own chunk file; the files are
concatenated in *some* order); the concatenation is re-keyed by cell id.
`doneChunks` = the per-chunk record lists in completion order. -/
def mergeAppendRekey {ν} (doneChunks : List (List (Nat × ν))) (cellOrder : List Nat) :
    Option (List (Nat × ν)) :=
  reorderBlob doneChunks.flatten cellOrder

/-- discipline 2 (statistics): every worker writes its buffer to its own
scratch path when it completes (`done` = `(path, buffer)` in completion
order); the buffers are read back and added up in creation order
(`for buffer_path in buffer_path_list`).  `none` = a buffer file is missing. -/
def mergeSumCreationOrder {β} (add : β → β → β) (zero : β) (paths : List Nat)
    (done : List (Nat × β)) : Option β :=
  (collect (paths.map (dictGet (dictOfList done)))).map (fun bs => bs.foldl add zero)

/-- insertion into an ascending list -/
def insertKey (k : Nat) : List Nat → List Nat
  | [] => [k]
  | x :: r => if k ≤ x then k :: x :: r else x :: insertKey k r

/-- `list.sort()` on integer keys (insertion sort: any sorting algorithm gives
the same list) -/
def sortKeys (ks : List Nat) : List Nat := ks.foldr insertKey []

/-- discipline 3 (reference markers, p-value mask): chunk files keyed by their
first index (`done` = `(first index, chunk)` in completion order), merged
`for k in sorted(keys)` -/
def mergeSortedKeys {ρ} (done : List (Nat × ρ)) : Option (List ρ) :=
  let store := dictOfList done
  collect ((sortKeys (store.map (·.1))).map (dictGet store))

/-- discipline 3' (parallel transposition): chunk files in a list filled at
dispatch (`paths`), concatenated in that order -/
def mergeConcatCreationOrder {ρ} (paths : List Nat) (done : List (Nat × ρ)) : Option (List ρ) :=
  collect (paths.map (dictGet (dictOfList done)))

/-- discipline 4 (query marker selection): `output_dict[parent] = markers` at
completion; the result is the mapping, read here for the keys the caller asks
for -/
def mergeDictByKey {ρ} (done : List (Nat × ρ)) (ask : List Nat) : List (Option ρ) :=
  ask.map (dictGet (dictOfList done))

/-! ### chunking of the mapping stage and dispatch-order seeds -/

/-- `chunk_size = min(max(1, ceil(n_rows/n_processors)), chunk_size)` -/
def effChunk (nRows nProc chunkSize : Nat) : Nat :=
  min (max 1 ((nRows + nProc - 1) / nProc)) chunkSize

/-- `(r0, r1)` of the row chunks: `range(0, n, step)`, fuel-bounded -/
def chunksFrom (n step : Nat) : Nat → Nat → List (Nat × Nat)
  | 0, _ => []
  | fuel + 1, r0 =>
    if r0 < n then (r0, min n (r0 + step)) :: chunksFrom n step fuel (r0 + step) else []

def chunks (n step : Nat) : List (Nat × Nat) := chunksFrom n step n 0

/-- dispatch: chunk `k` gets the `k`-th draw of the parent generator -/
def dispatchSeeds {σ} (cs : List (Nat × Nat)) (draws : Nat → σ) : List ((Nat × Nat) × σ) :=
  cs.zipIdx.map (fun (c, k) => (c, draws k))

/-- the per-chunk outputs of the mapping stage in dispatch order: chunks by
`effChunk`, seeds by dispatch order, worker = a function of (rows, seed) -/
def mapStageResults {σ ν} (nRows nProc chunkSize : Nat) (draws : Nat → σ)
    (worker : (Nat × Nat) → σ → List (Nat × ν)) : List (List (Nat × ν)) :=
  (dispatchSeeds (chunks nRows (effChunk nRows nProc chunkSize)) draws).map
    (fun j => worker j.1 j.2)

/-! ### feasible completion orders (for the C04 harness) -/

/-- insert `x` at every position -/
def insertEverywhere {α} (x : α) : List α → List (List α)
  | [] => [[x]]
  | y :: r => (x :: y :: r) :: (insertEverywhere x r).map (y :: ·)

def permutations {α} : List α → List (List α)
  | [] => [[]]
  | x :: r => (permutations r).flatMap (insertEverywhere x)

/-- is `order` a completion order the start/poll loop can produce with
`nProc` slots?  Worker `w` completes after it was started, and it is started
only once fewer than `nProc` of the workers `< w` are outstanding; so when `w`
completes at least `w + 1 - nProc` of the workers `< w` have completed. -/
def feasibleOrder (nProc : Nat) (order : List Nat) : Bool :=
  order.zipIdx.all (fun (w, pos) =>
    -- workers before `w` in dispatch order that completed before position pos
    let earlierDone := ((order.take pos).filter (· < w)).length
    w + 1 ≤ earlierDone + nProc)

def completionOrders (nWorkers nProc : Nat) : List (List Nat) :=
  (permutations (List.range nWorkers)).filter (feasibleOrder nProc)

end CTM.Procs
