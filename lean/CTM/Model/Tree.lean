/-
  Model of the taxonomy tree of `cell_type_mapper`
  (src/cell_type_mapper/taxonomy/utils.py, taxonomy_tree.py).

  Core Lean only (no Mathlib): this file is linked into the driver executable.

  Conventions (DESIGN.md §3): level names and node names are `Nat` ids handed
  out by the harness (order preserving: id order = Python string order, so
  `list.sort()` on names is `sort` on ids).  A Python `dict` is an association
  list in the dict's iteration order; key uniqueness is a separate hypothesis
  (`DictOK`), never a subtype.  Python `set`s appear only where the code's
  answer does not depend on the enumeration order.
-/
namespace CTM

abbrev Level := Nat
abbrev Node := Nat

/-- One level of the tree: node ↦ list (children, or rows at the leaf level). -/
abbrev LevelMap := List (Node × List Nat)

/-- What `json.loads` / `get_taxonomy_tree` hand to `validate_taxonomy_tree`,
after the ignorable keys (`metadata`, `name_mapper`, `hierarchy_mapper`) have
been set aside. `levels` holds every other key except `hierarchy`, in dict
order. -/
structure RawTree where
  hasHierarchy : Bool := true
  hierarchy : List Level
  levels : List (Level × LevelMap)
  /-- every node key of every level is a Python `str` -/
  nodesAreStr : Bool := true
  deriving Repr, BEq, DecidableEq, Inhabited

inductive TreeErr where
  | noHierarchy | badKeys | nonStrNode | orphan | missingChild | twoParents
  | dupRows | repeatedChild | emptyHierarchy | noChildren | dupLevel | noNodes
  | badParentLevel | missingLevel
  | flatTree | levelNotInTree | isLeafLevel | badLevel | badNode
  deriving Repr, BEq, DecidableEq, Inhabited

def TreeErr.name : TreeErr → String
  | .noHierarchy => "noHierarchy" | .badKeys => "badKeys"
  | .nonStrNode => "nonStrNode" | .orphan => "orphan"
  | .missingChild => "missingChild" | .twoParents => "twoParents"
  | .dupRows => "dupRows" | .repeatedChild => "repeatedChild"
  | .emptyHierarchy => "emptyHierarchy" | .noChildren => "noChildren"
  | .dupLevel => "dupLevel" | .noNodes => "noNodes"
  | .badParentLevel => "badParentLevel" | .missingLevel => "missingLevel"
  | .flatTree => "flatTree"
  | .levelNotInTree => "levelNotInTree" | .isLeafLevel => "isLeafLevel"
  | .badLevel => "badLevel" | .badNode => "badNode"

namespace RawTree

/-- `tree[level]` (empty when absent; callers guard). -/
def level (t : RawTree) (l : Level) : LevelMap :=
  (t.levels.lookup l).getD []

/-- `tree[level].keys()` -/
def nodesAt (t : RawTree) (l : Level) : List Node := (t.level l).map (·.1)

/-- `tree[level][node]` -/
def entry (t : RawTree) (l : Level) (n : Node) : List Nat :=
  ((t.level l).lookup n).getD []

/-- `zip(hierarchy[:-1], hierarchy[1:])` -/
def levelPairs (h : List Level) : List (Level × Level) := h.zip h.tail

def leafLevel (t : RawTree) : Option Level := t.hierarchy.getLast?

/-! ### `validate_taxonomy_tree` -/

/-- child_to_parent[child_level] as threaded through the validator's loops -/
abbrev C2P := List ((Level × Node) × Node)

/-- inner loop over the children of one parent -/
def checkChildren (childSet : List Node) (cl : Level) (p : Node) :
    List Node → C2P → Except TreeErr C2P
  | [], acc => .ok acc
  | c :: cs, acc =>
    if !(childSet.contains c) then .error .missingChild
    else match acc.lookup (cl, c) with
      | some p' =>
        if p' != p then .error .twoParents
        else checkChildren childSet cl p cs acc
      | none => checkChildren childSet cl p cs (((cl, c), p) :: acc)

/-- loop over the parents of one level -/
def checkParents (childSet : List Node) (cl : Level) :
    LevelMap → C2P → Except TreeErr C2P
  | [], acc => .ok acc
  | (p, cs) :: rest, acc =>
    match checkChildren childSet cl p cs acc with
    | .error e => .error e
    | .ok acc' => checkParents childSet cl rest acc'

/-- one `(parent_level, child_level)` iteration -/
def checkLevelPair (t : RawTree) (pl cl : Level) (acc : C2P) : Except TreeErr C2P :=
  let childSet := t.nodesAt cl
  let withParent := (t.level pl).flatMap (·.2)
  if childSet.any (fun c => !(withParent.contains c)) then .error .orphan
  else checkParents childSet cl (t.level pl) acc

def checkLevelPairs (t : RawTree) : List (Level × Level) → C2P → Except TreeErr C2P
  | [], acc => .ok acc
  | (pl, cl) :: rest, acc =>
    match checkLevelPair t pl cl acc with
    | .error e => .error e
    | .ok acc' => checkLevelPairs t rest acc'

/-- `all_rows` of the validator -/
def allRows (t : RawTree) : List Nat :=
  match t.leafLevel with
  | none => []
  | some l => (t.level l).flatMap (·.2)

def hasDup : List Nat → Bool
  | [] => false
  | x :: xs => xs.contains x || hasDup xs

/-- set equality of the key set with the hierarchy, as the validator tests it -/
def keysMatch (t : RawTree) : Bool :=
  (t.levels.map (·.1)).all (fun k => t.hierarchy.contains k) &&
  t.hierarchy.all (fun h => (t.levels.map (·.1)).contains h)

/-- Does some non-leaf parent list the same child twice?  (The check added by
the `fix:` commit for defect D5; kept for reference, the validator now runs
`firstChildListErr`, which interleaves it with the no-children test.) -/
def repeatsChild (t : RawTree) : Bool :=
  (levelPairs t.hierarchy).any (fun (pl, _) =>
    (t.level pl).any (fun (_, cs) => hasDup cs))

/-- one parent of the loop "every node above the leaf level has a child and no
parent lists the same child more than once": empty list first, then repeats -/
def childListErr (cs : List Node) : Option TreeErr :=
  if cs.isEmpty then some .noChildren
  else if hasDup cs then some .repeatedChild
  else none

/-- that loop over `hierarchy[:-1]` × the level's parents, in dict order: the
first offending parent decides the error class.  (The `noChildren` test was
added by a later `fix:` commit than the repeated-child test.) -/
def firstChildListErr (t : RawTree) : Option TreeErr :=
  ((levelPairs t.hierarchy).flatMap (fun (pl, _) => (t.level pl).map (·.2))).findSome? childListErr

/-- `len(hierarchy) == 0 or len(taxonomy_tree[hierarchy[0]]) == 0` -/
def topLevelEmpty (t : RawTree) : Bool :=
  match t.hierarchy.head? with
  | none => true
  | some l0 => (t.level l0).isEmpty

def validateWith (strictChildren : Bool) (t : RawTree) : Except TreeErr Unit :=
  if !t.hasHierarchy then .error .noHierarchy
  -- `len(set(hierarchy)) != len(hierarchy)` (`fix:` 799c7a6)
  else if hasDup t.hierarchy then .error .dupLevel
  else if !t.keysMatch then .error .badKeys
  else if !t.nodesAreStr then .error .nonStrNode
  -- `len(hierarchy) == 0 or len(tree[hierarchy[0]]) == 0` (`fix:` 6649211)
  else if t.topLevelEmpty then .error .noNodes
  else match checkLevelPairs t (levelPairs t.hierarchy) [] with
    | .error e => .error e
    | .ok _ =>
      match (if strictChildren then t.firstChildListErr else none) with
      | some e => .error e
      | none => match t.leafLevel with
        -- `leaf_level = taxonomy_tree['hierarchy'][-1]` : IndexError on `[]`
        -- (unreachable since the no-nodes test above; kept for `get_taxonomy_tree`,
        -- whose own `column_hierarchy[-1]` still raises it)
        | none => .error .emptyHierarchy
        | some _ =>
          if hasDup t.allRows then .error .dupRows
          else .ok ()

/-- The validator as it stands in `/repo`: with the child-list tests of the
`fix:` commits (`validateWith false` = without the two child-list tests; the
duplicate-level and no-nodes tests of the later `fix:` commits are unconditional).  The obligations `generated_*` of Props/C10.lean tie the flag to
the current source through `CTM/Generated/TreeConsts.lean`. -/
def validate (t : RawTree) : Except TreeErr Unit := validateWith true t

/-! ### `TaxonomyTree` queries -/

/-- index of a level in the hierarchy (first match, as the Python loops do) -/
def levelIdx (t : RawTree) (l : Level) : Option Nat := t.hierarchy.idxOf? l

/-- level following `l` in the hierarchy -/
def childLevel (t : RawTree) (l : Level) : Option Level :=
  match t.levelIdx l with
  | none => none
  | some i => t.hierarchy[i+1]?

/-- level preceding `l` in the hierarchy -/
def parentLevel (t : RawTree) (l : Level) : Option Level :=
  match t.levelIdx l with
  | none => none
  | some 0 => none
  | some (i+1) => t.hierarchy[i]?

/-- `get_child_to_parent`: `result[child_level][child] = parent`, last writer
wins (dict assignment). Returned as a lookup function. -/
def childToParent (t : RawTree) (cl : Level) (c : Node) : Option Node :=
  match t.parentLevel cl with
  | none => none
  | some pl =>
    -- last parent (in dict order) listing c
    ((t.level pl).reverse.find? (fun (_, cs) => cs.contains c)).map (·.1)

/-- `TaxonomyTree.parents(level, node)`: ancestors, nearest first, as
`(level, node)` pairs. `fuel` = position of the level. -/
def parentsAux (t : RawTree) : Nat → Level → Node → List (Level × Node)
  | 0, _, _ => []
  | fuel+1, l, n =>
    match t.parentLevel l with
    | none => []
    | some pl =>
      match t.childToParent l n with
      | none => []
      | some p => (pl, p) :: parentsAux t fuel pl p

def parents (t : RawTree) (l : Level) (n : Node) : List (Level × Node) :=
  parentsAux t t.hierarchy.length l n

/-- `TaxonomyTree.children(level, node)`; `none` = the root. -/
def children (t : RawTree) : Option (Level × Node) → Except TreeErr (List Node)
  | none => match t.hierarchy.head? with
    | none => .error .badLevel
    | some l0 => .ok (t.nodesAt l0)
  | some (l, n) =>
    if !((t.levels.map (·.1)).contains l) then .error .badLevel
    else if !((t.nodesAt l).contains n) then .error .badNode
    else .ok (t.entry l n)

/-- `all_parents`: `None` first, then every node of every non-leaf level -/
def allParents (t : RawTree) : List (Option (Level × Node)) :=
  none :: (t.hierarchy.dropLast.flatMap (fun l => (t.nodesAt l).map (fun n => some (l, n))))

/-- insertion sort (Python's `list.sort()` on names; ids are order preserving) -/
def insertSorted (x : Nat) : List Nat → List Nat
  | [] => [x]
  | y :: ys => if x ≤ y then x :: y :: ys else y :: insertSorted x ys

def sortNat : List Nat → List Nat
  | [] => []
  | x :: xs => insertSorted x (sortNat xs)

/-- `_get_leaves_from_tree`, recursion on the list of levels below `level`
(`below` = the levels strictly after `level` in the hierarchy). -/
def leavesFrom (t : RawTree) : List Level → Level → Node → List Node
  | [], _, n => [n]                         -- level is the leaf level
  | [_], l, n => t.entry l n                -- level is hierarchy[-2]
  | cl :: (c2 :: rest), l, n =>
    (sortNat (t.entry l n)).flatMap (fun c => leavesFrom t (c2 :: rest) cl c)

/-- levels strictly below `l` -/
def levelsBelow (t : RawTree) (l : Level) : List Level :=
  match t.levelIdx l with
  | none => []
  | some i => t.hierarchy.drop (i+1)

/-- `as_leaves[level][node]` -/
def asLeaves (t : RawTree) (l : Level) (n : Node) : List Node :=
  leavesFrom t (t.levelsBelow l) l n

/-- `itertools.combinations(xs, 2)` -/
def combos2 : List Nat → List (Nat × Nat)
  | [] => []
  | x :: xs => xs.map (fun y => (x, y)) ++ combos2 xs

def orderPair (a b : Nat) : Nat × Nat := if a < b then (a, b) else (b, a)

/-- `get_all_leaf_pairs` / `leaves_to_compare` (leaf level omitted from the
tuples: it is always `hierarchy[-1]`). -/
def leafPairs (t : RawTree) (parent : Option (Level × Node)) : List (Node × Node) :=
  let sibs : Option (Level × List Node) :=
    match parent with
    | none => t.hierarchy.head?.map (fun l0 => (l0, t.nodesAt l0))
    | some (l, n) =>
      if some l == t.leafLevel then none
      else (t.childLevel l).map (fun cl => (cl, t.entry l n))
  match sibs with
  | none => []
  | some (cl, siblings) =>
    (combos2 siblings).flatMap (fun (s0, s1) =>
      (t.asLeaves cl s0).flatMap (fun a =>
        (t.asLeaves cl s1).map (fun b => orderPair a b)))

/-! ### transformations -/

/-- `flatten()` -/
def flatten (t : RawTree) : RawTree :=
  match t.leafLevel with
  | none => t
  | some ll =>
    { t with hierarchy := [ll]
             levels := t.levels.filter (fun (k, _) => !(t.hierarchy.dropLast.contains k)) }

/-- replace `tree[l]` keeping the dict position -/
def setLevel (levels : List (Level × LevelMap)) (l : Level) (m : LevelMap) :
    List (Level × LevelMap) :=
  levels.map (fun (k, v) => if k == l then (k, m) else (k, v))

/-- `_drop_level(level_to_drop, allow_leaf)` before the constructor of the new
`TaxonomyTree` re-validates the data -/
def dropLevelRaw (t : RawTree) (l : Level) (allowLeaf : Bool := false) : Except TreeErr RawTree :=
  if t.hierarchy.length == 1 then .error .flatTree
  else match t.levelIdx l with
    | none => .error .levelNotInTree
    | some idx =>
      if !allowLeaf && some l == t.leafLevel then .error .isLeafLevel
      else if idx == 0 then
        .ok { t with hierarchy := t.hierarchy.drop 1
                     levels := t.levels.filter (fun (k, _) => k != l) }
      else
        match t.hierarchy[idx-1]? with
        | none => .error .badLevel
        | some pl =>
          let newParent : LevelMap :=
            (t.level pl).map (fun (n, cs) => (n, cs.flatMap (fun c => t.entry l c)))
          .ok { t with hierarchy := t.hierarchy.eraseIdx idx
                       levels := setLevel (t.levels.filter (fun (k, _) => k != l)) pl newParent }

/-- `_drop_level`: the new data is handed to `TaxonomyTree(data=...)`, which
validates it -/
def dropLevel (t : RawTree) (l : Level) (allowLeaf : Bool := false) : Except TreeErr RawTree :=
  match t.dropLevelRaw l allowLeaf with
  | .error e => .error e
  | .ok t' => match t'.validate with
    | .error e => .error e
    | .ok _ => .ok t'

/-- `to_str(drop_cells=True)` as data -/
def dropCells (t : RawTree) : RawTree :=
  match t.leafLevel with
  | none => t
  | some ll => { t with levels := setLevel t.levels ll ((t.level ll).map (fun (n, _) => (n, []))) }

/-- ancestor of `(l, n)` at level `al` (or the node itself if `al = l`) -/
def ancestorAt (t : RawTree) (l : Level) (n : Node) (al : Level) : Option Node :=
  if al == l then some n else ((t.parents l n).lookup al)

/-! ### `get_taxonomy_tree` (from per-cell label columns) -/

/-- insert into a dict of lists/sets keeping first-insertion order of keys
(`set.add` is modelled as append-if-absent; the enumeration order of the set is
whatever it is — theorems about the result are stated up to permutation). -/
def dictAdd (m : LevelMap) (k : Node) (v : Nat) (asSet : Bool) : LevelMap :=
  match m.lookup k with
  | none => m ++ [(k, [v])]
  | some _ => m.map (fun (k', vs) =>
      if k' == k then (k', if asSet && vs.contains v then vs else vs ++ [v]) else (k', vs))

/-- one record = the labels of a cell, one per column of the hierarchy -/
def addRecord (cols : List Level) (acc : List (Level × LevelMap)) (iRow : Nat) (labels : List Node) :
    List (Level × LevelMap) :=
  let lab := cols.zip labels
  -- leaf column: append the row
  let acc := match lab.getLast? with
    | none => acc
    | some (ll, leaf) => setLevel acc ll (dictAdd ((acc.lookup ll).getD []) leaf iRow false)
  -- every (parent column, child column)
  (lab.zip lab.tail).foldl (fun acc ((pl, p), (_, c)) =>
    setLevel acc pl (dictAdd ((acc.lookup pl).getD []) p c true)) acc

def fromRecordsRaw (cols : List Level) (recs : List (List Node)) : RawTree :=
  let init : List (Level × LevelMap) := cols.map (fun c => (c, []))
  let rec go (acc : List (Level × LevelMap)) (i : Nat) : List (List Node) → List (Level × LevelMap)
    | [] => acc
    | r :: rs => go (addRecord cols acc i r) (i+1) rs
  { hierarchy := cols, levels := go init 0 recs }

def fromRecords (cols : List Level) (recs : List (List Node)) : Except TreeErr RawTree :=
  let t := fromRecordsRaw cols recs
  match t.validate with
  | .error e => .error e
  | .ok _ => .ok t

/-! ### the data-release CSV route (`taxonomy/data_release_utils.py`,
`TaxonomyTree.from_data_release` with `cell_metadata_path=None`) -/

/-- one row of `cluster_annotation_term.csv`: `label`,
`cluster_annotation_term_set_label`, `parent_term_label`,
`parent_term_set_label` -/
structure LinkRow where
  label : Node
  level : Level
  parent : Node
  parentLevel : Level
  deriving Repr, BEq, DecidableEq, Inhabited

/-- `child_to_parent = {l0: l1 for l0, l1 in zip(hierarchy[1:], hierarchy[:-1])}[l]`
(a later entry of the comprehension wins) -/
def levelAbove (h : List Level) (l : Level) : Option Level :=
  ((levelPairs h).reverse.find? (fun p => p.2 == l)).map (·.1)

/-- `result[parent_level][parent].add(label)`: dicts in insertion order, the
set as a duplicate-free list -/
def addLink (acc : List (Level × LevelMap)) (pl : Level) (p c : Node) :
    List (Level × LevelMap) :=
  match acc.lookup pl with
  | none => acc ++ [(pl, [(p, [c])])]
  | some m => setLevel acc pl (dictAdd m p c true)

/-- `get_tree_above_leaves`: rows of other term sets are skipped, a row whose
parent level is not the level directly above is an error, the child sets are
returned sorted -/
def treeAboveLeaves (h : List Level) :
    List LinkRow → List (Level × LevelMap) → Except TreeErr (List (Level × LevelMap))
  | [], acc => .ok (acc.map (fun (l, m) => (l, m.map (fun (n, cs) => (n, sortNat cs)))))
  | r :: rs, acc =>
    match levelAbove h r.level with
    | none => treeAboveLeaves h rs acc
    | some pl =>
      if r.parentLevel != pl then .error .badParentLevel
      else treeAboveLeaves h rs (addLink acc pl r.parent r.label)

/-- `data[parent_level] = rough_tree[parent_level]` for every level pair
(`KeyError` when no row mentions the level) -/
def pickLevels (rough : List (Level × LevelMap)) :
    List (Level × Level) → Except TreeErr (List (Level × LevelMap))
  | [] => .ok []
  | (pl, _) :: ps =>
    match rough.lookup pl with
    | none => .error .missingLevel
    | some m =>
      match pickLevels rough ps with
      | .error e => .error e
      | .ok rest => .ok ((pl, m) :: rest)

/-- `from_data_release(cell_metadata_path=None, …)` before validation: the
leaves are the children listed at `hierarchy[-2]`, without cells -/
def fromLinksRaw (h : List Level) (rows : List LinkRow) : Except TreeErr RawTree :=
  match treeAboveLeaves h rows [] with
  | .error e => .error e
  | .ok rough =>
    match pickLevels rough (levelPairs h) with
    | .error e => .error e
    | .ok above =>
      match h.getLast?, h.dropLast.getLast? with
      | some leaf, some pl =>
        let kids := (((above.lookup pl).getD []).flatMap (·.2)).eraseDups
        .ok { hierarchy := h, levels := above ++ [(leaf, kids.map (fun c => (c, [])))] }
      | _, _ => .error .emptyHierarchy

/-- `TaxonomyTree.from_data_release(None, …)`: the constructor validates -/
def fromLinks (h : List Level) (rows : List LinkRow) : Except TreeErr RawTree :=
  match fromLinksRaw h rows with
  | .error e => .error e
  | .ok t => match t.validate with
    | .error e => .error e
    | .ok _ => .ok t

end RawTree
end CTM
