/-
  Executable model of `cell_type_mapper.utils.cloud_utils` (sanitize_paths,
  is_exposed, _word_to_path, is_relative_to) and of the way
  `cli/from_specified_markers.py: run_mapping` and `cli/cli_log.py: write_log`
  use it (C20).  Strings are `List Char`.  Core Lean only.

  What the host decides is a parameter (`Host`): which paths exist
  (`is_file() or is_dir()`), what `Path.resolve().absolute()` returns, and where
  the package lives (`mapper_path`).
-/
import CTM.Generated.Resources

namespace CTM.Sanitize

abbrev Str := List Char

/-- the characters `str.split()` (no argument) splits on = `str.isspace` -/
def isWs (c : Char) : Bool :=
  let n := c.toNat
  (9 ≤ n && n ≤ 13) || (28 ≤ n && n ≤ 32) || n == 0x85 || n == 0xa0 ||
  n == 0x1680 || (0x2000 ≤ n && n ≤ 0x200a) || n == 0x2028 || n == 0x2029 ||
  n == 0x202f || n == 0x205f || n == 0x3000

/-- `str.split()` with the word under construction as an accumulator -/
def splitWsGo : Str → Str → List Str
  | cur, [] => if cur.isEmpty then [] else [cur]
  | cur, c :: cs =>
    if isWs c then
      (if cur.isEmpty then splitWsGo [] cs else cur :: splitWsGo [] cs)
    else splitWsGo (cur ++ [c]) cs

/-- `input_structure.split()` -/
def splitWs (s : Str) : List Str := splitWsGo [] s

/-- `_word_to_path`, string part: `for char in ('"', "'"): word = word.replace(char, '')`
(the characters are regenerated from the source) -/
def stripQuotes (w : Str) : Str := w.filter (fun c => !(CTM.Generated.quoteChars.contains c))

/-- `str.split(sep)` for a one-character separator: always at least one piece -/
def splitOnGo (sep : Char) : Str → Str → List Str
  | cur, [] => [cur]
  | cur, c :: cs => if c == sep then cur :: splitOnGo sep [] cs else splitOnGo sep (cur ++ [c]) cs

def splitOn (sep : Char) (s : Str) : List Str := splitOnGo sep [] s

/-- a `pathlib.PurePosixPath`: `root` = number of leading slashes kept (0, 1, or 2:
POSIX keeps exactly two), `parts` = the components, none empty, none `.` -/
structure Path where
  root : Nat
  parts : List Str
deriving DecidableEq, Repr

/-- `pathlib.Path(word)` (3.12 `_parse_path` + `posixpath.splitroot`) -/
def parsePath (s : Str) : Path :=
  let root := match s with
    | '/' :: '/' :: '/' :: _ => 1
    | '/' :: '/' :: _ => 2
    | '/' :: _ => 1
    | _ => 0
  { root := root, parts := (splitOn '/' s).filter (fun p => !(p.isEmpty) && p != ['.']) }

def joinSlash : List Str → Str
  | [] => []
  | [p] => p
  | p :: q :: rest => p ++ '/' :: joinSlash (q :: rest)

/-- `str(path)` -/
def Path.toStr (p : Path) : Str :=
  if p.root == 0 && p.parts.isEmpty then ['.']
  else List.replicate p.root '/' ++ joinSlash p.parts

/-- `path.name` -/
def Path.name (p : Path) : Str := p.parts.getLast?.getD []

/-- `path.parent` -/
def Path.parent (p : Path) : Path := { p with parts := p.parts.dropLast }

/-- `_word_to_path` -/
def wordToPath (w : Str) : Path := parsePath (stripQuotes w)

/-- what the host answers -/
structure Host where
  /-- `path.is_file() or path.is_dir()` -/
  ex : Path → Bool
  /-- `str(path.resolve().absolute())` -/
  resolve : Path → Str
  /-- `str(mapper_path)`: parent of the package directory -/
  mapperRoot : Str

/-- `is_exposed` on the reversed component list.  `.` and `/` are never exposed;
`//` (its own parent) is exposed iff it exists -- Python would recurse forever
otherwise, POSIX guarantees it does. -/
def isExposedRev (ex : Path → Bool) (root : Nat) : List Str → Bool
  | [] => root == 2 && ex ⟨2, []⟩
  | p :: rest => ex ⟨root, (p :: rest).reverse⟩ || isExposedRev ex root rest

/-- `is_exposed(input_path)` -/
def isExposed (ex : Path → Bool) (p : Path) : Bool := isExposedRev ex p.root p.parts.reverse

inductive SanErr
  /-- `abs_path.relative_to(mapper_path)` raises ValueError: the string prefix test of
  `is_relative_to` passed but `mapper_path` is not a component-wise ancestor -/
  | relativeTo
deriving DecidableEq, Repr

/-- the replacement of an exposed word: package-relative if `str(abs_path)` starts with
`str(mapper_path)` (a *string* prefix test), else `path.name` -/
def safeName (h : Host) (p : Path) : Except SanErr Str :=
  let abs := h.resolve p
  if h.mapperRoot.isPrefixOf abs then
    let a := parsePath abs
    let m := parsePath h.mapperRoot
    if a.root == m.root && m.parts.isPrefixOf a.parts then
      let rest := a.parts.drop m.parts.length
      .ok (if rest.isEmpty then ['.'] else joinSlash rest)
    else .error .relativeTo
  else .ok p.name

/-- `substitutions[word] = safe_path` on an insertion-ordered dict -/
def assocSet (k v : Str) : List (Str × Str) → List (Str × Str)
  | [] => [(k, v)]
  | (k', v') :: rest => if k' == k then (k, v) :: rest else (k', v') :: assocSet k v rest

/-- the loop over `input_structure.split()` building `substitutions` -/
def buildSubs (h : Host) : List Str → List (Str × Str) → Except SanErr (List (Str × Str))
  | [], acc => .ok acc
  | w :: ws, acc =>
    let p := wordToPath w
    if isExposed h.ex p then
      match safeName h p with
      | .ok v => buildSubs h ws (assocSet w v acc)
      | .error e => .error e
    else buildSubs h ws acc

/-- `str.replace(old, new)` for non-empty `old`: leftmost, non-overlapping.  `skip` =
characters of a match still to be dropped. -/
def replaceGo (old new : Str) : Nat → Str → Str
  | _, [] => []
  | skip + 1, _ :: cs => replaceGo old new skip cs
  | 0, c :: cs =>
    if old.isPrefixOf (c :: cs) then new ++ replaceGo old new (old.length - 1) cs
    else c :: replaceGo old new 0 cs

def replace (old new s : Str) : Str := replaceGo old new 0 s

/-- `for old in substitutions: result = result.replace(old, substitutions[old])` -/
def substituteAll (subs : List (Str × Str)) (s : Str) : Str :=
  subs.foldl (fun r kv => replace kv.1 kv.2 r) s

/-- `sanitize_paths` on a `str` -/
def sanitizeStr (h : Host) (s : Str) : Except SanErr Str :=
  match buildSubs h (splitWs s) [] with
  | .ok subs => .ok (if subs.isEmpty then s else substituteAll subs s)
  | .error e => .error e

/-- the structures `sanitize_paths` walks: `str`, `list`, `dict` (values only, keys are
kept), anything else is returned as is -/
inductive Val
  | str (s : Str)
  | list (xs : List Val)
  | dict (kvs : List (Str × Val))
  | other (tag : Nat)
deriving Repr

mutual
/-- `sanitize_paths(input_structure)` -/
def sanitizeVal (h : Host) : Val → Except SanErr Val
  | .str s => match sanitizeStr h s with
    | .ok r => .ok (.str r)
    | .error e => .error e
  | .list xs => match sanitizeList h xs with
    | .ok r => .ok (.list r)
    | .error e => .error e
  | .dict kvs => match sanitizeKvs h kvs with
    | .ok r => .ok (.dict r)
    | .error e => .error e
  | .other t => .ok (.other t)
def sanitizeList (h : Host) : List Val → Except SanErr (List Val)
  | [] => .ok []
  | x :: xs => match sanitizeVal h x with
    | .error e => .error e
    | .ok y => match sanitizeList h xs with
      | .error e => .error e
      | .ok ys => .ok (y :: ys)
def sanitizeKvs (h : Host) : List (Str × Val) → Except SanErr (List (Str × Val))
  | [] => .ok []
  | (k, x) :: xs => match sanitizeVal h x with
    | .error e => .error e
    | .ok y => match sanitizeKvs h xs with
      | .error e => .error e
      | .ok ys => .ok ((k, y) :: ys)
end

inductive CfgErr
  | san (e : SanErr)
  /-- `safe_config.pop(key)` on a missing key -/
  | keyError (k : Str)
deriving Repr

/-- `dict.pop(key)` without default -/
def popKey (k : Str) (kvs : List (Str × Val)) : Except CfgErr (List (Str × Val)) :=
  if kvs.any (fun kv => kv.1 == k) then .ok (kvs.filter (fun kv => !(kv.1 == k)))
  else .error (.keyError k)

def keyExtDir : Str := "extended_result_dir".toList
def keyTmpDir : Str := "tmp_dir".toList

/-- `run_mapping`: `safe_config` (what ends up under `config` in every output) -/
def safeConfig (h : Host) (cloudSafe : Bool) (config : List (Str × Val)) :
    Except CfgErr (List (Str × Val)) :=
  if cloudSafe then
    match sanitizeKvs h config with
    | .error e => .error (.san e)
    | .ok c =>
      match popKey keyExtDir c with
      | .error e => .error e
      | .ok c => popKey keyTmpDir c
  else .ok config

/-- `run_mapping` (finally block) / `CommandLog.write_log`: the log lines that are embedded
in the outputs and appended to the log file -/
def outputLog (h : Host) (cloudSafe : Bool) (log : List Str) : Except SanErr (List Str) :=
  if cloudSafe then log.mapM (sanitizeStr h) else .ok log

end CTM.Sanitize
