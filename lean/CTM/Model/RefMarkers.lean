/-
  Reference-marker validity as written in
    diff_exp/score_utils.py  (pij_from_stats, q_score_from_pij)
    diff_exp/scores.py       (penetrance_parameter_distance, exact_/approx_penetrance_test,
                              penetrance_tests, penetrance_from_stats, score_differential_genes)
    diff_exp/markers.py      (_find_markers_worker, _lookup_to_sparse, _merge_sparse_by_pair_files,
                              chunking by n_per)
    diff_exp/p_value_mask.py (_p_values_worker: one row of the mask)
    diff_exp/p_value_markers.py (_get_validity_mask, _find_markers_from_p_mask_worker)
  Core Lean only.  Raw Welch p-values are *inputs* (the t / normal CDF is not
  modelled); Holm is `CTM.Holm`.  Floats are `Rat`.
-/
import CTM.Model.Holm

namespace CTM.RefMarkers
open CTM.Holm

/-! ### Welch statistic (rational parts of `utils/stats_utils.py: _calculate_tt_nu`) -/

/-- `nu_num = var1/n1 + var2/n2` -/
def nuNum (v1 : Rat) (n1 : Nat) (v2 : Rat) (n2 : Nat) : Rat := v1 / n1 + v2 / n2

/-- `nu_denom` before its `> 0` guard; only meaningful for `n1, n2 ≥ 2` (for a 1-cell cluster
numpy produces `0/0 = nan`, which the guard turns into 1) -/
def nuDenom (v1 : Rat) (n1 : Nat) (v2 : Rat) (n2 : Nat) : Rat :=
  v1 * v1 / ((n1 : Rat) * n1 * n1 - (n1 : Rat) * n1) + v2 * v2 / ((n2 : Rat) * n2 * n2 - (n2 : Rat) * n2)

/-- degrees of freedom `nu`; `none` when a cluster has fewer than two cells (NaN path, not
modelled; both routes skip such pairs) -/
def welchNu (v1 : Rat) (n1 : Nat) (v2 : Rat) (n2 : Nat) : Option Rat :=
  if n1 < 2 ∨ n2 < 2 then none
  else
    let d := nuDenom v1 n1 v2 n2
    let d := if d > 0 then d else 1
    some (nuNum v1 n1 v2 n2 * nuNum v1 n1 v2 n2 / d)

/-- the square of the t statistic (`denom = sqrt(nu_num)`, replaced by `1e-10` when it is not
positive); its sign is the sign of `mean1 - mean2` -/
def welchTSq (m1 v1 : Rat) (n1 : Nat) (m2 v2 : Rat) (n2 : Nat) : Rat :=
  let s := nuNum v1 n1 v2 n2
  if s > 0 then (m1 - m2) * (m1 - m2) / s
  else (m1 - m2) * (m1 - m2) / ((1 / 10000000000) * (1 / 10000000000))

/-! ### thresholds, scores -/

structure Thresholds where
  pTh : Rat
  q1Th : Rat
  qdiffTh : Rat
  foldTh : Rat
  q1Min : Rat
  qdiffMin : Rat
  foldMin : Rat

/-- per gene: `q1_score`, `qdiff_score`, `log2_fold` -/
structure GeneScore where
  q1 : Rat
  qdiff : Rat
  fold : Rat

/-- the Python raise sites reachable in the modelled functions -/
inductive Err
  | lengthMismatch   -- penetrance_parameter_distance: arrays of different length
  | q1Th             -- "q1_th must be > q1_min_th"
  | qdiffTh          -- "qdiff_th must be > qdiff_min_th"
  | foldTh           -- "log2_fold_th must be > log2_fold_min_th"
  | emptyMax         -- numpy `.max()` of an empty array (ValueError)
  | indexError       -- `sorted_dex[n_valid-1]` out of bounds (IndexError)
  | nonConsecutive   -- "p-value worker was passed non-consecutive pairs" / "Got non-contiguous set of indices"
  | col0NotMultipleOf8
  deriving DecidableEq, Repr

def Err.name : Err → String
  | .lengthMismatch => "lengthMismatch"
  | .q1Th => "q1Th"
  | .qdiffTh => "qdiffTh"
  | .foldTh => "foldTh"
  | .emptyMax => "emptyMax"
  | .indexError => "indexError"
  | .nonConsecutive => "nonConsecutive"
  | .col0NotMultipleOf8 => "col0NotMultipleOf8"

/-- `pij_from_stats`: `ge1 / max(1, n_cells)` -/
def pij (ge1 n : Nat) : Rat := (ge1 : Rat) / ((max 1 n : Nat) : Rat)

/-- `q_score_from_pij` for one gene -/
def qScore (p1 p2 : Rat) : Rat × Rat :=
  let q1 := if p1 > p2 then p1 else p2
  let denom := if q1 > 0 then q1 else 1
  (q1, (p1 - p2).abs / denom)

/-- `log2_fold = np.abs(mean1 - mean2)` -/
def log2Fold (m1 m2 : Rat) : Rat := (m1 - m2).abs

/-- `penetrance_from_stats` writes `-1.0` into `pij_1`, `pij_2`, `log2_fold`
of every gene outside `valid_gene_idx`; this is what the scores become -/
def excludedScore : GeneScore :=
  let q := qScore (-1) (-1)
  { q1 := q.1, qdiff := q.2, fold := -1 }

/-- mask for `valid_gene_idx` (`None` = every gene allowed) -/
def allowedMask (n : Nat) : Option (List Nat) → List Bool
  | none => List.replicate n true
  | some idx => (List.range n).map (fun i => idx.contains i)

/-- scores after `invalid_mask` has been applied -/
def maskScores (allowed : List Bool) (g : List GeneScore) : List GeneScore :=
  List.zipWith (fun a s => if a then s else excludedScore) allowed g

/-! ### penetrance_parameter_distance -/

/-- `(x - th)**2`, set to 0 where `x > th` -/
def term (x th : Rat) : Rat := if x > th then 0 else (x - th) * (x - th)

/-- `invalid = q1 < q1_min_th | qdiff < qdiff_min_th | log2_fold < log2_fold_min_th` -/
def isInvalid (t : Thresholds) (s : GeneScore) : Bool :=
  decide (s.q1 < t.q1Min) || (decide (s.qdiff < t.qdiffMin) || decide (s.fold < t.foldMin))

def q1Term (t : Thresholds) (s : GeneScore) : Rat := term s.q1 t.q1Th
def qdiffTerm (t : Thresholds) (s : GeneScore) : Rat := term s.qdiff t.qdiffTh
def foldTerm (t : Thresholds) (s : GeneScore) : Rat := term s.fold t.foldTh

/-- `distance_sq` -/
def distSq (t : Thresholds) (s : GeneScore) : Rat := qdiffTerm t s + q1Term t s + foldTerm t s
/-- weighted distances before the `invalid` overwrite -/
def rawQdiffDist (t : Thresholds) (s : GeneScore) : Rat := 3/2 * qdiffTerm t s + q1Term t s + foldTerm t s
def rawQ1Dist (t : Thresholds) (s : GeneScore) : Rat := qdiffTerm t s + 3/2 * q1Term t s + foldTerm t s
def rawFoldDist (t : Thresholds) (s : GeneScore) : Rat := qdiffTerm t s + q1Term t s + 3/2 * foldTerm t s

/-- one gene of the dict returned by `penetrance_parameter_distance` -/
structure GeneDist where
  distSq : Rat
  q1 : Rat
  qdiff : Rat
  fold : Rat
  wgt : Rat
  invalid : Bool

/-- numpy `.max()` -/
def listMax : List Rat → Option Rat
  | [] => none
  | x :: xs => some (xs.foldl max x)

def geneDist (t : Thresholds) (bad : Rat) (s : GeneScore) : GeneDist :=
  let inv := isInvalid t s
  let qd := if inv then bad else rawQdiffDist t s
  let q1 := if inv then bad else rawQ1Dist t s
  let fd := if inv then bad else rawFoldDist t s
  let w := qd
  let w := if w < q1 then w else q1
  let w := if w < fd then w else fd
  { distSq := distSq t s, q1 := q1, qdiff := qd, fold := fd, wgt := w, invalid := inv }

/-- `bad_dist = max(qdiff_dist.max(), q1_dist.max(), fold_dist.max()) + 100` -/
def badDist (t : Thresholds) (g : List GeneScore) : Option Rat :=
  match listMax (g.map (rawQdiffDist t)), listMax (g.map (rawQ1Dist t)), listMax (g.map (rawFoldDist t)) with
  | some a, some b, some c => some (max a (max b c) + 100)
  | _, _, _ => none

/-- the three threshold checks of `penetrance_parameter_distance`, in order -/
def checkThresholds (t : Thresholds) : Except Err Unit :=
  if t.q1Th ≤ t.q1Min then .error .q1Th
  else if t.qdiffTh ≤ t.qdiffMin then .error .qdiffTh
  else if t.foldTh ≤ t.foldMin then .error .foldTh
  else .ok ()

/-- `penetrance_parameter_distance` on equal-length arrays -/
def penetranceDistance (t : Thresholds) (g : List GeneScore) : Except Err (List GeneDist) :=
  match checkThresholds t with
  | .error e => .error e
  | .ok () =>
    match badDist t g with
    | none => .error .emptyMax
    | some bad => .ok (g.map (geneDist t bad))

/-- `penetrance_parameter_distance` with its length check -/
def penetranceParameterDistance (t : Thresholds) (q1 qdiff fold : List Rat) :
    Except Err (List GeneDist) :=
  if q1.length ≠ qdiff.length ∨ q1.length ≠ fold.length then .error .lengthMismatch
  else penetranceDistance t
    (List.zipWith (fun (a : Rat × Rat) c => { q1 := a.1, qdiff := a.2, fold := c }) (q1.zip qdiff) fold)

/-! ### penetrance tests -/

/-- `eps = 1.0e-10` in `approx_penetrance_test` -/
def absEps : Rat := 1 / 10000000000

/-- `d[np.argsort(d)[k]]`: the k-th order statistic (independent of tie order) -/
def kth (l : List Rat) (k : Nat) : Option Rat := (l.mergeSort (fun a b => decide (a ≤ b)))[k]?

/-- strict criteria: `exact_penetrance_test` ∧ `log2_fold > log2_fold_th` -/
def strictPass (t : Thresholds) (s : GeneScore) : Bool :=
  decide (s.fold > t.foldTh) && (decide (s.q1 > t.q1Th) && decide (s.qdiff > t.qdiffTh))

/-- Python `min(a, b, c)` -/
def min3 (a b c : Rat) : Rat := min a (min b c)

/-- `approx_penetrance_test` -/
def approxPenetranceTest (t : Thresholds) (nValid : Nat) (g : List GeneScore) :
    Except Err (List Bool) :=
  let nV := min nValid g.length
  match penetranceDistance t g with
  | .error e => .error e
  | .ok d =>
    let absValid := d.map (fun x => decide (x.distSq < absEps))
    if absValid.count true ≥ nV then
      -- `np.logical_and(absolutely_valid, np.logical_not(distances['invalid']))`
      .ok (d.map (fun x => decide (x.distSq < absEps) && !x.invalid))
    else
      match kth (d.map (·.q1)) (nV - 1), kth (d.map (·.qdiff)) (nV - 1), kth (d.map (·.fold)) (nV - 1) with
      | some c1, some c2, some c3 =>
        let cutoff := min3 c1 c2 c3
        .ok (d.map (fun x =>
          (decide (x.qdiff ≤ cutoff) || decide (x.q1 ≤ cutoff) || decide (x.fold ≤ cutoff)) && !x.invalid))
      | _, _, _ => .error .indexError

/-- `penetrance_tests` (scores already computed) -/
def penetranceTests (t : Thresholds) (exact : Bool) (nValid : Nat) (g : List GeneScore) :
    Except Err (List Bool) :=
  if exact then .ok (g.map (strictPass t)) else approxPenetranceTest t nValid g

/-- `penetrance_from_stats` given the allowed-gene mask -/
def penetranceFromStats (t : Thresholds) (exact : Bool) (nValid : Nat) (allowed : List Bool)
    (g : List GeneScore) : Except Err (List Bool) :=
  penetranceTests t exact nValid (maskScores allowed g)

/-! ### score_differential_genes -/

structure Config where
  th : Thresholds
  nCellsMin : Nat := 2
  exact : Bool := false
  nValid : Nat := 30
  nValidMin : Nat := 10
  /-- `valid_gene_idx` -/
  geneIdx : Option (List Nat) := none

structure Out where
  valid : List Bool
  up : List Bool

def andL (a b : List Bool) : List Bool := List.zipWith (· && ·) a b

/-- `up_mask[stats_2["mean"] > stats_1["mean"]] = 1` -/
def upMask (mean1 mean2 : List Rat) : List Bool :=
  List.zipWith (fun m1 m2 => decide (m2 > m1)) mean1 mean2

/-- `score_differential_genes` with: raw Welch p-values `praw` (abstract
inputs), the per-gene scores `g` (`q_score_from_pij ∘ pij_from_stats`,
`log2_fold`), and `pOrder`, the argsort used inside `approx_correct_ttest`. -/
def scoreCoreWith (pOrder : List Nat) (c : Config) (n1 n2 : Nat) (praw : List Rat)
    (g : List GeneScore) (mean1 mean2 : List Rat) : Except Err Out :=
  let n := g.length
  if n1 < c.nCellsMin ∨ n2 < c.nCellsMin then
    .ok { valid := List.replicate n false, up := List.replicate n false }
  else
    let pvals := approxCorrectTtestWith pOrder praw c.th.pTh
    let pValid := pvals.map (fun p => decide (p < c.th.pTh))
    let allowed1 := allowedMask n c.geneIdx
    match penetranceFromStats c.th c.exact c.nValid allowed1 g with
    | .error e => .error e
    | .ok pen1 =>
      let v1 := andL pValid pen1
      if v1.count true ≥ c.nValidMin ∨ c.exact then
        .ok { valid := v1, up := upMask mean1 mean2 }
      else
        -- the single relaxation pass: valid_gene_idx := genes allowed so far that pass the p-value test
        let allowed2 := andL allowed1 pValid
        match penetranceFromStats c.th c.exact c.nValid allowed2 g with
        | .error e => .error e
        | .ok pen2 => .ok { valid := andL pValid pen2, up := upMask mean1 mean2 }

def scoreCore (c : Config) (n1 n2 : Nat) (praw : List Rat) (g : List GeneScore)
    (mean1 mean2 : List Rat) : Except Err Out :=
  scoreCoreWith (argsort (gather (interestingIdx praw c.th.pTh) praw)) c n1 n2 praw g mean1 mean2

/-- statistics of one cluster pair -/
structure PairStats where
  n1 : Nat
  n2 : Nat
  mean1 : List Rat
  mean2 : List Rat
  pij1 : List Rat
  pij2 : List Rat
  /-- raw two-sided Welch p-value per gene (symmetric in the two clusters) -/
  praw : List Rat

def PairStats.swap (s : PairStats) : PairStats :=
  { s with n1 := s.n2, n2 := s.n1, mean1 := s.mean2, mean2 := s.mean1, pij1 := s.pij2, pij2 := s.pij1 }

def zipWith4 {α β γ δ ε} (f : α → β → γ → δ → ε) : List α → List β → List γ → List δ → List ε
  | a :: as, b :: bs, c :: cs, d :: ds => f a b c d :: zipWith4 f as bs cs ds
  | _, _, _, _ => []

/-- scores of every gene from the pair's statistics -/
def geneScores (s : PairStats) : List GeneScore :=
  zipWith4 (fun p1 p2 m1 m2 =>
    let q := qScore p1 p2
    { q1 := q.1, qdiff := q.2, fold := log2Fold m1 m2 }) s.pij1 s.pij2 s.mean1 s.mean2

/-- `score_differential_genes` from the pair's statistics -/
def scoreDifferentialGenes (c : Config) (s : PairStats) : Except Err Out :=
  scoreCore c s.n1 s.n2 s.praw (geneScores s) s.mean1 s.mean2

/-- indices where a mask is true (`np.where(mask)[0]`) -/
def whereTrue (m : List Bool) : List Nat :=
  (List.range m.length).filter (fun i => m.getD i false)

/-- `up_reg_lookup[idx]`, `down_reg_lookup[idx]` of `_find_markers_worker` -/
def upDown (o : Out) : List Nat × List Nat :=
  (whereTrue (andL o.valid o.up), whereTrue (andL o.valid (o.up.map not)))

/-- `itertools.combinations(leaves, 2)` on the sorted leaf list (`markers._prep_output_file`):
row `idx` of every table belongs to the `idx`-th pair -/
def combos2 {α} : List α → List (α × α)
  | [] => []
  | a :: rest => rest.map (fun b => (a, b)) ++ combos2 rest

/-! ### sparse assembly: `_lookup_to_sparse`, chunks of `n_per`, `_merge_sparse_by_pair_files` -/

/-- indptr without the final entry, starting at `off` -/
def indptrFrom (off : Nat) : List (List Nat) → List Nat
  | [] => []
  | r :: rs => off :: indptrFrom (off + r.length) rs

/-- `_lookup_to_sparse` on the rows in sorted pair order: `(indptr, indices)` -/
def lookupToSparse (rows : List (List Nat)) : List Nat × List Nat :=
  (indptrFrom 0 rows ++ [rows.flatten.length], rows.flatten)

/-- `idx_values[col0:col0+n_per]` for `col0 in range(0, n_pairs, n_per)` -/
def chunksOf {α} (nPer : Nat) (l : List α) : List (List α) :=
  if _h : nPer = 0 ∨ l = [] then (if l = [] then [] else [l])
  else l.take nPer :: chunksOf nPer (l.drop nPer)
termination_by l.length
decreasing_by
  have : l ≠ [] := fun e => _h (Or.inr e)
  have : 0 < l.length := List.length_pos_iff.mpr this
  simp only [List.length_drop]; omega

/-- `_merge_sparse_by_pair_files` over the per-chunk files in `col0` order:
each chunk's indptr (minus its last entry) shifted by the running offset, the
indices concatenated, the final indptr entry = total -/
def mergeGo (off : Nat) : List (List Nat × List Nat) → List Nat × List Nat
  | [] => ([], [])
  | (ip, ix) :: cs =>
    let r := mergeGo (off + ix.length) cs
    (ip.dropLast.map (· + off) ++ r.1, ix ++ r.2)

def mergeSparse (chunks : List (List Nat × List Nat)) : List Nat × List Nat :=
  let r := mergeGo 0 chunks
  (r.1 ++ [r.2.length], r.2)

/-- `n_per` of `create_sparse_by_pair_marker_file` -/
def nPerMain (nPairs nProc : Nat) : Nat :=
  let n := min 1000000 (nPairs / (2 * nProc))
  max 8 (n - n % 8)

/-! ### p-value-mask route -/

/-- `np.finfo(np.float16).max` and `.resolution` -/
def f16Max : Rat := 65504
def eps16 : Rat := 1 / 1000

/-- the value stored for a valid gene in `_p_values_worker`; `r16` is the
float64 → float16 rounding (abstract, monotone) -/
def maskWgt (r16 : Rat → Rat) (w : Rat) : Rat :=
  let w := if w < 0 then 0 else if w > f16Max - 1 then f16Max - 1 else w
  let w := if w = 0 then -1 else w
  let w := if w.abs < eps16 then eps16 else w
  r16 w

/-- one row of the p-value mask: `(gene index, stored distance)` for the genes
with corrected p < p_th that violate no floor (`_p_values_worker`; the CSR row
lists the genes in increasing order) -/
def pValuesWorkerRowWith (pOrder : List Nat) (r16 : Rat → Rat) (t : Thresholds) (n1 n2 : Nat)
    (praw : List Rat) (g : List GeneScore) : Except Err (List (Nat × Rat)) :=
  -- "no markers for a pair in which either cluster has fewer than two cells": the row stays empty
  if n1 < 2 ∨ n2 < 2 then .ok [] else
  let pvals := approxCorrectTtestWith pOrder praw t.pTh
  match penetranceDistance t g with
  | .error e => .error e
  | .ok d =>
    .ok ((List.range d.length).filterMap (fun i =>
      match pvals[i]?, d[i]? with
      | some p, some x =>
        if decide (p < t.pTh) && !x.invalid then some (i, maskWgt r16 x.wgt) else none
      | _, _ => none))

def pValuesWorkerRow (r16 : Rat → Rat) (t : Thresholds) (n1 n2 : Nat) (praw : List Rat)
    (g : List GeneScore) : Except Err (List (Nat × Rat)) :=
  pValuesWorkerRowWith (argsort (gather (interestingIdx praw t.pTh) praw)) r16 t n1 n2 praw g

/-- the consecutive-pairs test of both mask-route workers:
`delta = np.unique(np.diff(idx_values));
len(idx_values) > 1 and (len(delta) != 1 or delta[0] != 1)` -/
def consecutiveCheck (idx : List Nat) : Except Err Unit :=
  let diffs : List Int := List.zipWith (fun (a b : Nat) => (b : Int) - (a : Int)) idx idx.tail
  let uniq := diffs.eraseDups
  if idx.length > 1 then
    match uniq with
    | [d] => if d = 1 then .ok () else .error .nonConsecutive
    | _ => .error .nonConsecutive
  else .ok ()

/-- `eps = 1.0e-6` in `_get_validity_mask` -/
def maskEps : Rat := 1 / 1000000

/-- gene `i` is acceptable a priori (`valid_gene_idx`) -/
def allowedAt (geneIdx : Option (List Nat)) (i : Nat) : Bool :=
  match geneIdx with
  | none => true
  | some idx => idx.contains i

/-- `penetrance_dist[gene_indices] = raw_distances` on `np.zeros`, clipped at 0 -/
def maskDist0 (row : List (Nat × Rat)) (i : Nat) : Rat :=
  let d := (row.lookup i).getD 0
  if d < 0 then 0 else d

/-- the distance after genes absent from the mask row, or invalid a priori, received
`1.5 * bad_dist` -/
def maskDist (row : List (Nat × Rat)) (geneIdx : Option (List Nat)) (bad : Rat) (i : Nat) : Rat :=
  if (row.lookup i).isSome && allowedAt geneIdx i then maskDist0 row i else 3/2 * bad

/-- `_get_validity_mask` -/
def getValidityMask (nValid nGenes : Nat) (row : List (Nat × Rat)) (geneIdx : Option (List Nat)) :
    Except Err (List Bool) :=
  let nValid := min nValid nGenes        -- `n_valid = min(n_valid, n_genes)`
  let genes := List.range nGenes
  -- `p_mask[gene_indices] = True`
  let pMaskAt := fun i => (row.lookup i).isSome
  match listMax (genes.map (maskDist0 row)) with
  | none => .error .emptyMax
  | some good =>
    let bad := 2 * (good + 1)
    let distAt := maskDist row geneIdx bad
    let invalidAt := fun i => decide (distAt i ≥ bad)
    let absValidAt := fun i => decide (distAt i < maskEps)
    let v0 := genes.map (fun i => pMaskAt i && absValidAt i)
    if v0.count true < nValid then
      match kth (genes.map distAt) (nValid - 1) with
      | none => .error .indexError
      | some cutoff =>
        .ok (genes.map (fun i =>
          pMaskAt i && ((decide (distAt i ≤ cutoff) && !invalidAt i) || absValidAt i)))
    else .ok v0

/-- one pair through the p-value-mask route -/
def maskRouteWith (pOrder : List Nat) (r16 : Rat → Rat) (t : Thresholds) (nValid : Nat)
    (geneIdx : Option (List Nat)) (n1 n2 : Nat) (praw : List Rat) (g : List GeneScore)
    (mean1 mean2 : List Rat) : Except Err Out :=
  match pValuesWorkerRowWith pOrder r16 t n1 n2 praw g with
  | .error e => .error e
  | .ok row =>
    match getValidityMask nValid g.length row geneIdx with
    | .error e => .error e
    | .ok v => .ok { valid := v, up := upMask mean1 mean2 }

end CTM.RefMarkers
