/-
  Model of the reference-statistics writers of `cell_type_mapper`
  (diff_exp/precompute_from_anndata.py, utils/stats_utils.py,
   diff_exp/truncate_precompute.py, diff_exp/precompute_utils.py,
   diff_exp/score_utils.py).

  Core Lean only (no Mathlib): linked into the driver executable.

  Conventions (DESIGN.md §3): cell names, cluster names, file paths are `Nat`
  ids (handed out by the harness in Python sort order); floats are exact `Rat`;
  the cell-by-gene values the model sees are the log2(CPM+1) values numpy
  produced (log2 itself is not modelled, see `CTM.C09.thresholds`).
  A statistics array (`n_cells`, `sum`, `sumsq`, `gt0`, `gt1`, `ge1`) is a list
  of `Row`s, one per output row.
-/
import CTM.Generated.StatsThresholds
import CTM.Generated.StatsBuffers

namespace CTM.Stats

/-! ### accumulators -/

/-- what the file holds for one (cluster, gene): `sum`, `sumsq`, `gt0`, `gt1`, `ge1` -/
structure GStat where
  sum : Rat
  sumsq : Rat
  gt0 : Nat
  gt1 : Nat
  ge1 : Nat
  deriving Repr, BEq, DecidableEq, Inhabited

def GStat.zero : GStat := ⟨0, 0, 0, 0, 0⟩

def GStat.add (a b : GStat) : GStat :=
  ⟨a.sum + b.sum, a.sumsq + b.sumsq, a.gt0 + b.gt0, a.gt1 + b.gt1, a.ge1 + b.ge1⟩

/-- element-wise sum of two gene vectors.  On vectors of equal length (the
only case numpy accepts) this is numpy's `+`; a shorter vector is read as
padded (so that `[]` is a unit and the operation is a commutative monoid on
all lists — this is what lets the theorems avoid length side conditions). -/
def vadd : List GStat → List GStat → List GStat
  | [], ys => ys
  | xs, [] => xs
  | x :: xs, y :: ys => x.add y :: vadd xs ys

/-- one output row: `n_cells[row]` and the per-gene arrays at `[row, :]` -/
structure Row where
  n : Nat
  genes : List GStat
  deriving Repr, BEq, DecidableEq, Inhabited

/-- unit of `Row.add` -/
def Row.empty : Row := ⟨0, []⟩

/-- a row of an `np.zeros` buffer with `g` genes -/
def Row.zero (g : Nat) : Row := ⟨0, List.replicate g GStat.zero⟩

def Row.add (a b : Row) : Row := ⟨a.n + b.n, vadd a.genes b.genes⟩

/-- ordered sum of a list of rows (unit `Row.empty`) -/
def rowSum : List Row → Row
  | [] => Row.empty
  | r :: rs => r.add (rowSum rs)

/-! ### `summary_stats_for_chunk` -/

/-- `(data > cut)` resp. `(data >= cut)`; which of the two the source uses is
regenerated into `CTM.Generated` -/
def above (strict : Bool) (cut v : Rat) : Nat :=
  if strict then (if v > cut then 1 else 0) else (if v ≥ cut then 1 else 0)

/-- contribution of one matrix entry `v = log2(CPM+1)` -/
def geneStat (v : Rat) : GStat :=
  { sum := v
    sumsq := v * v
    gt0 := above Generated.gt0Strict Generated.gt0Cut v
    gt1 := above Generated.gt1Strict Generated.gt1Cut v
    ge1 := above Generated.ge1Strict Generated.ge1Cut v }

/-- contribution of one cell (one row of the log2(CPM+1) matrix) -/
def cellStat (vals : List Rat) : Row := ⟨1, vals.map geneStat⟩

/-- `summary_stats_for_chunk` of a non-empty block of cells (`n_cells`,
`data.sum(axis=0)`, `(data**2).sum(axis=0)`, the three threshold counts) -/
def summaryStats (cells : List (List Rat)) : Row := rowSum (cells.map cellStat)

/-! ### inputs -/

structure CellRec where
  /-- obs index value (cell name) -/
  name : Nat
  /-- the cell's row after normalisation to log2(CPM+1) -/
  vals : List Rat
  deriving Repr, BEq, DecidableEq, Inhabited

/-- `(data_path, r0, r1)` together with the rows `iterator.get_chunk(r0, r1)`
returns for it (row access itself is property C05) -/
structure Chunk where
  file : Nat
  r0 : Nat
  r1 : Nat
  cells : List CellRec
  deriving Repr, BEq, DecidableEq, Inhabited

inductive StatsErr where
  /-- `range(0, n, 0)` -/
  | zeroStep
  /-- division by `n_processors = 0` -/
  | zeroProcs
  /-- `work_load[i_worker]` with `i_worker >= n_processors` (IndexError) -/
  | workerIndex
  /-- `buffer_dict[k][unq_cluster]` outside the buffer (IndexError) -/
  | rowOutOfRange
  /-- no file holds a wanted cell: `final_output` stays `None` (AttributeError) -/
  | noBuffers
  /-- `KeyError` in a name → row table -/
  | keyError
  /-- `truncate_precomputed_stats_file`: hierarchy unchanged / unknown level / reordered -/
  | sameHierarchy | unknownLevel | shuffledLevels
  /-- `merge_precompute_files`: empty list, different `cluster_to_row` / `col_names` -/
  | noFiles | differentLayout
  /-- `_precompute_summary_stats_from_h5ad_and_lookup`: a file whose ordered
  `var` index differs from the first file's ("has gene_names ... which does not match") -/
  | geneMismatch
  deriving Repr, BEq, DecidableEq, Inhabited

def StatsErr.name : StatsErr → String
  | .zeroStep => "zeroStep" | .zeroProcs => "zeroProcs"
  | .workerIndex => "workerIndex" | .rowOutOfRange => "rowOutOfRange"
  | .noBuffers => "noBuffers" | .keyError => "keyError"
  | .sameHierarchy => "sameHierarchy" | .unknownLevel => "unknownLevel"
  | .shuffledLevels => "shuffledLevels" | .noFiles => "noFiles"
  | .differentLayout => "differentLayout" | .geneMismatch => "geneMismatch"

/-! ### the work split of `_precompute_summary_stats_from_h5ad_and_lookup` -/

/-- `for r0 in range(0, n, rows): r1 = min(n, r0+rows)`, from `r0`; `fuel`
bounds the number of iterations (`n` is always enough when `rows ≥ 1`) -/
def chunkRangesAux (n rows : Nat) : Nat → Nat → List (Nat × Nat)
  | 0, _ => []
  | fuel + 1, r0 =>
    if r0 < n then (r0, min n (r0 + rows)) :: chunkRangesAux n rows fuel (r0 + rows)
    else []

def chunkRanges (n rows : Nat) : List (Nat × Nat) := chunkRangesAux n rows n 0

/-- rows `r0:r1` of a file -/
def slice (cells : List CellRec) (r0 r1 : Nat) : List CellRec :=
  (cells.drop r0).take (r1 - r0)

/-- all `(data_path, r0, r1)` of one file, in loop order -/
def fileChunks (rows : Nat) (file : Nat) (cells : List CellRec) : List Chunk :=
  (chunkRanges cells.length rows).map (fun p => ⟨file, p.1, p.2, slice cells p.1 p.2⟩)

/-- state of the assignment loop.  `work_load` is
`done ++ [cur] ++ (n_processors - done.length - 1 empty lists)`;
`i_worker = done.length` -/
structure SplitState where
  done : List (List Chunk)
  cur : List Chunk
  thisN : Nat
  deriving Repr, Inhabited

/-- `work_load[i_worker].append(..); this_n_cells += r1-r0;
    if this_n_cells > n_per: i_worker += 1; this_n_cells = 0` -/
def splitStep (nProc nPer : Nat) (st : SplitState) (c : Chunk) : Except StatsErr SplitState :=
  if st.done.length < nProc then
    let cur := st.cur ++ [c]
    let t := st.thisN + (c.r1 - c.r0)
    if t > nPer then .ok ⟨st.done ++ [cur], [], 0⟩ else .ok ⟨st.done, cur, t⟩
  else .error .workerIndex

def splitLoop (nProc nPer : Nat) : SplitState → List Chunk → Except StatsErr SplitState
  | st, [] => .ok st
  | st, c :: cs =>
    match splitStep nProc nPer st c with
    | .error e => .error e
    | .ok st' => splitLoop nProc nPer st' cs

/-- `n_per = ceil(n_total_cells / n_processors)` -/
def nPer (nTotal nProc : Nat) : Nat := (nTotal + nProc - 1) / nProc

/-- the work loads handed to the workers (empty loads removed), given the
files that hold at least one wanted cell, in `data_path_list` order -/
def workSplit (files : List (Nat × List CellRec)) (rows nProc : Nat) :
    Except StatsErr (List (List Chunk)) :=
  if nProc = 0 then .error .zeroProcs
  else if rows = 0 && !files.isEmpty then .error .zeroStep
  else
    let nTotal := (files.map (fun f => f.2.length)).sum
    let chunks := files.flatMap (fun f => fileChunks rows f.1 f.2)
    match splitLoop nProc (nPer nTotal nProc) ⟨[], [], 0⟩ chunks with
    | .error e => .error e
    | .ok st => .ok ((st.done ++ [st.cur]).filter (fun l => !l.isEmpty))

/-! ### `_process_chunk`, `_process_chunk_spec`, the merge of the buffers -/

/-- the per-worker / final arrays: one `Row` per output row -/
abbrev Buffer := List Row

def zeroBuffer (nClusters g : Nat) : Buffer := List.replicate nClusters (Row.zero g)

/-- `buffer_dict[k][u] += summary[k]` for every `k`; `none` = IndexError -/
def bufAdd : Buffer → Nat → Row → Option Buffer
  | [], _, _ => none
  | b :: bs, 0, r => some (b.add r :: bs)
  | b :: bs, u + 1, r => (bufAdd bs u r).map (b :: ·)

/-- insertion into a strictly increasing list, keeping it so -/
def insertUniq (x : Nat) : List Nat → List Nat
  | [] => [x]
  | y :: ys => if x < y then x :: y :: ys else if x = y then y :: ys else y :: insertUniq x ys

/-- `np.unique` -/
def uniqueSorted (xs : List Nat) : List Nat := xs.foldr insertUniq []

/-- `cell_name_to_output_row[name] if name in cell_name_to_output_row else bad_row_idx`
(`none` is the sentinel) -/
def rowOf (nameToRow : List (Nat × Nat)) (c : CellRec) : Option Nat := nameToRow.lookup c.name

/-- the cells of a chunk whose output row is `u` (`np.where(cluster_chunk == u)`) -/
def cellsOfRow (nameToRow : List (Nat × Nat)) (u : Nat) (cells : List CellRec) : List CellRec :=
  cells.filter (fun c => rowOf nameToRow c == some u)

/-- loop over `np.unique(cluster_chunk)` -/
def processUnique (nameToRow : List (Nat × Nat)) (cells : List CellRec) :
    Buffer → List Nat → Except StatsErr Buffer
  | buf, [] => .ok buf
  | buf, u :: us =>
    match bufAdd buf u (summaryStats ((cellsOfRow nameToRow u cells).map (·.vals))) with
    | none => .error .rowOutOfRange
    | some buf' => processUnique nameToRow cells buf' us

/-- `_process_chunk` -/
def processChunk (nameToRow : List (Nat × Nat)) (buf : Buffer) (cells : List CellRec) :
    Except StatsErr Buffer :=
  processUnique nameToRow cells buf (uniqueSorted (cells.filterMap (rowOf nameToRow)))

/-- loop of `_process_chunk_spec` over its chunk list -/
def processChunks (nameToRow : List (Nat × Nat)) : Buffer → List Chunk → Except StatsErr Buffer
  | buf, [] => .ok buf
  | buf, c :: cs =>
    match processChunk nameToRow buf c.cells with
    | .error e => .error e
    | .ok buf' => processChunks nameToRow buf' cs

/-- `_process_chunk_spec`: one worker, from zeroed buffers -/
def processSpec (nClusters g : Nat) (nameToRow : List (Nat × Nat)) (load : List Chunk) :
    Except StatsErr Buffer :=
  processChunks nameToRow (zeroBuffer nClusters g) load

/-- `final_output[k] += src[k]` (same shapes) -/
def bufZipAdd (a b : Buffer) : Buffer := List.zipWith Row.add a b

/-- merge of the worker buffers in creation order, from zeros of the same shape -/
def mergeBuffers (nClusters g : Nat) : List Buffer → Except StatsErr Buffer
  | [] => .error .noBuffers
  | bs => .ok (bs.foldl bufZipAdd (zeroBuffer nClusters g))

def mapMExcept {α β ε} (f : α → Except ε β) : List α → Except ε (List β)
  | [] => .ok []
  | a :: as =>
    match f a with
    | .error e => .error e
    | .ok b => match mapMExcept f as with
      | .error e => .error e
      | .ok bs => .ok (b :: bs)

/-- a file is read iff it holds at least one wanted cell (`n_overlap > 0`) -/
def wanted (nameToRow : List (Nat × Nat)) (cells : List CellRec) : Bool :=
  cells.any (fun c => (rowOf nameToRow c).isSome)

/-- `_precompute_summary_stats_from_h5ad_and_lookup`: the arrays written to
the statistics file.  `files` = `data_path_list` as (path id, cells). -/
def precompute (nClusters g : Nat) (nameToRow : List (Nat × Nat))
    (files : List (Nat × List CellRec)) (rows nProc : Nat) : Except StatsErr Buffer :=
  match workSplit (files.filter (fun f => wanted nameToRow f.2)) rows nProc with
  | .error e => .error e
  | .ok loads =>
    match mapMExcept (processSpec nClusters g nameToRow) loads with
    | .error e => .error e
    | .ok bufs => mergeBuffers nClusters g bufs

/-- the writer run on a GIVEN assignment of chunks to workers (`loads`): one
buffer per load, merged in list order.  `precompute` is this function applied
to the assignment `workSplit` computes; the statistics do not depend on which
assignment is used as long as it deals every chunk out exactly once
(`CTM.C09.split_independent`). -/
def precomputeLoads (nClusters g : Nat) (nameToRow : List (Nat × Nat))
    (loads : List (List Chunk)) : Except StatsErr Buffer :=
  match mapMExcept (processSpec nClusters g nameToRow) loads with
  | .error e => .error e
  | .ok bufs => mergeBuffers nClusters g bufs

/-- all `(file, r0, r1)` chunks of the files that hold a wanted cell, in loop order -/
def allChunks (nameToRow : List (Nat × Nat)) (files : List (Nat × List CellRec)) (rows : Nat) :
    List Chunk :=
  (files.filter (fun f => wanted nameToRow f.2)).flatMap (fun f => fileChunks rows f.1 f.2)

/-- the census of `var` before any work: every file of `data_path_list` (wanted
or not) must list the same gene names IN THE SAME ORDER as the first one —
the arrays are accumulated column by column under the first file's
`col_names`.  `geneLists` = the ordered `var` index of every file. -/
def genesAgree : List (List Nat) → Bool
  | [] => true
  | g0 :: rest => rest.all (fun g => g == g0)

/-- `_precompute_summary_stats_from_h5ad_and_lookup` including the `var` census;
files are identified by their position in `data_path_list` (their full path),
never by their base name -/
def precomputeChecked (geneLists : List (List Nat)) (nClusters g : Nat)
    (nameToRow : List (Nat × Nat)) (files : List (Nat × List CellRec)) (rows nProc : Nat) :
    Except StatsErr Buffer :=
  if genesAgree geneLists then precompute nClusters g nameToRow files rows nProc
  else .error .geneMismatch

/-! ### integer width of the scratch buffers

In the model the integer arrays (`n_cells`, `gt0`, `gt1`, `ge1`) are unbounded
`Nat`.  In the code every worker writes its buffer to an HDF5 file and the
reduction allocates its accumulators with the dtype OF THE FIRST BUFFER
(`np.zeros(src[k].shape, dtype=src[k].dtype)`) and adds the others in place, so
the totals are only right as long as they fit that dtype.  `precomputeW bits`
is the writer with integer accumulators of `bits` value bits;
`Generated.statsBufferIntBits` is the width the current source gives them. -/

/-- in-place addition in an integer array of `bits` value bits -/
def wrapNat (bits x : Nat) : Nat := x % 2 ^ bits

def GStat.wrap (bits : Nat) (s : GStat) : GStat :=
  { s with gt0 := wrapNat bits s.gt0, gt1 := wrapNat bits s.gt1, ge1 := wrapNat bits s.ge1 }

/-- the integer entries of a row reduced modulo `2^bits` (the float arrays
`sum`, `sumsq` are not affected) -/
def Row.wrap (bits : Nat) (r : Row) : Row := ⟨wrapNat bits r.n, r.genes.map (GStat.wrap bits)⟩

/-- `final_output[k] += src[k]` with accumulators of `bits` value bits -/
def mergeBuffersW (bits nClusters g : Nat) : List Buffer → Except StatsErr Buffer
  | [] => .error .noBuffers
  | bs => .ok (bs.foldl (fun acc b => (bufZipAdd acc b).map (Row.wrap bits)) (zeroBuffer nClusters g))

/-- the writer with integer accumulators of `bits` value bits -/
def precomputeW (bits nClusters g : Nat) (nameToRow : List (Nat × Nat))
    (files : List (Nat × List CellRec)) (rows nProc : Nat) : Except StatsErr Buffer :=
  match workSplit (files.filter (fun f => wanted nameToRow f.2)) rows nProc with
  | .error e => .error e
  | .ok loads =>
    match mapMExcept (processSpec nClusters g nameToRow) loads with
    | .error e => .error e
    | .ok bufs => mergeBuffersW bits nClusters g bufs

/-- every integer entry of the arrays is below `2^bits` -/
def fitsBits (bits : Nat) (buf : Buffer) : Bool :=
  buf.all (fun r => decide (r.n < 2 ^ bits) &&
    r.genes.all (fun s => decide (s.gt0 < 2 ^ bits) && decide (s.gt1 < 2 ^ bits) &&
      decide (s.ge1 < 2 ^ bits)))

/-! ### front ends: cell name → output row -/

/-- `dict[k] = v` on an association list in insertion order -/
def dictSet (m : List (Nat × Nat)) (k v : Nat) : List (Nat × Nat) :=
  if m.any (fun p => p.1 == k) then m.map (fun p => if p.1 == k then (k, v) else p)
  else m ++ [(k, v)]

/-- position of `x` in `xs` (`cluster_to_output_row` = enumerate of the sorted cluster list) -/
def indexIn (xs : List Nat) (x : Nat) : Option Nat :=
  match xs with
  | [] => none
  | y :: ys => if x = y then some 0 else (indexIn ys x).map (· + 1)

/-- `precompute_summary_stats_from_h5ad_list_and_tree`: `leaf_to_cells` (in
dict order) ↦ `cell_name_to_output_row`; output row = rank of the cluster in
the sorted cluster list (ids are handed out in sort order) -/
def nameToRowOfTree (leafToCells : List (Nat × List Nat)) : Except StatsErr (List (Nat × Nat)) :=
  let clusters := uniqueSorted (leafToCells.map (·.1))
  let rec go : List (Nat × List Nat) → List (Nat × Nat) → Except StatsErr (List (Nat × Nat))
    | [], acc => .ok acc
    | (cl, cells) :: rest, acc =>
      match indexIn clusters cl with
      | none => .error .keyError
      | some r => go rest (cells.foldl (fun m c => dictSet m c r) acc)
  go leafToCells []

/-! ### `truncate_precomputed_stats_file` / `_convert_to_new_leaves` -/

/-- `new_leaf_to_old_leaves`: old leaves grouped by their ancestor at the new
leaf level, groups in order of first appearance -/
def groupByAnc (anc : List (Nat × Nat)) : List (Nat × List Nat) :=
  anc.foldl (fun acc p =>
    if acc.any (fun q => q.1 == p.2) then
      acc.map (fun q => if q.1 == p.2 then (q.1, q.2 ++ [p.1]) else q)
    else acc ++ [(p.2, [p.1])]) []

def setRow : Buffer → Nat → Row → Option Buffer
  | [], _, _ => none
  | _ :: bs, 0, r => some (r :: bs)
  | b :: bs, u + 1, r => (setRow bs u r).map (b :: ·)

def lookupAll (m : List (Nat × Nat)) : List Nat → Option (List Nat)
  | [] => some []
  | k :: ks => match m.lookup k, lookupAll m ks with
    | some v, some vs => some (v :: vs)
    | _, _ => none

def getRows (data : Buffer) : List Nat → Option (List Row)
  | [] => some []
  | i :: is => match data[i]?, getRows data is with
    | some r, some rs => some (r :: rs)
    | _, _ => none

/-- `_convert_to_new_leaves` for all six arrays at once: `data` = the old
arrays, `oldLeafToRow` = the file's `cluster_to_row`, `newLeaves` =
`new_tree.all_leaves` (row = position), `groups` = `new_leaf_to_old_leaves` -/
def convertToNewLeaves (g : Nat) (data : Buffer) (oldLeafToRow : List (Nat × Nat))
    (newLeaves : List Nat) (groups : List (Nat × List Nat)) : Except StatsErr Buffer :=
  let rec go : List (Nat × List Nat) → Buffer → Except StatsErr Buffer
    | [], acc => .ok acc
    | (newLeaf, olds) :: rest, acc =>
      match indexIn newLeaves newLeaf, lookupAll oldLeafToRow olds with
      | some dst, some srcRows =>
        match getRows data (uniqueSortedDup srcRows) with
        | none => .error .rowOutOfRange
        | some rs =>
          match setRow acc dst (rowSum rs) with
          | none => .error .rowOutOfRange
          | some acc' => go rest acc'
      | _, _ => .error .keyError
  go groups (zeroBuffer newLeaves.length g)
where
  /-- `src_rows.sort()` (duplicates kept) -/
  uniqueSortedDup (xs : List Nat) : List Nat := xs.mergeSort

/-- `truncate_precomputed_stats_file` when the leaf level changes: `anc` maps
every old leaf (in `old_tree.all_leaves` order) to its ancestor at the new
leaf level -/
def truncate (g : Nat) (data : Buffer) (oldLeafToRow : List (Nat × Nat))
    (newLeaves : List Nat) (anc : List (Nat × Nat)) : Except StatsErr Buffer :=
  convertToNewLeaves g data oldLeafToRow newLeaves (groupByAnc anc)

/-! ### `merge_precompute_files` -/

def totalCells (b : Buffer) : Nat := (b.map (·.n)).sum

/-- index of the first file with the largest `n_cells.sum()`
(`if ntot > most_cells or most_path is None`) -/
def mostIdx : List Buffer → Nat → Nat → Nat → Nat
  | [], _, best, _ => best
  | b :: bs, i, best, bestTot =>
    if totalCells b > bestTot then mostIdx bs (i + 1) i (totalCells b)
    else mostIdx bs (i + 1) best bestTot

/-- `to_replace = np.where(src_n_cells > dst_n_cells)`: rows replaced whole -/
def replaceWhereMore (dst src : Buffer) : Buffer :=
  List.zipWith (fun d s => if s.n > d.n then s else d) dst src

/-- `merge_precompute_files` on files already in sorted-path order; the
layout checks (`cluster_to_row`, `col_names` byte-equal) are done by the caller -/
def mergeMax (files : List Buffer) : Except StatsErr Buffer :=
  match files with
  | [] => .error .noFiles
  | f0 :: rest =>
    let k := mostIdx rest 1 0 (totalCells f0)
    match files[k]? with
    | none => .error .noFiles
    | some start =>
      .ok (((files.zipIdx).filter (fun p => p.2 != k)).foldl
            (fun dst p => replaceWhereMore dst p.1) start)

/-! ### `read_raw_precomputed_stats`, `aggregate_stats` -/

/-- `cluster_stats[leaf]` = row `cluster_to_row[leaf]` of every array -/
def readRow (data : Buffer) (clusterToRow : List (Nat × Nat)) (leaf : Nat) : Except StatsErr Row :=
  match clusterToRow.lookup leaf with
  | none => .error .keyError
  | some i => match data[i]? with
    | none => .error .rowOutOfRange
    | some r => .ok r

structure Agg where
  n : Nat
  mean : List Rat
  var : List Rat
  gt0 : List Nat
  gt1 : List Nat
  ge1 : List Nat
  deriving Repr, BEq, DecidableEq, Inhabited

/-- `mu = sum/max(1, n)`, `var = (sumsq - sum**2/max(1, n))/max(1, n-1)` -/
def meanOf (n : Nat) (s : Rat) : Rat := s / ((max 1 n : Nat) : Rat)
def varOf (n : Nat) (s sq : Rat) : Rat :=
  (sq - s * s / ((max 1 n : Nat) : Rat)) / ((max 1 (n - 1) : Nat) : Rat)

/-- `aggregate_stats(leaf_population, precomputed_stats)` from zeros of `g` genes -/
def aggregateStats (g : Nat) (data : Buffer) (clusterToRow : List (Nat × Nat))
    (leaves : List Nat) : Except StatsErr Agg :=
  match mapMExcept (readRow data clusterToRow) leaves with
  | .error e => .error e
  | .ok rows =>
    let tot := rows.foldl Row.add (Row.zero g)
    .ok { n := tot.n
          mean := tot.genes.map (fun s => meanOf tot.n s.sum)
          var := tot.genes.map (fun s => varOf tot.n s.sum s.sumsq)
          gt0 := tot.genes.map (·.gt0)
          gt1 := tot.genes.map (·.gt1)
          ge1 := tot.genes.map (·.ge1) }

end CTM.Stats
