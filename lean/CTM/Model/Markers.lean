/-
  Model of the marker-gene reconciliation of `cell_type_mapper`
  (src/cell_type_mapper/type_assignment/marker_cache_v2.py:
     validate_marker_lookup, create_marker_cache_from_specified_markers,
     write_query_markers_to_h5, serialize_markers;
   type_assignment/matching.py: assemble_query_data (gene-list part);
   type_assignment/utils.py: reconcile_taxonomy_and_markers;
   cli/from_specified_markers.py: the flatten union and drop_level).

  Core Lean only (no Mathlib): linked into the driver executable.

  Conventions (DESIGN.md §3): genes, levels, nodes are `Nat` ids handed out by
  the harness in Python string order (so `list.sort()` is `sortNat`).  The
  marker table is a Python dict = association list in iteration order, keys
  `'None'` = `none`, `'level/node'` = `some (level, node)` (the harness hands
  out ids per (level, node) pair; keys naming no node of the tree get fresh
  ids).  Python `set`s of genes are lists; cardinalities are taken after
  `dedup`; wherever the code enumerates a set the result is afterwards sorted
  (by name or by reference index), so the enumeration order is immaterial
  (theorem `writeGroup_perm`).
-/
import CTM.Model.Tree

namespace CTM
namespace Markers

abbrev Gene := Nat
/-- key of the marker table: `none` = `'None'`, `some (l, n)` = `'l/n'` -/
abbrev PKey := Option (Level × Node)
abbrev Lookup := List (PKey × List Gene)

inductive MErr where
  | treeErr (e : TreeErr)
  /-- "After comparing query data to reference data, no valid marker genes
  could be found at any level in the taxonomy" -/
  | noMarkersAnyLevel
  /-- "validating marker lookup\n..." -/
  | validating
  /-- "No markers at parent node '..' were present in query set." -/
  | noQueryOverlap
  /-- "The following marker genes are not in the reference dataset" -/
  | notInReference
  /-- `KeyError` of a name → column dict -/
  | keyError
  /-- group absent from the marker cache (`KeyError` in `serialize_markers`,
  "not in marker cache path" in `assemble_query_data`) -/
  | missingGroup
  /-- "Mismatch between query marker genes and reference marker genes" -/
  | mismatch
  /-- index outside the gene-name list (`IndexError`) -/
  | badIndex
  /-- "taxonomy_tree and marker_cache appear to describe different taxonomies" -/
  | differentTaxonomies
  deriving Repr, BEq, DecidableEq, Inhabited

def MErr.name : MErr → String
  | .treeErr e => "tree:" ++ e.name
  | .noMarkersAnyLevel => "noMarkersAnyLevel" | .validating => "validating"
  | .noQueryOverlap => "noQueryOverlap" | .notInReference => "notInReference"
  | .keyError => "keyError" | .missingGroup => "missingGroup"
  | .mismatch => "mismatch" | .badIndex => "badIndex"
  | .differentTaxonomies => "differentTaxonomies"

/-! ### sets of genes as lists -/

/-- the distinct elements (last occurrences kept; only used as a set) -/
def dedup : List Nat → List Nat
  | [] => []
  | x :: xs => if xs.contains x then dedup xs else x :: dedup xs

/-- `set(l) ∩ set(Q)` -/
def interQ (Q l : List Gene) : List Gene := dedup (l.filter (fun g => Q.contains g))

/-- `len(query_gene_names.intersection(markers))` -/
def countQ (Q l : List Gene) : Nat := (interQ Q l).length

/-- `new = list(Q ∩ new); new.sort()` -/
def sortedInter (Q l : List Gene) : List Gene := RawTree.sortNat (interQ Q l)

/-! ### dict operations -/

/-- `k in marker_lookup` / `marker_lookup[k]` -/
def get? (lk : Lookup) (k : PKey) : Option (List Gene) := lk.lookup k

def hasKey (lk : Lookup) (k : PKey) : Bool := lk.any (fun e => e.1 == k)

/-- `marker_lookup[k] = v` (position kept when the key exists, else appended) -/
def set (lk : Lookup) (k : PKey) (v : List Gene) : Lookup :=
  if hasKey lk k then lk.map (fun e => if e.1 == k then (e.1, v) else e)
  else lk ++ [(k, v)]

/-! ### `validate_marker_lookup` -/

/-- `taxonomy_tree.children(level, node)` for a parent key -/
def childrenOf (t : RawTree) (p : PKey) : Except MErr (List Node) :=
  match t.children p with
  | .ok c => .ok c
  | .error e => .error (.treeErr e)

/-- the keys the ancestor walk visits: `for ancestor_level in reverse_hier: if
ancestor_level in ancestors: f'{ancestor_level}/{ancestors[ancestor_level]}'`
(`ancestors = taxonomy_tree.parents(level, node)`, a dict level ↦ node) -/
def ancestorKeys (t : RawTree) (l : Level) (n : Node) : List PKey :=
  t.hierarchy.reverse.filterMap (fun al =>
    ((t.parents l n).lookup al).map (fun a => some (al, a)))

/-- the `for ancestor_level in reverse_hier` loop with its `continue` (ancestor
absent from the table) and its `break` (minimum reached).  Returns
`(new_markers, patched_with)`. -/
def patchLoop (Q : List Gene) (m : Nat) (lk : Lookup) :
    List PKey → List Gene → List PKey → List Gene × List PKey
  | [], new, pw => (new, pw)
  | a :: rest, new, pw =>
    match get? lk a with
    | none => patchLoop Q m lk rest new pw
    | some la =>
      let new' := new ++ la
      let pw' := pw ++ [a]
      if countQ Q new' ≥ m then (new', pw') else patchLoop Q m lk rest new' pw'

/-- the whole patch of one non-root parent whose own markers are too few:
ancestor walk, then the root's list; `(new_markers, patched_with)` -/
def patchOf (t : RawTree) (Q : List Gene) (m : Nat) (lk : Lookup)
    (l : Level) (n : Node) (own : List Gene) : List Gene × List PKey :=
  let (new, pw) := patchLoop Q m lk (ancestorKeys t l n) own []
  if countQ Q new < m then
    match get? lk none with
    | some lr => (new ++ lr, pw ++ [none])
    | none => (new, pw)
  else (new, pw)

structure VState where
  lookup : Lookup
  /-- `len(error_msg) > 0` -/
  anyErr : Bool := false
  bad : Nat := 0
  skipped : Nat := 0
  deriving Repr, BEq, DecidableEq

/-- the tail of the loop body once `markers` is known (own list, `[]` when the
key was missing and has just been added).  `readLk` is the dict the ancestor
lists are read from — in the code that is the dict being mutated
(`validateStep` passes `st.lookup`); theorem `original_lists` shows the
original table gives the same. -/
def patchAndCount (t : RawTree) (Q : List Gene) (m : Nat) (readLk : Lookup)
    (st : VState) (p : PKey) (own : List Gene) : VState :=
  -- (the dict after the patch, `marker_lookup[parent_str]` after the patch)
  let (lk', cur) : Lookup × List Gene :=
    if countQ Q own < m then
      match p with
      | none => (st.lookup, own)
      | some (l, n) =>
        let (new, pw) := patchOf t Q m readLk l n own
        if pw.isEmpty then (st.lookup, own)
        else (set st.lookup p (sortedInter Q new), sortedInter Q new)
    else (st.lookup, own)
  -- since the `fix:` 78f9fd9 this test runs for every consulted parent, not
  -- only for those with fewer than `min_markers` markers
  if countQ Q cur == 0 then
    { st with lookup := lk', anyErr := true, bad := st.bad + 1 }
  else { st with lookup := lk' }

/-- one iteration of `for parent in all_parents` (already reversed), reading
ancestor lists from `readLk` -/
def validateStepWith (t : RawTree) (Q : List Gene) (m : Nat) (readLk : VState → Lookup)
    (st : VState) (p : PKey) : Except MErr VState :=
  match childrenOf t p with
  | .error e => .error e
  | .ok ch =>
    if !(ch.length > 1) then .ok { st with skipped := st.skipped + 1 }
    else match get? st.lookup p with
      | some own =>
        if own.isEmpty && p == none then .ok { st with anyErr := true }
        else .ok (patchAndCount t Q m (readLk st) st p own)
      | none =>
        if p == none then .ok { st with anyErr := true }
        else
          let st' := { st with lookup := set st.lookup p [] }
          .ok (patchAndCount t Q m (readLk st') st' p [])

/-- the loop body as the code runs it: ancestor lists are read from the dict
that is being mutated -/
def validateStep (t : RawTree) (Q : List Gene) (m : Nat) (st : VState) (p : PKey) :
    Except MErr VState :=
  validateStepWith t Q m (fun s => s.lookup) st p

def foldSteps (step : VState → PKey → Except MErr VState) :
    List PKey → VState → Except MErr VState
  | [], st => .ok st
  | p :: ps, st =>
    match step st p with
    | .error e => .error e
    | .ok st' => foldSteps step ps st'

/-- the end of `validate_marker_lookup`: which message, or the patched table -/
def finish (nParents : Nat) (st : VState) : Except MErr Lookup :=
  if st.anyErr then
    if st.bad + st.skipped == nParents then .error .noMarkersAnyLevel
    else .error .validating
  else .ok st.lookup

/-- `validate_marker_lookup(marker_lookup, query_gene_names, taxonomy_tree,
min_markers)`: parents deepest first (`all_parents` reversed) -/
def validateLookup (t : RawTree) (Q : List Gene) (m : Nat) (lk : Lookup) :
    Except MErr Lookup :=
  match foldSteps (validateStep t Q m) t.allParents.reverse { lookup := lk } with
  | .error e => .error e
  | .ok st => finish t.allParents.length st

/-! ### `write_query_markers_to_h5` -/

/-- `{n: ii for ii, n in enumerate(names)}[g]` (the last position wins) -/
def nameToIdx : List Gene → Gene → Option Nat
  | [], _ => none
  | x :: xs, g =>
    match nameToIdx xs g with
    | some i => some (i + 1)
    | none => if x == g then some 0 else none

def insertPair (p : Nat × Nat) : List (Nat × Nat) → List (Nat × Nat)
  | [] => [p]
  | q :: qs => if p.1 ≤ q.1 then p :: q :: qs else q :: insertPair p qs

/-- `sorted_dex = np.argsort(these_reference)` applied to both arrays -/
def sortPairs : List (Nat × Nat) → List (Nat × Nat)
  | [] => []
  | p :: ps => insertPair p (sortPairs ps)

/-- `(reference_name_to_int[gene], query_name_to_int[gene])` -/
def pairOf (R Q : List Gene) (g : Gene) : Except MErr (Nat × Nat) :=
  match nameToIdx R g, nameToIdx Q g with
  | some r, some q => .ok (r, q)
  | _, _ => .error .keyError

def pairsOf (R Q : List Gene) : List Gene → Except MErr (List (Nat × Nat))
  | [] => .ok []
  | g :: gs =>
    match pairOf R Q g with
    | .error e => .error e
    | .ok p => match pairsOf R Q gs with
      | .error e => .error e
      | .ok ps => .ok (p :: ps)

/-- one group of the cache: `(reference, query)` co-sorted by reference index -/
def writeGroup (R Q : List Gene) (genes : List Gene) : Except MErr (List (Nat × Nat)) :=
  match pairsOf R Q genes with
  | .error e => .error e
  | .ok ps => .ok (sortPairs ps)

structure Cache where
  /-- group ↦ rows `(reference index, query index)` -/
  groups : List (PKey × List (Nat × Nat))
  allQuery : List Nat
  allRef : List Nat
  refNames : List Gene
  queryNames : List Gene
  deriving Repr, BEq, DecidableEq

def writeGroups (R Q : List Gene) : Lookup → Except MErr (List (PKey × List (Nat × Nat)))
  | [] => .ok []
  | (k, genes) :: rest =>
    match writeGroup R Q genes with
    | .error e => .error e
    | .ok g => match writeGroups R Q rest with
      | .error e => .error e
      | .ok gs => .ok ((k, g) :: gs)

/-- `write_query_markers_to_h5(marker_lookup, reference_gene_names,
query_gene_names)` -/
def writeCache (final : Lookup) (R Q : List Gene) : Except MErr Cache :=
  match writeGroups R Q final with
  | .error e => .error e
  | .ok gs =>
    .ok { groups := gs
          allQuery := RawTree.sortNat (dedup (gs.flatMap (fun g => g.2.map (·.2))))
          allRef := RawTree.sortNat (dedup (gs.flatMap (fun g => g.2.map (·.1))))
          refNames := R, queryNames := Q }

/-! ### `create_marker_cache_from_specified_markers` -/

/-- parents with more than one child (`consulted_parents`) -/
def consultedOf (t : RawTree) : List PKey → Except MErr (List PKey)
  | [] => .ok []
  | p :: ps =>
    match childrenOf t p with
    | .error e => .error e
    | .ok ch => match consultedOf t ps with
      | .error e => .error e
      | .ok rest => .ok (if ch.length > 1 then p :: rest else rest)

/-- the `for parent_node in marker_lookup` loop: intersect with the query,
raise on a consulted non-empty list without overlap (`consulted = none`: no
taxonomy given, every key counts) -/
def intersectAll (Q : List Gene) (consulted : Option (List PKey)) :
    Lookup → Except MErr Lookup
  | [] => .ok []
  | (k, l) :: rest =>
    let these := interQ Q l
    let isConsulted := match consulted with
      | none => true
      | some c => c.contains k
    if isConsulted && these.isEmpty && !l.isEmpty then .error .noQueryOverlap
    else match intersectAll Q consulted rest with
      | .error e => .error e
      | .ok r => .ok ((k, these) :: r)

/-- `len(missing_reference_markers) > 0` -/
def missingRef (R : List Gene) (lk : Lookup) : Bool :=
  lk.any (fun e => e.2.any (fun g => !(R.contains g)))

def createCache (t : Option RawTree) (lk : Lookup) (R Q : List Gene) (m : Nat) :
    Except MErr Cache :=
  let validated : Except MErr (Lookup × Option (List PKey)) :=
    match t with
    | none => .ok (lk, none)
    | some t =>
      match validateLookup t Q m lk with
      | .error e => .error e
      | .ok lk' => match consultedOf t t.allParents with
        | .error e => .error e
        | .ok c => .ok (lk', some c)
  match validated with
  | .error e => .error e
  | .ok (lk', consulted) =>
    match intersectAll Q consulted lk' with
    | .error e => .error e
    | .ok final =>
      if missingRef R lk' then .error .notInReference
      else writeCache final R Q

/-! ### readers of the cache -/

def namesAt (names : List Gene) : List Nat → Except MErr (List Gene)
  | [] => .ok []
  | i :: is =>
    match names[i]? with
    | none => .error .badIndex
    | some g => match namesAt names is with
      | .error e => .error e
      | .ok gs => .ok (g :: gs)

/-- `[reference_gene_names[ii] for ii in src[grp]['reference'][()]]` -/
def reportedGroup (c : Cache) (k : PKey) : Except MErr (List Gene) :=
  match c.groups.lookup k with
  | none => .error .missingGroup
  | some rows => namesAt c.refNames (rows.map (·.1))

def serializeNodes (t : RawTree) (c : Cache) :
    List (Level × Node) → Except MErr (List (PKey × List Gene))
  | [] => .ok []
  | (l, n) :: rest =>
    match childrenOf t (some (l, n)) with
    | .error e => .error e
    | .ok ch =>
      let mine : Except MErr (List Gene) :=
        if ch.length < 2 then .ok [] else reportedGroup c (some (l, n))
      match mine with
      | .error e => .error e
      | .ok g => match serializeNodes t c rest with
        | .error e => .error e
        | .ok r => .ok ((some (l, n), g) :: r)

/-- `serialize_markers(marker_cache_path, taxonomy_tree)`: every node of every
non-leaf level (`[]` for fewer than two children), then `'None'` (`[]` too when
the root has fewer than two children — `fix:` d61aa05) -/
def serialize (t : RawTree) (c : Cache) : Except MErr (List (PKey × List Gene)) :=
  let nodes := t.hierarchy.dropLast.flatMap (fun l => (t.nodesAt l).map (fun n => (l, n)))
  match serializeNodes t c nodes with
  | .error e => .error e
  | .ok r =>
    match childrenOf t none with
    | .error e => .error e
    | .ok ch =>
      let root : Except MErr (List Gene) :=
        if ch.length < 2 then .ok [] else reportedGroup c none
      match root with
      | .error e => .error e
      | .ok g => .ok (r ++ [(none, g)])

/-- gene-list part of `assemble_query_data(parent_node)`: the query genes of the
node (by query index), checked against the reference genes (by reference index);
every query gene must be among `all_query_markers` (the chunk was down-sampled
to those before). -/
def assemble (c : Cache) (k : PKey) : Except MErr (List Gene) :=
  match c.groups.lookup k with
  | none => .error .missingGroup
  | some rows =>
    match namesAt c.queryNames (rows.map (·.2)), namesAt c.refNames (rows.map (·.1)),
          namesAt c.queryNames c.allQuery with
    | .ok q, .ok r, .ok allQ =>
      if q.any (fun g => !(allQ.contains g)) then .error .keyError
      else if q != r then .error .mismatch
      else .ok q
    | .error e, _, _ => .error e
    | _, .error e, _ => .error e
    | _, _, .error e => .error e

/-- `reconcile_taxonomy_and_markers`: every parent except single-child ones (the
root included since `fix:` d61aa05) must have a group -/
def reconcile (t : RawTree) (c : Cache) : Except MErr Unit :=
  let rec go : List PKey → Except MErr Bool
    | [] => .ok true
    | p :: ps =>
      match childrenOf t p with
      | .error e => .error e
      | .ok ch =>
        let skip := ch.length == 1
        match go ps with
        | .error e => .error e
        | .ok r => .ok (r && (skip || (c.groups.lookup p).isSome))
  match go t.allParents with
  | .error e => .error e
  | .ok true => .ok ()
  | .ok false => .error .differentTaxonomies

/-! ### the flatten union and the whole marker stage of `_run_mapping` -/

/-- `marker_lookup = {'None': sorted(set().union(*marker_lookup.values()))}` -/
def flattenLookup (lk : Lookup) : Lookup :=
  [(none, RawTree.sortNat (dedup (lk.flatMap (·.2))))]

structure StageOut where
  /-- `'marker_genes'` of the output -/
  reported : List (PKey × List Gene)
  /-- genes `assemble_query_data` selects for every consulted parent -/
  used : List (PKey × List Gene)
  deriving Repr, BEq, DecidableEq

def usedOf (c : Cache) : List PKey → Except MErr (List (PKey × List Gene))
  | [] => .ok []
  | p :: ps =>
    match assemble c p with
    | .error e => .error e
    | .ok g => match usedOf c ps with
      | .error e => .error e
      | .ok r => .ok ((p, g) :: r)

/-- marker stage of `_run_mapping`: `drop_level` (ignored when the level is not
in the hierarchy), `flatten`, cache, reconcile, node gene lists, output table -/
def stage (t : RawTree) (lk : Lookup) (R Q : List Gene) (m : Nat)
    (dropLevel : Option Level) (flatten : Bool) : Except MErr StageOut :=
  let t1 : Except MErr RawTree := match dropLevel with
    | none => .ok t
    | some l =>
      if t.hierarchy.contains l then
        match t.dropLevel l with
        | .ok t' => .ok t'
        | .error e => .error (.treeErr e)
      else .ok t
  match t1 with
  | .error e => .error e
  | .ok t1 =>
    let t2 := if flatten then t1.flatten else t1
    let lk2 := if flatten then flattenLookup lk else lk
    match createCache (some t2) lk2 R Q m with
    | .error e => .error e
    | .ok c =>
      match reconcile t2 c with
      | .error e => .error e
      | .ok _ =>
        match consultedOf t2 t2.allParents with
        | .error e => .error e
        | .ok cons =>
          match usedOf c cons, serialize t2 c with
          | .ok u, .ok r => .ok { reported := r, used := u }
          | .error e, _ => .error e
          | _, .error e => .error e

end Markers
end CTM
