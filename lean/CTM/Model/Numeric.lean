/-
  Numeric kernels of the election, on exact rationals (core Lean only).

  Mirrors
    utils/distance_utils.py : _subtract_mean_and_normalize_cpu,
                              _correlation_dot_cpu,
                              _correlation_nearest_neighbors_cpu
    type_assignment/election.py : tally_votes (bootstrap sample size)
    cell_by_gene/utils.py   : convert_to_cpm

  A float64 is a dyadic rational; the harness ships every float as its exact
  `[num, den]`, so these functions compute on exactly the numbers the code
  saw -- in exact arithmetic (the IEEE rounding of numpy is in the trusted
  base, see DESIGN 3.3).  The Pearson correlation itself is irrational in
  general (two square roots); every *decision* the code takes on it (argmax)
  is taken here on `corrSsq = sign(r) * r^2`, a strictly monotone function
  of `r`, which is rational.
-/
namespace CTM.Numeric

/-! ### rounding -/

/-- `numpy.round` of an exact binary value: round half to even, as an integer. -/
def roundHalfEven (q : Rat) : Int :=
  let f := q.floor
  let r := q - (f : Rat)
  if r < 1/2 then f
  else if 1/2 < r then f + 1
  else if f % 2 = 0 then f else f + 1

/-- `tally_votes`:
    `n_bootstrap = np.round(bootstrap_factor*n_markers).astype(int);
     if n_markers > 0: n_bootstrap = max(n_bootstrap, 1)`.
    `flProd` is the float64 product `bootstrap_factor*n_markers` (the rounding
    of that product to float64 is trusted; the harness passes its exact
    value). -/
def bootstrapSize (flProd : Rat) (nMarkers : Nat) : Int :=
  let k := roundHalfEven flProd
  if 0 < nMarkers then max k 1 else k

/-- the ways `rng.choice(marker_idx, n_bootstrap, replace=False)` raises -/
inductive DrawErr where
  | negativeSample   -- ValueError: negative dimensions are not allowed
  | sampleTooLarge   -- ValueError: Cannot take a larger sample than population
  deriving DecidableEq, Repr

/-- the size of every bootstrap subset, or the `ValueError` of `rng.choice` -/
def drawSize (flProd : Rat) (nMarkers : Nat) : Except DrawErr Nat :=
  let k := bootstrapSize flProd nMarkers
  if k < 0 then .error .negativeSample
  else if (nMarkers : Int) < k then .error .sampleTooLarge
  else .ok k.toNat

/-- what the trace of one drawn subset must look like: sorted strictly
    increasing (the code sorts `chosen_idx`; duplicate-free because of
    `replace=False`), inside `[0, n)`, of the bootstrap size. -/
def subsetOk (nMarkers : Nat) (size : Nat) (s : List Nat) : Bool :=
  s.length == size && s.all (· < nMarkers) && decide (s.Pairwise (· < ·))

/-! ### vectors -/

def mean (xs : List Rat) : Rat := xs.sum / (xs.length : Rat)

/-- `data.transpose() - mu` for one row -/
def center (xs : List Rat) : List Rat := xs.map (· - mean xs)

def dot (xs ys : List Rat) : Rat := (List.zipWith (· * ·) xs ys).sum

/-- unnormalised covariance: dot product of the centred rows -/
def cov (xs ys : List Rat) : Rat := dot (center xs) (center ys)

/-- `np.sum(data**2, axis=0)` for one centred row: squared L2 norm -/
def var (xs : List Rat) : Rat := cov xs xs

/-- `invalid = (norm == 0.0); norm[invalid] = 1.0` on the *squared* norm -/
def normSq (xs : List Rat) : Rat := if var xs = 0 then 1 else var xs

/-- Signed square of the correlation `r = cov / (norm x * norm y)` computed by
    `_correlation_dot_cpu` for one (reference row, query row) pair:
    `sign(r) * r^2`.  Rows that are constant have a centred row of zeros and
    norm replaced by 1, so their correlation is 0. -/
def corrSsq (x y : List Rat) : Rat :=
  let c := cov x y
  (if 0 ≤ c then c * c else -(c * c)) / (normSq x * normSq y)

/-! ### argmax -/

/-- scan of `numpy.argmax`: the first index holding the maximum -/
def argmaxAux : (best : Nat) → (bestVal : Rat) → (i : Nat) → List Rat → Nat
  | b, _, _, [] => b
  | b, bv, i, x :: xs =>
    if bv < x then argmaxAux i x (i + 1) xs else argmaxAux b bv (i + 1) xs

/-- `numpy.argmax` over a 1-d array; `none` = the `ValueError` numpy raises
    on an empty sequence -/
def argmaxFirst : List Rat → Option Nat
  | [] => none
  | x :: xs => some (argmaxAux 0 x 1 xs)

/-- `_correlation_nearest_neighbors_cpu` for one query row `x` against the
    reference rows `refs` (already restricted to the same columns): index of
    the best reference row and the signed squared correlation with it. -/
def nearestLeaf (refs : List (List Rat)) (x : List Rat) : Option (Nat × Rat) :=
  let scores := refs.map (fun m => corrSsq m x)
  match argmaxFirst scores with
  | none => none
  | some i => some (i, scores.getD i 0)

/-- column selection `array[:, chosen_idx]` for one row (the subset is checked
    to be in range by the caller, numpy raises IndexError otherwise) -/
def pick (s : List Nat) (xs : List Rat) : List Rat := s.map (fun i => xs.getD i 0)

/-! ### counts per million -/

/-- `convert_to_cpm` for one row: `1.0e6 * (row / denom)` with
    `denom = row_sum if row_sum > 0 else 1` -/
def cpm (xs : List Rat) : List Rat :=
  let s := xs.sum
  let d := if 0 < s then s else 1
  xs.map (fun x => 1000000 * (x / d))

end CTM.Numeric
