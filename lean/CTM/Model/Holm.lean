/-
  Holm–Bonferroni step-down as written in
  `cell_type_mapper/utils/stats_utils.py` (`correct_ttest`,
  `approx_correct_ttest`).  Core Lean only (linked into the driver).

  p-values are `Rat` (a float64 is a dyadic rational; the harness ships the
  exact value).  `np.argsort` is not stable: the permutation it returns is an
  explicit parameter `order` and the theorems quantify over every permutation
  that sorts the input (`IsArgsort`).  Non-finite p-values cannot be expressed
  (`np.where(np.isfinite(..), .., 1.0)` is the identity on every `Rat`).
-/
namespace CTM.Holm

/-- `ttest_metric[sorted_t] * t_denom` with `t_denom[k] = m - k`
(`m = n_p + padding`, `k` the 0-based rank) -/
def scaled (m : Rat) : List Rat → List Rat
  | [] => []
  | x :: xs => x * m :: scaled (m - 1) xs

/-- tail of `np.maximum.accumulate` with the running maximum `a` -/
def cumMaxFrom (a : Rat) : List Rat → List Rat
  | [] => []
  | x :: xs => max a x :: cumMaxFrom (max a x) xs

/-- `np.maximum.accumulate` -/
def cumMax : List Rat → List Rat
  | [] => []
  | x :: xs => x :: cumMaxFrom x xs

/-- `np.where(ordered_p < 1.0, ordered_p, 1.0)` -/
def cap1 (x : Rat) : Rat := if x < 1 then x else 1

/-- `ttest_metric[sorted_t]` -/
def gather (order : List Nat) (p : List Rat) : List Rat := order.map (fun i => p.getD i 0)

/-- the contract of `np.argsort(p)`: a permutation of `range (len p)` along
which `p` is non-decreasing.  The order among equal values is unspecified
(numpy's default sort is not stable). -/
def IsArgsort (order : List Nat) (p : List Rat) : Prop :=
  order.Perm (List.range p.length) ∧ (gather order p).Pairwise (· ≤ ·)

/-- executable form of `IsArgsort` (used by the driver to vet an order handed
in by the harness) -/
def isArgsortB (order : List Nat) (p : List Rat) : Bool :=
  order.length == p.length
    && (List.range p.length).all (fun i => order.contains i)
    && (let g := gather order p; (g.zip g.tail).all (fun (a, b) => decide (a ≤ b)))

/-- one concrete argsort (stable merge sort of the indices) -/
def argsort (p : List Rat) : List Nat :=
  (List.range p.length).mergeSort (fun i j => decide (p.getD i 0 ≤ p.getD j 0))

/-- `ordered_p = np.zeros(n); ordered_p[sorted_t] = corrected_p` : slot `i`
receives the corrected value paired with `i` (0 if `i` is never written —
`np.zeros`; with a genuine argsort every slot is written) -/
def scatter (n : Nat) (order : List Nat) (vals : List Rat) : List Rat :=
  (List.range n).map (fun i => ((order.zip vals).lookup i).getD 0)

/-- `correct_ttest(ttest_metric, padding)` given the permutation `order`
returned by `np.argsort` -/
def correctTtestWith (order : List Nat) (p : List Rat) (padding : Nat) : List Rat :=
  let corrected := cumMax (scaled ((p.length + padding : Nat) : Rat) (gather order p))
  (scatter p.length order corrected).map cap1

/-- `correct_ttest` with the canonical argsort -/
def correctTtest (p : List Rat) (padding : Nat := 0) : List Rat :=
  correctTtestWith (argsort p) p padding

/-- `interesting_idx = np.where(result < p_th)[0]` -/
def interestingIdx (p : List Rat) (th : Rat) : List Nat :=
  (List.range p.length).filter (fun i => decide (p.getD i 0 < th))

/-- `approx_correct_ttest(ttest_metric, p_th)`; `order'` is the argsort of the
sub-array `result[interesting_idx]` -/
def approxCorrectTtestWith (order' : List Nat) (p : List Rat) (th : Rat) : List Rat :=
  let idx := interestingIdx p th
  let sub := gather idx p
  let corr := correctTtestWith order' sub (p.length - idx.length)
  (List.range p.length).map (fun i => ((idx.zip corr).lookup i).getD (p.getD i 0))

/-- `approx_correct_ttest` with the canonical argsort of the sub-array -/
def approxCorrectTtest (p : List Rat) (th : Rat) : List Rat :=
  approxCorrectTtestWith (argsort (gather (interestingIdx p th) p)) p th

end CTM.Holm
