/-
  Model of h5ad validation in `cell_type_mapper`
  (validation/validate_h5ad.py, validation/utils.py, utils/utils.py
   `choose_int_dtype`, gene_id/gene_id_mapper.py, gene_id/utils.py).

  Core Lean only (no Mathlib): linked into the driver executable.

  Conventions: matrix entries are exact `Rat` (the exact value of the stored
  float); gene / cell names are `List Char` (their spelling matters: the
  Ensembl recogniser and the `.`-suffix rule look at characters); the
  timestamp inside a placeholder name and the counter the mapper object starts
  from are parameters.
-/
import CTM.Generated.IntLadder
import CTM.Model.Stats

namespace CTM.Validate

abbrev Name := List Char

inductive VErr where
  /-- "Cell IDs need to be unique" -/
  | dupCellIds
  /-- `_check_input_gene_names`: repeated or empty gene name -/
  | badGeneNames
  /-- "Could not map any of your genes" -/
  | allUnmappable
  /-- two genes mapped to one identifier -/
  | dupMapped
  /-- min/max of an array without elements (`None < expected_max`, `.min()` of empty) -/
  | emptyMatrix
  deriving Repr, BEq, DecidableEq, Inhabited

def VErr.name : VErr → String
  | .dupCellIds => "dupCellIds" | .badGeneNames => "badGeneNames"
  | .allUnmappable => "allUnmappable" | .dupMapped => "dupMapped"
  | .emptyMatrix => "emptyMatrix"

/-! ### rounding and the integer ladder -/

/-- `np.round` on the exact value: nearest integer, ties to even -/
def roundHalfEven (x : Rat) : Int :=
  let f := x.floor
  let d := x - (f : Rat)
  if d < 1 / 2 then f
  else if 1 / 2 < d then f + 1
  else if f % 2 = 0 then f else f + 1

/-- number of binary digits of `n` -/
def bitLength (n : Nat) : Nat := if n = 0 then 0 else Nat.log2 n + 1

/-- the integer `i` rounded to a binary float with a `p`-bit significand
(ties to even; no overflow in the range used): how NumPy ≥ 2 sees a Python
`int` that is compared with a float scalar of that type -/
def toFloatBits (p : Nat) (i : Int) : Rat :=
  let a := i.natAbs
  let e := bitLength a - p
  let q := roundHalfEven ((a : Rat) / ((2 ^ e : Nat) : Rat))
  let r : Rat := (q : Rat) * ((2 ^ e : Nat) : Rat)
  if i < 0 then -r else r

/-- how the source compares the rounded bounds with `this_info.min/max`
(regenerated from the source, see `Generated.intLadderCompare`):
`native` - the bounds stay numpy scalars of the stored float type, and NumPy ≥ 2
casts the Python-int limit to that type before comparing;
`float64` - the bounds are first converted with `np.float64(..)`;
`exact` - the bounds are converted to Python ints (`int(np.round(..))`) -/
inductive CompareMode where
  | native | float64 | exact
  deriving Repr, BEq, DecidableEq, Inhabited

def CompareMode.ofString (s : String) : CompareMode :=
  if s == "exact" then .exact else if s == "float64" then .float64 else .native

/-- a limit as seen by a comparison with a float bound of `p` significand bits -/
def seenLimitFloat : CompareMode → Nat → Int → Rat
  | .exact, _, i => (i : Rat)
  | .native, p, i => toFloatBits p i
  | .float64, _, i => toFloatBits 53 i

/-- how `choose_int_dtype` sees a limit `this_info.min/max` under comparison
mode `mode`: exactly when the bounds are numpy integers (`floatBits = none`),
as `seenLimitFloat` says when they are floats (`some 24` = float32, `some 53` =
float64) -/
def seenLimitMode (mode : CompareMode) (floatBits : Option Nat) (i : Int) : Rat :=
  match floatBits with
  | none => (i : Rat)
  | some p => seenLimitFloat mode p i

abbrev Rung := String × Int × Int

/-- `int_min >= this_info.min and int_max <= this_info.max` -/
def rungAcceptsMode (mode : CompareMode) (floatBits : Option Nat) (lo hi : Int) (r : Rung) : Bool :=
  decide (seenLimitMode mode floatBits r.2.1 ≤ (lo : Rat)) &&
    decide ((hi : Rat) ≤ seenLimitMode mode floatBits r.2.2)

/-- `choose_int_dtype((mn, mx))` under an explicit comparison mode -/
def chooseIntDtypeMode (mode : CompareMode) (floatBits : Option Nat) (mn mx : Rat) : Rung :=
  match Generated.intLadder.find?
      (rungAcceptsMode mode floatBits (roundHalfEven mn) (roundHalfEven mx)) with
  | some r => r
  | none => Generated.intLadderDefault

/-- the comparison mode of the current source -/
def sourceMode : CompareMode := CompareMode.ofString Generated.intLadderCompare

/-- the limit as the current source sees it -/
def seenLimit (floatBits : Option Nat) (i : Int) : Rat :=
  match floatBits with
  | none => (i : Rat)
  | some p => seenLimitFloat sourceMode p i

/-- `int_min >= this_info.min and int_max <= this_info.max` (current source) -/
def rungAccepts (floatBits : Option Nat) (lo hi : Int) (r : Rung) : Bool :=
  decide (seenLimit floatBits r.2.1 ≤ (lo : Rat)) && decide ((hi : Rat) ≤ seenLimit floatBits r.2.2)

/-- `choose_int_dtype((mn, mx))` (current source) -/
def chooseIntDtype (floatBits : Option Nat) (mn mx : Rat) : Rung :=
  match Generated.intLadder.find? (rungAccepts floatBits (roundHalfEven mn) (roundHalfEven mx)) with
  | some r => r
  | none => Generated.intLadderDefault

/-- `np.round(chunk).astype(dtype)` for one entry: `none` when the rounded
value is outside the dtype (numpy then stores an unspecified value) -/
def castTo (r : Rung) (v : Rat) : Option Int :=
  let i := roundHalfEven v
  if r.2.1 ≤ i ∧ i ≤ r.2.2 then some i else none

def absRat (x : Rat) : Rat := if x < 0 then -x else x

/-- `np.abs(np.round(chunk) - chunk).max()` of a non-empty chunk -/
def maxDelta : List Rat → Rat
  | [] => 0
  | v :: vs => max (absRat ((roundHalfEven v : Rat) - v)) (maxDelta vs)

/-- `_is_dense_x_integers` / `_is_sparse_x_integers` on a float array read
chunk by chunk: the first chunk with `delta > eps` answers `False` -/
def isIntegersChunked (eps : Rat) (chunks : List (List Rat)) : Bool :=
  chunks.all (fun ch => !(eps < maxDelta ch))

/-! ### min / max read chunk by chunk -/

/-- the `while nchunk < 1000000000 and nchunk < ntot//2` doubling of a 2-D chunk -/
def doubleChunk2 (ntot : Nat) : Nat → Nat × Nat → Nat × Nat
  | 0, c => c
  | fuel + 1, c =>
    if c.1 * c.2 < 1000000000 ∧ c.1 * c.2 < ntot / 2 then doubleChunk2 ntot fuel (c.1 * 2, c.2 * 2)
    else c

/-- the `while chunk_size[0] < 1000000000 and chunk_size[0] < ntot//2` doubling -/
def doubleChunk1 (ntot : Nat) : Nat → Nat → Nat
  | 0, c => c
  | fuel + 1, c =>
    if c < 1000000000 ∧ c < ntot / 2 then doubleChunk1 ntot fuel (c * 2) else c

def listMin : List Rat → Option Rat
  | [] => none
  | v :: vs => match listMin vs with
    | none => some v
    | some m => some (if v < m then v else m)

def listMax : List Rat → Option Rat
  | [] => none
  | v :: vs => match listMax vs with
    | none => some v
    | some m => some (if m < v then v else m)

/-- `if min_val is None or chunk_min < min_val: min_val = chunk_min` (same for
max), over the chunks in loop order; an empty chunk has no `.min()` -/
def runMinMax : Option (Rat × Rat) → List (List Rat) → Except VErr (Option (Rat × Rat))
  | acc, [] => .ok acc
  | acc, ch :: rest =>
    match listMin ch, listMax ch with
    | some lo, some hi =>
      match acc with
      | none => runMinMax (some (lo, hi)) rest
      | some (mn, mx) =>
        runMinMax (some (if lo < mn then lo else mn, if mx < hi then hi else mx)) rest
    | _, _ => .error .emptyMatrix

def sliceR (xs : List Rat) (a b : Nat) : List Rat := (xs.drop a).take (b - a)

/-- the tiles `x_dataset[r0:r1, c0:c1]` in loop order, each flattened -/
def denseTiles (m : List (List Rat)) (nRows nCols : Nat) (cs : Nat × Nat) : List (List Rat) :=
  (Stats.chunkRanges nRows cs.1).flatMap (fun r =>
    (Stats.chunkRanges nCols cs.2).map (fun c =>
      ((m.drop r.1).take (r.2 - r.1)).flatMap (fun row => sliceR row c.1 c.2)))

/-- `_get_minmax_from_dense`; `chunks = none` is a contiguous dataset -/
def minmaxDense (m : List (List Rat)) (nCols : Nat) (chunks : Option (Nat × Nat)) :
    Except VErr (Option (Rat × Rat)) :=
  match chunks with
  | none => runMinMax none [m.flatten]
  | some c =>
    let cs := doubleChunk2 (m.length * nCols) 64 c
    runMinMax none (denseTiles m m.length nCols cs)

/-- the runs `data[i0:i1]` -/
def sparseRuns (data : List Rat) (c : Nat) : List (List Rat) :=
  (Stats.chunkRanges data.length c).map (fun p => sliceR data p.1 p.2)

/-- `_get_minmax_from_sparse`: looks at the *stored* entries only -/
def minmaxSparse (data : List Rat) (chunks : Option Nat) : Except VErr (Option (Rat × Rat)) :=
  if data.isEmpty then .ok (some (0, 0))
  else match chunks with
    | none => runMinMax none [data]
    | some c => runMinMax none (sparseRuns data (doubleChunk1 data.length 64 c))

/-! ### gene identifiers -/

def isUpperAZ (c : Char) : Bool := 'A'.toNat ≤ c.toNat && c.toNat ≤ 'Z'.toNat
def isDigit09 (c : Char) : Bool := '0'.toNat ≤ c.toNat && c.toNat ≤ '9'.toNat

/-- `[0-9]+` to the end of the string -/
def allDigits1 (s : List Char) : Bool := !s.isEmpty && s.all isDigit09

/-- `re.fullmatch(r'ENS[A-Z]+[0-9]+(\.[0-9]+)?')` -/
def isEnsembl (s : Name) : Bool :=
  match s with
  | 'E' :: 'N' :: 'S' :: rest =>
    let letters := rest.takeWhile isUpperAZ
    let rest1 := rest.dropWhile isUpperAZ
    let digits := rest1.takeWhile isDigit09
    let rest2 := rest1.dropWhile isDigit09
    !letters.isEmpty && !digits.isEmpty &&
      (match rest2 with
       | [] => true
       | '.' :: ver => allDigits1 ver
       | _ => false)
  | _ => false

/-- `n.split('.')[0]` -/
def stripSuffix (s : Name) : Name := s.takeWhile (· != '.')

structure MapState where
  out : List Name
  ct : Nat
  mapped : Nat
  unmappable : Nat
  fine : Nat
  deriving Repr, Inhabited

/-- one iteration of the loop of `map_gene_identifiers` -/
def mapStep (lookup : List (Name × Name)) (placeholder : Nat → Name) (st : MapState) (g : Name) :
    MapState :=
  if isEnsembl g then { st with out := st.out ++ [g], fine := st.fine + 1 }
  else match lookup.lookup g with
    | some e => { st with out := st.out ++ [e], mapped := st.mapped + 1 }
    | none => { st with out := st.out ++ [placeholder st.ct], ct := st.ct + 1,
                          unmappable := st.unmappable + 1 }

structure MapOut where
  mapped : List Name
  nUnmapped : Nat
  /-- counter of the name generator afterwards -/
  ct : Nat
  deriving Repr, BEq, DecidableEq, Inhabited

/-- `GeneIdMapper.map_gene_identifiers(gene_id_list, strict=False)`;
`placeholder k` is `f"unmapped_{k}_{timestamp}"`, `start` the counter of the
mapper's name generator -/
def mapGenes (lookup : List (Name × Name)) (placeholder : Nat → Name) (start : Nat)
    (genes : List Name) : Except VErr MapOut :=
  if genes.isEmpty then .ok ⟨[], 0, start⟩
  else
    let st := genes.foldl (mapStep lookup placeholder) ⟨[], start, 0, 0, 0⟩
    if st.mapped + st.unmappable > 0 ∧ st.unmappable = genes.length then .error .allUnmappable
    else .ok ⟨st.out.map stripSuffix, st.unmappable, st.ct⟩

/-- `map_gene_ids_in_var`: `none` = "var needs no change" -/
def mapGeneIdsInVar (lookup : List (Name × Name)) (placeholder : Nat → Name) (start : Nat)
    (genes : List Name) : Except VErr (Option (List Name) × Nat) :=
  match mapGenes lookup placeholder start genes with
  | .error e => .error e
  | .ok o => if o.mapped = genes then .ok (none, 0) else .ok (some o.mapped, o.nUnmapped)

def hasDup : List Name → Bool
  | [] => false
  | x :: xs => xs.contains x || hasDup xs

/-- census of `obs.index` -/
def checkCellIds (cells : List Name) : Except VErr Unit :=
  if hasDup cells then .error .dupCellIds else .ok ()

/-- `_check_input_gene_names` -/
def checkGeneNames (genes : List Name) : Except VErr Unit :=
  if hasDup genes || genes.contains [] then .error .badGeneNames else .ok ()

/-! ### `_validate_h5ad` -/

/-- how the requested layer is stored -/
inductive Storage where
  /-- dense; `chunks` as h5py reports them -/
  | dense (m : List (List Rat)) (nCols : Nat) (chunks : Option (Nat × Nat))
  /-- CSR / CSC: the stored `data` array (implicit zeros are not stored) -/
  | sparse (data : List Rat) (chunks : Option Nat)
  deriving Repr, Inhabited

def Storage.values : Storage → List Rat
  | .dense m _ _ => m.flatten
  | .sparse d _ => d

/-- the chunks in which `is_x_integers` / `round_x_to_integers` read the array
(the file's own chunks, no doubling) -/
def Storage.readChunks : Storage → List (List Rat)
  | .dense m nCols none => if m.length = 0 ∨ nCols = 0 then [] else [m.flatten]
  | .dense m nCols (some c) => denseTiles m m.length nCols c
  | .sparse d none => if d.isEmpty then [] else [d]
  | .sparse d (some c) => sparseRuns d c

def Storage.minmax : Storage → Except VErr (Option (Rat × Rat))
  | .dense m nCols ch => minmaxDense m nCols ch
  | .sparse d ch => minmaxSparse d ch

structure Input where
  cellIds : List Name
  genes : List Name
  /-- `layer == 'X'` -/
  layerIsX : Bool
  roundToInt : Bool
  /-- the stored dtype is a numpy integer type -/
  intDtype : Bool
  /-- significand bits of the stored float type (`none` for integer types) -/
  floatBits : Option Nat
  storage : Storage
  /-- the `eps` of the integrality tests, as seen by the comparison -/
  eps : Rat
  expectedMax : Option Rat
  lookup : List (Name × Name)
  start : Nat
  deriving Inhabited

/-- what `_validate_h5ad` does / writes -/
structure Plan where
  /-- a new file is written (`None` is returned otherwise) -/
  writeNew : Bool
  /-- `var.index` of the new file -/
  genes : List Name
  /-- stored values of X in the new file (same positions as the input's);
  `none` marks an entry that does not fit the chosen dtype -/
  values : List (Option Rat)
  /-- name of the integer dtype X was cast to, if it was -/
  dtype : Option String
  /-- `uns['AIBS_CDM_gene_mapping']`, in var order -/
  mapping : Option (List (Name × Name))
  /-- `uns['AIBS_CDM_n_mapped_genes']` -/
  nMapped : Nat
  hasWarnings : Bool
  deriving Repr, BEq, DecidableEq, Inhabited

def validate (placeholder : Nat → Name) (inp : Input) : Except VErr Plan :=
  match checkCellIds inp.cellIds with
  | .error e => .error e
  | .ok _ =>
  match checkGeneNames inp.genes with
  | .error e => .error e
  | .ok _ =>
  let castToInt : Bool :=
    inp.roundToInt && !(inp.intDtype || isIntegersChunked inp.eps inp.storage.readChunks)
  match mapGeneIdsInVar inp.lookup placeholder inp.start inp.genes with
  | .error e => .error e
  | .ok (mappedVar, nUnmapped) =>
  let needMinMax : Bool := inp.expectedMax.isSome || castToInt
  match (if needMinMax then inp.storage.minmax else .ok (some (0, 0))) with
  | .error e => .error e
  | .ok none => .error .emptyMatrix
  | .ok (some (mn, mx)) =>
  let lowMax : Bool := needMinMax && (match inp.expectedMax with
    | some em => decide (mx < em)
    | none => false)
  let vals := inp.storage.values
  if !inp.layerIsX || mappedVar.isSome || castToInt then
    match mappedVar with
    | some mv =>
      if hasDup mv then .error .dupMapped
      else
        let rung := chooseIntDtype inp.floatBits mn mx
        .ok { writeNew := true
              genes := mv
              values := if castToInt then vals.map (fun v => (castTo rung v).map (fun i => (i : Rat)))
                        else vals.map some
              dtype := if castToInt then some rung.1 else none
              mapping := some ((inp.genes.zip mv).filter (fun p => p.1 != p.2))
              nMapped := inp.genes.length - nUnmapped
              hasWarnings := true }
    | none =>
      let rung := chooseIntDtype inp.floatBits mn mx
      .ok { writeNew := true
            genes := inp.genes
            values := if castToInt then vals.map (fun v => (castTo rung v).map (fun i => (i : Rat)))
                      else vals.map some
            dtype := if castToInt then some rung.1 else none
            mapping := none
            nMapped := inp.genes.length - nUnmapped
            hasWarnings := lowMax || castToInt }
  else
    .ok { writeNew := false, genes := inp.genes, values := vals.map some, dtype := none,
          mapping := none, nMapped := inp.genes.length - nUnmapped, hasWarnings := lowMax }

end CTM.Validate
