/-
  Model of query-marker selection of `cell_type_mapper`
  (src/cell_type_mapper/marker_selection/selection.py, utils.py,
  marker_array.py, selection_pipeline.py).

  Core Lean only (no Mathlib): this file is linked into the driver executable.

  Conventions (DESIGN.md §3).  Reference genes are identified by their position
  in the reference-marker file's `gene_names` (`0 … nGenes-1`); query genes are
  a list of such ids (ids `≥ nGenes` are query genes the reference does not
  have).  Taxonomy pairs are identified by their column index in the
  reference-marker file (`pair_to_idx`); the pairs a parent must discriminate
  (`taxonomy_tree.leaves_to_compare`) arrive as a list of such indices, in the
  order `leaves_to_compare` returns them (property C10 shows they are exactly
  the pairs of leaves under distinct children).

  The parallel numpy arrays indexed by the local pair index
  (`marker_census[k,2]`, `are_possible[k]`, `marker_counts['marker_counts'][k,2]`,
  `marker_counts['aggregate'][k]`, `been_filled[k,2]`) are one list of records
  (`Slot`), column 0 = "down", column 1 = "up".  `utility_array` is a
  `List Int` indexed by (thinned) gene index.  `sorted_utility_idx` (an
  `np.argsort`, whose order among equal utilities is unspecified) is replaced
  by an explicit tie-breaking oracle `tie : chosen-so-far → utility → gene`;
  the model *checks* that the oracle's answer is a gene of maximal utility and
  fails with `illegalPick` otherwise, so every theorem about a successful run
  holds for every tie-breaking policy.  `genes_at_a_time = 1` only.
-/
namespace CTM.Selection

/-- markers of one taxonomy pair: `down_by_pair` / `up_by_pair` rows -/
structure Pair where
  down : List Nat
  up : List Nat
  deriving Repr, BEq, DecidableEq, Inhabited

/-- the reference-marker file as `MarkerGeneArray` sees it -/
structure RefTable where
  nGenes : Nat
  pairs : List Pair
  deriving Repr, BEq, DecidableEq, Inhabited

inductive Err where
  /-- "No gene overlap between reference and query set" -/
  | noOverlap
  /-- `idx_of_pair` raises / index outside the table -/
  | badPair
  /-- the same pair listed twice for one parent (never produced by a valid
      tree, see C10; the model does not follow `_create_new_pair_lookup`
      through that case) -/
  | dupPair
  /-- "Something is wrong; chose gene ... twice" -/
  | choseTwice
  /-- `assert len(set(up).intersection(set(down))) == 0` in
      `marker_mask_from_pair_idx` -/
  | upDownOverlap
  /-- the tie-breaking oracle did not return a gene of maximal utility
      (model-only: numpy's argsort always does) -/
  | illegalPick
  /-- `utility_array.max()` of an empty array -/
  | emptyMax
  /-- model-only: the `while True` loop did not stop within `nGenes+1`
      rounds (theorem `C12.terminates`: unreachable) -/
  | outOfFuel
  deriving Repr, BEq, DecidableEq, Inhabited

def Err.name : Err → String
  | .noOverlap => "noOverlap" | .badPair => "badPair" | .dupPair => "dupPair"
  | .choseTwice => "choseTwice" | .upDownOverlap => "upDownOverlap"
  | .illegalPick => "illegalPick" | .emptyMax => "emptyMax"
  | .outOfFuel => "outOfFuel"

/-! ### thinning to the query genes (`_from_cache_path_query_genes`) -/

/-- `np.where(query_genes_to_mask(gene_names, query_gene_names))[0]` -/
def keptGenes (nGenes : Nat) (query : List Nat) : List Nat :=
  (List.range nGenes).filter (fun g => query.contains g)

/-- `keep_only_genes` + transposition: drop the genes that are not kept and
renumber the others by their position among the kept genes -/
def thinList (kept : List Nat) (l : List Nat) : List Nat :=
  (l.filter (fun g => kept.contains g)).map (fun g => kept.idxOf g)

def thinPair (kept : List Nat) (p : Pair) : Pair :=
  { down := thinList kept p.down, up := thinList kept p.up }

/-- the thinned `MarkerGeneArray`: `kept[i]` is the reference id (= name) of
thinned gene `i` -/
structure Thinned where
  kept : List Nat
  pairs : List Pair
  deriving Repr, BEq, DecidableEq, Inhabited

def thin (t : RefTable) (query : List Nat) : Except Err Thinned :=
  let kept := keptGenes t.nGenes query
  if kept.isEmpty then .error .noOverlap
  else .ok { kept := kept, pairs := t.pairs.map (thinPair kept) }

/-! ### the greedy loop (`_run_selection`) -/

/-- one local pair index of the parallel arrays -/
structure Slot where
  down : List Nat
  up : List Nat
  /-- `marker_counts['marker_counts'][i, 0]`, `[i, 1]`, `['aggregate'][i]` -/
  cDown : Nat := 0
  cUp : Nat := 0
  agg : Nat := 0
  /-- `been_filled[i, 0]`, `[i, 1]` -/
  fDown : Bool := false
  fUp : Bool := false
  deriving Repr, BEq, DecidableEq, Inhabited

structure St where
  slots : List Slot
  util : List Int
  chosen : List Nat
  deriving Repr, BEq, DecidableEq, Inhabited

/-- `marker_census[i]` -/
def Slot.censusDown (s : Slot) : Nat := s.down.length
def Slot.censusUp (s : Slot) : Nat := s.up.length

/-- `_get_are_possible` -/
def Slot.possible (n : Nat) (s : Slot) : Bool :=
  decide (n ≤ s.censusDown) && decide (n ≤ s.censusUp)

/-- `_get_newly_full_mask[i, d] or _get_maxed_out[i, d]` -/
def Slot.condDown (n : Nat) (s : Slot) : Bool :=
  (decide (n ≤ s.cDown) && s.possible n) ||
  (s.cDown == s.censusDown || decide (2 * n ≤ s.agg))

def Slot.condUp (n : Nat) (s : Slot) : Bool :=
  (decide (n ≤ s.cUp) && s.possible n) ||
  (s.cUp == s.censusUp || decide (2 * n ≤ s.agg))

/-- `newly_full_mask and not been_filled` -/
def Slot.newDown (n : Nat) (s : Slot) : Bool := s.condDown n && !s.fDown
def Slot.newUp (n : Nat) (s : Slot) : Bool := s.condUp n && !s.fUp

/-- `been_filled[newly_full] = True` -/
def Slot.fill (n : Nat) (s : Slot) : Slot :=
  { s with fDown := s.fDown || s.condDown n, fUp := s.fUp || s.condUp n }

def ind (b : Bool) : Int := if b then 1 else 0

/-- what `recalculate_utility_array_batch` subtracts from gene `g` for one
slot: `up_mask_from_pair_idx_batch` over the newly full "up" slots plus
`down_mask_from_pair_idx_batch` over the newly full "down" slots -/
def Slot.decr (n : Nat) (g : Nat) (s : Slot) : Int :=
  ind (s.newUp n && s.up.contains g) + ind (s.newDown n && s.down.contains g)

def decrAll (n : Nat) (slots : List Slot) (g : Nat) : Int :=
  (slots.map (Slot.decr n g)).sum

/-- `_update_been_filled` -/
def updateBeenFilled (n : Nat) (st : St) : St :=
  { st with
    util := st.util.mapIdx (fun g u => u - decrAll n st.slots g),
    slots := st.slots.map (Slot.fill n) }

/-- `_update_marker_counts` for one slot -/
def Slot.bump (g : Nat) (s : Slot) : Slot :=
  if s.up.contains g then { s with cUp := s.cUp + 1, agg := s.agg + 1 }
  else if s.down.contains g then { s with cDown := s.cDown + 1, agg := s.agg + 1 }
  else s

/-- `_choose_one_gene` (after the index has been determined) -/
def chooseGene (g : Nat) (st : St) : Except Err St :=
  if st.chosen.contains g then .error .choseTwice
  else .ok { chosen := st.chosen ++ [g],
             util := st.util.set g (-1),
             slots := st.slots.map (Slot.bump g) }

/-- `create_utility_array` for one block of pairs: what
`up_mask_from_pair_idx_batch(pair_batch) + down_mask_from_pair_idx_batch(pair_batch)`
adds to the utility of gene `g` -/
def initUtil (slots : List Slot) (g : Nat) : Int :=
  (slots.map (fun s => ind (s.up.contains g) + ind (s.down.contains g))).sum

/-- `gb_size` handed to `create_utility_array` by `select_marker_genes_v2`
(pinned against the source by `CTM/Generated/SelectionConsts.lean`) -/
def gbSize : Nat := 10

/-- `batch_size = max(1, np.round(gb_size*1024**3/(3*n_genes)).astype(int))`
(the quotient is never half-way between two integers, so rounding to nearest
is `floor(q + 1/2)`; `n_genes = 0` does not reach this point) -/
def utilityBlock (gb nGenes : Nat) : Nat :=
  max 1 ((2 * (gb * 1024 ^ 3) + 3 * nGenes) / (2 * (3 * nGenes)))

/-- the slices `[pair0:pair1]` of `for pair0 in range(0, n_taxon, batch_size)`;
the first argument is fuel (the list length suffices) -/
def blockSlicesAux {α : Type} : Nat → Nat → List α → List (List α)
  | 0, _, _ => []
  | fuel + 1, bs, l =>
    if l.isEmpty then [] else l.take bs :: blockSlicesAux fuel bs (l.drop bs)

def blockSlices {α : Type} (bs : Nat) (l : List α) : List (List α) :=
  blockSlicesAux l.length bs l

/-- `create_utility_array`: `utility_sum` accumulated block by block -/
def initUtilB (bs : Nat) (slots : List Slot) (g : Nat) : Int :=
  ((blockSlices bs slots).map (fun blk => initUtil blk g)).sum

/-- the initial arrays with the utility summed over all pairs at once -/
def initStateWhole (nGenes : Nat) (pairs : List Pair) : St :=
  let slots := pairs.map (fun p => ({ down := p.down, up := p.up } : Slot))
  { slots := slots,
    util := (List.range nGenes).map (initUtil slots),
    chosen := [] }

/-- the initial arrays as `create_utility_array` builds them: the parent's
pairs are visited in blocks of `utilityBlock gbSize nGenes` pairs
(`marker_census` is the list lengths, see `Slot.censusDown/Up`) -/
def initStateB (bs nGenes : Nat) (pairs : List Pair) : St :=
  let slots := pairs.map (fun p => ({ down := p.down, up := p.up } : Slot))
  { slots := slots,
    util := (List.range nGenes).map (initUtilB bs slots),
    chosen := [] }

def initState (nGenes : Nat) (pairs : List Pair) : St :=
  initStateB (utilityBlock gbSize nGenes) nGenes pairs

/-- `desperate_cases`: `0 < total_markers <= n_desperate` -/
def Slot.desperate (n : Nat) (s : Slot) : Bool :=
  decide (0 < s.censusDown + s.censusUp) && decide (s.censusDown + s.censusUp ≤ n)

/-- `np.where(marker_mask)[0]` of `marker_mask_from_pair_idx` -/
def Slot.validGenes (nGenes : Nat) (s : Slot) : List Nat :=
  (List.range nGenes).filter (fun g => s.up.contains g || s.down.contains g)

/-- inner loop of `_choose_desperate_markers` -/
def desperateGenes : List Nat → St → Except Err St
  | [], st => .ok st
  | g :: gs, st =>
    if st.chosen.contains g then desperateGenes gs st
    else match chooseGene g st with
      | .error e => .error e
      | .ok st' => desperateGenes gs st'

/-- outer loop of `_choose_desperate_markers` over the slots in local order;
the slots' marker lists never change, so the loop runs over the initial slot
list while the state is threaded through -/
def desperateSlots (n nGenes : Nat) : List Slot → St → Except Err St
  | [], st => .ok st
  | s :: ss, st =>
    if s.desperate n then
      if s.up.any (fun g => s.down.contains g) then .error .upDownOverlap
      else match desperateGenes (s.validGenes nGenes) st with
        | .error e => .error e
        | .ok st' => desperateSlots n nGenes ss st'
    else desperateSlots n nGenes ss st

/-- `utility_array.max()` -/
def maxUtil : List Int → Option Int
  | [] => none
  | u :: us => some (us.foldl max u)

/-- `been_filled.sum() == been_filled.size` -/
def allFilled (slots : List Slot) : Bool := slots.all (fun s => s.fDown && s.fUp)

/-- is `g` a legal outcome of `sorted_utility_idx.pop(-1)`: an index of a
maximal entry -/
def legalPick (util : List Int) (g : Nat) : Bool :=
  match util[g]? with
  | none => false
  | some ug => util.all (fun u => decide (u ≤ ug))

abbrev Tie := List Nat → List Int → Nat

/-- the `while True` loop of `_run_selection`; `fuel` bounds the number of
rounds (`outOfFuel` is shown unreachable for `fuel = nGenes + 1`) -/
def loop (n : Nat) (tie : Tie) : Nat → St → Except Err St
  | 0, _ => .error .outOfFuel
  | fuel + 1, st =>
    let st := updateBeenFilled n st
    match maxUtil st.util with
    | none => .error .emptyMax
    | some m =>
      if m ≤ 0 then .ok st
      else if allFilled st.slots then .ok st
      else
        let g := tie st.chosen st.util
        if !legalPick st.util g then .error .illegalPick
        else match chooseGene g st with
          | .error e => .error e
          | .ok st' => loop n tie fuel st'

/-- `_run_selection` up to the `while True` loop (with `create_utility_array`
folded in): initial arrays, first pass of `_update_been_filled`,
`_choose_desperate_markers` -/
def preState (nGenes : Nat) (pairs : List Pair) (n : Nat) : Except Err St :=
  let st1 := updateBeenFilled n (initState nGenes pairs)
  desperateSlots n nGenes st1.slots st1

/-- `_run_selection`: the state at exit -/
def runState (nGenes : Nat) (pairs : List Pair) (n : Nat) (tie : Tie) : Except Err St :=
  match preState nGenes pairs n with
  | .error e => .error e
  | .ok st2 => loop n tie (nGenes + 1) st2

/-- `_run_selection`: gene indices in the order chosen -/
def runSelection (nGenes : Nat) (pairs : List Pair) (n : Nat) (tie : Tie) :
    Except Err (List Nat) :=
  (runState nGenes pairs n tie).map (·.chosen)

/-! ### one parent (`select_all_markers` body + `select_marker_genes_v2`) -/

def hasDup : List Nat → Bool
  | [] => false
  | x :: xs => xs.contains x || hasDup xs

def lookupPairs (pairs : List Pair) : List Nat → Except Err (List Pair)
  | [] => .ok []
  | k :: ks =>
    match pairs[k]? with
    | none => .error .badPair
    | some p => match lookupPairs pairs ks with
      | .error e => .error e
      | .ok ps => .ok (p :: ps)

/-- the local pair order: `downsample_pairs_to_other(only_keep_pairs=leaves)`
keeps the pairs in the order of `leaves` (and `_get_taxonomy_idx` is then
`0 … k-1`); for a behemoth parent the full table is used (`spawn_copy`) and
`_get_taxonomy_idx` is the *sorted* array of global indices -/
def localOrder (leaves : List Nat) (behemoth : Bool) : List Nat :=
  if behemoth then leaves.mergeSort (fun a b => decide (a ≤ b)) else leaves

/-- selection for one parent: names (reference ids) in the order chosen -/
def selectParent (t : Thinned) (leaves : List Nat) (behemoth : Bool) (n : Nat)
    (tie : Tie) : Except Err (List Nat) :=
  if leaves.isEmpty then .ok []      -- "Skipping; no leaf nodes to compare"
  else if hasDup leaves then .error .dupPair
  else match lookupPairs t.pairs (localOrder leaves behemoth) with
    | .error e => .error e
    | .ok ps =>
      match runSelection t.kept.length ps n tie with
      | .error e => .error e
      | .ok chosen => .ok (chosen.map (fun i => t.kept.getD i 0))

/-- `n_leaves > min(behemoth_cutoff, n_pairs // 2)` -/
def isBehemoth (nPairs cutoff : Nat) (leaves : List Nat) : Bool :=
  decide (min cutoff (nPairs / 2) < leaves.length)

/-- one parent of `select_all_markers`: its pairs and its `n_per_utility`
(after `n_per_utility_override`) -/
structure Parent where
  leaves : List Nat
  n : Nat
  deriving Repr, BEq, DecidableEq, Inhabited

/-- `select_all_markers`: one result per parent.  The worker processes do
not communicate, so `n_processors` does not appear; `ties i` is the
tie-breaking oracle of the i-th parent's worker. -/
def selectAll (t : RefTable) (query : List Nat) (parents : List Parent)
    (cutoff : Nat) (ties : Nat → Tie) : Except Err (List (Except Err (List Nat))) :=
  match thin t query with
  | .error e => .error e
  | .ok th =>
    .ok (parents.zipIdx.map (fun (p, i) =>
      selectParent th p.leaves (isBehemoth t.pairs.length cutoff p.leaves) p.n (ties i)))

/-! ### several reference-marker files (`create_marker_gene_lookup_from_mapping`) -/

/-- the loop `for pth in this_census: if pth_max is None or this_census[pth] > n_max`:
`best` = (index, census) of the current maximum -/
def assignFileGo : List Nat → Nat → Option (Nat × Nat) → Option (Nat × Nat)
  | [], _, best => best
  | c :: cs, i, none => assignFileGo cs (i + 1) (some (i, c))
  | c :: cs, i, some (j, m) =>
    if m < c then assignFileGo cs (i + 1) (some (i, c))
    else assignFileGo cs (i + 1) (some (j, m))

/-- index of the reference-marker file a parent is selected on, given the
number of cells under the parent in each file's statistics (file order): the
largest census, the first file on a tie -/
def assignFile (census : List Nat) : Option Nat :=
  (assignFileGo census 0 none).map (·.1)

/-- one parent of the multi-file entry point: pairs, target, census per file -/
structure MParent where
  leaves : List Nat
  n : Nat
  census : List Nat
  deriving Repr, BEq, DecidableEq, Inhabited

/-- `create_marker_gene_lookup_from_ref_list` with several files over one
taxonomy: every parent is selected, with the WHOLE query, on the table of the
file it is assigned to (`create_raw_marker_gene_lookup(input_cache_path=...,
parent_list=...)`) -/
def selectMulti (tables : List RefTable) (query : List Nat) (parents : List MParent)
    (cutoff : Nat) (ties : Nat → Tie) : List (Except Err (List Nat)) :=
  parents.zipIdx.map (fun (p, i) =>
    match assignFile p.census with
    | none => .error .badPair
    | some f =>
      match tables[f]? with
      | none => .error .badPair
      | some t =>
        match thin t query with
        | .error e => .error e
        | .ok th =>
          selectParent th p.leaves (isBehemoth t.pairs.length cutoff p.leaves) p.n (ties i))

/-! ### oracles -/

/-- replay oracle: the k-th pick is the k-th entry of the recorded trace
(thinned gene indices); past its end an index no gene has -/
def scripted (trace : List Nat) (bad : Nat) : Tie :=
  fun chosen _ => trace.getD chosen.length bad

/-- a concrete legal policy: the last index of maximal utility -/
def lastArgmax (util : List Int) : Nat :=
  match maxUtil util with
  | none => 0
  | some m => ((List.range util.length).filter (fun i => util[i]? == some m)).getLastD 0

def tieLast : Tie := fun _ u => lastArgmax u

/-- a concrete legal policy: the first index of maximal utility -/
def tieFirst : Tie := fun _ u =>
  match maxUtil u with
  | none => 0
  | some m => u.idxOf m

end CTM.Selection
