/-
  Model of query normalisation and gene addressing in `cell_type_mapper`
  (src/cell_type_mapper/cell_by_gene/utils.py: convert_to_cpm;
   cell_by_gene/cell_by_gene.py: CellByGeneMatrix.__init__,
     to_log2CPM_in_place, downsample_genes(_in_place);
   validation/utils.py: is_data_ge_zero, _get_minmax_from_sparse,
     _get_minmax_from_dense;
   type_assignment/election_runner.py: the negative check;
   type_assignment/election.py: run_type_assignment_on_h5ad_cpu's
     per-chunk preparation).

  Core Lean only.  Expression values are `Rat` (a float64 is a dyadic
  rational, shipped exactly); `log2(1 + x)` is an abstract parameter
  `f : Rat → Rat` (DESIGN §3.3).  Genes are `Nat` ids.
-/
import CTM.Model.Markers

namespace CTM
namespace Normalize
open Markers (Gene nameToIdx)

inductive NErr where
  /-- "Do not know how to handle normalization" -/
  | badNormalization
  /-- "You gave n gene_identifiers, but data has k columns" -/
  | geneCountMismatch
  /-- "gene identifiers ... appear more than once" -/
  | dupGenes
  /-- "gene g occurs more than once in selected_genes" -/
  | dupSelected
  /-- `KeyError` of `gene_to_col` -/
  | keyError
  /-- "You are calling to_log2CPM_in_place, but this CellByGeneMatrix already is
  not raw" -/
  | notRaw
  /-- "This CellByGeneMatrix has been downsampled by genes; converting to CPM
  will give a nonsense result" -/
  | genesDownsampled
  /-- "Minimum expression value is ..; must be >= 0" -/
  | negativeRaw
  /-- `.min()` of an empty array (`ValueError`) -/
  | emptyMin
  deriving Repr, BEq, DecidableEq, Inhabited

def NErr.name : NErr → String
  | .badNormalization => "badNormalization" | .geneCountMismatch => "geneCountMismatch"
  | .dupGenes => "dupGenes" | .dupSelected => "dupSelected" | .keyError => "keyError"
  | .notRaw => "notRaw" | .genesDownsampled => "genesDownsampled"
  | .negativeRaw => "negativeRaw" | .emptyMin => "emptyMin"

/-! ### `convert_to_cpm` -/

/-- `np.sum(data, axis=1)` of one row (exact) -/
def rowSum (x : List Rat) : Rat := x.sum

/-- one row of `convert_to_cpm`: `denom = where(row_sum > 0, row_sum, 1)`,
`1e6 * (x / denom)` -/
def cpmRow (x : List Rat) : List Rat :=
  let s := rowSum x
  let d := if s > 0 then s else 1
  x.map (fun v => 1000000 * (v / d))

def convertToCpm (X : List (List Rat)) : List (List Rat) := X.map cpmRow

/-! ### `CellByGeneMatrix` -/

inductive Norm where
  | raw | log2CPM
  deriving Repr, BEq, DecidableEq, Inhabited

structure CBG where
  data : List (List Rat)
  genes : List Gene
  norm : Norm
  genesDownsampled : Bool := false
  deriving Repr, BEq, DecidableEq

/-- `CellByGeneMatrix(data, gene_identifiers, normalization)`; `width` is
`data.shape[1]` (a numpy array has it even with no rows) -/
def CBG.make (data : List (List Rat)) (width : Nat) (genes : List Gene) (norm : Norm) :
    Except NErr CBG :=
  if genes.length != width then .error .geneCountMismatch
  else if RawTree.hasDup genes then .error .dupGenes
  else .ok { data := data, genes := genes, norm := norm }

/-- `[self.gene_to_col[n] for n in selected_genes]` -/
def colsOf (genes : List Gene) : List Gene → Except NErr (List Nat)
  | [] => .ok []
  | g :: gs =>
    match nameToIdx genes g with
    | none => .error .keyError
    | some i => match colsOf genes gs with
      | .error e => .error e
      | .ok is => .ok (i :: is)

/-- `row[idx_array]` (numpy fancy indexing of one row; indices come from
`gene_to_col`, so they are in range whenever the row has `len(genes)` entries) -/
def takeCols (row : List Rat) (idx : List Nat) : List Rat :=
  idx.filterMap (fun i => row[i]?)

/-- `_downsample_genes(selected_genes)`: the data restricted to the selected
genes, addressed by name -/
def CBG.selectData (m : CBG) (sel : List Gene) : Except NErr (List (List Rat)) :=
  if RawTree.hasDup sel then .error .dupSelected
  else match colsOf m.genes sel with
    | .error e => .error e
    | .ok idx => .ok (m.data.map (fun row => takeCols row idx))

/-- `downsample_genes` / `downsample_genes_in_place` -/
def CBG.downsampleGenes (m : CBG) (sel : List Gene) : Except NErr CBG :=
  match m.selectData sel with
  | .error e => .error e
  | .ok d => .ok { data := d, genes := sel, norm := m.norm, genesDownsampled := true }

/-- `to_log2CPM_in_place()` with `f x = log2(1 + x)` -/
def CBG.toLog2CPM (f : Rat → Rat) (m : CBG) : Except NErr CBG :=
  if m.norm != .raw then .error .notRaw
  else if m.genesDownsampled then .error .genesDownsampled
  else .ok { m with data := (convertToCpm m.data).map (fun r => r.map f), norm := .log2CPM }

/-! ### `is_data_ge_zero` -/

/-- `chunk.min()` -/
def minOf : List Rat → Option Rat
  | [] => none
  | x :: xs => match minOf xs with
    | none => some x
    | some y => some (if x ≤ y then x else y)

/-- the loop `if min_val is None or chunk_min < min_val: min_val = chunk_min`
over the chunks -/
def chunkedMin : List (List Rat) → Option Rat → Except NErr (Option Rat)
  | [], acc => .ok acc
  | c :: cs, acc =>
    match minOf c with
    | none => .error .emptyMin
    | some cm =>
      let acc' := match acc with
        | none => some cm
        | some a => if cm < a then some cm else some a
      chunkedMin cs acc'

/-- `for i0 in range(0, n_el, chunk): data[i0:i0+chunk]` (`fuel` ≥ number of
chunks; `chunks1 c xs := chunks1Aux c xs.length xs`) -/
def chunks1Aux (c : Nat) : Nat → List Rat → List (List Rat)
  | 0, _ => []
  | fuel + 1, xs => if xs.isEmpty then [] else xs.take c :: chunks1Aux c fuel (xs.drop c)

def chunks1 (c : Nat) (xs : List Rat) : List (List Rat) := chunks1Aux c xs.length xs

/-- the growth of the chunk size: `while c < 1000000000 and c < ntot // 2: c *= 2` -/
def growChunk (ntot : Nat) : Nat → Nat → Nat
  | 0, c => c
  | fuel + 1, c => if c < 1000000000 ∧ c < ntot / 2 then growChunk ntot fuel (c * 2) else c

/-- `_get_minmax_from_sparse(x_grp)[0]`: `stored` = the `data` array,
`chunk = none` when the dataset is not chunked -/
def minSparse (stored : List Rat) (chunk : Option Nat) : Except NErr Rat :=
  if stored.isEmpty then .ok 0
  else match chunk with
    | none => match minOf stored with
      | none => .error .emptyMin
      | some v => .ok v
    | some c =>
      match chunkedMin (chunks1 (growChunk stored.length stored.length c) stored) none with
      | .error e => .error e
      | .ok none => .error .emptyMin
      | .ok (some v) => .ok v

/-- column tiles of a block of rows: `x[r0:r1, c0:c1]` for `c0 = 0, w, 2w, ..` -/
def colTilesAux (w : Nat) : Nat → List (List Rat) → List (List Rat)
  | 0, _ => []
  | fuel + 1, block =>
    if block.all (fun r => r.isEmpty) then []
    else (block.flatMap (fun r => r.take w)) :: colTilesAux w fuel (block.map (fun r => r.drop w))

/-- row blocks -/
def rowBlocksAux (h : Nat) : Nat → List (List Rat) → List (List (List Rat))
  | 0, _ => []
  | fuel + 1, X => if X.isEmpty then [] else X.take h :: rowBlocksAux h fuel (X.drop h)

/-- the tiles (each flattened) the dense loop takes minima of; `width` =
`x.shape[1]` -/
def tiles (h w width : Nat) (X : List (List Rat)) : List (List Rat) :=
  (rowBlocksAux h X.length X).flatMap (fun b => colTilesAux w width b)

/-- `_get_minmax_from_dense(x)[0]`; `chunk = none`: not chunked (`x.min()`) -/
def minDense (X : List (List Rat)) (width : Nat) (chunk : Option (Nat × Nat)) : Except NErr Rat :=
  match chunk with
  | none => match minOf X.flatten with
    | none => .error .emptyMin
    | some v => .ok v
  | some (h, w) =>
    let ntot := X.length * width
    -- both sides are doubled together while h*w < 1e9 and h*w < ntot // 2
    let rec grow : Nat → Nat → Nat → Nat × Nat
      | 0, h, w => (h, w)
      | fuel + 1, h, w =>
        if h * w < 1000000000 ∧ h * w < ntot / 2 then grow fuel (h * 2) (w * 2) else (h, w)
    let (h', w') := grow ntot h w
    match chunkedMin (tiles h' w' width X) none with
    | .error e => .error e
    | .ok none => .error .emptyMin
    | .ok (some v) => .ok v

/-- `is_data_ge_zero`: `(False, min)` iff the minimum found is negative;
unsigned integer dtype: `(True, 0)` without looking -/
def isGeZero (unsignedDtype : Bool) (minFound : Except NErr Rat) : Except NErr (Bool × Rat) :=
  if unsignedDtype then .ok (true, 0)
  else match minFound with
    | .error e => .error e
    | .ok v => if v < 0 then .ok (false, v) else .ok (true, v)

/-- the guard of `run_type_assignment_on_h5ad`: raw data must be ≥ 0 -/
def negativeCheck (norm : Norm) (unsignedDtype : Bool) (minFound : Except NErr Rat) :
    Except NErr Unit :=
  match norm with
  | .log2CPM => .ok ()
  | .raw => match isGeZero unsignedDtype minFound with
    | .error e => .error e
    | .ok (true, _) => .ok ()
    | .ok (false, _) => .error .negativeRaw

/-! ### the per-chunk preparation of `run_type_assignment_on_h5ad_cpu` -/

/-- `CellByGeneMatrix(chunk, all_query_identifiers, normalization)`; normalise
if raw (on the full gene set); `downsample_genes_in_place(all_query_markers)` -/
def prepareChunk (f : Rat → Rat) (data : List (List Rat)) (width : Nat) (genes : List Gene)
    (norm : Norm) (allMarkers : List Gene) : Except NErr CBG :=
  match CBG.make data width genes norm with
  | .error e => .error e
  | .ok m =>
    let m1 : Except NErr CBG := if m.norm != .log2CPM then m.toLog2CPM f else .ok m
    match m1 with
    | .error e => .error e
    | .ok m1 => m1.downsampleGenes allMarkers

/-- what a node sees: `full_query_data.downsample_genes(query_markers)` -/
def nodeData (f : Rat → Rat) (data : List (List Rat)) (width : Nat) (genes : List Gene)
    (norm : Norm) (allMarkers nodeMarkers : List Gene) : Except NErr (List (List Rat)) :=
  match prepareChunk f data width genes norm allMarkers with
  | .error e => .error e
  | .ok m => m.selectData nodeMarkers

end Normalize
end CTM
