/-
  The resource-skeleton IR (C19): what `harness/ctmverif/translate_res.py` extracts from
  a stage function.  Core Lean only; semantics and theorems are in
  `CTM/Model/Scratch.lean` / `CTM/Lemmas/Scratch.lean`.
-/
namespace CTM.Skeleton

/-- one statement of a resource skeleton.  Directory *slots*: `0` = the scratch directory
the caller handed in, `1` = an output directory, `k+2` = the local bound by the `k`-th
`mkdtemp`/`mkstemp_clean` site of the function. -/
inductive Stmt
  /-- `v = tempfile.mkdtemp(dir=d, ..)` / `mkstemp_clean(dir=d, ..)` -/
  | mk (v d : Nat)
  /-- `_clean_up(v)` -/
  | clean (v : Nat)
  /-- any other statement: may raise, creates nothing this function answers for -/
  | call
  | ret
  | raise
  | tryFinally (body fin : List Stmt)
  /-- `if`: either branch -/
  | ite (a b : List Stmt)
  /-- `if v is not None` on the variable of slot `v`: the first branch runs when the slot
  is live, the second when it is not -/
  | ifLive (v : Nat) (a b : List Stmt)
  /-- `for` / `while`: zero or more times -/
  | loop (body : List Stmt)
deriving Repr

end CTM.Skeleton
