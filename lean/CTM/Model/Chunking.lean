/-
  Chunk arithmetic shared by the row iterators, the on-disk transposition and
  the chunked HDF5 copies of `cell_type_mapper`.

  Core Lean only (no Mathlib): linked into the driver executable.

  Every Python loop of the shape

      r0 = 0
      while r0 < n:                       for i0 in range(0, n, step):
          r1 = min(n, r0 + cs)                i1 = min(n, i0 + step)
          yield (r0, r1); r0 = r1

  visits the same list of half-open ranges, `chunks n cs` (for `cs ≥ 1`; the
  `for` form moves to `i0 + step`, not `i1`, but stops as soon as that is
  `≥ n`, which is exactly when `i1 = n`).
-/
namespace CTM.Chunking

/-- `np.ceil(a / b).astype(int)` for non-negative integers (`b ≥ 1`) -/
def ceilDiv (a b : Nat) : Nat := (a + b - 1) / b

/-- `type_assignment/election.py:run_type_assignment_on_h5ad`:
`max_chunk_size = max(1, ceil(n_rows / n_processors))`,
`chunk_size = min(max_chunk_size, chunk_size)` -/
def effChunk (nRows nProc cs : Nat) : Nat := min (max 1 (ceilDiv nRows nProc)) cs

/-- the `while`/`for` loop above, with explicit fuel (`n` steps always suffice
when `cs ≥ 1`; with `cs = 0` Python never terminates / raises, the model then
returns a prefix of the infinite stream — every theorem assumes `1 ≤ cs`) -/
def chunksAux (n cs : Nat) : Nat → Nat → List (Nat × Nat)
  | 0, _ => []
  | fuel + 1, r0 =>
    if r0 < n then (r0, min n (r0 + cs)) :: chunksAux n cs fuel (min n (r0 + cs))
    else []

/-- `CSRRowIterator.__next__` / `DenseArrayRowIterator.__next__` row ranges;
also `range(0, n, cs)` with `i1 = min(n, i0 + cs)` -/
def chunks (n cs : Nat) : List (Nat × Nat) := chunksAux n cs n 0

/-- Python `l[a:b]` for `0 ≤ a`, `0 ≤ b` (clamped like numpy / h5py) -/
def slice {α} (l : List α) (a b : Nat) : List α := (l.drop a).take (b - a)

/-- `[h[i0:i1] for i0 in range(0, len(h), step)]` -/
def sliceChunks {α} (step : Nat) (l : List α) : List (List α) :=
  (chunks l.length step).map fun p => slice l p.1 p.2

/-- integers `a, a+1, …, b-1` (`range(a, b)`) -/
def rangeOf (p : Nat × Nat) : List Nat := List.range' p.1 (p.2 - p.1)

/-- `h5_utils._get_slices_for_copy` for one dimension:
`chosen = max(1, min(per_dim, this_n))`, slices `range(0, this_n, chosen)`.
`perDim` is `max_elements` for a 1-d dataset and
`ceil(max_elements ** (1/ndim))` otherwise (a float computation, supplied by
the caller) -/
def copySlices1 (perDim n : Nat) : List (Nat × Nat) := chunks n (max 1 (min perDim n))

/-- `_get_slices_for_copy`: one list of slices per dimension -/
def copySlices (perDim : Nat) (shape : List Nat) : List (List (Nat × Nat)) :=
  shape.map (copySlices1 perDim)

end CTM.Chunking
