/-
  Vote arithmetic of the election, for ONE query cell (every array operation
  of the code is row-wise independent; the driver maps over cells).

  Mirrors type_assignment/election.py
    tally_votes      -> `tallyIter`, `tallyCell`, `tallyVotes`
    aggregate_votes  -> `aggregateVotes`
    choose_node      -> `chooseCell`
    run_type_assignment, write-back of runner-up tuples -> `keepRunners`
    run_type_assignment, the two post-loops             -> `finishCell`
  and taxonomy/taxonomy_tree.py
    backfill_assignments -> `inferLevels`

  Nondeterminism is a parameter: the bootstrap subsets (`subsets`), the tie
  order of `np.argsort` (`orderDesc`).  The Pearson correlation *value* of the
  winning leaf is irrational in general; it enters as data (`corr`, what numpy
  computed, exact rational of the float) next to the decision, which is taken
  on `Numeric.corrSsq`.
-/
import CTM.Model.Numeric

namespace CTM.Election
open CTM.Numeric

/-! ### tally_votes -/

inductive TallyErr where
  | draw (e : DrawErr)      -- rng.choice raises
  | indexOutOfRange         -- array[:, chosen_idx] raises IndexError
  | noReference             -- np.argmax of an empty sequence
  deriving DecidableEq, Repr

/-- one bootstrap iteration for one cell: restrict query row and reference rows
    to the subset `s`, find the nearest reference row.
    Returns (index of the nearest leaf, signed squared correlation). -/
def tallyIter (refs : List (List Rat)) (x : List Rat) (s : List Nat) :
    Except TallyErr (Nat × Rat) :=
  if !(s.all (· < x.length)) || !(refs.all (fun m => s.all (· < m.length))) then
    .error .indexOutOfRange
  else
    match nearestLeaf (refs.map (pick s)) (pick s x) with
    | none => .error .noReference
    | some r => .ok r

/-- `votes[query_idx, nearest_neighbors] += 1` for one cell -/
def bumpNat (xs : List Nat) (j : Nat) : List Nat := xs.modify j (· + 1)

/-- `corr_sum[query_idx, nearest_neighbors] += corr_values` for one cell -/
def bumpRat (xs : List Rat) (j : Nat) (c : Rat) : List Rat := xs.modify j (· + c)

/-- the accumulation loop of `tally_votes` for one cell: `rows` holds, per
    iteration, (nearest leaf, its correlation).  Returns (votes, corr_sum). -/
def tallyCell (nLeaves : Nat) (rows : List (Nat × Rat)) : List Nat × List Rat :=
  rows.foldl (fun acc r => (bumpNat acc.1 r.1, bumpRat acc.2 r.1 r.2))
    (List.replicate nLeaves 0, List.replicate nLeaves 0)

/-- `tally_votes` for one cell with the drawn subsets as a parameter and the
    correlation value of the winner supplied by `corrOf` (iteration index,
    leaf index) -- the float numpy computed.  The *choice* of the leaf is the
    model's. -/
def tallyVotes (refs : List (List Rat)) (x : List Rat) (subsets : List (List Nat))
    (corrOf : Nat → Nat → Rat) : Except TallyErr (List Nat × List Rat) := do
  let near ← subsets.mapM (tallyIter refs x)
  let rows := (List.zip (List.range near.length) near).map
    (fun (it, r) => (r.1, corrOf it r.1))
  return tallyCell refs.length rows

/-! ### assemble_query_data: which reference rows, which child each belongs to -/

/-- Python `d[k] = v` on a dict kept as an association list in insertion order:
    overwrite in place if the key exists, else append -/
def dictSet : List (Nat × Nat) → Nat → Nat → List (Nat × Nat)
  | [], k, v => [(k, v)]
  | (k', v') :: rest, k, v =>
    if k' = k then (k, v) :: rest else (k', v') :: dictSet rest k v

/-- insertion into a sorted list (`list.sort()` on names; ids are order preserving) -/
def insSorted (x : Nat) : List Nat → List Nat
  | [] => [x]
  | y :: ys => if x ≤ y then x :: y :: ys else y :: insSorted x ys

def sortList : List Nat → List Nat
  | [] => []
  | x :: xs => insSorted x (sortList xs)

/-- `assemble_query_data`: `immediate_children.sort(); for child in
    immediate_children: for leaf in tree_as_leaves[child_level][child]:
    leaf_to_type[leaf] = child` -/
def leafToType (kids : List Nat) (leavesOf : Nat → List Nat) : List (Nat × Nat) :=
  (sortList kids).foldl
    (fun acc c => (leavesOf c).foldl (fun acc leaf => dictSet acc leaf c) acc) []

/-- `assemble_query_data`, the row bookkeeping: `children = sorted(leaf_to_type)`
    are the reference rows, `reference_types[i] = leaf_to_type[children[i]]`.
    `kids` = the children of the parent node, `leavesOf c` = `as_leaves` of child
    `c` (both from the taxonomy tree, C10). -/
def assembleRows (kids : List Nat) (leavesOf : Nat → List Nat) : List Nat × List Nat :=
  let d := leafToType kids leavesOf
  let rows := sortList (d.map (·.1))
  (rows, rows.map (fun leaf => (d.lookup leaf).getD 0))

/-! ### aggregate_votes -/

/-- insert into a strictly increasing list, keeping it duplicate free -/
def insertUniq (x : Nat) : List Nat → List Nat
  | [] => [x]
  | y :: ys => if x < y then x :: y :: ys
               else if x = y then y :: ys
               else y :: insertUniq x ys

/-- `unq_types = list(set(reference_types)); unq_types.sort()` -/
def uniqSorted (ts : List Nat) : List Nat := ts.foldr insertUniq []

/-- `np.where(reference_types == t)[0]` -/
def colsOf (types : List Nat) (t : Nat) : List Nat :=
  (List.range types.length).filter (fun i => types.getD i 0 == t)

/-- `aggregate_votes` for one cell: (votes_agg, corr_agg, unq_types) -/
def aggregateVotes (types : List Nat) (votes : List Nat) (corr : List Rat) :
    List Nat × List Rat × List Nat :=
  let unq := uniqSorted types
  (unq.map (fun t => ((colsOf types t).map (fun i => votes.getD i 0)).sum),
   unq.map (fun t => ((colsOf types t).map (fun i => corr.getD i 0)).sum),
   unq)

/-! ### choose_node -/

inductive ChooseErr where
  | indexError        -- sorted_by_votes[:, 0] with no column (n_assignments = 0 or no reference)
  | zeroIterations    -- votes / 0: numpy yields nan/inf; outside the model's domain
  deriving DecidableEq, Repr

/-- a runner-up tuple `(type, votes > 0, avg_corr, vote_fraction)` -/
structure Runner where
  type : Nat
  valid : Bool
  avgCorr : Rat
  prob : Rat
  deriving DecidableEq, Repr

structure Choice where
  winner : Nat
  prob : Rat
  avgCorr : Rat
  runners : List Runner
  deriving DecidableEq, Repr

/-- `len(set(reference_types)) < len(reference_types)` -/
def hasDupTypes (types : List Nat) : Bool := (uniqSorted types).length < types.length

/-- what `np.argsort(votes)[-1::-1]` may return: a permutation of the column
    indices along which the votes do not increase.  numpy's default sort is
    not stable, so *which* such permutation is a parameter. -/
def ValidOrder (votes : List Nat) (orderDesc : List Nat) : Prop :=
  orderDesc.Perm (List.range votes.length) ∧
  (orderDesc.map (fun i => votes.getD i 0)).Pairwise (· ≥ ·)

instance (votes orderDesc : List Nat) : Decidable (ValidOrder votes orderDesc) := by
  unfold ValidOrder; exact inferInstance

/-- the columns `choose_node` works on: aggregated iff a type repeats -/
def columns (types : List Nat) (votes : List Nat) (corrSum : List Rat) :
    List Nat × List Rat × List Nat :=
  if hasDupTypes types then aggregateVotes types votes corrSum else (votes, corrSum, types)

/-- the body of `choose_node` after the (optional) aggregation, for one cell,
    on the columns it works on.  `orderDesc` is the cell's row of
    `np.argsort(votes, axis=1)[:, -1::-1]`. -/
def chooseCols (votes : List Nat) (corrSum : List Rat) (types : List Nat)
    (iters nAssign : Nat) (orderDesc : List Nat) : Except ChooseErr Choice :=
  let nA := min nAssign votes.length
  if iters = 0 then .error .zeroIterations else
  match orderDesc.take nA with
  | [] => .error .indexError
  | w :: rest =>
    let v := fun i => votes.getD i 0
    let frac := fun i => (v i : Rat) / (iters : Rat)
    let avg := fun i => corrSum.getD i 0 / ((if 0 < v i then v i else 1 : Nat) : Rat)
    .ok { winner := types.getD w 0, prob := frac w, avgCorr := avg w,
          runners := rest.map (fun i =>
            { type := types.getD i 0, valid := decide (0 < v i),
              avgCorr := avg i, prob := frac i }) }

/-- `choose_node` after `tally_votes`, for one cell.  `orderDesc` is the
    cell's row of `np.argsort(votes, axis=1)[:, -1::-1]` (over the columns
    returned by `columns`). -/
def chooseCell (types : List Nat) (votes : List Nat) (corrSum : List Rat)
    (iters nAssign : Nat) (orderDesc : List Nat) : Except ChooseErr Choice :=
  let cols := columns types votes corrSum
  chooseCols cols.1 cols.2.1 cols.2.2 iters nAssign orderDesc

/-- the write-back in `run_type_assignment`: runner-up tuples are kept only
    when their flag (votes > 0) is set:
    (runner_up_assignment, runner_up_correlation, runner_up_probability) -/
def keepRunners (rs : List Runner) : List Nat × List Rat × List Rat :=
  let k := rs.filter (·.valid)
  (k.map (·.type), k.map (·.avgCorr), k.map (·.prob))

/-! ### the two post-loops of run_type_assignment, on one cell -/

/-- one level of one cell's result after the level loop, hierarchy order -/
structure LevelRec where
  assignment : Nat
  prob : Rat
  /-- `None` at a level whose parent had a single child -/
  avgCorr : Option Rat
  runnerAssignment : List Nat
  runnerCorrelation : List Rat
  runnerProbability : List Rat
  deriving DecidableEq, Repr

/-- first post-loop, first half (top down):
    `if cell[child]['avg_correlation'] is None: ... = cell[parent]['avg_correlation']`;
    `prev` is the (already updated) value one level up, `none` above the top
    level (the pair with `parent_level is None` is skipped). -/
def fillDown : Option Rat → List LevelRec → List LevelRec
  | _, [] => []
  | prev, r :: rs =>
    let c := match r.avgCorr with
      | some c => some c
      | none => prev
    { r with avgCorr := c } :: fillDown c rs

/-- first post-loop, second half (bottom up, the fix for single-node top
    levels): `if cell[parent] is None: cell[parent] = cell[child]`. -/
def fillUp : List LevelRec → List LevelRec
  | [] => []
  | r :: rs =>
    let rs' := fillUp rs
    let c := match r.avgCorr with
      | some c => some c
      | none => match rs' with
        | [] => none
        | r' :: _ => r'.avgCorr
    { r with avgCorr := c } :: rs'

/-- second post-loop: `prob *= cell[level]['bootstrapping_probability']` -/
def runningProduct : Rat → List Rat → List Rat
  | _, [] => []
  | acc, p :: ps => (acc * p) :: runningProduct (acc * p) ps

/-- a finished level: the record plus `aggregate_probability` -/
structure OutRec where
  assignment : Nat
  prob : Rat
  avgCorr : Option Rat
  aggregate : Rat
  /-- `none` = the three `runner_up_*` keys are absent (inferred level) -/
  runners : Option (List Nat × List Rat × List Rat)
  directlyAssigned : Bool
  deriving DecidableEq, Repr

/-- both post-loops of `run_type_assignment` plus the
    `directly_assigned = True` mark of `run_type_assignment_on_h5ad`,
    for one cell; `recs` in hierarchy order, top level first. -/
def finishCell (recs : List LevelRec) : List OutRec :=
  let filled := fillUp (fillDown none recs)
  let agg := runningProduct 1 (filled.map (·.prob))
  (List.zip filled agg).map (fun (r, a) =>
    { assignment := r.assignment, prob := r.prob, avgCorr := r.avgCorr, aggregate := a,
      runners := some (r.runnerAssignment, r.runnerCorrelation, r.runnerProbability),
      directlyAssigned := true })

/-! ### backfill_assignments, on one cell -/

inductive InferErr where
  | keyError   -- `_child_to_parent[child_level][this_child]`
  deriving DecidableEq, Repr

abbrev Cell := List (Nat × OutRec)   -- level ↦ record, a Python dict

/-- one `(child_level, parent_level)` step of `backfill_assignments` -/
def inferStep (parentOf : Nat → Nat → Option Nat) (cell : Cell) (cl pl : Nat) :
    Except InferErr Cell :=
  if (cell.lookup pl).isSome then .ok cell else
  match cell.lookup cl with
  | none => .ok cell
  | some c =>
    match parentOf cl c.assignment with
    | none => .error .keyError
    | some p => .ok (cell ++ [(pl, { c with assignment := p, runners := none,
                                             directlyAssigned := false })])

/-- `zip(reverse_hierarchy[:-1], reverse_hierarchy[1:])` -/
def bottomUpPairs (hier : List Nat) : List (Nat × Nat) :=
  List.zip hier.reverse hier.reverse.tail

/-- `TaxonomyTree.backfill_assignments` for one cell; `hier` is the hierarchy
    of the full (metadata) tree, `parentOf childLevel child` its
    `_child_to_parent`. -/
def inferLevels (parentOf : Nat → Nat → Option Nat) (hier : List Nat) (cell : Cell) :
    Except InferErr Cell :=
  (bottomUpPairs hier).foldlM (fun c p => inferStep parentOf c p.1 p.2) cell

end CTM.Election
