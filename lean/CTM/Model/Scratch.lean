/-
  File-system model for C19 (runs leave inputs untouched, scratch empty, and do not
  interfere) and the semantics / analysis of the resource-skeleton IR.  Core Lean only.

  Part 1 -- a file system is a finite map path ↦ kind, represented as a function; the
  operations are what `strace` shows of a stage: `mkdtemp`/`mkstemp` (the fresh name is a
  parameter: it is whatever `tempfile` picked), `mkdir`, `write` (open for writing: create or
  overwrite), `openRO`, `listdir`, `unlink`, `rmdir`, `rmtree`, `move`.  A *run* is a list of
  operations.  `footprintOk` is the discipline the stages are meant to follow: temporaries
  only under the scratch directories handed in (or under temporaries of the same run),
  everything else mutated or listed lies under a temporary of the same run or is a declared
  output, and only inputs / outputs / own temporaries are read.

  Part 2 -- `Exec`: every control-flow path of a resource skeleton
  (`CTM/Model/Skeleton.lean`, regenerated from the source) with a raise possible at every
  call site; `post`: a may-be-live analysis of it (the executable side of
  `C19.scratch_restored`).
-/
import CTM.Model.Skeleton

namespace CTM.Scratch

/-! ### Part 1: file system -/

abbrev Name := String
/-- absolute, normalised path: its components -/
abbrev Path := List Name

inductive Kind
  | dir
  /-- a regular file; `content` identifies what was last written -/
  | file (content : Nat)
deriving DecidableEq, Repr

abbrev FS := Path → Option Kind

inductive Op
  /-- `tempfile.mkdtemp(dir=p.dropLast)` returned `p` (the last component is the fresh name) -/
  | mkdtemp (p : Path)
  /-- `tempfile.mkstemp(dir=p.dropLast)` (through `mkstemp_clean`) returned `p` -/
  | mkstemp (p : Path)
  | mkdir (p : Path)
  /-- `open(p, 'w' | 'a' | 'r+')`, `h5py.File(p, 'w' | 'a')`, `shutil.copy(.., p)`:
  creates or overwrites; `tok` identifies the content -/
  | write (p : Path) (tok : Nat)
  /-- `open(p, 'r')` -/
  | openRO (p : Path)
  /-- `iterdir` / `listdir` / `scandir` of `p` -/
  | listdir (p : Path)
  | unlink (p : Path)
  | rmdir (p : Path)
  /-- `shutil.rmtree(p)` as one step -/
  | rmtree (p : Path)
  /-- `os.rename` / `shutil.move` of one entry -/
  | move (src dst : Path)
deriving DecidableEq, Repr

def FS.set (fs : FS) (p : Path) (k : Option Kind) : FS := fun q => if q = p then k else fs q

/-- the paths whose entry an operation may change -/
def Op.writes : Op → Path → Bool
  | .mkdtemp p, q | .mkstemp p, q | .mkdir p, q | .write p _, q | .unlink p, q | .rmdir p, q =>
      q == p
  | .rmtree p, q => p.isPrefixOf q
  | .move s d, q => q == s || q == d
  | .openRO _, _ | .listdir _, _ => false

/-- the paths whose entry an operation observes -/
def Op.reads : Op → Path → Bool
  | .openRO p, q => q == p
  | .listdir p, q => q != [] && q.dropLast == p
  | .move s _, q => q == s
  | _, _ => false

def Op.touches (o : Op) (q : Path) : Bool := o.writes q || o.reads q

/-- the new entry an operation gives to a path it writes (it may depend on what the
operation reads: a `move` carries the source entry over) -/
def Op.val : Op → FS → Path → Option Kind
  | .mkdtemp _, _, _ | .mkdir _, _, _ => some .dir
  | .mkstemp _, _, _ => some (.file 0)
  | .write _ tok, _, _ => some (.file tok)
  | .move s d, fs, q => if q = d then fs s else none
  | _, _, _ => none

/-- effect of one operation: exactly the entries in `writes` are rewritten -/
def step (o : Op) (fs : FS) : FS := fun q => if o.writes q then o.val fs q else fs q

/-- what one operation sees of the file system -/
def obs (o : Op) (fs : FS) : FS := fun q => if o.reads q then fs q else none

/-- final file system of a run -/
def exec (fs : FS) (run : List Op) : FS := run.foldl (fun fs o => step o fs) fs

/-- what the run saw, operation by operation (its *reads*) -/
def reads : FS → List Op → List FS
  | _, [] => []
  | fs, o :: rest => obs o fs :: reads (step o fs) rest

/-- would the operation succeed?  (used when a real trace is replayed: every traced
system call did succeed) -/
def okIn (fs : FS) : Op → Bool
  | .mkdtemp p | .mkstemp p | .mkdir p => fs p == none && fs p.dropLast == some .dir
  | .write p _ => (fs p != some .dir) && fs p.dropLast == some .dir
  | .openRO p => match fs p with
    | some (.file _) => true
    | _ => false
  | .listdir p => fs p == some .dir
  | .unlink p => match fs p with
    | some (.file _) => true
    | _ => false
  | .rmdir p => fs p == some .dir
  | .rmtree p => fs p == some .dir
  | .move s d => (fs s).isSome && fs d.dropLast == some .dir

/-- index of the first operation of the run that could not have succeeded -/
def firstNotOk : FS → List Op → Nat → Option Nat
  | _, [], _ => none
  | fs, o :: rest, i => if okIn fs o then firstNotOk (step o fs) rest (i + 1) else some i

/-- what a run is allowed to touch -/
structure Decl where
  /-- directories in which it may create uniquely named temporaries -/
  scratch : List Path
  /-- files it may create, overwrite or remove -/
  outputs : List Path
  /-- files it may read -/
  inputs : List Path

def under (roots : List Path) (q : Path) : Bool := roots.any (fun r => r.isPrefixOf q)

/-- is this operation within the footprint, given the temporaries `owned` so far? -/
def opOk (d : Decl) (owned : List Path) : Op → Bool
  | .mkdtemp p | .mkstemp p =>
      p != [] && (d.scratch.contains p.dropLast || under owned p.dropLast)
  | .mkdir p | .rmdir p | .rmtree p | .listdir p => under owned p
  | .write p _ | .unlink p => under owned p || d.outputs.contains p
  | .openRO p => under owned p || d.outputs.contains p || d.inputs.contains p
  | .move s t => under owned s && (under owned t || d.outputs.contains t)

/-- the temporaries an operation adds -/
def Op.fresh : Op → List Path
  | .mkdtemp p | .mkstemp p => [p]
  | _ => []

def footGo (d : Decl) : List Path → List Op → Bool
  | _, [] => true
  | owned, o :: rest => opOk d owned o && footGo d (o.fresh ++ owned) rest

/-- the footprint discipline -/
def footprintOk (d : Decl) (run : List Op) : Bool := footGo d [] run

/-- index of the first operation outside the footprint -/
def firstOutside (d : Decl) : List Path → List Op → Nat → Option Nat
  | _, [], _ => none
  | owned, o :: rest, i =>
    if opOk d owned o then firstOutside d (o.fresh ++ owned) rest (i + 1) else some i

/-- every temporary the run created -/
def freshOf (run : List Op) : List Path := run.flatMap Op.fresh

/-- `fs` with the entries of `stale` laid over it -/
def overlay (stale fs : FS) : FS := fun q => match stale q with
  | some k => some k
  | none => fs q

/-- an interleaving of two runs is a list of tagged operations (`true` = the operation
belongs to the first run); `proj` recovers each run -/
def proj (who : Bool) (l : List (Bool × Op)) : List Op :=
  (l.filter (fun x => x.1 == who)).map (·.2)

/-- the interleaving as one run -/
def untag (l : List (Bool × Op)) : List Op := l.map (·.2)

/-- what the operations of one of the two runs see inside an interleaving
-/
def readsOf (who : Bool) : FS → List (Bool × Op) → List FS
  | _, [] => []
  | fs, (t, o) :: rest =>
    if t == who then obs o fs :: readsOf who (step o fs) rest
    else readsOf who (step o fs) rest

/-! ### Part 2: resource skeletons -/

open CTM.Skeleton

inductive Exit
  | norm
  | ret
  | exc
deriving DecidableEq, Repr

/-- live top-level temporaries: the slots created directly under a directory the caller
handed in (slot 0 or 1) and not yet cleaned up.  A temporary created under a local one
(`d ≥ 2`) disappears with it and is not tracked. -/
abbrev Live := List Nat

def tracked (d : Nat) : Bool := d < 2

/-- the finally clause runs after the body whatever its exit; its own non-normal exit
replaces the body's -/
def Exit.afterFinally (body fin : Exit) : Exit := if fin = .norm then body else fin

mutual
/-- every control-flow path of one statement: a raise is possible at every `call`, at every
`mk` (before anything is created) and at `raise`; `_clean_up` itself does not raise -/
inductive ExecS : Stmt → Live → Exit → Live → Prop
  | mkOk (v d σ) : ExecS (.mk v d) σ .norm (if tracked d then v :: σ else σ)
  | mkRaise (v d σ) : ExecS (.mk v d) σ .exc σ
  | clean (v σ) : ExecS (.clean v) σ .norm (σ.filter (· != v))
  | callOk (σ) : ExecS .call σ .norm σ
  | callRaise (σ) : ExecS .call σ .exc σ
  | ret (σ) : ExecS .ret σ .ret σ
  | raise (σ) : ExecS .raise σ .exc σ
  | tryFinally {b f σ e σ' e' σ''} :
      ExecL b σ e σ' → ExecL f σ' e' σ'' → ExecS (.tryFinally b f) σ (e.afterFinally e') σ''
  | iteL {a b σ e σ'} : ExecL a σ e σ' → ExecS (.ite a b) σ e σ'
  | iteR {a b σ e σ'} : ExecL b σ e σ' → ExecS (.ite a b) σ e σ'
  | ifLiveT {v a b σ e σ'} : v ∈ σ → ExecL a σ e σ' → ExecS (.ifLive v a b) σ e σ'
  | ifLiveF {v a b σ e σ'} : v ∉ σ → ExecL b σ e σ' → ExecS (.ifLive v a b) σ e σ'
  | loopDone {b σ} : ExecS (.loop b) σ .norm σ
  | loopExit {b σ e σ'} : ExecL b σ e σ' → e ≠ .norm → ExecS (.loop b) σ e σ'
  | loopNext {b σ σ' e σ''} :
      ExecL b σ .norm σ' → ExecS (.loop b) σ' e σ'' → ExecS (.loop b) σ e σ''
inductive ExecL : List Stmt → Live → Exit → Live → Prop
  | nil (σ) : ExecL [] σ .norm σ
  | consNext {s rest σ σ' e σ''} :
      ExecS s σ .norm σ' → ExecL rest σ' e σ'' → ExecL (s :: rest) σ e σ''
  | consExit {s rest σ e σ'} : ExecS s σ e σ' → e ≠ .norm → ExecL (s :: rest) σ e σ'
end

/-- may-be-live sets at the three kinds of exit -/
structure Out where
  norm : Live
  ret : Live
  exc : Live
deriving Repr, DecidableEq

def Out.get (o : Out) : Exit → Live
  | .norm => o.norm
  | .ret => o.ret
  | .exc => o.exc

def union (a b : Live) : Live := a ++ b.filter (fun x => !(a.contains x))

def Out.join (a b : Out) : Out :=
  { norm := union a.norm b.norm, ret := union a.ret b.ret, exc := union a.exc b.exc }

def subset (a b : Live) : Bool := a.all (fun x => b.contains x)

mutual
/-- every slot a statement may create -/
def slotsS : Stmt → Live
  | .mk v _ => [v]
  | .tryFinally b f => slotsL b ++ slotsL f
  | .ite a b => slotsL a ++ slotsL b
  | .ifLive _ a b => slotsL a ++ slotsL b
  | .loop b => slotsL b
  | _ => []
def slotsL : List Stmt → Live
  | [] => []
  | s :: rest => slotsS s ++ slotsL rest
end

mutual
/-- may-be-live analysis of one statement entered with may-be-live set `m` -/
def postS : Stmt → Live → Out
  | .mk v d, m => { norm := if tracked d then v :: m else m, ret := [], exc := m }
  | .clean v, m => { norm := m.filter (· != v), ret := [], exc := [] }
  | .call, m => { norm := m, ret := [], exc := m }
  | .ret, m => { norm := [], ret := m, exc := [] }
  | .raise, m => { norm := [], ret := [], exc := m }
  | .tryFinally b f, m =>
    let ob := postL b m
    let fn := postL f ob.norm
    let fr := postL f ob.ret
    let fx := postL f ob.exc
    { norm := fn.norm,
      ret := union fr.norm (union fn.ret (union fr.ret fx.ret)),
      exc := union fx.norm (union fn.exc (union fr.exc fx.exc)) }
  | .ite a b, m => (postL a m).join (postL b m)
  | .ifLive v a b, m =>
    let oa := if m.contains v then postL a m else { norm := [], ret := [], exc := [] }
    oa.join (postL b (m.filter (· != v)))
  | .loop b, m =>
    -- loop invariant: `m` itself if one round of the body cannot enlarge it, else `m`
    -- plus every slot the body may create
    let inv := if subset (postL b m).norm m then m else union m (slotsL b)
    let o := postL b inv
    { norm := inv, ret := o.ret, exc := o.exc }
/-- may-be-live analysis of a statement list -/
def postL : List Stmt → Live → Out
  | [], m => { norm := m, ret := [], exc := [] }
  | s :: rest, m =>
    let o := postS s m
    let r := postL rest o.norm
    { norm := r.norm, ret := union o.ret r.ret, exc := union o.exc r.exc }
end

/-- the executable obligation: starting with nothing live, nothing may be live at the
given kinds of exit -/
def restoresOn (exits : List Exit) (body : List Stmt) : Bool :=
  exits.all (fun e => ((postL body []).get e).isEmpty)

end CTM.Scratch
