/-
  Model of the per-level assignment loop of `cell_type_mapper` and of the data
  flow around it:

    type_assignment/election.py      run_type_assignment            -> runLevelLoop
                                     run_type_assignment_on_h5ad_cpu -> effChunk, chunks, runChunk, gather
                                     _run_type_assignment_on_h5ad_worker -> runChunk (cell_id by position)
    type_assignment/election_runner.py run_type_assignment_on_h5ad  -> markDirect, reorderBlob
    utils/output_utils.py            re_order_blob                  -> reorderBlob
    taxonomy/taxonomy_tree.py        backfill_assignments           -> backfill
    cli/from_specified_markers.py    _run_mapping (data flow)       -> runTree, mapPipeline

  plus the one-cell specification `walk` (descend from the root; at each node
  take the single child or ask the oracle).

  Core Lean only (linked into the driver).  The *vote* (`_run_type_assignment`:
  which child a cell picks under a parent with >= 2 children, with its
  probability / correlation / runners-up payload) is an uninterpreted ORACLE
  parameter.  It may depend on the parent, on what the run's tree says about
  the parent's children (each child with its leaf list: this is all
  `assemble_query_data` reads from the tree) and on the cell (`κ` = the cell's
  expression vector; with bootstrap factor 1 the gene subset is forced, so the
  RNG drops out, see DESIGN §5 C06).
-/
import CTM.Model.Tree
import CTM.Model.Markers

namespace CTM
namespace LevelLoop

abbrev CellId := Nat

/-- key of a parent node as the loop uses it: `None` (the root) or
`(level, node)` -/
abbrev Parent := Option (Level × Node)

/-- one runner-up tuple `(name, valid_flag, avg_corr, bootstrapping_probability)` -/
structure RunnerUp where
  node : Node
  valid : Bool
  corr : Rat
  prob : Rat
  deriving Repr, BEq, DecidableEq, Inhabited

/-- what `_run_type_assignment` hands back for one cell (one position of its
four parallel lists) -/
structure Vote where
  assignment : Node
  prob : Rat
  corr : Option Rat
  runnersUp : Option (List RunnerUp)
  deriving Repr, BEq, DecidableEq, Inhabited

/-- `result[i_cell][level]`: the per-level dict of one cell.  `ru = none`
means the three `runner_up_*` keys are absent (popped by
`backfill_assignments`); `agg`/`direct` are `none` until the key is added
(`aggregate_probability` at the end of `run_type_assignment`,
`directly_assigned` by `run_type_assignment_on_h5ad` / `backfill_assignments`). -/
structure Entry where
  assignment : Node
  prob : Rat
  corr : Option Rat
  ru : Option (List Node × List Rat × List Rat)
  agg : Option Rat := none
  direct : Option Bool := none
  deriving Repr, BEq, DecidableEq, Inhabited

/-- one element of the results blob: `cell_id` + level ↦ entry, in dict order -/
structure Record where
  cellId : CellId
  levels : List (Level × Entry)
  deriving Repr, BEq, DecidableEq, Inhabited

inductive Err where
  | tree (e : TreeErr)
  /-- `RuntimeError("Not sure how to proceed ...")`: a consulted parent has no child -/
  | noChildren
  /-- `result[i][level]` still `None` when the correlation backfill reads it (TypeError) -/
  | unassigned
  /-- IndexError in `downsample_cells` / `result[i_cell]` -/
  | badIndex
  /-- KeyError in `re_order_blob` (an obs name with no record) -/
  | missingCell
  /-- KeyError in `backfill_assignments` (`_child_to_parent[level][node]`) -/
  | noParent
  /-- ZeroDivisionError in `n_rows/n_processors` -/
  | zeroProcessors
  /-- chunk size 0: the row iterator never advances -/
  | zeroChunk
  deriving Repr, BEq, DecidableEq, Inhabited

def Err.name : Err → String
  | .tree e => "tree:" ++ e.name
  | .noChildren => "noChildren" | .unassigned => "unassigned"
  | .badIndex => "badIndex" | .missingCell => "missingCell"
  | .noParent => "noParent" | .zeroProcessors => "zeroProcessors"
  | .zeroChunk => "zeroChunk"

/-- the oracle: `vote parent kids cell` where `kids` = the parent's children in
the tree of the run, each with its list of leaves -/
abbrev Oracle (κ : Type) := Parent → List (Node × List Node) → κ → Vote

/-- children of `parent` with their leaves (`cl` = the level of the children) -/
def kidsOf (t : RawTree) (cl : Level) (kids : List Node) : List (Node × List Node) :=
  kids.map (fun k => (k, t.asLeaves cl k))

/-- the single-child branch of `run_type_assignment` -/
def trivialVote (only : Node) : Vote :=
  { assignment := only, prob := 1, corr := none, runnersUp := none }

/-- the dict written to `result[i_cell][child_level]` -/
def entryOf (v : Vote) : Entry :=
  match v.runnersUp with
  | none => { assignment := v.assignment, prob := v.prob, corr := v.corr, ru := some ([], [], []) }
  | some r =>
    let r := r.filter (·.valid)
    { assignment := v.assignment, prob := v.prob, corr := v.corr,
      ru := some (r.map (·.node), r.map (·.corr), r.map (·.prob)) }

/-- one position of the four parallel lists for a consulted parent with at
least one child: constants when there is exactly one child, otherwise
`_run_type_assignment` -/
def voteFn {κ} (t : RawTree) (vote : Oracle κ) (parent : Parent) (cl : Level)
    (kids : List Node) (c : κ) : Vote :=
  match kids with
  | [only] => trivialVote only
  | _ => vote parent (kidsOf t cl kids) c

/-- the four parallel lists for one consulted parent; `RuntimeError` when it
has no child -/
def votesFor {κ} (t : RawTree) (vote : Oracle κ) (parent : Parent) (cl : Level)
    (kids : List Node) (chosen : List κ) : Except Err (List Vote) :=
  if kids.isEmpty then .error .noChildren
  else .ok (chosen.map (voteFn t vote parent cl kids))

/-! ### end of `run_type_assignment`: correlation backfill, running product -/

/-- one sweep "if `avg_correlation` is None take the previous level's" over
the entries in the order given -/
def fillCorr : Option Rat → List (Level × Entry) → List (Level × Entry)
  | _, [] => []
  | prev, (l, e) :: rest =>
    let e' := match e.corr with
      | none => { e with corr := prev }
      | some _ => e
    (l, e') :: fillCorr e'.corr rest

/-- first sweep: top-down, the first level is skipped (`parent_level is None:
continue`) -/
def fillDown : List (Level × Entry) → List (Level × Entry)
  | [] => []
  | (l, e) :: rest => (l, e) :: fillCorr e.corr rest

/-- second sweep: bottom-up over `zip(hierarchy[-2::-1], hierarchy[-1:0:-1])` -/
def fillUp (es : List (Level × Entry)) : List (Level × Entry) :=
  (fillDown es.reverse).reverse

/-- `prob = 1.0; for level: prob *= p; aggregate_probability = prob` -/
def addAggregate : Rat → List (Level × Entry) → List (Level × Entry)
  | _, [] => []
  | acc, (l, e) :: rest =>
    let acc' := acc * e.prob
    (l, { e with agg := some acc' }) :: addAggregate acc' rest

/-- everything after the level loop, for one cell whose per-level dicts are
given in hierarchy order -/
def finishCell (es : List (Level × Entry)) : List (Level × Entry) :=
  addAggregate 1 (fillUp (fillDown es))

/-! ### the one-cell specification -/

/-- descend from `parent` through the levels `levels`; the raw per-level
entries, before `finishCell` -/
def walkFrom {κ} (t : RawTree) (vote : Oracle κ) (c : κ) :
    List Level → Parent → Except Err (List (Level × Entry))
  | [], _ => .ok []
  | cl :: rest, parent =>
    match t.children parent with
    | .error e => .error (.tree e)
    | .ok kids =>
      if kids.isEmpty then .error .noChildren
      else
        let v := voteFn t vote parent cl kids c
        match walkFrom t vote c rest (some (cl, v.assignment)) with
        | .error e => .error e
        | .ok tl => .ok ((cl, entryOf v) :: tl)

/-- the specification of `run_type_assignment` for one cell -/
def walk {κ} (t : RawTree) (vote : Oracle κ) (c : κ) : Except Err (List (Level × Entry)) :=
  match walkFrom t vote c t.hierarchy none with
  | .error e => .error e
  | .ok es => .ok (finishCell es)

/-! ### `run_type_assignment`: the batch loop as written -/

/-- `previously_assigned[level]`: node ↦ row indices.  A dict that is only
ever assigned to and looked up (never iterated): modelled by prepending, so
that `List.lookup` returns the last value written. -/
abbrev AssignMap := List (Node × List Nat)

/-- `result[i]` while the loop runs: level ↦ dict, `None` = no binding.  Same
convention (only assignment and lookup). -/
abbrev CellDict := List (Level × Entry)

/-- rows of `chosen_idx` whose vote is `celltype`
(`chosen_idx[assignment_idx == idx]`) -/
def rowsOf (celltype : Node) (chosenIdx : List Nat) (votes : List Vote) : List Nat :=
  (chosenIdx.zip votes).filterMap (fun (i, v) => if v.assignment == celltype then some i else none)

/-- distinct values in order of first occurrence (`set(assignment)`; the
enumeration order of the set is never observable: each value only becomes a
key of `previously_assigned[child_level]`) -/
def distinct : List Node → List Node
  | [] => []
  | x :: xs => x :: (distinct xs).filter (· != x)

/-- `downsample_cells(selected_cells=chosen_idx)` -/
def selectCells {κ} (cells : List κ) : List Nat → Except Err (List κ)
  | [] => .ok []
  | i :: is =>
    match cells[i]? with
    | none => .error .badIndex
    | some c =>
      match selectCells cells is with
      | .error e => .error e
      | .ok cs => .ok (c :: cs)

/-- `result[i_cell][child_level] = {...}` for every chosen cell -/
def writeBack (cl : Level) : List Nat → List Vote → List CellDict → List CellDict
  | i :: is, v :: vs, res =>
    writeBack cl is vs (res.modify i (fun d => (cl, entryOf v) :: d))
  | _, _, res => res

/-- `chosen_idx`: every row for the root, else
`previously_assigned[parent_level][node]` if the node is a key, else `[]` -/
def chosenIdxOf (n : Nat) (prevParent : AssignMap) : Parent → List Nat
  | none => List.range n
  | some (_, k) => (prevParent.lookup k).getD []

/-- body of `for parent_node in parent_node_list` -/
def processParent {κ} (t : RawTree) (vote : Oracle κ) (cells : List κ) (cl : Level)
    (prevParent : AssignMap) (acc : AssignMap × List CellDict) (parent : Parent) :
    Except Err (AssignMap × List CellDict) :=
  let chosenIdx := chosenIdxOf cells.length prevParent parent
  if chosenIdx.isEmpty then .ok acc
  else match t.children parent with
    | .error e => .error (.tree e)
    | .ok kids =>
      match selectCells cells chosenIdx with
      | .error e => .error e
      | .ok chosen =>
        match votesFor t vote parent cl kids chosen with
        | .error e => .error e
        | .ok votes =>
          let types := distinct (votes.map (·.assignment))
          let prevChild := types.foldl
            (fun m ct => (ct, rowsOf ct chosenIdx votes) :: m) acc.1
          .ok (prevChild, writeBack cl chosenIdx votes acc.2)

def processParents {κ} (t : RawTree) (vote : Oracle κ) (cells : List κ) (cl : Level)
    (prevParent : AssignMap) :
    List Parent → AssignMap × List CellDict → Except Err (AssignMap × List CellDict)
  | [], acc => .ok acc
  | p :: ps, acc =>
    match processParent t vote cells cl prevParent acc p with
    | .error e => .error e
    | .ok acc' => processParents t vote cells cl prevParent ps acc'

/-- `parent_node_list` -/
def parentNodeList (t : RawTree) : Option Level → List Parent
  | none => [none]
  | some pl => (RawTree.sortNat (t.nodesAt pl)).map (fun k => some (pl, k))

/-- the loop over `zip(level_list[:-1], level_list[1:])`; only
`previously_assigned[parent_level]` is ever read, so only it is threaded -/
def levelSteps {κ} (t : RawTree) (vote : Oracle κ) (cells : List κ) :
    Option Level → List Level → AssignMap → List CellDict → Except Err (List CellDict)
  | _, [], _, res => .ok res
  | pl, cl :: rest, prev, res =>
    match processParents t vote cells cl prev (parentNodeList t pl) ([], res) with
    | .error e => .error e
    | .ok (prevChild, res') => levelSteps t vote cells (some cl) rest prevChild res'

/-- read the finished dicts of one cell in hierarchy order; a level still
`None` makes the correlation backfill raise -/
def collectLevels (d : CellDict) : List Level → Except Err (List (Level × Entry))
  | [] => .ok []
  | l :: ls =>
    match d.lookup l with
    | none => .error .unassigned
    | some e =>
      match collectLevels d ls with
      | .error e' => .error e'
      | .ok tl => .ok ((l, e) :: tl)

def finishAll (h : List Level) : List CellDict → Except Err (List (List (Level × Entry)))
  | [] => .ok []
  | d :: ds =>
    match collectLevels d h with
    | .error e => .error e
    | .ok es =>
      match finishAll h ds with
      | .error e => .error e
      | .ok tl => .ok (finishCell es :: tl)

/-- `run_type_assignment` -/
def runLevelLoop {κ} (t : RawTree) (vote : Oracle κ) (cells : List κ) :
    Except Err (List (List (Level × Entry))) :=
  match levelSteps t vote cells none t.hierarchy [] (cells.map (fun _ => [])) with
  | .error e => .error e
  | .ok res => finishAll t.hierarchy res

/-! ### the well-formedness the theorems assume (decidable; the driver
evaluates it on every generated tree, the harness checks that it holds whenever
the real validator accepts the tree and every non-leaf node has a child) -/

/-- children of a parent key, `[]` when `TaxonomyTree.children` raises -/
def kidsD (t : RawTree) (p : Parent) : List Node :=
  match t.children p with
  | .ok k => k
  | .error _ => []

def disjointB (a b : List Node) : Bool := a.all (fun x => !b.contains x)

/-- `(None, hierarchy[0]), (hierarchy[0], hierarchy[1]), ...` -/
def levelPairs (t : RawTree) : List (Option Level × Level) :=
  (none :: t.hierarchy.map some).zip t.hierarchy

/-- for one `(parent_level, child_level)`: the node names of the child level
are distinct and each of them is the child of some parent node; every parent
node has children, all of them nodes of the child level; different parents
share no child -/
def levelOK (t : RawTree) (pl : Option Level) (cl : Level) : Bool :=
  let ps := parentNodeList t pl
  !RawTree.hasDup (t.nodesAt cl) &&
  (t.nodesAt cl).all (fun c => ps.any (fun p => (kidsD t p).contains c)) &&
  ps.all (fun p =>
    (match t.children p with
     | .ok kids => !kids.isEmpty && kids.all (fun c => (t.nodesAt cl).contains c)
     | .error _ => false) &&
    ps.all (fun p' => p == p' || disjointB (kidsD t p) (kidsD t p')))

def wfb (t : RawTree) : Bool :=
  !RawTree.hasDup t.hierarchy && (levelPairs t).all (fun (pl, cl) => levelOK t pl cl)

/-! ### chunking, dispatch, gather (`run_type_assignment_on_h5ad_cpu`) -/

def ceilDiv (a b : Nat) : Nat := (a + b - 1) / b

/-- `min(max(1, ceil(n_rows/n_processors)), chunk_size)` -/
def effChunk (n nProc chunkSize : Nat) : Nat :=
  min (max 1 (ceilDiv n nProc)) chunkSize

/-- the `(r0, r1)` of the row iterator: `r1 = min(n, r0 + cs)` until
`r0 >= n`.  `fuel` bounds the `while`; `n` is enough when `cs >= 1`. -/
def chunksFrom (n cs : Nat) : Nat → Nat → List (Nat × Nat)
  | 0, _ => []
  | fuel+1, r0 =>
    if r0 ≥ n then []
    else
      let r1 := min n (r0 + cs)
      (r0, r1) :: chunksFrom n cs fuel r1

def chunks (n cs : Nat) : List (Nat × Nat) := chunksFrom n cs n 0

/-- `xs[r0:r1]` -/
def slice {α} (xs : List α) (r0 r1 : Nat) : List α := (xs.take r1).drop r0

/-- `assignment[idx]['cell_id'] = query_cell_names[idx]` for
`idx in range(len(assignment))` (IndexError if the name list is shorter) -/
def attachIds : List CellId → List (List (Level × Entry)) → Except Err (List Record)
  | _, [] => .ok []
  | [], _ :: _ => .error .badIndex
  | n :: ns, a :: as =>
    match attachIds ns as with
    | .error e => .error e
    | .ok tl => .ok ({ cellId := n, levels := a } :: tl)

/-- one worker: `_run_type_assignment_on_h5ad_worker` on rows `r0:r1` with the
names `query_cell_names[r0:r1]` -/
def runChunk {κ} (t : RawTree) (vote : Oracle κ) (ids : List CellId) (cells : List κ)
    (r : Nat × Nat) : Except Err (List Record) :=
  match runLevelLoop t vote (slice cells r.1 r.2) with
  | .error e => .error e
  | .ok a => attachIds (slice ids r.1 r.2) a

def runChunks {κ} (t : RawTree) (vote : Oracle κ) (ids : List CellId) (cells : List κ) :
    List (Nat × Nat) → Except Err (List (List Record))
  | [] => .ok []
  | r :: rs =>
    match runChunk t vote ids cells r with
    | .error e => .error e
    | .ok x =>
      match runChunks t vote ids cells rs with
      | .error e => .error e
      | .ok xs => .ok (x :: xs)

/-- concatenate the chunk results in the order `order` (indices into the chunk
list): completion order when workers append to the shared list, sorted file
name order when they write `<r0>_<r1>_assignment.json` files -/
def gather {α} (parts : List (List α)) (order : List Nat) : List α :=
  order.flatMap (fun k => (parts[k]?).getD [])

/-- `cell[level]['directly_assigned'] = True` for the levels of the run's tree -/
def markDirect (h : List Level) (r : Record) : Record :=
  { r with levels := r.levels.map (fun (l, e) =>
      if h.contains l then (l, { e with direct := some true }) else (l, e)) }

/-- `re_order_blob`: `{c['cell_id']: c for c in blob}` (last one wins), then
`[d[c] for c in cell_order]` -/
def reorderBlob (order : List CellId) (blob : List Record) : Except Err (List Record) :=
  order.mapM (fun c =>
    match blob.reverse.find? (fun r => r.cellId == c) with
    | none => .error .missingCell
    | some r => .ok r)

/-! ### `backfill_assignments` -/

/-- one `(child_level, parent_level)` iteration for one cell -/
def backfillOne (tMeta : RawTree) (cl pl : Level) (r : Record) : Except Err Record :=
  if (r.levels.lookup pl).isSome then .ok r
  else match r.levels.lookup cl with
    | none => .ok r
    | some e =>
      match tMeta.childToParent cl e.assignment with
      | none => .error .noParent
      | some p =>
        .ok { r with levels := r.levels ++
          [(pl, { e with assignment := p, ru := none, direct := some false })] }

def backfillPairs (tMeta : RawTree) : List (Level × Level) → Record → Except Err Record
  | [], r => .ok r
  | (cl, pl) :: rest, r =>
    match backfillOne tMeta cl pl r with
    | .error e => .error e
    | .ok r' => backfillPairs tMeta rest r'

/-- `backfill_assignments` (the loop over cells is inside the loop over level
pairs in the code; the iterations for different cells are independent) -/
def backfill (tMeta : RawTree) (rs : List Record) : Except Err (List Record) :=
  let rev := tMeta.hierarchy.reverse
  rs.mapM (backfillPairs tMeta (rev.zip rev.tail))

/-! ### `_run_mapping`: which tree the run uses, and the whole data flow -/

structure Config where
  dropLevel : Option Level := none
  flatten : Bool := false
  chunkSize : Nat := 10
  nProc : Nat := 1
  deriving Repr, BEq, DecidableEq, Inhabited

/-- `taxonomy_tree` after the `drop_level` / `flatten` blocks -/
def runTree (t0 : RawTree) (cfg : Config) : Except Err RawTree :=
  let dropped : Except Err RawTree := match cfg.dropLevel with
    | none => .ok t0
    | some l =>
      if t0.hierarchy.contains l then
        match t0.dropLevel l with
        | .error e => .error (.tree e)
        | .ok t => .ok t
      else .ok t0
  match dropped with
  | .error e => .error e
  | .ok t => .ok (if cfg.flatten then t.flatten else t)

/-- the data flow of `_run_mapping` from the stored tree to `output["results"]`.
`order` = the order in which the chunk results are concatenated. -/
def mapPipeline {κ} (t0 : RawTree) (cfg : Config) (vote : Oracle κ)
    (ids : List CellId) (cells : List κ) (order : List Nat) : Except Err (List Record) :=
  let tMeta := t0.dropCells
  match runTree t0 cfg with
  | .error e => .error e
  | .ok t =>
    if cfg.nProc == 0 then .error .zeroProcessors
    else
      let cs := effChunk cells.length cfg.nProc cfg.chunkSize
      if cs == 0 then .error .zeroChunk
      else match runChunks t vote ids cells (chunks cells.length cs) with
        | .error e => .error e
        | .ok parts =>
          let blob := (gather parts order).map (markDirect t.hierarchy)
          match reorderBlob ids blob with
          | .error e => .error e
          | .ok ordered => backfill tMeta ordered

/-! ### the same data flow for ANY row chunks

How `run_type_assignment_on_h5ad_cpu` cuts the rows into chunks (the clamp
`effChunk`, evening the chunks out, …) is a tuning matter the properties do not
constrain: what they need is that the borders tile the rows.  `mapPipelineChunks`
takes the borders as a parameter (the correspondence feeds it the borders the
workers were really handed, from the hook trace). -/

/-- the borders `(r0, r1)` tile the rows `a … n`: consecutive, non-empty, ending at `n` -/
def tilesFrom (n : Nat) : Nat → List (Nat × Nat) → Bool
  | a, [] => a == n
  | a, (r0, r1) :: rest =>
    r0 == a && decide (r0 < r1) && decide (r1 ≤ n) && tilesFrom n r1 rest

def tilesB (n : Nat) (borders : List (Nat × Nat)) : Bool := tilesFrom n 0 borders

/-- `mapPipeline` with the chunk borders given -/
def mapPipelineChunks {κ} (t0 : RawTree) (cfg : Config) (vote : Oracle κ)
    (ids : List CellId) (cells : List κ) (borders : List (Nat × Nat)) (order : List Nat) :
    Except Err (List Record) :=
  let tMeta := t0.dropCells
  match runTree t0 cfg with
  | .error e => .error e
  | .ok t =>
    match runChunks t vote ids cells borders with
    | .error e => .error e
    | .ok parts =>
      let blob := (gather parts order).map (markDirect t.hierarchy)
      match reorderBlob ids blob with
      | .error e => .error e
      | .ok ordered => backfill tMeta ordered

/-! ### the marker table through the `drop_level` / `flatten` blocks of `_run_mapping`

The marker table (`Markers.Lookup`, group E's model of the serialized lookup
with the `metadata` / `log` keys already popped) is read before the flatten
block; `drop_level` touches the tree only.  Under `flatten` the table becomes
`{'None': sorted(set().union(*all lists of the table))}` — every list of the
table, whatever the tree of the run looks like (`Markers.flattenLookup`). -/

/-- tree and marker table after the `drop_level` and `flatten` blocks -/
def mapSetup (t0 : RawTree) (cfg : Config) (lk : Markers.Lookup) :
    Except Err (RawTree × Markers.Lookup) :=
  match runTree t0 cfg with
  | .error e => .error e
  | .ok t => .ok (t, if cfg.flatten then Markers.flattenLookup lk else lk)

/-- the genes the root votes on in a flattened run whose table is usable: the
union list restricted to the genes of the query, in reference order (the marker
cache stores reference indices in increasing order) -/
def flatRootGenes (lk : Markers.Lookup) (R Q : List Markers.Gene) : List Markers.Gene :=
  match Markers.flattenLookup lk with
  | [(_, union)] => R.filter (fun g => union.contains g && Q.contains g)
  | _ => []

end LevelLoop
end CTM
