/-
  Composition of the reference-marker model with the sparse model (group B) and
  the process model (group H1): definitions only, core Lean (linked into the
  driver).  Lemmas: `CTM/Lemmas/RefMarkersCompose.lean`; theorems:
  `CTM/Props/C11/Compose.lean`.
-/
import CTM.Model.RefMarkers
import CTM.Model.Sparse
import CTM.Model.Procs

namespace CTM.RefMarkers
open CTM.Sparse CTM.Chunking CTM.Procs

/-- a marker table `(indptr, indices)` as a compressed matrix without a value
array (`data_handle=None` / `data_tag=None`) -/
def toMat (t : List Nat × List Nat) : Mat Unit := ⟨t.1, t.2, List.replicate t.2.length ()⟩

/-- the pairs in whose row gene `g` occurs, ascending -/
def pairsOfGene (rows : List (List Nat)) (g : Nat) : List Nat :=
  (List.range rows.length).filter (fun i => (rows.getD i []).contains g)

/-- `add_sparse_by_gene_markers_to_file` for one direction: the pair-major
table transposed on disk, serially for one worker, in parallel otherwise;
`B` = the chunk sizes derived from `max_gb` -/
def byGeneTable (nProc nGenes : Nat) (B : Budget) (t : List Nat × List Nat) :
    Except SpErr (Mat Unit) :=
  if nProc = 1 then transposeOnDisk (toMat t) nGenes none B
  else transposeV2 (toMat t) nGenes nProc B

/-- row `g` of a gene-major table -/
def geneRow (out : Mat Unit) (g : Nat) : List Nat :=
  slice out.indices (ptr out.indptr g) (ptr out.indptr (g + 1))

/-- the keys `col0 in range(0, n_pairs, n_per)` of the chunks -/
def chunkKeys (nPer nChunks : Nat) : List Nat := (List.range nChunks).map (· * nPer)

/-- what the workers of `create_sparse_by_pair_marker_file[_from_p_mask]` leave
behind, in dispatch order: `(col0, per-chunk table)` -/
def tableJobs {α} (row : α → List Nat) (nPer : Nat) (pairs : List α) :
    List (Nat × (List Nat × List Nat)) :=
  List.zip (chunkKeys nPer (chunksOf nPer pairs).length)
    ((chunksOf nPer pairs).map (fun ch => lookupToSparse (ch.map row)))

/-- `_merge_sparse_by_pair_files(tmp_path_dict)`: the files of `tmp_path_dict`
(filled in completion order) visited in the order `keyOrder` gives to the keys,
then merged -/
def mergeTablesBy (keyOrder : List Nat → List Nat) (done : List (Nat × (List Nat × List Nat))) :
    Option (List Nat × List Nat) :=
  let store := dictOfList done
  (collect ((keyOrder (store.map (·.1))).map (dictGet store))).map mergeSparse

/-- … with `col0_values.sort()` on the integer keys -/
def mergeTables (done : List (Nat × (List Nat × List Nat))) : Option (List Nat × List Nat) :=
  mergeTablesBy sortKeys done

end CTM.RefMarkers
