/-
  Model of the sparse-matrix plumbing of `cell_type_mapper`:

    anndata_iterator/anndata_iterator.py   (row iterators, get_chunk, get_batch)
    utils/sparse_utils.py                  (_load_sparse, _csr_to_dense, load_csr,
                                            _load_disjoint_csr, merge_csr)
    utils/utils.py                         (merge_index_list)
    utils/csc_to_csr.py                    (_calculate_csr_indptr,
                                            transpose_sparse_matrix_on_disk)
    utils/csc_to_csr_parallel.py           (transpose_sparse_matrix_on_disk_v2)
    utils/anndata_utils.py                 (shuffle_csr_h5ad_rows, pivot_csr_h5ad,
                                            subset_csc_h5ad_columns,
                                            amalgamate_csr_to_x, copy_layer_to_x)

  Core Lean only (no Mathlib): linked into the driver executable.

  Conventions.  A numpy / HDF5 1-d array is a `List`; a compressed sparse
  matrix is `Mat α = (indptr, indices, data)` (CSR: major = row; CSC: major =
  column); a dense matrix is a list of rows.  Stored values are opaque (`α`
  with an explicit `zero`): nothing here does arithmetic on them.  The float
  part of the memory-budget arithmetic (`0.8*max_gb`, `/3`, `-`) is done by the
  caller; the model receives those floats as exact rationals and does the
  rounding and integer arithmetic (`bytesOfGb`, `Budget.of`).

  The on-disk transposition is modelled at *bucket level* (DESIGN §5 C13): the
  model keeps, for every minor index `v`, the list of entries written so far
  for `v` instead of the flat buffer addressed through `next_idx`; the loops
  (blocks `[r0,r1)` cut by the element budget, load chunks of `lo` stored
  entries, per chunk the group of entries with minor `v` sorted by major) are
  the code's.
-/
import CTM.Model.Chunking

namespace CTM.Sparse
open CTM.Chunking

inductive SpErr where
  /-- `these_ptrs[0]` of an empty pointer slice (`IndexError`) -/
  | emptySlice
  /-- a column / minor index `≥` the dimension it addresses (`IndexError`) -/
  | indexOutOfRange
  /-- `merge_index_list([])` (`IndexError`) -/
  | emptyInput
  /-- `get_batch` with repeated / out-of-range rows: the un-sort loop walks off
  the merged pointer array (`IndexError`); h5py rejects a non-increasing
  selection (`TypeError`) -/
  | badRows
  /-- `range(0, n, 0)` (`ValueError`) -/
  | zeroStep
  deriving Repr, BEq, DecidableEq, Inhabited

def SpErr.name : SpErr → String
  | .emptySlice => "emptySlice" | .indexOutOfRange => "indexOutOfRange"
  | .emptyInput => "emptyInput" | .badRows => "badRows" | .zeroStep => "zeroStep"

/-- `(indptr, indices, data)` of a CSR / CSC matrix -/
structure Mat (α : Type) where
  indptr : List Nat
  indices : List Nat
  data : List α
  deriving Repr, BEq, DecidableEq, Inhabited

abbrev Dense (α : Type) := List (List α)

/-! ### dense blocks from compressed rows (`sparse_utils.py`) -/

/-- `result[iptr, these_cols] = vals` on a zero row (numpy: the last of
repeated positions wins) -/
def scatter {α} (zero : α) (n : Nat) (cols : List Nat) (vals : List α) : List α :=
  (cols.zip vals).foldl (fun row cv => row.set cv.1 cv.2) (List.replicate n zero)

/-- `indptr[i]` -/
def ptr (ip : List Nat) (i : Nat) : Nat := ip.getD i 0

/-- the stored matrix: major slice `i` is the entries at positions
`indptr[i] ..< indptr[i+1]` -/
def rowSpec {α} (zero : α) (M : Mat α) (nMinor i : Nat) : List α :=
  scatter zero nMinor (slice M.indices (ptr M.indptr i) (ptr M.indptr (i + 1)))
    (slice M.data (ptr M.indptr i) (ptr M.indptr (i + 1)))

/-- the dense matrix a compressed matrix stands for (list of major slices) -/
def toDense {α} (zero : α) (M : Mat α) (nMajor nMinor : Nat) : Dense α :=
  (List.range nMajor).map (rowSpec zero M nMinor)

/-- transpose of a dense matrix with `nCols` columns -/
def transposeDense {α} (zero : α) (D : Dense α) (nCols : Nat) : Dense α :=
  (List.range nCols).map fun j => D.map fun row => row.getD j zero

/-- `_load_sparse(indptr_spec=(a, b), …)`:
`these_ptrs = indptr[a:b+1]`, `index0 = these_ptrs[0]`, `index1 = these_ptrs[-1]`,
returns `data[index0:index1], indices[index0:index1], these_ptrs - these_ptrs.min()` -/
def loadSparse {α} (M : Mat α) (a b : Nat) : Except SpErr (Mat α) :=
  let ptrs := slice M.indptr a (b + 1)
  match ptrs.head?, ptrs.getLast?, ptrs.min? with
  | some i0, some i1, some m =>
    .ok ⟨ptrs.map (· - m), slice M.indices i0 i1, slice M.data i0 i1⟩
  | _, _, _ => .error .emptySlice

/-- the loop of `_csr_to_dense`: rows from consecutive pointer pairs, the
values read through the running `data_idx` -/
def csrRowsAux {α} (zero : α) (nCols : Nat) (indices : List Nat) (data : List α) :
    List Nat → Nat → Dense α
  | p0 :: p1 :: rest, di =>
    let cols := slice indices p0 p1
    scatter zero nCols cols (slice data di (di + cols.length))
      :: csrRowsAux zero nCols indices data (p1 :: rest) (di + cols.length)
  | _, _ => []

/-- every column index the loop of `_csr_to_dense` touches -/
def usedCols (M : Mat α) : List Nat :=
  (M.indptr.zip M.indptr.tail).flatMap fun p => slice M.indices p.1 p.2

/-- `_csr_to_dense(data, indices, indptr, n_rows, n_cols)` -/
def csrToDense {α} (zero : α) (M : Mat α) (nRows nCols : Nat) : Except SpErr (Dense α) :=
  if M.indptr.length - 1 > nRows then .error .indexOutOfRange
  else if (usedCols M).any (· ≥ nCols) then .error .indexOutOfRange
  else
    let rows := csrRowsAux zero nCols M.indices M.data M.indptr 0
    .ok (rows ++ List.replicate (nRows - rows.length) (List.replicate nCols zero))

/-- `load_csr(row_spec=(r0, r1), n_cols, data, indices, indptr)` -/
def loadCsr {α} (zero : α) (M : Mat α) (nCols r0 r1 : Nat) : Except SpErr (Dense α) := do
  let sub ← loadSparse M r0 r1
  csrToDense zero sub (r1 - r0) nCols

/-! ### the row iterators (`anndata_iterator.py`) -/

/-- `CSRRowIterator.get_chunk(r0, r1)` -/
def csrGetChunk {α} (zero : α) (M : Mat α) (nCols r0 r1 : Nat) :
    Except SpErr (Dense α × Nat × Nat) := do
  return (← loadCsr zero M nCols r0 r1, r0, r1)

/-- everything `CSRRowIterator.__next__` yields until `StopIteration` -/
def csrIter {α} (zero : α) (M : Mat α) (nRows nCols cs : Nat) :
    Except SpErr (List (Dense α × Nat × Nat)) :=
  (chunks nRows cs).mapM fun p => csrGetChunk zero M nCols p.1 p.2

/-- `DenseArrayRowIterator.get_chunk` : `h5[r0:r1, :]` -/
def denseGetChunk {α} (D : Dense α) (r0 r1 : Nat) : Dense α × Nat × Nat := (slice D r0 r1, r0, r1)

/-- everything `DenseArrayRowIterator.__next__` yields -/
def denseIter {α} (D : Dense α) (cs : Nat) : List (Dense α × Nat × Nat) :=
  (chunks D.length cs).map fun p => denseGetChunk D p.1 p.2

/-! ### sorting helpers (numpy `argsort`, `unique`) -/

/-- insert before the first element that is not smaller (stable) -/
def insertBy {β} (le : β → β → Bool) (x : β) : List β → List β
  | [] => [x]
  | y :: ys => if le x y then x :: y :: ys else y :: insertBy le x ys

/-- stable insertion sort.  numpy's default `argsort` is not stable; wherever
the model sorts, ties are excluded by the hypotheses of the theorems. -/
def isort {β} (le : β → β → Bool) : List β → List β
  | [] => []
  | x :: xs => insertBy le x (isort le xs)

/-- `np.argsort(xs)` -/
def argsort (xs : List Nat) : List Nat :=
  (isort (fun a b => a.1 ≤ b.1) xs.zipIdx).map (·.2)

/-- remove adjacent repeats -/
def dedupAdj : List Nat → List Nat
  | x :: y :: r => if x == y then dedupAdj (y :: r) else x :: dedupAdj (y :: r)
  | l => l

/-- `np.unique(xs)` -/
def npUnique (xs : List Nat) : List Nat := dedupAdj (isort (fun a b => a ≤ b) xs)

/-- the loop of `merge_index_list` over a sorted list without repeats: a new
range starts wherever `diff > 1` -/
def mergeRuns (lo hi : Nat) : List Nat → List (Nat × Nat)
  | [] => [(lo, hi + 1)]
  | y :: ys => if y - hi > 1 then (lo, hi + 1) :: mergeRuns y y ys else mergeRuns lo y ys

/-- `utils.merge_index_list(index_list)` -/
def mergeIndexList (xs : List Nat) : Except SpErr (List (Nat × Nat)) :=
  match npUnique xs with
  | [] => .error .emptyInput
  | x :: rest => .ok (mergeRuns x x rest)

/-! ### concatenating CSR pieces -/

/-- concatenate pieces; the pointers of each piece (without its last one) are
shifted by `off` of the pieces before it -/
def concatAux {α} (off : Mat α → Nat) : List (Mat α) → Nat → List Nat × List Nat × List α
  | [], _ => ([], [], [])
  | P :: Ps, i0 =>
    let r := concatAux off Ps (i0 + off P)
    (P.indptr.dropLast.map (· + i0) ++ r.1, P.indices ++ r.2.1, P.data ++ r.2.2)

/-- `sparse_utils.merge_csr`: offsets are `len(data_in)`; `indptr[-1] = len(data)` -/
def mergeCsr {α} (parts : List (Mat α)) : Mat α :=
  let r := concatAux (fun P => P.data.length) parts 0
  ⟨r.1 ++ [r.2.2.length], r.2.1, r.2.2⟩

/-- the joining loop of `_transpose_sparse_matrix_on_disk_v2`: offsets are
`src_indices.shape[0]`; `indptr[-1] = indices_idx` -/
def joinParts {α} (parts : List (Mat α)) : Mat α :=
  let r := concatAux (fun P => P.indices.length) parts 0
  ⟨r.1 ++ [r.2.1.length], r.2.1, r.2.2⟩

/-- `anndata_utils.amalgamate_csr_to_x`: pointer offsets are the pieces'
`indptr[-1]`; `dst_indptr[-1] = n_valid` (total `data` length) -/
def amalgamateCsr {α} (parts : List (Mat α)) : Mat α :=
  let r := concatAux (fun P => P.indptr.getLast?.getD 0) parts 0
  ⟨r.1 ++ [r.2.2.length], r.2.1, r.2.2⟩

/-! ### `get_batch` -/

/-- the copy loop shared by the un-sort step of `_load_disjoint_csr`,
`shuffle_csr_h5ad_rows` and `subset_csc_h5ad_columns`: major slices `order[0], order[1], …` written one
after the other, `dst_indptr[k] = dst0` -/
def gatherMajors {α} (M : Mat α) (order : List Nat) : List Nat × List Nat × List α :=
  let segs := order.map fun o =>
    (slice M.indices (ptr M.indptr o) (ptr M.indptr (o + 1)),
     slice M.data (ptr M.indptr o) (ptr M.indptr (o + 1)))
  ((List.range order.length).map fun k => ((segs.take k).map (·.1.length)).sum,
   segs.flatMap (·.1), segs.flatMap (·.2))


/-- `_load_disjoint_csr(row_index_list, data, indices, indptr)` -/
def loadDisjoint {α} (M : Mat α) (rows : List Nat) : Except SpErr (Mat α) := do
  let sortedDex := argsort rows
  let sortedRows := sortedDex.map (rows.getD · 0)
  let ranges ← mergeIndexList sortedRows
  let parts ← ranges.mapM fun p => loadSparse M p.1 p.2
  let merged := mergeCsr parts
  -- un-sort: `final_indptr` has the shape of `merged_indptr`; row `ii` of the
  -- result is row `inverse_argsort[ii]` of `merged`
  if merged.indptr.length != rows.length + 1 then .error .badRows
  else
    -- `inverse_argsort[ii]` = position of `ii` in `sorted_dex`;
    -- final_indptr[ii] = data_ct (running), final_indptr[-1] = len(final_data)
    let g := gatherMajors merged ((List.range rows.length).map fun ii => sortedDex.idxOf ii)
    return ⟨g.1 ++ [g.2.2.length], g.2.1, g.2.2⟩

/-- `CSRRowIterator.get_batch(row_idx)` (dense result) -/
def csrGetBatch {α} (zero : α) (M : Mat α) (nCols : Nat) (rows : List Nat) :
    Except SpErr (Dense α) := do
  let sub ← loadDisjoint M rows
  csrToDense zero sub rows.length nCols

/-- strictly increasing -/
def strictInc : List Nat → Bool
  | x :: y :: r => x < y && strictInc (y :: r)
  | _ => true

/-- `DenseArrayRowIterator.get_batch(row_idx)`: argsort, read the sorted rows,
`output[meta_sort[ii]] = raw[ii]` -/
def denseGetBatch {α} (zero : α) (D : Dense α) (nCols : Nat) (rows : List Nat) :
    Except SpErr (Dense α) :=
  let metaSort := argsort rows
  let sorted := metaSort.map (rows.getD · 0)
  if rows.isEmpty then .error .emptyInput   -- h5py: `np.array([])` is a float array
  else if !strictInc sorted then .error .badRows
  else if sorted.any (· ≥ D.length) then .error .indexOutOfRange
  else
    let raw := sorted.map (D.getD · [])
    .ok ((metaSort.zip raw).foldl (fun out ir => out.set ir.1 ir.2)
      (List.replicate rows.length (List.replicate nCols zero)))

/-! ### on-disk transposition (`csc_to_csr.py`) -/

/-- one stored entry: position in the major axis (the input's pointer axis),
index in the minor axis, value -/
structure Entry (α : Type) where
  major : Nat
  minor : Nat
  val : α
  deriving Repr, BEq, DecidableEq, Inhabited

/-- `np.searchsorted(indptr, p, side='right') - 1` for a non-decreasing
`indptr`: the major slice holding storage position `p` -/
def majorOf (ip : List Nat) (p : Nat) : Nat := ip.countP (· ≤ p) - 1

/-- the stored entries in storage order, each tagged with its major index
(`col_chunk` of the transposition) -/
def entriesOf {α} (M : Mat α) : List (Entry α) :=
  (M.indices.zip M.data).zipIdx.map fun x => ⟨majorOf M.indptr x.2, x.1.1, x.1.2⟩

/-- the `indices_slice` filter on a chunk of minor indices:
`chunk[valid] - indices_slice[0]` -/
def sliceMinors (sl : Option (Nat × Nat)) (c : List Nat) : List Nat :=
  match sl with
  | none => c
  | some (a, b) => (c.filter fun x => a ≤ x && x < b).map (· - a)

/-- the same filter on a chunk of entries -/
def sliceEntries {α} (sl : Option (Nat × Nat)) (c : List (Entry α)) : List (Entry α) :=
  match sl with
  | none => c
  | some (a, b) =>
    (c.filter fun e => a ≤ e.minor && e.minor < b).map fun e => { e with minor := e.minor - a }

/-- `np.cumsum` -/
def cumsumFrom (acc : Nat) : List Nat → List Nat
  | [] => []
  | x :: xs => (acc + x) :: cumsumFrom (acc + x) xs

/-- number of minor indices the output has -/
def nMinorOf (indicesMax : Nat) : Option (Nat × Nat) → Nat
  | none => indicesMax
  | some (a, b) => b - a

/-- `_calculate_csr_indptr`: chunked counting pass; returns
`(csr_indptr, n_non_zero)` -/
def calcIndptr (indices : List Nat) (indicesMax : Nat) (sl : Option (Nat × Nat))
    (loCount : Nat) : Except SpErr (List Nat × Nat) :=
  let nMinor := nMinorOf indicesMax sl
  let cs := (sliceChunks loCount indices).map (sliceMinors sl)
  if cs.any (·.any (· ≥ nMinor)) then .error .indexOutOfRange
  else
    let counts := cs.foldl (fun cc chunk => cc.mapIdx fun v c => c + chunk.count v)
      (List.replicate nMinor 0)
    let nnz := cs.foldl (fun n c => n + c.length) 0
    .ok (0 :: cumsumFrom 0 counts, nnz)

/-- the `for candidate in range(r0+1, len(csr_indptr))` search for the end of
the block that starts at `r0` -/
def findCut (ip : List Nat) (el r0 : Nat) : Option Nat :=
  (List.range' (r0 + 1) (ip.length - (r0 + 1))).find? fun c =>
    decide (ptr ip c - ptr ip r0 ≥ el) || c == ip.length - 1

/-- the `while True` loop over blocks (fuel: at most one block per minor) -/
def blockCutsAux (ip : List Nat) (el : Nat) : Nat → Nat → List (Nat × Nat)
  | 0, _ => []
  | fuel + 1, r0 =>
    match findCut ip el r0 with
    | none => []
    | some r1 => (r0, r1) :: blockCutsAux ip el fuel r1

/-- the blocks `[r0, r1)` of minor indices written in one pass -/
def blockCuts (ip : List Nat) (el : Nat) : List (Nat × Nat) := blockCutsAux ip el ip.length 0

/-- `np.argsort(this_index)` applied to a group -/
def sortByMajor {α} (l : List (Entry α)) : List (Entry α) :=
  isort (fun a b => a.major ≤ b.major) l

/-- what one load chunk contributes to minor index `v`: its entries with that
minor index, sorted by major index -/
def piece {α} (c : List (Entry α)) (v : Nat) : List (Entry α) :=
  sortByMajor (c.filter (·.minor == v))

/-- the fill pass at bucket level: for every block, for every minor index `v`
of the block, the pieces of the load chunks in load order -/
def transposeEntries {α} (E : List (Entry α)) (sl : Option (Nat × Nat))
    (csrIndptr : List Nat) (lo el : Nat) : List (Entry α) :=
  let cs := (sliceChunks lo E).map (sliceEntries sl)
  (blockCuts csrIndptr el).flatMap fun blk =>
    (rangeOf blk).flatMap fun v => cs.flatMap fun c => piece c v

/-! #### the fill pass at flat-array level

The same loops with the code's addressing: one buffer per block, the group of
one load chunk for minor index `v` written at `next_idx[v] - d0`, then
`next_idx[v] += ct`; the block buffer written to the output at `[d0, d1)`.
`β` is what one array cell holds (`(major, value)` pairs for the pair of
arrays `indices` / `data`, which the code fills side by side). -/

/-- numpy `buf[pos : pos + len(xs)] = xs` -/
def writeAt {β} (buf : List β) (pos : Nat) (xs : List β) : List β :=
  buf.take pos ++ xs ++ buf.drop (pos + xs.length)

/-- `buffer[next_idx[v]-d0 : …] = group; next_idx[v] += ct` for the group of
load chunk `c` with minor index `v` (a value absent from the chunk has the
empty group: nothing changes) -/
def flatStep {α β} (f : Entry α → β) (d0 : Nat) (c : List (Entry α))
    (st : List Nat × List β) (v : Nat) : List Nat × List β :=
  (st.1.set v (ptr st.1 v + (piece c v).length),
   writeAt st.2 (ptr st.1 v - d0) ((piece c v).map f))

/-- one load chunk inside one block: its unique values in `[r0, r1)`, ascending -/
def flatChunk {α β} (f : Entry α → β) (blk : Nat × Nat) (d0 : Nat)
    (st : List Nat × List β) (c : List (Entry α)) : List Nat × List β :=
  (rangeOf blk).foldl (flatStep f d0 c) st

/-- one block: zeroed buffer of `d1 - d0` cells, all load chunks, then
`dst[d0:d1] = buffer` -/
def flatBlock {α β} (f : Entry α → β) (z : β) (cs : List (List (Entry α))) (ip : List Nat)
    (st : List Nat × List β) (blk : Nat × Nat) : List Nat × List β :=
  let d0 := ptr ip blk.1
  let d1 := ptr ip blk.2
  let r := cs.foldl (flatChunk f blk d0) (st.1, List.replicate (d1 - d0) z)
  (r.1, writeAt st.2 d0 r.2)

/-- the whole fill pass: `next_idx = copy(csr_indptr)`, output of `nnz` cells -/
def transposeFlat {α β} (f : Entry α → β) (z : β) (E : List (Entry α))
    (sl : Option (Nat × Nat)) (csrIndptr : List Nat) (nnz lo el : Nat) : List β :=
  let cs := (sliceChunks lo E).map (sliceEntries sl)
  ((blockCuts csrIndptr el).foldl (flatBlock f z cs csrIndptr)
    (csrIndptr, List.replicate nnz z)).2

/-- chunk sizes derived from the memory budget -/
structure Budget where
  /-- `load_chunk_size` of `_calculate_csr_indptr` -/
  loCount : Nat
  /-- `load_chunk_size` of the fill pass -/
  lo : Nat
  /-- `elements_at_a_time` -/
  el : Nat
  deriving Repr, BEq, DecidableEq, Inhabited

/-- `np.round` (half to even) of an exact rational -/
def roundHalfEven (q : Rat) : Int :=
  let f := q.floor
  let r := q - f
  if r < 1 / 2 then f
  else if 1 / 2 < r then f + 1
  else if f % 2 == 0 then f else f + 1

/-- `np.round(gb * 1024**3).astype(int)` -/
def bytesOfGb (gb : Rat) : Int := roundHalfEven (gb * 1073741824)

/-- the constants of the budget arithmetic as they stand in the source
(regenerated into `CTM/Generated/SparseConsts.lean` on every run; the driver
instantiates the model with the regenerated values).  Every theorem holds for
all values with the three minimum sizes `≥ 1`. -/
structure BudgetConsts where
  /-- `max(N, load_chunk_size)` of `_calculate_csr_indptr` -/
  minCount : Nat
  /-- `max(N, load_chunk_size)` of `transpose_sparse_matrix_on_disk` -/
  minLoad : Nat
  /-- `max(N, elements_at_a_time)` -/
  minEl : Nat
  /-- `dex_bytes` -/
  dexBytes : Nat
  deriving Repr, BEq, DecidableEq, Inhabited

/-- the integer part of the budget arithmetic of
`transpose_sparse_matrix_on_disk` / `_calculate_csr_indptr`; `countGb`,
`loadGb`, `elGb` are the floats `0.8*max_gb`, the share of it for the blocks
read from the input and the share for the output buffers -/
def Budget.ofConsts (K : BudgetConsts) (countGb loadGb elGb : Rat)
    (dataBytes indptrBytes indicesBytes : Nat) : Budget :=
  { loCount := max K.minCount ((bytesOfGb countGb / (indicesBytes : Int)) / 2).toNat
    lo := max K.minLoad
      (bytesOfGb loadGb / ((dataBytes + indptrBytes + indicesBytes + K.dexBytes : Nat) : Int)).toNat
    el := max K.minEl (bytesOfGb elGb / ((dataBytes + max indicesBytes indptrBytes : Nat) : Int)).toNat }

/-- the constants of the tree the model was first written against
(`max(100, …)` three times, `dex_bytes = 8`) -/
def pinnedConsts : BudgetConsts := ⟨100, 100, 100, 8⟩

/-- `Budget.ofConsts` at the pinned constants (kept for the theorems of other
groups that quote it; the driver uses the regenerated constants) -/
def Budget.of (countGb loadGb elGb : Rat) (dataBytes indptrBytes indicesBytes : Nat) : Budget :=
  Budget.ofConsts pinnedConsts countGb loadGb elGb dataBytes indptrBytes indicesBytes

/-- `transpose_sparse_matrix_on_disk(indices, indptr, data, indices_max, …,
indices_slice)`; the result is `(indptr, indices, data)` of the output file -/
def transposeOnDisk {α} (M : Mat α) (indicesMax : Nat) (sl : Option (Nat × Nat))
    (B : Budget) : Except SpErr (Mat α) := do
  let r ← calcIndptr M.indices indicesMax sl B.loCount
  let out := transposeEntries (entriesOf M) sl r.1 B.lo B.el
  return ⟨r.1, out.map (·.major), out.map (·.val)⟩

/-- `transpose_sparse_matrix_on_disk` with the flat-array fill pass -/
def transposeOnDiskFlat {α} (zero : α) (M : Mat α) (indicesMax : Nat) (sl : Option (Nat × Nat))
    (B : Budget) : Except SpErr (Mat α) := do
  let r ← calcIndptr M.indices indicesMax sl B.loCount
  let out := transposeFlat (fun e => (e.major, e.val)) (0, zero) (entriesOf M) sl r.1 r.2 B.lo B.el
  return ⟨r.1, out.map (·.1), out.map (·.2)⟩

/-- `_transpose_sparse_matrix_on_disk_v2`: the minor range is cut into
`ceil(indices_max / n_processors)`-wide slices, each transposed on its own,
joined in range order -/
def transposeV2 {α} (M : Mat α) (indicesMax nProc : Nat) (B : Budget) :
    Except SpErr (Mat α) := do
  let step := ceilDiv indicesMax nProc
  if step == 0 then .error .zeroStep
  else
    let parts ← (chunks indicesMax step).mapM fun sl =>
      transposeOnDisk M indicesMax (some sl) B
    return joinParts parts

/-- the inner loop of the joining step,
`for src0 in range(0, src_n, chunk_size): dst1 = dst0 + (src1-src0);
dst[dst0:dst1] = src[src0:src1]; dst0 = dst1`; returns the array and the
advanced destination offset -/
def blockCopyInto {β} (blk : Nat) (dst : List β) (dst0 : Nat) (src : List β) : List β × Nat :=
  (chunks src.length blk).foldl
    (fun st p => (writeAt st.1 st.2 (slice src p.1 p.2), st.2 + (p.2 - p.1))) (dst, dst0)

/-- the joining step with its addressing: `indices` / `data` of the total size
are created (zero-filled) and every worker's arrays are copied in blocks of
`blk` entries at the running offset `indices_idx` (one offset for both
arrays); the pointer array is the one of `joinParts` -/
def joinBlocked {α} (zero : α) (blk : Nat) (parts : List (Mat α)) : Mat α :=
  let total := (parts.map (·.indices.length)).sum
  let r := parts.foldl
    (fun st P => ((blockCopyInto blk st.1 st.2.2 P.indices).1,
                  (blockCopyInto blk st.2.1 st.2.2 P.data).1,
                  st.2.2 + P.indices.length))
    (List.replicate total 0, List.replicate total zero, 0)
  ⟨(joinParts parts).indptr, r.1, r.2.1⟩

/-- `_transpose_sparse_matrix_on_disk_v2` with the blockwise joining loop -/
def transposeV2Blocked {α} (zero : α) (M : Mat α) (indicesMax nProc : Nat) (B : Budget)
    (blk : Nat) : Except SpErr (Mat α) := do
  let step := ceilDiv indicesMax nProc
  if step == 0 then .error .zeroStep
  else
    let parts ← (chunks indicesMax step).mapM fun sl =>
      transposeOnDisk M indicesMax (some sl) B
    return joinBlocked zero blk parts

/-! ### file-level reshaping (`anndata_utils.py`) -/

/-- `shuffle_csr_h5ad_rows(new_row_order)`: `dst_indptr[-1] = src_indptr[-1]` -/
def shuffleRows {α} (M : Mat α) (order : List Nat) : Mat α :=
  let g := gatherMajors M order
  ⟨g.1 ++ [M.indptr.getLast?.getD 0], g.2.1, g.2.2⟩

/-- `subset_csc_h5ad_columns(chosen_columns)`: columns are taken in sorted
order; `dst_indptr[-1] = n_non_zero` (sum of the chosen slices' lengths) -/
def subsetColumns {α} (M : Mat α) (chosen : List Nat) : Mat α :=
  let cols := isort (fun a b => a ≤ b) chosen
  let g := gatherMajors M cols
  ⟨g.1 ++ [(cols.map fun c => ptr M.indptr (c + 1) - ptr M.indptr c).sum], g.2.1, g.2.2⟩

/-- a chunked 1-d copy `dst[i0:i1] = src[i0:i1]` (`_copy_layer_to_x_sparse`,
`pivot_csr_h5ad`, `copy_h5_excluding_data` for 1-d datasets) -/
def chunkCopy {α} (c : Nat) (l : List α) : List α :=
  (chunks l.length c).flatMap fun p => slice l p.1 p.2

/-- a tiled 2-d copy `dst[r0:r1, c0:c1] = src[r0:r1, c0:c1]`
(`_copy_layer_to_x_dense`, `copy_h5_excluding_data`), tile grid given by the
row ranges and the column ranges -/
def tileCopy {α} (rowRanges colRanges : List (Nat × Nat)) (D : Dense α) : Dense α :=
  rowRanges.flatMap fun r => (slice D r.1 r.2).map fun row =>
    colRanges.flatMap fun c => slice row c.1 c.2

/-- chunk shape chosen by `_copy_layer_to_x_dense` when the source dataset is
not chunked -/
def denseCopyChunks (h5chunks : Option (Nat × Nat)) (n m : Nat) : Nat × Nat :=
  match h5chunks with
  | some c => c
  | none =>
    let rc := min 10000 (n / 10)
    (if rc == 0 then n else rc, m)

/-- `_copy_layer_to_x_dense` -/
def copyDenseLayer {α} (h5chunks : Option (Nat × Nat)) (D : Dense α) (m : Nat) : Dense α :=
  let ch := denseCopyChunks h5chunks D.length m
  tileCopy (chunks D.length ch.1) (chunks m ch.2) D

/-- `pivot_csr_h5ad`: parallel transposition of `X`, then a chunked copy of the
three arrays -/
def pivotCsr {α} (M : Mat α) (nCols nProc : Nat) (B : Budget) (delta : Nat) :
    Except SpErr (Mat α) := do
  let t ← transposeV2 M nCols nProc B
  return ⟨chunkCopy delta t.indptr, chunkCopy delta t.indices, chunkCopy delta t.data⟩

/-- `AnnDataRowIterator` over a CSC layer: `csc_to_csr_on_disk` into scratch
space, then a `CSRRowIterator` over the result -/
def cscIter {α} (zero : α) (M : Mat α) (nRows nCols cs : Nat) (B : Budget) :
    Except SpErr (List (Dense α × Nat × Nat)) := do
  let csr ← transposeOnDisk M nRows none B
  csrIter zero csr nRows nCols cs

/-! ### the iterator as a state machine

`AnnDataRowIterator` is one object with a cursor (`self.r0`) and four
operations: `next()` advances the cursor, `get_chunk`, `__getitem__` and
`get_batch` are random access and must not touch it. -/

/-- what an iterator reads through: `get_chunk` and `get_batch` of the
underlying `CSRRowIterator` / `DenseArrayRowIterator` and the row count -/
structure Reader (α : Type) where
  nRows : Nat
  getChunk : Nat → Nat → Except SpErr (Dense α)
  getBatch : List Nat → Except SpErr (Dense α)

inductive IterOp where
  /-- `next(it)` -/
  | next
  /-- `it.get_chunk(r0, r1)` -/
  | getChunk (r0 r1 : Nat)
  /-- `it[i]`: rows `i ..< i+1` -/
  | getItem (i : Nat)
  /-- `it[[a, …, b]]`: rows `a ..< b+1` (only the first and last element of the
  list are looked at) -/
  | getItemList (xs : List Nat)
  /-- `it.get_batch(rows)` -/
  | getBatch (rows : List Nat)
  deriving Repr, BEq, DecidableEq, Inhabited

inductive IterOut (α : Type) where
  /-- `StopIteration` -/
  | stop
  /-- `(block, r0, r1)` -/
  | block (b : Dense α) (r0 r1 : Nat)
  /-- result of `get_batch` -/
  | batch (b : Dense α)
  | err (e : SpErr)
  deriving Repr, BEq, DecidableEq, Inhabited

/-- `(block, r0, r1)` or the exception -/
def chunkOut {α} (rd : Reader α) (r0 r1 : Nat) : IterOut α :=
  match rd.getChunk r0 r1 with
  | .ok b => .block b r0 r1
  | .error e => .err e

/-- one operation on an iterator with chunk size `cs` whose cursor is `cur`:
the new cursor and what the caller gets -/
def iterStep {α} (rd : Reader α) (cs : Nat) (cur : Nat) : IterOp → Nat × IterOut α
  | .next =>
    if cur ≥ rd.nRows then (cur, .stop)
    else
      let r1 := min rd.nRows (cur + cs)
      match rd.getChunk cur r1 with
      | .ok b => (r1, .block b cur r1)
      | .error e => (cur, .err e)
  | .getChunk r0 r1 => (cur, chunkOut rd r0 r1)
  | .getItem i => (cur, chunkOut rd i (i + 1))
  | .getItemList xs =>
    match xs.head?, xs.getLast? with
    | some a, some b => (cur, chunkOut rd a (b + 1))
    | _, _ => (cur, .err .emptySlice)
  | .getBatch rows =>
    (cur, match rd.getBatch rows with
          | .ok b => .batch b
          | .error e => .err e)

/-- a sequence of operations on one iterator object -/
def iterRun {α} (rd : Reader α) (cs : Nat) : Nat → List IterOp → Nat × List (IterOut α)
  | cur, [] => (cur, [])
  | cur, op :: ops =>
    let s := iterStep rd cs cur op
    let r := iterRun rd cs s.1 ops
    (r.1, s.2 :: r.2)

/-- the rows delivered by `next()` in a run: the blocks paired with a `next` op -/
def nextRows {α} : List IterOp → List (IterOut α) → Dense α
  | .next :: ops, .block b _ _ :: outs => b ++ nextRows ops outs
  | _ :: ops, _ :: outs => nextRows ops outs
  | _, _ => []

def csrReader {α} (zero : α) (M : Mat α) (nRows nCols : Nat) : Reader α :=
  ⟨nRows, fun r0 r1 => loadCsr zero M nCols r0 r1, fun rows => csrGetBatch zero M nCols rows⟩

def denseReader {α} (zero : α) (D : Dense α) (nCols : Nat) : Reader α :=
  ⟨D.length, fun r0 r1 => .ok (slice D r0 r1), fun rows => denseGetBatch zero D nCols rows⟩

/-- a CSC layer: the CSR reader over the scratch file written by
`csc_to_csr_on_disk` when the iterator was created -/
def cscReader {α} (zero : α) (M : Mat α) (nRows nCols : Nat) (B : Budget) :
    Except SpErr (Reader α) := do
  let csr ← transposeOnDisk M nRows none B
  return csrReader zero csr nRows nCols

end CTM.Sparse
