/-
  The NAME TABLES that link the files handed from stage to stage of
  `cell_type_mapper` (property C18, first sentence):

    statistics file        cluster_to_row, col_names, taxonomy_tree, arrays
                           (diff_exp/precompute_from_anndata.py; model `CTM.Stats`)
    reader of the mapper   read_precomputed_stats / get_leaf_means
                           (diff_exp/score_utils.py, type_assignment/matching.py)
    reference-marker file  gene_names, pair_to_idx, n_pairs
                           (diff_exp/markers.py: _prep_output_file)
    pair resolution        MarkerGeneArray.idx_of_pair, selection._get_taxonomy_idx
    marker table           keys 'None' / 'level/node', gene names
                           (type_assignment/marker_cache_v2.py:
                            create_raw_marker_gene_lookup; selection.py:
                            marker_gene_array.gene_names[chosen_idx])
    query marker cache     model `CTM.Markers` (group E)
    per-node matrices      data part of matching.assemble_query_data
                           (CellByGeneMatrix.downsample_cells / downsample_genes,
                            cell_by_gene/cell_by_gene.py)

  Core Lean only (no Mathlib).  Names (clusters, genes, levels, nodes) are `Nat`
  ids handed out in Python string order; floats are exact `Rat`.
-/
import CTM.Model.Stats
import CTM.Model.Markers
import CTM.Model.RefMarkers

namespace CTM.StageFiles
open CTM CTM.Stats CTM.Markers

abbrev Leaf := Nat

inductive SErr where
  /-- an error of the statistics writer / reader (`CTM.Stats`) -/
  | stats (e : StatsErr)
  /-- an error of the marker cache (`CTM.Markers`) -/
  | markers (e : MErr)
  /-- `KeyError` of a name → row / name → column dict -/
  | keyError
  /-- `idx_of_pair`: "not a valid taxonomy pair specification" -/
  | badPair
  /-- `gene_names[chosen_idx]` outside the list (`IndexError`) -/
  | badGeneIndex
  /-- index outside an array (`IndexError`) -/
  | badIndex
  /-- the taxonomy has no level -/
  | noLeafLevel
  deriving Repr, BEq, DecidableEq, Inhabited

def SErr.name : SErr → String
  | .stats e => "stats:" ++ e.name | .markers e => "markers:" ++ e.name
  | .keyError => "keyError" | .badPair => "badPair" | .badGeneIndex => "badGeneIndex"
  | .badIndex => "badIndex" | .noLeafLevel => "noLeafLevel"

def mapME {α β ε} (f : α → Except ε β) : List α → Except ε (List β)
  | [] => .ok []
  | a :: as =>
    match f a with
    | .error e => .error e
    | .ok b => match mapME f as with
      | .error e => .error e
      | .ok bs => .ok (b :: bs)

/-! ### the statistics file -/

/-- what the later stages read of `precomputed_stats.h5` -/
structure StatsFile where
  /-- `cluster_to_row` (dict, in its own order) -/
  clusterToRow : List (Leaf × Nat)
  /-- `col_names` -/
  colNames : List Gene
  /-- the arrays `n_cells`, `sum`, `sumsq`, `gt0`, `gt1`, `ge1`, row by row -/
  data : Buffer
  /-- `taxonomy_tree` -/
  tree : RawTree
  deriving Repr, Inhabited

/-- `tree[leaf_level].keys()` -/
def leavesOf (t : RawTree) : List Leaf :=
  match t.leafLevel with
  | none => []
  | some ll => t.nodesAt ll

/-- `{c: ii for ii, c in enumerate(cluster_list)}` -/
def enumerate (xs : List Nat) : List (Nat × Nat) := xs.zipIdx

/-- `precompute_summary_stats_from_h5ad_list_and_tree`: the file the first stage
writes for taxonomy `t` whose leaf level lists the cells (`leaf_to_cells` =
`t.level leafLevel`), gene names `genes` (the columns of every cell's `vals`) -/
def writeStats (t : RawTree) (genes : List Gene) (files : List (Nat × List CellRec))
    (rows nProc : Nat) : Except SErr StatsFile :=
  match t.leafLevel with
  | none => .error .noLeafLevel
  | some ll =>
    let l2c := t.level ll
    let clusters := uniqueSorted (l2c.map (·.1))
    match nameToRowOfTree l2c with
    | .error e => .error (.stats e)
    | .ok tbl =>
      match precompute clusters.length genes.length tbl files rows nProc with
      | .error e => .error (.stats e)
      | .ok buf =>
        .ok { clusterToRow := enumerate clusters, colNames := genes, data := buf, tree := t }

/-- rearrangement of a list: the element at position `j` moves to position
`perm[j]` (`perm` a permutation of `0 … n-1`) -/
def permuteList {α} (perm : List Nat) (xs : List α) : List α :=
  (List.range xs.length).filterMap (fun i => xs[perm.idxOf i]?)

/-- the same statistics file with its rows in another order (what a
truncation, a merge or any other writer may produce): row `r` of every array
moves to row `perm[r]`, `cluster_to_row` is rewritten -/
def permuteRows (perm : List Nat) (f : StatsFile) : StatsFile :=
  { f with
    data := permuteList perm f.data
    clusterToRow := f.clusterToRow.map (fun p =>
      match perm[p.2]? with
      | some q => (p.1, q)
      | none => p) }

/-- the same statistics file with its genes in another column order: column
`j` of `col_names` and of every per-gene array moves to column `perm[j]` -/
def permuteGenes (perm : List Nat) (f : StatsFile) : StatsFile :=
  { f with
    colNames := permuteList perm f.colNames
    data := f.data.map (fun r => { r with genes := permuteList perm r.genes }) }

/-! ### `read_precomputed_stats` + `get_leaf_means` -/

/-- a `CellByGeneMatrix` with cell identifiers -/
structure Matrix where
  cellIds : List Nat
  geneIds : List Gene
  data : List (List Rat)
  deriving Repr, BEq, DecidableEq, Inhabited

/-- `cluster_stats[f'{leaf_level}/{leaf}']['mean']`: the leaf's own row of the
file, found through `cluster_to_row`, as `sum / max(1, n_cells)` -/
def leafMeanRow (f : StatsFile) (leaf : Leaf) : Except SErr (List Rat) :=
  match aggregateStats f.colNames.length f.data f.clusterToRow [leaf] with
  | .error e => .error (.stats e)
  | .ok a => .ok a.mean

/-- `get_leaf_means`: rows = the leaves of the taxonomy in sorted order, columns
= `col_names` -/
def leafMeans (f : StatsFile) : Except SErr Matrix :=
  let leaves := RawTree.sortNat (leavesOf f.tree)
  match mapME (leafMeanRow f) leaves with
  | .error e => .error e
  | .ok rows => .ok { cellIds := leaves, geneIds := f.colNames, data := rows }

/-! ### `CellByGeneMatrix.downsample_cells`, `downsample_genes` -/

def pick (row : List Rat) : List Nat → Except SErr (List Rat)
  | [] => .ok []
  | i :: is =>
    match row[i]? with
    | none => .error .badIndex
    | some v => match pick row is with
      | .error e => .error e
      | .ok vs => .ok (v :: vs)

/-- `[self.gene_to_col[n] for n in selected_genes]` (`gene_to_col` = dict built
by `enumerate`: the last position of a name wins) -/
def colsOf (names : List Gene) (sel : List Gene) : Except SErr (List Nat) :=
  mapME (fun g => match nameToIdx names g with
    | some i => .ok i
    | none => .error .keyError) sel

/-- `downsample_genes(selected_genes)` -/
def downsampleGenes (m : Matrix) (sel : List Gene) : Except SErr Matrix :=
  match colsOf m.geneIds sel with
  | .error e => .error e
  | .ok idx =>
    match mapME (fun row => pick row idx) m.data with
    | .error e => .error e
    | .ok d => .ok { cellIds := m.cellIds, geneIds := sel, data := d }

def pickRows (data : List (List Rat)) : List Nat → Except SErr (List (List Rat))
  | [] => .ok []
  | i :: is =>
    match data[i]? with
    | none => .error .badIndex
    | some r => match pickRows data is with
      | .error e => .error e
      | .ok rs => .ok (r :: rs)

/-- `downsample_cells(selected_cells)` by cell identifier (`cell_to_row`) -/
def downsampleCells (m : Matrix) (sel : List Nat) : Except SErr Matrix :=
  match colsOf m.cellIds sel with
  | .error e => .error e
  | .ok idx =>
    match pickRows m.data idx with
    | .error e => .error e
    | .ok d => .ok { cellIds := sel, geneIds := m.geneIds, data := d }

/-! ### the reference-marker file: `_prep_output_file`, `idx_of_pair` -/

structure RefFile where
  /-- `gene_names` -/
  geneNames : List Gene
  /-- `pair_to_idx[leaf_level][node1][node2]` (the level is always the leaf level) -/
  pairToIdx : List ((Leaf × Leaf) × Nat)
  /-- `n_pairs` -/
  nPairs : Nat
  deriving Repr, BEq, DecidableEq, Inhabited

/-- `idx_to_pair`: the pair the marker finder scores in row `idx` of every table
(`itertools.combinations(sorted(leaves), 2)`) -/
def idxToPair (leaves : List Leaf) : List (Leaf × Leaf) :=
  RefMarkers.combos2 (RawTree.sortNat leaves)

/-- `_prep_output_file(output_path, taxonomy_tree, gene_names)` -/
def prepOutput (leaves : List Leaf) (geneNames : List Gene) : RefFile :=
  { geneNames := geneNames
    pairToIdx := (idxToPair leaves).zipIdx
    nPairs := (idxToPair leaves).length }

/-- the reference-marker file built from a statistics file
(`find_markers_for_all_taxonomy_pairs`: `gene_names = precomputed_stats['gene_names']`,
the taxonomy read from the same file) -/
def refFileOf (f : StatsFile) : RefFile := prepOutput (leavesOf f.tree) f.colNames

/-- `MarkerGeneArray.idx_of_pair(level, node1, node2)` -/
def idxOfPair (r : RefFile) (p : Leaf × Leaf) : Except SErr Nat :=
  match r.pairToIdx.lookup p with
  | some k => .ok k
  | none => .error .badPair

/-- `selection._get_taxonomy_idx`: the columns of the reference-marker tables a
parent's selection looks at -/
def taxonomyIdx (r : RefFile) (t : RawTree) (parent : PKey) : Except SErr (List Nat) :=
  match mapME (idxOfPair r) (t.leafPairs parent) with
  | .error e => .error e
  | .ok ks => .ok (RawTree.sortNat ks)

/-! ### the marker table: `create_raw_marker_gene_lookup` -/

/-- `marker_gene_array.gene_names[chosen_idx]` for every chosen gene -/
def geneNamesAt (geneNames : List Gene) : List Nat → Except SErr (List Gene)
  | [] => .ok []
  | i :: is =>
    match geneNames[i]? with
    | none => .error .badGeneIndex
    | some g => match geneNamesAt geneNames is with
      | .error e => .error e
      | .ok gs => .ok (g :: gs)

/-- the table written by the selection stage: one key per parent the stage
worked on (`order` = the order in which the workers delivered, any permutation
of `taxonomy_tree.all_parents`), listing the chosen genes BY NAME (`chosen p` =
positions in the reference-marker file's `gene_names`) -/
def markerTable (r : RefFile) (order : List PKey) (chosen : PKey → List Nat) :
    Except SErr Lookup :=
  mapME (fun p => match geneNamesAt r.geneNames (chosen p) with
    | .error e => .error e
    | .ok gs => .ok (p, gs)) order

/-! ### the mapper: reference / query matrices of one node -/

/-- `child_level` of `assemble_query_data`: `hierarchy[0]` for the root, the
level after the parent's otherwise (definitionally `RawTree.levelUnder`) -/
def childLevelOf (t : RawTree) : PKey → Option Level
  | none => t.hierarchy.head?
  | some (l, _) => t.childLevel l

/-- `children = sorted(leaf_to_type.keys())`: the leaves below the parent's
immediate children -/
def leavesUnder (t : RawTree) (parent : PKey) : Except SErr (List Leaf) :=
  match t.children parent, childLevelOf t parent with
  | .ok ch, some cl => .ok (RawTree.sortNat (ch.flatMap (t.asLeaves cl)))
  | .error e, _ => .error (.markers (.treeErr e))
  | _, none => .error .noLeafLevel

structure NodeData where
  /-- `query_data` (cells × this node's markers) -/
  query : Matrix
  /-- `reference_data` (leaves below the node × this node's markers) -/
  reference : Matrix
  deriving Repr, BEq, DecidableEq, Inhabited

/-- data part of `assemble_query_data(full_query_data, mean_profile_matrix,
taxonomy_tree, marker_cache_path, parent_node)`: the group's query columns are
looked up by NAME in the query matrix, the reference columns by NAME in the
leaf-mean matrix, the rows by leaf NAME -/
def assembleData (t : RawTree) (c : Cache) (means query : Matrix) (parent : PKey) :
    Except SErr NodeData :=
  match leavesUnder t parent with
  | .error e => .error e
  | .ok leaves =>
    match c.groups.lookup parent with
    | none => .error (.markers .missingGroup)
    | some rows =>
      match namesAt c.queryNames (rows.map (·.2)), namesAt c.refNames (rows.map (·.1)) with
      | .error e, _ => .error (.markers e)
      | _, .error e => .error (.markers e)
      | .ok qNames, .ok rNames =>
        match downsampleGenes query qNames with
        | .error e => .error e
        | .ok qd =>
          match downsampleCells means leaves with
          | .error e => .error e
          | .ok sub =>
            match downsampleGenes sub rNames with
            | .error e => .error e
            | .ok rd =>
              if qd.geneIds != rd.geneIds then .error (.markers .mismatch)
              else .ok { query := qd, reference := rd }

/-- the whole chain as the mapper sees it: statistics file `f` (whatever its
row and column order), marker table `lk`, query matrix `query`; reference gene
names of the cache = the file's `col_names`
(`cli/from_specified_markers.py`) -/
def mapperNode (f : StatsFile) (lk : Lookup) (query : Matrix) (m : Nat) (parent : PKey) :
    Except SErr NodeData :=
  match leafMeans f with
  | .error e => .error e
  | .ok means =>
    match createCache (some f.tree) lk f.colNames query.geneIds m with
    | .error e => .error (.markers e)
    | .ok c => assembleData f.tree c means query parent

end CTM.StageFiles
