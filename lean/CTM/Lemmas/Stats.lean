/-
  Lemmas about the reference-statistics model (`CTM.Model.Stats`), used by
  `CTM.Props.C09`.
-/
import CTM.Model.Stats
import Mathlib.Tactic.Ring
import Mathlib.Tactic.Linarith
import Mathlib.Tactic.NormNum
import Mathlib.Tactic.FieldSimp
import Mathlib.Data.List.Perm.Basic
import Mathlib.Data.List.Nodup
import Mathlib.Algebra.Order.Field.Rat

namespace CTM.Stats

/-! ### A. algebra of the accumulators -/

theorem GStat.ext' {a b : GStat} (h1 : a.sum = b.sum) (h2 : a.sumsq = b.sumsq)
    (h3 : a.gt0 = b.gt0) (h4 : a.gt1 = b.gt1) (h5 : a.ge1 = b.ge1) : a = b := by
  cases a; cases b; simp_all

theorem GStat.add_comm (a b : GStat) : a.add b = b.add a := by
  apply GStat.ext' <;> simp only [GStat.add] <;> ring

theorem GStat.add_assoc (a b c : GStat) : (a.add b).add c = a.add (b.add c) := by
  apply GStat.ext' <;> simp only [GStat.add] <;> ring

theorem GStat.zero_add (a : GStat) : GStat.zero.add a = a := by
  apply GStat.ext' <;> simp [GStat.add, GStat.zero]

theorem GStat.add_zero (a : GStat) : a.add GStat.zero = a := by
  apply GStat.ext' <;> simp [GStat.add, GStat.zero]

@[simp] theorem vadd_nil_left (x : List GStat) : vadd [] x = x := by
  simp [vadd]

@[simp] theorem vadd_nil_right (x : List GStat) : vadd x [] = x := by
  cases x <;> simp [vadd]

@[simp] theorem vadd_cons (x y : GStat) (xs ys : List GStat) :
    vadd (x :: xs) (y :: ys) = x.add y :: vadd xs ys := by
  simp [vadd]

theorem vadd_comm (x y : List GStat) : vadd x y = vadd y x := by
  induction x generalizing y with
  | nil => simp
  | cons a x ih =>
    cases y with
    | nil => simp
    | cons b y => simp [GStat.add_comm a b, ih y]

theorem vadd_assoc (x y z : List GStat) : vadd (vadd x y) z = vadd x (vadd y z) := by
  induction x generalizing y z with
  | nil => simp
  | cons a x ih =>
    cases y with
    | nil => simp
    | cons b y =>
      cases z with
      | nil => simp
      | cons c z => simp [GStat.add_assoc, ih]

theorem vadd_length (x y : List GStat) : (vadd x y).length = max x.length y.length := by
  induction x generalizing y with
  | nil => simp
  | cons a x ih =>
    cases y with
    | nil => simp
    | cons b y => simp [ih]

theorem Row.ext' {a b : Row} (h1 : a.n = b.n) (h2 : a.genes = b.genes) : a = b := by
  cases a; cases b; simp_all

theorem Row.add_comm (a b : Row) : a.add b = b.add a := by
  apply Row.ext' <;> simp only [Row.add]
  · omega
  · exact vadd_comm _ _

theorem Row.add_assoc (a b c : Row) : (a.add b).add c = a.add (b.add c) := by
  apply Row.ext' <;> simp only [Row.add]
  · omega
  · exact vadd_assoc _ _ _

@[simp] theorem Row.empty_add (a : Row) : Row.empty.add a = a := by
  apply Row.ext' <;> simp [Row.add, Row.empty]

@[simp] theorem Row.add_empty (a : Row) : a.add Row.empty = a := by
  apply Row.ext' <;> simp [Row.add, Row.empty]

theorem Row.add_left_comm (a b c : Row) : a.add (b.add c) = b.add (a.add c) := by
  rw [← Row.add_assoc, Row.add_comm a b, Row.add_assoc]

theorem vadd_replicate_zero (g : Nat) :
    vadd (List.replicate g GStat.zero) (List.replicate g GStat.zero)
      = List.replicate g GStat.zero := by
  induction g with
  | zero => simp
  | succ g ih => simp [List.replicate_succ, ih, GStat.zero_add]

theorem Row.zero_add_zero (g : Nat) : (Row.zero g).add (Row.zero g) = Row.zero g := by
  apply Row.ext' <;> simp [Row.add, Row.zero, vadd_replicate_zero]

@[simp] theorem rowSum_nil : rowSum [] = Row.empty := rfl
@[simp] theorem rowSum_cons (r : Row) (rs : List Row) : rowSum (r :: rs) = r.add (rowSum rs) := rfl

theorem rowSum_append (a b : List Row) : rowSum (a ++ b) = (rowSum a).add (rowSum b) := by
  induction a with
  | nil => simp
  | cons r a ih => simp [ih, Row.add_assoc]

theorem rowSum_perm {a b : List Row} (h : a.Perm b) : rowSum a = rowSum b := by
  induction h with
  | nil => rfl
  | cons x _ ih => simp [ih]
  | swap x y l => simp [Row.add_left_comm]
  | trans _ _ ih1 ih2 => exact ih1.trans ih2

theorem rowSum_flatten (ls : List (List Row)) : rowSum ls.flatten = rowSum (ls.map rowSum) := by
  induction ls with
  | nil => rfl
  | cons l ls ih => simp [rowSum_append, ih]

/-! ### mean and variance from `(n, sum, sumsq)` -/

theorem sum_sq_dev (xs : List Rat) (m : Rat) :
    (xs.map (fun x => (x - m) ^ 2)).sum
      = (xs.map (fun x => x * x)).sum - 2 * m * xs.sum + (xs.length : Rat) * m ^ 2 := by
  induction xs with
  | nil => simp
  | cons x xs ih => simp only [List.map_cons, List.sum_cons, List.length_cons, ih]; push_cast; ring

theorem meanOf_mul (n : Nat) (s : Rat) (hn : 1 ≤ n) : meanOf n s * (n : Rat) = s := by
  have h1 : max 1 n = n := by omega
  have h2 : (n : Rat) ≠ 0 := by
    have : (1 : Rat) ≤ (n : Rat) := by exact_mod_cast hn
    linarith
  simp only [meanOf, h1]
  field_simp

theorem varOf_mul (xs : List Rat) (hn : 2 ≤ xs.length) :
    varOf xs.length xs.sum (xs.map (fun x => x * x)).sum * ((xs.length : Rat) - 1)
      = (xs.map (fun x => (x - meanOf xs.length xs.sum) ^ 2)).sum := by
  have h1 : max 1 xs.length = xs.length := by omega
  have h1' : max 1 (xs.length - 1) = xs.length - 1 := by omega
  have hc : ((xs.length - 1 : Nat) : Rat) = (xs.length : Rat) - 1 := by
    rw [Nat.cast_sub (by omega)]; simp
  have h2 : (2 : Rat) ≤ (xs.length : Rat) := by exact_mod_cast hn
  have h3 : (xs.length : Rat) ≠ 0 := by linarith
  have h4 : (xs.length : Rat) - 1 ≠ 0 := by linarith
  rw [sum_sq_dev]
  simp only [varOf, meanOf, h1, h1', hc]
  field_simp
  ring

/-! ### the fields of `summaryStats` are plain column sums -/

theorem vadd_getElem? (x y : List GStat) (j : Nat) :
    (vadd x y)[j]? = match x[j]?, y[j]? with
      | some a, some b => some (a.add b)
      | some a, none => some a
      | none, some b => some b
      | none, none => none := by
  induction x generalizing y j with
  | nil => simp; cases y[j]? <;> rfl
  | cons a x ih =>
    cases y with
    | nil => simp; cases (a :: x)[j]? <;> rfl
    | cons b y =>
      cases j with
      | zero => simp
      | succ j => simp [ih]

/-- the column-`j` accumulator of a block of cells -/
def colStat (cells : List (List Rat)) (j : Nat) : GStat :=
  (cells.map (fun c => geneStat (c.getD j 0))).foldr GStat.add GStat.zero

theorem foldr_add_fields (L : List GStat) :
    (L.foldr GStat.add GStat.zero).sum = (L.map (·.sum)).sum ∧
    (L.foldr GStat.add GStat.zero).sumsq = (L.map (·.sumsq)).sum ∧
    (L.foldr GStat.add GStat.zero).gt0 = (L.map (·.gt0)).sum ∧
    (L.foldr GStat.add GStat.zero).gt1 = (L.map (·.gt1)).sum ∧
    (L.foldr GStat.add GStat.zero).ge1 = (L.map (·.ge1)).sum := by
  induction L with
  | nil => simp [GStat.zero]
  | cons a L ih =>
    obtain ⟨h1, h2, h3, h4, h5⟩ := ih
    simp [GStat.add, h1, h2, h3, h4, h5]

theorem colStat_fields (cells : List (List Rat)) (j : Nat) :
    (colStat cells j).sum = (cells.map (fun c => c.getD j 0)).sum ∧
    (colStat cells j).sumsq = (cells.map (fun c => c.getD j 0 * c.getD j 0)).sum ∧
    (colStat cells j).gt0 = (cells.map (fun c => (geneStat (c.getD j 0)).gt0)).sum ∧
    (colStat cells j).gt1 = (cells.map (fun c => (geneStat (c.getD j 0)).gt1)).sum ∧
    (colStat cells j).ge1 = (cells.map (fun c => (geneStat (c.getD j 0)).ge1)).sum := by
  have := foldr_add_fields (cells.map (fun c => geneStat (c.getD j 0)))
  simpa [colStat, List.map_map, Function.comp_def, geneStat] using this

theorem summaryStats_n (cells : List (List Rat)) : (summaryStats cells).n = cells.length := by
  induction cells with
  | nil => rfl
  | cons c cells ih =>
    simp only [summaryStats, List.map_cons, rowSum_cons, Row.add, cellStat, List.length_cons] at ih ⊢
    omega

theorem summaryStats_genes (g : Nat) (cells : List (List Rat))
    (hlen : ∀ c ∈ cells, c.length = g) (j : Nat) (hj : j < g) :
    (summaryStats cells).genes[j]? = if cells = [] then none else some (colStat cells j) := by
  induction cells with
  | nil => simp [summaryStats, Row.empty]
  | cons c cells ih =>
    have hc : c.length = g := hlen c (by simp)
    have ih' := ih (fun c hc => hlen c (by simp [hc]))
    have hj' : j < c.length := by omega
    simp only [summaryStats] at ih'
    simp only [summaryStats, List.map_cons, rowSum_cons, Row.add, cellStat, vadd_getElem?, ih']
    have e1 : (List.map geneStat c)[j]? = some (geneStat (c.getD j 0)) := by
      simp [List.getElem?_map, List.getD_eq_getElem?_getD, List.getElem?_eq_getElem hj']
    rw [e1]
    by_cases h : cells = []
    · subst h; simp [colStat, GStat.add_zero]
    · simp [h, colStat]

theorem zero_add_summaryStats_genes (g : Nat) (cells : List (List Rat))
    (hlen : ∀ c ∈ cells, c.length = g) (j : Nat) (hj : j < g) :
    ((Row.zero g).add (summaryStats cells)).genes[j]? = some (colStat cells j) := by
  simp only [Row.add, vadd_getElem?, summaryStats_genes g cells hlen j hj, Row.zero]
  have : (List.replicate g GStat.zero)[j]? = some GStat.zero := by simp [hj]
  rw [this]
  by_cases h : cells = []
  · subst h; simp [colStat]
  · simp [h, GStat.zero_add]

/-! ### thresholds -/

theorem strictMono_lt_iff (f : Rat → Rat) (hf : ∀ a b, a < b → f a < f b) (a b : Rat) :
    f a < f b ↔ a < b := by
  constructor
  · intro h
    by_contra hn
    rcases lt_or_eq_of_le (not_lt.mp hn) with h' | h'
    · exact absurd (hf b a h') (not_lt.mpr (le_of_lt h))
    · rw [h'] at h; exact lt_irrefl _ h
  · exact hf a b

/-! ### chunk ranges tile the rows -/

theorem chunkRangesAux_tile {α : Type} (xs : List α) (rows : Nat) (hrows : 1 ≤ rows) :
    ∀ (fuel r0 : Nat), xs.length - r0 ≤ fuel →
      ((chunkRangesAux xs.length rows fuel r0).map
          (fun p => (xs.drop p.1).take (p.2 - p.1))).flatten = xs.drop r0 := by
  intro fuel
  induction fuel with
  | zero =>
    intro r0 h
    have : xs.length ≤ r0 := by omega
    simp [chunkRangesAux, List.drop_eq_nil_of_le this]
  | succ fuel ih =>
    intro r0 h
    unfold chunkRangesAux
    by_cases hlt : r0 < xs.length
    · simp only [hlt, if_true, List.map_cons, List.flatten_cons]
      rw [ih (r0 + rows) (by omega)]
      by_cases hle : r0 + rows ≤ xs.length
      · have : min xs.length (r0 + rows) - r0 = rows := by omega
        rw [this, ← List.drop_drop, List.take_append_drop]
      · have h1 : min xs.length (r0 + rows) - r0 = xs.length - r0 := by omega
        have h2 : xs.drop (r0 + rows) = [] := List.drop_eq_nil_of_le (by omega)
        rw [h1, h2, List.append_nil]
        apply List.take_of_length_le
        simp
    · have : xs.length ≤ r0 := by omega
      simp [hlt, List.drop_eq_nil_of_le this]

/-- the row ranges `(r0, r1)` of `range(0, n, rows)` cut any list of `n` rows
into consecutive slices that concatenate back to it -/
theorem chunkRanges_tile {α : Type} (xs : List α) (rows : Nat) (hrows : 1 ≤ rows) :
    ((chunkRanges xs.length rows).map (fun p => (xs.drop p.1).take (p.2 - p.1))).flatten = xs := by
  have := chunkRangesAux_tile xs rows hrows xs.length 0 (by omega)
  simpa [chunkRanges] using this

theorem chunkRangesAux_bounds (n rows : Nat) (hrows : 1 ≤ rows) :
    ∀ (fuel r0 : Nat) (p : Nat × Nat), p ∈ chunkRangesAux n rows fuel r0 →
      r0 ≤ p.1 ∧ p.1 < p.2 ∧ p.2 ≤ n ∧ p.2 - p.1 ≤ rows := by
  intro fuel
  induction fuel with
  | zero => intro r0 p h; simp [chunkRangesAux] at h
  | succ fuel ih =>
    intro r0 p h
    unfold chunkRangesAux at h
    by_cases hlt : r0 < n
    · simp only [hlt, if_true, List.mem_cons] at h
      rcases h with h | h
      · subst h; simp; omega
      · have := ih _ _ h; omega
    · simp [hlt] at h

theorem chunkRanges_bounds (n rows : Nat) (hrows : 1 ≤ rows) (p : Nat × Nat)
    (h : p ∈ chunkRanges n rows) : p.1 < p.2 ∧ p.2 ≤ n ∧ p.2 - p.1 ≤ rows := by
  have := chunkRangesAux_bounds n rows hrows n 0 p h
  omega

theorem chunkRanges_range (n rows : Nat) (hrows : 1 ≤ rows) :
    (chunkRanges n rows).flatMap (fun p => List.range' p.1 (p.2 - p.1)) = List.range n := by
  have h := chunkRanges_tile (List.range n) rows hrows
  simp only [List.length_range] at h
  rw [List.flatMap_def]
  conv => rhs; rw [← h]
  congr 1
  apply List.map_congr_left
  intro p hp
  have hb := chunkRanges_bounds n rows hrows p hp
  rw [List.range_eq_range', List.drop_range', List.take_range'_of_length_ge (by omega)]
  congr 1; omega

theorem fileChunks_cells (rows f : Nat) (cells : List CellRec) (hrows : 1 ≤ rows) :
    (fileChunks rows f cells).flatMap (·.cells) = cells := by
  have := chunkRanges_tile cells rows hrows
  simpa [fileChunks, List.flatMap_def, List.map_map, Function.comp_def, slice] using this

theorem fileChunks_mem (rows f : Nat) (cells : List CellRec) (hrows : 1 ≤ rows) (c : Chunk)
    (h : c ∈ fileChunks rows f cells) :
    c.r0 < c.r1 ∧ c.r1 ≤ cells.length ∧ c.cells.length = c.r1 - c.r0 ∧ c.file = f ∧
      c.r1 - c.r0 ≤ rows := by
  simp only [fileChunks, List.mem_map] at h
  obtain ⟨p, hp, rfl⟩ := h
  have hb := chunkRanges_bounds cells.length rows hrows p hp
  dsimp only
  simp only [slice, List.length_take, List.length_drop]
  refine ⟨by omega, by omega, by omega, trivial, by omega⟩

/-! ### the work split -/

/-- total number of rows of a list of chunks -/
def sizeSum (cs : List Chunk) : Nat := (cs.map (fun c => c.r1 - c.r0)).sum

@[simp] theorem sizeSum_nil : sizeSum [] = 0 := rfl
@[simp] theorem sizeSum_cons (c : Chunk) (cs : List Chunk) :
    sizeSum (c :: cs) = (c.r1 - c.r0) + sizeSum cs := by simp [sizeSum]
theorem sizeSum_append (a b : List Chunk) : sizeSum (a ++ b) = sizeSum a + sizeSum b := by
  simp [sizeSum]

theorem sizeSum_eq_length (cs : List Chunk) (h : ∀ c ∈ cs, c.cells.length = c.r1 - c.r0) :
    sizeSum cs = (cs.flatMap (·.cells)).length := by
  induction cs with
  | nil => rfl
  | cons c cs ih =>
    simp only [sizeSum_cons, List.flatMap_cons, List.length_append]
    rw [ih (fun c hc => h c (by simp [hc])), h c (by simp)]

theorem sizeSum_fileChunks (rows f : Nat) (cells : List CellRec) (hrows : 1 ≤ rows) :
    sizeSum (fileChunks rows f cells) = cells.length := by
  rw [sizeSum_eq_length _ (fun c hc => (fileChunks_mem rows f cells hrows c hc).2.2.1),
    fileChunks_cells rows f cells hrows]

theorem sizeSum_allChunks (rows : Nat) (files : List (Nat × List CellRec)) (hrows : 1 ≤ rows) :
    sizeSum (files.flatMap (fun f => fileChunks rows f.1 f.2))
      = (files.map (fun f => f.2.length)).sum := by
  induction files with
  | nil => rfl
  | cons f files ih =>
    simp only [List.flatMap_cons, sizeSum_append, List.map_cons, List.sum_cons, ih,
      sizeSum_fileChunks _ _ _ hrows]

theorem allChunks_pos (rows : Nat) (files : List (Nat × List CellRec)) (hrows : 1 ≤ rows) :
    ∀ c ∈ files.flatMap (fun f => fileChunks rows f.1 f.2), c.r0 < c.r1 := by
  intro c hc
  simp only [List.mem_flatMap] at hc
  obtain ⟨f, _, hc⟩ := hc
  exact (fileChunks_mem rows f.1 f.2 hrows c hc).1

theorem le_mul_nPer (nTotal nProc : Nat) (h : 1 ≤ nProc) : nTotal ≤ nProc * nPer nTotal nProc := by
  have := Nat.lt_mul_div_succ (nTotal + nProc - 1) (show 0 < nProc by omega)
  simp only [nPer]
  rw [Nat.mul_add, Nat.mul_one] at this
  omega

theorem splitLoop_ok (nProc nPer : Nat) :
    ∀ (cs : List Chunk) (st : SplitState), (∀ c ∈ cs, c.r0 < c.r1) →
      st.done.length * (nPer + 1) + st.thisN + sizeSum cs ≤ nProc * nPer →
      ∃ st', splitLoop nProc nPer st cs = .ok st' := by
  intro cs
  induction cs with
  | nil => intro st _ _; exact ⟨st, rfl⟩
  | cons c cs ih =>
    intro st hpos hinv
    have hc : c.r0 < c.r1 := hpos c (by simp)
    have hpos' : ∀ c ∈ cs, c.r0 < c.r1 := fun c h => hpos c (by simp [h])
    rw [sizeSum_cons] at hinv
    have hlt : st.done.length < nProc := by
      by_contra hn
      have h1 : nProc * (nPer + 1) ≤ st.done.length * (nPer + 1) :=
        Nat.mul_le_mul_right _ (by omega)
      have h2 : nProc * nPer ≤ nProc * (nPer + 1) := Nat.mul_le_mul_left _ (by omega)
      omega
    simp only [splitLoop, splitStep, hlt, if_true]
    by_cases ht : st.thisN + (c.r1 - c.r0) > nPer
    · simp only [ht, if_true]
      apply ih _ hpos'
      simp only [List.length_append, List.length_singleton]
      rw [Nat.add_mul]
      omega
    · simp only [ht, if_false]
      apply ih _ hpos'
      simp only
      omega

theorem splitLoop_spec (nProc nPer : Nat) :
    ∀ (cs : List Chunk) (st st' : SplitState), splitLoop nProc nPer st cs = .ok st' →
      (st'.done ++ [st'.cur]).flatten = (st.done ++ [st.cur]).flatten ++ cs ∧
      (st.done.length + (if st.cur = [] then 0 else 1) ≤ nProc →
        st'.done.length + (if st'.cur = [] then 0 else 1) ≤ nProc) := by
  intro cs
  induction cs with
  | nil =>
    intro st st' h
    simp only [splitLoop, Except.ok.injEq] at h
    subst h; simp
  | cons c cs ih =>
    intro st st' h
    simp only [splitLoop, splitStep] at h
    by_cases hlt : st.done.length < nProc
    · simp only [hlt, if_true] at h
      by_cases ht : st.thisN + (c.r1 - c.r0) > nPer
      · simp only [ht, if_true] at h
        obtain ⟨h1, h2⟩ := ih _ _ h
        refine ⟨?_, fun _ => h2 ?_⟩
        · rw [h1]; simp
        · simp; omega
      · simp only [ht, if_false] at h
        obtain ⟨h1, h2⟩ := ih _ _ h
        refine ⟨?_, fun _ => h2 ?_⟩
        · rw [h1]; simp
        · simp; omega
    · simp [hlt] at h

theorem flatten_filter_nonempty {α : Type} (ls : List (List α)) :
    (ls.filter (fun l => !l.isEmpty)).flatten = ls.flatten := by
  induction ls with
  | nil => rfl
  | cons l ls ih =>
    cases l with
    | nil => simp [ih]
    | cons a l => simp [ih]

theorem length_filter_nonempty_snoc {α : Type} (ls : List (List α)) (l : List α) :
    ((ls ++ [l]).filter (fun l => !l.isEmpty)).length ≤ ls.length + (if l = [] then 0 else 1) := by
  rw [List.filter_append, List.length_append]
  have := List.length_filter_le (fun l : List α => !l.isEmpty) ls
  cases l with
  | nil => simp; omega
  | cons a l => simp; omega

theorem workSplit_ok (files : List (Nat × List CellRec)) (rows nProc : Nat)
    (hrows : 1 ≤ rows) (hproc : 1 ≤ nProc) : ∃ loads, workSplit files rows nProc = .ok loads := by
  have h1 : ¬ nProc = 0 := by omega
  have h2 : (rows = 0 && !files.isEmpty) = false := by
    have : ¬ rows = 0 := by omega
    simp [this]
  obtain ⟨st', hst⟩ := splitLoop_ok nProc (nPer (files.map (fun f => f.2.length)).sum nProc)
    (files.flatMap (fun f => fileChunks rows f.1 f.2)) ⟨[], [], 0⟩
    (allChunks_pos rows files hrows)
    (by
      rw [sizeSum_allChunks rows files hrows]
      have := le_mul_nPer (files.map (fun f => f.2.length)).sum nProc hproc
      simpa using this)
  refine ⟨(st'.done ++ [st'.cur]).filter (fun l => !l.isEmpty), ?_⟩
  simp only [workSplit, h1, h2, if_false, Bool.false_eq_true, hst]

theorem workSplit_spec (files : List (Nat × List CellRec)) (rows nProc : Nat)
    (loads : List (List Chunk)) (h : workSplit files rows nProc = .ok loads) :
    loads.flatten = files.flatMap (fun f => fileChunks rows f.1 f.2) ∧
      loads.length ≤ nProc ∧ ∀ l ∈ loads, l ≠ [] := by
  simp only [workSplit] at h
  by_cases h1 : nProc = 0
  · simp [h1] at h
  · simp only [h1, if_false] at h
    by_cases h2 : (rows = 0 && !files.isEmpty) = true
    · simp [h2] at h
    · rw [if_neg h2] at h
      split at h
      · simp at h
      · rename_i st hst
        simp only [Except.ok.injEq] at h
        subst h
        obtain ⟨e1, e2⟩ := splitLoop_spec _ _ _ _ _ hst
        refine ⟨?_, ?_, ?_⟩
        · rw [flatten_filter_nonempty, e1]; simp
        · have := length_filter_nonempty_snoc st.done st.cur
          have := e2 (by simp)
          omega
        · intro l hl
          simp only [List.mem_filter] at hl
          intro hnil
          simp [hnil] at hl

/-! ### `merge_precompute_files` -/

theorem mostIdx_bound : ∀ (bs : List Buffer) (i best tot : Nat),
    mostIdx bs i best tot = best ∨
      (i ≤ mostIdx bs i best tot ∧ mostIdx bs i best tot < i + bs.length) := by
  intro bs
  induction bs with
  | nil => intro i best tot; left; rfl
  | cons b bs ih =>
    intro i best tot
    simp only [mostIdx]
    split
    · rcases ih (i + 1) i (totalCells b) with h | h
      · right; rw [h]; simp
      · right; simp only [List.length_cons]; omega
    · rcases ih (i + 1) best tot with h | h
      · left; exact h
      · right; simp only [List.length_cons]; omega

theorem replaceWhereMore_length (dst src : Buffer) :
    (replaceWhereMore dst src).length = min dst.length src.length := by
  simp [replaceWhereMore]

theorem replaceWhereMore_getElem? (dst src : Buffer) (r : Nat) (d s : Row)
    (hd : dst[r]? = some d) (hs : src[r]? = some s) :
    (replaceWhereMore dst src)[r]? = some (if s.n > d.n then s else d) := by
  simp [replaceWhereMore, List.getElem?_zipWith, hd, hs]

theorem foldl_replaceWhereMore (nC : Nat) :
    ∀ (others : List Buffer) (start : Buffer), start.length = nC →
      (∀ f ∈ others, f.length = nC) →
      (others.foldl replaceWhereMore start).length = nC ∧
      ∀ r, r < nC → ∃ f ∈ start :: others, ∃ row, f[r]? = some row ∧
        (others.foldl replaceWhereMore start)[r]? = some row ∧
        ∀ f' ∈ start :: others, ∀ row', f'[r]? = some row' → row'.n ≤ row.n := by
  intro others
  induction others with
  | nil =>
    intro start hs _
    refine ⟨hs, fun r hr => ⟨start, by simp, start[r], by simp [hs, hr], by simp [hs, hr], ?_⟩⟩
    intro f' hf' row' hrow'
    simp only [List.mem_singleton] at hf'
    subst hf'
    have : f'[r]? = some f'[r] := by simp [hs, hr]
    rw [this] at hrow'
    simp only [Option.some.injEq] at hrow'
    rw [hrow']
  | cons o others ih =>
    intro start hs hlen
    have ho : o.length = nC := hlen o (by simp)
    have hlen' : ∀ f ∈ others, f.length = nC := fun f hf => hlen f (by simp [hf])
    have hs' : (replaceWhereMore start o).length = nC := by
      rw [replaceWhereMore_length]; omega
    obtain ⟨h1, h2⟩ := ih (replaceWhereMore start o) hs' hlen'
    refine ⟨h1, fun r hr => ?_⟩
    obtain ⟨f, hf, row, hfr, hout, hmax⟩ := h2 r hr
    have hd : start[r]? = some start[r] := by simp [hs, hr]
    have hso : o[r]? = some o[r] := by simp [ho, hr]
    have hrep := replaceWhereMore_getElem? start o r _ _ hd hso
    have hmax0 := hmax (replaceWhereMore start o) (by simp) _ hrep
    have hmax' : ∀ f' ∈ start :: o :: others, ∀ row', f'[r]? = some row' → row'.n ≤ row.n := by
      intro f' hf' row' hrow'
      simp only [List.mem_cons] at hf'
      rcases hf' with rfl | rfl | hf'
      · rw [hd] at hrow'; simp only [Option.some.injEq] at hrow'; subst hrow'
        split at hmax0 <;> omega
      · rw [hso] at hrow'; simp only [Option.some.injEq] at hrow'; subst hrow'
        split at hmax0 <;> omega
      · exact hmax f' (by simp [hf']) row' hrow'
    simp only [List.foldl_cons]
    simp only [List.mem_cons] at hf
    rcases hf with rfl | hf
    · rw [hrep] at hfr
      simp only [Option.some.injEq] at hfr
      by_cases hgt : o[r].n > start[r].n
      · rw [if_pos hgt] at hfr
        exact ⟨o, by simp, row, by rw [hso, hfr], hout, hmax'⟩
      · rw [if_neg hgt] at hfr
        exact ⟨start, by simp, row, by rw [hd, hfr], hout, hmax'⟩
    · exact ⟨f, by simp [hf], row, hfr, hout, hmax'⟩

theorem mergeMax_spec (nC : Nat) (files : List Buffer) (hne : files ≠ [])
    (hlen : ∀ f ∈ files, f.length = nC) :
    ∃ out, mergeMax files = .ok out ∧ out.length = nC ∧
      ∀ r, r < nC → ∃ (k : Nat) (fk : Buffer) (row : Row), files[k]? = some fk ∧ fk[r]? = some row ∧
        out[r]? = some row ∧ ∀ f' ∈ files, ∀ row', f'[r]? = some row' → row'.n ≤ row.n := by
  cases files with
  | nil => exact absurd rfl hne
  | cons f0 rest =>
    have hk : mostIdx rest 1 0 (totalCells f0) < (f0 :: rest).length := by
      rcases mostIdx_bound rest 1 0 (totalCells f0) with h | h
      · rw [h]; simp
      · simp only [List.length_cons]; omega
    generalize hkdef : mostIdx rest 1 0 (totalCells f0) = k at hk
    have hstart : (f0 :: rest)[k]? = some (f0 :: rest)[k] := by simp
    generalize hsdef : (f0 :: rest)[k] = start at hstart
    generalize hfiles : f0 :: rest = files at *
    let others := ((files.zipIdx).filter (fun p => p.2 != k)).map (·.1)
    have hothers_mem : ∀ f ∈ others, f ∈ files := by
      intro f hf
      simp only [others, List.mem_map, List.mem_filter] at hf
      obtain ⟨⟨f', i⟩, ⟨hmem, _⟩, rfl⟩ := hf
      rw [List.mem_zipIdx_iff_getElem?] at hmem
      exact List.mem_of_getElem? hmem
    have hfiles_mem : ∀ f' ∈ files, f' = start ∨ f' ∈ others := by
      intro f' hf'
      obtain ⟨i, hi⟩ := List.getElem?_of_mem hf'
      by_cases hik : i = k
      · left; subst hik; rw [hstart] at hi; simpa using hi.symm
      · right
        simp only [others, List.mem_map, List.mem_filter]
        exact ⟨(f', i), ⟨by rw [List.mem_zipIdx_iff_getElem?]; exact hi, by simpa using hik⟩, rfl⟩
    have hstart_mem : start ∈ files := List.mem_of_getElem? hstart
    obtain ⟨h1, h2⟩ := foldl_replaceWhereMore nC others start (hlen _ hstart_mem)
      (fun f hf => hlen f (hothers_mem f hf))
    refine ⟨others.foldl replaceWhereMore start, ?_, h1, fun r hr => ?_⟩
    · subst hfiles
      simp only [mergeMax, hkdef, hstart, others, List.foldl_map]
    · obtain ⟨f, hf, row, hfr, hout, hmax⟩ := h2 r hr
      have hfmem : f ∈ files := by
        simp only [List.mem_cons] at hf
        rcases hf with rfl | hf
        · exact hstart_mem
        · exact hothers_mem f hf
      obtain ⟨i, hi⟩ := List.getElem?_of_mem hfmem
      refine ⟨i, f, row, hi, hfr, hout, fun f' hf' row' hrow' => ?_⟩
      rcases hfiles_mem f' hf' with rfl | h
      · exact hmax _ (by simp) row' hrow'
      · exact hmax f' (by simp [h]) row' hrow'

/-! ### `_process_chunk` and friends, projected to one output row -/

theorem bufAdd_spec : ∀ (buf : Buffer) (u : Nat) (r : Row), u < buf.length →
    ∃ buf', bufAdd buf u r = some buf' ∧ buf'.length = buf.length ∧
      ∀ c : Nat, buf'[c]? = if c = u then buf[c]?.map (·.add r) else buf[c]? := by
  intro buf
  induction buf with
  | nil => intro u r h; simp at h
  | cons b bs ih =>
    intro u r h
    cases u with
    | zero =>
      refine ⟨b.add r :: bs, rfl, rfl, fun c => ?_⟩
      cases c <;> simp
    | succ u =>
      obtain ⟨bs', h1, h2, h3⟩ := ih u r (by simpa using h)
      refine ⟨b :: bs', by simp [bufAdd, h1], by simp [h2], fun c => ?_⟩
      cases c with
      | zero => simp
      | succ c => simp [h3 c]

theorem mem_insertUniq (x a : Nat) (ys : List Nat) : a ∈ insertUniq x ys ↔ a = x ∨ a ∈ ys := by
  induction ys with
  | nil => simp [insertUniq]
  | cons y ys ih =>
    simp only [insertUniq]
    split
    · simp
    · split
      · rename_i h; subst h; simp
      · simp only [List.mem_cons, ih]; tauto

theorem insertUniq_pairwise (x : Nat) (ys : List Nat) (h : ys.Pairwise (· < ·)) :
    (insertUniq x ys).Pairwise (· < ·) := by
  induction ys with
  | nil => simp [insertUniq]
  | cons y ys ih =>
    simp only [insertUniq]
    rw [List.pairwise_cons] at h
    split
    · rename_i hxy
      rw [List.pairwise_cons]
      refine ⟨fun a ha => ?_, List.pairwise_cons.mpr h⟩
      simp only [List.mem_cons] at ha
      rcases ha with rfl | ha
      · exact hxy
      · exact Nat.lt_trans hxy (h.1 a ha)
    · split
      · exact List.pairwise_cons.mpr h
      · rw [List.pairwise_cons]
        refine ⟨fun a ha => ?_, ih h.2⟩
        rw [mem_insertUniq] at ha
        rcases ha with rfl | ha
        · omega
        · exact h.1 a ha

theorem mem_uniqueSorted (a : Nat) (xs : List Nat) : a ∈ uniqueSorted xs ↔ a ∈ xs := by
  induction xs with
  | nil => simp [uniqueSorted]
  | cons x xs ih =>
    simp only [uniqueSorted, List.foldr_cons] at ih ⊢
    rw [mem_insertUniq, ih]; simp

theorem uniqueSorted_pairwise (xs : List Nat) : (uniqueSorted xs).Pairwise (· < ·) := by
  induction xs with
  | nil => simp [uniqueSorted]
  | cons x xs ih =>
    simp only [uniqueSorted, List.foldr_cons] at ih ⊢
    exact insertUniq_pairwise x _ ih

theorem uniqueSorted_nodup (xs : List Nat) : (uniqueSorted xs).Nodup :=
  (uniqueSorted_pairwise xs).imp (fun h => Nat.ne_of_lt h)

theorem mem_of_lookup_eq_some {k v : Nat} : ∀ {l : List (Nat × Nat)}, l.lookup k = some v → (k, v) ∈ l := by
  intro l
  induction l with
  | nil => intro h; simp at h
  | cons p l ih =>
    intro h
    obtain ⟨a, b⟩ := p
    simp only [List.lookup_cons] at h
    by_cases hka : k = a
    · subst hka; simp at h; subst h; simp
    · have : (k == a) = false := by simpa using hka
      rw [this] at h
      exact List.mem_cons_of_mem _ (ih h)

/-- contribution of a block of cells to output row `c`: the ordered sum of
`cellStat` over the cells of the block named for row `c` -/
def S (nameToRow : List (Nat × Nat)) (c : Nat) (cells : List CellRec) : Row :=
  rowSum ((cellsOfRow nameToRow c cells).map (fun cell => cellStat cell.vals))

theorem S_nil (ntr : List (Nat × Nat)) (c : Nat) : S ntr c [] = Row.empty := rfl

theorem S_append (ntr : List (Nat × Nat)) (c : Nat) (A B : List CellRec) :
    S ntr c (A ++ B) = (S ntr c A).add (S ntr c B) := by
  simp [S, cellsOfRow, rowSum_append]

theorem summaryStats_cellsOfRow (ntr : List (Nat × Nat)) (c : Nat) (cells : List CellRec) :
    summaryStats ((cellsOfRow ntr c cells).map (·.vals)) = S ntr c cells := by
  simp [summaryStats, S, List.map_map, Function.comp_def]

theorem processUnique_spec (ntr : List (Nat × Nat)) (cells : List CellRec) :
    ∀ (us : List Nat) (buf : Buffer), us.Nodup → (∀ u ∈ us, u < buf.length) →
      ∃ buf', processUnique ntr cells buf us = .ok buf' ∧ buf'.length = buf.length ∧
        ∀ c : Nat, buf'[c]? = if c ∈ us then buf[c]?.map (·.add (S ntr c cells)) else buf[c]? := by
  intro us
  induction us with
  | nil => intro buf _ _; exact ⟨buf, rfl, rfl, fun c => by simp⟩
  | cons u us ih =>
    intro buf hnd hlt
    rw [List.nodup_cons] at hnd
    obtain ⟨buf1, h1, h2, h3⟩ := bufAdd_spec buf u (S ntr u cells) (hlt u (by simp))
    obtain ⟨buf', h4, h5, h6⟩ := ih buf1 hnd.2 (fun v hv => by rw [h2]; exact hlt v (by simp [hv]))
    refine ⟨buf', ?_, by rw [h5, h2], fun c => ?_⟩
    · simp only [processUnique, summaryStats_cellsOfRow, h1, h4]
    · rw [h6 c, h3 c]
      by_cases hcu : c = u
      · subst hcu; simp [hnd.1]
      · simp [hcu]

theorem cellsOfRow_eq_nil (ntr : List (Nat × Nat)) (c : Nat) (cells : List CellRec)
    (h : c ∉ cells.filterMap (rowOf ntr)) : cellsOfRow ntr c cells = [] := by
  simp only [cellsOfRow, List.filter_eq_nil_iff]
  intro cell hcell hrow
  apply h
  simp only [List.mem_filterMap]
  exact ⟨cell, hcell, by simpa using hrow⟩

theorem processChunk_spec (ntr : List (Nat × Nat)) (buf : Buffer) (cells : List CellRec)
    (hntr : ∀ p ∈ ntr, p.2 < buf.length) :
    ∃ buf', processChunk ntr buf cells = .ok buf' ∧ buf'.length = buf.length ∧
      ∀ c : Nat, buf'[c]? = buf[c]?.map (·.add (S ntr c cells)) := by
  obtain ⟨buf', h1, h2, h3⟩ := processUnique_spec ntr cells
    (uniqueSorted (cells.filterMap (rowOf ntr))) buf (uniqueSorted_nodup _) (by
      intro u hu
      rw [mem_uniqueSorted, List.mem_filterMap] at hu
      obtain ⟨cell, _, hrow⟩ := hu
      exact hntr _ (mem_of_lookup_eq_some hrow))
  refine ⟨buf', h1, h2, fun c => ?_⟩
  rw [h3 c]
  split
  · rfl
  · rename_i hc
    rw [mem_uniqueSorted] at hc
    have : S ntr c cells = Row.empty := by simp [S, cellsOfRow_eq_nil ntr c cells hc]
    rw [this]
    cases buf[c]? <;> simp

theorem processChunks_spec (ntr : List (Nat × Nat)) :
    ∀ (chunks : List Chunk) (buf : Buffer), (∀ p ∈ ntr, p.2 < buf.length) →
      ∃ buf', processChunks ntr buf chunks = .ok buf' ∧ buf'.length = buf.length ∧
        ∀ c : Nat, buf'[c]? = buf[c]?.map (·.add (S ntr c (chunks.flatMap (·.cells)))) := by
  intro chunks
  induction chunks with
  | nil =>
    intro buf _
    refine ⟨buf, rfl, rfl, fun c => ?_⟩
    cases buf[c]? <;> simp [S_nil]
  | cons ch chunks ih =>
    intro buf hntr
    obtain ⟨buf1, h1, h2, h3⟩ := processChunk_spec ntr buf ch.cells hntr
    obtain ⟨buf', h4, h5, h6⟩ := ih buf1 (by rw [h2]; exact hntr)
    refine ⟨buf', by simp only [processChunks, h1, h4], by rw [h5, h2], fun c => ?_⟩
    rw [h6 c, h3 c, List.flatMap_cons, S_append]
    cases buf[c]? <;> simp [Row.add_assoc]

theorem processSpec_spec (nC g : Nat) (ntr : List (Nat × Nat)) (load : List Chunk)
    (hntr : ∀ p ∈ ntr, p.2 < nC) :
    ∃ buf, processSpec nC g ntr load = .ok buf ∧ buf.length = nC ∧
      ∀ c : Nat, c < nC → buf[c]? = some ((Row.zero g).add (S ntr c (load.flatMap (·.cells)))) := by
  obtain ⟨buf, h1, h2, h3⟩ := processChunks_spec ntr load (zeroBuffer nC g)
    (by simpa [zeroBuffer] using hntr)
  refine ⟨buf, h1, by simpa [zeroBuffer] using h2, fun c hc => ?_⟩
  rw [h3 c]
  simp [zeroBuffer, hc]

theorem mapMExcept_ok {α β ε : Type} (f : α → Except ε β) (P : α → β → Prop) :
    ∀ (as : List α), (∀ a ∈ as, ∃ b, f a = .ok b ∧ P a b) →
      ∃ bs, mapMExcept f as = .ok bs ∧ List.Forall₂ P as bs := by
  intro as
  induction as with
  | nil => intro _; exact ⟨[], rfl, List.Forall₂.nil⟩
  | cons a as ih =>
    intro h
    obtain ⟨b, hb, hP⟩ := h a (by simp)
    obtain ⟨bs, hbs, hF⟩ := ih (fun a' ha' => h a' (by simp [ha']))
    exact ⟨b :: bs, by simp only [mapMExcept, hb, hbs], List.Forall₂.cons hP hF⟩

theorem Row.zero_add_add_zero_add (g : Nat) (x y : Row) :
    ((Row.zero g).add x).add ((Row.zero g).add y) = (Row.zero g).add (x.add y) := by
  rw [Row.add_assoc, Row.add_left_comm x, ← Row.add_assoc (Row.zero g) (Row.zero g),
    Row.zero_add_zero]

theorem bufZipAdd_getElem? (a b : Buffer) (c : Nat) (x y : Row) (ha : a[c]? = some x)
    (hb : b[c]? = some y) : (bufZipAdd a b)[c]? = some (x.add y) := by
  simp [bufZipAdd, List.getElem?_zipWith, ha, hb]

theorem foldl_bufZipAdd {α : Type} (nC g : Nat) (X : Nat → α → Row) :
    ∀ (as : List α) (bs : List Buffer),
      List.Forall₂ (fun a b => b.length = nC ∧
        ∀ c : Nat, c < nC → b[c]? = some ((Row.zero g).add (X c a))) as bs →
      ∀ (acc : Buffer) (A : Nat → Row), acc.length = nC →
        (∀ c : Nat, c < nC → acc[c]? = some ((Row.zero g).add (A c))) →
        (bs.foldl bufZipAdd acc).length = nC ∧
        ∀ c : Nat, c < nC → (bs.foldl bufZipAdd acc)[c]?
          = some ((Row.zero g).add ((A c).add (rowSum (as.map (X c))))) := by
  intro as bs hF
  induction hF with
  | nil =>
    intro acc A hlen hacc
    exact ⟨hlen, fun c hc => by simp [hacc c hc]⟩
  | @cons a b as bs hab _ ih =>
    intro acc A hlen hacc
    have hlen' : (bufZipAdd acc b).length = nC := by
      simp [bufZipAdd, hlen, hab.1]
    obtain ⟨h1, h2⟩ := ih (bufZipAdd acc b) (fun c => (A c).add (X c a)) hlen' (fun c hc => by
      rw [bufZipAdd_getElem? acc b c _ _ (hacc c hc) (hab.2 c hc), Row.zero_add_add_zero_add])
    refine ⟨h1, fun c hc => ?_⟩
    simp only [List.foldl_cons, List.map_cons, rowSum_cons]
    rw [h2 c hc, Row.add_assoc]

theorem S_flatten (ntr : List (Nat × Nat)) (c : Nat) (ls : List (List Chunk)) :
    rowSum (ls.map (fun l => S ntr c (l.flatMap (·.cells))))
      = S ntr c (ls.flatten.flatMap (·.cells)) := by
  induction ls with
  | nil => rfl
  | cons l ls ih => simp [List.flatMap_append, S_append, ih]

theorem allChunks_cells (rows : Nat) (files : List (Nat × List CellRec)) (hrows : 1 ≤ rows) :
    (files.flatMap (fun f => fileChunks rows f.1 f.2)).flatMap (·.cells)
      = files.flatMap (·.2) := by
  induction files with
  | nil => rfl
  | cons f files ih =>
    simp only [List.flatMap_cons, List.flatMap_append, ih, fileChunks_cells _ _ _ hrows]

theorem cellsOfRow_filter_wanted (ntr : List (Nat × Nat)) (c : Nat)
    (files : List (Nat × List CellRec)) :
    cellsOfRow ntr c ((files.filter (fun f => wanted ntr f.2)).flatMap (·.2))
      = cellsOfRow ntr c (files.flatMap (·.2)) := by
  induction files with
  | nil => rfl
  | cons f files ih =>
    simp only [cellsOfRow] at ih
    by_cases hw : wanted ntr f.2 = true
    · simp only [List.filter_cons, hw, if_true, List.flatMap_cons, cellsOfRow,
        List.filter_append, ih]
    · simp only [List.filter_cons, hw, if_false, List.flatMap_cons, cellsOfRow,
        List.filter_append, ih, Bool.false_eq_true]
      have : f.2.filter (fun cell => rowOf ntr cell == some c) = [] := by
        rw [List.filter_eq_nil_iff]
        intro cell hcell hrow
        apply hw
        simp only [wanted, List.any_eq_true]
        refine ⟨cell, hcell, ?_⟩
        have : rowOf ntr cell = some c := by simpa using hrow
        simp [this]
      rw [this, List.nil_append]

theorem precompute_spec (nC g : Nat) (ntr : List (Nat × Nat))
    (files : List (Nat × List CellRec)) (rows nProc : Nat)
    (hrows : 1 ≤ rows) (hproc : 1 ≤ nProc) (hntr : ∀ p ∈ ntr, p.2 < nC)
    (hw : ∃ f ∈ files, wanted ntr f.2 = true) :
    ∃ buf, precompute nC g ntr files rows nProc = .ok buf ∧ buf.length = nC ∧
      ∀ c : Nat, c < nC → buf[c]? = some ((Row.zero g).add (S ntr c (files.flatMap (·.2)))) := by
  obtain ⟨loads, hloads⟩ := workSplit_ok (files.filter (fun f => wanted ntr f.2)) rows nProc hrows hproc
  obtain ⟨hflat, _, _⟩ := workSplit_spec _ _ _ _ hloads
  obtain ⟨bufs, hbufs, hF⟩ := mapMExcept_ok (processSpec nC g ntr)
    (fun (l : List Chunk) (b : Buffer) => b.length = nC ∧
      ∀ c : Nat, c < nC → b[c]? = some ((Row.zero g).add (S ntr c (l.flatMap (·.cells))))) loads
    (fun l _ => by
      obtain ⟨b, h1, h2, h3⟩ := processSpec_spec nC g ntr l hntr
      exact ⟨b, h1, h2, h3⟩)
  have hloads_ne : loads ≠ [] := by
    intro hnil
    subst hnil
    obtain ⟨f, hf, hwf⟩ := hw
    have hmem : f ∈ files.filter (fun f => wanted ntr f.2) := by
      simp [List.mem_filter, hf, hwf]
    have hcells : f.2 ≠ [] := by
      intro h; simp [wanted, h] at hwf
    have hch : fileChunks rows f.1 f.2 ≠ [] := by
      intro h
      have := fileChunks_cells rows f.1 f.2 hrows
      rw [h] at this
      exact hcells this.symm
    obtain ⟨ch, hch'⟩ := List.exists_mem_of_ne_nil _ hch
    have : ch ∈ ([] : List (List Chunk)).flatten := by
      rw [hflat, List.mem_flatMap]; exact ⟨f, hmem, hch'⟩
    simp at this
  have hbufs_ne : bufs ≠ [] := by
    intro h; subst h
    cases hF
    exact hloads_ne rfl
  obtain ⟨h1, h2⟩ := foldl_bufZipAdd nC g (fun c (l : List Chunk) => S ntr c (l.flatMap (·.cells)))
    loads bufs hF (zeroBuffer nC g) (fun _ => Row.empty) (by simp [zeroBuffer])
    (fun c hc => by simp [zeroBuffer, hc])
  refine ⟨bufs.foldl bufZipAdd (zeroBuffer nC g), ?_, h1, fun c hc => ?_⟩
  · simp only [precompute, hloads, hbufs]
    cases bufs with
    | nil => exact absurd rfl hbufs_ne
    | cons b bs => simp [mergeBuffers]
  · rw [h2 c hc, Row.empty_add, S_flatten, hflat, allChunks_cells _ _ hrows]
    simp only [S, cellsOfRow_filter_wanted]

theorem rowSum_cellStat_n (L : List CellRec) :
    (rowSum (L.map (fun cell => cellStat cell.vals))).n = L.length := by
  induction L with
  | nil => rfl
  | cons c L ih =>
    simp only [List.map_cons, rowSum_cons, Row.add, List.length_cons, ih]
    simp only [cellStat]; omega

theorem filter_row_of_filter_lab (ntr : List (Nat × Nat)) (c : Nat) (cells : List CellRec) :
    (cells.filter (fun cell => (rowOf ntr cell).isSome)).filter
        (fun cell => rowOf ntr cell == some c)
      = cells.filter (fun cell => rowOf ntr cell == some c) := by
  rw [List.filter_filter]
  apply List.filter_congr
  intro cell _
  cases h : rowOf ntr cell <;> simp

theorem S_perm_of_lab (ntr : List (Nat × Nat)) (c : Nat) (A B : List CellRec)
    (h : (A.filter (fun cell => (rowOf ntr cell).isSome)).Perm
      (B.filter (fun cell => (rowOf ntr cell).isSome))) : S ntr c A = S ntr c B := by
  simp only [S, cellsOfRow]
  rw [← filter_row_of_filter_lab ntr c A, ← filter_row_of_filter_lab ntr c B]
  exact rowSum_perm ((h.filter _).map _)


/-! ### `truncate_precomputed_stats_file` -/

/-- one step of the grouping loop of `groupByAnc` -/
def gstep (acc : List (Nat × List Nat)) (p : Nat × Nat) : List (Nat × List Nat) :=
  if acc.any (fun q => q.1 == p.2) then
    acc.map (fun q => if q.1 == p.2 then (q.1, q.2 ++ [p.1]) else q)
  else acc ++ [(p.2, [p.1])]

theorem groupByAnc_eq (anc : List (Nat × Nat)) : groupByAnc anc = anc.foldl gstep [] := rfl

/-- invariant of the grouping loop after the prefix `pre` -/
structure GInv (pre : List (Nat × Nat)) (acc : List (Nat × List Nat)) : Prop where
  nodup : (acc.map (·.1)).Nodup
  vals : ∀ q ∈ acc, q.2 = (pre.filter (fun p => p.2 == q.1)).map (·.1)
  keys : ∀ L, L ∈ acc.map (·.1) ↔ L ∈ pre.map (·.2)

theorem gstep_inv (pre : List (Nat × Nat)) (acc : List (Nat × List Nat)) (p : Nat × Nat)
    (inv : GInv pre acc) : GInv (pre ++ [p]) (gstep acc p) := by
  by_cases hany : acc.any (fun q => q.1 == p.2) = true
  · have hkeys : (acc.map (fun q => if q.1 == p.2 then (q.1, q.2 ++ [p.1]) else q)).map (·.1)
        = acc.map (·.1) := by
      rw [List.map_map]
      apply List.map_congr_left
      intro q _
      simp only [Function.comp]
      split <;> rfl
    have hmem : p.2 ∈ acc.map (·.1) := by
      simp only [List.any_eq_true] at hany
      obtain ⟨q, hq, hqk⟩ := hany
      simp only [List.mem_map]
      exact ⟨q, hq, by simpa using hqk⟩
    simp only [gstep, hany, if_true]
    refine ⟨by rw [hkeys]; exact inv.nodup, ?_, ?_⟩
    · intro q' hq'
      simp only [List.mem_map] at hq'
      obtain ⟨q, hq, rfl⟩ := hq'
      by_cases hqk : q.1 = p.2
      · have e : (if q.1 == p.2 then (q.1, q.2 ++ [p.1]) else q) = (q.1, q.2 ++ [p.1]) := by
          simp [hqk]
        have e2 : [p].filter (fun p' => p'.2 == q.1) = [p] := by simp [hqk]
        rw [e]
        show q.2 ++ [p.1] = _
        rw [List.filter_append, List.map_append, ← inv.vals q hq, e2]
        rfl
      · have e : (if q.1 == p.2 then (q.1, q.2 ++ [p.1]) else q) = q := by
          simp [hqk]
        have e2 : [p].filter (fun p' => p'.2 == q.1) = [] := by
          simp; exact fun h => hqk h.symm
        rw [e, List.filter_append, List.map_append, ← inv.vals q hq, e2]
        simp
    · intro L
      rw [hkeys, inv.keys L]
      simp only [List.map_append, List.mem_append, List.map_cons, List.map_nil, List.mem_singleton]
      constructor
      · intro h; exact Or.inl h
      · rintro (h | h)
        · exact h
        · subst h; exact (inv.keys _).mp hmem
  · have hnot : p.2 ∉ acc.map (·.1) := by
      intro h
      apply hany
      simp only [List.mem_map] at h
      obtain ⟨q, hq, hqk⟩ := h
      simp only [List.any_eq_true]
      exact ⟨q, hq, by simpa using hqk⟩
    simp only [gstep, hany, if_false, Bool.false_eq_true]
    refine ⟨?_, ?_, ?_⟩
    · rw [List.map_append, List.nodup_append]
      refine ⟨inv.nodup, by simp, ?_⟩
      intro a ha b hb
      simp only [List.map_cons, List.map_nil, List.mem_singleton] at hb
      subst hb
      intro hab; subst hab; exact hnot ha
    · intro q hq
      simp only [List.mem_append, List.mem_singleton] at hq
      rcases hq with hq | rfl
      · have hne : q.1 ≠ p.2 := by
          intro h; apply hnot; rw [← h]; exact List.mem_map_of_mem hq
        have e2 : [p].filter (fun p' => p'.2 == q.1) = [] := by
          simp; exact fun h => hne h.symm
        rw [List.filter_append, List.map_append, ← inv.vals q hq, e2]
        simp
      · have : pre.filter (fun p' => p'.2 == p.2) = [] := by
          rw [List.filter_eq_nil_iff]
          intro p' hp' hpp
          apply hnot
          rw [inv.keys]
          simp only [List.mem_map]
          exact ⟨p', hp', by simpa using hpp⟩
        simp [List.filter_append, this]
    · intro L
      simp only [List.map_append, List.mem_append, inv.keys L, List.map_cons, List.map_nil,
        List.mem_singleton]

theorem foldl_gstep_inv : ∀ (rest pre : List (Nat × Nat)) (acc : List (Nat × List Nat)),
    GInv pre acc → GInv (pre ++ rest) (rest.foldl gstep acc) := by
  intro rest
  induction rest with
  | nil => intro pre acc h; simpa using h
  | cons p rest ih =>
    intro pre acc h
    have := ih (pre ++ [p]) (gstep acc p) (gstep_inv pre acc p h)
    simpa using this

theorem groupByAnc_inv (anc : List (Nat × Nat)) : GInv anc (groupByAnc anc) := by
  have := foldl_gstep_inv anc [] [] ⟨by simp, by simp, by simp⟩
  simpa [groupByAnc_eq] using this

theorem indexIn_getElem? : ∀ (xs : List Nat) (x i : Nat), indexIn xs x = some i → xs[i]? = some x := by
  intro xs
  induction xs with
  | nil => intro x i h; simp [indexIn] at h
  | cons y ys ih =>
    intro x i h
    simp only [indexIn] at h
    by_cases hxy : x = y
    · simp only [hxy, if_true, Option.some.injEq] at h
      subst h; simp [hxy]
    · simp only [hxy, if_false, Option.map_eq_some_iff] at h
      obtain ⟨j, hj, rfl⟩ := h
      simpa using ih x j hj

theorem indexIn_of_mem : ∀ (xs : List Nat) (x : Nat), x ∈ xs → ∃ i, indexIn xs x = some i := by
  intro xs
  induction xs with
  | nil => intro x h; simp at h
  | cons y ys ih =>
    intro x h
    simp only [indexIn]
    by_cases hxy : x = y
    · exact ⟨0, by simp [hxy]⟩
    · simp only [List.mem_cons, hxy, false_or] at h
      obtain ⟨j, hj⟩ := ih x h
      exact ⟨j + 1, by simp [hxy, hj]⟩

theorem setRow_spec : ∀ (buf : Buffer) (u : Nat) (r : Row), u < buf.length →
    ∃ buf', setRow buf u r = some buf' ∧ buf'.length = buf.length ∧
      ∀ c : Nat, buf'[c]? = if c = u then some r else buf[c]? := by
  intro buf
  induction buf with
  | nil => intro u r h; simp at h
  | cons b bs ih =>
    intro u r h
    cases u with
    | zero =>
      refine ⟨r :: bs, rfl, rfl, fun c => ?_⟩
      cases c <;> simp
    | succ u =>
      obtain ⟨bs', h1, h2, h3⟩ := ih u r (by simpa using h)
      refine ⟨b :: bs', by simp [setRow, h1], by simp [h2], fun c => ?_⟩
      cases c with
      | zero => simp
      | succ c => simp [h3 c]

theorem lookupAll_eq (m : List (Nat × Nat)) : ∀ (ks : List Nat),
    (∀ k ∈ ks, ∃ v, m.lookup k = some v) →
      lookupAll m ks = some (ks.filterMap (fun k => m.lookup k)) := by
  intro ks
  induction ks with
  | nil => intro _; rfl
  | cons k ks ih =>
    intro h
    obtain ⟨v, hv⟩ := h k (by simp)
    have := ih (fun k' hk' => h k' (by simp [hk']))
    simp [lookupAll, hv, this]

theorem getRows_eq (data : Buffer) : ∀ (is : List Nat), (∀ i ∈ is, i < data.length) →
    getRows data is = some (is.filterMap (fun i => data[i]?)) := by
  intro is
  induction is with
  | nil => intro _; rfl
  | cons i is ih =>
    intro h
    have hi : i < data.length := h i (by simp)
    have := ih (fun k' hk' => h k' (by simp [hk']))
    simp [getRows, this, hi]

/-- the new row built from the old leaves `olds`: their rows (through
`cluster_to_row`), sorted ascending, read from the old arrays and summed -/
def newRow (data : Buffer) (oldLeafToRow : List (Nat × Nat)) (olds : List Nat) : Row :=
  rowSum (((olds.filterMap (fun k => oldLeafToRow.lookup k)).mergeSort).filterMap
    (fun r => data[r]?))

theorem go_spec (data : Buffer) (oltr : List (Nat × Nat)) (newLeaves : List Nat) :
    ∀ (groups : List (Nat × List Nat)) (acc : Buffer),
      (groups.map (·.1)).Nodup →
      (∀ q ∈ groups, q.1 ∈ newLeaves ∧
        ∀ k ∈ q.2, ∃ v, oltr.lookup k = some v ∧ v < data.length) →
      acc.length = newLeaves.length →
      ∃ out, convertToNewLeaves.go data oltr newLeaves groups acc = .ok out ∧
        out.length = newLeaves.length ∧
        ∀ (L i : Nat), indexIn newLeaves L = some i →
          (∀ q ∈ groups, q.1 = L → out[i]? = some (newRow data oltr q.2)) ∧
          (L ∉ groups.map (·.1) → out[i]? = acc[i]?) := by
  intro groups
  induction groups with
  | nil =>
    intro acc _ _ hlen
    exact ⟨acc, rfl, hlen, fun L i _ => ⟨by simp, fun _ => rfl⟩⟩
  | cons q rest ih =>
    intro acc hnd hq hlen
    obtain ⟨nl, olds⟩ := q
    simp only [List.map_cons, List.nodup_cons] at hnd
    obtain ⟨hmem, hlook⟩ := hq (nl, olds) (by simp)
    obtain ⟨dst, hdst⟩ := indexIn_of_mem newLeaves nl hmem
    have hdst' := indexIn_getElem? newLeaves nl dst hdst
    have hdlt : dst < newLeaves.length := by
      by_contra hn
      rw [List.getElem?_eq_none (by omega)] at hdst'
      exact absurd hdst' (by simp)
    have hla := lookupAll_eq oltr olds (fun k hk => by
      obtain ⟨v, hv, _⟩ := hlook k hk; exact ⟨v, hv⟩)
    have hgr := getRows_eq data
      (convertToNewLeaves.uniqueSortedDup (olds.filterMap (fun k => oltr.lookup k))) (by
        intro r hr
        simp only [convertToNewLeaves.uniqueSortedDup, List.mem_mergeSort, List.mem_filterMap] at hr
        obtain ⟨k, hk, hkr⟩ := hr
        obtain ⟨v, hv, hvlt⟩ := hlook k hk
        rw [hv] at hkr
        simp only [Option.some.injEq] at hkr
        omega)
    obtain ⟨acc', h1, h2, h3⟩ := setRow_spec acc dst (newRow data oltr olds) (by omega)
    obtain ⟨out, h4, h5, h6⟩ := ih acc' hnd.2
      (fun q' hq' => hq q' (by simp [hq'])) (by rw [h2, hlen])
    refine ⟨out, ?_, h5, fun L i hi => ?_⟩
    · simp only [convertToNewLeaves.go, hdst, hla, hgr]
      simp only [convertToNewLeaves.uniqueSortedDup] at h1 ⊢
      simp only [newRow] at h1
      simp only [h1, h4]
    · obtain ⟨h7, h8⟩ := h6 L i hi
      have hi' := indexIn_getElem? newLeaves L i hi
      constructor
      · intro q' hq' hq'L
        simp only [List.mem_cons] at hq'
        rcases hq' with rfl | hq'
        · simp only at hq'L
          subst hq'L
          have hid : i = dst := by
            rw [hdst] at hi; simpa using hi.symm
          rw [h8 hnd.1, h3 i, if_pos hid]
        · exact h7 q' hq' hq'L
      · intro hL
        simp only [List.map_cons, List.mem_cons, not_or] at hL
        have hid : i ≠ dst := by
          intro h; subst h
          rw [hdst'] at hi'
          simp only [Option.some.injEq] at hi'
          exact hL.1 hi'.symm
        rw [h8 hL.2, h3 i, if_neg hid]

theorem truncate_spec (g : Nat) (data : Buffer) (oltr : List (Nat × Nat)) (newLeaves : List Nat)
    (anc : List (Nat × Nat))
    (hlook : ∀ p ∈ anc, ∃ r, oltr.lookup p.1 = some r ∧ r < data.length)
    (hanc : ∀ p ∈ anc, p.2 ∈ newLeaves) :
    ∃ out, truncate g data oltr newLeaves anc = .ok out ∧ out.length = newLeaves.length ∧
      ∀ (L i : Nat), indexIn newLeaves L = some i →
        out[i]? = some (if anc.filter (fun p => p.2 == L) = [] then Row.zero g
          else newRow data oltr ((anc.filter (fun p => p.2 == L)).map (·.1))) := by
  have inv := groupByAnc_inv anc
  obtain ⟨out, h1, h2, h3⟩ := go_spec data oltr newLeaves (groupByAnc anc)
    (zeroBuffer newLeaves.length g) inv.nodup (by
      intro q hq
      constructor
      · have : q.1 ∈ anc.map (·.2) := (inv.keys q.1).mp (List.mem_map_of_mem hq)
        simp only [List.mem_map] at this
        obtain ⟨p, hp, hpq⟩ := this
        rw [← hpq]; exact hanc p hp
      · intro k hk
        rw [inv.vals q hq] at hk
        simp only [List.mem_map, List.mem_filter] at hk
        obtain ⟨p, ⟨hp, _⟩, rfl⟩ := hk
        exact hlook p hp) (by simp [zeroBuffer])
  refine ⟨out, h1, h2, fun L i hi => ?_⟩
  obtain ⟨h4, h5⟩ := h3 L i hi
  have hilt : i < newLeaves.length := by
    have := indexIn_getElem? newLeaves L i hi
    by_contra hn
    rw [List.getElem?_eq_none (by omega)] at this
    exact absurd this (by simp)
  by_cases hL : L ∈ (groupByAnc anc).map (·.1)
  · have hne : anc.filter (fun p => p.2 == L) ≠ [] := by
      rw [inv.keys] at hL
      simp only [List.mem_map] at hL
      obtain ⟨p, hp, hpL⟩ := hL
      intro h
      rw [List.filter_eq_nil_iff] at h
      exact h p hp (by simpa using hpL)
    simp only [List.mem_map] at hL
    obtain ⟨q, hq, hqL⟩ := hL
    rw [h4 q hq hqL, if_neg hne, inv.vals q hq, hqL]
  · have he : anc.filter (fun p => p.2 == L) = [] := by
      rw [List.filter_eq_nil_iff]
      intro p hp hpL
      apply hL
      rw [inv.keys]
      simp only [List.mem_map]
      exact ⟨p, hp, by simpa using hpL⟩
    rw [h5 hL, if_pos he]
    simp [zeroBuffer, hilt]

theorem rowSum_map_zero_add (g : Nat) {α : Type} (F : α → Row) :
    ∀ (L : List α), L ≠ [] →
      rowSum (L.map (fun x => (Row.zero g).add (F x))) = (Row.zero g).add (rowSum (L.map F)) := by
  intro L
  induction L with
  | nil => intro h; exact absurd rfl h
  | cons x L ih =>
    intro _
    by_cases hL : L = []
    · subst hL; simp
    · simp only [List.map_cons, rowSum_cons, ih hL, Row.zero_add_add_zero_add]

theorem filterMap_eq_map_of_forall {α β : Type} (f : α → Option β) (h : α → β) :
    ∀ (l : List α), (∀ x ∈ l, f x = some (h x)) → l.filterMap f = l.map h := by
  intro l
  induction l with
  | nil => intro _; rfl
  | cons x l ih =>
    intro hx
    rw [List.filterMap_cons, hx x (by simp), ih (fun y hy => hx y (by simp [hy]))]
    rfl

theorem newRow_direct (g : Nat) (data : Buffer) (oltr : List (Nat × Nat)) (olds : List Nat)
    (Sl : Nat → List Row) (hne : olds ≠ [])
    (hdata : ∀ k ∈ olds, ∃ r, oltr.lookup k = some r ∧
      data[r]? = some ((Row.zero g).add (rowSum (Sl k)))) :
    newRow data oltr olds = (Row.zero g).add (rowSum ((olds.map Sl).flatten)) := by
  have hperm : (((olds.filterMap (fun k => oltr.lookup k)).mergeSort).filterMap
      (fun r => data[r]?)).Perm
      ((olds.filterMap (fun k => oltr.lookup k)).filterMap (fun r => data[r]?)) :=
    (List.mergeSort_perm _ _).filterMap _
  rw [newRow, rowSum_perm hperm, List.filterMap_filterMap,
    filterMap_eq_map_of_forall _ (fun k => (Row.zero g).add (rowSum (Sl k))) olds (by
      intro k hk
      obtain ⟨r, h1, h2⟩ := hdata k hk
      simp [h1, h2]),
    rowSum_map_zero_add g (fun k => rowSum (Sl k)) olds hne, rowSum_flatten, List.map_map]
  rfl

theorem truncate_direct_spec (g : Nat) (data : Buffer) (oltr : List (Nat × Nat))
    (newLeaves : List Nat) (anc : List (Nat × Nat)) (Sl : Nat → List Row)
    (hlook : ∀ p ∈ anc, ∃ r, oltr.lookup p.1 = some r ∧ r < data.length ∧
      data[r]? = some ((Row.zero g).add (rowSum (Sl p.1))))
    (hanc : ∀ p ∈ anc, p.2 ∈ newLeaves) :
    ∃ out, truncate g data oltr newLeaves anc = .ok out ∧ out.length = newLeaves.length ∧
      ∀ (L i : Nat), indexIn newLeaves L = some i →
        out[i]? = some ((Row.zero g).add (rowSum
          (((anc.filter (fun p => p.2 == L)).map (fun p => Sl p.1)).flatten))) := by
  obtain ⟨out, h1, h2, h3⟩ := truncate_spec g data oltr newLeaves anc
    (fun p hp => by obtain ⟨r, a, b, _⟩ := hlook p hp; exact ⟨r, a, b⟩) hanc
  refine ⟨out, h1, h2, fun L i hi => ?_⟩
  rw [h3 L i hi]
  by_cases he : anc.filter (fun p => p.2 == L) = []
  · simp [he]
  · rw [if_neg he, newRow_direct g data oltr _ Sl (by simpa using he) (by
      intro k hk
      simp only [List.mem_map, List.mem_filter] at hk
      obtain ⟨p, ⟨hp, _⟩, rfl⟩ := hk
      obtain ⟨r, a, _, c⟩ := hlook p hp
      exact ⟨r, a, c⟩), List.map_map]
    rfl


/-! ### collapse of a directly computed file = direct computation with the coarser labelling -/

theorem filter_or_perm {α : Type} (P Q : α → Bool) : ∀ (l : List α),
    (∀ x ∈ l, P x = true → Q x = false) →
      (l.filter P ++ l.filter Q).Perm (l.filter (fun x => P x || Q x)) := by
  intro l
  induction l with
  | nil => intro _; exact List.Perm.refl _
  | cons x l ih =>
    intro h
    have ih' := ih (fun y hy => h y (by simp [hy]))
    cases hP : P x
    · cases hQ : Q x
      · simpa [List.filter_cons, hP, hQ] using ih'
      · simp only [List.filter_cons, hP, hQ, Bool.false_eq_true, if_false, if_true, Bool.or_true]
        exact List.perm_middle.trans (List.Perm.cons x ih')
    · have hQ : Q x = false := h x (by simp) hP
      simp only [List.filter_cons, hP, hQ, Bool.false_eq_true, if_false, if_true, Bool.or_false,
        List.cons_append]
      exact List.Perm.cons x ih'

theorem flatten_filter_perm {α β : Type} (cells : List α) (key : α → Option Nat) (rowf : β → Nat) :
    ∀ (ps : List β), (ps.map rowf).Nodup →
      ((ps.map (fun p => cells.filter (fun c => key c == some (rowf p)))).flatten).Perm
        (cells.filter (fun c => ps.any (fun p => key c == some (rowf p)))) := by
  intro ps
  induction ps with
  | nil => intro _; simp
  | cons p ps ih =>
    intro hnd
    rw [List.map_cons, List.nodup_cons] at hnd
    simp only [List.map_cons, List.flatten_cons, List.any_cons]
    refine ((List.Perm.refl _).append (ih hnd.2)).trans (filter_or_perm _ _ cells ?_)
    intro c _ hc
    have hc' : key c = some (rowf p) := by simpa using hc
    rw [Bool.eq_false_iff]
    intro hany
    simp only [List.any_eq_true] at hany
    obtain ⟨q, hq, hcq⟩ := hany
    rw [hc'] at hcq
    have : rowf p = rowf q := by simpa using hcq
    exact hnd.1 (this ▸ List.mem_map_of_mem hq)

theorem indexIn_of_nodup : ∀ (xs : List Nat), xs.Nodup → ∀ (i : Nat) (h : i < xs.length),
    indexIn xs xs[i] = some i := by
  intro xs
  induction xs with
  | nil => intro _ i h; simp at h
  | cons y ys ih =>
    intro hnd i h
    rw [List.nodup_cons] at hnd
    cases i with
    | zero => simp [indexIn]
    | succ i =>
      have hi : i < ys.length := by simpa using h
      have hne : ys[i] ≠ y := by
        intro he; exact hnd.1 (he ▸ List.getElem_mem hi)
      simp [indexIn, hne, ih hnd.2 i hi]

theorem truncate_precompute_spec (nC g : Nat) (ntr ntr' : List (Nat × Nat))
    (files : List (Nat × List CellRec)) (rows nProc rows' nProc' : Nat)
    (oltr : List (Nat × Nat)) (newLeaves : List Nat) (anc : List (Nat × Nat))
    (hrows : 1 ≤ rows) (hproc : 1 ≤ nProc) (hrows' : 1 ≤ rows') (hproc' : 1 ≤ nProc')
    (hntr : ∀ p ∈ ntr, p.2 < nC) (hw : ∃ f ∈ files, wanted ntr f.2 = true)
    (hntr' : ∀ p ∈ ntr', p.2 < newLeaves.length) (hw' : ∃ f ∈ files, wanted ntr' f.2 = true)
    (hnd : newLeaves.Nodup) (hkeys : (anc.map (·.1)).Nodup)
    (hlook : ∀ p ∈ anc, ∃ r, oltr.lookup p.1 = some r ∧ r < nC)
    (hinj : ∀ p ∈ anc, ∀ q ∈ anc, oltr.lookup p.1 = oltr.lookup q.1 → p.1 = q.1)
    (hanc : ∀ p ∈ anc, p.2 ∈ newLeaves)
    (hnew : ∀ (cell : CellRec) (i : Nat), rowOf ntr' cell = some i ↔
      ∃ p ∈ anc, ∃ r, oltr.lookup p.1 = some r ∧ rowOf ntr cell = some r ∧
        indexIn newLeaves p.2 = some i) :
    ∃ buf, precompute nC g ntr files rows nProc = .ok buf ∧
      truncate g buf oltr newLeaves anc
        = precompute newLeaves.length g ntr' files rows' nProc' := by
  obtain ⟨buf, e, hl, hr⟩ := precompute_spec nC g ntr files rows nProc hrows hproc hntr hw
  obtain ⟨buf', e', hl', hr'⟩ :=
    precompute_spec newLeaves.length g ntr' files rows' nProc' hrows' hproc' hntr' hw'
  let cells := files.flatMap (·.2)
  let rowf : Nat × Nat → Nat := fun p => (oltr.lookup p.1).getD 0
  obtain ⟨out, t1, t2, t3⟩ := truncate_direct_spec g buf oltr newLeaves anc
    (fun l => (cellsOfRow ntr ((oltr.lookup l).getD 0) cells).map (fun cell => cellStat cell.vals))
    (by
      intro p hp
      obtain ⟨r, h1, h2⟩ := hlook p hp
      refine ⟨r, h1, by omega, ?_⟩
      rw [hr r h2, h1]; rfl) hanc
  refine ⟨buf, e, ?_⟩
  rw [t1, e']
  congr 1
  apply List.ext_getElem?
  intro i
  by_cases hi : i < newLeaves.length
  · have hidx := indexIn_of_nodup newLeaves hnd i hi
    rw [t3 _ i hidx, hr' i hi]
    congr 2
    have hmf : ∀ (ps : List (Nat × Nat)),
        (ps.map (fun p => (cellsOfRow ntr ((oltr.lookup p.1).getD 0) cells).map
            (fun cell => cellStat cell.vals))).flatten
          = ((ps.map (fun p => cells.filter (fun c => rowOf ntr c == some (rowf p)))).flatten).map
              (fun cell => cellStat cell.vals) := by
      intro ps
      rw [List.map_flatten, List.map_map]
      rfl
    rw [hmf]
    have hsub : (anc.filter (fun p => p.2 == newLeaves[i])).Sublist anc := List.filter_sublist
    have hnd2 : ((anc.filter (fun p => p.2 == newLeaves[i])).map rowf).Nodup := by
      have h1 : ((anc.filter (fun p => p.2 == newLeaves[i])).map (·.1)).Nodup :=
        hkeys.sublist (hsub.map _)
      have : (anc.filter (fun p => p.2 == newLeaves[i])).map rowf
          = ((anc.filter (fun p => p.2 == newLeaves[i])).map (·.1)).map
              (fun l => (oltr.lookup l).getD 0) := by
        rw [List.map_map]; rfl
      rw [this]
      apply List.Nodup.map_on _ h1
      intro a ha b hb hab
      simp only [List.mem_map] at ha hb
      obtain ⟨p, hp, rfl⟩ := ha
      obtain ⟨q, hq, rfl⟩ := hb
      have hp' := hsub.subset hp
      have hq' := hsub.subset hq
      obtain ⟨r1, h1, _⟩ := hlook p hp'
      obtain ⟨r2, h2, _⟩ := hlook q hq'
      apply hinj p hp' q hq'
      rw [h1, h2] at hab ⊢
      simpa using hab
    rw [rowSum_perm ((flatten_filter_perm cells (rowOf ntr) rowf _ hnd2).map _)]
    simp only [S, cellsOfRow]
    congr 2
    apply List.filter_congr
    intro cell _
    rw [Bool.eq_iff_iff]
    simp only [List.any_eq_true, List.mem_filter, beq_iff_eq]
    rw [hnew cell i]
    constructor
    · rintro ⟨p, ⟨hp, hpL⟩, hrow⟩
      obtain ⟨r, h1, _⟩ := hlook p hp
      refine ⟨p, hp, r, h1, ?_, ?_⟩
      · rw [hrow]; simp [rowf, h1]
      · rw [hpL]; exact hidx
    · rintro ⟨p, hp, r, h1, hrow, hpi⟩
      refine ⟨p, ⟨hp, ?_⟩, ?_⟩
      · have := indexIn_getElem? newLeaves p.2 i hpi
        rw [List.getElem?_eq_getElem hi] at this
        simpa using this.symm
      · rw [hrow]; simp [rowf, h1]
  · rw [List.getElem?_eq_none (by omega), List.getElem?_eq_none (by omega)]

/-! ### the written row, field by field -/

theorem precompute_fields (nC g : Nat) (ntr : List (Nat × Nat))
    (files : List (Nat × List CellRec)) (rows nProc : Nat)
    (hrows : 1 ≤ rows) (hproc : 1 ≤ nProc) (hntr : ∀ p ∈ ntr, p.2 < nC)
    (hw : ∃ f ∈ files, wanted ntr f.2 = true)
    (hg : ∀ f ∈ files, ∀ cell ∈ f.2, cell.vals.length = g) :
    ∃ buf, precompute nC g ntr files rows nProc = .ok buf ∧
      ∀ (c j : Nat), c < nC → j < g → ∃ (row : Row) (s : GStat),
        buf[c]? = some row ∧ row.genes[j]? = some s ∧
        row.n = (cellsOfRow ntr c (files.flatMap (·.2))).length ∧
        s.sum = ((cellsOfRow ntr c (files.flatMap (·.2))).map
          (fun cell => cell.vals.getD j 0)).sum ∧
        s.sumsq = ((cellsOfRow ntr c (files.flatMap (·.2))).map
          (fun cell => cell.vals.getD j 0 * cell.vals.getD j 0)).sum ∧
        s.gt0 = ((cellsOfRow ntr c (files.flatMap (·.2))).map
          (fun cell => (geneStat (cell.vals.getD j 0)).gt0)).sum ∧
        s.gt1 = ((cellsOfRow ntr c (files.flatMap (·.2))).map
          (fun cell => (geneStat (cell.vals.getD j 0)).gt1)).sum ∧
        s.ge1 = ((cellsOfRow ntr c (files.flatMap (·.2))).map
          (fun cell => (geneStat (cell.vals.getD j 0)).ge1)).sum := by
  obtain ⟨buf, e, _, r⟩ := precompute_spec nC g ntr files rows nProc hrows hproc hntr hw
  refine ⟨buf, e, fun c j hc hj => ?_⟩
  have hS : S ntr c (files.flatMap (·.2))
      = summaryStats ((cellsOfRow ntr c (files.flatMap (·.2))).map (·.vals)) :=
    (summaryStats_cellsOfRow ntr c _).symm
  have hlen : ∀ v ∈ (cellsOfRow ntr c (files.flatMap (·.2))).map (·.vals), v.length = g := by
    intro v hv
    simp only [List.mem_map, cellsOfRow, List.mem_filter, List.mem_flatMap] at hv
    obtain ⟨cell, ⟨⟨f, hf, hcell⟩, _⟩, rfl⟩ := hv
    exact hg f hf cell hcell
  have hf := colStat_fields ((cellsOfRow ntr c (files.flatMap (·.2))).map (·.vals)) j
  simp only [List.map_map, Function.comp_def] at hf
  refine ⟨_, colStat ((cellsOfRow ntr c (files.flatMap (·.2))).map (·.vals)) j, r c hc, ?_, ?_, hf⟩
  · rw [hS]; exact zero_add_summaryStats_genes g _ hlen j hj
  · rw [hS]; simp [Row.add, Row.zero, summaryStats_n]

theorem precompute_no_wanted (nC g : Nat) (ntr : List (Nat × Nat))
    (files : List (Nat × List CellRec)) (rows nProc : Nat) (hproc : 1 ≤ nProc)
    (hw : ∀ f ∈ files, wanted ntr f.2 = false) :
    precompute nC g ntr files rows nProc = .error .noBuffers := by
  have hf : files.filter (fun f => wanted ntr f.2) = [] := by
    rw [List.filter_eq_nil_iff]
    intro f hf; simp [hw f hf]
  have h1 : ¬ nProc = 0 := by omega
  simp [precompute, hf, workSplit, h1, splitLoop, mapMExcept, mergeBuffers]


/-! ### the front end `cell name → output row` -/

theorem indexIn_lt (xs : List Nat) (x i : Nat) (h : indexIn xs x = some i) : i < xs.length := by
  have := indexIn_getElem? xs x i h
  by_contra hn
  rw [List.getElem?_eq_none (by omega)] at this
  exact absurd this (by simp)

theorem lookup_cons_eq (k' a b : Nat) (m : List (Nat × Nat)) :
    List.lookup k' ((a, b) :: m) = if k' = a then some b else List.lookup k' m := by
  rw [List.lookup_cons]
  by_cases h : k' = a
  · subst h; simp
  · have : (k' == a) = false := by simpa using h
    rw [this, if_neg h]

theorem lookup_map_replace (k v k' : Nat) : ∀ (m : List (Nat × Nat)),
    (m.map (fun p => if p.1 == k then (k, v) else p)).lookup k'
      = if k' = k then (m.lookup k).map (fun _ => v) else m.lookup k' := by
  intro m
  induction m with
  | nil => simp
  | cons p m ih =>
    obtain ⟨a, b⟩ := p
    by_cases hak : a = k
    · subst hak
      have e : (if ((a, b) : Nat × Nat).1 == a then (a, v) else (a, b)) = (a, v) := by simp
      rw [List.map_cons, e, lookup_cons_eq, ih]
      by_cases hk : k' = a
      · subst hk; simp
      · simp [hk, lookup_cons_eq]
    · have e : (if ((a, b) : Nat × Nat).1 == k then (k, v) else (a, b)) = (a, b) := by simp [hak]
      rw [List.map_cons, e, lookup_cons_eq, ih]
      by_cases hk : k' = k
      · subst hk
        have h1 : ¬ k' = a := fun h => hak h.symm
        simp [h1, lookup_cons_eq]
      · simp [hk, lookup_cons_eq]

theorem dictSet_lookup (m : List (Nat × Nat)) (k v k' : Nat) :
    (dictSet m k v).lookup k' = if k' = k then some v else m.lookup k' := by
  unfold dictSet
  split
  · rename_i hany
    rw [lookup_map_replace]
    by_cases hk : k' = k
    · subst hk
      simp only [if_true]
      cases hl : m.lookup k' with
      | some b => rfl
      | none =>
        exfalso
        rw [List.lookup_eq_none_iff] at hl
        simp only [List.any_eq_true] at hany
        obtain ⟨p, hp, hpk⟩ := hany
        have := hl p hp
        simp only [beq_iff_eq] at hpk
        simp [hpk] at this
    · simp [hk]
  · rename_i hany
    have hnone : m.lookup k = none := by
      rw [List.lookup_eq_none_iff]
      intro p hp
      simp only [bne_iff_ne, ne_eq]
      intro hpk
      apply hany
      simp only [List.any_eq_true]
      exact ⟨p, hp, by simp [hpk]⟩
    rw [List.lookup_append]
    by_cases hk : k' = k
    · subst hk; simp [hnone]
    · simp [hk]

theorem dictSet_vals (m : List (Nat × Nat)) (k v : Nat) (P : Nat → Prop) (hv : P v)
    (hm : ∀ p ∈ m, P p.2) : ∀ p ∈ dictSet m k v, P p.2 := by
  intro p hp
  unfold dictSet at hp
  split at hp
  · simp only [List.mem_map] at hp
    obtain ⟨q, hq, rfl⟩ := hp
    split
    · exact hv
    · exact hm q hq
  · simp only [List.mem_append, List.mem_singleton] at hp
    rcases hp with hp | rfl
    · exact hm p hp
    · exact hv

theorem foldl_dictSet_vals (r : Nat) (P : Nat → Prop) (hv : P r) :
    ∀ (cells : List Nat) (m : List (Nat × Nat)), (∀ p ∈ m, P p.2) →
      ∀ p ∈ cells.foldl (fun m c => dictSet m c r) m, P p.2 := by
  intro cells
  induction cells with
  | nil => intro m hm; simpa using hm
  | cons c cells ih =>
    intro m hm
    exact ih _ (dictSet_vals m c r P hv hm)

theorem foldl_dictSet_lookup (r : Nat) :
    ∀ (cells : List Nat) (m : List (Nat × Nat)) (k : Nat),
      (cells.foldl (fun m c => dictSet m c r) m).lookup k
        = if k ∈ cells then some r else m.lookup k := by
  intro cells
  induction cells with
  | nil => intro m k; simp
  | cons c cells ih =>
    intro m k
    rw [List.foldl_cons, ih, dictSet_lookup]
    by_cases h1 : k ∈ cells
    · simp [h1]
    · by_cases h2 : k = c
      · simp [h2]
      · simp [h1, h2]

theorem nameToRowOfTree_go_spec (clusters : List Nat) :
    ∀ (rest : List (Nat × List Nat)) (acc : List (Nat × Nat)),
      (∀ q ∈ rest, q.1 ∈ clusters) → (∀ p ∈ acc, p.2 < clusters.length) →
      ∃ tbl, nameToRowOfTree.go clusters rest acc = .ok tbl ∧
        (∀ p ∈ tbl, p.2 < clusters.length) ∧
        (∀ k, (∀ q ∈ rest, k ∉ q.2) → tbl.lookup k = acc.lookup k) ∧
        (rest.Pairwise (fun a b => ∀ c ∈ a.2, c ∉ b.2) →
          ∀ q ∈ rest, ∀ k ∈ q.2, tbl.lookup k = indexIn clusters q.1) := by
  intro rest
  induction rest with
  | nil =>
    intro acc _ hacc
    exact ⟨acc, rfl, hacc, fun _ _ => rfl, fun _ q hq => by simp at hq⟩
  | cons q rest ih =>
    intro acc hmem hacc
    obtain ⟨cl, cells⟩ := q
    obtain ⟨r, hr⟩ := indexIn_of_mem clusters cl (hmem (cl, cells) (by simp))
    have hrlt := indexIn_lt clusters cl r hr
    obtain ⟨tbl, h1, h2, h3, h4⟩ := ih (cells.foldl (fun m c => dictSet m c r) acc)
      (fun q hq => hmem q (by simp [hq]))
      (foldl_dictSet_vals r (· < clusters.length) hrlt cells acc hacc)
    refine ⟨tbl, by simp only [nameToRowOfTree.go, hr, h1], h2, ?_, ?_⟩
    · intro k hk
      rw [h3 k (fun q hq => hk q (by simp [hq])), foldl_dictSet_lookup]
      have : k ∉ cells := hk (cl, cells) (by simp)
      simp [this]
    · intro hpw q hq k hkq
      rw [List.pairwise_cons] at hpw
      simp only [List.mem_cons] at hq
      rcases hq with rfl | hq
      · rw [h3 k (fun q' hq' => hpw.1 q' hq' k hkq), foldl_dictSet_lookup]
        simp only at hkq
        simp [hkq, hr]
      · exact h4 hpw.2 q hq k hkq

theorem nameToRowOfTree_spec (l2c : List (Nat × List Nat)) :
    ∃ tbl, nameToRowOfTree l2c = .ok tbl ∧
      (∀ p ∈ tbl, p.2 < (uniqueSorted (l2c.map (·.1))).length) ∧
      (∀ k, (∀ q ∈ l2c, k ∉ q.2) → tbl.lookup k = none) ∧
      (l2c.Pairwise (fun a b => ∀ c ∈ a.2, c ∉ b.2) →
        ∀ q ∈ l2c, ∀ k ∈ q.2, tbl.lookup k = indexIn (uniqueSorted (l2c.map (·.1))) q.1) := by
  obtain ⟨tbl, h1, h2, h3, h4⟩ := nameToRowOfTree_go_spec (uniqueSorted (l2c.map (·.1))) l2c []
    (fun q hq => by rw [mem_uniqueSorted]; exact List.mem_map_of_mem hq) (by simp)
  exact ⟨tbl, h1, h2, fun k hk => by rw [h3 k hk]; rfl, h4⟩


/-! ### `read_raw_precomputed_stats` / `aggregate_stats` -/

/-- the rows `cluster_to_row` addresses for a list of leaves -/
def addressedRows (data : Buffer) (c2r : List (Nat × Nat)) (leaves : List Nat) : List Row :=
  leaves.filterMap (fun l => (c2r.lookup l).bind (fun i => data[i]?))

theorem mapMExcept_readRow (data : Buffer) (c2r : List (Nat × Nat)) :
    ∀ (leaves : List Nat), (∀ l ∈ leaves, ∃ i, c2r.lookup l = some i ∧ i < data.length) →
      mapMExcept (readRow data c2r) leaves = .ok (addressedRows data c2r leaves) ∧
      (addressedRows data c2r leaves).length = leaves.length := by
  intro leaves
  induction leaves with
  | nil => intro _; exact ⟨rfl, rfl⟩
  | cons l leaves ih =>
    intro h
    obtain ⟨i, h1, h2⟩ := h l (by simp)
    obtain ⟨e1, e2⟩ := ih (fun l' hl' => h l' (by simp [hl']))
    have hd : data[i]? = some data[i] := by simp [h2]
    have hr : readRow data c2r l = .ok data[i] := by simp [readRow, h1, hd]
    have ha : addressedRows data c2r (l :: leaves) = data[i] :: addressedRows data c2r leaves := by
      simp [addressedRows, h1, hd]
    rw [ha]
    exact ⟨by simp only [mapMExcept, hr, e1], by simp [e2]⟩

theorem foldl_Row_add (rows : List Row) : ∀ (a : Row), rows.foldl Row.add a = a.add (rowSum rows) := by
  induction rows with
  | nil => intro a; simp
  | cons r rows ih => intro a; simp [ih, Row.add_assoc]

theorem rowSum_n (rows : List Row) : (rowSum rows).n = (rows.map (·.n)).sum := by
  induction rows with
  | nil => rfl
  | cons r rows ih => simp [Row.add, ih]

/-- the gene-`j` accumulator of a list of rows -/
def colOf (rows : List Row) (j : Nat) : GStat :=
  (rows.map (fun r => r.genes.getD j GStat.zero)).foldr GStat.add GStat.zero

theorem rowSum_genes (g : Nat) (rows : List Row) (hlen : ∀ r ∈ rows, r.genes.length = g)
    (j : Nat) (hj : j < g) :
    (rowSum rows).genes[j]? = if rows = [] then none else some (colOf rows j) := by
  induction rows with
  | nil => simp [Row.empty]
  | cons r rows ih =>
    have hr : r.genes.length = g := hlen r (by simp)
    have ih' := ih (fun r hr => hlen r (by simp [hr]))
    have hj' : j < r.genes.length := by omega
    have e1 : r.genes[j]? = some (r.genes.getD j GStat.zero) := by
      simp [List.getD_eq_getElem?_getD, List.getElem?_eq_getElem hj']
    simp only [rowSum_cons, Row.add, vadd_getElem?, ih', e1]
    by_cases h : rows = []
    · subst h; simp [colOf, GStat.add_zero]
    · simp [h, colOf]

theorem zero_add_rowSum_genes (g : Nat) (rows : List Row)
    (hlen : ∀ r ∈ rows, r.genes.length = g) (j : Nat) (hj : j < g) :
    ((Row.zero g).add (rowSum rows)).genes[j]? = some (colOf rows j) := by
  simp only [Row.add, vadd_getElem?, rowSum_genes g rows hlen j hj, Row.zero]
  have : (List.replicate g GStat.zero)[j]? = some GStat.zero := by simp [hj]
  rw [this]
  by_cases h : rows = []
  · subst h; simp [colOf]
  · simp [h, GStat.zero_add]

theorem colOf_fields (rows : List Row) (j : Nat) :
    (colOf rows j).sum = (rows.map (fun r => (r.genes.getD j GStat.zero).sum)).sum ∧
    (colOf rows j).sumsq = (rows.map (fun r => (r.genes.getD j GStat.zero).sumsq)).sum ∧
    (colOf rows j).gt0 = (rows.map (fun r => (r.genes.getD j GStat.zero).gt0)).sum ∧
    (colOf rows j).gt1 = (rows.map (fun r => (r.genes.getD j GStat.zero).gt1)).sum ∧
    (colOf rows j).ge1 = (rows.map (fun r => (r.genes.getD j GStat.zero).ge1)).sum := by
  have := foldr_add_fields (rows.map (fun r => r.genes.getD j GStat.zero))
  simpa [colOf, List.map_map, Function.comp_def] using this

theorem aggregateStats_spec (g : Nat) (data : Buffer) (c2r : List (Nat × Nat)) (leaves : List Nat)
    (hlook : ∀ l ∈ leaves, ∃ i, c2r.lookup l = some i ∧ i < data.length) :
    ∃ a, aggregateStats g data c2r leaves = .ok a ∧
      (addressedRows data c2r leaves).length = leaves.length ∧
      a.n = ((addressedRows data c2r leaves).map (·.n)).sum ∧
      ((∀ r ∈ addressedRows data c2r leaves, r.genes.length = g) → ∀ j : Nat, j < g →
        a.mean[j]? = some (meanOf a.n
          ((addressedRows data c2r leaves).map (fun r => (r.genes.getD j GStat.zero).sum)).sum) ∧
        a.var[j]? = some (varOf a.n
          ((addressedRows data c2r leaves).map (fun r => (r.genes.getD j GStat.zero).sum)).sum
          ((addressedRows data c2r leaves).map (fun r => (r.genes.getD j GStat.zero).sumsq)).sum) ∧
        a.gt0[j]? = some
          ((addressedRows data c2r leaves).map (fun r => (r.genes.getD j GStat.zero).gt0)).sum ∧
        a.gt1[j]? = some
          ((addressedRows data c2r leaves).map (fun r => (r.genes.getD j GStat.zero).gt1)).sum ∧
        a.ge1[j]? = some
          ((addressedRows data c2r leaves).map (fun r => (r.genes.getD j GStat.zero).ge1)).sum) := by
  obtain ⟨e1, e2⟩ := mapMExcept_readRow data c2r leaves hlook
  generalize addressedRows data c2r leaves = rows at *
  have hn : ((Row.zero g).add (rowSum rows)).n = (rows.map (·.n)).sum := by
    simp [Row.add, Row.zero, rowSum_n]
  have hagg : aggregateStats g data c2r leaves = .ok
      { n := ((Row.zero g).add (rowSum rows)).n
        mean := ((Row.zero g).add (rowSum rows)).genes.map
          (fun s => meanOf ((Row.zero g).add (rowSum rows)).n s.sum)
        var := ((Row.zero g).add (rowSum rows)).genes.map
          (fun s => varOf ((Row.zero g).add (rowSum rows)).n s.sum s.sumsq)
        gt0 := ((Row.zero g).add (rowSum rows)).genes.map (·.gt0)
        gt1 := ((Row.zero g).add (rowSum rows)).genes.map (·.gt1)
        ge1 := ((Row.zero g).add (rowSum rows)).genes.map (·.ge1) } := by
    simp only [aggregateStats, e1, foldl_Row_add]
  refine ⟨_, hagg, e2, hn, fun hlen j hj => ?_⟩
  have hg := zero_add_rowSum_genes g rows hlen j hj
  obtain ⟨f1, f2, f3, f4, f5⟩ := colOf_fields rows j
  simp only [List.getElem?_map, hg, Option.map_some, f1, f2, f3, f4, f5, and_self]


/-! ### aggregation of a directly computed file -/

theorem summaryStats_genes_length (g : Nat) (cells : List (List Rat))
    (hlen : ∀ c ∈ cells, c.length = g) :
    (summaryStats cells).genes.length = if cells = [] then 0 else g := by
  induction cells with
  | nil => rfl
  | cons c cells ih =>
    have ih' := ih (fun c hc => hlen c (by simp [hc]))
    have hc : c.length = g := hlen c (by simp)
    simp only [summaryStats] at ih'
    simp only [summaryStats, List.map_cons, rowSum_cons, Row.add, vadd_length, ih', cellStat,
      List.length_map, hc]
    split <;> simp

theorem zero_add_summaryStats_length (g : Nat) (cells : List (List Rat))
    (hlen : ∀ c ∈ cells, c.length = g) :
    ((Row.zero g).add (summaryStats cells)).genes.length = g := by
  simp only [Row.add, vadd_length, summaryStats_genes_length g cells hlen, Row.zero,
    List.length_replicate]
  split <;> simp

theorem sum_flatMap_rat {α β : Type} (F : α → List β) (h : β → Rat) : ∀ (L : List α),
    ((L.flatMap F).map h).sum = (L.map (fun l => ((F l).map h).sum)).sum := by
  intro L
  induction L with
  | nil => rfl
  | cons l L ih => simp [List.flatMap_cons, List.map_append, List.sum_append, ih]

theorem sum_flatMap_nat {α β : Type} (F : α → List β) (h : β → Nat) : ∀ (L : List α),
    ((L.flatMap F).map h).sum = (L.map (fun l => ((F l).map h).sum)).sum := by
  intro L
  induction L with
  | nil => rfl
  | cons l L ih => simp [List.flatMap_cons, List.map_append, List.sum_append, ih]

theorem length_flatMap_sum {α β : Type} (F : α → List β) : ∀ (L : List α),
    (L.flatMap F).length = (L.map (fun l => (F l).length)).sum := by
  intro L
  induction L with
  | nil => rfl
  | cons l L ih => simp [List.flatMap_cons, ih]

theorem precompute_aggregate (nC g : Nat) (ntr : List (Nat × Nat))
    (files : List (Nat × List CellRec)) (rows nProc : Nat)
    (hrows : 1 ≤ rows) (hproc : 1 ≤ nProc) (hntr : ∀ p ∈ ntr, p.2 < nC)
    (hw : ∃ f ∈ files, wanted ntr f.2 = true)
    (hg : ∀ f ∈ files, ∀ cell ∈ f.2, cell.vals.length = g)
    (c2r : List (Nat × Nat)) (leaves : List Nat)
    (hlook : ∀ l ∈ leaves, ∃ i, c2r.lookup l = some i ∧ i < nC) :
    ∃ buf a, precompute nC g ntr files rows nProc = .ok buf ∧
      aggregateStats g buf c2r leaves = .ok a ∧
      a.n = (leaves.flatMap (fun l =>
        cellsOfRow ntr ((c2r.lookup l).getD 0) (files.flatMap (·.2)))).length ∧
      ∀ j : Nat, j < g →
        a.mean[j]? = some (meanOf a.n ((leaves.flatMap (fun l =>
          cellsOfRow ntr ((c2r.lookup l).getD 0) (files.flatMap (·.2)))).map
            (fun cell => cell.vals.getD j 0)).sum) ∧
        a.var[j]? = some (varOf a.n
          ((leaves.flatMap (fun l =>
            cellsOfRow ntr ((c2r.lookup l).getD 0) (files.flatMap (·.2)))).map
              (fun cell => cell.vals.getD j 0)).sum
          ((leaves.flatMap (fun l =>
            cellsOfRow ntr ((c2r.lookup l).getD 0) (files.flatMap (·.2)))).map
              (fun cell => cell.vals.getD j 0 * cell.vals.getD j 0)).sum) ∧
        a.gt0[j]? = some ((leaves.flatMap (fun l =>
          cellsOfRow ntr ((c2r.lookup l).getD 0) (files.flatMap (·.2)))).map
            (fun cell => (geneStat (cell.vals.getD j 0)).gt0)).sum ∧
        a.gt1[j]? = some ((leaves.flatMap (fun l =>
          cellsOfRow ntr ((c2r.lookup l).getD 0) (files.flatMap (·.2)))).map
            (fun cell => (geneStat (cell.vals.getD j 0)).gt1)).sum ∧
        a.ge1[j]? = some ((leaves.flatMap (fun l =>
          cellsOfRow ntr ((c2r.lookup l).getD 0) (files.flatMap (·.2)))).map
            (fun cell => (geneStat (cell.vals.getD j 0)).ge1)).sum := by
  obtain ⟨buf, e, hl, r⟩ := precompute_spec nC g ntr files rows nProc hrows hproc hntr hw
  obtain ⟨a, ha, _, hn, hgenes⟩ := aggregateStats_spec g buf c2r leaves
    (fun l hl' => by obtain ⟨i, h1, h2⟩ := hlook l hl'; exact ⟨i, h1, by omega⟩)
  -- the members of the row of leaf `l`, and the row the file holds for it
  let mem : Nat → List CellRec := fun l =>
    cellsOfRow ntr ((c2r.lookup l).getD 0) (files.flatMap (·.2))
  let R : Nat → Row := fun l => (Row.zero g).add (summaryStats ((mem l).map (·.vals)))
  have hmemlen : ∀ l, ∀ v ∈ (mem l).map (·.vals), v.length = g := by
    intro l v hv
    simp only [mem, List.mem_map, cellsOfRow, List.mem_filter, List.mem_flatMap] at hv
    obtain ⟨cell, ⟨⟨f, hf, hcell⟩, _⟩, rfl⟩ := hv
    exact hg f hf cell hcell
  have hrows : addressedRows buf c2r leaves = leaves.map R := by
    apply filterMap_eq_map_of_forall
    intro l hl'
    obtain ⟨i, h1, h2⟩ := hlook l hl'
    simp only [h1, Option.bind_some, r i h2, R, mem, Option.getD_some, summaryStats_cellsOfRow]
  have hRn : ∀ l, (R l).n = (mem l).length := by
    intro l; simp [R, Row.add, Row.zero, summaryStats_n]
  have hRg : ∀ l j, j < g → (R l).genes.getD j GStat.zero = colStat ((mem l).map (·.vals)) j := by
    intro l j hj
    rw [List.getD_eq_getElem?_getD, zero_add_summaryStats_genes g _ (hmemlen l) j hj]
    rfl
  rw [hrows] at hn hgenes
  have hn' : a.n = (leaves.flatMap mem).length := by
    rw [hn, length_flatMap_sum, List.map_map]
    congr 1
    apply List.map_congr_left
    intro l _; exact hRn l
  refine ⟨buf, a, e, ha, hn', fun j hj => ?_⟩
  obtain ⟨m1, m2, m3, m4, m5⟩ := hgenes (by
    intro r' hr'
    simp only [List.mem_map] at hr'
    obtain ⟨l, _, rfl⟩ := hr'
    exact zero_add_summaryStats_length g _ (hmemlen l)) j hj
  have key : ∀ l, (R l).genes.getD j GStat.zero = colStat ((mem l).map (·.vals)) j :=
    fun l => hRg l j hj
  have c := fun l => colStat_fields ((mem l).map (·.vals)) j
  simp only [List.map_map, Function.comp_def, key] at m1 m2 m3 m4 m5 c
  rw [m1, m2, m3, m4, m5]
  simp only [sum_flatMap_rat, sum_flatMap_nat, (c _).1, (c _).2.1, (c _).2.2.1, (c _).2.2.2.1,
    (c _).2.2.2.2, and_self, mem]

theorem precompute_aggregate_mean_var (nC g : Nat) (ntr : List (Nat × Nat))
    (files : List (Nat × List CellRec)) (rows nProc : Nat)
    (hrows : 1 ≤ rows) (hproc : 1 ≤ nProc) (hntr : ∀ p ∈ ntr, p.2 < nC)
    (hw : ∃ f ∈ files, wanted ntr f.2 = true)
    (hg : ∀ f ∈ files, ∀ cell ∈ f.2, cell.vals.length = g)
    (c2r : List (Nat × Nat)) (leaves : List Nat)
    (hlook : ∀ l ∈ leaves, ∃ i, c2r.lookup l = some i ∧ i < nC) :
    ∃ buf a, precompute nC g ntr files rows nProc = .ok buf ∧
      aggregateStats g buf c2r leaves = .ok a ∧
      ∀ j : Nat, j < g → ∃ (xs : List Rat) (m v : Rat),
        xs = (leaves.flatMap (fun l =>
          cellsOfRow ntr ((c2r.lookup l).getD 0) (files.flatMap (·.2)))).map
            (fun cell => cell.vals.getD j 0) ∧
        a.n = xs.length ∧ a.mean[j]? = some m ∧ a.var[j]? = some v ∧
        (1 ≤ xs.length → m * (xs.length : Rat) = xs.sum) ∧
        (2 ≤ xs.length → v * ((xs.length : Rat) - 1) = (xs.map (fun x => (x - m) ^ 2)).sum) := by
  obtain ⟨buf, a, e, ha, hn, hj⟩ := precompute_aggregate nC g ntr files rows nProc hrows hproc
    hntr hw hg c2r leaves hlook
  refine ⟨buf, a, e, ha, fun j hjg => ?_⟩
  obtain ⟨m1, m2, _⟩ := hj j hjg
  refine ⟨_, _, _, rfl, by rw [hn, List.length_map], m1, m2, ?_, ?_⟩
  · intro h1
    rw [hn, ← List.length_map (f := fun cell : CellRec => cell.vals.getD j 0)]
    exact meanOf_mul _ _ h1
  · intro h2
    have := varOf_mul _ h2
    rw [hn, ← List.length_map (f := fun cell : CellRec => cell.vals.getD j 0)]
    simpa [List.map_map, Function.comp_def] using this


/-! ### the finer rule of `merge_precompute_files` -/

/-- `dst` row against `src` row: replaced only if strictly more cells -/
def pickRow (d s : Row) : Row := if s.n > d.n then s else d

theorem scan_first_max : ∀ (L : List Row) (d : Row), ∃ (p : Nat) (row : Row),
    (d :: L)[p]? = some row ∧ L.foldl pickRow d = row ∧
      ∀ (q : Nat) (row' : Row), (d :: L)[q]? = some row' →
        row'.n ≤ row.n ∧ (q < p → row'.n < row.n) := by
  intro L
  induction L with
  | nil =>
    intro d
    refine ⟨0, d, rfl, rfl, fun q row' h => ?_⟩
    cases q with
    | zero => simp at h; subst h; simp
    | succ q => simp at h
  | cons s L ih =>
    intro d
    obtain ⟨p', row, h1, h2, h3⟩ := ih (pickRow d s)
    have hpick := h3 0 (pickRow d s) rfl
    have hd : d.n ≤ (pickRow d s).n := by unfold pickRow; split <;> omega
    have hs : s.n ≤ (pickRow d s).n := by unfold pickRow; split <;> omega
    cases p' with
    | zero =>
      simp only [List.getElem?_cons_zero, Option.some.injEq] at h1
      by_cases hgt : s.n > d.n
      · have hrow : row = s := by rw [← h1]; simp [pickRow, hgt]
        refine ⟨1, row, by simp [hrow], h2, fun q row' h => ?_⟩
        cases q with
        | zero =>
          simp only [List.getElem?_cons_zero, Option.some.injEq] at h; subst h
          rw [hrow]; omega
        | succ q =>
          cases q with
          | zero =>
            simp only [List.getElem?_cons_succ, List.getElem?_cons_zero, Option.some.injEq] at h
            subst h; rw [hrow]; omega
          | succ q =>
            have := h3 (q + 1) row' (by simpa using h)
            exact ⟨this.1, fun hq => by omega⟩
      · have hrow : row = d := by rw [← h1]; simp [pickRow, hgt]
        refine ⟨0, row, by simp [hrow], h2, fun q row' h => ?_⟩
        cases q with
        | zero =>
          simp only [List.getElem?_cons_zero, Option.some.injEq] at h; subst h
          rw [hrow]; omega
        | succ q =>
          cases q with
          | zero =>
            simp only [List.getElem?_cons_succ, List.getElem?_cons_zero, Option.some.injEq] at h
            subst h; rw [hrow]; omega
          | succ q =>
            have := h3 (q + 1) row' (by simpa using h)
            exact ⟨this.1, fun hq => by omega⟩
    | succ p' =>
      have hlt := (hpick.2 (by omega))
      refine ⟨p' + 2, row, by simpa using h1, h2, fun q row' h => ?_⟩
      cases q with
      | zero =>
        simp only [List.getElem?_cons_zero, Option.some.injEq] at h; subst h
        exact ⟨by omega, fun _ => by omega⟩
      | succ q =>
        cases q with
        | zero =>
          simp only [List.getElem?_cons_succ, List.getElem?_cons_zero, Option.some.injEq] at h
          subst h
          exact ⟨by omega, fun _ => by omega⟩
        | succ q =>
          have := h3 (q + 1) row' (by simpa using h)
          exact ⟨this.1, fun hq => this.2 (by omega)⟩

theorem foldl_replaceWhereMore_row (nC r : Nat) (hr : r < nC) :
    ∀ (others : List Buffer) (start : Buffer), start.length = nC →
      (∀ f ∈ others, f.length = nC) →
      (others.foldl replaceWhereMore start).length = nC ∧
      (others.foldl replaceWhereMore start)[r]?
        = some ((others.map (fun f => f.getD r Row.empty)).foldl pickRow (start.getD r Row.empty)) := by
  intro others
  induction others with
  | nil =>
    intro start hs _
    exact ⟨hs, by simp [List.getD_eq_getElem?_getD, hs, hr]⟩
  | cons o others ih =>
    intro start hs hlen
    have ho : o.length = nC := hlen o (by simp)
    have hs' : (replaceWhereMore start o).length = nC := by
      rw [replaceWhereMore_length]; omega
    obtain ⟨h1, h2⟩ := ih (replaceWhereMore start o) hs' (fun f hf => hlen f (by simp [hf]))
    refine ⟨h1, ?_⟩
    have hd : start[r]? = some (start.getD r Row.empty) := by
      simp [List.getD_eq_getElem?_getD, hs, hr]
    have hso : o[r]? = some (o.getD r Row.empty) := by
      simp [List.getD_eq_getElem?_getD, ho, hr]
    have hrep := replaceWhereMore_getElem? start o r _ _ hd hso
    have : (replaceWhereMore start o).getD r Row.empty
        = pickRow (start.getD r Row.empty) (o.getD r Row.empty) := by
      rw [List.getD_eq_getElem?_getD, hrep]; rfl
    simp only [List.foldl_cons, List.map_cons, h2, this]

theorem zipIdx_filter_ne_all {α : Type} : ∀ (l : List α) (i0 k : Nat), k < i0 →
    ((l.zipIdx i0).filter (fun p => p.2 != k)).map (·.1) = l := by
  intro l
  induction l with
  | nil => intro _ _ _; rfl
  | cons a l ih =>
    intro i0 k hk
    have : (i0 != k) = true := by simp; omega
    simp [List.zipIdx_cons, this, ih (i0 + 1) k (by omega)]

theorem zipIdx_filter_ne_eraseIdx {α : Type} : ∀ (l : List α) (i0 k : Nat),
    ((l.zipIdx i0).filter (fun p => p.2 != k + i0)).map (·.1) = l.eraseIdx k := by
  intro l
  induction l with
  | nil => intro _ _; rfl
  | cons a l ih =>
    intro i0 k
    cases k with
    | zero =>
      have : (i0 != 0 + i0) = false := by simp
      simp only [List.zipIdx_cons, List.filter_cons, this, List.eraseIdx_cons_zero]
      simpa using zipIdx_filter_ne_all l (i0 + 1) i0 (by omega)
    | succ k =>
      have h1 : (i0 != k + (i0 + 1)) = true := by simp; omega
      have h2 : k + 1 + i0 = k + (i0 + 1) := by omega
      rw [h2]
      simp only [List.zipIdx_cons, List.filter_cons, h1, if_true, List.map_cons,
        List.eraseIdx_cons_succ, ih (i0 + 1) k]

/-- `k` is the first index of `l` with the largest total -/
def FirstLargest (l : List Buffer) (k tot : Nat) : Prop :=
  (∃ s, l[k]? = some s ∧ totalCells s = tot) ∧ (∀ f ∈ l, totalCells f ≤ tot) ∧
    ∀ (i : Nat) (fi : Buffer), i < k → l[i]? = some fi → totalCells fi < tot

theorem mostIdx_spec : ∀ (bs pre : List Buffer) (best tot : Nat), FirstLargest pre best tot →
    ∃ tot', FirstLargest (pre ++ bs) (mostIdx bs pre.length best tot) tot' := by
  intro bs
  induction bs with
  | nil => intro pre best tot h; exact ⟨tot, by simpa [mostIdx] using h⟩
  | cons b bs ih =>
    intro pre best tot h
    obtain ⟨⟨s, hs, hst⟩, hmax, hfirst⟩ := h
    have hbest : best < pre.length := by
      by_contra hn
      rw [List.getElem?_eq_none (by omega)] at hs
      exact absurd hs (by simp)
    simp only [mostIdx]
    have happ : pre ++ b :: bs = (pre ++ [b]) ++ bs := by simp
    have hlen : pre.length + 1 = (pre ++ [b]).length := by simp
    split
    · rename_i hgt
      rw [happ, hlen]
      apply ih
      refine ⟨⟨b, by simp, rfl⟩, ?_, ?_⟩
      · intro f hf
        simp only [List.mem_append, List.mem_singleton] at hf
        rcases hf with hf | rfl
        · have := hmax f hf; omega
        · omega
      · intro i fi hi hfi
        rw [List.getElem?_append_left hi] at hfi
        have := hmax fi (List.mem_of_getElem? hfi); omega
    · rename_i hgt
      rw [happ, hlen]
      apply ih
      refine ⟨⟨s, by rw [List.getElem?_append_left hbest]; exact hs, hst⟩, ?_, ?_⟩
      · intro f hf
        simp only [List.mem_append, List.mem_singleton] at hf
        rcases hf with hf | rfl
        · exact hmax f hf
        · omega
      · intro i fi hi hfi
        rw [List.getElem?_append_left (by omega)] at hfi
        exact hfirst i fi hi hfi

theorem mergeMax_tie_rule (nC : Nat) (files : List Buffer) (hne : files ≠ [])
    (hlen : ∀ f ∈ files, f.length = nC) :
    ∃ (k : Nat) (start out : Buffer), files[k]? = some start ∧
      (∀ f ∈ files, totalCells f ≤ totalCells start) ∧
      (∀ (i : Nat) (fi : Buffer), i < k → files[i]? = some fi →
        totalCells fi < totalCells start) ∧
      mergeMax files = .ok out ∧
      ∀ r : Nat, r < nC → ∃ (p : Nat) (fp : Buffer) (row : Row),
        (start :: files.eraseIdx k)[p]? = some fp ∧ fp[r]? = some row ∧ out[r]? = some row ∧
        ∀ (q : Nat) (fq : Buffer) (row' : Row), (start :: files.eraseIdx k)[q]? = some fq →
          fq[r]? = some row' → row'.n ≤ row.n ∧ (q < p → row'.n < row.n) := by
  cases files with
  | nil => exact absurd rfl hne
  | cons f0 rest =>
    obtain ⟨tot', ⟨s, hs, hst⟩, hmax, hfirst⟩ := mostIdx_spec rest [f0] 0 (totalCells f0)
      ⟨⟨f0, rfl, rfl⟩, by simp, by intro i fi hi; omega⟩
    simp only [List.length_singleton, List.singleton_append] at hs hmax hfirst
    generalize hkdef : mostIdx rest 1 0 (totalCells f0) = k at hs hmax hfirst
    generalize hfiles : f0 :: rest = files at *
    have hothers : ((files.zipIdx).filter (fun p => p.2 != k)).map (·.1) = files.eraseIdx k := by
      simpa using zipIdx_filter_ne_eraseIdx files 0 k
    have hsmem : s ∈ files := List.mem_of_getElem? hs
    have herase : ∀ f ∈ files.eraseIdx k, f.length = nC :=
      fun f hf => hlen f (List.mem_of_mem_eraseIdx hf)
    refine ⟨k, s, (files.eraseIdx k).foldl replaceWhereMore s, hs,
      fun f hf => by rw [hst]; exact hmax f hf,
      fun i fi hi hfi => by rw [hst]; exact hfirst i fi hi hfi, ?_, fun r hr => ?_⟩
    · subst hfiles
      simp only [mergeMax, hkdef, hs, ← hothers, List.foldl_map]
    · obtain ⟨_, hrow⟩ := foldl_replaceWhereMore_row nC r hr (files.eraseIdx k) s
        (hlen s hsmem) herase
      obtain ⟨p, row, h1, h2, h3⟩ := scan_first_max
        ((files.eraseIdx k).map (fun f => f.getD r Row.empty)) (s.getD r Row.empty)
      have hseq : ∀ (q : Nat),
          (s.getD r Row.empty :: (files.eraseIdx k).map (fun f => f.getD r Row.empty))[q]?
            = ((s :: files.eraseIdx k)[q]?).map (fun f => f.getD r Row.empty) := by
        intro q
        rw [← List.map_cons (f := fun f : Buffer => f.getD r Row.empty), List.getElem?_map]
      have hget : ∀ f ∈ s :: files.eraseIdx k, f[r]? = some (f.getD r Row.empty) := by
        intro f hf
        have : f.length = nC := by
          simp only [List.mem_cons] at hf
          rcases hf with rfl | hf
          · exact hlen _ hsmem
          · exact herase f hf
        simp [List.getD_eq_getElem?_getD, this, hr]
      rw [hseq p] at h1
      simp only [Option.map_eq_some_iff] at h1
      obtain ⟨fp, hfp, hfprow⟩ := h1
      refine ⟨p, fp, row, hfp, by rw [hget fp (List.mem_of_getElem? hfp), hfprow],
        by rw [hrow, h2], fun q fq row' hfq hrow' => ?_⟩
      apply h3 q row'
      rw [hseq q, hfq]
      rw [hget fq (List.mem_of_getElem? hfq)] at hrow'
      simpa using hrow'


/-! ### integer width of the accumulators -/

/-- every integer entry of a row is below `2^bits` -/
def FitsRow (bits : Nat) (r : Row) : Prop :=
  r.n < 2 ^ bits ∧ ∀ s ∈ r.genes, s.gt0 < 2 ^ bits ∧ s.gt1 < 2 ^ bits ∧ s.ge1 < 2 ^ bits

theorem fitsBits_iff (bits : Nat) (buf : Buffer) :
    fitsBits bits buf = true ↔ ∀ r ∈ buf, FitsRow bits r := by
  simp only [fitsBits, List.all_eq_true, Bool.and_eq_true, decide_eq_true_eq, FitsRow]
  constructor
  · intro h r hr
    exact ⟨(h r hr).1, fun s hs => by have := (h r hr).2 s hs; tauto⟩
  · intro h r hr
    exact ⟨(h r hr).1, fun s hs => by have := (h r hr).2 s hs; tauto⟩

theorem Row.wrap_of_fits (bits : Nat) (r : Row) (h : FitsRow bits r) : r.wrap bits = r := by
  obtain ⟨h1, h2⟩ := h
  apply Row.ext'
  · simp [Row.wrap, wrapNat, Nat.mod_eq_of_lt h1]
  · simp only [Row.wrap]
    conv => rhs; rw [← List.map_id r.genes]
    apply List.map_congr_left
    intro s hs
    obtain ⟨a, b, c⟩ := h2 s hs
    apply GStat.ext' <;> simp [GStat.wrap, wrapNat, Nat.mod_eq_of_lt, a, b, c]

theorem vadd_mem_left : ∀ (x y : List GStat) (s : GStat), s ∈ x →
    ∃ t ∈ vadd x y, s.gt0 ≤ t.gt0 ∧ s.gt1 ≤ t.gt1 ∧ s.ge1 ≤ t.ge1 := by
  intro x
  induction x with
  | nil => intro y s h; simp at h
  | cons a x ih =>
    intro y s h
    cases y with
    | nil => exact ⟨s, by simpa using h, by omega, by omega, by omega⟩
    | cons b y =>
      simp only [List.mem_cons] at h
      rcases h with rfl | h
      · exact ⟨s.add b, by simp, by simp [GStat.add], by simp [GStat.add], by simp [GStat.add]⟩
      · obtain ⟨t, ht, hle⟩ := ih y s h
        exact ⟨t, by simp [ht], hle⟩

theorem FitsRow.of_add_left (bits : Nat) (a b : Row) (h : FitsRow bits (a.add b)) :
    FitsRow bits a := by
  obtain ⟨h1, h2⟩ := h
  refine ⟨by simp only [Row.add] at h1; omega, fun s hs => ?_⟩
  obtain ⟨t, ht, l1, l2, l3⟩ := vadd_mem_left a.genes b.genes s hs
  obtain ⟨a1, a2, a3⟩ := h2 t ht
  omega

theorem fits_of_bufZipAdd (bits : Nat) (a b : Buffer) (hlen : a.length = b.length)
    (h : ∀ r ∈ bufZipAdd a b, FitsRow bits r) : ∀ r ∈ a, FitsRow bits r := by
  intro r hr
  obtain ⟨i, hi, rfl⟩ := List.getElem_of_mem hr
  have hib : i < b.length := by omega
  have : a[i].add b[i] ∈ bufZipAdd a b := by
    have hz : (bufZipAdd a b)[i]? = some (a[i].add b[i]) :=
      bufZipAdd_getElem? a b i _ _ (by simp [hi]) (by simp [hib])
    exact List.mem_of_getElem? hz
  exact FitsRow.of_add_left bits _ _ (h _ this)

theorem bufZipAdd_length (a b : Buffer) : (bufZipAdd a b).length = min a.length b.length := by
  simp [bufZipAdd]

theorem fits_of_foldl (bits nC : Nat) : ∀ (bs : List Buffer) (acc : Buffer),
    acc.length = nC → (∀ b ∈ bs, b.length = nC) →
    (∀ r ∈ bs.foldl bufZipAdd acc, FitsRow bits r) → ∀ r ∈ acc, FitsRow bits r := by
  intro bs
  induction bs with
  | nil => intro acc _ _ h; simpa using h
  | cons b bs ih =>
    intro acc hacc hbs h
    have hb : b.length = nC := hbs b (by simp)
    have := ih (bufZipAdd acc b) (by rw [bufZipAdd_length]; omega)
      (fun b' hb' => hbs b' (by simp [hb'])) (by simpa using h)
    exact fits_of_bufZipAdd bits acc b (by omega) this

theorem foldl_wrap_eq (bits nC : Nat) : ∀ (bs : List Buffer) (acc : Buffer),
    acc.length = nC → (∀ b ∈ bs, b.length = nC) →
    (∀ r ∈ bs.foldl bufZipAdd acc, FitsRow bits r) →
    bs.foldl (fun acc b => (bufZipAdd acc b).map (Row.wrap bits)) acc
      = bs.foldl bufZipAdd acc := by
  intro bs
  induction bs with
  | nil => intro _ _ _ _; rfl
  | cons b bs ih =>
    intro acc hacc hbs h
    have hb : b.length = nC := hbs b (by simp)
    have hlen : (bufZipAdd acc b).length = nC := by rw [bufZipAdd_length]; omega
    have hbs' : ∀ b' ∈ bs, b'.length = nC := fun b' hb' => hbs b' (by simp [hb'])
    have hfit := fits_of_foldl bits nC bs (bufZipAdd acc b) hlen hbs' (by simpa using h)
    have hid : (bufZipAdd acc b).map (Row.wrap bits) = bufZipAdd acc b := by
      conv => rhs; rw [← List.map_id (bufZipAdd acc b)]
      apply List.map_congr_left
      intro r hr
      exact Row.wrap_of_fits bits r (hfit r hr)
    simp only [List.foldl_cons, hid]
    exact ih (bufZipAdd acc b) hlen hbs' (by simpa using h)

/-! lengths are preserved by every successful step of a worker -/

theorem bufAdd_length : ∀ (buf : Buffer) (u : Nat) (r : Row) (buf' : Buffer),
    bufAdd buf u r = some buf' → buf'.length = buf.length := by
  intro buf
  induction buf with
  | nil => intro u r buf' h; simp [bufAdd] at h
  | cons b bs ih =>
    intro u r buf' h
    cases u with
    | zero => simp only [bufAdd, Option.some.injEq] at h; subst h; rfl
    | succ u =>
      simp only [bufAdd, Option.map_eq_some_iff] at h
      obtain ⟨bs', h1, rfl⟩ := h
      simp [ih u r bs' h1]

theorem processUnique_length (ntr : List (Nat × Nat)) (cells : List CellRec) :
    ∀ (us : List Nat) (buf buf' : Buffer), processUnique ntr cells buf us = .ok buf' →
      buf'.length = buf.length := by
  intro us
  induction us with
  | nil => intro buf buf' h; simp only [processUnique, Except.ok.injEq] at h; rw [h]
  | cons u us ih =>
    intro buf buf' h
    simp only [processUnique] at h
    split at h
    · simp at h
    · rename_i b1 hb1
      rw [ih b1 buf' h, bufAdd_length _ _ _ _ hb1]

theorem processChunks_length (ntr : List (Nat × Nat)) :
    ∀ (chunks : List Chunk) (buf buf' : Buffer), processChunks ntr buf chunks = .ok buf' →
      buf'.length = buf.length := by
  intro chunks
  induction chunks with
  | nil => intro buf buf' h; simp only [processChunks, Except.ok.injEq] at h; rw [h]
  | cons c chunks ih =>
    intro buf buf' h
    simp only [processChunks] at h
    split at h
    · simp at h
    · rename_i b1 hb1
      rw [ih b1 buf' h]
      exact processUnique_length ntr _ _ _ _ hb1

theorem processSpec_length (nC g : Nat) (ntr : List (Nat × Nat)) (load : List Chunk)
    (buf : Buffer) (h : processSpec nC g ntr load = .ok buf) : buf.length = nC := by
  have := processChunks_length ntr load _ _ h
  simpa [zeroBuffer] using this

theorem mapMExcept_mem {α β ε : Type} (f : α → Except ε β) : ∀ (as : List α) (bs : List β),
    mapMExcept f as = .ok bs → ∀ b ∈ bs, ∃ a ∈ as, f a = .ok b := by
  intro as
  induction as with
  | nil => intro bs h b hb; simp only [mapMExcept, Except.ok.injEq] at h; subst h; simp at hb
  | cons a as ih =>
    intro bs h b hb
    simp only [mapMExcept] at h
    split at h
    · simp at h
    · rename_i b0 hb0
      split at h
      · simp at h
      · rename_i bs0 hbs0
        simp only [Except.ok.injEq] at h
        subst h
        simp only [List.mem_cons] at hb
        rcases hb with rfl | hb
        · exact ⟨a, by simp, hb0⟩
        · obtain ⟨a', ha', hfa'⟩ := ih bs0 hbs0 b hb
          exact ⟨a', by simp [ha'], hfa'⟩

theorem precomputeW_eq (bits nC g : Nat) (ntr : List (Nat × Nat))
    (files : List (Nat × List CellRec)) (rows nProc : Nat) (buf : Buffer)
    (h : precompute nC g ntr files rows nProc = .ok buf) (hfit : fitsBits bits buf = true) :
    precomputeW bits nC g ntr files rows nProc = .ok buf := by
  simp only [precompute] at h
  simp only [precomputeW]
  split at h
  · simp at h
  · rename_i loads hloads
    split at h
    · simp at h
    · rename_i bufs hbufs
      have hlen : ∀ b ∈ bufs, b.length = nC := by
        intro b hb
        obtain ⟨l, _, hl⟩ := mapMExcept_mem _ _ _ hbufs b hb
        exact processSpec_length nC g ntr l b hl
      cases bufs with
      | nil => simp [mergeBuffers] at h
      | cons b bs =>
        simp only [mergeBuffers, Except.ok.injEq] at h
        simp only [mergeBuffersW]
        rw [foldl_wrap_eq bits nC (b :: bs) (zeroBuffer nC g) (by simp [zeroBuffer]) hlen
          (by rw [h]; exact (fitsBits_iff bits buf).mp hfit), h]

/-- all three counts of an entry are at most `k` -/
def CountsLe (k : Nat) (s : GStat) : Prop := s.gt0 ≤ k ∧ s.gt1 ≤ k ∧ s.ge1 ≤ k

theorem vadd_countsLe (k1 k2 : Nat) : ∀ (x y : List GStat),
    (∀ a ∈ x, CountsLe k1 a) → (∀ b ∈ y, CountsLe k2 b) →
      ∀ t ∈ vadd x y, CountsLe (k1 + k2) t := by
  intro x
  induction x with
  | nil =>
    intro y _ hy t ht
    obtain ⟨a, b, c⟩ := hy t (by simpa using ht)
    exact ⟨by omega, by omega, by omega⟩
  | cons a x ih =>
    intro y hx hy t ht
    cases y with
    | nil =>
      obtain ⟨a1, b1, c1⟩ := hx t (by simpa using ht)
      exact ⟨by omega, by omega, by omega⟩
    | cons b y =>
      simp only [vadd_cons, List.mem_cons] at ht
      rcases ht with rfl | ht
      · obtain ⟨a1, a2, a3⟩ := hx a (by simp)
        obtain ⟨b1, b2, b3⟩ := hy b (by simp)
        simp only [CountsLe, GStat.add]
        omega
      · exact ih y (fun a' ha' => hx a' (by simp [ha'])) (fun b' hb' => hy b' (by simp [hb'])) t ht

theorem geneStat_countsLe (v : Rat) : CountsLe 1 (geneStat v) := by
  simp only [CountsLe, geneStat, above]
  refine ⟨?_, ?_, ?_⟩ <;> (repeat' split) <;> omega

theorem rowSum_cellStat_countsLe : ∀ (L : List CellRec),
    ∀ s ∈ (rowSum (L.map (fun cell => cellStat cell.vals))).genes, CountsLe L.length s := by
  intro L
  induction L with
  | nil => intro s hs; simp [Row.empty] at hs
  | cons c L ih =>
    intro s hs
    simp only [List.map_cons, rowSum_cons, Row.add, cellStat] at hs
    have := vadd_countsLe 1 L.length _ _ (by
      intro a ha
      simp only [List.mem_map] at ha
      obtain ⟨v, _, rfl⟩ := ha
      exact geneStat_countsLe v) ih s hs
    simpa [Nat.add_comm] using this

theorem precompute_fits (bits nC g : Nat) (ntr : List (Nat × Nat))
    (files : List (Nat × List CellRec)) (rows nProc : Nat)
    (hrows : 1 ≤ rows) (hproc : 1 ≤ nProc) (hntr : ∀ p ∈ ntr, p.2 < nC)
    (hw : ∃ f ∈ files, wanted ntr f.2 = true)
    (hfew : (files.flatMap (·.2)).length < 2 ^ bits) :
    ∃ buf, precompute nC g ntr files rows nProc = .ok buf ∧ fitsBits bits buf = true := by
  obtain ⟨buf, e, hl, r⟩ := precompute_spec nC g ntr files rows nProc hrows hproc hntr hw
  refine ⟨buf, e, (fitsBits_iff bits buf).mpr fun row hrow => ?_⟩
  obtain ⟨c, hc, rfl⟩ := List.getElem_of_mem hrow
  have hrc := r c (by omega)
  rw [List.getElem?_eq_getElem hc] at hrc
  simp only [Option.some.injEq] at hrc
  rw [hrc]
  have hmem : (cellsOfRow ntr c (files.flatMap (·.2))).length ≤ (files.flatMap (·.2)).length :=
    List.length_filter_le _ _
  refine ⟨?_, fun s hs => ?_⟩
  · simp only [Row.add, Row.zero, S, rowSum_cellStat_n]
    omega
  · simp only [Row.add, Row.zero, S] at hs
    have := vadd_countsLe 0 _ _ _ (by
      intro a ha
      simp only [List.mem_replicate] at ha
      rw [ha.2]; exact ⟨by simp [GStat.zero], by simp [GStat.zero], by simp [GStat.zero]⟩)
      (rowSum_cellStat_countsLe (cellsOfRow ntr c (files.flatMap (·.2)))) s hs
    obtain ⟨a1, a2, a3⟩ := this
    exact ⟨by omega, by omega, by omega⟩


/-! ### any assignment of the chunks to workers -/

theorem precompute_eq_loads (nC g : Nat) (ntr : List (Nat × Nat))
    (files : List (Nat × List CellRec)) (rows nProc : Nat) :
    precompute nC g ntr files rows nProc
      = (match workSplit (files.filter (fun f => wanted ntr f.2)) rows nProc with
          | .error e => .error e
          | .ok loads => precomputeLoads nC g ntr loads) := rfl

theorem precomputeLoads_spec (nC g : Nat) (ntr : List (Nat × Nat)) (loads : List (List Chunk))
    (hntr : ∀ p ∈ ntr, p.2 < nC) (hne : loads ≠ []) :
    ∃ buf, precomputeLoads nC g ntr loads = .ok buf ∧ buf.length = nC ∧
      ∀ c : Nat, c < nC →
        buf[c]? = some ((Row.zero g).add (S ntr c (loads.flatten.flatMap (·.cells)))) := by
  obtain ⟨bufs, hbufs, hF⟩ := mapMExcept_ok (processSpec nC g ntr)
    (fun (l : List Chunk) (b : Buffer) => b.length = nC ∧
      ∀ c : Nat, c < nC → b[c]? = some ((Row.zero g).add (S ntr c (l.flatMap (·.cells))))) loads
    (fun l _ => by
      obtain ⟨b, h1, h2, h3⟩ := processSpec_spec nC g ntr l hntr
      exact ⟨b, h1, h2, h3⟩)
  have hbufs_ne : bufs ≠ [] := by
    intro h; subst h
    cases hF
    exact hne rfl
  obtain ⟨h1, h2⟩ := foldl_bufZipAdd nC g (fun c (l : List Chunk) => S ntr c (l.flatMap (·.cells)))
    loads bufs hF (zeroBuffer nC g) (fun _ => Row.empty) (by simp [zeroBuffer])
    (fun c hc => by simp [zeroBuffer, hc])
  refine ⟨bufs.foldl bufZipAdd (zeroBuffer nC g), ?_, h1, fun c hc => ?_⟩
  · simp only [precomputeLoads, hbufs]
    cases bufs with
    | nil => exact absurd rfl hbufs_ne
    | cons b bs => simp [mergeBuffers]
  · rw [h2 c hc, Row.empty_add, S_flatten]

theorem S_perm (ntr : List (Nat × Nat)) (c : Nat) {A B : List CellRec} (h : A.Perm B) :
    S ntr c A = S ntr c B := by
  simp only [S, cellsOfRow]
  exact rowSum_perm ((h.filter _).map _)

theorem precomputeLoads_perm_spec (nC g : Nat) (ntr : List (Nat × Nat))
    (files : List (Nat × List CellRec)) (rows : Nat) (loads : List (List Chunk))
    (hrows : 1 ≤ rows) (hntr : ∀ p ∈ ntr, p.2 < nC) (hne : loads ≠ [])
    (hperm : loads.flatten.Perm (allChunks ntr files rows)) :
    ∃ buf, precomputeLoads nC g ntr loads = .ok buf ∧ buf.length = nC ∧
      ∀ c : Nat, c < nC → buf[c]? = some ((Row.zero g).add (S ntr c (files.flatMap (·.2)))) := by
  obtain ⟨buf, h1, h2, h3⟩ := precomputeLoads_spec nC g ntr loads hntr hne
  refine ⟨buf, h1, h2, fun c hc => ?_⟩
  rw [h3 c hc, S_perm ntr c (hperm.flatMap_right _)]
  simp only [allChunks, allChunks_cells _ _ hrows]
  simp only [S, cellsOfRow_filter_wanted]

theorem precomputeLoads_eq_precompute (nC g : Nat) (ntr : List (Nat × Nat))
    (files : List (Nat × List CellRec)) (rows nProc : Nat) (loads : List (List Chunk))
    (hrows : 1 ≤ rows) (hproc : 1 ≤ nProc) (hntr : ∀ p ∈ ntr, p.2 < nC)
    (hw : ∃ f ∈ files, wanted ntr f.2 = true) (hne : loads ≠ [])
    (hperm : loads.flatten.Perm (allChunks ntr files rows)) :
    precomputeLoads nC g ntr loads = precompute nC g ntr files rows nProc := by
  obtain ⟨b₁, e₁, l₁, r₁⟩ := precomputeLoads_perm_spec nC g ntr files rows loads hrows hntr hne hperm
  obtain ⟨b₂, e₂, l₂, r₂⟩ := precompute_spec nC g ntr files rows nProc hrows hproc hntr hw
  rw [e₁, e₂]
  congr 1
  apply List.ext_getElem?
  intro c
  by_cases hc : c < nC
  · rw [r₁ c hc, r₂ c hc]
  · rw [List.getElem?_eq_none (by omega), List.getElem?_eq_none (by omega)]

end CTM.Stats
