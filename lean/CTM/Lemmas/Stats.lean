/-
  Lemmas about the reference-statistics model (`CTM.Model.Stats`), used by
  `CTM.Props.C09`.
-/
import CTM.Model.Stats
import Mathlib.Tactic.Ring
import Mathlib.Tactic.Linarith
import Mathlib.Tactic.NormNum
import Mathlib.Tactic.FieldSimp
import Mathlib.Data.List.Perm.Basic
import Mathlib.Algebra.Order.Field.Rat

namespace CTM.Stats

/-! ### A. algebra of the accumulators -/

theorem GStat.ext' {a b : GStat} (h1 : a.sum = b.sum) (h2 : a.sumsq = b.sumsq)
    (h3 : a.gt0 = b.gt0) (h4 : a.gt1 = b.gt1) (h5 : a.ge1 = b.ge1) : a = b := by
  cases a; cases b; simp_all

theorem GStat.add_comm (a b : GStat) : a.add b = b.add a := by
  apply GStat.ext' <;> simp only [GStat.add] <;> ring

theorem GStat.add_assoc (a b c : GStat) : (a.add b).add c = a.add (b.add c) := by
  apply GStat.ext' <;> simp only [GStat.add] <;> ring

theorem GStat.zero_add (a : GStat) : GStat.zero.add a = a := by
  apply GStat.ext' <;> simp [GStat.add, GStat.zero]

theorem GStat.add_zero (a : GStat) : a.add GStat.zero = a := by
  apply GStat.ext' <;> simp [GStat.add, GStat.zero]

@[simp] theorem vadd_nil_left (x : List GStat) : vadd [] x = x := by
  simp [vadd]

@[simp] theorem vadd_nil_right (x : List GStat) : vadd x [] = x := by
  cases x <;> simp [vadd]

@[simp] theorem vadd_cons (x y : GStat) (xs ys : List GStat) :
    vadd (x :: xs) (y :: ys) = x.add y :: vadd xs ys := by
  simp [vadd]

theorem vadd_comm (x y : List GStat) : vadd x y = vadd y x := by
  induction x generalizing y with
  | nil => simp
  | cons a x ih =>
    cases y with
    | nil => simp
    | cons b y => simp [GStat.add_comm a b, ih y]

theorem vadd_assoc (x y z : List GStat) : vadd (vadd x y) z = vadd x (vadd y z) := by
  induction x generalizing y z with
  | nil => simp
  | cons a x ih =>
    cases y with
    | nil => simp
    | cons b y =>
      cases z with
      | nil => simp
      | cons c z => simp [GStat.add_assoc, ih]

theorem vadd_length (x y : List GStat) : (vadd x y).length = max x.length y.length := by
  induction x generalizing y with
  | nil => simp
  | cons a x ih =>
    cases y with
    | nil => simp
    | cons b y => simp [ih]

theorem Row.ext' {a b : Row} (h1 : a.n = b.n) (h2 : a.genes = b.genes) : a = b := by
  cases a; cases b; simp_all

theorem Row.add_comm (a b : Row) : a.add b = b.add a := by
  apply Row.ext' <;> simp only [Row.add]
  · omega
  · exact vadd_comm _ _

theorem Row.add_assoc (a b c : Row) : (a.add b).add c = a.add (b.add c) := by
  apply Row.ext' <;> simp only [Row.add]
  · omega
  · exact vadd_assoc _ _ _

@[simp] theorem Row.empty_add (a : Row) : Row.empty.add a = a := by
  apply Row.ext' <;> simp [Row.add, Row.empty]

@[simp] theorem Row.add_empty (a : Row) : a.add Row.empty = a := by
  apply Row.ext' <;> simp [Row.add, Row.empty]

theorem Row.add_left_comm (a b c : Row) : a.add (b.add c) = b.add (a.add c) := by
  rw [← Row.add_assoc, Row.add_comm a b, Row.add_assoc]

theorem vadd_replicate_zero (g : Nat) :
    vadd (List.replicate g GStat.zero) (List.replicate g GStat.zero)
      = List.replicate g GStat.zero := by
  induction g with
  | zero => simp
  | succ g ih => simp [List.replicate_succ, ih, GStat.zero_add]

theorem Row.zero_add_zero (g : Nat) : (Row.zero g).add (Row.zero g) = Row.zero g := by
  apply Row.ext' <;> simp [Row.add, Row.zero, vadd_replicate_zero]

@[simp] theorem rowSum_nil : rowSum [] = Row.empty := rfl
@[simp] theorem rowSum_cons (r : Row) (rs : List Row) : rowSum (r :: rs) = r.add (rowSum rs) := rfl

theorem rowSum_append (a b : List Row) : rowSum (a ++ b) = (rowSum a).add (rowSum b) := by
  induction a with
  | nil => simp
  | cons r a ih => simp [ih, Row.add_assoc]

theorem rowSum_perm {a b : List Row} (h : a.Perm b) : rowSum a = rowSum b := by
  induction h with
  | nil => rfl
  | cons x _ ih => simp [ih]
  | swap x y l => simp [Row.add_left_comm]
  | trans _ _ ih1 ih2 => exact ih1.trans ih2

theorem rowSum_flatten (ls : List (List Row)) : rowSum ls.flatten = rowSum (ls.map rowSum) := by
  induction ls with
  | nil => rfl
  | cons l ls ih => simp [rowSum_append, ih]

/-! ### mean and variance from `(n, sum, sumsq)` -/

theorem sum_sq_dev (xs : List Rat) (m : Rat) :
    (xs.map (fun x => (x - m) ^ 2)).sum
      = (xs.map (fun x => x * x)).sum - 2 * m * xs.sum + (xs.length : Rat) * m ^ 2 := by
  induction xs with
  | nil => simp
  | cons x xs ih => simp only [List.map_cons, List.sum_cons, List.length_cons, ih]; push_cast; ring

theorem meanOf_mul (n : Nat) (s : Rat) (hn : 1 ≤ n) : meanOf n s * (n : Rat) = s := by
  have h1 : max 1 n = n := by omega
  have h2 : (n : Rat) ≠ 0 := by
    have : (1 : Rat) ≤ (n : Rat) := by exact_mod_cast hn
    linarith
  simp only [meanOf, h1]
  field_simp

theorem varOf_mul (xs : List Rat) (hn : 2 ≤ xs.length) :
    varOf xs.length xs.sum (xs.map (fun x => x * x)).sum * ((xs.length : Rat) - 1)
      = (xs.map (fun x => (x - meanOf xs.length xs.sum) ^ 2)).sum := by
  have h1 : max 1 xs.length = xs.length := by omega
  have h1' : max 1 (xs.length - 1) = xs.length - 1 := by omega
  have hc : ((xs.length - 1 : Nat) : Rat) = (xs.length : Rat) - 1 := by
    rw [Nat.cast_sub (by omega)]; simp
  have h2 : (2 : Rat) ≤ (xs.length : Rat) := by exact_mod_cast hn
  have h3 : (xs.length : Rat) ≠ 0 := by linarith
  have h4 : (xs.length : Rat) - 1 ≠ 0 := by linarith
  rw [sum_sq_dev]
  simp only [varOf, meanOf, h1, h1', hc]
  field_simp
  ring

/-! ### the fields of `summaryStats` are plain column sums -/

theorem vadd_getElem? (x y : List GStat) (j : Nat) :
    (vadd x y)[j]? = match x[j]?, y[j]? with
      | some a, some b => some (a.add b)
      | some a, none => some a
      | none, some b => some b
      | none, none => none := by
  induction x generalizing y j with
  | nil => simp; cases y[j]? <;> rfl
  | cons a x ih =>
    cases y with
    | nil => simp; cases (a :: x)[j]? <;> rfl
    | cons b y =>
      cases j with
      | zero => simp
      | succ j => simp [ih]

/-- the column-`j` accumulator of a block of cells -/
def colStat (cells : List (List Rat)) (j : Nat) : GStat :=
  (cells.map (fun c => geneStat (c.getD j 0))).foldr GStat.add GStat.zero

theorem foldr_add_fields (L : List GStat) :
    (L.foldr GStat.add GStat.zero).sum = (L.map (·.sum)).sum ∧
    (L.foldr GStat.add GStat.zero).sumsq = (L.map (·.sumsq)).sum ∧
    (L.foldr GStat.add GStat.zero).gt0 = (L.map (·.gt0)).sum ∧
    (L.foldr GStat.add GStat.zero).gt1 = (L.map (·.gt1)).sum ∧
    (L.foldr GStat.add GStat.zero).ge1 = (L.map (·.ge1)).sum := by
  induction L with
  | nil => simp [GStat.zero]
  | cons a L ih =>
    obtain ⟨h1, h2, h3, h4, h5⟩ := ih
    simp [GStat.add, h1, h2, h3, h4, h5]

theorem colStat_fields (cells : List (List Rat)) (j : Nat) :
    (colStat cells j).sum = (cells.map (fun c => c.getD j 0)).sum ∧
    (colStat cells j).sumsq = (cells.map (fun c => c.getD j 0 * c.getD j 0)).sum ∧
    (colStat cells j).gt0 = (cells.map (fun c => (geneStat (c.getD j 0)).gt0)).sum ∧
    (colStat cells j).gt1 = (cells.map (fun c => (geneStat (c.getD j 0)).gt1)).sum ∧
    (colStat cells j).ge1 = (cells.map (fun c => (geneStat (c.getD j 0)).ge1)).sum := by
  have := foldr_add_fields (cells.map (fun c => geneStat (c.getD j 0)))
  simpa [colStat, List.map_map, Function.comp_def, geneStat] using this

theorem summaryStats_n (cells : List (List Rat)) : (summaryStats cells).n = cells.length := by
  induction cells with
  | nil => rfl
  | cons c cells ih =>
    simp only [summaryStats, List.map_cons, rowSum_cons, Row.add, cellStat, List.length_cons] at ih ⊢
    omega

theorem summaryStats_genes (g : Nat) (cells : List (List Rat))
    (hlen : ∀ c ∈ cells, c.length = g) (j : Nat) (hj : j < g) :
    (summaryStats cells).genes[j]? = if cells = [] then none else some (colStat cells j) := by
  induction cells with
  | nil => simp [summaryStats, Row.empty]
  | cons c cells ih =>
    have hc : c.length = g := hlen c (by simp)
    have ih' := ih (fun c hc => hlen c (by simp [hc]))
    have hj' : j < c.length := by omega
    simp only [summaryStats] at ih'
    simp only [summaryStats, List.map_cons, rowSum_cons, Row.add, cellStat, vadd_getElem?, ih']
    have e1 : (List.map geneStat c)[j]? = some (geneStat (c.getD j 0)) := by
      simp [List.getElem?_map, List.getD_eq_getElem?_getD, List.getElem?_eq_getElem hj']
    rw [e1]
    by_cases h : cells = []
    · subst h; simp [colStat, GStat.add_zero]
    · simp [h, colStat]

theorem zero_add_summaryStats_genes (g : Nat) (cells : List (List Rat))
    (hlen : ∀ c ∈ cells, c.length = g) (j : Nat) (hj : j < g) :
    ((Row.zero g).add (summaryStats cells)).genes[j]? = some (colStat cells j) := by
  simp only [Row.add, vadd_getElem?, summaryStats_genes g cells hlen j hj, Row.zero]
  have : (List.replicate g GStat.zero)[j]? = some GStat.zero := by simp [hj]
  rw [this]
  by_cases h : cells = []
  · subst h; simp [colStat]
  · simp [h, GStat.zero_add]

/-! ### thresholds -/

theorem strictMono_lt_iff (f : Rat → Rat) (hf : ∀ a b, a < b → f a < f b) (a b : Rat) :
    f a < f b ↔ a < b := by
  constructor
  · intro h
    by_contra hn
    rcases lt_or_eq_of_le (not_lt.mp hn) with h' | h'
    · exact absurd (hf b a h') (not_lt.mpr (le_of_lt h))
    · rw [h'] at h; exact lt_irrefl _ h
  · exact hf a b

/-! ### chunk ranges tile the rows -/

theorem chunkRangesAux_tile {α : Type} (xs : List α) (rows : Nat) (hrows : 1 ≤ rows) :
    ∀ (fuel r0 : Nat), xs.length - r0 ≤ fuel →
      ((chunkRangesAux xs.length rows fuel r0).map
          (fun p => (xs.drop p.1).take (p.2 - p.1))).flatten = xs.drop r0 := by
  intro fuel
  induction fuel with
  | zero =>
    intro r0 h
    have : xs.length ≤ r0 := by omega
    simp [chunkRangesAux, List.drop_eq_nil_of_le this]
  | succ fuel ih =>
    intro r0 h
    unfold chunkRangesAux
    by_cases hlt : r0 < xs.length
    · simp only [hlt, if_true, List.map_cons, List.flatten_cons]
      rw [ih (r0 + rows) (by omega)]
      by_cases hle : r0 + rows ≤ xs.length
      · have : min xs.length (r0 + rows) - r0 = rows := by omega
        rw [this, ← List.drop_drop, List.take_append_drop]
      · have h1 : min xs.length (r0 + rows) - r0 = xs.length - r0 := by omega
        have h2 : xs.drop (r0 + rows) = [] := List.drop_eq_nil_of_le (by omega)
        rw [h1, h2, List.append_nil]
        apply List.take_of_length_le
        simp
    · have : xs.length ≤ r0 := by omega
      simp [hlt, List.drop_eq_nil_of_le this]

/-- the row ranges `(r0, r1)` of `range(0, n, rows)` cut any list of `n` rows
into consecutive slices that concatenate back to it -/
theorem chunkRanges_tile {α : Type} (xs : List α) (rows : Nat) (hrows : 1 ≤ rows) :
    ((chunkRanges xs.length rows).map (fun p => (xs.drop p.1).take (p.2 - p.1))).flatten = xs := by
  have := chunkRangesAux_tile xs rows hrows xs.length 0 (by omega)
  simpa [chunkRanges] using this

theorem chunkRangesAux_bounds (n rows : Nat) (hrows : 1 ≤ rows) :
    ∀ (fuel r0 : Nat) (p : Nat × Nat), p ∈ chunkRangesAux n rows fuel r0 →
      r0 ≤ p.1 ∧ p.1 < p.2 ∧ p.2 ≤ n ∧ p.2 - p.1 ≤ rows := by
  intro fuel
  induction fuel with
  | zero => intro r0 p h; simp [chunkRangesAux] at h
  | succ fuel ih =>
    intro r0 p h
    unfold chunkRangesAux at h
    by_cases hlt : r0 < n
    · simp only [hlt, if_true, List.mem_cons] at h
      rcases h with h | h
      · subst h; simp; omega
      · have := ih _ _ h; omega
    · simp [hlt] at h

theorem chunkRanges_bounds (n rows : Nat) (hrows : 1 ≤ rows) (p : Nat × Nat)
    (h : p ∈ chunkRanges n rows) : p.1 < p.2 ∧ p.2 ≤ n ∧ p.2 - p.1 ≤ rows := by
  have := chunkRangesAux_bounds n rows hrows n 0 p h
  omega

theorem chunkRanges_range (n rows : Nat) (hrows : 1 ≤ rows) :
    (chunkRanges n rows).flatMap (fun p => List.range' p.1 (p.2 - p.1)) = List.range n := by
  have h := chunkRanges_tile (List.range n) rows hrows
  simp only [List.length_range] at h
  rw [List.flatMap_def]
  conv => rhs; rw [← h]
  congr 1
  apply List.map_congr_left
  intro p hp
  have hb := chunkRanges_bounds n rows hrows p hp
  rw [List.range_eq_range', List.drop_range', List.take_range'_of_length_ge (by omega)]
  congr 1; omega

theorem fileChunks_cells (rows f : Nat) (cells : List CellRec) (hrows : 1 ≤ rows) :
    (fileChunks rows f cells).flatMap (·.cells) = cells := by
  have := chunkRanges_tile cells rows hrows
  simpa [fileChunks, List.flatMap_def, List.map_map, Function.comp_def, slice] using this

theorem fileChunks_mem (rows f : Nat) (cells : List CellRec) (hrows : 1 ≤ rows) (c : Chunk)
    (h : c ∈ fileChunks rows f cells) :
    c.r0 < c.r1 ∧ c.r1 ≤ cells.length ∧ c.cells.length = c.r1 - c.r0 ∧ c.file = f ∧
      c.r1 - c.r0 ≤ rows := by
  simp only [fileChunks, List.mem_map] at h
  obtain ⟨p, hp, rfl⟩ := h
  have hb := chunkRanges_bounds cells.length rows hrows p hp
  dsimp only
  simp only [slice, List.length_take, List.length_drop]
  refine ⟨by omega, by omega, by omega, trivial, by omega⟩

/-! ### the work split -/

/-- total number of rows of a list of chunks -/
def sizeSum (cs : List Chunk) : Nat := (cs.map (fun c => c.r1 - c.r0)).sum

@[simp] theorem sizeSum_nil : sizeSum [] = 0 := rfl
@[simp] theorem sizeSum_cons (c : Chunk) (cs : List Chunk) :
    sizeSum (c :: cs) = (c.r1 - c.r0) + sizeSum cs := by simp [sizeSum]
theorem sizeSum_append (a b : List Chunk) : sizeSum (a ++ b) = sizeSum a + sizeSum b := by
  simp [sizeSum]

theorem sizeSum_eq_length (cs : List Chunk) (h : ∀ c ∈ cs, c.cells.length = c.r1 - c.r0) :
    sizeSum cs = (cs.flatMap (·.cells)).length := by
  induction cs with
  | nil => rfl
  | cons c cs ih =>
    simp only [sizeSum_cons, List.flatMap_cons, List.length_append]
    rw [ih (fun c hc => h c (by simp [hc])), h c (by simp)]

theorem sizeSum_fileChunks (rows f : Nat) (cells : List CellRec) (hrows : 1 ≤ rows) :
    sizeSum (fileChunks rows f cells) = cells.length := by
  rw [sizeSum_eq_length _ (fun c hc => (fileChunks_mem rows f cells hrows c hc).2.2.1),
    fileChunks_cells rows f cells hrows]

theorem sizeSum_allChunks (rows : Nat) (files : List (Nat × List CellRec)) (hrows : 1 ≤ rows) :
    sizeSum (files.flatMap (fun f => fileChunks rows f.1 f.2))
      = (files.map (fun f => f.2.length)).sum := by
  induction files with
  | nil => rfl
  | cons f files ih =>
    simp only [List.flatMap_cons, sizeSum_append, List.map_cons, List.sum_cons, ih,
      sizeSum_fileChunks _ _ _ hrows]

theorem allChunks_pos (rows : Nat) (files : List (Nat × List CellRec)) (hrows : 1 ≤ rows) :
    ∀ c ∈ files.flatMap (fun f => fileChunks rows f.1 f.2), c.r0 < c.r1 := by
  intro c hc
  simp only [List.mem_flatMap] at hc
  obtain ⟨f, _, hc⟩ := hc
  exact (fileChunks_mem rows f.1 f.2 hrows c hc).1

theorem le_mul_nPer (nTotal nProc : Nat) (h : 1 ≤ nProc) : nTotal ≤ nProc * nPer nTotal nProc := by
  have := Nat.lt_mul_div_succ (nTotal + nProc - 1) (show 0 < nProc by omega)
  simp only [nPer]
  rw [Nat.mul_add, Nat.mul_one] at this
  omega

theorem splitLoop_ok (nProc nPer : Nat) :
    ∀ (cs : List Chunk) (st : SplitState), (∀ c ∈ cs, c.r0 < c.r1) →
      st.done.length * (nPer + 1) + st.thisN + sizeSum cs ≤ nProc * nPer →
      ∃ st', splitLoop nProc nPer st cs = .ok st' := by
  intro cs
  induction cs with
  | nil => intro st _ _; exact ⟨st, rfl⟩
  | cons c cs ih =>
    intro st hpos hinv
    have hc : c.r0 < c.r1 := hpos c (by simp)
    have hpos' : ∀ c ∈ cs, c.r0 < c.r1 := fun c h => hpos c (by simp [h])
    rw [sizeSum_cons] at hinv
    have hlt : st.done.length < nProc := by
      by_contra hn
      have h1 : nProc * (nPer + 1) ≤ st.done.length * (nPer + 1) :=
        Nat.mul_le_mul_right _ (by omega)
      have h2 : nProc * nPer ≤ nProc * (nPer + 1) := Nat.mul_le_mul_left _ (by omega)
      omega
    simp only [splitLoop, splitStep, hlt, if_true]
    by_cases ht : st.thisN + (c.r1 - c.r0) > nPer
    · simp only [ht, if_true]
      apply ih _ hpos'
      simp only [List.length_append, List.length_singleton]
      rw [Nat.add_mul]
      omega
    · simp only [ht, if_false]
      apply ih _ hpos'
      simp only
      omega

theorem splitLoop_spec (nProc nPer : Nat) :
    ∀ (cs : List Chunk) (st st' : SplitState), splitLoop nProc nPer st cs = .ok st' →
      (st'.done ++ [st'.cur]).flatten = (st.done ++ [st.cur]).flatten ++ cs ∧
      (st.done.length + (if st.cur = [] then 0 else 1) ≤ nProc →
        st'.done.length + (if st'.cur = [] then 0 else 1) ≤ nProc) := by
  intro cs
  induction cs with
  | nil =>
    intro st st' h
    simp only [splitLoop, Except.ok.injEq] at h
    subst h; simp
  | cons c cs ih =>
    intro st st' h
    simp only [splitLoop, splitStep] at h
    by_cases hlt : st.done.length < nProc
    · simp only [hlt, if_true] at h
      by_cases ht : st.thisN + (c.r1 - c.r0) > nPer
      · simp only [ht, if_true] at h
        obtain ⟨h1, h2⟩ := ih _ _ h
        refine ⟨?_, fun _ => h2 ?_⟩
        · rw [h1]; simp
        · simp; omega
      · simp only [ht, if_false] at h
        obtain ⟨h1, h2⟩ := ih _ _ h
        refine ⟨?_, fun _ => h2 ?_⟩
        · rw [h1]; simp
        · simp; omega
    · simp [hlt] at h

theorem flatten_filter_nonempty {α : Type} (ls : List (List α)) :
    (ls.filter (fun l => !l.isEmpty)).flatten = ls.flatten := by
  induction ls with
  | nil => rfl
  | cons l ls ih =>
    cases l with
    | nil => simp [ih]
    | cons a l => simp [ih]

theorem length_filter_nonempty_snoc {α : Type} (ls : List (List α)) (l : List α) :
    ((ls ++ [l]).filter (fun l => !l.isEmpty)).length ≤ ls.length + (if l = [] then 0 else 1) := by
  rw [List.filter_append, List.length_append]
  have := List.length_filter_le (fun l : List α => !l.isEmpty) ls
  cases l with
  | nil => simp; omega
  | cons a l => simp; omega

theorem workSplit_ok (files : List (Nat × List CellRec)) (rows nProc : Nat)
    (hrows : 1 ≤ rows) (hproc : 1 ≤ nProc) : ∃ loads, workSplit files rows nProc = .ok loads := by
  have h1 : ¬ nProc = 0 := by omega
  have h2 : (rows = 0 && !files.isEmpty) = false := by
    have : ¬ rows = 0 := by omega
    simp [this]
  obtain ⟨st', hst⟩ := splitLoop_ok nProc (nPer (files.map (fun f => f.2.length)).sum nProc)
    (files.flatMap (fun f => fileChunks rows f.1 f.2)) ⟨[], [], 0⟩
    (allChunks_pos rows files hrows)
    (by
      rw [sizeSum_allChunks rows files hrows]
      have := le_mul_nPer (files.map (fun f => f.2.length)).sum nProc hproc
      simpa using this)
  refine ⟨(st'.done ++ [st'.cur]).filter (fun l => !l.isEmpty), ?_⟩
  simp only [workSplit, h1, h2, if_false, Bool.false_eq_true, hst]

theorem workSplit_spec (files : List (Nat × List CellRec)) (rows nProc : Nat)
    (loads : List (List Chunk)) (h : workSplit files rows nProc = .ok loads) :
    loads.flatten = files.flatMap (fun f => fileChunks rows f.1 f.2) ∧
      loads.length ≤ nProc ∧ ∀ l ∈ loads, l ≠ [] := by
  simp only [workSplit] at h
  by_cases h1 : nProc = 0
  · simp [h1] at h
  · simp only [h1, if_false] at h
    by_cases h2 : (rows = 0 && !files.isEmpty) = true
    · simp [h2] at h
    · rw [if_neg h2] at h
      split at h
      · simp at h
      · rename_i st hst
        simp only [Except.ok.injEq] at h
        subst h
        obtain ⟨e1, e2⟩ := splitLoop_spec _ _ _ _ _ hst
        refine ⟨?_, ?_, ?_⟩
        · rw [flatten_filter_nonempty, e1]; simp
        · have := length_filter_nonempty_snoc st.done st.cur
          have := e2 (by simp)
          omega
        · intro l hl
          simp only [List.mem_filter] at hl
          intro hnil
          simp [hnil] at hl

/-! ### `merge_precompute_files` -/

theorem mostIdx_bound : ∀ (bs : List Buffer) (i best tot : Nat),
    mostIdx bs i best tot = best ∨
      (i ≤ mostIdx bs i best tot ∧ mostIdx bs i best tot < i + bs.length) := by
  intro bs
  induction bs with
  | nil => intro i best tot; left; rfl
  | cons b bs ih =>
    intro i best tot
    simp only [mostIdx]
    split
    · rcases ih (i + 1) i (totalCells b) with h | h
      · right; rw [h]; simp
      · right; simp only [List.length_cons]; omega
    · rcases ih (i + 1) best tot with h | h
      · left; exact h
      · right; simp only [List.length_cons]; omega

theorem replaceWhereMore_length (dst src : Buffer) :
    (replaceWhereMore dst src).length = min dst.length src.length := by
  simp [replaceWhereMore]

theorem replaceWhereMore_getElem? (dst src : Buffer) (r : Nat) (d s : Row)
    (hd : dst[r]? = some d) (hs : src[r]? = some s) :
    (replaceWhereMore dst src)[r]? = some (if s.n > d.n then s else d) := by
  simp [replaceWhereMore, List.getElem?_zipWith, hd, hs]

theorem foldl_replaceWhereMore (nC : Nat) :
    ∀ (others : List Buffer) (start : Buffer), start.length = nC →
      (∀ f ∈ others, f.length = nC) →
      (others.foldl replaceWhereMore start).length = nC ∧
      ∀ r, r < nC → ∃ f ∈ start :: others, ∃ row, f[r]? = some row ∧
        (others.foldl replaceWhereMore start)[r]? = some row ∧
        ∀ f' ∈ start :: others, ∀ row', f'[r]? = some row' → row'.n ≤ row.n := by
  intro others
  induction others with
  | nil =>
    intro start hs _
    refine ⟨hs, fun r hr => ⟨start, by simp, start[r], by simp [hs, hr], by simp [hs, hr], ?_⟩⟩
    intro f' hf' row' hrow'
    simp only [List.mem_singleton] at hf'
    subst hf'
    have : f'[r]? = some f'[r] := by simp [hs, hr]
    rw [this] at hrow'
    simp only [Option.some.injEq] at hrow'
    rw [hrow']
  | cons o others ih =>
    intro start hs hlen
    have ho : o.length = nC := hlen o (by simp)
    have hlen' : ∀ f ∈ others, f.length = nC := fun f hf => hlen f (by simp [hf])
    have hs' : (replaceWhereMore start o).length = nC := by
      rw [replaceWhereMore_length]; omega
    obtain ⟨h1, h2⟩ := ih (replaceWhereMore start o) hs' hlen'
    refine ⟨h1, fun r hr => ?_⟩
    obtain ⟨f, hf, row, hfr, hout, hmax⟩ := h2 r hr
    have hd : start[r]? = some start[r] := by simp [hs, hr]
    have hso : o[r]? = some o[r] := by simp [ho, hr]
    have hrep := replaceWhereMore_getElem? start o r _ _ hd hso
    have hmax0 := hmax (replaceWhereMore start o) (by simp) _ hrep
    have hmax' : ∀ f' ∈ start :: o :: others, ∀ row', f'[r]? = some row' → row'.n ≤ row.n := by
      intro f' hf' row' hrow'
      simp only [List.mem_cons] at hf'
      rcases hf' with rfl | rfl | hf'
      · rw [hd] at hrow'; simp only [Option.some.injEq] at hrow'; subst hrow'
        split at hmax0 <;> omega
      · rw [hso] at hrow'; simp only [Option.some.injEq] at hrow'; subst hrow'
        split at hmax0 <;> omega
      · exact hmax f' (by simp [hf']) row' hrow'
    simp only [List.foldl_cons]
    simp only [List.mem_cons] at hf
    rcases hf with rfl | hf
    · rw [hrep] at hfr
      simp only [Option.some.injEq] at hfr
      by_cases hgt : o[r].n > start[r].n
      · rw [if_pos hgt] at hfr
        exact ⟨o, by simp, row, by rw [hso, hfr], hout, hmax'⟩
      · rw [if_neg hgt] at hfr
        exact ⟨start, by simp, row, by rw [hd, hfr], hout, hmax'⟩
    · exact ⟨f, by simp [hf], row, hfr, hout, hmax'⟩

theorem mergeMax_spec (nC : Nat) (files : List Buffer) (hne : files ≠ [])
    (hlen : ∀ f ∈ files, f.length = nC) :
    ∃ out, mergeMax files = .ok out ∧ out.length = nC ∧
      ∀ r, r < nC → ∃ (k : Nat) (fk : Buffer) (row : Row), files[k]? = some fk ∧ fk[r]? = some row ∧
        out[r]? = some row ∧ ∀ f' ∈ files, ∀ row', f'[r]? = some row' → row'.n ≤ row.n := by
  cases files with
  | nil => exact absurd rfl hne
  | cons f0 rest =>
    have hk : mostIdx rest 1 0 (totalCells f0) < (f0 :: rest).length := by
      rcases mostIdx_bound rest 1 0 (totalCells f0) with h | h
      · rw [h]; simp
      · simp only [List.length_cons]; omega
    generalize hkdef : mostIdx rest 1 0 (totalCells f0) = k at hk
    have hstart : (f0 :: rest)[k]? = some (f0 :: rest)[k] := by simp
    generalize hsdef : (f0 :: rest)[k] = start at hstart
    generalize hfiles : f0 :: rest = files at *
    let others := ((files.zipIdx).filter (fun p => p.2 != k)).map (·.1)
    have hothers_mem : ∀ f ∈ others, f ∈ files := by
      intro f hf
      simp only [others, List.mem_map, List.mem_filter] at hf
      obtain ⟨⟨f', i⟩, ⟨hmem, _⟩, rfl⟩ := hf
      rw [List.mem_zipIdx_iff_getElem?] at hmem
      exact List.mem_of_getElem? hmem
    have hfiles_mem : ∀ f' ∈ files, f' = start ∨ f' ∈ others := by
      intro f' hf'
      obtain ⟨i, hi⟩ := List.getElem?_of_mem hf'
      by_cases hik : i = k
      · left; subst hik; rw [hstart] at hi; simpa using hi.symm
      · right
        simp only [others, List.mem_map, List.mem_filter]
        exact ⟨(f', i), ⟨by rw [List.mem_zipIdx_iff_getElem?]; exact hi, by simpa using hik⟩, rfl⟩
    have hstart_mem : start ∈ files := List.mem_of_getElem? hstart
    obtain ⟨h1, h2⟩ := foldl_replaceWhereMore nC others start (hlen _ hstart_mem)
      (fun f hf => hlen f (hothers_mem f hf))
    refine ⟨others.foldl replaceWhereMore start, ?_, h1, fun r hr => ?_⟩
    · subst hfiles
      simp only [mergeMax, hkdef, hstart, others, List.foldl_map]
    · obtain ⟨f, hf, row, hfr, hout, hmax⟩ := h2 r hr
      have hfmem : f ∈ files := by
        simp only [List.mem_cons] at hf
        rcases hf with rfl | hf
        · exact hstart_mem
        · exact hothers_mem f hf
      obtain ⟨i, hi⟩ := List.getElem?_of_mem hfmem
      refine ⟨i, f, row, hi, hfr, hout, fun f' hf' row' hrow' => ?_⟩
      rcases hfiles_mem f' hf' with rfl | h
      · exact hmax _ (by simp) row' hrow'
      · exact hmax f' (by simp [h]) row' hrow'

end CTM.Stats
