/-
  Compose × BridgeWF: what a VALIDATED taxonomy gives the composed model for
  free (reference rows exist at every question; a leaf lies below one child).
-/
import CTM.Lemmas.ComposeHome
import CTM.Lemmas.BridgeWF
namespace CTM.Compose
open CTM CTM.LevelLoop CTM.OutBridge CTM.Election CTM.Numeric

/-- on a taxonomy the validator accepts, every question the level loop puts
has a reference row: the `rows` part of `NoRaise` follows from the tree, what
remains is about the parameters only (an iteration exists, the subsets index
into the node's gene list, `n_assignments ≥ 1`) -/
theorem noRaiseAll_of_validate (P : ElectionParams) {t : RawTree}
    (hv : t.validate = .ok ()) (hN : t.hierarchy.Nodup)
    (hiters : ∀ p x, P.subsets p x ≠ [])
    (hrange : ∀ p x, ∀ s ∈ P.subsets p x, ∀ i ∈ s,
      i < (P.qcols p).length ∧ i < (P.rcols p).length)
    (hA : 1 ≤ P.nAssign) : NoRaiseAll P t := by
  have s := RawTree.strict_of_validate hv
  intro p l kids c hask _
  obtain ⟨plo, hmem, _, _, hne, hsub⟩ := hask
  refine ⟨hiters p c, hrange p c, ?_, hA⟩
  -- a child with a leaf
  obtain ⟨k, hk⟩ := List.exists_mem_of_ne_nil _ hne
  have hl : l ∈ t.hierarchy := by
    unfold levelPairs at hmem
    exact (List.of_mem_zip hmem).2
  obtain ⟨i, hi, rfl⟩ := List.mem_iff_getElem.1 hl
  have hleaf := RawTree.asLeaves_ne_nil s hN hi (hsub k hk)
  obtain ⟨lf, hlf⟩ := List.exists_mem_of_ne_nil _ hleaf
  have : lf ∈ (nodeRows (kidsOf t t.hierarchy[i] kids)).1 := by
    refine (nodeRows_mem _ lf).2 ⟨k, ?_, ?_⟩
    · rw [kidsOf_fst]; exact hk
    · rw [leavesOfKids_kidsOf t _ _ k hk]; exact hlf
  exact List.ne_nil_of_mem this

end CTM.Compose

namespace CTM.Compose
open CTM CTM.LevelLoop CTM.OutBridge CTM.Election CTM.Numeric

/-- on a validated taxonomy a leaf lies below at most one node of a level: the
uniqueness clause of `HomePath` ("the only child whose leaves contain `lf`")
holds for any two nodes of the child level -/
theorem leaf_unique_child {t : RawTree} (hv : t.validate = .ok ()) (d : RawTree.DictOK t)
    (hN : t.hierarchy.Nodup) {i : Nat} (hi : i < t.hierarchy.length) {a k lf : Node}
    (ha : a ∈ t.nodesAt t.hierarchy[i]) (hk : k ∈ t.nodesAt t.hierarchy[i])
    (hl : lf ∈ t.nodesAt (t.hierarchy[t.hierarchy.length - 1]'(by omega)))
    (h1 : lf ∈ t.asLeaves t.hierarchy[i] a) (h2 : lf ∈ t.asLeaves t.hierarchy[i] k) : a = k := by
  have s := RawTree.strict_of_validate hv
  have e1 := (RawTree.mem_asLeaves_iff_ancestorAt s d hN hi ha hl).1 h1
  have e2 := (RawTree.mem_asLeaves_iff_ancestorAt s d hN hi hk hl).1 h2
  rw [e1] at e2
  exact Option.some.inj e2

end CTM.Compose
namespace CTM.Compose
open CTM CTM.LevelLoop CTM.OutBridge CTM.Election CTM.Numeric

/-- the guard of C18 at every node below which the leaf `lf` lies (the nodes on
its path) and which offers a choice -/
def GuardBelow (P : ElectionParams) (t : RawTree) (x : List Rat) (lf : Node) : Prop :=
  ∀ p ∈ t.allParents, ∀ l ∈ t.hierarchy, ∀ (kids : List Node), t.children p = .ok kids →
    2 ≤ kids.length → lf ∈ (nodeRows (kidsOf t l kids)).1 →
    NodeGuard P p (kidsOf t l kids) x lf

/-- on a validated taxonomy the way home of a leaf exists and is determined by
the tree: from a position `p` whose children `kids` (nodes of level `i`)
contain one with `lf` below it, the rest of the path down to the leaf level -/
theorem exists_homePath_from (P : ElectionParams) {t : RawTree} (hv : t.validate = .ok ())
    (d : RawTree.DictOK t) (hN : t.hierarchy.Nodup) (x : List Rat) (lf : Node)
    (hl : lf ∈ t.nodesAt (t.hierarchy[t.hierarchy.length - 1]'(by
      have := RawTree.hierarchy_ne_nil_of_validate hv
      have := List.length_pos_of_ne_nil this
      omega)))
    (hg : GuardBelow P t x lf) :
    ∀ (n i : Nat) (hi : i < t.hierarchy.length), n = t.hierarchy.length - i →
      ∀ (p : Parent) (kids : List Node), p ∈ t.allParents → t.children p = .ok kids →
        (∀ k ∈ kids, k ∈ t.nodesAt t.hierarchy[i]) →
        (∃ a ∈ kids, lf ∈ t.asLeaves t.hierarchy[i] a) →
        ∃ path, path.map (·.1) = t.hierarchy.drop i ∧ HomePath P t x lf p path
  | 0, i, hi, hn, _, _, _, _, _, _ => by omega
  | n + 1, i, hi, hn, p, kids, hpa, hk, hsub, ⟨a, hak, hla⟩ => by
    have s := RawTree.strict_of_validate hv
    have hstep : ∃ kids', t.children p = .ok kids' ∧ a ∈ kids' ∧ lf ∈ t.asLeaves t.hierarchy[i] a ∧
        (∀ k ∈ kids', k ≠ a → lf ∉ t.asLeaves t.hierarchy[i] k) ∧
        (2 ≤ kids'.length → NodeGuard P p (kidsOf t t.hierarchy[i] kids') x lf) := by
      refine ⟨kids, hk, hak, hla, ?_, ?_⟩
      · intro k hkk hne hin
        exact hne (leaf_unique_child hv d hN hi (hsub k hkk) (hsub a hak) hl hin hla)
      · intro h2
        apply hg p hpa _ (List.getElem_mem hi) kids hk h2
        refine (nodeRows_mem _ lf).2 ⟨a, ?_, ?_⟩
        · rw [kidsOf_fst]; exact hak
        · rw [leavesOfKids_kidsOf t _ _ a hak]; exact hla
    by_cases hlast : i + 1 < t.hierarchy.length
    · have ha := hsub a hak
      have hk' := Bridge.children_eq_entry d ha
      have hperm := RawTree.asLeaves_perm_children hN hlast a
      have hmem := hperm.mem_iff.1 hla
      obtain ⟨a', ha', hla'⟩ := List.mem_flatMap.1 hmem
      have hpa' : some (t.hierarchy[i], a) ∈ t.allParents := by
        unfold RawTree.allParents
        refine List.mem_cons_of_mem _ (List.mem_flatMap.2 ⟨t.hierarchy[i], ?_, ?_⟩)
        · rw [List.dropLast_eq_take]
          exact List.mem_take_iff_getElem.2 ⟨i, by omega, rfl⟩
        · exact List.mem_map.2 ⟨a, ha, rfl⟩
      obtain ⟨rest, hr1, hr2⟩ := exists_homePath_from P hv d hN x lf hl hg n (i + 1) hlast
        (by omega) (some (t.hierarchy[i], a)) _ hpa' hk' (fun k hkk => s.entry_sub hlast ha hkk)
        ⟨a', ha', hla'⟩
      refine ⟨(t.hierarchy[i], a) :: rest, ?_, hstep, hr2⟩
      rw [List.map_cons, hr1, List.drop_eq_getElem_cons hi]
    · refine ⟨[(t.hierarchy[i], a)], ?_, hstep, trivial⟩
      have : i + 1 = t.hierarchy.length := by omega
      rw [List.drop_eq_getElem_cons hi, List.drop_eq_nil_of_le (by omega)]
      rfl

end CTM.Compose

namespace CTM.Compose
open CTM CTM.LevelLoop CTM.OutBridge CTM.Election CTM.Numeric

theorem homePath_below (P : ElectionParams) (t : RawTree) (x : List Rat) (lf : Node) :
    ∀ (path : List (Level × Node)) (p : Parent), HomePath P t x lf p path →
      ∀ la ∈ path, lf ∈ t.asLeaves la.1 la.2
  | [], _, _, la, h => by simp at h
  | (l, a) :: rest, p, ⟨⟨_, _, _, hla, _⟩, hrest⟩, la, h => by
    rcases List.mem_cons.1 h with rfl | h
    · exact hla
    · exact homePath_below P t x lf rest _ hrest la h

/-- on a validated taxonomy every leaf has its way home: the path exists, runs
through all levels, every node on it has `lf` below it -/
theorem exists_homePath (P : ElectionParams) {t : RawTree} (hv : t.validate = .ok ())
    (d : RawTree.DictOK t) (hN : t.hierarchy.Nodup) (x : List Rat) (lf : Node)
    (hl : lf ∈ t.nodesAt (t.hierarchy[t.hierarchy.length - 1]'(by
      have := RawTree.hierarchy_ne_nil_of_validate hv
      have := List.length_pos_of_ne_nil this
      omega)))
    (hg : GuardBelow P t x lf) :
    ∃ path, path.map (·.1) = t.hierarchy ∧ HomePath P t x lf none path ∧
      ∀ la ∈ path, lf ∈ t.asLeaves la.1 la.2 := by
  have s := RawTree.strict_of_validate hv
  have hne := RawTree.hierarchy_ne_nil_of_validate hv
  have h0 : 0 < t.hierarchy.length := List.length_pos_of_ne_nil hne
  have hhead : t.hierarchy.head? = some t.hierarchy[0] := by
    rw [List.head?_eq_getElem?, List.getElem?_eq_getElem h0]
  have hcover := (RawTree.asLeaves_cover s d hN h0).mem_iff.2 hl
  obtain ⟨a, ha, hla⟩ := List.mem_flatMap.1 hcover
  obtain ⟨path, hp1, hp2⟩ := exists_homePath_from P hv d hN x lf hl hg t.hierarchy.length 0 h0
    (by omega) none _ (by simp [RawTree.allParents]) (Bridge.children_root hhead) (fun k hk => hk)
    ⟨a, ha, hla⟩
  exact ⟨path, by simpa using hp1, hp2, homePath_below P t x lf path none hp2⟩

end CTM.Compose
namespace CTM.Compose
open CTM CTM.LevelLoop CTM.OutBridge CTM.Election CTM.Numeric

/-- the guard below leaf 30 of the example taxonomy for its centroid: the only
parent with a choice that has leaf 30 below it is node 10 -/
theorem exPHome_guardBelow : GuardBelow exPHome exTree [2, 4, 1] 30 := by
  have key : ∀ p ∈ exTree.allParents, ∀ l ∈ exTree.hierarchy,
      (match exTree.children p with
       | .ok kids => decide (2 ≤ kids.length) &&
           decide ((30 : Node) ∈ (nodeRows (kidsOf exTree l kids)).1)
       | .error _ => false) = true → p = some (0, 10) ∧ l = 1 := by decide
  intro p hp l hl kids hk h2 hin
  obtain ⟨rfl, rfl⟩ := key p hp l hl (by rw [hk]; simp [h2, hin])
  have h' : exTree.children (some (0, 10)) = .ok [21, 20] := rfl
  rw [h'] at hk
  cases hk
  obtain ⟨_, ⟨kids, hk', _, _, _, hg⟩, _⟩ := exPHome_path
  rw [h'] at hk'
  cases hk'
  exact hg (by decide)

end CTM.Compose
