/-
  Compose × BridgeWF: what a VALIDATED taxonomy gives the composed model for
  free (reference rows exist at every question; a leaf lies below one child).
-/
import CTM.Lemmas.ComposeHome
import CTM.Lemmas.BridgeWF
namespace CTM.Compose
open CTM CTM.LevelLoop CTM.OutBridge CTM.Election CTM.Numeric

/-- on a taxonomy the validator accepts, every question the level loop puts
has a reference row: the `rows` part of `NoRaise` follows from the tree, what
remains is about the parameters only (an iteration exists, the subsets index
into the node's gene list, `n_assignments ≥ 1`) -/
theorem noRaiseAll_of_validate (P : ElectionParams) {t : RawTree}
    (hv : t.validate = .ok ()) (hN : t.hierarchy.Nodup)
    (hiters : ∀ p x, P.subsets p x ≠ [])
    (hrange : ∀ p x, ∀ s ∈ P.subsets p x, ∀ i ∈ s,
      i < (P.qcols p).length ∧ i < (P.rcols p).length)
    (hA : 1 ≤ P.nAssign) : NoRaiseAll P t := by
  have s := RawTree.strict_of_validate hv
  intro p l kids c hask _
  obtain ⟨plo, hmem, _, _, hne, hsub⟩ := hask
  refine ⟨hiters p c, hrange p c, ?_, hA⟩
  -- a child with a leaf
  obtain ⟨k, hk⟩ := List.exists_mem_of_ne_nil _ hne
  have hl : l ∈ t.hierarchy := by
    unfold levelPairs at hmem
    exact (List.of_mem_zip hmem).2
  obtain ⟨i, hi, rfl⟩ := List.mem_iff_getElem.1 hl
  have hleaf := RawTree.asLeaves_ne_nil s hN hi (hsub k hk)
  obtain ⟨lf, hlf⟩ := List.exists_mem_of_ne_nil _ hleaf
  have : lf ∈ (nodeRows (kidsOf t t.hierarchy[i] kids)).1 := by
    refine (nodeRows_mem _ lf).2 ⟨k, ?_, ?_⟩
    · rw [kidsOf_fst]; exact hk
    · rw [leavesOfKids_kidsOf t _ _ k hk]; exact hlf
  exact List.ne_nil_of_mem this

end CTM.Compose

namespace CTM.Compose
open CTM CTM.LevelLoop CTM.OutBridge CTM.Election CTM.Numeric

/-- on a validated taxonomy a leaf lies below at most one node of a level: the
uniqueness clause of `HomePath` ("the only child whose leaves contain `lf`")
holds for any two nodes of the child level -/
theorem leaf_unique_child {t : RawTree} (hv : t.validate = .ok ()) (d : RawTree.DictOK t)
    (hN : t.hierarchy.Nodup) {i : Nat} (hi : i < t.hierarchy.length) {a k lf : Node}
    (ha : a ∈ t.nodesAt t.hierarchy[i]) (hk : k ∈ t.nodesAt t.hierarchy[i])
    (hl : lf ∈ t.nodesAt (t.hierarchy[t.hierarchy.length - 1]'(by omega)))
    (h1 : lf ∈ t.asLeaves t.hierarchy[i] a) (h2 : lf ∈ t.asLeaves t.hierarchy[i] k) : a = k := by
  have s := RawTree.strict_of_validate hv
  have e1 := (RawTree.mem_asLeaves_iff_ancestorAt s d hN hi ha hl).1 h1
  have e2 := (RawTree.mem_asLeaves_iff_ancestorAt s d hN hi hk hl).1 h2
  rw [e1] at e2
  exact Option.some.inj e2

end CTM.Compose
