/-
  Flat-array level of the on-disk transposition: the `next_idx` / buffer
  addressing of `transpose_sparse_matrix_on_disk` refines the bucket level
  (the counting-sort invariant `next_idx[v] = indptr[v] + #written(v)`).
-/
import CTM.Lemmas.SparseV2

namespace CTM.Sparse
open CTM.Chunking


theorem writeAt_length {β} (buf : List β) (pos : Nat) (xs : List β)
    (h : pos + xs.length ≤ buf.length) : (writeAt buf pos xs).length = buf.length := by
  unfold writeAt
  simp only [List.length_append, List.length_take, List.length_drop]
  omega

theorem writeAt_nil {β} (buf : List β) (pos : Nat) : writeAt buf pos [] = buf := by
  unfold writeAt
  simp

/-- writing inside the middle part of a concatenation -/
theorem writeAt_middle {β} (A S C : List β) (off : Nat) (xs : List β)
    (h : off + xs.length ≤ S.length) :
    writeAt (A ++ S ++ C) (A.length + off) xs = A ++ writeAt S off xs ++ C := by
  unfold writeAt
  have h1 : (A ++ S ++ C).take (A.length + off) = A ++ S.take off := by
    rw [List.append_assoc, List.take_append, List.take_of_length_le (by omega)]
    have : A.length + off - A.length = off := by omega
    rw [this, List.take_append_of_le_length (by omega)]
  have h2 : (A ++ S ++ C).drop (A.length + off + xs.length) = S.drop (off + xs.length) ++ C := by
    rw [List.append_assoc, List.drop_append, List.drop_eq_nil_of_le (by omega)]
    have : A.length + off + xs.length - A.length = off + xs.length := by omega
    rw [this, List.nil_append, List.drop_append_of_le_length (by omega)]
  rw [h1, h2]
  simp only [List.append_assoc]

/-- appending to the filled part of a zero-padded segment -/
theorem writeAt_padded {β} (z : β) (a xs : List β) (m : Nat) :
    writeAt (a ++ List.replicate m z) a.length xs
      = (a ++ xs) ++ List.replicate (m - xs.length) z := by
  unfold writeAt
  rw [List.take_append_of_le_length (Nat.le_refl _), List.take_length]
  rw [List.drop_append, List.drop_eq_nil_of_le (by omega)]
  have : a.length + xs.length - a.length = xs.length := by omega
  rw [this, List.nil_append, List.drop_replicate]

/-- writing inside the `k`-th piece of a flattened list of pieces -/
theorem writeAt_flatten {β} (segs : List (List β)) (k off : Nat) (xs : List β)
    (hk : k < segs.length) (h : off + xs.length ≤ segs[k].length) :
    writeAt segs.flatten (((segs.take k).map List.length).sum + off) xs
      = (segs.set k (writeAt segs[k] off xs)).flatten := by
  have hsplit : segs = segs.take k ++ segs[k] :: segs.drop (k + 1) := by
    rw [List.getElem_cons_drop hk, List.take_append_drop]
  have hset : segs.set k (writeAt segs[k] off xs)
      = segs.take k ++ writeAt segs[k] off xs :: segs.drop (k + 1) := by
    rw [List.set_eq_take_append_cons_drop, if_pos hk]
  rw [hset]
  conv => lhs; arg 1; rw [hsplit]
  simp only [List.flatten_append, List.flatten_cons]
  have hl : (segs.take k).flatten.length = ((segs.take k).map List.length).sum := by
    rw [List.length_flatten]
  rw [← hl, ← List.append_assoc, writeAt_middle _ _ _ _ _ h]
  simp only [List.append_assoc]

/-- capacity of minor index `v`: the number of entries the counting pass found -/
def cap (ip : List Nat) (v : Nat) : Nat := ptr ip (v + 1) - ptr ip v

/-- the block buffer when `acc v` has been written for `v`: every segment is
its filled part followed by zeros -/
def layout {β} (z : β) (ip : List Nat) (blk : Nat × Nat) (acc : Nat → List β) : List β :=
  ((rangeOf blk).map fun v => acc v ++ List.replicate (cap ip v - (acc v).length) z).flatten

/-- the counting-sort invariant inside one block -/
structure FillInv {β} (z : β) (ip : List Nat) (blk : Nat × Nat) (next : List Nat) (buf : List β)
    (acc : Nat → List β) : Prop where
  len : next.length = ip.length
  nxt : ∀ v, blk.1 ≤ v → v < blk.2 → ptr next v = ptr ip v + (acc v).length
  fits : ∀ v, blk.1 ≤ v → v < blk.2 → (acc v).length ≤ cap ip v
  buf : buf = layout z ip blk acc

theorem ptr_set (l : List Nat) (v x u : Nat) (hv : v < l.length) :
    ptr (l.set v x) u = if u = v then x else ptr l u := by
  unfold ptr
  rw [List.getD_eq_getElem?_getD, List.getD_eq_getElem?_getD, List.getElem?_set]
  by_cases h : v = u
  · subst h; simp [hv]
  · have : ¬ u = v := fun e => h e.symm
    simp [h, this]

theorem layout_prefix {β} (z : β) (ip : List Nat) (n nnz : Nat) (w : WFptr ip n nnz)
    (blk : Nat × Nat) (hb : blk.2 ≤ n) (acc : Nat → List β)
    (hfit : ∀ v, blk.1 ≤ v → v < blk.2 → (acc v).length ≤ cap ip v) (k : Nat)
    (hk : blk.1 + k ≤ blk.2) :
    ((((rangeOf blk).map fun v => acc v ++ List.replicate (cap ip v - (acc v).length) z).take k).map
        List.length).sum = ptr ip (blk.1 + k) - ptr ip blk.1 := by
  unfold rangeOf
  rw [← List.map_take, List.take_range'_of_length_ge (by omega), List.map_map,
    ← telescope_from ip n nnz w blk.1 k (by omega)]
  congr 1
  apply List.map_congr_left
  intro v hv
  rw [List.mem_range'_1] at hv
  have := hfit v (by omega) (by omega)
  simp only [Function.comp, List.length_append, List.length_replicate, cap] at this ⊢
  omega

/-- one write of the fill pass preserves the invariant -/
theorem fill_step {β} (z : β) (ip : List Nat) (n nnz : Nat) (w : WFptr ip n nnz)
    (blk : Nat × Nat) (hb : blk.2 ≤ n) (next : List Nat) (buf : List β) (acc : Nat → List β)
    (inv : FillInv z ip blk next buf acc) (v : Nat) (hv1 : blk.1 ≤ v) (hv2 : v < blk.2)
    (xs : List β) (hfit : (acc v).length + xs.length ≤ cap ip v) :
    FillInv z ip blk (next.set v (ptr next v + xs.length))
      (writeAt buf (ptr next v - ptr ip blk.1) xs)
      (fun u => if u = v then acc v ++ xs else acc u) := by
  have hl := w.len
  constructor
  · rw [List.length_set]; exact inv.len
  · intro u hu1 hu2
    rw [ptr_set _ _ _ _ (by rw [inv.len]; omega)]
    by_cases h : u = v
    · subst h; simp only [if_true, List.length_append]; rw [inv.nxt u hu1 hu2]; omega
    · simp only [h, if_false]; exact inv.nxt u hu1 hu2
  · intro u hu1 hu2
    by_cases h : u = v
    · subst h; simp only [if_true, List.length_append]; exact hfit
    · simp only [h, if_false]; exact inv.fits u hu1 hu2
  · rw [inv.buf, inv.nxt v hv1 hv2]
    unfold layout
    have hmono : ptr ip blk.1 ≤ ptr ip v := w.mono hv1 (by omega)
    have hk : v - blk.1 < ((rangeOf blk).map fun v =>
        acc v ++ List.replicate (cap ip v - (acc v).length) z).length := by
      simp [rangeOf]; omega
    have hget : ((rangeOf blk).map fun v =>
        acc v ++ List.replicate (cap ip v - (acc v).length) z)[v - blk.1]
        = acc v ++ List.replicate (cap ip v - (acc v).length) z := by
      simp only [rangeOf, List.getElem_map, List.getElem_range']
      have : blk.1 + 1 * (v - blk.1) = v := by omega
      rw [this]
    have hpos : ptr ip v + (acc v).length - ptr ip blk.1
        = ((((rangeOf blk).map fun v =>
            acc v ++ List.replicate (cap ip v - (acc v).length) z).take (v - blk.1)).map
              List.length).sum + (acc v).length := by
      rw [layout_prefix z ip n nnz w blk hb acc inv.fits (v - blk.1) (by omega)]
      have : blk.1 + (v - blk.1) = v := by omega
      rw [this]; omega
    rw [hpos, writeAt_flatten _ _ _ _ hk (by
      rw [hget]; simp only [List.length_append, List.length_replicate]
      have := inv.fits v hv1 hv2; omega)]
    congr 1
    rw [hget, writeAt_padded]
    apply List.ext_getElem
    · simp
    · intro j h1 h2
      have hj : j < blk.2 - blk.1 := by simpa [rangeOf] using h2
      simp only [List.getElem_set, List.getElem_map, rangeOf, List.getElem_range']
      by_cases hjk : v - blk.1 = j
      · have : blk.1 + 1 * j = v := by omega
        simp only [hjk, if_true, this, List.length_append]
        congr 2; omega
      · have : ¬ (blk.1 + 1 * j = v) := by omega
        simp only [hjk, if_false, this]

/-- entries still to be written for `v` by a list of (chunk, value) steps -/
def need {α} (steps : List (List (Entry α) × Nat)) (v : Nat) : Nat :=
  ((steps.filter (·.2 == v)).map fun s => (piece s.1 v).length).sum

/-- what a list of steps appends for `v` -/
def written {α β} (f : Entry α → β) (steps : List (List (Entry α) × Nat)) (v : Nat) : List β :=
  (steps.filter (·.2 == v)).flatMap fun s => (piece s.1 v).map f

theorem fill_steps {α β} (f : Entry α → β) (z : β) (ip : List Nat) (n nnz : Nat)
    (w : WFptr ip n nnz) (blk : Nat × Nat) (hb : blk.2 ≤ n) :
    ∀ (steps : List (List (Entry α) × Nat)) (next : List Nat) (buf : List β)
      (acc : Nat → List β),
      FillInv z ip blk next buf acc →
      (∀ s ∈ steps, blk.1 ≤ s.2 ∧ s.2 < blk.2) →
      (∀ v, blk.1 ≤ v → v < blk.2 → (acc v).length + need steps v ≤ cap ip v) →
      FillInv z ip blk
        (steps.foldl (fun st s => flatStep f (ptr ip blk.1) s.1 st s.2) (next, buf)).1
        (steps.foldl (fun st s => flatStep f (ptr ip blk.1) s.1 st s.2) (next, buf)).2
        (fun v => acc v ++ written f steps v) := by
  intro steps
  induction steps with
  | nil =>
    intro next buf acc inv _ _
    have : (fun v => acc v ++ written f ([] : List (List (Entry α) × Nat)) v) = acc := by
      funext v; simp [written]
    rw [this]; exact inv
  | cons s rest ih =>
    intro next buf acc inv hin hcap
    have hs := hin s (by simp)
    have hfit : (acc s.2).length + ((piece s.1 s.2).map f).length ≤ cap ip s.2 := by
      have := hcap s.2 hs.1 hs.2
      simp only [need, List.filter_cons, beq_self_eq_true, if_true, List.map_cons,
        List.sum_cons] at this
      simp only [List.length_map]; omega
    have inv1 := fill_step z ip n nnz w blk hb next buf acc inv s.2 hs.1 hs.2
      ((piece s.1 s.2).map f) hfit
    rw [List.foldl_cons]
    have hstep : flatStep f (ptr ip blk.1) s.1 (next, buf) s.2
        = (next.set s.2 (ptr next s.2 + ((piece s.1 s.2).map f).length),
           writeAt buf (ptr next s.2 - ptr ip blk.1) ((piece s.1 s.2).map f)) := by
      simp [flatStep]
    rw [hstep]
    have hcap1 : ∀ v, blk.1 ≤ v → v < blk.2 →
        ((fun u => if u = s.2 then acc s.2 ++ (piece s.1 s.2).map f else acc u) v).length
          + need rest v ≤ cap ip v := by
      intro v hv1 hv2
      have := hcap v hv1 hv2
      simp only [need, List.filter_cons] at this
      by_cases h : v = s.2
      · subst h
        simp only [beq_self_eq_true, if_true, List.map_cons, List.sum_cons] at this
        simp only [if_true, List.length_append, List.length_map, need]
        omega
      · have hb' : (s.2 == v) = false := by simp; omega
        simp only [hb', Bool.false_eq_true, if_false] at this
        simp only [h, if_false, need]
        exact this
    have := ih _ _ _ inv1 (fun t ht => hin t (by simp [ht])) hcap1
    have hfun : (fun v => (fun u => if u = s.2 then acc s.2 ++ (piece s.1 s.2).map f else acc u) v
          ++ written f rest v)
        = (fun v => acc v ++ written f (s :: rest) v) := by
      funext v
      simp only [written, List.filter_cons]
      by_cases h : v = s.2
      · subst h; simp
      · have hb' : (s.2 == v) = false := by simp; omega
        simp [h, hb']
    rw [hfun] at this
    exact this

theorem flatten_replicates {β γ} (z : β) (g : γ → Nat) (l : List γ) :
    (l.map fun v => List.replicate (g v) z).flatten = List.replicate ((l.map g).sum) z := by
  induction l with
  | nil => rfl
  | cons x xs ih => simp [ih, List.replicate_append_replicate]

theorem steps_filter {α} (cs : List (List (Entry α))) (blk : Nat × Nat) (v : Nat)
    (hv1 : blk.1 ≤ v) (hv2 : v < blk.2) :
    (cs.flatMap fun c => (rangeOf blk).map fun u => (c, u)).filter (·.2 == v)
      = cs.map fun c => (c, v) := by
  induction cs with
  | nil => rfl
  | cons c rest ih =>
    rw [List.flatMap_cons, List.filter_append, ih, List.map_cons]
    congr 1
    rw [List.filter_map]
    have : ((fun x : List (Entry α) × Nat => x.2 == v) ∘ fun u => (c, u)) = (· == v) := rfl
    rw [this, filter_beq_of_nodup _ v (by unfold rangeOf; exact List.nodup_range')
      (by unfold rangeOf; rw [List.mem_range'_1]; omega)]
    rfl

theorem steps_foldl {α γ} (cs : List (List (Entry α))) (blk : Nat × Nat)
    (g : γ → List (Entry α) → Nat → γ) (init : γ) :
    cs.foldl (fun st c => (rangeOf blk).foldl (g · c) st) init
      = (cs.flatMap fun c => (rangeOf blk).map fun u => (c, u)).foldl
          (fun st s => g st s.1 s.2) init := by
  induction cs generalizing init with
  | nil => rfl
  | cons c rest ih =>
    rw [List.foldl_cons, ih, List.flatMap_cons, List.foldl_append, List.foldl_map]

theorem steps_other {α β} (f : Entry α → β) (d0 : Nat) :
    ∀ (steps : List (List (Entry α) × Nat)) (st : List Nat × List β) (u : Nat),
      (∀ s ∈ steps, s.2 ≠ u) →
      ((steps.foldl (fun st s => flatStep f d0 s.1 st s.2) st).1.length = st.1.length) ∧
      ptr (steps.foldl (fun st s => flatStep f d0 s.1 st s.2) st).1 u = ptr st.1 u := by
  intro steps
  induction steps with
  | nil => intro st u _; exact ⟨rfl, rfl⟩
  | cons s rest ih =>
    intro st u h
    rw [List.foldl_cons]
    obtain ⟨i1, i2⟩ := ih (flatStep f d0 s.1 st s.2) u (fun t ht => h t (by simp [ht]))
    have hne := h s (by simp)
    refine ⟨by rw [i1]; simp [flatStep], ?_⟩
    rw [i2]
    simp only [flatStep]
    by_cases hlt : s.2 < st.1.length
    · rw [ptr_set _ _ _ _ hlt]
      have : ¬ u = s.2 := fun e => hne e.symm
      simp [this]
    · rw [List.set_eq_of_length_le (by omega)]

theorem steps_length {α β} (f : Entry α → β) (d0 : Nat) :
    ∀ (steps : List (List (Entry α) × Nat)) (st : List Nat × List β),
      (steps.foldl (fun st s => flatStep f d0 s.1 st s.2) st).1.length = st.1.length := by
  intro steps
  induction steps with
  | nil => intro st; rfl
  | cons s rest ih =>
    intro st
    rw [List.foldl_cons, ih]
    simp [flatStep]

/-- **one block of the flat fill pass**: starting from `next_idx = csr_indptr`
on the block and a zeroed buffer, after all load chunks the buffer is the
concatenation, over the block's minor indices, of the entries with that minor
index in storage order; `next_idx` is untouched outside the block -/
theorem fill_block {α β} (f : Entry α → β) (z : β) (ip : List Nat) (n nnz : Nat)
    (w : WFptr ip n nnz) (blk : Nat × Nat) (hb1 : blk.1 ≤ blk.2) (hb : blk.2 ≤ n)
    (cs : List (List (Entry α))) (F : List (Entry α))
    (hpieces : ∀ v, cs.flatMap (fun c => piece c v) = F.filter (·.minor == v))
    (hcap : ∀ v, blk.1 ≤ v → v < blk.2 → (F.filter (·.minor == v)).length = cap ip v)
    (next : List Nat) (hlen : next.length = ip.length)
    (hnext : ∀ v, blk.1 ≤ v → v < blk.2 → ptr next v = ptr ip v) :
    (cs.foldl (flatChunk f blk (ptr ip blk.1))
        (next, List.replicate (ptr ip blk.2 - ptr ip blk.1) z)).2
      = (rangeOf blk).flatMap (fun v => (F.filter (·.minor == v)).map f) ∧
    (cs.foldl (flatChunk f blk (ptr ip blk.1))
        (next, List.replicate (ptr ip blk.2 - ptr ip blk.1) z)).1.length = ip.length ∧
    (∀ u, (u < blk.1 ∨ blk.2 ≤ u) →
      ptr (cs.foldl (flatChunk f blk (ptr ip blk.1))
        (next, List.replicate (ptr ip blk.2 - ptr ip blk.1) z)).1 u = ptr next u) := by
  have hfold : cs.foldl (flatChunk f blk (ptr ip blk.1))
        (next, List.replicate (ptr ip blk.2 - ptr ip blk.1) z)
      = (cs.flatMap fun c => (rangeOf blk).map fun u => (c, u)).foldl
          (fun st s => flatStep f (ptr ip blk.1) s.1 st s.2)
          (next, List.replicate (ptr ip blk.2 - ptr ip blk.1) z) := by
    have := steps_foldl cs blk (fun st c v => flatStep f (ptr ip blk.1) c st v)
      (next, List.replicate (ptr ip blk.2 - ptr ip blk.1) z)
    exact this
  rw [hfold]
  have hin : ∀ s ∈ (cs.flatMap fun c => (rangeOf blk).map fun u => (c, u)),
      blk.1 ≤ s.2 ∧ s.2 < blk.2 := by
    intro s hs
    rw [List.mem_flatMap] at hs
    obtain ⟨c, _, hs⟩ := hs
    rw [List.mem_map] at hs
    obtain ⟨u, hu, rfl⟩ := hs
    unfold rangeOf at hu
    rw [List.mem_range'_1] at hu
    simp only; omega
  -- the initial state satisfies the invariant with nothing written
  have inv0 : FillInv z ip blk next (List.replicate (ptr ip blk.2 - ptr ip blk.1) z)
      (fun _ => ([] : List β)) := by
    constructor
    · exact hlen
    · intro v h1 h2; simp [hnext v h1 h2]
    · intro v _ _; simp
    · unfold layout
      simp only [List.nil_append, List.length_nil, Nat.sub_zero]
      rw [flatten_replicates z (cap ip) (rangeOf blk)]
      congr 1
      have := telescope_from ip n nnz w blk.1 (blk.2 - blk.1) (by omega)
      have e : blk.1 + (blk.2 - blk.1) = blk.2 := by omega
      rw [e] at this
      unfold rangeOf cap
      exact this.symm
  have hwritten : ∀ v, blk.1 ≤ v → v < blk.2 →
      written f (cs.flatMap fun c => (rangeOf blk).map fun u => (c, u)) v
        = (F.filter (·.minor == v)).map f := by
    intro v h1 h2
    unfold written
    rw [steps_filter cs blk v h1 h2, List.flatMap_map, ← hpieces v, List.map_flatMap]
  have hneed : ∀ v, blk.1 ≤ v → v < blk.2 →
      need (cs.flatMap fun c => (rangeOf blk).map fun u => (c, u)) v = cap ip v := by
    intro v h1 h2
    unfold need
    rw [steps_filter cs blk v h1 h2, List.map_map, ← hcap v h1 h2, ← hpieces v,
      List.flatMap_def, List.length_flatten, List.map_map]
    rfl
  have inv := fill_steps f z ip n nnz w blk hb _ next _ _ inv0 hin
    (by intro v h1 h2; rw [hneed v h1 h2]; simp)
  refine ⟨?_, ?_, ?_⟩
  · rw [inv.buf]
    unfold layout
    have hrhs : (rangeOf blk).flatMap (fun v => (F.filter (·.minor == v)).map f)
        = ((rangeOf blk).map (fun v => (F.filter (·.minor == v)).map f)).flatten :=
      List.flatMap_def
    rw [hrhs]
    congr 1
    apply List.map_congr_left
    intro v hv
    unfold rangeOf at hv
    rw [List.mem_range'_1] at hv
    have h1 : blk.1 ≤ v := by omega
    have h2 : v < blk.2 := by omega
    simp only [List.nil_append]
    rw [hwritten v h1 h2, List.length_map, hcap v h1 h2]
    simp
  · rw [steps_length]; exact hlen
  · intro u hu
    refine (steps_other f _ _ _ u ?_).2
    intro s hs
    have := hin s hs
    omega

theorem countP_minor_succ {α} (F : List (Entry α)) (v : Nat) :
    F.countP (·.minor < v + 1) = F.countP (·.minor < v) + (F.filter (·.minor == v)).length := by
  induction F with
  | nil => simp
  | cons e es ih =>
    simp only [List.countP_cons, List.filter_cons, ih]
    by_cases h1 : e.minor < v
    · have h2 : e.minor < v + 1 := by omega
      have h3 : ¬ (e.minor = v) := by omega
      simp [h1, h2, h3]; omega
    · by_cases h2 : e.minor = v
      · simp [h2]; omega
      · have h3 : ¬ (e.minor < v + 1) := by omega
        simp [h1, h2, h3]

/-- **all blocks of the flat fill pass** -/
theorem fill_blocks {α β} (f : Entry α → β) (z : β) (ip : List Nat) (n nnz : Nat)
    (w : WFptr ip n nnz) (cs : List (List (Entry α))) (F : List (Entry α))
    (hpieces : ∀ v, cs.flatMap (fun c => piece c v) = F.filter (·.minor == v))
    (hcap : ∀ v, v < n → (F.filter (·.minor == v)).length = cap ip v) (el : Nat) :
    ∀ (fuel r0 : Nat), r0 ≤ n → n - r0 ≤ fuel →
      ∀ (next : List Nat) (out done : List β),
        next.length = ip.length → (∀ v, r0 ≤ v → v < n → ptr next v = ptr ip v) →
        out = done ++ List.replicate (ptr ip n - ptr ip r0) z → done.length = ptr ip r0 →
        ((blockCutsAux ip el fuel r0).foldl (flatBlock f z cs ip) (next, out)).2
          = done ++ (List.range' r0 (n - r0)).flatMap
              (fun v => (F.filter (·.minor == v)).map f) := by
  have hl := w.len
  intro fuel
  induction fuel with
  | zero =>
    intro r0 h1 h2 next out done _ _ hout _
    have e : r0 = n := by omega
    subst e
    simp [blockCutsAux, hout]
  | succ fu ih =>
    intro r0 h1 h2 next out done hlen hnext hout hdone
    unfold blockCutsAux
    by_cases h : r0 + 1 < ip.length
    · obtain ⟨r1, e, h3, h4⟩ := findCut_some ip el r0 h
      have hr1 : r1 ≤ n := by omega
      simp only [e, List.foldl_cons]
      obtain ⟨b1, b2, b3⟩ := fill_block f z ip n nnz w (r0, r1) (by simp; omega) hr1 cs F
        hpieces (fun v _ hv2 => hcap v (by simp at hv2; omega)) next hlen
        (fun v hv1 hv2 => hnext v hv1 (by simp at hv2; omega))
      simp only at b1 b2 b3
      -- length of the block buffer
      have hblen : ((rangeOf (r0, r1)).flatMap
          (fun v => (F.filter (·.minor == v)).map f)).length = ptr ip r1 - ptr ip r0 := by
        rw [List.flatMap_def, List.length_flatten, List.map_map]
        have := telescope_from ip n nnz w r0 (r1 - r0) (by omega)
        have e2 : r0 + (r1 - r0) = r1 := by omega
        rw [e2] at this
        rw [← this]
        unfold rangeOf
        congr 1
        apply List.map_congr_left
        intro v hv
        rw [List.mem_range'_1] at hv
        simp only [Function.comp, List.length_map]
        exact hcap v (by omega)
      have hm1 : ptr ip r0 ≤ ptr ip r1 := w.mono (by omega) hr1
      have hm2 : ptr ip r1 ≤ ptr ip n := w.mono hr1 (Nat.le_refl _)
      have hstep : flatBlock f z cs ip (next, out) (r0, r1)
          = ((cs.foldl (flatChunk f (r0, r1) (ptr ip r0))
                (next, List.replicate (ptr ip r1 - ptr ip r0) z)).1,
             (done ++ (rangeOf (r0, r1)).flatMap (fun v => (F.filter (·.minor == v)).map f))
               ++ List.replicate (ptr ip n - ptr ip r1) z) := by
        unfold flatBlock
        simp only
        rw [b1, hout, ← hdone, writeAt_padded, hblen]
        congr 3
        omega
      rw [hstep]
      rw [ih r1 hr1 (by omega) _ _
        (done ++ (rangeOf (r0, r1)).flatMap (fun v => (F.filter (·.minor == v)).map f))
        b2 (fun v hv1 hv2 => by rw [b3 v (Or.inr hv1)]; exact hnext v (by omega) hv2) rfl
        (by rw [List.length_append, hblen, hdone]; omega)]
      rw [List.append_assoc, ← List.flatMap_append]
      congr 2
      unfold rangeOf
      simp only
      have : n - r0 = (r1 - r0) + (n - r1) := by omega
      rw [this, ← List.range'_append_1]
      congr 2
      omega
    · have e : r0 = n := by omega
      subst e
      rw [findCut_none ip el r0 (by omega)]
      simp [hout]

/-- **flat-array level** (DESIGN §5 C13, level 2): the fill pass with the
code's addressing (`buffer[next_idx[v] - d0 …]`, `next_idx[v] += ct`, one
buffer per block) writes exactly the stable bucketing by minor index, for every
load-chunk size `≥ 1` and every element budget -/
theorem transposeFlat_eq {α β} (f : Entry α → β) (z : β) (E : List (Entry α))
    (sl : Option (Nat × Nat)) (n lo el : Nat) (hlo : 1 ≤ lo) (hE : MajorsSorted E)
    (hr : ∀ e ∈ sliceEntries sl E, e.minor < n) :
    transposeFlat f z E sl (canonOut (sliceEntries sl E) n).indptr
        (sliceEntries sl E).length lo el
      = (bucketSpec (sliceEntries sl E) n).map f := by
  have w := canonOut_wfptr (sliceEntries sl E) n hr
  have hl := w.len
  unfold transposeFlat blockCuts
  simp only
  have hp0 : ptr (canonOut (sliceEntries sl E) n).indptr 0 = 0 := w.first
  have hcap : ∀ v, v < n → ((sliceEntries sl E).filter (·.minor == v)).length
      = cap (canonOut (sliceEntries sl E) n).indptr v := by
    intro v hv
    unfold cap canonOut
    simp only
    rw [ptr_map_range _ _ _ (by omega), ptr_map_range _ _ _ (by omega), countP_minor_succ]
    omega
  have := fill_blocks f z _ n _ w ((sliceChunks lo E).map (sliceEntries sl)) (sliceEntries sl E)
    (fun v => pieces_eq_filter E sl lo hlo hE v) hcap el
    (canonOut (sliceEntries sl E) n).indptr.length 0 (by omega) (by omega)
    (canonOut (sliceEntries sl E) n).indptr
    (List.replicate (sliceEntries sl E).length z) [] rfl (fun _ _ _ => rfl)
    (by rw [w.last, hp0]; simp) (by rw [hp0]; rfl)
  rw [this]
  unfold bucketSpec
  rw [List.nil_append, List.map_flatMap, Nat.sub_zero, List.range_eq_range']

/-- the transposition with the flat-array fill pass produces the same arrays
as the bucket-level model, hence everything proved for `transposeOnDisk` holds
for it -/
theorem transposeOnDiskFlat_eq {α} (zero : α) (M : Mat α) (imax : Nat)
    (sl : Option (Nat × Nat)) (B : Budget)
    (hlo : 1 ≤ B.lo) (hc : 1 ≤ B.loCount) (hlen : M.data.length = M.indices.length)
    (hr : ∀ x ∈ sliceMinors sl M.indices, x < nMinorOf imax sl) :
    transposeOnDiskFlat zero M imax sl B = transposeOnDisk M imax sl B := by
  rw [transposeOnDisk_eq M imax sl B hlo hc hlen hr]
  unfold transposeOnDiskFlat
  rw [calcIndptr_ok M.indices imax sl B.loCount hc hr]
  simp only [bind, Except.bind, pure, Except.pure]
  have hminors : (sliceEntries sl (entriesOf M)).map (·.minor) = sliceMinors sl M.indices := by
    rw [sliceEntries_map_minor, entriesOf_map_minor M hlen]
  have hE : ∀ e ∈ sliceEntries sl (entriesOf M), e.minor < nMinorOf imax sl := by
    intro e he
    apply hr
    rw [← hminors]
    exact List.mem_map_of_mem he
  have hip : (List.range (nMinorOf imax sl + 1)).map
        (fun k => (sliceMinors sl M.indices).countP (· < k))
      = (canonOut (sliceEntries sl (entriesOf M)) (nMinorOf imax sl)).indptr := by
    unfold canonOut
    simp only
    apply List.map_congr_left
    intro k _
    rw [← hminors, List.countP_map]
    rfl
  have hnnz : (sliceMinors sl M.indices).length = (sliceEntries sl (entriesOf M)).length := by
    rw [← hminors, List.length_map]
  rw [hip, hnnz, transposeFlat_eq _ _ _ sl _ B.lo B.el hlo (entriesOf_majorsSorted M) hE]
  unfold canonOut
  simp only [List.map_map]
  rfl

/-! ### small additions -/

/-- `_copy_layer_to_x_dense`: whatever the HDF5 chunk shape of the source
(`none` = contiguous: the function then picks `(min(10000, n // 10) or n, m)`),
the tiled copy reproduces the matrix -/
theorem copyDenseLayer_id {β} (h5chunks : Option (Nat × Nat)) (D : List (List β)) (m : Nat)
    (hn : 1 ≤ D.length) (hm : 1 ≤ m) (hrows : ∀ row ∈ D, row.length = m)
    (hch : ∀ c, h5chunks = some c → 1 ≤ c.1 ∧ 1 ≤ c.2) :
    copyDenseLayer h5chunks D m = D := by
  unfold copyDenseLayer
  have h1 : 1 ≤ (denseCopyChunks h5chunks D.length m).1 ∧ 1 ≤ (denseCopyChunks h5chunks D.length m).2 := by
    unfold denseCopyChunks
    cases h5chunks with
    | some c => exact hch c rfl
    | none =>
      simp only
      by_cases h : (min 10000 (D.length / 10) == 0) = true
      · simp only [h, if_true]; exact ⟨hn, hm⟩
      · simp only [h]
        have : min 10000 (D.length / 10) ≠ 0 := by simpa using h
        exact ⟨by simp only [Bool.false_eq_true, if_false]; omega, hm⟩
  exact tileCopy_id D m _ _ h1.1 h1.2 hrows

/-- a column index outside the matrix is an error of `_csr_to_dense`
(`IndexError`), never silently dropped -/
theorem csrToDense_rejects {α} (zero : α) (M : Mat α) (nRows nCols : Nat)
    (x : Nat) (hx : x ∈ usedCols M) (hbig : nCols ≤ x) :
    csrToDense zero M nRows nCols = .error .indexOutOfRange := by
  unfold csrToDense
  by_cases h : M.indptr.length - 1 > nRows
  · simp [h]
  · have : (usedCols M).any (· ≥ nCols) = true := by
      rw [List.any_eq_true]; exact ⟨x, hx, by simpa using hbig⟩
    simp [h, this]

/-! ### the blockwise joining loop of the parallel transposition -/

theorem writeAt_writeAt {β} (dst : List β) (d : Nat) (a b : List β)
    (h : d + a.length + b.length ≤ dst.length) :
    writeAt (writeAt dst d a) (d + a.length) b = writeAt dst d (a ++ b) := by
  unfold writeAt
  have h1 : (dst.take d ++ a ++ dst.drop (d + a.length)).take (d + a.length) = dst.take d ++ a := by
    rw [List.take_append_of_le_length (by simp; omega)]
    rw [List.take_of_length_le (by simp; omega)]
  have h2 : (dst.take d ++ a ++ dst.drop (d + a.length)).drop (d + a.length + b.length)
      = dst.drop (d + a.length + b.length) := by
    rw [List.drop_append, List.drop_eq_nil_of_le (by simp; omega), List.nil_append,
      List.drop_drop]
    congr 1
    simp only [List.length_append, List.length_take]
    omega
  rw [h1, h2]
  simp only [List.append_assoc, List.length_append]
  rw [show d + (a.length + b.length) = d + a.length + b.length by omega]

/-- the blockwise copy into a destination equals one whole write, and the
offset advances by the source length — for every block size `≥ 1` -/
theorem blockCopyInto_eq {β} (blk : Nat) (hblk : 1 ≤ blk) (dst : List β) (dst0 : Nat)
    (src : List β) (h : dst0 + src.length ≤ dst.length) :
    blockCopyInto blk dst dst0 src = (writeAt dst dst0 src, dst0 + src.length) := by
  unfold blockCopyInto chunks
  have key : ∀ (fuel r0 : Nat), r0 ≤ src.length → src.length - r0 ≤ fuel →
      (chunksAux src.length blk fuel r0).foldl
        (fun st p => (writeAt st.1 st.2 (slice src p.1 p.2), st.2 + (p.2 - p.1)))
        (writeAt dst dst0 (slice src 0 r0), dst0 + r0)
      = (writeAt dst dst0 src, dst0 + src.length) := by
    intro fuel
    induction fuel with
    | zero =>
      intro r0 h1 h2
      have : r0 = src.length := by omega
      subst this
      simp [chunksAux, slice_zero_length]
    | succ f ih =>
      intro r0 h1 h2
      unfold chunksAux
      by_cases hr : r0 < src.length
      · simp only [hr, if_true, List.foldl_cons]
        have hl0 : (slice src 0 r0).length = r0 := by rw [slice_length_le _ h1]; omega
        have hl1 : (slice src r0 (min src.length (r0 + blk))).length
            = min src.length (r0 + blk) - r0 := slice_length_le _ (by omega)
        have hw : writeAt (writeAt dst dst0 (slice src 0 r0)) (dst0 + r0)
              (slice src r0 (min src.length (r0 + blk)))
            = writeAt dst dst0 (slice src 0 (min src.length (r0 + blk))) := by
          have := writeAt_writeAt dst dst0 (slice src 0 r0)
            (slice src r0 (min src.length (r0 + blk))) (by rw [hl0, hl1]; omega)
          rw [hl0] at this
          rw [this, slice_append src (Nat.zero_le _) (by omega)]
        rw [hw]
        have e : dst0 + r0 + (min src.length (r0 + blk) - r0)
            = dst0 + min src.length (r0 + blk) := by omega
        rw [e]
        exact ih (min src.length (r0 + blk)) (by omega) (by omega)
      · have : r0 = src.length := by omega
        subst this
        simp [slice_zero_length]
  have := key src.length 0 (by omega) (by omega)
  simp only [slice_self, Nat.add_zero] at this
  rw [← this]
  congr 2
  unfold writeAt
  simp

theorem concatAux_arrays {α} (off : Mat α → Nat) : ∀ (parts : List (Mat α)) (i0 : Nat),
    (concatAux off parts i0).2.1 = parts.flatMap (·.indices) ∧
    (concatAux off parts i0).2.2 = parts.flatMap (·.data) := by
  intro parts
  induction parts with
  | nil => intro i0; exact ⟨rfl, rfl⟩
  | cons P Ps ih =>
    intro i0
    simp only [concatAux, List.flatMap_cons]
    exact ⟨by rw [(ih _).1], by rw [(ih _).2]⟩

theorem joinFold {α} (zero : α) (blk : Nat) (hblk : 1 ≤ blk) :
    ∀ (parts : List (Mat α)) (doneI : List Nat) (doneD : List α),
      (∀ P ∈ parts, P.data.length = P.indices.length) → doneD.length = doneI.length →
      parts.foldl
        (fun st P => ((blockCopyInto blk st.1 st.2.2 P.indices).1,
                      (blockCopyInto blk st.2.1 st.2.2 P.data).1,
                      st.2.2 + P.indices.length))
        (doneI ++ List.replicate ((parts.map (·.indices.length)).sum) 0,
         doneD ++ List.replicate ((parts.map (·.indices.length)).sum) zero, doneI.length)
      = (doneI ++ parts.flatMap (·.indices), doneD ++ parts.flatMap (·.data),
         doneI.length + (parts.map (·.indices.length)).sum) := by
  intro parts
  induction parts with
  | nil => intro doneI doneD _ _; simp
  | cons P Ps ih =>
    intro doneI doneD hp hd
    have hP := hp P (by simp)
    simp only [List.map_cons, List.sum_cons, List.foldl_cons, List.flatMap_cons]
    rw [blockCopyInto_eq blk hblk _ _ P.indices (by simp),
      blockCopyInto_eq blk hblk _ _ P.data (by simp; omega)]
    simp only
    rw [writeAt_padded, ← hd, writeAt_padded, hP]
    have e : P.indices.length + (Ps.map (·.indices.length)).sum - P.indices.length
        = (Ps.map (·.indices.length)).sum := by omega
    rw [e]
    have := ih (doneI ++ P.indices) (doneD ++ P.data) (fun Q hQ => hp Q (by simp [hQ]))
      (by simp [hd, hP])
    rw [List.length_append] at this
    rw [hd]
    rw [this]
    simp only [List.append_assoc, Nat.add_assoc]

/-- **the joining loop of the parallel transposition with its block
addressing** equals the plain concatenation, for every block size `≥ 1` -/
theorem joinBlocked_eq {α} (zero : α) (blk : Nat) (hblk : 1 ≤ blk) (parts : List (Mat α))
    (hp : ∀ P ∈ parts, P.data.length = P.indices.length) :
    joinBlocked zero blk parts = joinParts parts := by
  unfold joinBlocked
  have := joinFold zero blk hblk parts [] [] hp rfl
  simp only [List.nil_append, List.length_nil, Nat.zero_add] at this
  simp only
  rw [this]
  unfold joinParts
  simp only
  rw [(concatAux_arrays _ parts 0).1, (concatAux_arrays _ parts 0).2]

theorem mapM_ok_mem {β γ ε} (f : β → Except ε γ) : ∀ (l : List β) (ys : List γ),
    l.mapM f = .ok ys → ∀ y ∈ ys, ∃ x ∈ l, f x = .ok y := by
  intro l
  induction l with
  | nil =>
    intro ys h y hy
    simp only [List.mapM_nil, pure, Except.pure, Except.ok.injEq] at h
    subst h; simp at hy
  | cons a as ih =>
    intro ys h y hy
    rw [List.mapM_cons] at h
    cases hfa : f a with
    | error e => rw [hfa] at h; cases h
    | ok b =>
      rw [hfa] at h
      cases hrest : as.mapM f with
      | error e => rw [hrest] at h; cases h
      | ok bs =>
        rw [hrest] at h
        simp only [bind, Except.bind, pure, Except.pure, Except.ok.injEq] at h
        subst h
        rcases List.mem_cons.mp hy with hy | hy
        · subst hy; exact ⟨a, by simp, hfa⟩
        · obtain ⟨x, hx, hfx⟩ := ih bs hrest y hy
          exact ⟨x, by simp [hx], hfx⟩

theorem transposeOnDisk_lengths {α} (M : Mat α) (imax : Nat) (sl : Option (Nat × Nat))
    (B : Budget) (P : Mat α) (h : transposeOnDisk M imax sl B = .ok P) :
    P.data.length = P.indices.length := by
  unfold transposeOnDisk at h
  cases hc : calcIndptr M.indices imax sl B.loCount with
  | error e => rw [hc] at h; cases h
  | ok r =>
    rw [hc] at h
    simp only [bind, Except.bind, pure, Except.pure, Except.ok.injEq] at h
    subst h
    simp

/-- the parallel transposition with the blockwise joining loop is the parallel
transposition — for every block size `≥ 1`, every matrix, budget and worker
count (also when it fails) -/
theorem transposeV2Blocked_eq {α} (zero : α) (M : Mat α) (imax nProc : Nat) (B : Budget)
    (blk : Nat) (hblk : 1 ≤ blk) :
    transposeV2Blocked zero M imax nProc B blk = transposeV2 M imax nProc B := by
  unfold transposeV2Blocked transposeV2
  by_cases hz : (ceilDiv imax nProc == 0) = true
  · simp [hz]
  · simp only [hz, Bool.false_eq_true, if_false]
    cases hm : (chunks imax (ceilDiv imax nProc)).mapM
        (fun sl => transposeOnDisk M imax (some sl) B) with
    | error e => rfl
    | ok parts =>
      simp only [bind, Except.bind, pure, Except.pure]
      congr 1
      apply joinBlocked_eq zero blk hblk
      intro P hP
      obtain ⟨sl, _, hsl⟩ := mapM_ok_mem _ _ _ hm P hP
      exact transposeOnDisk_lengths M imax (some sl) B P hsl

end CTM.Sparse
