/-
  Lemmas about the chunk arithmetic of `CTM/Model/Chunking.lean`.
-/
import CTM.Model.Chunking

namespace CTM.Chunking

theorem slice_append {α} (l : List α) {a b c : Nat} (hab : a ≤ b) (hbc : b ≤ c) :
    slice l a b ++ slice l b c = slice l a c := by
  unfold slice
  have h1 : l.drop b = (l.drop a).drop (b - a) := by
    rw [List.drop_drop]; congr 1; omega
  rw [h1]
  have h2 : c - a = (b - a) + (c - b) := by omega
  rw [h2, List.take_add]

theorem slice_self {α} (l : List α) (a : Nat) : slice l a a = [] := by
  simp [slice]

theorem slice_zero_length {α} (l : List α) : slice l 0 l.length = l := by
  simp [slice]

theorem slice_length_le {α} (l : List α) {a b : Nat} (h : b ≤ l.length) :
    (slice l a b).length = b - a := by
  simp [slice]; omega

/-- the chunk list from `r0` on concatenates to the integers `r0 ..< n` -/
theorem chunksAux_cover (n cs : Nat) (hcs : 1 ≤ cs) :
    ∀ (fuel r0 : Nat), r0 ≤ n → n - r0 ≤ fuel →
      (chunksAux n cs fuel r0).flatMap rangeOf = List.range' r0 (n - r0) := by
  intro fuel
  induction fuel with
  | zero =>
    intro r0 h1 h2
    have : n - r0 = 0 := by omega
    simp [chunksAux, this]
  | succ f ih =>
    intro r0 h1 h2
    unfold chunksAux
    by_cases h : r0 < n
    · simp only [h, if_true, List.flatMap_cons]
      rw [ih (min n (r0 + cs)) (by omega) (by omega)]
      simp only [rangeOf]
      have : n - r0 = (min n (r0 + cs) - r0) + (n - min n (r0 + cs)) := by omega
      rw [this, ← List.range'_append_1]
      congr 2
      omega
    · have : n - r0 = 0 := by omega
      simp [h, this]

/-- slices along the chunk list concatenate to the slice `r0 ..< n` -/
theorem chunksAux_slices {α} (l : List α) (n cs : Nat) (hcs : 1 ≤ cs) :
    ∀ (fuel r0 : Nat), r0 ≤ n → n - r0 ≤ fuel →
      (chunksAux n cs fuel r0).flatMap (fun p => slice l p.1 p.2) = slice l r0 n := by
  intro fuel
  induction fuel with
  | zero =>
    intro r0 h1 h2
    have : r0 = n := by omega
    simp [chunksAux, this, slice_self]
  | succ f ih =>
    intro r0 h1 h2
    unfold chunksAux
    by_cases h : r0 < n
    · simp only [h, if_true, List.flatMap_cons]
      rw [ih (min n (r0 + cs)) (by omega) (by omega)]
      exact slice_append l (by omega) (by omega)
    · have : r0 = n := by omega
      simp [this, slice_self]

/-- every chunk is a non-empty range inside `[0, n)` of width at most `cs` -/
theorem chunksAux_bounds (n cs : Nat) (hcs : 1 ≤ cs) :
    ∀ (fuel r0 : Nat), ∀ p ∈ chunksAux n cs fuel r0,
      r0 ≤ p.1 ∧ p.1 < p.2 ∧ p.2 ≤ n ∧ p.2 - p.1 ≤ cs ∧ (p.2 < n → p.2 - p.1 = cs) := by
  intro fuel
  induction fuel with
  | zero => intro r0 p hp; simp [chunksAux] at hp
  | succ f ih =>
    intro r0 p hp
    unfold chunksAux at hp
    by_cases h : r0 < n
    · simp only [h, if_true, List.mem_cons] at hp
      rcases hp with hp | hp
      · subst hp; simp only; omega
      · have := ih _ p hp; omega
    · simp [h] at hp

/-- number of chunks: `ceil((n - r0) / cs)` -/
theorem chunksAux_length (n cs : Nat) (hcs : 1 ≤ cs) :
    ∀ (fuel r0 : Nat), r0 ≤ n → n - r0 ≤ fuel →
      (chunksAux n cs fuel r0).length = ceilDiv (n - r0) cs := by
  intro fuel
  induction fuel with
  | zero =>
    intro r0 h1 h2
    have : n - r0 = 0 := by omega
    have e : (cs - 1) / cs = 0 := Nat.div_eq_of_lt (by omega)
    simp [chunksAux, this, ceilDiv, e]
  | succ f ih =>
    intro r0 h1 h2
    unfold chunksAux
    by_cases h : r0 < n
    · simp only [h, if_true, List.length_cons]
      rw [ih (min n (r0 + cs)) (by omega) (by omega)]
      unfold ceilDiv
      by_cases h3 : r0 + cs ≤ n
      · have e1 : min n (r0 + cs) = r0 + cs := by omega
        rw [e1]
        have e2 : n - r0 + cs - 1 = (n - (r0 + cs) + cs - 1) + cs := by omega
        rw [e2, Nat.add_div_right _ (by omega)]
      · have e1 : min n (r0 + cs) = n := by omega
        rw [e1]
        have e3 : (n - n + cs - 1) / cs = 0 := by
          apply Nat.div_eq_of_lt; omega
        have e4 : (n - r0 + cs - 1) / cs = 1 := by
          apply Nat.div_eq_of_lt_le <;> omega
        omega
    · have : n - r0 = 0 := by omega
      have e : (cs - 1) / cs = 0 := Nat.div_eq_of_lt (by omega)
      simp [h, this, ceilDiv, e]

theorem sliceChunks_flatten {α} (l : List α) (step : Nat) (h : 1 ≤ step) :
    (sliceChunks step l).flatten = l := by
  unfold sliceChunks chunks
  rw [← List.flatMap_def]
  rw [chunksAux_slices l l.length step h l.length 0 (by omega) (by omega)]
  exact slice_zero_length l

end CTM.Chunking
