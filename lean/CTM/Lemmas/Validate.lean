/-
  Lemmas about the h5ad validation model (`CTM.Model.Validate`), used by the
  property theorems in `CTM.Props.C16`.
-/
import CTM.Model.Validate
import Mathlib.Tactic.Linarith
import Mathlib.Tactic.NormNum
import Mathlib.Algebra.Order.Field.Rat
import Mathlib.Data.Rat.Floor
namespace CTM.Validate

/-! ### rounding -/


theorem roundHalfEven_cases (x : Rat) :
    (x - (x.floor : Rat) < 1/2 ∧ roundHalfEven x = x.floor) ∨
    (1/2 < x - (x.floor : Rat) ∧ roundHalfEven x = x.floor + 1) ∨
    (x - (x.floor : Rat) = 1/2 ∧ x.floor % 2 = 0 ∧ roundHalfEven x = x.floor) ∨
    (x - (x.floor : Rat) = 1/2 ∧ x.floor % 2 ≠ 0 ∧ roundHalfEven x = x.floor + 1) := by
  unfold roundHalfEven
  simp only []
  split_ifs with h1 h2 h3
  · exact Or.inl ⟨h1, rfl⟩
  · exact Or.inr (Or.inl ⟨h2, rfl⟩)
  · exact Or.inr (Or.inr (Or.inl ⟨le_antisymm (not_lt.mp h2) (not_lt.mp h1), h3, rfl⟩))
  · exact Or.inr (Or.inr (Or.inr ⟨le_antisymm (not_lt.mp h2) (not_lt.mp h1), h3, rfl⟩))

theorem round_half (x : Rat) :
    -(1/2) ≤ (roundHalfEven x : Rat) - x ∧ (roundHalfEven x : Rat) - x ≤ 1/2 := by
  have h1 := Rat.floor_le x
  have h2 := Rat.lt_floor_add_one x
  push_cast at h2
  rcases roundHalfEven_cases x with ⟨h, e⟩ | ⟨h, e⟩ | ⟨h, _, e⟩ | ⟨h, _, e⟩ <;> rw [e] <;> push_cast <;>
    constructor <;> linarith

theorem floor_le_round (x : Rat) : x.floor ≤ roundHalfEven x := by
  rcases roundHalfEven_cases x with ⟨h, e⟩ | ⟨h, e⟩ | ⟨h, _, e⟩ | ⟨h, _, e⟩ <;> omega

theorem round_le_floor_add_one (x : Rat) : roundHalfEven x ≤ x.floor + 1 := by
  rcases roundHalfEven_cases x with ⟨h, e⟩ | ⟨h, e⟩ | ⟨h, _, e⟩ | ⟨h, _, e⟩ <;> omega

theorem floor_mono {x y : Rat} (h : x ≤ y) : x.floor ≤ y.floor := by
  rw [Rat.le_floor_iff]
  exact le_trans (Rat.floor_le x) h

theorem round_mono {x y : Rat} (h : x ≤ y) : roundHalfEven x ≤ roundHalfEven y := by
  have hf := floor_mono h
  rcases lt_or_eq_of_le hf with hlt | heq
  · have := round_le_floor_add_one x
    have := floor_le_round y
    omega
  · rcases roundHalfEven_cases x with ⟨hx, ex⟩ | ⟨hx, ex⟩ | ⟨hx, px, ex⟩ | ⟨hx, px, ex⟩ <;>
    rcases roundHalfEven_cases y with ⟨hy, ey⟩ | ⟨hy, ey⟩ | ⟨hy, py, ey⟩ | ⟨hy, py, ey⟩ <;>
    rw [ex, ey] <;> rw [heq] at * <;> first | omega | (exfalso; linarith)

theorem round_int (n : Int) : roundHalfEven (n : Rat) = n := by
  unfold roundHalfEven
  simp [Rat.floor_intCast]

theorem round_tie_even (x : Rat) (h : x - (x.floor : Rat) = 1/2) : roundHalfEven x % 2 = 0 := by
  rcases roundHalfEven_cases x with ⟨hx, ex⟩ | ⟨hx, ex⟩ | ⟨hx, px, ex⟩ | ⟨hx, px, ex⟩
  · linarith
  · linarith
  · omega
  · omega

/-! ### the integer ladder -/

theorem rungAccepts_none_iff (lo hi : Int) (r : Rung) :
    rungAccepts none lo hi r = true ↔ r.2.1 ≤ lo ∧ hi ≤ r.2.2 := by
  simp [rungAccepts, seenLimit]

theorem castTo_of_accepts {r : Rung} {mn mx v : Rat}
    (h : rungAccepts none (roundHalfEven mn) (roundHalfEven mx) r = true)
    (h1 : mn ≤ v) (h2 : v ≤ mx) : castTo r v = some (roundHalfEven v) := by
  rw [rungAccepts_none_iff] at h
  have a := round_mono h1
  have b := round_mono h2
  unfold castTo
  simp only []
  rw [if_pos ⟨by omega, by omega⟩]

theorem find_fits {ladder : List Rung} {r : Rung} {mn mx v : Rat}
    (h : ladder.find? (rungAccepts none (roundHalfEven mn) (roundHalfEven mx)) = some r)
    (h1 : mn ≤ v) (h2 : v ≤ mx) : castTo r v = some (roundHalfEven v) :=
  castTo_of_accepts (List.find?_some h) h1 h2

theorem find_first {ladder : List Rung} {r : Rung} {p : Rung → Bool}
    (h : ladder.find? p = some r) :
    p r = true ∧ ∃ pre post, ladder = pre ++ r :: post ∧ ∀ q ∈ pre, p q = false := by
  rw [List.find?_eq_some_iff_append] at h
  obtain ⟨hp, pre, post, e, hq⟩ := h
  exact ⟨hp, pre, post, e, fun q hq' => by simpa using hq q hq'⟩

theorem ladder_exists (lo hi : Int)
    (h : (0 ≤ lo ∧ hi ≤ 18446744073709551615) ∨
      (-9223372036854775808 ≤ lo ∧ hi ≤ 9223372036854775807)) :
    ∃ r, Generated.intLadder.find? (rungAccepts none lo hi) = some r := by
  rw [← Option.isSome_iff_exists, List.find?_isSome]
  rcases h with h | h
  · exact ⟨("uint64", 0, 18446744073709551615), by simp [Generated.intLadder],
      (rungAccepts_none_iff _ _ _).2 h⟩
  · refine ⟨("int64", -9223372036854775808, 9223372036854775807), by simp [Generated.intLadder], ?_⟩
    rw [rungAccepts_none_iff]
    exact h

theorem chooseIntDtype_of_find {fb : Option Nat} {mn mx : Rat} {r : Rung}
    (h : Generated.intLadder.find? (rungAccepts fb (roundHalfEven mn) (roundHalfEven mx)) = some r) :
    chooseIntDtype fb mn mx = r := by
  unfold chooseIntDtype
  rw [h]

theorem chooseIntDtype_mem (fb : Option Nat) (mn mx : Rat) :
    chooseIntDtype fb mn mx ∈ Generated.intLadder ∨
      chooseIntDtype fb mn mx = Generated.intLadderDefault := by
  unfold chooseIntDtype
  split
  · next r h => exact Or.inl (List.mem_of_find?_eq_some h)
  · exact Or.inr rfl

/-! ### comparison modes -/

theorem seenLimit_eq_mode (fb : Option Nat) (i : Int) :
    seenLimit fb i = seenLimitMode sourceMode fb i := by
  cases fb <;> rfl

theorem rungAccepts_eq_mode (fb : Option Nat) (lo hi : Int) (r : Rung) :
    rungAccepts fb lo hi r = rungAcceptsMode sourceMode fb lo hi r := by
  unfold rungAccepts rungAcceptsMode
  simp only [seenLimit_eq_mode]

theorem chooseIntDtype_eq_mode (fb : Option Nat) (mn mx : Rat) :
    chooseIntDtype fb mn mx = chooseIntDtypeMode sourceMode fb mn mx := by
  unfold chooseIntDtype chooseIntDtypeMode
  have : rungAccepts fb (roundHalfEven mn) (roundHalfEven mx) =
      rungAcceptsMode sourceMode fb (roundHalfEven mn) (roundHalfEven mx) :=
    funext (rungAccepts_eq_mode fb _ _)
  rw [this]

theorem seenLimitMode_exact (fb : Option Nat) (i : Int) : seenLimitMode .exact fb i = (i : Rat) := by
  cases fb <;> rfl

theorem rungAcceptsMode_exact (fb : Option Nat) (lo hi : Int) :
    rungAcceptsMode .exact fb lo hi = rungAccepts none lo hi := by
  funext r
  unfold rungAcceptsMode rungAccepts
  simp only [seenLimitMode_exact]
  rfl

/-- the comparison is exact when the bounds are integers or the source compares Python ints -/
theorem rungAccepts_exact {fb : Option Nat} (h : fb = none ∨ sourceMode = .exact) (lo hi : Int) :
    rungAccepts fb lo hi = rungAccepts none lo hi := by
  rcases h with h | h
  · rw [h]
  · funext r
    rw [rungAccepts_eq_mode, h, rungAcceptsMode_exact]

theorem chooseIntDtypeMode_exact (fb : Option Nat) (mn mx : Rat) :
    chooseIntDtypeMode .exact fb mn mx = chooseIntDtype none mn mx := by
  unfold chooseIntDtype chooseIntDtypeMode
  rw [rungAcceptsMode_exact]

theorem chooseIntDtype_exact {fb : Option Nat} (h : fb = none ∨ sourceMode = .exact) (mn mx : Rat) :
    chooseIntDtype fb mn mx = chooseIntDtype none mn mx := by
  unfold chooseIntDtype
  rw [rungAccepts_exact h]

/-! ### duplicates -/

theorem hasDup_iff (l : List Name) : hasDup l = true ↔ ¬ l.Nodup := by
  induction l with
  | nil => simp [hasDup]
  | cons x xs ih =>
    simp only [hasDup, Bool.or_eq_true, List.contains_iff_mem, List.nodup_cons, ih]
    tauto

theorem hasDup_false_iff (l : List Name) : hasDup l = false ↔ l.Nodup := by
  rw [← Bool.not_eq_true, hasDup_iff, not_not]

/-! ### `validate` -/

/-- the `cast_to_int` flag of `_validate_h5ad` -/
def castNeeded (inp : Input) : Bool :=
  inp.roundToInt && !(inp.intDtype || isIntegersChunked inp.eps inp.storage.readChunks)

/-- the min / max `_validate_h5ad` works with -/
def minmaxUsed (inp : Input) : Except VErr (Option (Rat × Rat)) :=
  if inp.expectedMax.isSome || castNeeded inp then inp.storage.minmax else .ok (some (0, 0))

theorem checkCellIds_ok {l : List Name} (h : hasDup l = false) : checkCellIds l = .ok () := by
  simp [checkCellIds, h]

theorem checkGeneNames_ok {l : List Name} (h : hasDup l = false) (h' : [] ∉ l) :
    checkGeneNames l = .ok () := by
  simp [checkGeneNames, h, h']

theorem validate_dupCells {ph : Nat → Name} {inp : Input} (h : hasDup inp.cellIds = true) :
    validate ph inp = .error .dupCellIds := by
  have hc : checkCellIds inp.cellIds = .error .dupCellIds := by simp [checkCellIds, h]
  unfold validate
  simp only [hc]

theorem validate_badGenes {ph : Nat → Name} {inp : Input} (h0 : hasDup inp.cellIds = false)
    (h : hasDup inp.genes = true ∨ [] ∈ inp.genes) :
    validate ph inp = .error .badGeneNames := by
  have hg : checkGeneNames inp.genes = .error .badGeneNames := by
    rcases h with h | h <;> simp [checkGeneNames, h]
  unfold validate
  simp only [checkCellIds_ok h0, hg]

/-- everything a successful run of `validate` went through -/
theorem validate_ok_inv {ph : Nat → Name} {inp : Input} {plan : Plan}
    (h : validate ph inp = .ok plan) :
    hasDup inp.cellIds = false ∧ hasDup inp.genes = false ∧ [] ∉ inp.genes ∧
    ∃ mappedVar nUnmapped mn mx,
      mapGeneIdsInVar inp.lookup ph inp.start inp.genes = .ok (mappedVar, nUnmapped) ∧
      minmaxUsed inp = .ok (some (mn, mx)) ∧
      (∀ mv, mappedVar = some mv → hasDup mv = false) ∧
      plan.writeNew = (!inp.layerIsX || mappedVar.isSome || castNeeded inp) ∧
      plan.genes = mappedVar.getD inp.genes ∧
      plan.values = (if castNeeded inp then
          inp.storage.values.map (fun v =>
            (castTo (chooseIntDtype inp.floatBits mn mx) v).map (fun i : Int => (i : Rat)))
        else inp.storage.values.map some) ∧
      plan.dtype = (if castNeeded inp then some (chooseIntDtype inp.floatBits mn mx).1 else none) ∧
      plan.mapping = mappedVar.map (fun mv => (inp.genes.zip mv).filter (fun p => p.1 != p.2)) ∧
      plan.nMapped = inp.genes.length - nUnmapped := by
  unfold validate at h
  split at h
  · cases h
  next hc =>
  split at h
  · cases h
  next hg =>
  have hc' : hasDup inp.cellIds = false := by
    revert hc; unfold checkCellIds; cases hasDup inp.cellIds <;> simp
  have hg' : hasDup inp.genes = false ∧ [] ∉ inp.genes := by
    revert hg; unfold checkGeneNames
    cases hasDup inp.genes <;> simp
  refine ⟨hc', hg'.1, hg'.2, ?_⟩
  simp only [] at h
  split at h
  · cases h
  next mappedVar nUnmapped hm =>
  split at h
  · cases h
  · cases h
  next mn mx hmm =>
  refine ⟨mappedVar, nUnmapped, mn, mx, hm, hmm, ?_⟩
  have hcn : (inp.roundToInt && !(inp.intDtype || isIntegersChunked inp.eps inp.storage.readChunks))
      = castNeeded inp := rfl
  have hmap : ∀ o : Option Int, (Option.map (fun i : Rat => i) do let a ← o; pure (a : Rat))
      = o.map (fun i : Int => (i : Rat)) := by
    intro o; cases o <;> rfl
  simp only [hcn, hmap] at h
  clear hmm
  generalize castNeeded inp = cn at h ⊢
  generalize inp.layerIsX = lx at h ⊢
  cases mappedVar with
  | none =>
    cases cn <;> cases lx <;> simp at h <;> subst h <;> simp
  | some mv =>
    cases hd : hasDup mv
    · cases cn <;> cases lx <;> simp [hd] at h <;> subst h <;> simp [hd]
    · simp [hd] at h

theorem validate_dupMapped {ph : Nat → Name} {inp : Input} {mv : List Name} {k : Nat} {mn mx : Rat}
    (h0 : hasDup inp.cellIds = false) (h1 : hasDup inp.genes = false) (h2 : [] ∉ inp.genes)
    (hm : mapGeneIdsInVar inp.lookup ph inp.start inp.genes = .ok (some mv, k))
    (hd : hasDup mv = true) (hmm : minmaxUsed inp = .ok (some (mn, mx))) :
    validate ph inp = .error .dupMapped := by
  have hmm' : (if (inp.expectedMax.isSome ||
        inp.roundToInt && !(inp.intDtype || isIntegersChunked inp.eps inp.storage.readChunks)) = true
      then inp.storage.minmax else Except.ok (some (0, 0))) = .ok (some (mn, mx)) := hmm
  unfold validate
  simp only [checkCellIds_ok h0, checkGeneNames_ok h1 h2, hm, hmm']
  simp [hd]

/-! ### gene identifiers -/

/-- neither an Ensembl identifier nor a known symbol -/
def isUnknown (lookup : List (Name × Name)) (g : Name) : Bool :=
  !isEnsembl g && (lookup.lookup g).isNone

/-- the new name of one gene (before the version suffix is cut), `k` being the
counter of the placeholder generator -/
def renameOne (lookup : List (Name × Name)) (placeholder : Nat → Name) (k : Nat) (g : Name) : Name :=
  if isEnsembl g then g else
    match lookup.lookup g with
    | some e => e
    | none => placeholder k

def renameFrom (lookup : List (Name × Name)) (placeholder : Nat → Name) : Nat → List Name → List Name
  | _, [] => []
  | k, g :: gs => renameOne lookup placeholder k g ::
      renameFrom lookup placeholder (if isUnknown lookup g then k + 1 else k) gs

theorem mapStep_eq (lookup : List (Name × Name)) (ph : Nat → Name) (st : MapState) (g : Name) :
    (mapStep lookup ph st g).out = st.out ++ [renameOne lookup ph st.ct g] ∧
    (mapStep lookup ph st g).ct = (if isUnknown lookup g then st.ct + 1 else st.ct) ∧
    (mapStep lookup ph st g).unmappable =
      (if isUnknown lookup g then st.unmappable + 1 else st.unmappable) := by
  unfold mapStep renameOne isUnknown
  by_cases he : isEnsembl g = true
  · simp [he]
  · cases lookup.lookup g <;> simp [he]

theorem foldl_mapStep (lookup : List (Name × Name)) (ph : Nat → Name) (genes : List Name) :
    ∀ st : MapState,
    (genes.foldl (mapStep lookup ph) st).out = st.out ++ renameFrom lookup ph st.ct genes ∧
    (genes.foldl (mapStep lookup ph) st).ct = st.ct + genes.countP (isUnknown lookup) ∧
    (genes.foldl (mapStep lookup ph) st).unmappable =
      st.unmappable + genes.countP (isUnknown lookup) := by
  induction genes with
  | nil => intro st; simp [renameFrom]
  | cons g gs ih =>
    intro st
    obtain ⟨h1, h2, h3⟩ := mapStep_eq lookup ph st g
    obtain ⟨i1, i2, i3⟩ := ih (mapStep lookup ph st g)
    rw [List.foldl_cons, i1, i2, i3, h1, h2, h3]
    by_cases hu : isUnknown lookup g = true
    · simp [hu, renameFrom]; omega
    · simp [hu, renameFrom]

theorem renameFrom_length (lookup : List (Name × Name)) (ph : Nat → Name) (genes : List Name) :
    ∀ k, (renameFrom lookup ph k genes).length = genes.length := by
  induction genes with
  | nil => intro k; rfl
  | cons g gs ih => intro k; simp [renameFrom, ih]

theorem renameFrom_getElem? (lookup : List (Name × Name)) (ph : Nat → Name) (genes : List Name) :
    ∀ k i, (renameFrom lookup ph k genes)[i]? =
      genes[i]?.map (renameOne lookup ph (k + (genes.take i).countP (isUnknown lookup))) := by
  induction genes with
  | nil => intro k i; simp [renameFrom]
  | cons g gs ih =>
    intro k i
    cases i with
    | zero => simp [renameFrom]
    | succ j =>
      simp only [renameFrom, List.getElem?_cons_succ, ih, List.take_succ_cons, List.countP_cons]
      by_cases hu : isUnknown lookup g = true
      · simp [hu]; congr 2; omega
      · simp [hu]

/-- what a successful `mapGenes` returns -/
theorem mapGenes_ok {lookup : List (Name × Name)} {ph : Nat → Name} {start : Nat}
    {genes : List Name} {o : MapOut} (h : mapGenes lookup ph start genes = .ok o) :
    o.mapped = (renameFrom lookup ph start genes).map stripSuffix ∧
    o.nUnmapped = genes.countP (isUnknown lookup) ∧
    o.ct = start + genes.countP (isUnknown lookup) := by
  unfold mapGenes at h
  split at h
  next he =>
    cases h
    have : genes = [] := by simpa using he
    subst this
    simp [renameFrom]
  next he =>
    simp only [] at h
    split at h
    · cases h
    · cases h
      obtain ⟨i1, i2, i3⟩ := foldl_mapStep lookup ph genes ⟨[], start, 0, 0, 0⟩
      simp [i1, i2, i3]

theorem mapGeneIdsInVar_ok {lookup : List (Name × Name)} {ph : Nat → Name} {start : Nat}
    {genes : List Name} {mv : Option (List Name)} {k : Nat}
    (h : mapGeneIdsInVar lookup ph start genes = .ok (mv, k)) :
    ∃ o, mapGenes lookup ph start genes = .ok o ∧
      ((o.mapped = genes ∧ mv = none ∧ k = 0) ∨
       (o.mapped ≠ genes ∧ mv = some o.mapped ∧ k = o.nUnmapped)) := by
  unfold mapGeneIdsInVar at h
  split at h
  · cases h
  next o ho =>
    refine ⟨o, ho, ?_⟩
    split at h
    next he => cases h; exact Or.inl ⟨he, rfl, rfl⟩
    next he => cases h; exact Or.inr ⟨he, rfl, rfl⟩

theorem countP_take_lt {p : Name → Bool} {genes : List Name} {i j : Nat} (hij : i < j)
    (hj : j ≤ genes.length) (hi : ∃ g, genes[i]? = some g ∧ p g = true) :
    (genes.take i).countP p < (genes.take j).countP p := by
  obtain ⟨g, hg, hp⟩ := hi
  have hlt : i < genes.length := by omega
  have h1 : genes.take (i + 1) = genes.take i ++ [g] := by
    rw [List.take_add_one, hg]; rfl
  have h2 : (genes.take (i + 1)).countP p = (genes.take i).countP p + 1 := by
    rw [h1, List.countP_append]; simp [hp]
  have h3 : (genes.take (i + 1)).countP p ≤ (genes.take j).countP p := by
    apply List.Sublist.countP_le
    exact (List.take_sublist_take_left (by omega)) 
  omega

theorem stripSuffix_eq_self {s : Name} (h : '.' ∉ s) : stripSuffix s = s := by
  unfold stripSuffix
  induction s with
  | nil => rfl
  | cons c cs ih =>
    have hc : c ≠ '.' := fun e => h (by simp [e])
    have hcs : '.' ∉ cs := fun e => h (by simp [e])
    simp [hc, ih hcs]

theorem dot_notMem_stripSuffix (s : Name) : '.' ∉ stripSuffix s := by
  unfold stripSuffix
  induction s with
  | nil => simp
  | cons c cs ih =>
    by_cases hc : c = '.'
    · simp [hc]
    · simp only [List.takeWhile_cons, bne_iff_ne, ne_eq, hc, not_false_eq_true, if_true,
        List.mem_cons, not_or]
      exact ⟨fun e => hc e.symm, ih⟩

theorem renameFrom_all_ensembl (lookup : List (Name × Name)) (ph : Nat → Name) (genes : List Name)
    (h : ∀ g ∈ genes, isEnsembl g = true) : ∀ k, renameFrom lookup ph k genes = genes := by
  induction genes with
  | nil => intro k; rfl
  | cons g gs ih =>
    intro k
    have hg : isEnsembl g = true := h g (by simp)
    simp only [renameFrom, renameOne, hg, if_true]
    rw [ih (fun g' hg' => h g' (by simp [hg']))]

theorem map_stripSuffix_eq_self {genes : List Name} (h : ∀ g ∈ genes, '.' ∉ g) :
    genes.map stripSuffix = genes := by
  induction genes with
  | nil => rfl
  | cons g gs ih =>
    rw [List.map_cons, stripSuffix_eq_self (h g (by simp)), ih (fun g' hg' => h g' (by simp [hg']))]

/-! ### a small example input -/

/-- example input used by the non-vacuity examples of `CTM.Props.C16` -/
def demoLookup : List (Name × Name) := [(['A','b','c'], ['E','N','S','G','0','7'])]
/-- placeholder names with a unary counter: `u_`, `u_x`, `u_xx`, ... -/
def demoPlaceholder (k : Nat) : Name := 'u' :: '_' :: List.replicate k 'x'

theorem demoPlaceholder_injective :
    Function.Injective (fun k => stripSuffix (demoPlaceholder k)) := by
  intro a b hab
  have h : ∀ k, stripSuffix (demoPlaceholder k) = demoPlaceholder k := by
    intro k; apply stripSuffix_eq_self; simp [demoPlaceholder]
  simp only [h] at hab
  have := congrArg List.length hab
  simpa [demoPlaceholder] using this

def demoInput : Input :=
  { cellIds := [['c','1'],['c','2']]
    genes := [['E','N','S','G','0','1','.','2'], ['A','b','c'], ['x','y'], ['z']]
    layerIsX := true, roundToInt := true, intDtype := false, floatBits := none
    storage := .dense [[1/2, 255 + 1/2, 0, 3], [3, 0, 7/4, -1/2]] 4 (some (1, 3))
    eps := 1/1000, expectedMax := none, lookup := demoLookup, start := 2 }

end CTM.Validate
