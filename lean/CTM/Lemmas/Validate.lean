/-
  Lemmas about the h5ad validation model (`CTM.Model.Validate`), used by the
  property theorems in `CTM.Props.C16`.
-/
import CTM.Model.Validate
import Mathlib.Tactic.Linarith
import Mathlib.Tactic.NormNum
import Mathlib.Algebra.Order.Field.Rat
import Mathlib.Data.Rat.Floor
namespace CTM.Validate

/-! ### rounding -/


theorem roundHalfEven_cases (x : Rat) :
    (x - (x.floor : Rat) < 1/2 ∧ roundHalfEven x = x.floor) ∨
    (1/2 < x - (x.floor : Rat) ∧ roundHalfEven x = x.floor + 1) ∨
    (x - (x.floor : Rat) = 1/2 ∧ x.floor % 2 = 0 ∧ roundHalfEven x = x.floor) ∨
    (x - (x.floor : Rat) = 1/2 ∧ x.floor % 2 ≠ 0 ∧ roundHalfEven x = x.floor + 1) := by
  unfold roundHalfEven
  simp only []
  split_ifs with h1 h2 h3
  · exact Or.inl ⟨h1, rfl⟩
  · exact Or.inr (Or.inl ⟨h2, rfl⟩)
  · exact Or.inr (Or.inr (Or.inl ⟨le_antisymm (not_lt.mp h2) (not_lt.mp h1), h3, rfl⟩))
  · exact Or.inr (Or.inr (Or.inr ⟨le_antisymm (not_lt.mp h2) (not_lt.mp h1), h3, rfl⟩))

theorem round_half (x : Rat) :
    -(1/2) ≤ (roundHalfEven x : Rat) - x ∧ (roundHalfEven x : Rat) - x ≤ 1/2 := by
  have h1 := Rat.floor_le x
  have h2 := Rat.lt_floor_add_one x
  push_cast at h2
  rcases roundHalfEven_cases x with ⟨h, e⟩ | ⟨h, e⟩ | ⟨h, _, e⟩ | ⟨h, _, e⟩ <;> rw [e] <;> push_cast <;>
    constructor <;> linarith

theorem floor_le_round (x : Rat) : x.floor ≤ roundHalfEven x := by
  rcases roundHalfEven_cases x with ⟨h, e⟩ | ⟨h, e⟩ | ⟨h, _, e⟩ | ⟨h, _, e⟩ <;> omega

theorem round_le_floor_add_one (x : Rat) : roundHalfEven x ≤ x.floor + 1 := by
  rcases roundHalfEven_cases x with ⟨h, e⟩ | ⟨h, e⟩ | ⟨h, _, e⟩ | ⟨h, _, e⟩ <;> omega

theorem floor_mono {x y : Rat} (h : x ≤ y) : x.floor ≤ y.floor := by
  rw [Rat.le_floor_iff]
  exact le_trans (Rat.floor_le x) h

theorem round_mono {x y : Rat} (h : x ≤ y) : roundHalfEven x ≤ roundHalfEven y := by
  have hf := floor_mono h
  rcases lt_or_eq_of_le hf with hlt | heq
  · have := round_le_floor_add_one x
    have := floor_le_round y
    omega
  · rcases roundHalfEven_cases x with ⟨hx, ex⟩ | ⟨hx, ex⟩ | ⟨hx, px, ex⟩ | ⟨hx, px, ex⟩ <;>
    rcases roundHalfEven_cases y with ⟨hy, ey⟩ | ⟨hy, ey⟩ | ⟨hy, py, ey⟩ | ⟨hy, py, ey⟩ <;>
    rw [ex, ey] <;> rw [heq] at * <;> first | omega | (exfalso; linarith)

theorem round_int (n : Int) : roundHalfEven (n : Rat) = n := by
  unfold roundHalfEven
  simp [Rat.floor_intCast]

theorem round_tie_even (x : Rat) (h : x - (x.floor : Rat) = 1/2) : roundHalfEven x % 2 = 0 := by
  rcases roundHalfEven_cases x with ⟨hx, ex⟩ | ⟨hx, ex⟩ | ⟨hx, px, ex⟩ | ⟨hx, px, ex⟩
  · linarith
  · linarith
  · omega
  · omega

/-! ### the integer ladder -/

theorem rungAccepts_none_iff (lo hi : Int) (r : Rung) :
    rungAccepts none lo hi r = true ↔ r.2.1 ≤ lo ∧ hi ≤ r.2.2 := by
  simp [rungAccepts, seenLimit]

theorem castTo_of_accepts {r : Rung} {mn mx v : Rat}
    (h : rungAccepts none (roundHalfEven mn) (roundHalfEven mx) r = true)
    (h1 : mn ≤ v) (h2 : v ≤ mx) : castTo r v = some (roundHalfEven v) := by
  rw [rungAccepts_none_iff] at h
  have a := round_mono h1
  have b := round_mono h2
  unfold castTo
  simp only []
  rw [if_pos ⟨by omega, by omega⟩]

theorem find_fits {ladder : List Rung} {r : Rung} {mn mx v : Rat}
    (h : ladder.find? (rungAccepts none (roundHalfEven mn) (roundHalfEven mx)) = some r)
    (h1 : mn ≤ v) (h2 : v ≤ mx) : castTo r v = some (roundHalfEven v) :=
  castTo_of_accepts (List.find?_some h) h1 h2

theorem find_first {ladder : List Rung} {r : Rung} {p : Rung → Bool}
    (h : ladder.find? p = some r) :
    p r = true ∧ ∃ pre post, ladder = pre ++ r :: post ∧ ∀ q ∈ pre, p q = false := by
  rw [List.find?_eq_some_iff_append] at h
  obtain ⟨hp, pre, post, e, hq⟩ := h
  exact ⟨hp, pre, post, e, fun q hq' => by simpa using hq q hq'⟩

theorem ladder_exists (lo hi : Int)
    (h : (0 ≤ lo ∧ hi ≤ 18446744073709551615) ∨
      (-9223372036854775808 ≤ lo ∧ hi ≤ 9223372036854775807)) :
    ∃ r, Generated.intLadder.find? (rungAccepts none lo hi) = some r := by
  rw [← Option.isSome_iff_exists, List.find?_isSome]
  rcases h with h | h
  · exact ⟨("uint64", 0, 18446744073709551615), by simp [Generated.intLadder],
      (rungAccepts_none_iff _ _ _).2 h⟩
  · refine ⟨("int64", -9223372036854775808, 9223372036854775807), by simp [Generated.intLadder], ?_⟩
    rw [rungAccepts_none_iff]
    exact h

theorem chooseIntDtype_of_find {fb : Option Nat} {mn mx : Rat} {r : Rung}
    (h : Generated.intLadder.find? (rungAccepts fb (roundHalfEven mn) (roundHalfEven mx)) = some r) :
    chooseIntDtype fb mn mx = r := by
  unfold chooseIntDtype
  rw [h]

theorem chooseIntDtype_mem (fb : Option Nat) (mn mx : Rat) :
    chooseIntDtype fb mn mx ∈ Generated.intLadder ∨
      chooseIntDtype fb mn mx = Generated.intLadderDefault := by
  unfold chooseIntDtype
  split
  · next r h => exact Or.inl (List.mem_of_find?_eq_some h)
  · exact Or.inr rfl

/-! ### comparison modes -/

theorem seenLimit_eq_mode (fb : Option Nat) (i : Int) :
    seenLimit fb i = seenLimitMode sourceMode fb i := by
  cases fb <;> rfl

theorem rungAccepts_eq_mode (fb : Option Nat) (lo hi : Int) (r : Rung) :
    rungAccepts fb lo hi r = rungAcceptsMode sourceMode fb lo hi r := by
  unfold rungAccepts rungAcceptsMode
  simp only [seenLimit_eq_mode]

theorem chooseIntDtype_eq_mode (fb : Option Nat) (mn mx : Rat) :
    chooseIntDtype fb mn mx = chooseIntDtypeMode sourceMode fb mn mx := by
  unfold chooseIntDtype chooseIntDtypeMode
  have : rungAccepts fb (roundHalfEven mn) (roundHalfEven mx) =
      rungAcceptsMode sourceMode fb (roundHalfEven mn) (roundHalfEven mx) :=
    funext (rungAccepts_eq_mode fb _ _)
  rw [this]

theorem seenLimitMode_exact (fb : Option Nat) (i : Int) : seenLimitMode .exact fb i = (i : Rat) := by
  cases fb <;> rfl

theorem rungAcceptsMode_exact (fb : Option Nat) (lo hi : Int) :
    rungAcceptsMode .exact fb lo hi = rungAccepts none lo hi := by
  funext r
  unfold rungAcceptsMode rungAccepts
  simp only [seenLimitMode_exact]
  rfl

/-- the comparison is exact when the bounds are integers or the source compares Python ints -/
theorem rungAccepts_exact {fb : Option Nat} (h : fb = none ∨ sourceMode = .exact) (lo hi : Int) :
    rungAccepts fb lo hi = rungAccepts none lo hi := by
  rcases h with h | h
  · rw [h]
  · funext r
    rw [rungAccepts_eq_mode, h, rungAcceptsMode_exact]

theorem chooseIntDtypeMode_exact (fb : Option Nat) (mn mx : Rat) :
    chooseIntDtypeMode .exact fb mn mx = chooseIntDtype none mn mx := by
  unfold chooseIntDtype chooseIntDtypeMode
  rw [rungAcceptsMode_exact]

theorem chooseIntDtype_exact {fb : Option Nat} (h : fb = none ∨ sourceMode = .exact) (mn mx : Rat) :
    chooseIntDtype fb mn mx = chooseIntDtype none mn mx := by
  unfold chooseIntDtype
  rw [rungAccepts_exact h]

/-! ### duplicates -/

theorem hasDup_iff (l : List Name) : hasDup l = true ↔ ¬ l.Nodup := by
  induction l with
  | nil => simp [hasDup]
  | cons x xs ih =>
    simp only [hasDup, Bool.or_eq_true, List.contains_iff_mem, List.nodup_cons, ih]
    tauto

theorem hasDup_false_iff (l : List Name) : hasDup l = false ↔ l.Nodup := by
  rw [← Bool.not_eq_true, hasDup_iff, not_not]

/-! ### `validate` -/

/-- the `cast_to_int` flag of `_validate_h5ad` -/
def castNeeded (inp : Input) : Bool :=
  inp.roundToInt && !(inp.intDtype || isIntegersChunked inp.eps inp.storage.readChunks)

/-- the min / max `_validate_h5ad` works with -/
def minmaxUsed (inp : Input) : Except VErr (Option (Rat × Rat)) :=
  if inp.expectedMax.isSome || castNeeded inp then inp.storage.minmax else .ok (some (0, 0))

theorem checkCellIds_ok {l : List Name} (h : hasDup l = false) : checkCellIds l = .ok () := by
  simp [checkCellIds, h]

theorem checkGeneNames_ok {l : List Name} (h : hasDup l = false) (h' : [] ∉ l) :
    checkGeneNames l = .ok () := by
  simp [checkGeneNames, h, h']

theorem validate_dupCells {ph : Nat → Name} {inp : Input} (h : hasDup inp.cellIds = true) :
    validate ph inp = .error .dupCellIds := by
  have hc : checkCellIds inp.cellIds = .error .dupCellIds := by simp [checkCellIds, h]
  unfold validate
  simp only [hc]

theorem validate_badGenes {ph : Nat → Name} {inp : Input} (h0 : hasDup inp.cellIds = false)
    (h : hasDup inp.genes = true ∨ [] ∈ inp.genes) :
    validate ph inp = .error .badGeneNames := by
  have hg : checkGeneNames inp.genes = .error .badGeneNames := by
    rcases h with h | h <;> simp [checkGeneNames, h]
  unfold validate
  simp only [checkCellIds_ok h0, hg]

/-- everything a successful run of `validate` went through -/
theorem validate_ok_inv {ph : Nat → Name} {inp : Input} {plan : Plan}
    (h : validate ph inp = .ok plan) :
    hasDup inp.cellIds = false ∧ hasDup inp.genes = false ∧ [] ∉ inp.genes ∧
    ∃ mappedVar nUnmapped mn mx,
      mapGeneIdsInVar inp.lookup ph inp.start inp.genes = .ok (mappedVar, nUnmapped) ∧
      minmaxUsed inp = .ok (some (mn, mx)) ∧
      (∀ mv, mappedVar = some mv → hasDup mv = false) ∧
      plan.writeNew = (!inp.layerIsX || mappedVar.isSome || castNeeded inp) ∧
      plan.genes = mappedVar.getD inp.genes ∧
      plan.values = (if castNeeded inp then
          inp.storage.values.map (fun v =>
            (castTo (chooseIntDtype inp.floatBits mn mx) v).map (fun i : Int => (i : Rat)))
        else inp.storage.values.map some) ∧
      plan.dtype = (if castNeeded inp then some (chooseIntDtype inp.floatBits mn mx).1 else none) ∧
      plan.mapping = mappedVar.map (fun mv => (inp.genes.zip mv).filter (fun p => p.1 != p.2)) ∧
      plan.nMapped = inp.genes.length - nUnmapped := by
  unfold validate at h
  split at h
  · cases h
  next hc =>
  split at h
  · cases h
  next hg =>
  have hc' : hasDup inp.cellIds = false := by
    revert hc; unfold checkCellIds; cases hasDup inp.cellIds <;> simp
  have hg' : hasDup inp.genes = false ∧ [] ∉ inp.genes := by
    revert hg; unfold checkGeneNames
    cases hasDup inp.genes <;> simp
  refine ⟨hc', hg'.1, hg'.2, ?_⟩
  simp only [] at h
  split at h
  · cases h
  next mappedVar nUnmapped hm =>
  split at h
  · cases h
  · cases h
  next mn mx hmm =>
  refine ⟨mappedVar, nUnmapped, mn, mx, hm, hmm, ?_⟩
  have hcn : (inp.roundToInt && !(inp.intDtype || isIntegersChunked inp.eps inp.storage.readChunks))
      = castNeeded inp := rfl
  have hmap : ∀ o : Option Int, (Option.map (fun i : Rat => i) do let a ← o; pure (a : Rat))
      = o.map (fun i : Int => (i : Rat)) := by
    intro o; cases o <;> rfl
  simp only [hcn, hmap] at h
  clear hmm
  generalize castNeeded inp = cn at h ⊢
  generalize inp.layerIsX = lx at h ⊢
  cases mappedVar with
  | none =>
    cases cn <;> cases lx <;> simp at h <;> subst h <;> simp
  | some mv =>
    cases hd : hasDup mv
    · cases cn <;> cases lx <;> simp [hd] at h <;> subst h <;> simp [hd]
    · simp [hd] at h

theorem validate_dupMapped {ph : Nat → Name} {inp : Input} {mv : List Name} {k : Nat} {mn mx : Rat}
    (h0 : hasDup inp.cellIds = false) (h1 : hasDup inp.genes = false) (h2 : [] ∉ inp.genes)
    (hm : mapGeneIdsInVar inp.lookup ph inp.start inp.genes = .ok (some mv, k))
    (hd : hasDup mv = true) (hmm : minmaxUsed inp = .ok (some (mn, mx))) :
    validate ph inp = .error .dupMapped := by
  have hmm' : (if (inp.expectedMax.isSome ||
        inp.roundToInt && !(inp.intDtype || isIntegersChunked inp.eps inp.storage.readChunks)) = true
      then inp.storage.minmax else Except.ok (some (0, 0))) = .ok (some (mn, mx)) := hmm
  unfold validate
  simp only [checkCellIds_ok h0, checkGeneNames_ok h1 h2, hm, hmm']
  simp [hd]

/-! ### gene identifiers -/

/-- neither an Ensembl identifier nor a known symbol -/
def isUnknown (lookup : List (Name × Name)) (g : Name) : Bool :=
  !isEnsembl g && (lookup.lookup g).isNone

/-- the new name of one gene (before the version suffix is cut), `k` being the
counter of the placeholder generator -/
def renameOne (lookup : List (Name × Name)) (placeholder : Nat → Name) (k : Nat) (g : Name) : Name :=
  if isEnsembl g then g else
    match lookup.lookup g with
    | some e => e
    | none => placeholder k

def renameFrom (lookup : List (Name × Name)) (placeholder : Nat → Name) : Nat → List Name → List Name
  | _, [] => []
  | k, g :: gs => renameOne lookup placeholder k g ::
      renameFrom lookup placeholder (if isUnknown lookup g then k + 1 else k) gs

theorem mapStep_eq (lookup : List (Name × Name)) (ph : Nat → Name) (st : MapState) (g : Name) :
    (mapStep lookup ph st g).out = st.out ++ [renameOne lookup ph st.ct g] ∧
    (mapStep lookup ph st g).ct = (if isUnknown lookup g then st.ct + 1 else st.ct) ∧
    (mapStep lookup ph st g).unmappable =
      (if isUnknown lookup g then st.unmappable + 1 else st.unmappable) := by
  unfold mapStep renameOne isUnknown
  by_cases he : isEnsembl g = true
  · simp [he]
  · cases lookup.lookup g <;> simp [he]

theorem foldl_mapStep (lookup : List (Name × Name)) (ph : Nat → Name) (genes : List Name) :
    ∀ st : MapState,
    (genes.foldl (mapStep lookup ph) st).out = st.out ++ renameFrom lookup ph st.ct genes ∧
    (genes.foldl (mapStep lookup ph) st).ct = st.ct + genes.countP (isUnknown lookup) ∧
    (genes.foldl (mapStep lookup ph) st).unmappable =
      st.unmappable + genes.countP (isUnknown lookup) := by
  induction genes with
  | nil => intro st; simp [renameFrom]
  | cons g gs ih =>
    intro st
    obtain ⟨h1, h2, h3⟩ := mapStep_eq lookup ph st g
    obtain ⟨i1, i2, i3⟩ := ih (mapStep lookup ph st g)
    rw [List.foldl_cons, i1, i2, i3, h1, h2, h3]
    by_cases hu : isUnknown lookup g = true
    · simp [hu, renameFrom]; omega
    · simp [hu, renameFrom]

theorem renameFrom_length (lookup : List (Name × Name)) (ph : Nat → Name) (genes : List Name) :
    ∀ k, (renameFrom lookup ph k genes).length = genes.length := by
  induction genes with
  | nil => intro k; rfl
  | cons g gs ih => intro k; simp [renameFrom, ih]

theorem renameFrom_getElem? (lookup : List (Name × Name)) (ph : Nat → Name) (genes : List Name) :
    ∀ k i, (renameFrom lookup ph k genes)[i]? =
      genes[i]?.map (renameOne lookup ph (k + (genes.take i).countP (isUnknown lookup))) := by
  induction genes with
  | nil => intro k i; simp [renameFrom]
  | cons g gs ih =>
    intro k i
    cases i with
    | zero => simp [renameFrom]
    | succ j =>
      simp only [renameFrom, List.getElem?_cons_succ, ih, List.take_succ_cons, List.countP_cons]
      by_cases hu : isUnknown lookup g = true
      · simp [hu]; congr 2; omega
      · simp [hu]

/-- what a successful `mapGenes` returns -/
theorem mapGenes_ok {lookup : List (Name × Name)} {ph : Nat → Name} {start : Nat}
    {genes : List Name} {o : MapOut} (h : mapGenes lookup ph start genes = .ok o) :
    o.mapped = (renameFrom lookup ph start genes).map stripSuffix ∧
    o.nUnmapped = genes.countP (isUnknown lookup) ∧
    o.ct = start + genes.countP (isUnknown lookup) := by
  unfold mapGenes at h
  split at h
  next he =>
    cases h
    have : genes = [] := by simpa using he
    subst this
    simp [renameFrom]
  next he =>
    simp only [] at h
    split at h
    · cases h
    · cases h
      obtain ⟨i1, i2, i3⟩ := foldl_mapStep lookup ph genes ⟨[], start, 0, 0, 0⟩
      simp [i1, i2, i3]

theorem mapGeneIdsInVar_ok {lookup : List (Name × Name)} {ph : Nat → Name} {start : Nat}
    {genes : List Name} {mv : Option (List Name)} {k : Nat}
    (h : mapGeneIdsInVar lookup ph start genes = .ok (mv, k)) :
    ∃ o, mapGenes lookup ph start genes = .ok o ∧
      ((o.mapped = genes ∧ mv = none ∧ k = 0) ∨
       (o.mapped ≠ genes ∧ mv = some o.mapped ∧ k = o.nUnmapped)) := by
  unfold mapGeneIdsInVar at h
  split at h
  · cases h
  next o ho =>
    refine ⟨o, ho, ?_⟩
    split at h
    next he => cases h; exact Or.inl ⟨he, rfl, rfl⟩
    next he => cases h; exact Or.inr ⟨he, rfl, rfl⟩

theorem countP_take_lt {p : Name → Bool} {genes : List Name} {i j : Nat} (hij : i < j)
    (hj : j ≤ genes.length) (hi : ∃ g, genes[i]? = some g ∧ p g = true) :
    (genes.take i).countP p < (genes.take j).countP p := by
  obtain ⟨g, hg, hp⟩ := hi
  have hlt : i < genes.length := by omega
  have h1 : genes.take (i + 1) = genes.take i ++ [g] := by
    rw [List.take_add_one, hg]; rfl
  have h2 : (genes.take (i + 1)).countP p = (genes.take i).countP p + 1 := by
    rw [h1, List.countP_append]; simp [hp]
  have h3 : (genes.take (i + 1)).countP p ≤ (genes.take j).countP p := by
    apply List.Sublist.countP_le
    exact (List.take_sublist_take_left (by omega)) 
  omega

theorem stripSuffix_eq_self {s : Name} (h : '.' ∉ s) : stripSuffix s = s := by
  unfold stripSuffix
  induction s with
  | nil => rfl
  | cons c cs ih =>
    have hc : c ≠ '.' := fun e => h (by simp [e])
    have hcs : '.' ∉ cs := fun e => h (by simp [e])
    simp [hc, ih hcs]

theorem dot_notMem_stripSuffix (s : Name) : '.' ∉ stripSuffix s := by
  unfold stripSuffix
  induction s with
  | nil => simp
  | cons c cs ih =>
    by_cases hc : c = '.'
    · simp [hc]
    · simp only [List.takeWhile_cons, bne_iff_ne, ne_eq, hc, not_false_eq_true, if_true,
        List.mem_cons, not_or]
      exact ⟨fun e => hc e.symm, ih⟩

theorem renameFrom_all_ensembl (lookup : List (Name × Name)) (ph : Nat → Name) (genes : List Name)
    (h : ∀ g ∈ genes, isEnsembl g = true) : ∀ k, renameFrom lookup ph k genes = genes := by
  induction genes with
  | nil => intro k; rfl
  | cons g gs ih =>
    intro k
    have hg : isEnsembl g = true := h g (by simp)
    simp only [renameFrom, renameOne, hg, if_true]
    rw [ih (fun g' hg' => h g' (by simp [hg']))]

theorem map_stripSuffix_eq_self {genes : List Name} (h : ∀ g ∈ genes, '.' ∉ g) :
    genes.map stripSuffix = genes := by
  induction genes with
  | nil => rfl
  | cons g gs ih =>
    rw [List.map_cons, stripSuffix_eq_self (h g (by simp)), ih (fun g' hg' => h g' (by simp [hg']))]

/-! ### the integrality test -/

theorem absRat_nonneg (x : Rat) : 0 ≤ absRat x := by
  unfold absRat
  split
  · linarith
  · linarith

theorem maxDelta_le_iff {eps : Rat} (h0 : 0 ≤ eps) (ch : List Rat) :
    maxDelta ch ≤ eps ↔ ∀ v ∈ ch, absRat ((roundHalfEven v : Rat) - v) ≤ eps := by
  induction ch with
  | nil => simp [maxDelta, h0]
  | cons v vs ih =>
    simp only [maxDelta, max_le_iff, ih, List.mem_cons, forall_eq_or_imp]

theorem isIntegersChunked_iff {eps : Rat} (h0 : 0 ≤ eps) (chunks : List (List Rat)) :
    isIntegersChunked eps chunks = true ↔
      ∀ ch ∈ chunks, ∀ v ∈ ch, absRat ((roundHalfEven v : Rat) - v) ≤ eps := by
  unfold isIntegersChunked
  simp only [List.all_eq_true, Bool.not_eq_eq_eq_not, Bool.not_true, decide_eq_false_iff_not, not_lt,
    maxDelta_le_iff h0]

/-! ### min / max read chunk by chunk -/

theorem listMin_spec {ch : List Rat} (h : ch ≠ []) :
    ∃ lo, listMin ch = some lo ∧ lo ∈ ch ∧ ∀ v ∈ ch, lo ≤ v := by
  induction ch with
  | nil => exact absurd rfl h
  | cons v vs ih =>
    cases vs with
    | nil => exact ⟨v, by simp [listMin], by simp, by simp⟩
    | cons w ws =>
      obtain ⟨m, hm, hmem, hle⟩ := ih (by simp)
      unfold listMin
      rw [hm]
      by_cases hlt : v < m
      · refine ⟨v, by simp [hlt], by simp, ?_⟩
        intro u hu
        rcases List.mem_cons.1 hu with rfl | hu
        · exact le_refl _
        · exact le_trans (le_of_lt hlt) (hle u hu)
      · refine ⟨m, by simp [hlt], List.mem_cons_of_mem _ hmem, ?_⟩
        intro u hu
        rcases List.mem_cons.1 hu with rfl | hu
        · exact not_lt.1 hlt
        · exact hle u hu

theorem listMax_spec {ch : List Rat} (h : ch ≠ []) :
    ∃ hi, listMax ch = some hi ∧ hi ∈ ch ∧ ∀ v ∈ ch, v ≤ hi := by
  induction ch with
  | nil => exact absurd rfl h
  | cons v vs ih =>
    cases vs with
    | nil => exact ⟨v, by simp [listMax], by simp, by simp⟩
    | cons w ws =>
      obtain ⟨m, hm, hmem, hle⟩ := ih (by simp)
      unfold listMax
      rw [hm]
      by_cases hlt : m < v
      · refine ⟨v, by simp [hlt], by simp, ?_⟩
        intro u hu
        rcases List.mem_cons.1 hu with rfl | hu
        · exact le_refl _
        · exact le_trans (hle u hu) (le_of_lt hlt)
      · refine ⟨m, by simp [hlt], List.mem_cons_of_mem _ hmem, ?_⟩
        intro u hu
        rcases List.mem_cons.1 hu with rfl | hu
        · exact not_lt.1 hlt
        · exact hle u hu

theorem runMinMax_some (chunks : List (List Rat)) (hne : ∀ ch ∈ chunks, ch ≠ []) :
    ∀ a b : Rat, ∃ mn mx, runMinMax (some (a, b)) chunks = .ok (some (mn, mx)) ∧
      (mn = a ∨ mn ∈ chunks.flatten) ∧ (mx = b ∨ mx ∈ chunks.flatten) ∧
      mn ≤ a ∧ b ≤ mx ∧ ∀ v ∈ chunks.flatten, mn ≤ v ∧ v ≤ mx := by
  induction chunks with
  | nil => intro a b; exact ⟨a, b, rfl, Or.inl rfl, Or.inl rfl, le_refl _, le_refl _, by simp⟩
  | cons ch rest ih =>
    intro a b
    obtain ⟨lo, hlo, hlom, hlob⟩ := listMin_spec (hne ch (by simp))
    obtain ⟨hi, hhi, hhim, hhib⟩ := listMax_spec (hne ch (by simp))
    obtain ⟨mn, mx, hr, hmn, hmx, hle1, hle2, hb⟩ :=
      ih (fun c hc => hne c (by simp [hc])) (if lo < a then lo else a) (if b < hi then hi else b)
    refine ⟨mn, mx, ?_, ?_, ?_, ?_, ?_, ?_⟩
    · simp only [runMinMax, hlo, hhi]; exact hr
    · rcases hmn with h | h
      · by_cases hc : lo < a
        · right; rw [h, if_pos hc]; simp [hlom]
        · left; rw [h, if_neg hc]
      · right; simp [h]
    · rcases hmx with h | h
      · by_cases hc : b < hi
        · right; rw [h, if_pos hc]; simp [hhim]
        · left; rw [h, if_neg hc]
      · right; simp [h]
    · refine le_trans hle1 ?_
      split
      · linarith
      · exact le_refl _
    · refine le_trans ?_ hle2
      split
      · linarith
      · exact le_refl _
    · intro v hv
      rw [List.flatten_cons, List.mem_append] at hv
      rcases hv with hv | hv
      · constructor
        · refine le_trans hle1 (le_trans ?_ (hlob v hv))
          split
          · exact le_refl _
          · linarith
        · refine le_trans (hhib v hv) (le_trans ?_ hle2)
          split
          · exact le_refl _
          · linarith
      · exact hb v hv

theorem runMinMax_none {chunks : List (List Rat)} (hne : ∀ ch ∈ chunks, ch ≠ [])
    (h1 : chunks ≠ []) :
    ∃ mn mx, runMinMax none chunks = .ok (some (mn, mx)) ∧
      mn ∈ chunks.flatten ∧ mx ∈ chunks.flatten ∧ ∀ v ∈ chunks.flatten, mn ≤ v ∧ v ≤ mx := by
  cases chunks with
  | nil => exact absurd rfl h1
  | cons ch rest =>
    obtain ⟨lo, hlo, hlom, hlob⟩ := listMin_spec (hne ch (by simp))
    obtain ⟨hi, hhi, hhim, hhib⟩ := listMax_spec (hne ch (by simp))
    obtain ⟨mn, mx, hr, hmn, hmx, hle1, hle2, hb⟩ :=
      runMinMax_some rest (fun c hc => hne c (by simp [hc])) lo hi
    refine ⟨mn, mx, ?_, ?_, ?_, ?_⟩
    · simp only [runMinMax, hlo, hhi]; exact hr
    · rcases hmn with h | h
      · simp [h, hlom]
      · simp [h]
    · rcases hmx with h | h
      · simp [h, hhim]
      · simp [h]
    · intro v hv
      rw [List.flatten_cons, List.mem_append] at hv
      rcases hv with hv | hv
      · exact ⟨le_trans hle1 (hlob v hv), le_trans (hhib v hv) hle2⟩
      · exact hb v hv

/-! ### chunk ranges, runs and tiles -/

theorem chunkRangesAux_mem {n rows : Nat} (hr : 1 ≤ rows) :
    ∀ (fuel r0 : Nat) (p : Nat × Nat), p ∈ Stats.chunkRangesAux n rows fuel r0 →
      r0 ≤ p.1 ∧ p.1 < p.2 ∧ p.2 ≤ n := by
  intro fuel
  induction fuel with
  | zero => intro r0 p hp; simp [Stats.chunkRangesAux] at hp
  | succ f ih =>
    intro r0 p hp
    unfold Stats.chunkRangesAux at hp
    split at hp
    next hlt =>
      rcases List.mem_cons.1 hp with rfl | hp
      · simp only; omega
      · have := ih (r0 + rows) p hp
        omega
    next => simp at hp

theorem chunkRangesAux_cover {n rows : Nat} (hr : 1 ≤ rows) :
    ∀ (fuel r0 : Nat), n - r0 ≤ fuel → ∀ i, r0 ≤ i → i < n →
      ∃ p ∈ Stats.chunkRangesAux n rows fuel r0, p.1 ≤ i ∧ i < p.2 := by
  intro fuel
  induction fuel with
  | zero => intro r0 hf i h1 h2; omega
  | succ f ih =>
    intro r0 hf i h1 h2
    unfold Stats.chunkRangesAux
    rw [if_pos (by omega)]
    by_cases hi : i < r0 + rows
    · exact ⟨(r0, min n (r0 + rows)), by simp, h1, by simp only; omega⟩
    · obtain ⟨p, hp, hp1, hp2⟩ := ih (r0 + rows) (by omega) i (by omega) h2
      exact ⟨p, List.mem_cons_of_mem _ hp, hp1, hp2⟩

theorem chunkRanges_mem {n rows : Nat} (hr : 1 ≤ rows) {p : Nat × Nat}
    (hp : p ∈ Stats.chunkRanges n rows) : p.1 < p.2 ∧ p.2 ≤ n :=
  (chunkRangesAux_mem hr n 0 p hp).2

theorem chunkRanges_cover {n rows : Nat} (hr : 1 ≤ rows) {i : Nat} (hi : i < n) :
    ∃ p ∈ Stats.chunkRanges n rows, p.1 ≤ i ∧ i < p.2 :=
  chunkRangesAux_cover hr n 0 (by omega) i (by omega) hi

theorem mem_sliceR {xs : List Rat} {a b : Nat} {v : Rat} (h : v ∈ sliceR xs a b) : v ∈ xs :=
  List.mem_of_mem_drop (List.mem_of_mem_take h)

theorem getElem?_sliceR {xs : List Rat} {a b i : Nat} (h1 : a ≤ i) (h2 : i < b) :
    (sliceR xs a b)[i - a]? = xs[i]? := by
  unfold sliceR
  rw [List.getElem?_take_of_lt (by omega), List.getElem?_drop]
  congr 1; omega

theorem mem_sliceR_of {xs : List Rat} {a b i : Nat} {v : Rat} (h1 : a ≤ i) (h2 : i < b)
    (hv : xs[i]? = some v) : v ∈ sliceR xs a b := by
  rw [List.mem_iff_getElem?]
  exact ⟨i - a, by rw [getElem?_sliceR h1 h2, hv]⟩

theorem sliceR_ne_nil {xs : List Rat} {a b : Nat} (h1 : a < b) (h2 : b ≤ xs.length) :
    sliceR xs a b ≠ [] := by
  intro h
  have := congrArg List.length h
  simp [sliceR] at this
  omega

theorem doubleChunk1_ge (ntot : Nat) : ∀ fuel c, c ≤ doubleChunk1 ntot fuel c := by
  intro fuel
  induction fuel with
  | zero => intro c; exact Nat.le_refl _
  | succ f ih =>
    intro c
    unfold doubleChunk1
    split
    · exact Nat.le_trans (by omega) (ih (c * 2))
    · exact Nat.le_refl _

theorem doubleChunk2_ge (ntot : Nat) :
    ∀ fuel (c : Nat × Nat), c.1 ≤ (doubleChunk2 ntot fuel c).1 ∧ c.2 ≤ (doubleChunk2 ntot fuel c).2 := by
  intro fuel
  induction fuel with
  | zero => intro c; exact ⟨Nat.le_refl _, Nat.le_refl _⟩
  | succ f ih =>
    intro c
    unfold doubleChunk2
    split
    · have := ih (c.1 * 2, c.2 * 2)
      simp only at this
      omega
    · exact ⟨Nat.le_refl _, Nat.le_refl _⟩

/-- the runs of a 1-D array contain exactly its elements, and none is empty -/
theorem sparseRuns_spec {data : List Rat} {c : Nat} (hc : 1 ≤ c) :
    (∀ ch ∈ sparseRuns data c, ch ≠ []) ∧ (data ≠ [] → sparseRuns data c ≠ []) ∧
    ∀ v, v ∈ (sparseRuns data c).flatten ↔ v ∈ data := by
  refine ⟨?_, ?_, ?_⟩
  · intro ch hch
    unfold sparseRuns at hch
    obtain ⟨p, hp, rfl⟩ := List.mem_map.1 hch
    obtain ⟨h1, h2⟩ := chunkRanges_mem hc hp
    exact sliceR_ne_nil h1 h2
  · intro hd h
    have hl : 0 < data.length := List.length_pos_iff.2 hd
    obtain ⟨p, hp, _⟩ := chunkRanges_cover hc hl
    unfold sparseRuns at h
    rw [List.map_eq_nil_iff] at h
    rw [h] at hp
    simp at hp
  · intro v
    constructor
    · intro hv
      obtain ⟨ch, hch, hvch⟩ := List.mem_flatten.1 hv
      unfold sparseRuns at hch
      obtain ⟨p, _, rfl⟩ := List.mem_map.1 hch
      exact mem_sliceR hvch
    · intro hv
      obtain ⟨i, hi⟩ := List.mem_iff_getElem?.1 hv
      have hlt : i < data.length := by
        rcases Nat.lt_or_ge i data.length with h | h
        · exact h
        · rw [List.getElem?_eq_none h] at hi; cases hi
      obtain ⟨p, hp, hp1, hp2⟩ := chunkRanges_cover hc hlt
      exact List.mem_flatten.2 ⟨sliceR data p.1 p.2,
        List.mem_map.2 ⟨p, hp, rfl⟩, mem_sliceR_of hp1 hp2 hi⟩

theorem mem_of_mem_dropTake {α} {xs : List α} {a b : Nat} {v : α}
    (h : v ∈ (xs.drop a).take (b - a)) : v ∈ xs :=
  List.mem_of_mem_drop (List.mem_of_mem_take h)

theorem mem_dropTake_of {α} {xs : List α} {a b i : Nat} {v : α} (h1 : a ≤ i) (h2 : i < b)
    (hv : xs[i]? = some v) : v ∈ (xs.drop a).take (b - a) := by
  rw [List.mem_iff_getElem?]
  refine ⟨i - a, ?_⟩
  rw [List.getElem?_take_of_lt (by omega), List.getElem?_drop, ← hv]
  congr 1; omega

theorem lt_length_of_getElem? {α} {xs : List α} {i : Nat} {v : α} (h : xs[i]? = some v) :
    i < xs.length := by
  rcases Nat.lt_or_ge i xs.length with h' | h'
  · exact h'
  · rw [List.getElem?_eq_none h'] at h; cases h

/-- the tiles of a 2-D array contain exactly its elements, and none is empty -/
theorem denseTiles_spec {m : List (List Rat)} {nCols : Nat} {cs : Nat × Nat}
    (hrow : ∀ row ∈ m, row.length = nCols) (h1 : 1 ≤ cs.1) (h2 : 1 ≤ cs.2) :
    (∀ t ∈ denseTiles m m.length nCols cs, t ≠ []) ∧
    (m ≠ [] → 1 ≤ nCols → denseTiles m m.length nCols cs ≠ []) ∧
    ∀ v, v ∈ (denseTiles m m.length nCols cs).flatten ↔ v ∈ m.flatten := by
  have key : ∀ (i j : Nat) (row : List Rat) (v : Rat), m[i]? = some row → row[j]? = some v →
      ∃ t ∈ denseTiles m m.length nCols cs, v ∈ t := by
    intro i j row v hi hj
    have hil := lt_length_of_getElem? hi
    have hrm : row ∈ m := List.mem_iff_getElem?.2 ⟨i, hi⟩
    have hjl : j < nCols := by rw [← hrow row hrm]; exact lt_length_of_getElem? hj
    obtain ⟨r, hr, hr1, hr2⟩ := chunkRanges_cover h1 hil
    obtain ⟨c, hc, hc1, hc2⟩ := chunkRanges_cover h2 hjl
    refine ⟨((m.drop r.1).take (r.2 - r.1)).flatMap (fun row => sliceR row c.1 c.2), ?_, ?_⟩
    · unfold denseTiles
      exact List.mem_flatMap.2 ⟨r, hr, List.mem_map.2 ⟨c, hc, rfl⟩⟩
    · exact List.mem_flatMap.2 ⟨row, mem_dropTake_of hr1 hr2 hi, mem_sliceR_of hc1 hc2 hj⟩
  refine ⟨?_, ?_, ?_⟩
  · intro t ht
    unfold denseTiles at ht
    obtain ⟨r, hr, ht⟩ := List.mem_flatMap.1 ht
    obtain ⟨c, hc, rfl⟩ := List.mem_map.1 ht
    obtain ⟨hr1, hr2⟩ := chunkRanges_mem h1 hr
    obtain ⟨hc1, hc2⟩ := chunkRanges_mem h2 hc
    -- row number r.1 and column c.1 give an element of the tile
    have hi : r.1 < m.length := by omega
    have hrm : m[r.1] ∈ m := List.getElem_mem hi
    have hj : c.1 < (m[r.1]).length := by rw [hrow _ hrm]; omega
    have hv : (m[r.1])[c.1] ∈ ((m.drop r.1).take (r.2 - r.1)).flatMap (fun row => sliceR row c.1 c.2) :=
      List.mem_flatMap.2 ⟨m[r.1],
        mem_dropTake_of (Nat.le_refl _) hr1 (List.getElem?_eq_getElem hi),
        mem_sliceR_of (Nat.le_refl _) hc1 (List.getElem?_eq_getElem hj)⟩
    intro h
    rw [h] at hv
    simp at hv
  · intro hm hn h
    have hi : 0 < m.length := List.length_pos_iff.2 hm
    have hrm : m[0] ∈ m := List.getElem_mem hi
    have hj : 0 < (m[0]).length := by rw [hrow _ hrm]; omega
    obtain ⟨t, ht, _⟩ := key 0 0 m[0] (m[0])[0] (List.getElem?_eq_getElem hi)
      (List.getElem?_eq_getElem hj)
    rw [h] at ht
    simp at ht
  · intro v
    constructor
    · intro hv
      obtain ⟨t, ht, hvt⟩ := List.mem_flatten.1 hv
      unfold denseTiles at ht
      obtain ⟨r, _, ht⟩ := List.mem_flatMap.1 ht
      obtain ⟨c, _, rfl⟩ := List.mem_map.1 ht
      obtain ⟨row, hrow', hvr⟩ := List.mem_flatMap.1 hvt
      exact List.mem_flatten.2 ⟨row, mem_of_mem_dropTake hrow', mem_sliceR hvr⟩
    · intro hv
      obtain ⟨row, hrm, hvr⟩ := List.mem_flatten.1 hv
      obtain ⟨i, hi⟩ := List.mem_iff_getElem?.1 hrm
      obtain ⟨j, hj⟩ := List.mem_iff_getElem?.1 hvr
      obtain ⟨t, ht, hvt⟩ := key i j row v hi hj
      exact List.mem_flatten.2 ⟨t, ht, hvt⟩

/-- `_get_minmax_from_sparse` returns the smallest and largest stored value,
whatever the chunk size -/
theorem minmaxSparse_spec {data : List Rat} (hd : data ≠ []) (chunks : Option Nat)
    (hc : ∀ c, chunks = some c → 1 ≤ c) :
    ∃ mn mx, minmaxSparse data chunks = .ok (some (mn, mx)) ∧ mn ∈ data ∧ mx ∈ data ∧
      ∀ v ∈ data, mn ≤ v ∧ v ≤ mx := by
  unfold minmaxSparse
  have he : data.isEmpty = false := by simpa using hd
  simp only [he, Bool.false_eq_true, if_false]
  cases chunks with
  | none =>
    obtain ⟨mn, mx, h, h1, h2, h3⟩ := runMinMax_none (chunks := [data]) (by simpa using hd) (by simp)
    simp only [List.flatten_cons, List.flatten_nil, List.append_nil] at h1 h2 h3
    exact ⟨mn, mx, h, h1, h2, h3⟩
  | some c =>
    have hc' : 1 ≤ doubleChunk1 data.length 64 c :=
      Nat.le_trans (hc c rfl) (doubleChunk1_ge _ _ _)
    obtain ⟨s1, s2, s3⟩ := sparseRuns_spec (data := data) hc'
    obtain ⟨mn, mx, h, h1, h2, h3⟩ := runMinMax_none s1 (s2 hd)
    exact ⟨mn, mx, h, (s3 mn).1 h1, (s3 mx).1 h2, fun v hv => h3 v ((s3 v).2 hv)⟩

/-- `_get_minmax_from_dense` returns the smallest and largest entry, whatever
the chunk shape -/
theorem minmaxDense_spec {m : List (List Rat)} {nCols : Nat} (hm : m ≠ []) (hn : 1 ≤ nCols)
    (hrow : ∀ row ∈ m, row.length = nCols) (chunks : Option (Nat × Nat))
    (hc : ∀ c, chunks = some c → 1 ≤ c.1 ∧ 1 ≤ c.2) :
    ∃ mn mx, minmaxDense m nCols chunks = .ok (some (mn, mx)) ∧
      mn ∈ m.flatten ∧ mx ∈ m.flatten ∧ ∀ v ∈ m.flatten, mn ≤ v ∧ v ≤ mx := by
  unfold minmaxDense
  cases chunks with
  | none =>
    have hf : m.flatten ≠ [] := by
      have hi : 0 < m.length := List.length_pos_iff.2 hm
      have hrm : m[0] ∈ m := List.getElem_mem hi
      have hj : 0 < (m[0]).length := by rw [hrow _ hrm]; omega
      intro h
      have : (m[0])[0] ∈ m.flatten := List.mem_flatten.2 ⟨m[0], hrm, List.getElem_mem hj⟩
      rw [h] at this
      simp at this
    obtain ⟨mn, mx, h, h1, h2, h3⟩ :=
      runMinMax_none (chunks := [m.flatten]) (by simpa using hf) (by simp)
    simp only [List.flatten_cons, List.flatten_nil, List.append_nil] at h1 h2 h3
    exact ⟨mn, mx, h, h1, h2, h3⟩
  | some c =>
    simp only []
    obtain ⟨c1, c2⟩ := hc c rfl
    obtain ⟨d1, d2⟩ := doubleChunk2_ge (m.length * nCols) 64 c
    obtain ⟨s1, s2, s3⟩ := denseTiles_spec (cs := doubleChunk2 (m.length * nCols) 64 c) hrow
      (Nat.le_trans c1 d1) (Nat.le_trans c2 d2)
    obtain ⟨mn, mx, h, h1, h2, h3⟩ := runMinMax_none s1 (s2 hm hn)
    exact ⟨mn, mx, h, (s3 mn).1 h1, (s3 mx).1 h2, fun v hv => h3 v ((s3 v).2 hv)⟩

/-- the stored layer is a proper array: every row of a dense matrix has `nCols`
entries and chunk sizes are positive (h5py never reports a zero chunk) -/
def Storage.WellFormed : Storage → Prop
  | .dense m nCols ch => (∀ row ∈ m, row.length = nCols) ∧ ∀ c, ch = some c → 1 ≤ c.1 ∧ 1 ≤ c.2
  | .sparse _ ch => ∀ c, ch = some c → 1 ≤ c

/-- on a non-empty well-formed array the chunked min / max are the true minimum
and maximum of the stored values -/
theorem storage_minmax_spec {st : Storage} (hw : st.WellFormed) (hv : st.values ≠ []) :
    ∃ mn mx, st.minmax = .ok (some (mn, mx)) ∧ mn ∈ st.values ∧ mx ∈ st.values ∧
      ∀ v ∈ st.values, mn ≤ v ∧ v ≤ mx := by
  cases st with
  | sparse d ch => exact minmaxSparse_spec hv ch hw
  | dense m nCols ch =>
    obtain ⟨hrow, hc⟩ := hw
    have hm : m ≠ [] := by
      intro h; apply hv; simp [Storage.values, h]
    have hn : 1 ≤ nCols := by
      simp only [Storage.values] at hv
      obtain ⟨v, hvm⟩ := List.exists_mem_of_ne_nil _ hv
      obtain ⟨row, hr, hvr⟩ := List.mem_flatten.1 hvm
      rw [← hrow row hr]
      exact List.length_pos_of_mem hvr
    exact minmaxDense_spec hm hn hrow ch hc

/-- the chunks in which the integrality test reads a well-formed array contain
exactly the stored values -/
theorem readChunks_mem {st : Storage} (hw : st.WellFormed) (v : Rat) :
    v ∈ st.readChunks.flatten ↔ v ∈ st.values := by
  cases st with
  | sparse d ch =>
    cases ch with
    | none =>
      simp only [Storage.readChunks, Storage.values]
      cases d <;> simp
    | some c => exact (sparseRuns_spec (hw c rfl)).2.2 v
  | dense m nCols ch =>
    obtain ⟨hrow, hc⟩ := hw
    cases ch with
    | some c => exact (denseTiles_spec hrow (hc c rfl).1 (hc c rfl).2).2.2 v
    | none =>
      simp only [Storage.readChunks, Storage.values]
      split
      next h =>
        have : m.flatten = [] := by
          rcases h with h | h
          · rw [List.length_eq_zero_iff.1 h]; rfl
          · rw [List.flatten_eq_nil_iff]
            intro row hr
            exact List.length_eq_zero_iff.1 (by rw [hrow row hr, h])
        simp [this]
      next => simp

/-- when nothing is stored the only bounds `minmax` can return are `(0, 0)`
(empty CSR / CSC `data`); an empty dense matrix has no min / max -/
theorem storage_minmax_empty {st : Storage} (hw : st.WellFormed) (hv : st.values = [])
    {mn mx : Rat} (hmu : st.minmax = .ok (some (mn, mx))) : mn = 0 ∧ mx = 0 := by
  cases st with
  | sparse dd ch =>
    simp only [Storage.values] at hv
    subst hv
    simp only [Storage.minmax, minmaxSparse, List.isEmpty_nil, if_true] at hmu
    cases hmu
    exact ⟨rfl, rfl⟩
  | dense m nCols ch =>
    exfalso
    simp only [Storage.values] at hv
    simp only [Storage.minmax, minmaxDense] at hmu
    cases ch with
    | none =>
      rw [hv] at hmu
      simp [runMinMax, listMin] at hmu
    | some c =>
      simp only [] at hmu
      have hc := hw.2 c rfl
      obtain ⟨d1, d2⟩ := doubleChunk2_ge (m.length * nCols) 64 c
      obtain ⟨s1, _, s3⟩ := denseTiles_spec
        (cs := doubleChunk2 (m.length * nCols) 64 c) hw.1
        (Nat.le_trans hc.1 d1) (Nat.le_trans hc.2 d2)
      -- no tile can exist: a tile would be non-empty and contain an entry
      cases htl : denseTiles m m.length nCols (doubleChunk2 (m.length * nCols) 64 c) with
      | nil => rw [htl] at hmu; simp [runMinMax] at hmu
      | cons t ts =>
        have hne := s1 t (by rw [htl]; simp)
        obtain ⟨x, hx⟩ := List.exists_mem_of_ne_nil _ hne
        have : x ∈ m.flatten := (s3 x).1 (by rw [htl]; simp [hx])
        rw [hv] at this
        simp at this

/-- the bounds `_validate_h5ad` reads from a well-formed layer bound all values,
and their rounded values lie in any integer interval containing all rounded
values (and 0) -/
theorem storage_minmax_range {st : Storage} (hw : st.WellFormed) {mn mx : Rat}
    (hmm : st.minmax = .ok (some (mn, mx))) :
    (∀ v ∈ st.values, mn ≤ v ∧ v ≤ mx) ∧
    ∀ a b : Int, a ≤ 0 → 0 ≤ b → (∀ v ∈ st.values, a ≤ roundHalfEven v ∧ roundHalfEven v ≤ b) →
      a ≤ roundHalfEven mn ∧ roundHalfEven mx ≤ b := by
  by_cases hv : st.values = []
  · obtain ⟨rfl, rfl⟩ := storage_minmax_empty hw hv hmm
    refine ⟨by rw [hv]; simp, ?_⟩
    intro a b ha hb _
    have : roundHalfEven 0 = 0 := round_int 0
    omega
  · obtain ⟨mn', mx', hmm', hmn, hmx, hb⟩ := storage_minmax_spec hw hv
    rw [hmm] at hmm'
    cases hmm'
    exact ⟨hb, fun a b _ _ h => ⟨(h mn hmn).1, (h mx hmx).2⟩⟩

/-! ### comparison in a floating-point type: off by at most one -/

/-- in float32 and float64 every lower limit of the ladder is exact, and every
upper limit is exact or rounded up by one -/
theorem ladder_limits_float :
    Generated.intLadder.all (fun r => [24, 53].all (fun p =>
      decide (toFloatBits p r.2.1 = (r.2.1 : Rat)) &&
      (decide (toFloatBits p r.2.2 = (r.2.2 : Rat)) ||
       decide (toFloatBits p r.2.2 = ((r.2.2 + 1 : Int) : Rat))))) = true := by
  decide +kernel

theorem seenLimitMode_ladder (mode : CompareMode) {fb : Option Nat}
    (hfb : fb = none ∨ fb = some 24 ∨ fb = some 53) {r : Rung} (hr : r ∈ Generated.intLadder) :
    seenLimitMode mode fb r.2.1 = (r.2.1 : Rat) ∧
    (seenLimitMode mode fb r.2.2 = (r.2.2 : Rat) ∨
      seenLimitMode mode fb r.2.2 = ((r.2.2 + 1 : Int) : Rat)) := by
  have h := List.all_eq_true.1 ladder_limits_float r hr
  simp only [List.all_cons, List.all_nil, Bool.and_true, Bool.and_eq_true, Bool.or_eq_true,
    decide_eq_true_eq] at h
  obtain ⟨⟨a1, a2⟩, ⟨b1, b2⟩⟩ := h
  rcases hfb with rfl | rfl | rfl
  · exact ⟨rfl, Or.inl rfl⟩
  · cases mode
    · exact ⟨a1, a2⟩
    · exact ⟨b1, b2⟩
    · exact ⟨rfl, Or.inl rfl⟩
  · cases mode
    · exact ⟨b1, b2⟩
    · exact ⟨b1, b2⟩
    · exact ⟨rfl, Or.inl rfl⟩

theorem rungAcceptsMode_imp (mode : CompareMode) {fb : Option Nat}
    (hfb : fb = none ∨ fb = some 24 ∨ fb = some 53) {r : Rung} (hr : r ∈ Generated.intLadder)
    {lo hi : Int} (h : rungAcceptsMode mode fb lo hi r = true) :
    r.2.1 ≤ lo ∧ hi ≤ r.2.2 + 1 := by
  obtain ⟨h1, h2⟩ := seenLimitMode_ladder mode hfb hr
  unfold rungAcceptsMode at h
  simp only [Bool.and_eq_true, decide_eq_true_eq] at h
  obtain ⟨ha, hb⟩ := h
  rw [h1] at ha
  have ha' : r.2.1 ≤ lo := by exact_mod_cast ha
  refine ⟨ha', ?_⟩
  rcases h2 with h2 | h2
  · rw [h2] at hb
    have : hi ≤ r.2.2 := by exact_mod_cast hb
    omega
  · rw [h2] at hb
    exact_mod_cast hb

theorem rungAcceptsMode_of_exact (mode : CompareMode) {fb : Option Nat}
    (hfb : fb = none ∨ fb = some 24 ∨ fb = some 53) {r : Rung} (hr : r ∈ Generated.intLadder)
    {lo hi : Int} (h : r.2.1 ≤ lo ∧ hi ≤ r.2.2) :
    rungAcceptsMode mode fb lo hi r = true := by
  obtain ⟨h1, h2⟩ := seenLimitMode_ladder mode hfb hr
  unfold rungAcceptsMode
  simp only [Bool.and_eq_true, decide_eq_true_eq]
  rw [h1]
  refine ⟨by exact_mod_cast h.1, ?_⟩
  rcases h2 with h2 | h2
  · rw [h2]; exact_mod_cast h.2
  · rw [h2]
    have : hi ≤ r.2.2 + 1 := by omega
    exact_mod_cast this

theorem ladder_exists_mode (mode : CompareMode) {fb : Option Nat}
    (hfb : fb = none ∨ fb = some 24 ∨ fb = some 53) (lo hi : Int)
    (h : (0 ≤ lo ∧ hi ≤ 18446744073709551615) ∨
      (-9223372036854775808 ≤ lo ∧ hi ≤ 9223372036854775807)) :
    ∃ r, Generated.intLadder.find? (rungAcceptsMode mode fb lo hi) = some r := by
  rw [← Option.isSome_iff_exists, List.find?_isSome]
  rcases h with h | h
  · exact ⟨("uint64", 0, 18446744073709551615), by simp [Generated.intLadder],
      rungAcceptsMode_of_exact mode hfb (by simp [Generated.intLadder]) h⟩
  · refine ⟨("int64", -9223372036854775808, 9223372036854775807), by simp [Generated.intLadder], ?_⟩
    apply rungAcceptsMode_of_exact mode hfb (by simp [Generated.intLadder])
    exact h

/-- whatever the comparison mode, a value between the bounds misses the chosen
rung only by being exactly one above its upper limit -/
theorem find_fits_mode (mode : CompareMode) {fb : Option Nat}
    (hfb : fb = none ∨ fb = some 24 ∨ fb = some 53) {r : Rung} {mn mx v : Rat}
    (h : Generated.intLadder.find?
      (rungAcceptsMode mode fb (roundHalfEven mn) (roundHalfEven mx)) = some r)
    (h1 : mn ≤ v) (h2 : v ≤ mx) :
    castTo r v = (if roundHalfEven v = r.2.2 + 1 then none else some (roundHalfEven v)) ∧
    r.2.1 ≤ roundHalfEven v ∧ roundHalfEven v ≤ r.2.2 + 1 := by
  obtain ⟨ha, hb⟩ := rungAcceptsMode_imp mode hfb (List.mem_of_find?_eq_some h) (List.find?_some h)
  have a := round_mono h1
  have b := round_mono h2
  refine ⟨?_, by omega, by omega⟩
  unfold castTo
  simp only []
  by_cases hc : roundHalfEven v = r.2.2 + 1
  · rw [if_pos hc, if_neg (by omega)]
  · rw [if_neg hc, if_pos ⟨by omega, by omega⟩]

/-! ### the Ensembl recogniser and the suffix cut -/

theorem mem_takeWhile_pos {α} {p : α → Bool} {l : List α} {x : α} (h : x ∈ l.takeWhile p) :
    p x = true := by
  induction l with
  | nil => simp at h
  | cons a as ih =>
    rw [List.takeWhile_cons] at h
    split at h
    next hp =>
      rcases List.mem_cons.1 h with rfl | h
      · exact hp
      · exact ih h
    next => simp at h

theorem isUpperAZ_ne_dot {c : Char} (h : isUpperAZ c = true) : (c != '.') = true := by
  rw [bne_iff_ne]; rintro rfl; revert h; decide

theorem isDigit09_ne_dot {c : Char} (h : isDigit09 c = true) : (c != '.') = true := by
  rw [bne_iff_ne]; rintro rfl; revert h; decide

theorem isDigit09_not_upper {c : Char} (h : isDigit09 c = true) : isUpperAZ c = false := by
  have e1 : 'A'.toNat = 65 := rfl
  have e2 : '9'.toNat = 57 := rfl
  unfold isDigit09 at h
  unfold isUpperAZ
  simp only [Bool.and_eq_true, decide_eq_true_eq] at h
  simp only [Bool.and_eq_false_iff, decide_eq_false_iff_not]
  left; omega

theorem takeWhile_self_of_all {α} {p : α → Bool} {l : List α} (h : ∀ x ∈ l, p x = true) :
    l.takeWhile p = l ∧ l.dropWhile p = [] := by
  induction l with
  | nil => exact ⟨rfl, rfl⟩
  | cons a as ih =>
    have ha := h a (by simp)
    obtain ⟨i1, i2⟩ := ih (fun x hx => h x (by simp [hx]))
    simp [ha, i1, i2]

theorem takeWhile_append_stop {α} {p : α → Bool} {l1 l2 : List α} (h : ∀ x ∈ l1, p x = true)
    (h2 : l2.head?.all (fun x => !p x) = true) :
    (l1 ++ l2).takeWhile p = l1 ∧ (l1 ++ l2).dropWhile p = l2 := by
  induction l1 with
  | nil =>
    cases l2 with
    | nil => exact ⟨rfl, rfl⟩
    | cons b bs =>
      have : p b = false := by simpa using h2
      simp [this]
  | cons a as ih =>
    have ha := h a (by simp)
    obtain ⟨i1, i2⟩ := ih (fun x hx => h x (by simp [hx]))
    simp [ha, i1, i2]

/-- "Ensembl identifiers are kept (minus version suffix)": cutting the version
suffix of an Ensembl identifier leaves an Ensembl identifier without a dot -/
theorem isEnsembl_stripSuffix {s : Name} (h : isEnsembl s = true) :
    isEnsembl (stripSuffix s) = true ∧ '.' ∉ stripSuffix s := by
  refine ⟨?_, dot_notMem_stripSuffix s⟩
  unfold isEnsembl at h
  split at h
  next rest =>
    simp only [Bool.and_eq_true, Bool.not_eq_true', List.isEmpty_eq_false_iff] at h
    obtain ⟨⟨hl, hd⟩, hr2⟩ := h
    have hL : ∀ x ∈ rest.takeWhile isUpperAZ, isUpperAZ x = true := fun x hx => mem_takeWhile_pos hx
    have hD : ∀ x ∈ (rest.dropWhile isUpperAZ).takeWhile isDigit09, isDigit09 x = true :=
      fun x hx => mem_takeWhile_pos hx
    generalize hLdef : rest.takeWhile isUpperAZ = L at *
    generalize hR1def : rest.dropWhile isUpperAZ = R1 at *
    generalize hDdef : R1.takeWhile isDigit09 = D at *
    generalize hR2def : R1.dropWhile isDigit09 = R2 at *
    have e1 : rest = L ++ R1 := by rw [← hLdef, ← hR1def, List.takeWhile_append_dropWhile]
    have e2 : R1 = D ++ R2 := by rw [← hDdef, ← hR2def, List.takeWhile_append_dropWhile]
    have hstrip : stripSuffix ('E' :: 'N' :: 'S' :: rest) = 'E' :: 'N' :: 'S' :: (L ++ D) := by
      have hLD : ∀ x ∈ L ++ D, (x != '.') = true := by
        intro x hx
        rcases List.mem_append.1 hx with hx | hx
        · exact isUpperAZ_ne_dot (hL x hx)
        · exact isDigit09_ne_dot (hD x hx)
      have : (L ++ D ++ R2).takeWhile (· != '.') = L ++ D := by
        apply (takeWhile_append_stop hLD ?_).1
        revert hr2
        cases R2 with
        | nil => intro _; rfl
        | cons c cs =>
          intro hr2
          split at hr2
          next heq => cases heq
          next ver heq => cases heq; rfl
          next => cases hr2
      unfold stripSuffix
      rw [e1, e2, ← List.append_assoc]
      simp only [List.takeWhile_cons]
      rw [this]
      rfl
    rw [hstrip]
    have hDne : D ≠ [] := hd
    have hhead : D.head?.all (fun x => !isUpperAZ x) = true := by
      cases D with
      | nil => exact absurd rfl hDne
      | cons c cs =>
        have := isDigit09_not_upper (hD c (by simp))
        simp [this]
    obtain ⟨t1, t2⟩ := takeWhile_append_stop (l2 := D) hL hhead
    obtain ⟨t3, t4⟩ := takeWhile_self_of_all hD
    unfold isEnsembl
    simp only [t1, t2, t3, t4]
    simp [hl, hDne]
  next => cases h

/-! ### zero fits every rung -/

theorem ladder_contains_zero :
    (Generated.intLadder.all (fun r => decide (r.2.1 ≤ 0) && decide (0 ≤ r.2.2)) = true) ∧
    Generated.intLadderDefault.2.1 ≤ 0 ∧ 0 ≤ Generated.intLadderDefault.2.2 := by
  decide +kernel

theorem chooseIntDtypeMode_mem (mode : CompareMode) (fb : Option Nat) (mn mx : Rat) :
    chooseIntDtypeMode mode fb mn mx ∈ Generated.intLadder ∨
      chooseIntDtypeMode mode fb mn mx = Generated.intLadderDefault := by
  unfold chooseIntDtypeMode
  split
  · next r h => exact Or.inl (List.mem_of_find?_eq_some h)
  · exact Or.inr rfl

theorem castTo_zero {r : Rung} (h : r.2.1 ≤ 0 ∧ 0 ≤ r.2.2) : castTo r 0 = some 0 := by
  have h0 : roundHalfEven 0 = 0 := round_int 0
  unfold castTo
  simp only [h0]
  rw [if_pos h]

/-! ### the one refusal of the gene mapper -/

theorem mapGenes_error_iff (lookup : List (Name × Name)) (ph : Nat → Name) (start : Nat)
    (genes : List Name) (e : VErr) :
    mapGenes lookup ph start genes = .error e ↔
      e = .allUnmappable ∧ genes ≠ [] ∧ ∀ g ∈ genes, isUnknown lookup g = true := by
  obtain ⟨_, _, i3⟩ := foldl_mapStep lookup ph genes ⟨[], start, 0, 0, 0⟩
  simp only [Nat.zero_add] at i3
  have hall : genes.countP (isUnknown lookup) = genes.length ↔
      ∀ g ∈ genes, isUnknown lookup g = true := List.countP_eq_length
  unfold mapGenes
  by_cases he : genes.isEmpty = true
  · rw [if_pos he]
    have : genes = [] := by simpa using he
    simp [this]
  · rw [if_neg he]
    have hne : genes ≠ [] := by simpa using he
    have hpos : 0 < genes.length := List.length_pos_iff.2 hne
    simp only []
    rw [i3]
    split
    next hc =>
      constructor
      · intro h; cases h; exact ⟨rfl, hne, hall.1 hc.2⟩
      · rintro ⟨rfl, _, _⟩; rfl
    next hc =>
      constructor
      · intro h; cases h
      · rintro ⟨_, _, hu⟩
        exfalso; apply hc
        have := hall.2 hu
        exact ⟨by omega, this⟩


/-! ### every way `validate` can fail -/

theorem runMinMax_error {chunks : List (List Rat)} {e : VErr} :
    ∀ {acc : Option (Rat × Rat)}, runMinMax acc chunks = .error e → e = .emptyMatrix := by
  induction chunks with
  | nil => intro acc h; cases h
  | cons ch rest ih =>
    intro acc h
    unfold runMinMax at h
    split at h
    · split at h
      · exact ih h
      · exact ih h
    · cases h; rfl

theorem storage_minmax_error {st : Storage} {e : VErr} (h : st.minmax = .error e) :
    e = .emptyMatrix := by
  cases st with
  | dense m nCols ch =>
    simp only [Storage.minmax, minmaxDense] at h
    cases ch with
    | none => exact runMinMax_error h
    | some c => exact runMinMax_error h
  | sparse d ch =>
    simp only [Storage.minmax, minmaxSparse] at h
    split at h
    · cases h
    · cases ch with
      | none => exact runMinMax_error h
      | some c => exact runMinMax_error h

theorem minmaxUsed_error {inp : Input} {e : VErr} (h : minmaxUsed inp = .error e) :
    e = .emptyMatrix := by
  unfold minmaxUsed at h
  split at h
  · exact storage_minmax_error h
  · cases h

theorem mapGeneIdsInVar_error_iff (lookup : List (Name × Name)) (ph : Nat → Name) (start : Nat)
    (genes : List Name) (e : VErr) :
    mapGeneIdsInVar lookup ph start genes = .error e ↔ mapGenes lookup ph start genes = .error e := by
  unfold mapGeneIdsInVar
  split
  next e' h => rw [h]; constructor <;> (intro h'; cases h'; rfl)
  next o h =>
    rw [h]
    constructor
    · intro h'; split at h' <;> cases h'
    · intro h'; cases h'

theorem validate_mapError {ph : Nat → Name} {inp : Input} {e : VErr}
    (h0 : hasDup inp.cellIds = false) (h1 : hasDup inp.genes = false) (h2 : [] ∉ inp.genes)
    (hm : mapGeneIdsInVar inp.lookup ph inp.start inp.genes = .error e) :
    validate ph inp = .error e := by
  unfold validate
  simp only [checkCellIds_ok h0, checkGeneNames_ok h1 h2, hm]

theorem validate_minmaxError {ph : Nat → Name} {inp : Input} {mv : Option (List Name)} {k : Nat}
    (h0 : hasDup inp.cellIds = false) (h1 : hasDup inp.genes = false) (h2 : [] ∉ inp.genes)
    (hm : mapGeneIdsInVar inp.lookup ph inp.start inp.genes = .ok (mv, k))
    (hmm : minmaxUsed inp = .error .emptyMatrix ∨ minmaxUsed inp = .ok none) :
    validate ph inp = .error .emptyMatrix := by
  rcases hmm with hmm | hmm
  · have hmm' : (if (inp.expectedMax.isSome ||
        inp.roundToInt && !(inp.intDtype || isIntegersChunked inp.eps inp.storage.readChunks)) = true
      then inp.storage.minmax else Except.ok (some (0, 0))) = .error .emptyMatrix := hmm
    unfold validate
    simp only [checkCellIds_ok h0, checkGeneNames_ok h1 h2, hm, hmm']
  · have hmm' : (if (inp.expectedMax.isSome ||
        inp.roundToInt && !(inp.intDtype || isIntegersChunked inp.eps inp.storage.readChunks)) = true
      then inp.storage.minmax else Except.ok (some (0, 0))) = .ok none := hmm
    unfold validate
    simp only [checkCellIds_ok h0, checkGeneNames_ok h1 h2, hm, hmm']

theorem validate_ok_of {ph : Nat → Name} {inp : Input} {mv : Option (List Name)} {k : Nat}
    {mn mx : Rat}
    (h0 : hasDup inp.cellIds = false) (h1 : hasDup inp.genes = false) (h2 : [] ∉ inp.genes)
    (hm : mapGeneIdsInVar inp.lookup ph inp.start inp.genes = .ok (mv, k))
    (hmm : minmaxUsed inp = .ok (some (mn, mx)))
    (hd : ∀ m, mv = some m → hasDup m = false) :
    ∃ plan, validate ph inp = .ok plan := by
  have hmm' : (if (inp.expectedMax.isSome ||
        inp.roundToInt && !(inp.intDtype || isIntegersChunked inp.eps inp.storage.readChunks)) = true
      then inp.storage.minmax else Except.ok (some (0, 0))) = .ok (some (mn, mx)) := hmm
  unfold validate
  simp only [checkCellIds_ok h0, checkGeneNames_ok h1 h2, hm, hmm']
  cases mv with
  | none => split <;> exact ⟨_, rfl⟩
  | some m =>
    simp only [hd m rfl, Option.isSome_some, Bool.or_true, Bool.true_or, if_true,
      Bool.false_eq_true, if_false]
    exact ⟨_, rfl⟩

/-- every way `validate` can fail, in the order of the source -/
theorem validate_error_iff (ph : Nat → Name) (inp : Input) (e : VErr) :
    validate ph inp = .error e ↔
      (e = .dupCellIds ∧ hasDup inp.cellIds = true) ∨
      (e = .badGeneNames ∧ hasDup inp.cellIds = false ∧
        (hasDup inp.genes = true ∨ [] ∈ inp.genes)) ∨
      (e = .allUnmappable ∧ hasDup inp.cellIds = false ∧ hasDup inp.genes = false ∧
        [] ∉ inp.genes ∧ inp.genes ≠ [] ∧ ∀ g ∈ inp.genes, isUnknown inp.lookup g = true) ∨
      (e = .emptyMatrix ∧ hasDup inp.cellIds = false ∧ hasDup inp.genes = false ∧
        [] ∉ inp.genes ∧ (∃ mv k, mapGeneIdsInVar inp.lookup ph inp.start inp.genes = .ok (mv, k)) ∧
        (minmaxUsed inp = .error .emptyMatrix ∨ minmaxUsed inp = .ok none)) ∨
      (e = .dupMapped ∧ hasDup inp.cellIds = false ∧ hasDup inp.genes = false ∧
        [] ∉ inp.genes ∧ ∃ m k mn mx,
          mapGeneIdsInVar inp.lookup ph inp.start inp.genes = .ok (some m, k) ∧
          minmaxUsed inp = .ok (some (mn, mx)) ∧ hasDup m = true) := by
  constructor
  · intro h
    cases hc : hasDup inp.cellIds
    case true =>
      rw [validate_dupCells hc] at h; cases h; exact Or.inl ⟨rfl, rfl⟩
    case false =>
    by_cases hg : hasDup inp.genes = true ∨ [] ∈ inp.genes
    · rw [validate_badGenes hc hg] at h; cases h; exact Or.inr (Or.inl ⟨rfl, rfl, hg⟩)
    · have hg1 : hasDup inp.genes = false := by
        cases h' : hasDup inp.genes
        · rfl
        · exact absurd (Or.inl h') hg
      have hg2 : [] ∉ inp.genes := fun h' => hg (Or.inr h')
      cases hm : mapGeneIdsInVar inp.lookup ph inp.start inp.genes with
      | error e' =>
        rw [validate_mapError hc hg1 hg2 hm] at h
        cases h
        obtain ⟨rfl, hne, hall⟩ :=
          (mapGenes_error_iff _ _ _ _ _).1 ((mapGeneIdsInVar_error_iff _ _ _ _ _).1 hm)
        exact Or.inr (Or.inr (Or.inl ⟨rfl, rfl, hg1, hg2, hne, hall⟩))
      | ok pr =>
        obtain ⟨mv, k⟩ := pr
        cases hmm : minmaxUsed inp with
        | error e' =>
          have := minmaxUsed_error hmm
          subst this
          rw [validate_minmaxError hc hg1 hg2 hm (Or.inl hmm)] at h
          cases h
          exact Or.inr (Or.inr (Or.inr (Or.inl ⟨rfl, rfl, hg1, hg2, ⟨mv, k, rfl⟩, Or.inl rfl⟩)))
        | ok r =>
          cases r with
          | none =>
            rw [validate_minmaxError hc hg1 hg2 hm (Or.inr hmm)] at h
            cases h
            exact Or.inr (Or.inr (Or.inr (Or.inl ⟨rfl, rfl, hg1, hg2, ⟨mv, k, rfl⟩, Or.inr rfl⟩)))
          | some p =>
            obtain ⟨mn, mx⟩ := p
            by_cases hd : ∀ m, mv = some m → hasDup m = false
            · obtain ⟨plan, hp⟩ := validate_ok_of hc hg1 hg2 hm hmm hd
              rw [hp] at h; cases h
            · have : ∃ m, mv = some m ∧ hasDup m = true := by
                cases mv with
                | none => exact absurd (fun m hm' => by cases hm') hd
                | some m =>
                  refine ⟨m, rfl, ?_⟩
                  cases hdm : hasDup m
                  · exact absurd (fun m' hm' => by cases hm'; exact hdm) hd
                  · rfl
              obtain ⟨m, rfl, hdm⟩ := this
              rw [validate_dupMapped hc hg1 hg2 hm hdm hmm] at h
              cases h
              exact Or.inr (Or.inr (Or.inr (Or.inr
                ⟨rfl, rfl, hg1, hg2, m, k, mn, mx, rfl, rfl, hdm⟩)))
  · rintro (⟨rfl, hc⟩ | ⟨rfl, hc, hg⟩ | ⟨rfl, hc, hg1, hg2, hne, hall⟩ |
      ⟨rfl, hc, hg1, hg2, ⟨mv, k, hm⟩, hmm⟩ | ⟨rfl, hc, hg1, hg2, m, k, mn, mx, hm, hmm, hd⟩)
    · exact validate_dupCells hc
    · exact validate_badGenes hc hg
    · exact validate_mapError hc hg1 hg2 ((mapGeneIdsInVar_error_iff _ _ _ _ _).2
        ((mapGenes_error_iff _ _ _ _ _).2 ⟨rfl, hne, hall⟩))
    · exact validate_minmaxError hc hg1 hg2 hm hmm
    · exact validate_dupMapped hc hg1 hg2 hm hd hmm

/-! ### the real spelling of placeholder names -/

theorem digitChar_inj {a b : Nat} (ha : a < 10) (hb : b < 10)
    (h : Nat.digitChar a = Nat.digitChar b) : a = b := by
  have h1 := Nat.toNat_digitChar_of_lt_ten ha
  have h2 := Nat.toNat_digitChar_of_lt_ten hb
  rw [h] at h1
  omega

theorem toDigits_ten_inj : ∀ (n m : Nat), Nat.toDigits 10 n = Nat.toDigits 10 m → n = m := by
  intro n
  induction n using Nat.strongRecOn with
  | ind n ih =>
    intro m h
    rw [Nat.toDigits_eq_if (by decide) (n := n), Nat.toDigits_eq_if (by decide) (n := m)] at h
    by_cases hn : n < 10 <;> by_cases hm : m < 10
    · rw [if_pos hn, if_pos hm] at h
      exact digitChar_inj hn hm (List.cons.inj h).1
    · rw [if_pos hn, if_neg hm] at h
      have := congrArg List.length h
      simp only [List.length_cons, List.length_nil, List.length_append] at this
      have := Nat.length_toDigits_pos (b := 10) (n := m / 10)
      omega
    · rw [if_neg hn, if_pos hm] at h
      have := congrArg List.length h
      simp only [List.length_cons, List.length_nil, List.length_append] at this
      have := Nat.length_toDigits_pos (b := 10) (n := n / 10)
      omega
    · rw [if_neg hn, if_neg hm] at h
      obtain ⟨h1, h2⟩ := List.append_inj' h rfl
      have e1 := ih (n / 10) (by omega) (m / 10) h1
      have e2 := digitChar_inj (Nat.mod_lt n (by decide)) (Nat.mod_lt m (by decide))
        (List.cons.inj h2).1
      omega

/-- `f"unmapped_{k}_{stamp}"` as a list of characters -/
def realPlaceholder (stamp : Nat → String) (k : Nat) : Name :=
  ("unmapped_" ++ toString k ++ "_" ++ stamp k).toList

theorem realPlaceholder_eq (stamp : Nat → String) (k : Nat) :
    realPlaceholder stamp k =
      "unmapped_".toList ++ (Nat.toDigits 10 k ++ '_' :: (stamp k).toList) := by
  unfold realPlaceholder
  rw [String.toList_append, String.toList_append, String.toList_append, Nat.toString_eq_repr,
    Nat.toList_repr]
  simp [List.append_assoc]

theorem stripSuffix_append_of_all {l1 l2 : Name} (h : ∀ x ∈ l1, (x != '.') = true) :
    stripSuffix (l1 ++ l2) = l1 ++ stripSuffix l2 := by
  unfold stripSuffix
  induction l1 with
  | nil => rfl
  | cons a as ih =>
    have ha := h a (by simp)
    rw [List.cons_append, List.takeWhile_cons, if_pos ha, ih (fun x hx => h x (by simp [hx]))]
    rfl

theorem digit_ne_dot {k : Nat} : ∀ x ∈ Nat.toDigits 10 k, (x != '.') = true := by
  intro x hx
  have := Nat.isDigit_of_mem_toDigits (by decide) (by decide) hx
  rw [bne_iff_ne]
  rintro rfl
  revert this; decide

theorem stripSuffix_realPlaceholder (stamp : Nat → String) (k : Nat) :
    stripSuffix (realPlaceholder stamp k) =
      "unmapped_".toList ++ (Nat.toDigits 10 k ++ '_' :: stripSuffix (stamp k).toList) := by
  rw [realPlaceholder_eq, stripSuffix_append_of_all (by decide),
    stripSuffix_append_of_all digit_ne_dot]
  congr 2

/-- the digits of a decimal number followed by `_` determine the number -/
theorem digits_underscore_inj {a b : Nat} {r1 r2 : List Char}
    (h : Nat.toDigits 10 a ++ '_' :: r1 = Nat.toDigits 10 b ++ '_' :: r2) : a = b := by
  apply toDigits_ten_inj
  have key : ∀ (k : Nat) (r : List Char),
      (Nat.toDigits 10 k ++ '_' :: r).takeWhile Char.isDigit = Nat.toDigits 10 k := by
    intro k r
    exact (takeWhile_append_stop
      (fun x hx => Nat.isDigit_of_mem_toDigits (by decide) (by decide) hx) (by simp)).1
  rw [← key a r1, ← key b r2, h]

/-- the real placeholder names of different counters differ, also after the
version-suffix cut, whatever the time stamps are -/
theorem realPlaceholder_injective (stamp : Nat → String) :
    Function.Injective (fun k => stripSuffix (realPlaceholder stamp k)) := by
  intro a b h
  simp only [stripSuffix_realPlaceholder] at h
  exact digits_underscore_inj (List.append_cancel_left h)

/-- the driver's `placeholderT` is the real spelling with the fixed stamp `T` -/
theorem realPlaceholder_T (k : Nat) :
    realPlaceholder (fun _ => "T") k = ("unmapped_" ++ toString k ++ "_T").toList := by
  have h : "_" ++ "T" = "_T" := by decide
  show ("unmapped_" ++ toString k ++ "_" ++ "T").toList = _
  rw [String.append_assoc, h]

/-! ### a small example input -/

/-- example input used by the non-vacuity examples of `CTM.Props.C16` -/
def demoLookup : List (Name × Name) := [(['A','b','c'], ['E','N','S','G','0','7'])]
/-- placeholder names with a unary counter: `u_`, `u_x`, `u_xx`, ... -/
def demoPlaceholder (k : Nat) : Name := 'u' :: '_' :: List.replicate k 'x'

theorem demoPlaceholder_injective :
    Function.Injective (fun k => stripSuffix (demoPlaceholder k)) := by
  intro a b hab
  have h : ∀ k, stripSuffix (demoPlaceholder k) = demoPlaceholder k := by
    intro k; apply stripSuffix_eq_self; simp [demoPlaceholder]
  simp only [h] at hab
  have := congrArg List.length hab
  simpa [demoPlaceholder] using this

def demoInput : Input :=
  { cellIds := [['c','1'],['c','2']]
    genes := [['E','N','S','G','0','1','.','2'], ['A','b','c'], ['x','y'], ['z']]
    layerIsX := true, roundToInt := true, intDtype := false, floatBits := none
    storage := .dense [[1/2, 255 + 1/2, 0, 3], [3, 0, 7/4, -1/2]] 4 (some (1, 3))
    eps := 1/1000, expectedMax := none, lookup := demoLookup, start := 2 }

end CTM.Validate
