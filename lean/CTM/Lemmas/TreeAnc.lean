/-
  `ancestorAt` against `childToParent` / `parents`, and the characterisation
  of `asLeaves` membership through `ancestorAt`.  Core Lean only.
-/
import CTM.Lemmas.TreeLeaves
namespace CTM.RawTree
variable {t : RawTree}

theorem ancestorAt_self (l : Level) (n : Node) : t.ancestorAt l n l = some n := by
  simp [ancestorAt]

/-- distinct positions of a duplicate-free hierarchy hold distinct levels -/
theorem hierarchy_beq_false (hn : t.hierarchy.Nodup) {i j : Nat} (hi : i < t.hierarchy.length)
    (hj : j < t.hierarchy.length) (hne : i ≠ j) :
    (t.hierarchy[i] == t.hierarchy[j]) = false := by
  apply beq_false_of_ne
  intro he
  exact hne ((List.getElem_inj hn).1 he)

/-- going one level up first: the ancestor of a node is the ancestor of its parent -/
theorem ancestorAt_succ (s : Strict t) (hn : t.hierarchy.Nodup) {i j : Nat} (hij : i ≤ j)
    (hj : j + 1 < t.hierarchy.length) {c p : Node} (hc : c ∈ t.nodesAt t.hierarchy[j+1])
    (hp : t.childToParent t.hierarchy[j+1] c = some p) :
    t.ancestorAt t.hierarchy[j+1] c (t.hierarchy[i]'(by omega)) =
      t.ancestorAt (t.hierarchy[j]'(by omega)) p (t.hierarchy[i]'(by omega)) := by
  have hne1 : (t.hierarchy[i]'(by omega) == t.hierarchy[j+1]) = false :=
    hierarchy_beq_false hn (by omega) hj (by omega)
  unfold ancestorAt
  rw [parents_succ s hn hj hc hp, List.lookup_cons]
  rcases Nat.eq_or_lt_of_le hij with rfl | hlt
  · simp [hne1]
  · have hne2 : (t.hierarchy[i]'(by omega) == t.hierarchy[j]'(by omega)) = false :=
      hierarchy_beq_false hn (by omega) (by omega) (by omega)
    simp [hne1, hne2]

/-- the ancestor at the level right above is the parent -/
theorem ancestorAt_parent (s : Strict t) (hn : t.hierarchy.Nodup) {j : Nat}
    (hj : j + 1 < t.hierarchy.length) {c : Node} (hc : c ∈ t.nodesAt t.hierarchy[j+1]) :
    t.ancestorAt t.hierarchy[j+1] c (t.hierarchy[j]'(by omega)) =
      t.childToParent t.hierarchy[j+1] c := by
  obtain ⟨p, hp, _⟩ := childToParent_isSome s hn hj hc
  rw [ancestorAt_succ s hn (Nat.le_refl j) hj hc hp, ancestorAt_self, hp]

/-- every node has exactly one ancestor at every level above (or at) its own, and it is a
node of that level -/
theorem ancestorAt_isSome (s : Strict t) (hn : t.hierarchy.Nodup) {i j : Nat} (hij : i ≤ j)
    (hj : j < t.hierarchy.length) {n : Node} (hmem : n ∈ t.nodesAt t.hierarchy[j]) :
    ∃ a, t.ancestorAt t.hierarchy[j] n (t.hierarchy[i]'(by omega)) = some a ∧
      a ∈ t.nodesAt (t.hierarchy[i]'(by omega)) := by
  induction j generalizing n with
  | zero =>
    have : i = 0 := by omega
    subst this
    exact ⟨n, ancestorAt_self _ _, hmem⟩
  | succ j ih =>
    rcases Nat.eq_or_lt_of_le hij with rfl | hlt
    · exact ⟨n, ancestorAt_self _ _, hmem⟩
    · obtain ⟨p, hp, hpm⟩ := childToParent_isSome s hn hj hmem
      rw [ancestorAt_succ s hn (by omega) hj hmem hp]
      exact ih (by omega) (by omega) hpm

/-- ancestors compose: the ancestor at level i of n is the parent of the ancestor at level i+1 -/
theorem ancestorAt_step (s : Strict t) (hn : t.hierarchy.Nodup) {i j : Nat} (hij : i + 1 ≤ j)
    (hj : j < t.hierarchy.length) {n : Node} (hmem : n ∈ t.nodesAt t.hierarchy[j]) {b : Node}
    (hb : t.ancestorAt t.hierarchy[j] n (t.hierarchy[i+1]'(by omega)) = some b) :
    t.ancestorAt t.hierarchy[j] n (t.hierarchy[i]'(by omega)) =
      t.childToParent (t.hierarchy[i+1]'(by omega)) b := by
  induction j generalizing n with
  | zero => omega
  | succ j ih =>
    rcases Nat.eq_or_lt_of_le hij with heq | hlt
    · have hij' : i = j := by omega
      subst hij'
      rw [ancestorAt_self] at hb
      cases hb
      exact ancestorAt_parent s hn hj hmem
    · obtain ⟨p, hp, hpm⟩ := childToParent_isSome s hn hj hmem
      rw [ancestorAt_succ s hn (by omega) hj hmem hp] at hb
      rw [ancestorAt_succ s hn (by omega) hj hmem hp]
      exact ih (by omega) (by omega) hpm hb

/-- `leavesSpec` form of the main theorem -/
theorem mem_leavesSpec_iff_ancestorAt (s : Strict t) (d : DictOK t) (hn : t.hierarchy.Nodup) :
    ∀ (below : List Level) (i : Nat) (hi : i < t.hierarchy.length),
      below = t.hierarchy.drop (i+1) → ∀ a, a ∈ t.nodesAt t.hierarchy[i] →
      ∀ n, n ∈ t.nodesAt (t.hierarchy[t.hierarchy.length - 1]'(by omega)) →
      (n ∈ leavesSpec t below t.hierarchy[i] a ↔
        t.ancestorAt (t.hierarchy[t.hierarchy.length - 1]'(by omega)) n t.hierarchy[i] = some a)
  | [], i, hi, hb, a, _, n, _ => by
    have hlen : t.hierarchy.length ≤ i + 1 := by
      rcases Nat.lt_or_ge (i+1) t.hierarchy.length with hc | hc
      · rw [List.drop_eq_getElem_cons hc] at hb
        cases hb
      · exact hc
    have e : t.hierarchy.length - 1 = i := by omega
    simp only [e, leavesSpec, List.mem_singleton, ancestorAt_self, Option.some.injEq]
  | cl :: rest, i, hi, hb, a, ha, n, hnl => by
    have hi1 : i + 1 < t.hierarchy.length := by
      rcases Nat.lt_or_ge (i+1) t.hierarchy.length with hc | hc
      · exact hc
      · rw [List.drop_eq_nil_of_le hc] at hb
        cases hb
    rw [List.drop_eq_getElem_cons hi1] at hb
    have hcl : cl = t.hierarchy[i+1] := (List.cons.inj hb).1
    have hrest : rest = t.hierarchy.drop (i+1+1) := (List.cons.inj hb).2
    subst hcl
    have hL : t.hierarchy.length - 1 < t.hierarchy.length := by omega
    obtain ⟨b, hbanc, hbm⟩ :=
      ancestorAt_isSome s hn (i := i+1) (j := t.hierarchy.length - 1) (by omega) hL hnl
    have hstep := ancestorAt_step s hn (i := i) (j := t.hierarchy.length - 1) (by omega) hL hnl hbanc
    rw [hstep, childToParent_eq_some_iff s hn hi1 b a, isChild_iff d, leavesSpec, List.mem_flatMap]
    constructor
    · rintro ⟨c, hc, hnc⟩
      have hcm := s.entry_sub hi1 ha hc
      have := (mem_leavesSpec_iff_ancestorAt s d hn rest (i+1) hi1 hrest c hcm n hnl).1 hnc
      rw [hbanc] at this
      cases this
      exact ⟨ha, hc⟩
    · rintro ⟨_, hbe⟩
      exact ⟨b, hbe, (mem_leavesSpec_iff_ancestorAt s d hn rest (i+1) hi1 hrest b hbm n hnl).2 hbanc⟩

/-- MAIN: a leaf is in `asLeaves` of a node iff that node is the leaf's ancestor at the
node's level -/
theorem mem_asLeaves_iff_ancestorAt (s : Strict t) (d : DictOK t) (hn : t.hierarchy.Nodup) {i : Nat}
    (hi : i < t.hierarchy.length) {a : Node} (ha : a ∈ t.nodesAt t.hierarchy[i]) {n : Node}
    (hnl : n ∈ t.nodesAt (t.hierarchy[t.hierarchy.length - 1]'(by omega))) :
    n ∈ t.asLeaves t.hierarchy[i] a ↔
      t.ancestorAt (t.hierarchy[t.hierarchy.length - 1]'(by omega)) n t.hierarchy[i] = some a := by
  rw [(asLeaves_perm_spec t _ a).mem_iff, levelsBelow_getElem hn hi]
  exact mem_leavesSpec_iff_ancestorAt s d hn _ i hi rfl a ha n hnl

end CTM.RawTree
