/-
  Lemmas for C19: frame / commutation of file-system runs from footprint disjointness,
  and soundness of the may-be-live analysis of resource skeletons.
-/
import CTM.Model.Scratch

namespace CTM.Scratch
open CTM.Skeleton

/-! ### one step -/

theorem val_congr (o : Op) (fs fs' : FS) (q : Path)
    (h : ∀ r, o.reads r = true → fs r = fs' r) : o.val fs q = o.val fs' q := by
  cases o <;> simp [Op.val]
  case move s d =>
    have := h s (by simp [Op.reads])
    rw [this]

theorem step_untouched (o : Op) (fs : FS) (q : Path) (h : o.writes q = false) :
    step o fs q = fs q := by
  simp [step, h]

/-- operations whose written entries the other neither reads nor writes -/
def Indep (a b : Op) : Prop :=
  ∀ q, (a.writes q = true → b.touches q = false) ∧ (b.writes q = true → a.touches q = false)

theorem Indep.symm {a b : Op} (h : Indep a b) : Indep b a := fun q => ⟨(h q).2, (h q).1⟩

theorem touches_false {o : Op} {q : Path} (h : o.touches q = false) :
    o.writes q = false ∧ o.reads q = false := by
  simpa [Op.touches] using h

theorem step_reads_indep {a b : Op} (h : Indep a b) (fs : FS) (r : Path)
    (hr : a.reads r = true) : step b fs r = fs r := by
  apply step_untouched
  cases hb : b.writes r with
  | false => rfl
  | true =>
    have := (touches_false ((h r).2 hb)).2
    rw [hr] at this
    cases this

theorem step_comm {a b : Op} (h : Indep a b) (fs : FS) :
    step a (step b fs) = step b (step a fs) := by
  funext q
  cases ha : a.writes q with
  | true =>
    have hb : b.writes q = false := (touches_false ((h q).1 ha)).1
    simp only [step, ha, hb, if_true]
    simp only [Bool.false_eq_true, if_false]
    exact val_congr a _ _ q (fun r hr => step_reads_indep h fs r hr)
  | false =>
    cases hb : b.writes q with
    | true =>
      simp only [step, ha, hb, if_true]
      simp only [Bool.false_eq_true, if_false]
      exact (val_congr b _ _ q (fun r hr => step_reads_indep h.symm fs r hr)).symm
    | false =>
      simp [step, ha, hb]

theorem obs_step_indep {a b : Op} (h : Indep a b) (fs : FS) : obs a (step b fs) = obs a fs := by
  funext q
  cases hr : a.reads q with
  | false => simp [obs, hr]
  | true => simp only [obs, hr, if_true]; exact step_reads_indep h fs q hr

/-! ### runs -/

theorem exec_cons (fs : FS) (o : Op) (run : List Op) : exec fs (o :: run) = exec (step o fs) run := rfl

theorem exec_append (fs : FS) (r1 r2 : List Op) : exec fs (r1 ++ r2) = exec (exec fs r1) r2 := by
  simp [exec, List.foldl_append]

theorem exec_untouched (run : List Op) (fs : FS) (q : Path)
    (h : ∀ o ∈ run, o.writes q = false) : exec fs run q = fs q := by
  induction run generalizing fs with
  | nil => rfl
  | cons o rest ih =>
    rw [exec_cons, ih _ (fun o' ho' => h o' (List.mem_cons_of_mem _ ho'))]
    exact step_untouched o fs q (h o (List.mem_cons_self ..))

theorem step_exec_comm (b : Op) (r : List Op) (fs : FS) (h : ∀ a ∈ r, Indep a b) :
    step b (exec fs r) = exec (step b fs) r := by
  induction r generalizing fs with
  | nil => rfl
  | cons a rest ih =>
    rw [exec_cons, exec_cons, ih _ (fun a' ha' => h a' (List.mem_cons_of_mem _ ha'))]
    rw [step_comm (h a (List.mem_cons_self ..))]

theorem reads_step_indep (b : Op) (r : List Op) (fs : FS) (h : ∀ a ∈ r, Indep a b) :
    reads (step b fs) r = reads fs r := by
  induction r generalizing fs with
  | nil => rfl
  | cons a rest ih =>
    have ha := h a (List.mem_cons_self ..)
    simp only [reads]
    rw [obs_step_indep ha, step_comm ha, ih _ (fun a' ha' => h a' (List.mem_cons_of_mem _ ha'))]

/-- two runs none of whose operations writes what the other touches -/
def IndepRuns (r1 r2 : List Op) : Prop := ∀ a ∈ r1, ∀ b ∈ r2, Indep a b

theorem proj_cons_same (w : Bool) (o : Op) (l : List (Bool × Op)) :
    proj w ((w, o) :: l) = o :: proj w l := by
  simp [proj]

theorem proj_cons_other (w : Bool) (o : Op) (l : List (Bool × Op)) :
    proj w ((!w, o) :: l) = proj w l := by
  cases w <;> simp [proj]

theorem commute_state (l : List (Bool × Op)) (fs : FS)
    (h : IndepRuns (proj true l) (proj false l)) :
    exec fs (untag l) = exec (exec fs (proj true l)) (proj false l) := by
  induction l generalizing fs with
  | nil => rfl
  | cons x rest ih =>
    obtain ⟨t, o⟩ := x
    cases t with
    | true =>
      have e1 : proj true ((true, o) :: rest) = o :: proj true rest := proj_cons_same true o rest
      have e2 : proj false ((true, o) :: rest) = proj false rest := proj_cons_other false o rest
      rw [e1, e2] at h ⊢
      simp only [untag, List.map_cons] at ih ⊢
      rw [exec_cons, exec_cons]
      exact ih _ (fun a ha b hb => h a (List.mem_cons_of_mem _ ha) b hb)
    | false =>
      have e1 : proj true ((false, o) :: rest) = proj true rest := proj_cons_other true o rest
      have e2 : proj false ((false, o) :: rest) = o :: proj false rest := proj_cons_same false o rest
      rw [e1, e2] at h ⊢
      simp only [untag, List.map_cons] at ih ⊢
      rw [exec_cons, exec_cons]
      rw [ih _ (fun a ha b hb => h a ha b (List.mem_cons_of_mem _ hb))]
      rw [step_exec_comm o _ fs (fun a ha => h a ha o (List.mem_cons_self ..))]

theorem commute_reads_first (l : List (Bool × Op)) (fs : FS)
    (h : IndepRuns (proj true l) (proj false l)) :
    readsOf true fs l = reads fs (proj true l) := by
  induction l generalizing fs with
  | nil => rfl
  | cons x rest ih =>
    obtain ⟨t, o⟩ := x
    cases t with
    | true =>
      have e1 : proj true ((true, o) :: rest) = o :: proj true rest := proj_cons_same true o rest
      have e2 : proj false ((true, o) :: rest) = proj false rest := proj_cons_other false o rest
      rw [e1, e2] at h
      rw [e1]
      simp only [readsOf, reads, BEq.rfl, if_true]
      rw [ih _ (fun a ha b hb => h a (List.mem_cons_of_mem _ ha) b hb)]
    | false =>
      have e1 : proj true ((false, o) :: rest) = proj true rest := proj_cons_other true o rest
      have e2 : proj false ((false, o) :: rest) = o :: proj false rest := proj_cons_same false o rest
      rw [e1, e2] at h
      rw [e1]
      simp only [readsOf]
      rw [ih _ (fun a ha b hb => h a ha b (List.mem_cons_of_mem _ hb))]
      exact reads_step_indep o _ fs (fun a ha => h a ha o (List.mem_cons_self ..))

theorem commute_reads_second (l : List (Bool × Op)) (fs : FS)
    (h : IndepRuns (proj true l) (proj false l)) :
    readsOf false fs l = reads fs (proj false l) := by
  induction l generalizing fs with
  | nil => rfl
  | cons x rest ih =>
    obtain ⟨t, o⟩ := x
    cases t with
    | false =>
      have e1 : proj true ((false, o) :: rest) = proj true rest := proj_cons_other true o rest
      have e2 : proj false ((false, o) :: rest) = o :: proj false rest := proj_cons_same false o rest
      rw [e1, e2] at h
      rw [e2]
      simp only [readsOf, reads, BEq.rfl, if_true]
      rw [ih _ (fun a ha b hb => h a ha b (List.mem_cons_of_mem _ hb))]
    | true =>
      have e1 : proj true ((true, o) :: rest) = o :: proj true rest := proj_cons_same true o rest
      have e2 : proj false ((true, o) :: rest) = proj false rest := proj_cons_other false o rest
      rw [e1, e2] at h
      rw [e2]
      simp only [readsOf]
      rw [ih _ (fun a ha b hb => h a (List.mem_cons_of_mem _ ha) b hb)]
      exact reads_step_indep o _ fs
        (fun b hb => (h o (List.mem_cons_self ..) b hb).symm)

/-! ### frame -/

theorem step_overlay (o : Op) (stale fs : FS)
    (h : ∀ q, stale q ≠ none → o.touches q = false) :
    step o (overlay stale fs) = overlay stale (step o fs) := by
  have hr : ∀ r, o.reads r = true → overlay stale fs r = fs r := by
    intro r hr
    cases hs : stale r with
    | none => simp [overlay, hs]
    | some k =>
      have := (touches_false (h r (by simp [hs]))).2
      rw [hr] at this; cases this
  funext q
  cases hw : o.writes q with
  | true =>
    have hs : stale q = none := by
      cases hs : stale q with
      | none => rfl
      | some k =>
        have := (touches_false (h q (by simp [hs]))).1
        rw [hw] at this; cases this
    simp only [step, hw, if_true, overlay, hs]
    exact val_congr o _ _ q hr
  | false =>
    simp [step, hw, overlay]

theorem obs_overlay (o : Op) (stale fs : FS)
    (h : ∀ q, stale q ≠ none → o.touches q = false) :
    obs o (overlay stale fs) = obs o fs := by
  funext q
  cases hr : o.reads q with
  | false => simp [obs, hr]
  | true =>
    simp only [obs, hr, if_true]
    cases hs : stale q with
    | none => simp [overlay, hs]
    | some k =>
      have := (touches_false (h q (by simp [hs]))).2
      rw [hr] at this; cases this

theorem exec_overlay (run : List Op) (stale fs : FS)
    (h : ∀ q, stale q ≠ none → ∀ o ∈ run, o.touches q = false) :
    exec (overlay stale fs) run = overlay stale (exec fs run) ∧
    reads (overlay stale fs) run = reads fs run := by
  induction run generalizing fs with
  | nil => exact ⟨rfl, rfl⟩
  | cons o rest ih =>
    have ho : ∀ q, stale q ≠ none → o.touches q = false :=
      fun q hq => h q hq o (List.mem_cons_self ..)
    have hrest := ih (step o fs) (fun q hq o' ho' => h q hq o' (List.mem_cons_of_mem _ ho'))
    simp only [exec_cons, reads]
    rw [step_overlay o stale fs ho, obs_overlay o stale fs ho]
    exact ⟨hrest.1, by rw [hrest.2]⟩

/-! ### what the footprint discipline bounds -/

theorem under_iff (roots : List Path) (q : Path) :
    under roots q = true ↔ ∃ r ∈ roots, r <+: q := by
  simp [under, List.any_eq_true]

theorem under_mono {r1 r2 : List Path} (h : ∀ r ∈ r1, r ∈ r2) {q : Path}
    (hu : under r1 q = true) : under r2 q = true := by
  rw [under_iff] at *
  obtain ⟨r, hr, hp⟩ := hu
  exact ⟨r, h r hr, hp⟩

theorem under_trans {roots : List Path} {p q : Path} (hp : under roots p = true)
    (hpq : p <+: q) : under roots q = true := by
  rw [under_iff] at *
  obtain ⟨r, hr, hrp⟩ := hp
  exact ⟨r, hr, hrp.trans hpq⟩

theorem under_self {roots : List Path} {p : Path} (h : p ∈ roots) : under roots p = true := by
  rw [under_iff]; exact ⟨p, h, List.prefix_refl p⟩

theorem under_append (a b : List Path) (q : Path) :
    under (a ++ b) q = (under a q || under b q) := by
  simp [under, List.any_append]

theorem under_head {a f o : List Path} {q : Path} (h : under (a ++ o) q = true) :
    under (a ++ f ++ o) q = true := by
  simp only [under_append, Bool.or_eq_true] at h ⊢
  rcases h with h | h <;> simp [h]

theorem under_tail {a f o : List Path} {q : Path} (h : under (f ++ (a ++ o)) q = true) :
    under (a ++ f ++ o) q = true := by
  simp only [under_append, Bool.or_eq_true] at h ⊢
  rcases h with h | h | h <;> simp [h]

theorem dropLast_prefix' (q : Path) : q.dropLast <+: q := List.dropLast_prefix q

/-- everything an in-footprint operation writes is under a temporary of the run or is a
declared output -/
theorem writes_of_opOk (d : Decl) (owned : List Path) (o : Op) (h : opOk d owned o = true)
    (q : Path) (hw : o.writes q = true) :
    under (o.fresh ++ owned) q = true ∨ q ∈ d.outputs := by
  cases o with
  | mkdtemp p =>
    simp only [Op.writes, beq_iff_eq] at hw; subst hw
    exact Or.inl (under_self (by simp [Op.fresh]))
  | mkstemp p =>
    simp only [Op.writes, beq_iff_eq] at hw; subst hw
    exact Or.inl (under_self (by simp [Op.fresh]))
  | mkdir p =>
    simp only [Op.writes, beq_iff_eq] at hw; subst hw
    exact Or.inl (by simpa [opOk, Op.fresh] using h)
  | rmdir p =>
    simp only [Op.writes, beq_iff_eq] at hw; subst hw
    exact Or.inl (by simpa [opOk, Op.fresh] using h)
  | write p tok =>
    simp only [Op.writes, beq_iff_eq] at hw; subst hw
    simpa [opOk, Op.fresh] using h
  | unlink p =>
    simp only [Op.writes, beq_iff_eq] at hw; subst hw
    simpa [opOk, Op.fresh] using h
  | rmtree p =>
    simp only [Op.writes, List.isPrefixOf_iff_prefix] at hw
    simp only [opOk] at h
    exact Or.inl (under_trans (by simpa [Op.fresh] using h) hw)
  | move s t =>
    simp only [Op.writes, Bool.or_eq_true, beq_iff_eq] at hw
    simp only [opOk, Bool.and_eq_true, Bool.or_eq_true, List.contains_iff_mem] at h
    rcases hw with rfl | rfl
    · exact Or.inl (by simpa [Op.fresh] using h.1)
    · rcases h.2 with h2 | h2
      · exact Or.inl (by simpa [Op.fresh] using h2)
      · exact Or.inr h2
  | openRO p => simp [Op.writes] at hw
  | listdir p => simp [Op.writes] at hw

/-- everything an in-footprint operation reads is under a temporary of the run, a declared
output or a declared input -/
theorem reads_of_opOk (d : Decl) (owned : List Path) (o : Op) (h : opOk d owned o = true)
    (q : Path) (hr : o.reads q = true) :
    under (o.fresh ++ owned) q = true ∨ q ∈ d.outputs ∨ q ∈ d.inputs := by
  cases o with
  | openRO p =>
    simp only [Op.reads, beq_iff_eq] at hr; subst hr
    simpa [opOk, Op.fresh, or_assoc] using h
  | listdir p =>
    simp only [Op.reads, Bool.and_eq_true, beq_iff_eq] at hr
    simp only [opOk] at h
    have : p <+: q := by rw [← hr.2]; exact List.dropLast_prefix q
    exact Or.inl (under_trans (by simpa [Op.fresh] using h) this)
  | move s t =>
    simp only [Op.reads, beq_iff_eq] at hr; subst hr
    simp only [opOk, Bool.and_eq_true] at h
    exact Or.inl (by simpa [Op.fresh] using h.1)
  | mkdtemp p => simp [Op.reads] at hr
  | mkstemp p => simp [Op.reads] at hr
  | mkdir p => simp [Op.reads] at hr
  | rmdir p => simp [Op.reads] at hr
  | write p tok => simp [Op.reads] at hr
  | unlink p => simp [Op.reads] at hr
  | rmtree p => simp [Op.reads] at hr

theorem freshOf_cons (o : Op) (run : List Op) : freshOf (o :: run) = o.fresh ++ freshOf run := by
  simp [freshOf]

theorem writes_of_footGo (d : Decl) (run : List Op) (owned : List Path)
    (h : footGo d owned run = true) (o : Op) (ho : o ∈ run) (q : Path)
    (hw : o.writes q = true) :
    under (freshOf run ++ owned) q = true ∨ q ∈ d.outputs := by
  induction run generalizing owned with
  | nil => cases ho
  | cons o' rest ih =>
    simp only [footGo, Bool.and_eq_true] at h
    rw [freshOf_cons]
    rcases List.mem_cons.mp ho with rfl | ho
    · rcases writes_of_opOk d owned o h.1 q hw with hu | ho
      · exact Or.inl (under_head hu)
      · exact Or.inr ho
    · rcases ih _ h.2 ho with hu | ho
      · exact Or.inl (under_tail hu)
      · exact Or.inr ho

theorem reads_of_footGo (d : Decl) (run : List Op) (owned : List Path)
    (h : footGo d owned run = true) (o : Op) (ho : o ∈ run) (q : Path)
    (hr : o.reads q = true) :
    under (freshOf run ++ owned) q = true ∨ q ∈ d.outputs ∨ q ∈ d.inputs := by
  induction run generalizing owned with
  | nil => cases ho
  | cons o' rest ih =>
    simp only [footGo, Bool.and_eq_true] at h
    rw [freshOf_cons]
    rcases List.mem_cons.mp ho with rfl | ho
    · rcases reads_of_opOk d owned o h.1 q hr with hu | ho
      · exact Or.inl (under_head hu)
      · exact Or.inr ho
    · rcases ih _ h.2 ho with hu | ho
      · exact Or.inl (under_tail hu)
      · exact Or.inr ho

/-- an in-footprint run touches only its own temporaries, declared outputs and inputs -/
theorem touches_of_footprint (d : Decl) (run : List Op) (h : footprintOk d run = true)
    (o : Op) (ho : o ∈ run) (q : Path) (ht : o.touches q = true) :
    under (freshOf run) q = true ∨ q ∈ d.outputs ∨ q ∈ d.inputs := by
  simp only [Op.touches, Bool.or_eq_true] at ht
  rcases ht with hw | hr
  · rcases writes_of_footGo d run [] h o ho q hw with hu | ho
    · exact Or.inl (by simpa using hu)
    · exact Or.inr (Or.inl ho)
  · simpa using reads_of_footGo d run [] h o ho q hr

/-! ### resource skeletons: the may-be-live analysis is sound -/

theorem mem_union {a b : Live} {x : Nat} : x ∈ union a b ↔ x ∈ a ∨ x ∈ b := by
  simp only [union, List.mem_append, List.mem_filter, Bool.not_eq_true']
  constructor
  · rintro (h | h)
    · exact Or.inl h
    · exact Or.inr h.1
  · rintro (h | h)
    · exact Or.inl h
    · by_cases hx : x ∈ a
      · exact Or.inl hx
      · exact Or.inr ⟨h, by simpa using hx⟩

theorem subset_iff {a b : Live} : subset a b = true ↔ ∀ x ∈ a, x ∈ b := by
  simp [subset, List.all_eq_true]

theorem union_absorb {a b : Live} (h : ∀ x ∈ b, x ∈ a) : union a b = a := by
  simpa [union] using h

/-- the loop invariant `postS` uses -/
def loopInv (b : List Stmt) (m : Live) : Live :=
  if subset (postL b m).norm m then m else union m (slotsL b)

theorem postS_loop (b : List Stmt) (m : Live) :
    postS (.loop b) m =
      { norm := loopInv b m, ret := (postL b (loopInv b m)).ret,
        exc := (postL b (loopInv b m)).exc } := by
  simp [postS, loopInv]

theorem le_loopInv (b : List Stmt) (m : Live) : ∀ x ∈ m, x ∈ loopInv b m := by
  intro x hx
  unfold loopInv
  split
  · exact hx
  · exact mem_union.mpr (Or.inl hx)

theorem loopInv_idem (b : List Stmt) (m : Live) : loopInv b (loopInv b m) = loopInv b m := by
  by_cases h : subset (postL b m).norm m = true
  · have e : loopInv b m = m := by simp [loopInv, h]
    rw [e, e]
  · have e : loopInv b m = union m (slotsL b) := by simp [loopInv, h]
    rw [e]
    unfold loopInv
    split
    · rfl
    · exact union_absorb (fun x hx => mem_union.mpr (Or.inr hx))

mutual
/-- executions only ever add slots that the statement creates -/
theorem execS_slots {s : Stmt} {σ : Live} {e : Exit} {σ' : Live} (h : ExecS s σ e σ') :
    ∀ x ∈ σ', x ∈ σ ∨ x ∈ slotsS s := by
  intro x hx
  match h with
  | .mkOk v d σ =>
    simp only [slotsS]
    split at hx
    · rcases List.mem_cons.mp hx with rfl | hx
      · exact Or.inr (by simp)
      · exact Or.inl hx
    · exact Or.inl hx
  | .mkRaise _ _ _ => exact Or.inl hx
  | .clean v σ => exact Or.inl (List.mem_filter.mp hx).1
  | .callOk _ => exact Or.inl hx
  | .callRaise _ => exact Or.inl hx
  | .ret _ => exact Or.inl hx
  | .raise _ => exact Or.inl hx
  | .tryFinally hb hf =>
    simp only [slotsS, List.mem_append]
    rcases execL_slots hf x hx with h1 | h1
    · rcases execL_slots hb x h1 with h2 | h2
      · exact Or.inl h2
      · exact Or.inr (Or.inl h2)
    · exact Or.inr (Or.inr h1)
  | .iteL ha =>
    simp only [slotsS, List.mem_append]
    rcases execL_slots ha x hx with h1 | h1
    · exact Or.inl h1
    · exact Or.inr (Or.inl h1)
  | .iteR hb =>
    simp only [slotsS, List.mem_append]
    rcases execL_slots hb x hx with h1 | h1
    · exact Or.inl h1
    · exact Or.inr (Or.inr h1)
  | .ifLiveT _ ha =>
    simp only [slotsS, List.mem_append]
    rcases execL_slots ha x hx with h1 | h1
    · exact Or.inl h1
    · exact Or.inr (Or.inl h1)
  | .ifLiveF _ hb =>
    simp only [slotsS, List.mem_append]
    rcases execL_slots hb x hx with h1 | h1
    · exact Or.inl h1
    · exact Or.inr (Or.inr h1)
  | .loopDone => exact Or.inl hx
  | .loopExit hb _ =>
    simp only [slotsS]
    exact execL_slots hb x hx
  | .loopNext hb hrest =>
    rcases execS_slots hrest x hx with h1 | h1
    · simp only [slotsS]
      exact execL_slots hb x h1
    · exact Or.inr h1
theorem execL_slots {l : List Stmt} {σ : Live} {e : Exit} {σ' : Live} (h : ExecL l σ e σ') :
    ∀ x ∈ σ', x ∈ σ ∨ x ∈ slotsL l := by
  intro x hx
  match h with
  | .nil _ => exact Or.inl hx
  | .consNext hs hrest =>
    simp only [slotsL, List.mem_append]
    rcases execL_slots hrest x hx with h1 | h1
    · rcases execS_slots hs x h1 with h2 | h2
      · exact Or.inl h2
      · exact Or.inr (Or.inl h2)
    · exact Or.inr (Or.inr h1)
  | .consExit hs _ =>
    simp only [slotsL, List.mem_append]
    rcases execS_slots hs x hx with h1 | h1
    · exact Or.inl h1
    · exact Or.inr (Or.inl h1)
end

theorem get_join_left {a b : Out} {e : Exit} {x : Nat} (h : x ∈ a.get e) : x ∈ (a.join b).get e := by
  cases e <;> simp only [Out.join, Out.get] at h ⊢ <;> exact mem_union.mpr (Or.inl h)

theorem get_join_right {a b : Out} {e : Exit} {x : Nat} (h : x ∈ b.get e) : x ∈ (a.join b).get e := by
  cases e <;> simp only [Out.join, Out.get] at h ⊢ <;> exact mem_union.mpr (Or.inr h)

mutual
/-- soundness of the analysis for one statement: whatever is live after an execution that
started with `σ ⊆ m` is in the analysis' set for that kind of exit -/
theorem postS_sound {s : Stmt} {σ : Live} {e : Exit} {σ' : Live} (h : ExecS s σ e σ')
    (m : Live) (hm : ∀ x ∈ σ, x ∈ m) : ∀ x ∈ σ', x ∈ (postS s m).get e := by
  intro x hx
  match h with
  | .mkOk v d σ =>
    simp only [postS, Out.get]
    split at hx
    · rename_i ht
      simp only [ht, if_true]
      rcases List.mem_cons.mp hx with rfl | hx
      · simp
      · exact List.mem_cons_of_mem _ (hm x hx)
    · rename_i ht
      simp only [ht]
      exact hm x hx
  | .mkRaise _ _ _ => simp only [postS, Out.get]; exact hm x hx
  | .clean v σ =>
    simp only [postS, Out.get]
    have := List.mem_filter.mp hx
    exact List.mem_filter.mpr ⟨hm x this.1, this.2⟩
  | .callOk _ => simp only [postS, Out.get]; exact hm x hx
  | .callRaise _ => simp only [postS, Out.get]; exact hm x hx
  | .ret _ => simp only [postS, Out.get]; exact hm x hx
  | .raise _ => simp only [postS, Out.get]; exact hm x hx
  | .tryFinally (e := e1) (e' := e2) hb hf =>
    have h1 := postL_sound hb m hm
    have h2 := postL_sound hf _ h1 x hx
    cases e1 <;> cases e2 <;>
      simp only [postS, Out.get, Exit.afterFinally, if_true, reduceCtorEq, if_false,
        mem_union] at h2 ⊢ <;> simp [h2]
  | .iteL ha =>
    simp only [postS]
    exact get_join_left (postL_sound ha m hm x hx)
  | .iteR hb =>
    simp only [postS]
    exact get_join_right (postL_sound hb m hm x hx)
  | .ifLiveT (v := v) hv ha =>
    simp only [postS]
    have : m.contains v = true := by simpa using hm v hv
    simp only [this, if_true]
    exact get_join_left (postL_sound ha m hm x hx)
  | .ifLiveF (v := v) hv hb =>
    simp only [postS]
    apply get_join_right
    refine postL_sound hb _ ?_ x hx
    intro y hy
    refine List.mem_filter.mpr ⟨hm y hy, ?_⟩
    have : y ≠ v := fun h => hv (h ▸ hy)
    simpa using this
  | .loopDone =>
    rw [postS_loop]
    exact le_loopInv _ m x (hm x hx)
  | .loopExit (b := b) (e := e1) hb hne =>
    rw [postS_loop]
    have := postL_sound hb (loopInv b m) (fun y hy => le_loopInv b m y (hm y hy)) x hx
    cases e1
    · exact absurd rfl hne
    · exact this
    · exact this
  | .loopNext (b := b) (σ' := σ1) hb hrest =>
    have hinv : ∀ y ∈ σ1, y ∈ loopInv b m := by
      intro y hy
      by_cases hs : subset (postL b m).norm m = true
      · have e : loopInv b m = m := by simp [loopInv, hs]
        rw [e]
        exact subset_iff.mp hs y (postL_sound hb m hm y hy)
      · have e : loopInv b m = union m (slotsL b) := by simp [loopInv, hs]
        rw [e]
        rcases execL_slots hb y hy with h1 | h1
        · exact mem_union.mpr (Or.inl (hm y h1))
        · exact mem_union.mpr (Or.inr h1)
    have := postS_sound hrest (loopInv b m) hinv x hx
    rw [postS_loop, loopInv_idem] at this
    rw [postS_loop]
    exact this
/-- soundness of the analysis for a statement list -/
theorem postL_sound {l : List Stmt} {σ : Live} {e : Exit} {σ' : Live} (h : ExecL l σ e σ')
    (m : Live) (hm : ∀ x ∈ σ, x ∈ m) : ∀ x ∈ σ', x ∈ (postL l m).get e := by
  intro x hx
  match h with
  | .nil _ => simp only [postL, Out.get]; exact hm x hx
  | .consNext (e := e1) hs hrest =>
    have h1 := postS_sound hs m hm
    have h2 := postL_sound hrest _ h1 x hx
    cases e1 <;> simp only [postL, Out.get, mem_union] at h2 ⊢
    · exact h2
    · exact Or.inr h2
    · exact Or.inr h2
  | .consExit (e := e1) hs hne =>
    have h1 := postS_sound hs m hm x hx
    cases e1
    · exact absurd rfl hne
    · simp only [postL, Out.get, mem_union] at h1 ⊢; exact Or.inl h1
    · simp only [postL, Out.get, mem_union] at h1 ⊢; exact Or.inl h1
end

/-- the generic clean-up theorem: if the analysis finds nothing that may be live at the
exits in `exits`, then every execution of the skeleton that starts with nothing live and
leaves through one of these exits ends with nothing live -/
theorem restoresOn_sound (exits : List Exit) (body : List Stmt)
    (h : restoresOn exits body = true) {e : Exit} {σ' : Live} (he : e ∈ exits)
    (hx : ExecL body [] e σ') : σ' = [] := by
  have h1 := postL_sound hx [] (by simp)
  have h2 : ((postL body []).get e).isEmpty = true := by
    simp only [restoresOn, List.all_eq_true] at h
    exact h e he
  have h3 : (postL body []).get e = [] := by simpa using h2
  rw [h3] at h1
  cases σ' with
  | nil => rfl
  | cons y ys => exact absurd (h1 y (List.mem_cons_self ..)) (by simp)

end CTM.Scratch
