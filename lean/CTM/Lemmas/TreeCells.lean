import CTM.Lemmas.TreeDrop
namespace CTM.RawTree
variable {t : RawTree}

/-! ### PART 1: `dropCells` -/

/-- the leaf dict with every cell list emptied -/
def emptiedLeaf (t : RawTree) (leaf : Level) : LevelMap :=
  (t.level leaf).map (fun kv => (kv.1, ([] : List Nat)))

theorem dropCells_eq {leaf : Level} (hl : t.leafLevel = some leaf) :
    t.dropCells = { t with levels := setLevel t.levels leaf (t.emptiedLeaf leaf) } := by
  unfold dropCells
  rw [hl]
  rfl

theorem dropCells_eq_self (hl : t.leafLevel = none) : t.dropCells = t := by
  unfold dropCells
  rw [hl]

theorem dropCells_hierarchy : t.dropCells.hierarchy = t.hierarchy := by
  unfold dropCells; split <;> rfl

theorem dropCells_hasHierarchy : t.dropCells.hasHierarchy = t.hasHierarchy := by
  unfold dropCells; split <;> rfl

theorem dropCells_nodesAreStr : t.dropCells.nodesAreStr = t.nodesAreStr := by
  unfold dropCells; split <;> rfl

theorem dropCells_keys : t.dropCells.levels.map (·.1) = t.levels.map (·.1) := by
  cases hl : t.leafLevel with
  | none => rw [dropCells_eq_self hl]
  | some leaf => rw [dropCells_eq hl]; exact map_fst_setLevel _ _ _

theorem dropCells_leafLevel : t.dropCells.leafLevel = t.leafLevel := by
  unfold leafLevel; rw [dropCells_hierarchy]

theorem dropCells_level_other {l : Level} (hl : t.leafLevel ≠ some l) :
    t.dropCells.level l = t.level l := by
  cases hll : t.leafLevel with
  | none => rw [dropCells_eq_self hll]
  | some leaf =>
    have hne : l ≠ leaf := by
      rintro rfl; exact hl hll
    unfold level
    rw [dropCells_eq hll]
    simp only
    rw [lookup_setLevel_ne _ hne]

/-- the leaf dict of `dropCells` (only the leaf level needs to be known) -/
theorem dropCells_level_leaf' {leaf : Level} (hl : t.leafLevel = some leaf) :
    t.dropCells.level leaf = (t.level leaf).map (fun kv => (kv.1, ([] : List Nat))) := by
  show _ = t.emptiedLeaf leaf
  unfold level
  rw [dropCells_eq hl]
  simp only
  rw [lookup_setLevel_self']
  cases h : t.levels.lookup leaf with
  | none => simp [emptiedLeaf, level, h]
  | some m => rfl

theorem dropCells_level_leaf (w : WF t) :
    t.dropCells.level (t.hierarchy.getLast w.hNe) =
      (t.level (t.hierarchy.getLast w.hNe)).map (fun (n, _) => (n, [])) :=
  dropCells_level_leaf' w.leafLevel_getLast

/-- every level keeps its node keys, in order (no hypothesis needed) -/
theorem dropCells_nodesAt' (l : Level) : t.dropCells.nodesAt l = t.nodesAt l := by
  unfold nodesAt
  by_cases hl : t.leafLevel = some l
  · rw [dropCells_level_leaf' hl, List.map_map]
    rfl
  · rw [dropCells_level_other hl]

theorem dropCells_nodesAt (_w : WF t) (l : Level) : t.dropCells.nodesAt l = t.nodesAt l :=
  dropCells_nodesAt' l

theorem dropCells_entry_other {l : Level} (hl : t.leafLevel ≠ some l) (n : Node) :
    t.dropCells.entry l n = t.entry l n := by
  unfold entry; rw [dropCells_level_other hl]

theorem dropCells_entry_leaf' {leaf : Level} (hl : t.leafLevel = some leaf) (n : Node) :
    t.dropCells.entry leaf n = [] := by
  unfold entry
  rw [dropCells_level_leaf' hl, lookup_map_snd (fun _ : List Nat => ([] : List Nat))]
  cases (t.level leaf).lookup n <;> rfl

theorem dropCells_entry_leaf (w : WF t) (n : Node) :
    t.dropCells.entry (t.hierarchy.getLast w.hNe) n = [] :=
  dropCells_entry_leaf' w.leafLevel_getLast n

theorem dropCells_allRows' : t.dropCells.allRows = [] := by
  unfold allRows
  rw [dropCells_leafLevel]
  cases hl : t.leafLevel with
  | none => rfl
  | some leaf =>
    simp only
    rw [dropCells_level_leaf' hl, List.flatMap_map]
    simp

theorem dropCells_allRows (_w : WF t) : t.dropCells.allRows = [] := dropCells_allRows'

/-- the parent component of a consecutive pair is never the leaf level -/
theorem levelPairs_fst_ne_leaf (hn : t.hierarchy.Nodup) {pl cl : Level}
    (hm : (pl, cl) ∈ levelPairs t.hierarchy) : t.leafLevel ≠ some pl := by
  obtain ⟨i, hi, rfl, _⟩ := idx_of_mem_levelPairs hm
  intro e
  have := (leafLevel_getElem_iff hn (by omega)).1 e
  omega

theorem dropCells_dictOK (d : DictOK t) : DictOK t.dropCells := by
  cases hl : t.leafLevel with
  | none => rw [dropCells_eq_self hl]; exact d
  | some leaf =>
    constructor
    · rw [dropCells_keys]; exact d.levelKeys
    · intro l m hm
      rw [dropCells_eq hl] at hm
      rcases mem_setLevel_drop hm with ⟨_, h⟩ | ⟨_, rfl, _⟩
      · exact d.nodeKeys l m h
      · unfold emptiedLeaf
        rw [List.map_map]
        exact d.nodesAt_nodup _

theorem dropCells_strict (s : Strict t) (hn : t.hierarchy.Nodup) : Strict t.dropCells := by
  have hlv : ∀ {pl cl}, (pl, cl) ∈ levelPairs t.dropCells.hierarchy →
      (pl, cl) ∈ levelPairs t.hierarchy ∧ t.dropCells.level pl = t.level pl := by
    intro pl cl hm
    rw [dropCells_hierarchy] at hm
    exact ⟨hm, dropCells_level_other (levelPairs_fst_ne_leaf hn hm)⟩
  refine
    { hasH := by rw [dropCells_hasHierarchy]; exact s.hasH
      keysSub := by rw [dropCells_keys, dropCells_hierarchy]; exact s.keysSub
      hierSub := by rw [dropCells_keys, dropCells_hierarchy]; exact s.hierSub
      str := by rw [dropCells_nodesAreStr]; exact s.str
      childExists := fun pl cl hm => by
        obtain ⟨hm', e⟩ := hlv hm
        rw [e, dropCells_nodesAt']; exact s.childExists pl cl hm'
      hasParent := fun pl cl hm => by
        obtain ⟨hm', e⟩ := hlv hm
        rw [e, dropCells_nodesAt']; exact s.hasParent pl cl hm'
      oneParent := fun pl cl hm => by
        obtain ⟨hm', e⟩ := hlv hm
        rw [e]; exact s.oneParent pl cl hm'
      childNe := fun pl cl hm => by
        obtain ⟨hm', e⟩ := hlv hm
        rw [e]; exact s.childNe pl cl hm'
      childNodup := fun pl cl hm => by
        obtain ⟨hm', e⟩ := hlv hm
        rw [e]; exact s.childNodup pl cl hm'
      rowsNodup := by rw [dropCells_allRows']; exact List.nodup_nil }

theorem dropCells_wf (w : WF t) : WF t.dropCells := by
  have hn : t.dropCells.hierarchy.Nodup := by rw [dropCells_hierarchy]; exact w.hNodup
  have hne : t.dropCells.hierarchy ≠ [] := by rw [dropCells_hierarchy]; exact w.hNe
  exact
    { valid := validate_of_strict hn hne
        (by
          intro l0 h0
          rw [dropCells_nodesAt']
          rw [dropCells_hierarchy] at h0
          exact hasNode_of_validate w.valid l0 h0)
        (dropCells_strict (strict_of_validate w.valid) w.hNodup)
      hNodup := hn
      hNe := hne
      dict := dropCells_dictOK w.dict }

/-! `childToParent`, `parents`, `ancestorAt` -/

theorem dropCells_parentLevel (l : Level) : t.dropCells.parentLevel l = t.parentLevel l := by
  unfold parentLevel levelIdx
  rw [dropCells_hierarchy]

theorem dropCells_levelsBelow (l : Level) : t.dropCells.levelsBelow l = t.levelsBelow l := by
  unfold levelsBelow levelIdx
  rw [dropCells_hierarchy]

/-- a parent level is never the leaf level -/
theorem parentLevel_ne_leaf (hn : t.hierarchy.Nodup) {cl pl : Level}
    (h : t.parentLevel cl = some pl) : t.leafLevel ≠ some pl := by
  unfold parentLevel at h
  split at h
  · cases h
  · cases h
  · rename_i i hidx
    unfold levelIdx at hidx
    rw [List.idxOf?_eq_some_iff] at hidx
    obtain ⟨hi, _, _⟩ := hidx
    obtain ⟨hi', rfl⟩ := List.getElem?_eq_some_iff.1 h
    intro e
    have := (leafLevel_getElem_iff hn hi').1 e
    omega

theorem dropCells_childToParent' (hn : t.hierarchy.Nodup) (cl : Level) (c : Node) :
    t.dropCells.childToParent cl c = t.childToParent cl c := by
  unfold childToParent
  rw [dropCells_parentLevel]
  cases h : t.parentLevel cl with
  | none => rfl
  | some pl =>
    simp only
    rw [dropCells_level_other (parentLevel_ne_leaf hn h)]

theorem dropCells_childToParent (w : WF t) (cl : Level) (c : Node) :
    t.dropCells.childToParent cl c = t.childToParent cl c :=
  dropCells_childToParent' w.hNodup cl c

theorem dropCells_parentsAux (hn : t.hierarchy.Nodup) :
    ∀ (fuel : Nat) (l : Level) (n : Node),
      t.dropCells.parentsAux fuel l n = t.parentsAux fuel l n
  | 0, _, _ => rfl
  | fuel+1, l, n => by
    unfold parentsAux
    rw [dropCells_parentLevel, dropCells_childToParent' hn]
    cases t.parentLevel l with
    | none => rfl
    | some pl =>
      cases t.childToParent l n with
      | none => rfl
      | some p =>
        simp only
        rw [dropCells_parentsAux hn fuel pl p]

theorem dropCells_parents (w : WF t) (l : Level) (n : Node) :
    t.dropCells.parents l n = t.parents l n := by
  unfold parents
  rw [dropCells_hierarchy]
  exact dropCells_parentsAux w.hNodup _ l n

theorem dropCells_ancestorAt (w : WF t) (l : Level) (n : Node) (al : Level) :
    t.dropCells.ancestorAt l n al = t.ancestorAt l n al := by
  unfold ancestorAt
  rw [dropCells_parents w]

/-! `asLeaves` -/

/-- `leavesFrom` reads the entries of every level it walks through except the
last one -/
theorem leavesFrom_congr {t₁ t₂ : RawTree} : ∀ (below : List Level) (l : Level) (n : Node),
    (∀ l' n', l' ∈ (l :: below).dropLast → t₁.entry l' n' = t₂.entry l' n') →
      leavesFrom t₁ below l n = leavesFrom t₂ below l n
  | [], _, _, _ => rfl
  | [_], l, n, h => by
    simp only [leavesFrom]
    exact h l n (by simp)
  | cl :: c2 :: rest, l, n, h => by
    simp only [leavesFrom]
    rw [h l n (by simp)]
    congr 1
    funext c
    exact leavesFrom_congr (c2 :: rest) cl c (fun l' n' hm => h l' n' (by
      rw [List.dropLast_cons_of_ne_nil (by simp)]
      exact List.mem_cons_of_mem _ hm))

/-- no level strictly above the last one of the hierarchy is the leaf level -/
theorem not_leaf_of_mem_dropLast_drop (hn : t.hierarchy.Nodup) {i : Nat} {x : Level}
    (hx : x ∈ (t.hierarchy.drop i).dropLast) : t.leafLevel ≠ some x := by
  rw [List.dropLast_eq_take] at hx
  obtain ⟨m, hm, rfl⟩ := List.getElem_of_mem hx
  rw [List.length_take, List.length_drop] at hm
  rw [List.getElem_take, List.getElem_drop]
  intro e
  have := (leafLevel_getElem_iff hn (by omega)).1 e
  omega

theorem dropCells_asLeaves' (hn : t.hierarchy.Nodup) (l : Level) (n : Node) :
    t.dropCells.asLeaves l n = t.asLeaves l n := by
  unfold asLeaves
  rw [dropCells_levelsBelow]
  by_cases hl : l ∈ t.hierarchy
  · obtain ⟨i, hi, rfl⟩ := List.getElem_of_mem hl
    rw [levelsBelow_getElem hn hi]
    apply leavesFrom_congr
    intro l' n' hm
    rw [← List.drop_eq_getElem_cons hi] at hm
    exact dropCells_entry_other (not_leaf_of_mem_dropLast_drop hn hm) n'
  · have : t.levelsBelow l = [] := by
      unfold levelsBelow; rw [levelIdx_none_of_not_mem hl]
    rw [this]
    rfl

theorem dropCells_asLeaves (w : WF t) (l : Level) (n : Node) :
    t.dropCells.asLeaves l n = t.asLeaves l n :=
  dropCells_asLeaves' w.hNodup l n

/-! ### PART 2: `flatten` after `dropLevel` -/

/-- filtering a key-unique association list with a key predicate that holds
exactly at `k` leaves the entry of `k` -/
theorem filter_eq_singleton_of_nodup_keys {β} (q : Level → Bool) :
    ∀ {m : List (Level × β)} {k : Level} {v : β}, (m.map (·.1)).Nodup → (k, v) ∈ m →
      (∀ k', k' ∈ m.map (·.1) → (q k' = true ↔ k' = k)) →
      m.filter (fun kv => q kv.1) = [(k, v)]
  | [], _, _, _, h, _ => by cases h
  | (k', v') :: m, k, v, hn, h, hq => by
    simp only [List.map_cons, List.nodup_cons] at hn
    rcases List.mem_cons.1 h with h1 | h2
    · cases h1
      have hk : q k' = true := (hq k' (by simp)).2 rfl
      have hnil : m.filter (fun kv => q kv.1) = [] := by
        rw [List.filter_eq_nil_iff]
        intro kv hkv hqk
        have hmem : kv.1 ∈ m.map (·.1) := List.mem_map.2 ⟨kv, hkv, rfl⟩
        have e := (hq kv.1 (List.mem_cons_of_mem _ hmem)).1 hqk
        rw [e] at hmem
        exact hn.1 hmem
      simp only [List.filter, hk, hnil]
    · have hkm : k ∈ m.map (·.1) := List.mem_map.2 ⟨(k, v), h2, rfl⟩
      have hne : k' ≠ k := by
        rintro rfl; exact hn.1 hkm
      have hk' : q k' = false := by
        cases hqk : q k' with
        | false => rfl
        | true => exact absurd ((hq k' (by simp)).1 hqk) hne
      simp only [List.filter, hk']
      exact filter_eq_singleton_of_nodup_keys q hn.2 h2
        (fun k'' hk'' => hq k'' (List.mem_cons_of_mem _ hk''))

/-- `flatten` keeps exactly the leaf level's dict -/
theorem flatten_levels_eq' (w : WF t) {leaf : Level} (hl : t.leafLevel = some leaf) :
    t.flatten.levels = [(leaf, t.level leaf)] := by
  have s := strict_of_validate w.valid
  have e := hierarchy_eq_dropLast_leaf hl
  have hleafH : leaf ∈ t.hierarchy := by rw [e]; simp
  have hmem : (leaf, t.level leaf) ∈ t.levels := by
    rcases level_mem_or_nil t leaf with h | h
    · exact h
    · obtain ⟨⟨k, m⟩, hm, hk⟩ := List.mem_map.1 (s.hierSub leaf hleafH)
      simp only at hk
      subst hk
      rw [level_of_mem w.dict.levelKeys hm]
      exact hm
  rw [flatten_eq hl]
  simp only
  apply filter_eq_singleton_of_nodup_keys (fun k => !(t.hierarchy.dropLast.contains k))
    w.dict.levelKeys hmem
  intro k hk
  have hkH := s.keysSub k hk
  constructor
  · intro hq
    have hq' : k ∉ t.hierarchy.dropLast := by simpa using hq
    rw [e, List.mem_append] at hkH
    rcases hkH with h | h
    · exact absurd h hq'
    · simpa using h
  · rintro rfl
    simpa using leaf_not_mem_dropLast w.hNodup hl

theorem flatten_levels_eq (w : WF t) :
    t.flatten.levels = [(t.hierarchy.getLast w.hNe, t.level (t.hierarchy.getLast w.hNe))] :=
  flatten_levels_eq' w w.leafLevel_getLast

theorem flatten_eq_of_leaf (w : WF t) {leaf : Level} (hl : t.leafLevel = some leaf) :
    t.flatten = { hasHierarchy := t.hasHierarchy, hierarchy := [leaf],
                  levels := [(leaf, t.level leaf)], nodesAreStr := t.nodesAreStr } := by
  have h := flatten_levels_eq' w hl
  rw [flatten_eq hl] at h ⊢
  simp only at h
  rw [h]

theorem flatten_eq_of_wf (w : WF t) :
    t.flatten = { hasHierarchy := t.hasHierarchy, hierarchy := [t.hierarchy.getLast w.hNe],
                  levels := [(t.hierarchy.getLast w.hNe, t.level (t.hierarchy.getLast w.hNe))],
                  nodesAreStr := t.nodesAreStr } :=
  flatten_eq_of_leaf w w.leafLevel_getLast

/-- two well-formed trees with the same leaf level, leaf dict and flags flatten
to the same tree -/
theorem flatten_congr {t₁ t₂ : RawTree} (w₁ : WF t₁) (w₂ : WF t₂) {leaf : Level}
    (h₁ : t₁.leafLevel = some leaf) (h₂ : t₂.leafLevel = some leaf)
    (hlev : t₁.level leaf = t₂.level leaf) (hh : t₁.hasHierarchy = t₂.hasHierarchy)
    (hs : t₁.nodesAreStr = t₂.nodesAreStr) : t₁.flatten = t₂.flatten := by
  rw [flatten_eq_of_leaf w₁ h₁, flatten_eq_of_leaf w₂ h₂, hlev, hh, hs]

theorem dropLevelRaw_of_dropLevel {l : Level} {a : Bool} {t' : RawTree}
    (h : t.dropLevel l a = .ok t') : t.dropLevelRaw l a = .ok t' := by
  unfold dropLevel at h
  split at h
  · cases h
  · rename_i t'' hr
    split at h
    · cases h
    · cases h; exact hr

theorem flatten_drop_eq (w : WF t) {i : Nat} (hi : i + 1 < t.hierarchy.length)
    {allowLeaf : Bool} {t' : RawTree}
    (ht' : t.dropLevel (t.hierarchy[i]'(by omega)) allowLeaf = .ok t') :
    t'.flatten = t.flatten := by
  have hi' : i < t.hierarchy.length := by omega
  have hr := dropLevelRaw_of_dropLevel ht'
  have hn := w.hNodup
  have w' := dropLevelRaw_wf w hi' hr
  have hl := leafLevel_eq w.hNe
  have hl' : t'.leafLevel = _ := (drop_leafLevel_nonleaf hn hi' hr hi).trans hl
  exact flatten_congr w' w hl' hl (drop_level_leaf hn hi' hr hi)
    (drop_hasHierarchy hn hi' hr) (drop_nodesAreStr hn hi' hr)

theorem flatten_flatten (w : WF t) : t.flatten.flatten = t.flatten := by
  have hl := w.leafLevel_getLast
  have w' := flatten_wf w
  rw [flatten_eq_of_leaf w' (flatten_leafLevel hl), flatten_level_leaf w.hNodup hl,
    flatten_hasHierarchy, flatten_nodesAreStr]
  exact (flatten_eq_of_leaf w hl).symm

end CTM.RawTree
