/-
  Lemmas for C20, multi-word messages: `str.replace` with a whitespace-free pattern acts
  word by word, hence so does the whole substitution loop of `sanitize_paths`.
-/
import CTM.Lemmas.Sanitize

namespace CTM.Sanitize

/-- no whitespace character -/
def WsFree (w : Str) : Prop := ∀ c ∈ w, isWs c = false

theorem WsFree.append {a b : Str} (ha : WsFree a) (hb : WsFree b) : WsFree (a ++ b) := by
  intro c hc
  rcases List.mem_append.mp hc with h | h
  · exact ha c h
  · exact hb c h

/-! ### `str.split()` -/

theorem splitWsGo_append_word (u cur rest : Str) (hu : WsFree u) :
    splitWsGo cur (u ++ rest) = splitWsGo (cur ++ u) rest := by
  induction u generalizing cur with
  | nil => simp
  | cons c cs ih =>
    have hc : isWs c = false := hu c (by simp)
    simp only [List.cons_append, splitWsGo, hc, Bool.false_eq_true, if_false]
    rw [ih (cur ++ [c]) (fun x hx => hu x (List.mem_cons_of_mem _ hx))]
    simp

/-- the words of a string are non-empty and whitespace-free -/
theorem splitWsGo_words (s cur : Str) (hcur : WsFree cur) :
    ∀ w ∈ splitWsGo cur s, w ≠ [] ∧ WsFree w := by
  induction s generalizing cur with
  | nil =>
    intro w hw
    simp only [splitWsGo] at hw
    split at hw
    · cases hw
    · rename_i hne
      simp only [List.mem_singleton] at hw
      subst hw
      exact ⟨by simpa using hne, hcur⟩
  | cons c cs ih =>
    intro w hw
    simp only [splitWsGo] at hw
    split at hw
    · split at hw
      · exact ih [] (by intro x hx; cases hx) w hw
      · rename_i hne
        rcases List.mem_cons.mp hw with rfl | hw
        · exact ⟨by simpa using hne, hcur⟩
        · exact ih [] (by intro x hx; cases hx) w hw
    · rename_i hc
      refine ih (cur ++ [c]) (hcur.append ?_) w hw
      intro x hx
      simp only [List.mem_singleton] at hx
      subst hx
      simpa using hc

theorem splitWs_words (s : Str) : ∀ w ∈ splitWs s, w ≠ [] ∧ WsFree w :=
  splitWsGo_words s [] (by intro x hx; cases hx)

/-! ### `str.replace` -/

theorem replace_nil (old new : Str) : replace old new [] = [] := rfl

/-- unfolding `replace` one character -/
theorem replace_cons (old new : Str) (x : Char) (xs : Str) (hold : old ≠ []) :
    replace old new (x :: xs) =
      if old.isPrefixOf (x :: xs) then new ++ replace old new ((x :: xs).drop old.length)
      else x :: replace old new xs := by
  unfold replace
  simp only [replaceGo]
  split
  · rw [replaceGo_skip]
    cases old with
    | nil => exact absurd rfl hold
    | cons o os => simp
  · rfl

theorem isPrefixOf_across_ws (old pre post : Str) (c : Char) (hc : isWs c = true)
    (hold : WsFree old) :
    old.isPrefixOf (pre ++ c :: post) = old.isPrefixOf pre := by
  induction old generalizing pre with
  | nil => simp [List.isPrefixOf]
  | cons o os ih =>
    have ho : isWs o = false := hold o (by simp)
    have hos : WsFree os := fun x hx => hold x (List.mem_cons_of_mem _ hx)
    cases pre with
    | nil =>
      have : (o == c) = false := by
        cases h : (o == c) with
        | false => rfl
        | true =>
          have : o = c := by simpa using h
          rw [this, hc] at ho; cases ho
      simp [List.isPrefixOf, this]
    | cons p ps =>
      simp only [List.cons_append, List.isPrefixOf]
      rw [ih ps hos]

theorem length_le_of_isPrefixOf {a b : Str} (h : a.isPrefixOf b = true) : a.length ≤ b.length :=
  (List.isPrefixOf_iff_prefix.mp h).length_le

/-- a whitespace character splits the string for `replace` (pattern without whitespace) -/
theorem replace_across_ws (old new : Str) (hne : old ≠ []) (hold : WsFree old) (c : Char)
    (hc : isWs c = true) (post : Str) :
    ∀ (n : Nat) (pre : Str), pre.length ≤ n →
      replace old new (pre ++ c :: post) = replace old new pre ++ c :: replace old new post := by
  intro n
  induction n with
  | zero =>
    intro pre hlen
    have : pre = [] := by simpa using hlen
    subst this
    simp only [List.nil_append, replace_nil]
    rw [replace_cons old new c post hne]
    have := isPrefixOf_across_ws old [] post c hc hold
    simp only [List.nil_append] at this
    rw [this]
    cases old with
    | nil => exact absurd rfl hne
    | cons o os => simp [List.isPrefixOf]
  | succ n ih =>
    intro pre hlen
    cases pre with
    | nil => exact ih [] (by simp)
    | cons x xs =>
      rw [List.cons_append, replace_cons old new x (xs ++ c :: post) hne,
        replace_cons old new x xs hne]
      have hp := isPrefixOf_across_ws old (x :: xs) post c hc hold
      simp only [List.cons_append] at hp
      rw [hp]
      split
      · rename_i hpre
        have hle := length_le_of_isPrefixOf hpre
        have hd : ((x :: xs) ++ c :: post).drop old.length
            = (x :: xs).drop old.length ++ c :: post := List.drop_append_of_le_length hle
        simp only [List.cons_append] at hd
        rw [hd, ih ((x :: xs).drop old.length) (by
          have : 0 < old.length := List.length_pos_iff.mpr hne
          simp only [List.length_drop, List.length_cons] at hlen ⊢
          omega)]
        simp
      · rw [ih xs (by simpa using hlen)]
        simp

theorem mem_replaceGo (old new : Str) (n : Nat) (s : Str) (c : Char)
    (h : c ∈ replaceGo old new n s) : c ∈ s ∨ c ∈ new := by
  induction s generalizing n with
  | nil => simp [replaceGo] at h
  | cons x xs ih =>
    cases n with
    | succ k =>
      simp only [replaceGo] at h
      rcases ih k h with h | h
      · exact Or.inl (List.mem_cons_of_mem _ h)
      · exact Or.inr h
    | zero =>
      simp only [replaceGo] at h
      split at h
      · rcases List.mem_append.mp h with h | h
        · exact Or.inr h
        · rcases ih _ h with h | h
          · exact Or.inl (List.mem_cons_of_mem _ h)
          · exact Or.inr h
      · rcases List.mem_cons.mp h with rfl | h
        · exact Or.inl (by simp)
        · rcases ih 0 h with h | h
          · exact Or.inl (List.mem_cons_of_mem _ h)
          · exact Or.inr h

theorem replace_wsFree (old new w : Str) (hw : WsFree w) (hn : WsFree new) :
    WsFree (replace old new w) := by
  intro c hc
  rcases mem_replaceGo old new 0 w c hc with h | h
  · exact hw c h
  · exact hn c h

/-- a pattern that does not occur is not replaced -/
theorem replace_of_not_infix (old new w : Str) (h : ¬ old <:+: w) : replace old new w = w := by
  induction w with
  | nil => rfl
  | cons x xs ih =>
    unfold replace
    simp only [replaceGo]
    have hp : old.isPrefixOf (x :: xs) = false := by
      cases hp : old.isPrefixOf (x :: xs) with
      | false => rfl
      | true => exact absurd (List.isPrefixOf_iff_prefix.mp hp).isInfix h
    simp only [hp, Bool.false_eq_true, if_false]
    have : ¬ old <:+: xs := fun hi => h (hi.trans (List.suffix_cons x xs).isInfix)
    have := ih this
    unfold replace at this
    rw [this]

/-! ### words of a replaced string -/

def nonEmpty (w : Str) : Bool := !w.isEmpty

theorem splitWsGo_nil_word (u : Str) (hu : WsFree u) :
    splitWsGo [] u = if u.isEmpty then [] else [u] := by
  have := splitWsGo_noWs u [] hu
  simpa using this

/-- `replace` acts word by word -/
theorem splitWs_replace_go (old new : Str) (hne : old ≠ []) (hold : WsFree old) (hnew : WsFree new)
    (s cur : Str) (hcur : WsFree cur) :
    splitWsGo [] (replace old new (cur ++ s)) =
      ((splitWsGo cur s).map (replace old new)).filter nonEmpty := by
  induction s generalizing cur with
  | nil =>
    simp only [List.append_nil, splitWsGo]
    rw [splitWsGo_nil_word _ (replace_wsFree old new cur hcur hnew)]
    by_cases hc : cur = []
    · subst hc; simp [replace_nil]
    · have : cur.isEmpty = false := by simpa using hc
      simp only [this, Bool.false_eq_true, if_false, List.map_cons, List.map_nil]
      by_cases hr : replace old new cur = []
      · simp [hr, nonEmpty, List.filter]
      · have : (replace old new cur).isEmpty = false := by simpa using hr
        simp [this, nonEmpty, List.filter]
  | cons c cs ih =>
    by_cases hc : isWs c = true
    · rw [replace_across_ws old new hne hold c hc cs cur.length cur (Nat.le_refl _)]
      rw [splitWsGo_append_word _ [] _ (replace_wsFree old new cur hcur hnew)]
      simp only [List.nil_append, splitWsGo, hc, if_true]
      have ih0 := ih [] (by intro x hx; cases hx)
      simp only [List.nil_append] at ih0
      by_cases hcur0 : cur = []
      · subst hcur0
        simp only [replace_nil, List.isEmpty_nil, if_true]
        exact ih0
      · have h1 : cur.isEmpty = false := by simpa using hcur0
        simp only [h1, Bool.false_eq_true, if_false, List.map_cons]
        by_cases hr : replace old new cur = []
        · simp only [hr, List.isEmpty_nil, if_true]
          rw [ih0]
          simp [List.filter, nonEmpty]
        · have h2 : (replace old new cur).isEmpty = false := by simpa using hr
          simp only [h2, Bool.false_eq_true, if_false]
          rw [ih0]
          simp [List.filter, nonEmpty, h2]
    · have hc' : isWs c = false := by simpa using hc
      have := ih (cur ++ [c]) (hcur.append (by
        intro x hx
        simp only [List.mem_singleton] at hx
        subst hx; exact hc'))
      simp only [List.append_assoc, List.singleton_append] at this
      rw [this]
      simp [splitWsGo, hc']

theorem splitWs_replace (old new s : Str) (hne : old ≠ []) (hold : WsFree old) (hnew : WsFree new) :
    splitWs (replace old new s) = ((splitWs s).map (replace old new)).filter nonEmpty := by
  have := splitWs_replace_go old new hne hold hnew s [] (by intro x hx; cases hx)
  simpa [splitWs] using this

/-! ### the substitution loop acts word by word -/

theorem substituteAll_nil_str (subs : List (Str × Str)) : substituteAll subs [] = [] := by
  induction subs with
  | nil => rfl
  | cons kv rest ih => simpa [substituteAll, replace_nil] using ih

theorem substituteAll_cons (kv : Str × Str) (rest : List (Str × Str)) (s : Str) :
    substituteAll (kv :: rest) s = substituteAll rest (replace kv.1 kv.2 s) := rfl

theorem filter_map_filter (f : Str → Str) (hf : f [] = []) (l : List Str) :
    ((l.filter nonEmpty).map f).filter nonEmpty = (l.map f).filter nonEmpty := by
  induction l with
  | nil => rfl
  | cons x xs ih =>
    by_cases hx : x = []
    · subst hx
      simp [List.filter, nonEmpty, hf, ih]
    · have : nonEmpty x = true := by simpa [nonEmpty] using hx
      simp only [List.filter_cons, this, if_true, List.map_cons]
      split <;> simp [ih]

/-- the words of the substituted string are the substituted words (empty results vanish) -/
theorem splitWs_substituteAll (subs : List (Str × Str))
    (hs : ∀ kv ∈ subs, kv.1 ≠ [] ∧ WsFree kv.1 ∧ WsFree kv.2) (s : Str) :
    splitWs (substituteAll subs s) =
      ((splitWs s).map (substituteAll subs)).filter nonEmpty := by
  induction subs generalizing s with
  | nil =>
    have hid : substituteAll ([] : List (Str × Str)) = id := rfl
    rw [hid, List.map_id]
    have : ∀ w ∈ splitWs s, nonEmpty w = true := by
      intro w hw
      simpa [nonEmpty] using (splitWs_words s w hw).1
    exact (List.filter_eq_self.mpr this).symm
  | cons kv rest ih =>
    obtain ⟨h1, h2, h3⟩ := hs kv (by simp)
    rw [substituteAll_cons, ih (fun x hx => hs x (List.mem_cons_of_mem _ hx))]
    rw [splitWs_replace kv.1 kv.2 s h1 h2 h3]
    rw [filter_map_filter _ (substituteAll_nil_str rest), List.map_map]
    rfl

/-! ### the substitution table -/

/-- what `sanitize_paths` replaces a word by, if anything -/
def IsSub (h : Host) (k v : Str) : Prop :=
  isExposed h.ex (wordToPath k) = true ∧ safeName h (wordToPath k) = .ok v

def keysOf (l : List (Str × Str)) : List Str := l.map (·.1)

theorem assocSet_keys_mem (k v : Str) (acc : List (Str × Str)) (x : Str) :
    x ∈ keysOf (assocSet k v acc) ↔ x = k ∨ x ∈ keysOf acc := by
  induction acc with
  | nil => simp [assocSet, keysOf]
  | cons y ys ih =>
    obtain ⟨k', v'⟩ := y
    simp only [assocSet]
    split
    · rename_i hk
      have hk : k' = k := by simpa using hk
      subst hk
      simp [keysOf]
    · simp only [keysOf, List.map_cons, List.mem_cons] at ih ⊢
      rw [ih]
      constructor
      · rintro (h | h | h)
        · exact Or.inr (Or.inl h)
        · exact Or.inl h
        · exact Or.inr (Or.inr h)
      · rintro (h | h | h)
        · exact Or.inr (Or.inl h)
        · exact Or.inl h
        · exact Or.inr (Or.inr h)

theorem assocSet_mem (k v : Str) (acc : List (Str × Str)) (hnd : (keysOf acc).Nodup)
    (kv : Str × Str) (h : kv ∈ assocSet k v acc) : kv = (k, v) ∨ (kv ∈ acc ∧ kv.1 ≠ k) := by
  induction acc with
  | nil => simp only [assocSet, List.mem_singleton] at h; exact Or.inl h
  | cons x xs ih =>
    obtain ⟨k', v'⟩ := x
    simp only [keysOf, List.map_cons, List.nodup_cons] at hnd
    simp only [assocSet] at h
    split at h
    · rename_i hk
      have hk : k' = k := by simpa using hk
      rcases List.mem_cons.mp h with h | h
      · exact Or.inl h
      · refine Or.inr ⟨List.mem_cons_of_mem _ h, ?_⟩
        intro he
        apply hnd.1
        rw [hk, ← he]
        exact List.mem_map.mpr ⟨kv, h, rfl⟩
    · rename_i hk
      rcases List.mem_cons.mp h with h | h
      · subst h
        exact Or.inr ⟨by simp, by simpa using hk⟩
      · rcases ih hnd.2 h with h | h
        · exact Or.inl h
        · exact Or.inr ⟨List.mem_cons_of_mem _ h.1, h.2⟩

theorem assocSet_nodup (k v : Str) (acc : List (Str × Str)) (hnd : (keysOf acc).Nodup) :
    (keysOf (assocSet k v acc)).Nodup := by
  induction acc with
  | nil => simp [assocSet, keysOf]
  | cons x xs ih =>
    obtain ⟨k', v'⟩ := x
    have hnd' := hnd
    simp only [keysOf, List.map_cons, List.nodup_cons] at hnd'
    simp only [assocSet]
    split
    · rename_i hk
      have hk : k' = k := by simpa using hk
      subst hk
      simpa [keysOf] using hnd'
    · rename_i hk
      have hk : k' ≠ k := by simpa using hk
      have := ih hnd'.2
      simp only [keysOf, List.map_cons, List.nodup_cons]
      refine ⟨?_, this⟩
      intro hm
      rcases (assocSet_keys_mem k v xs k').mp hm with h | h
      · exact hk h
      · exact hnd'.1 h

/-- invariant of the table under construction -/
def TableInv (h : Host) (acc : List (Str × Str)) : Prop :=
  (keysOf acc).Nodup ∧ ∀ kv ∈ acc, IsSub h kv.1 kv.2

theorem buildSubs_spec (h : Host) (ws : List Str) (acc subs : List (Str × Str))
    (hinv : TableInv h acc) (hb : buildSubs h ws acc = .ok subs) :
    TableInv h subs ∧
    (∀ w ∈ ws, isExposed h.ex (wordToPath w) = true → w ∈ keysOf subs) ∧
    (∀ x ∈ keysOf acc, x ∈ keysOf subs) ∧
    (∀ x ∈ keysOf subs, x ∈ keysOf acc ∨ x ∈ ws) := by
  induction ws generalizing acc with
  | nil =>
    simp only [buildSubs, Except.ok.injEq] at hb
    subst hb
    exact ⟨hinv, by simp, fun x hx => hx, fun x hx => Or.inl hx⟩
  | cons w rest ih =>
    simp only [buildSubs] at hb
    split at hb
    · rename_i hex
      split at hb
      · rename_i v hv
        have hinv' : TableInv h (assocSet w v acc) := by
          refine ⟨assocSet_nodup w v acc hinv.1, ?_⟩
          intro kv hkv
          rcases assocSet_mem w v acc hinv.1 kv hkv with h1 | h1
          · subst h1; exact ⟨hex, hv⟩
          · exact hinv.2 kv h1.1
        obtain ⟨i1, i2, i3, i4⟩ := ih _ hinv' hb
        refine ⟨i1, ?_, ?_, ?_⟩
        · intro w' hw' hex'
          rcases List.mem_cons.mp hw' with rfl | hw'
          · exact i3 _ ((assocSet_keys_mem _ v acc _).mpr (Or.inl rfl))
          · exact i2 w' hw' hex'
        · intro x hx
          exact i3 x ((assocSet_keys_mem w v acc x).mpr (Or.inr hx))
        · intro x hx
          rcases i4 x hx with h1 | h1
          · rcases (assocSet_keys_mem w v acc x).mp h1 with h2 | h2
            · exact Or.inr (by simp [h2])
            · exact Or.inl h2
          · exact Or.inr (List.mem_cons_of_mem _ h1)
      · cases hb
    · rename_i hex
      obtain ⟨i1, i2, i3, i4⟩ := ih _ hinv hb
      refine ⟨i1, ?_, i3, ?_⟩
      · intro w' hw' hex'
        rcases List.mem_cons.mp hw' with rfl | hw'
        · exact absurd hex' hex
        · exact i2 w' hw' hex'
      · intro x hx
        rcases i4 x hx with h1 | h1
        · exact Or.inl h1
        · exact Or.inr (List.mem_cons_of_mem _ h1)

/-! ### the substitution loop on one word -/

theorem substituteAll_not_infix (subs : List (Str × Str)) (w : Str)
    (h : ∀ kv ∈ subs, ¬ kv.1 <:+: w) : substituteAll subs w = w := by
  induction subs with
  | nil => rfl
  | cons kv rest ih =>
    rw [substituteAll_cons, replace_of_not_infix _ _ _ (h kv (by simp))]
    exact ih (fun x hx => h x (List.mem_cons_of_mem _ hx))

theorem substituteAll_key (subs : List (Str × Str)) (w v : Str) (hne : w ≠ [])
    (hnd : (keysOf subs).Nodup) (hm : (w, v) ∈ subs)
    (h : ∀ kv ∈ subs, kv.1 ≠ w → ¬ kv.1 <:+: w ∧ ¬ kv.1 <:+: v) :
    substituteAll subs w = v := by
  induction subs with
  | nil => cases hm
  | cons kv rest ih =>
    obtain ⟨k, v'⟩ := kv
    simp only [keysOf, List.map_cons, List.nodup_cons] at hnd
    rw [substituteAll_cons]
    by_cases hk : k = w
    · subst hk
      have hv : v' = v := by
        rcases List.mem_cons.mp hm with h1 | h1
        · exact (Prod.mk.inj h1).2.symm
        · exact absurd (List.mem_map.mpr ⟨(k, v), h1, rfl⟩) hnd.1
      subst hv
      simp only
      rw [replace_self k v' hne]
      apply substituteAll_not_infix
      intro kv hkv
      have : kv.1 ≠ k := by
        intro he
        apply hnd.1
        rw [← he]
        exact List.mem_map.mpr ⟨kv, hkv, rfl⟩
      exact (h kv (List.mem_cons_of_mem _ hkv) this).2
    · simp only
      rw [replace_of_not_infix _ _ _ (h (k, v') (by simp) hk).1]
      refine ih hnd.2 ?_ (fun x hx => h x (List.mem_cons_of_mem _ hx))
      rcases List.mem_cons.mp hm with h1 | h1
      · exact absurd (Prod.mk.inj h1).1.symm hk
      · exact h1

/-! ### replacements contain no whitespace -/

theorem splitOnGo_chars (sep : Char) (s cur : Str) :
    ∀ x ∈ splitOnGo sep cur s, ∀ c ∈ x, c ∈ cur ∨ c ∈ s := by
  induction s generalizing cur with
  | nil =>
    intro x hx c hc
    simp only [splitOnGo, List.mem_singleton] at hx
    subst hx; exact Or.inl hc
  | cons y ys ih =>
    intro x hx c hc
    simp only [splitOnGo] at hx
    split at hx
    · rcases List.mem_cons.mp hx with rfl | hx
      · exact Or.inl hc
      · rcases ih [] x hx c hc with h | h
        · cases h
        · exact Or.inr (List.mem_cons_of_mem _ h)
    · rcases ih (cur ++ [y]) x hx c hc with h | h
      · rcases List.mem_append.mp h with h | h
        · exact Or.inl h
        · simp only [List.mem_singleton] at h
          exact Or.inr (by simp [h])
      · exact Or.inr (List.mem_cons_of_mem _ h)

theorem parsePath_parts_chars (s : Str) : ∀ x ∈ (parsePath s).parts, ∀ c ∈ x, c ∈ s := by
  intro x hx c hc
  simp only [parsePath, splitOn, List.mem_filter] at hx
  rcases splitOnGo_chars '/' s [] x hx.1 c hc with h | h
  · cases h
  · exact h

theorem joinSlash_chars (ps : List Str) : ∀ c ∈ joinSlash ps, c = '/' ∨ ∃ p ∈ ps, c ∈ p := by
  intro c hc
  match ps with
  | [] => simp [joinSlash] at hc
  | [p] => exact Or.inr ⟨p, by simp, by simpa [joinSlash] using hc⟩
  | p :: q :: rest =>
    simp only [joinSlash, List.mem_append, List.mem_cons] at hc
    rcases hc with h | h | h
    · exact Or.inr ⟨p, by simp, h⟩
    · exact Or.inl h
    · rcases joinSlash_chars (q :: rest) c h with h1 | ⟨p', hp', hc'⟩
      · exact Or.inl h1
      · exact Or.inr ⟨p', List.mem_cons_of_mem _ hp', hc'⟩

theorem slash_not_ws : isWs '/' = false := by decide
theorem dot_not_ws : isWs '.' = false := by decide

/-- every character of a replacement comes from the quote-stripped word, from the resolved
path, or is '/' or '.' -/
theorem safeName_chars (P : Char → Prop) (hs : P '/') (hd : P '.') (h : Host)
    (hres : ∀ p, ∀ c ∈ h.resolve p, P c) (w v : Str)
    (hw : ∀ c ∈ stripQuotes w, P c) (hv : safeName h (wordToPath w) = .ok v) : ∀ c ∈ v, P c := by
  unfold safeName at hv
  simp only at hv
  split at hv
  · split at hv
    · simp only [Except.ok.injEq] at hv
      subst hv
      split
      · intro c hc
        simp only [List.mem_singleton] at hc
        subst hc; exact hd
      · intro c hc
        rcases joinSlash_chars _ c hc with h1 | ⟨p, hp, hcp⟩
        · subst h1; exact hs
        · exact hres _ c (parsePath_parts_chars _ p (List.mem_of_mem_drop hp) c hcp)
    · cases hv
  · simp only [Except.ok.injEq] at hv
    subst hv
    intro c hc
    unfold Path.name at hc
    cases hl : (wordToPath w).parts.getLast? with
    | none => simp [hl] at hc
    | some x =>
      simp only [hl, Option.getD_some] at hc
      have hx : x ∈ (wordToPath w).parts := List.mem_of_getLast? hl
      exact hw c (parsePath_parts_chars _ x hx c hc)

theorem safeName_wsFree (h : Host) (hres : ∀ p, WsFree (h.resolve p)) (w v : Str)
    (hw : WsFree w) (hv : safeName h (wordToPath w) = .ok v) : WsFree v :=
  safeName_chars (fun c => isWs c = false) slash_not_ws dot_not_ws h hres w v
    (fun c hc => hw c (List.mem_filter.mp hc).1) hv

/-- no quote character (of `_word_to_path`) -/
def QuoteFree (w : Str) : Prop := ∀ c ∈ w, CTM.Generated.quoteChars.contains c = false

theorem stripQuotes_of_quoteFree (w : Str) (h : QuoteFree w) : stripQuotes w = w := by
  unfold stripQuotes
  apply List.filter_eq_self.mpr
  intro c hc
  have := h c hc
  simp only [Bool.not_eq_true', this]

theorem safeName_quoteFree (h : Host) (hres : ∀ p, QuoteFree (h.resolve p)) (w v : Str)
    (hv : safeName h (wordToPath w) = .ok v) : QuoteFree v :=
  safeName_chars (fun c => CTM.Generated.quoteChars.contains c = false) (by decide) (by decide)
    h hres w v (fun c hc => by simpa [stripQuotes] using (List.mem_filter.mp hc).2) hv

end CTM.Sanitize
