import CTM.Lemmas.Tree
namespace CTM.RawTree

/-
  The data-release CSV route (`fromLinks`, CTM/Model/Tree.lean) never builds a
  silently smaller tree: if `fromLinks h rows = .ok t` then every row of the
  hierarchy is a link of `t` at the level the row names, which is the adjacent
  one (`fromLinks_rows_present`), and `t` has no link that comes from no row
  (`fromLinks_links_from_rows`).  Core Lean only.
-/

/-- `c ∈ acc[pl][p]` on a bare list of levels (first entry for `pl`, as `dict` lookup) -/
def HasLink (acc : List (Level × LevelMap)) (pl : Level) (p c : Node) : Prop :=
  ∃ m cs, acc.lookup pl = some m ∧ (p, cs) ∈ m ∧ c ∈ cs

theorem hasLink_nil (pl : Level) (p c : Node) : ¬ HasLink [] pl p c := by
  rintro ⟨m, cs, h, _⟩
  simp [List.lookup] at h

theorem hasLink_addLink {acc : List (Level × LevelMap)} {pl : Level} {p c : Node}
    {pl' : Level} {p' c' : Node} :
    HasLink (addLink acc pl p c) pl' p' c' ↔
      HasLink acc pl' p' c' ∨ (pl' = pl ∧ p' = p ∧ c' = c) := by
  unfold addLink
  cases hl : acc.lookup pl with
  | none =>
    simp only [HasLink, List.lookup_append]
    by_cases hk : pl' = pl
    · subst hk
      simp only [hl, Option.none_or, List.lookup_cons, beq_self_eq_true]
      constructor
      · rintro ⟨m, cs, hm, hmem, hc⟩
        cases hm
        simp only [List.mem_singleton, Prod.mk.injEq] at hmem
        obtain ⟨h1, h2⟩ := hmem
        subst h1; subst h2
        right; simpa using hc
      · rintro (⟨m, cs, hm, _⟩ | ⟨_, h1, h2⟩)
        · cases hm
        · subst h1; subst h2
          exact ⟨_, [c'], rfl, by simp, by simp⟩
    · have hk' : (pl' == pl) = false := by simpa using hk
      have : List.lookup pl' [(pl, [(p, [c])])] = none := by
        simp [List.lookup, hk']
      simp only [this, Option.or_none, hk, false_and, or_false]
  | some m0 =>
    simp only [HasLink, lookup_setLevel]
    by_cases hk : pl' = pl
    · subst hk
      simp only [if_true, hl, Option.map_some, true_and]
      constructor
      · rintro ⟨m, cs, hm, hmem, hc⟩
        cases hm
        rcases mem_val_dictAdd.1 ⟨cs, hmem, hc⟩ with ⟨vs, h1, h2⟩ | ⟨h1, h2⟩
        · exact Or.inl ⟨m0, vs, rfl, h1, h2⟩
        · exact Or.inr ⟨h1, h2⟩
      · rintro (⟨m, cs, hm, hmem, hc⟩ | ⟨h1, h2⟩)
        · cases hm
          obtain ⟨vs, h1, h2⟩ := (mem_val_dictAdd (m := m0) (k := p) (v := c) (s := true)).2
            (Or.inl ⟨cs, hmem, hc⟩)
          exact ⟨_, vs, rfl, h1, h2⟩
        · obtain ⟨vs, h3, h4⟩ := (mem_val_dictAdd (m := m0) (k := p) (v := c) (s := true)
            (k' := p') (v' := c')).2 (Or.inr ⟨h1, h2⟩)
          exact ⟨_, vs, rfl, h3, h4⟩
    · simp only [hk, if_false, false_and, or_false]

theorem lookup_map_val {β γ} (f : β → γ) (k : Level) :
    ∀ (acc : List (Level × β)), (acc.map (fun lm => (lm.1, f lm.2))).lookup k = (acc.lookup k).map f
  | [] => rfl
  | (k', v) :: acc => by
    simp only [List.map_cons, List.lookup_cons]
    cases hk : (k == k')
    · simp only [lookup_map_val f k acc]
    · rfl

theorem hasLink_sorted {acc : List (Level × LevelMap)} {pl : Level} {p c : Node} :
    HasLink (acc.map (fun (l, m) => (l, m.map (fun (n, cs) => (n, sortNat cs))))) pl p c ↔
      HasLink acc pl p c := by
  have key : (acc.map (fun (l, m) => (l, m.map (fun (n, cs) => (n, sortNat cs))))) =
      acc.map (fun lm => (lm.1, (fun (m : LevelMap) => m.map (fun (n, cs) => (n, sortNat cs))) lm.2)) :=
    rfl
  unfold HasLink
  rw [key, lookup_map_val]
  constructor
  · rintro ⟨m, cs, hm, hmem, hc⟩
    cases hl : acc.lookup pl with
    | none => simp [hl] at hm
    | some m0 =>
      simp only [hl, Option.map_some, Option.some.injEq] at hm
      subst hm
      obtain ⟨⟨n, cs0⟩, h1, h2⟩ := List.mem_map.1 hmem
      simp only [Prod.mk.injEq] at h2
      obtain ⟨h3, h4⟩ := h2
      subst h3; subst h4
      exact ⟨m0, cs0, rfl, h1, mem_sortNat.1 hc⟩
  · rintro ⟨m, cs, hm, hmem, hc⟩
    refine ⟨_, sortNat cs, by rw [hm]; rfl, ?_, mem_sortNat.2 hc⟩
    exact List.mem_map.2 ⟨(p, cs), hmem, rfl⟩


/-! ### `get_tree_above_leaves` -/

/-- the link a row asks for -/
def RowLink (h : List Level) (rows : List LinkRow) (pl : Level) (p c : Node) : Prop :=
  ∃ r ∈ rows, r.label = c ∧ r.parent = p ∧ r.parentLevel = pl ∧ levelAbove h r.level = some pl

/-- a row whose level has a level above it in the hierarchy: its parent level is that level -/
theorem treeAboveLeaves_parentLevel {h : List Level} :
    ∀ {rows : List LinkRow} {acc res : List (Level × LevelMap)},
      treeAboveLeaves h rows acc = .ok res →
      ∀ r ∈ rows, ∀ pl, levelAbove h r.level = some pl → r.parentLevel = pl
  | [], _, _, _, r, hr, _, _ => by cases hr
  | r0 :: rs, acc, res, ht, r, hr, pl, hpl => by
    rw [treeAboveLeaves] at ht
    cases hl : levelAbove h r0.level with
    | none =>
      simp only [hl] at ht
      rcases List.mem_cons.1 hr with rfl | hr'
      · rw [hl] at hpl; cases hpl
      · exact treeAboveLeaves_parentLevel ht r hr' pl hpl
    | some pl0 =>
      simp only [hl] at ht
      by_cases hb : r0.parentLevel = pl0
      · simp only [hb, bne_self_eq_false, Bool.false_eq_true, if_false] at ht
        rcases List.mem_cons.1 hr with rfl | hr'
        · rw [hl] at hpl; cases hpl; exact hb
        · exact treeAboveLeaves_parentLevel ht r hr' pl hpl
      · have : (r0.parentLevel != pl0) = true := by simpa using hb
        simp [this] at ht

/-- the links of the result: those of the accumulator and those of the rows -/
theorem treeAboveLeaves_hasLink {h : List Level} :
    ∀ {rows : List LinkRow} {acc res : List (Level × LevelMap)},
      treeAboveLeaves h rows acc = .ok res →
      ∀ pl p c, HasLink res pl p c ↔ HasLink acc pl p c ∨ RowLink h rows pl p c
  | [], acc, res, ht, pl, p, c => by
    rw [treeAboveLeaves] at ht
    cases ht
    rw [hasLink_sorted]
    simp [RowLink]
  | r0 :: rs, acc, res, ht, pl, p, c => by
    rw [treeAboveLeaves] at ht
    have hcons : RowLink h (r0 :: rs) pl p c ↔
        (r0.label = c ∧ r0.parent = p ∧ r0.parentLevel = pl ∧ levelAbove h r0.level = some pl) ∨
          RowLink h rs pl p c := by
      simp [RowLink]
    cases hl : levelAbove h r0.level with
    | none =>
      simp only [hl] at ht
      rw [treeAboveLeaves_hasLink ht, hcons, hl]
      simp
    | some pl0 =>
      simp only [hl] at ht
      by_cases hb : r0.parentLevel = pl0
      · simp only [hb, bne_self_eq_false, Bool.false_eq_true, if_false] at ht
        rw [treeAboveLeaves_hasLink ht, hasLink_addLink, hcons, hl, hb]
        constructor
        · rintro ((h1 | ⟨h1, h2, h3⟩) | h1)
          · exact Or.inl h1
          · subst h1; subst h2; subst h3
            exact Or.inr (Or.inl ⟨rfl, rfl, rfl, rfl⟩)
          · exact Or.inr (Or.inr h1)
        · rintro (h1 | ⟨h1, h2, h3, _⟩ | h1)
          · exact Or.inl (Or.inl h1)
          · exact Or.inl (Or.inr ⟨h3.symm, h2.symm, h1.symm⟩)
          · exact Or.inr h1
      · have : (r0.parentLevel != pl0) = true := by simpa using hb
        simp [this] at ht

/-- … and the link is in the result -/
theorem treeAboveLeaves_mem {h : List Level} {rows : List LinkRow}
    {acc res : List (Level × LevelMap)} (ht : treeAboveLeaves h rows acc = .ok res) :
    ∀ r ∈ rows, ∀ pl, levelAbove h r.level = some pl →
      ∃ m cs, res.lookup pl = some m ∧ (r.parent, cs) ∈ m ∧ r.label ∈ cs := by
  intro r hr pl hpl
  exact (treeAboveLeaves_hasLink ht pl r.parent r.label).2
    (Or.inr ⟨r, hr, rfl, rfl, treeAboveLeaves_parentLevel ht r hr pl hpl, hpl⟩)

/-- every link already in the accumulator stays in the result -/
theorem treeAboveLeaves_keeps {h : List Level} {rows : List LinkRow}
    {acc res : List (Level × LevelMap)} (ht : treeAboveLeaves h rows acc = .ok res) :
    ∀ pl p c, (∃ m cs, acc.lookup pl = some m ∧ (p, cs) ∈ m ∧ c ∈ cs) →
      ∃ m cs, res.lookup pl = some m ∧ (p, cs) ∈ m ∧ c ∈ cs :=
  fun pl p c hc => (treeAboveLeaves_hasLink ht pl p c).2 (Or.inl hc)

/-- converse: nothing is invented -/
theorem treeAboveLeaves_sound {h : List Level} {rows : List LinkRow}
    {acc res : List (Level × LevelMap)} (ht : treeAboveLeaves h rows acc = .ok res) :
    ∀ pl m p cs c, res.lookup pl = some m → (p, cs) ∈ m → c ∈ cs →
      (∃ m' cs', acc.lookup pl = some m' ∧ (p, cs') ∈ m' ∧ c ∈ cs') ∨
        ∃ r ∈ rows, r.label = c ∧ r.parent = p ∧ r.parentLevel = pl ∧
          levelAbove h r.level = some pl :=
  fun pl m p cs c h1 h2 h3 => (treeAboveLeaves_hasLink ht pl p c).1 ⟨m, cs, h1, h2, h3⟩

/-! ### `levelAbove` against `levelPairs` -/

theorem levelPairs_fst_unique {h : List Level} (hn : h.Nodup) {pl cl cl' : Level}
    (h1 : (pl, cl) ∈ levelPairs h) (h2 : (pl, cl') ∈ levelPairs h) : cl = cl' := by
  obtain ⟨i, hi, hi1, hi2⟩ := idx_of_mem_levelPairs h1
  obtain ⟨j, hj, hj1, hj2⟩ := idx_of_mem_levelPairs h2
  have hij : i = j := (List.getElem_inj hn).1 (hi1.trans hj1.symm)
  subst hij
  exact hi2.symm.trans hj2

theorem levelPairs_snd_unique {h : List Level} (hn : h.Nodup) {pl pl' cl : Level}
    (h1 : (pl, cl) ∈ levelPairs h) (h2 : (pl', cl) ∈ levelPairs h) : pl = pl' := by
  obtain ⟨i, hi, hi1, hi2⟩ := idx_of_mem_levelPairs h1
  obtain ⟨j, hj, hj1, hj2⟩ := idx_of_mem_levelPairs h2
  have hij : i + 1 = j + 1 := (List.getElem_inj hn).1 (hi2.trans hj2.symm)
  have hij' : i = j := by omega
  subst hij'
  exact hi1.symm.trans hj1

/-- the first components of `levelPairs h` are distinct -/
theorem levelPairs_fst_nodup {h : List Level} (hn : h.Nodup) :
    ((levelPairs h).map (·.1)).Nodup := by
  exact hn.sublist (map_fst_zip_prefix h h.tail).sublist

theorem levelAbove_mem {h : List Level} {l pl : Level} (ha : levelAbove h l = some pl) :
    (pl, l) ∈ levelPairs h := by
  unfold levelAbove at ha
  cases hf : (levelPairs h).reverse.find? (fun p => p.2 == l) with
  | none => simp [hf] at ha
  | some x =>
    simp only [hf, Option.map_some, Option.some.injEq] at ha
    have h1 := List.find?_some hf
    have h2 := List.mem_reverse.1 (List.mem_of_find?_eq_some hf)
    have h3 : x.2 = l := by simpa using h1
    obtain ⟨a, b⟩ := x
    simp only at ha h3
    subst ha; subst h3
    exact h2

/-- with distinct level names, `child_to_parent[l]` is the level directly above `l` -/
theorem levelAbove_eq_some_iff {h : List Level} (hn : h.Nodup) {l pl : Level} :
    levelAbove h l = some pl ↔ (pl, l) ∈ levelPairs h := by
  refine ⟨levelAbove_mem, fun hm => ?_⟩
  cases ha : levelAbove h l with
  | none =>
    unfold levelAbove at ha
    simp only [Option.map_eq_none_iff, List.find?_eq_none] at ha
    have := ha (pl, l) (List.mem_reverse.2 hm)
    simp at this
  | some pl' =>
    rw [levelPairs_snd_unique hn (levelAbove_mem ha) hm]

/-! ### `pickLevels` -/

theorem pickLevels_lookup {rough : List (Level × LevelMap)} :
    ∀ {ps : List (Level × Level)} {above : List (Level × LevelMap)},
      pickLevels rough ps = .ok above → ∀ pl, pl ∈ ps.map (·.1) →
        above.lookup pl = rough.lookup pl ∧ ∃ m, rough.lookup pl = some m
  | [], _, _, pl, hpl => by cases hpl
  | (pl0, cl0) :: ps, above, hp, pl, hpl => by
    rw [pickLevels] at hp
    cases hl : rough.lookup pl0 with
    | none => simp [hl] at hp
    | some m =>
      simp only [hl] at hp
      cases hr : pickLevels rough ps with
      | error e => simp [hr] at hp
      | ok rest =>
        simp only [hr, Except.ok.injEq] at hp
        subst hp
        by_cases hk : pl = pl0
        · subst hk
          simp [hl]
        · have hk' : (pl == pl0) = false := by simpa using hk
          simp only [List.lookup_cons, hk']
          have : pl ∈ ps.map (·.1) := by
            simp only [List.map_cons, List.mem_cons] at hpl
            rcases hpl with h1 | h1
            · exact absurd h1 hk
            · exact h1
          exact pickLevels_lookup hr pl this

/-! ### `from_data_release` without cell metadata -/

theorem fromLinks_ok {h : List Level} {rows : List LinkRow} {t : RawTree}
    (ht : fromLinks h rows = .ok t) :
    t.validate = .ok () ∧ t.hierarchy = h ∧ fromLinksRaw h rows = .ok t := by
  unfold fromLinks at ht
  cases hr : fromLinksRaw h rows with
  | error e => simp [hr] at ht
  | ok t' =>
    simp only [hr] at ht
    cases hv : t'.validate with
    | error e => simp [hv] at ht
    | ok u =>
      simp only [hv, Except.ok.injEq] at ht
      subst ht
      refine ⟨hv, ?_, rfl⟩
      unfold fromLinksRaw at hr
      cases h1 : treeAboveLeaves h rows [] with
      | error e => simp [h1] at hr
      | ok rough =>
        simp only [h1] at hr
        cases h2 : pickLevels rough (levelPairs h) with
        | error e => simp [h2] at hr
        | ok above =>
          simp only [h2] at hr
          split at hr
          · simp only [Except.ok.injEq] at hr
            rw [← hr]
          · cases hr

/-- the shape of the raw result: the picked levels, then the leaf level -/
theorem fromLinksRaw_shape {h : List Level} {rows : List LinkRow} {t : RawTree}
    (hr : fromLinksRaw h rows = .ok t) :
    ∃ rough above leaf lm, treeAboveLeaves h rows [] = .ok rough ∧
      pickLevels rough (levelPairs h) = .ok above ∧ t.levels = above ++ [(leaf, lm)] := by
  unfold fromLinksRaw at hr
  cases h1 : treeAboveLeaves h rows [] with
  | error e => simp [h1] at hr
  | ok rough =>
    simp only [h1] at hr
    cases h2 : pickLevels rough (levelPairs h) with
    | error e => simp [h2] at hr
    | ok above =>
      simp only [h2] at hr
      split at hr
      · simp only [Except.ok.injEq] at hr
        exact ⟨rough, above, _, _, rfl, h2, by rw [← hr]⟩
      · cases hr

/-- a non-leaf level of the built tree is the level dict of the rough tree -/
theorem fromLinksRaw_level {h : List Level} {rows : List LinkRow} {t : RawTree}
    (hr : fromLinksRaw h rows = .ok t) {pl cl : Level} (hm : (pl, cl) ∈ levelPairs h) :
    ∃ rough, treeAboveLeaves h rows [] = .ok rough ∧ rough.lookup pl = some (t.level pl) := by
  obtain ⟨rough, above, leaf, lm, h1, h2, h3⟩ := fromLinksRaw_shape hr
  refine ⟨rough, h1, ?_⟩
  obtain ⟨h4, m, h5⟩ := pickLevels_lookup h2 pl (List.mem_map.2 ⟨(pl, cl), hm, rfl⟩)
  unfold level
  rw [h3, List.lookup_append, h4, h5]
  simp

/-- MAIN: every row of the hierarchy is in the tree, at the level the row names, which is
the adjacent one -/
theorem fromLinks_rows_present {h : List Level} {rows : List LinkRow} {t : RawTree}
    (ht : fromLinks h rows = .ok t) :
    ∀ r ∈ rows, ∀ pl, (pl, r.level) ∈ levelPairs h →
      r.parentLevel = pl ∧ IsChild t pl r.parent r.label := by
  intro r hr pl hm
  obtain ⟨hv, hh, hraw⟩ := fromLinks_ok ht
  have hn : h.Nodup := hh ▸ hierarchy_nodup_of_validate hv
  have ha := (levelAbove_eq_some_iff hn).2 hm
  obtain ⟨rough, h1, h2⟩ := fromLinksRaw_level hraw hm
  refine ⟨treeAboveLeaves_parentLevel h1 r hr pl ha, ?_⟩
  obtain ⟨m, cs, h3, h4, h5⟩ := treeAboveLeaves_mem h1 r hr pl ha
  rw [h2] at h3
  cases h3
  exact ⟨cs, h4, h5⟩

/-- MAIN, converse: the tree has no link that comes from no row -/
theorem fromLinks_links_from_rows {h : List Level} {rows : List LinkRow} {t : RawTree}
    (ht : fromLinks h rows = .ok t) :
    ∀ pl cl, (pl, cl) ∈ levelPairs h → ∀ p c, IsChild t pl p c →
      ∃ r ∈ rows, r.label = c ∧ r.level = cl ∧ r.parent = p ∧ r.parentLevel = pl := by
  rintro pl cl hm p c ⟨cs, hcs, hc⟩
  obtain ⟨hv, hh, hraw⟩ := fromLinks_ok ht
  have hn : h.Nodup := hh ▸ hierarchy_nodup_of_validate hv
  obtain ⟨rough, h1, h2⟩ := fromLinksRaw_level hraw hm
  rcases treeAboveLeaves_sound h1 pl _ p cs c h2 hcs hc with ⟨m', cs', h3, _⟩ | ⟨r, hr, e1, e2, e3, e4⟩
  · simp [List.lookup] at h3
  · exact ⟨r, hr, e1, levelPairs_fst_unique hn (levelAbove_mem e4) hm, e2, e3⟩

end CTM.RawTree
