/-
  Lemmas about the Holm model (`CTM/Model/Holm.lean`).
-/
import Mathlib.Tactic.Linarith
import Mathlib.Tactic.Ring
import Mathlib.Algebra.Order.Field.Rat
import CTM.Model.Holm

namespace CTM.Holm

/-! ### lengths and element-wise descriptions -/

@[simp] theorem length_scaled (m : Rat) (v : List Rat) : (scaled m v).length = v.length := by
  induction v generalizing m with
  | nil => rfl
  | cons x xs ih => simp [scaled, ih]

@[simp] theorem length_cumMaxFrom (a : Rat) (l : List Rat) : (cumMaxFrom a l).length = l.length := by
  induction l generalizing a with
  | nil => rfl
  | cons x xs ih => simp [cumMaxFrom, ih]

@[simp] theorem length_cumMax (l : List Rat) : (cumMax l).length = l.length := by
  cases l with
  | nil => rfl
  | cons x xs => simp [cumMax]

theorem cumMax_cons (x : Rat) (xs : List Rat) : cumMax (x :: xs) = cumMaxFrom x (x :: xs) := by
  simp [cumMax, cumMaxFrom]

@[simp] theorem length_gather (o : List Nat) (p : List Rat) : (gather o p).length = o.length := by
  simp [gather]

theorem scaled_getElem? (m : Rat) (v : List Rat) (k : Nat) :
    (scaled m v)[k]? = v[k]?.map (fun x => x * (m - k)) := by
  induction v generalizing m k with
  | nil => simp [scaled]
  | cons x xs ih =>
    cases k with
    | zero => simp [scaled]
    | succ k =>
      simp only [scaled, List.getElem?_cons_succ, ih]
      congr 1; funext y; push_cast; ring

theorem scaled_append (m : Rat) (l₁ l₂ : List Rat) :
    scaled m (l₁ ++ l₂) = scaled m l₁ ++ scaled (m - l₁.length) l₂ := by
  induction l₁ generalizing m with
  | nil => simp [scaled]
  | cons x xs ih =>
    simp only [List.cons_append, scaled, ih, List.length_cons]
    congr 3; push_cast; ring

/-- the running maximum dominates the current entry -/
theorem le_cumMaxFrom (a : Rat) (l : List Rat) (k : Nat) (x c : Rat)
    (hx : l[k]? = some x) (hc : (cumMaxFrom a l)[k]? = some c) : x ≤ c := by
  induction l generalizing a k with
  | nil => simp at hx
  | cons y ys ih =>
    cases k with
    | zero =>
      simp only [cumMaxFrom, List.getElem?_cons_zero, Option.some.injEq] at hx hc
      subst hx; subst hc; exact le_max_right _ _
    | succ k =>
      simp only [cumMaxFrom, List.getElem?_cons_succ] at hx hc
      exact ih _ _ hx hc

theorem cumMaxFrom_append_getElem? (a : Rat) (s₁ s₂ : List Rat) (k : Nat) (hk : k < s₁.length) :
    (cumMaxFrom a (s₁ ++ s₂))[k]? = (cumMaxFrom a s₁)[k]? := by
  induction s₁ generalizing a k with
  | nil => simp at hk
  | cons y ys ih =>
    cases k with
    | zero => simp [cumMaxFrom]
    | succ k =>
      simp only [List.cons_append, cumMaxFrom, List.getElem?_cons_succ]
      exact ih _ _ (by simpa using hk)

theorem cumMax_append_getElem? (s₁ s₂ : List Rat) (k : Nat) (hk : k < s₁.length) :
    (cumMax (s₁ ++ s₂))[k]? = (cumMax s₁)[k]? := by
  cases s₁ with
  | nil => simp at hk
  | cons y ys =>
    rw [List.cons_append, cumMax_cons, cumMax_cons, ← List.cons_append]
    exact cumMaxFrom_append_getElem? _ _ _ _ hk

/-! ### ties: the running maximum is constant on a block of equal p-values -/

/-- if the next `k+1` sorted p-values all equal `x ≥ 0` and the running maximum is already
`≥ x * m`, it is still `a` after them (the multiplier only decreases) -/
theorem cumMaxFrom_const (a m x : Rat) (xs : List Rat) (k : Nat) (hx : 0 ≤ x) (ha : x * m ≤ a)
    (hall : ∀ j, j ≤ k → xs[j]? = some x) :
    (cumMaxFrom a (scaled m xs))[k]? = some a := by
  induction k generalizing a m xs with
  | zero =>
    cases xs with
    | nil => simpa using hall 0 (Nat.le_refl _)
    | cons y ys =>
      have hy : y = x := by simpa using hall 0 (Nat.le_refl _)
      subst hy
      simp [scaled, cumMaxFrom, max_eq_left ha]
  | succ k ih =>
    cases xs with
    | nil => simpa using hall 0 (Nat.zero_le _)
    | cons y ys =>
      have hy : y = x := by simpa using hall 0 (Nat.zero_le _)
      subst hy
      simp only [scaled, cumMaxFrom, List.getElem?_cons_succ, max_eq_left ha]
      apply ih
      · nlinarith
      · intro j hj
        simpa using hall (j + 1) (by omega)

/-- in a sorted list, everything between two equal entries is equal to them -/
theorem sorted_block {v : List Rat} (hs : v.Pairwise (· ≤ ·)) {k k' : Nat} {x : Rat}
    (hk : v[k]? = some x) (hk' : v[k']? = some x) (j : Nat) (h1 : k ≤ j) (h2 : j ≤ k') :
    v[j]? = some x := by
  have hk'lt : k' < v.length := (List.getElem?_eq_some_iff.mp hk').1
  have hklt : k < v.length := (List.getElem?_eq_some_iff.mp hk).1
  have hjlt : j < v.length := by omega
  have ek : v[k] = x := (List.getElem?_eq_some_iff.mp hk).2
  have ek' : v[k'] = x := (List.getElem?_eq_some_iff.mp hk').2
  rw [List.getElem?_eq_getElem hjlt]
  congr 1
  rw [List.pairwise_iff_getElem] at hs
  have a1 : x ≤ v[j] := by
    rcases Nat.lt_or_eq_of_le h1 with h | h
    · rw [← ek]; exact hs k j hklt hjlt h
    · subst h; exact le_of_eq ek.symm
  have a2 : v[j] ≤ x := by
    rcases Nat.lt_or_eq_of_le h2 with h | h
    · rw [← ek']; exact hs j k' hjlt hk'lt h
    · subst h; exact le_of_eq ek'
  exact le_antisymm a2 a1

theorem cumMaxFrom_block (a m : Rat) (v : List Rat) (hs : v.Pairwise (· ≤ ·))
    (h0 : ∀ x ∈ v, 0 ≤ x) (k k' : Nat) (hkk : k ≤ k') (x : Rat)
    (hk : v[k]? = some x) (hk' : v[k']? = some x) :
    (cumMaxFrom a (scaled m v))[k]? = (cumMaxFrom a (scaled m v))[k']? := by
  induction v generalizing a m k k' with
  | nil => simp at hk
  | cons y ys ih =>
    have hs' : ys.Pairwise (· ≤ ·) := (List.pairwise_cons.mp hs).2
    have h0' : ∀ x ∈ ys, 0 ≤ x := fun x hx => h0 x (List.mem_cons_of_mem _ hx)
    cases k with
    | zero =>
      cases k' with
      | zero => rfl
      | succ j =>
        have hy : y = x := by simpa using hk
        subst hy
        have hy0 : 0 ≤ y := h0 y (List.mem_cons_self ..)
        simp only [scaled, cumMaxFrom, List.getElem?_cons_zero, List.getElem?_cons_succ]
        symm
        apply cumMaxFrom_const _ _ y _ _ hy0
        · have : y * m ≤ max a (y * m) := le_max_right _ _
          nlinarith
        · intro i hi
          have := sorted_block hs (k := 0) (k' := j + 1) (x := y) (by simp) hk' (i + 1)
            (Nat.zero_le _) (by omega)
          simpa using this
    | succ i =>
      cases k' with
      | zero => omega
      | succ j =>
        simp only [scaled, cumMaxFrom, List.getElem?_cons_succ]
        simp only [List.getElem?_cons_succ] at hk hk'
        exact ih _ _ hs' h0' i j (by omega) hk hk'

/-- **tie lemma**: positions of a sorted non-negative list that carry the same value get the
same Holm running maximum -/
theorem cumMax_block (m : Rat) (v : List Rat) (hs : v.Pairwise (· ≤ ·))
    (h0 : ∀ x ∈ v, 0 ≤ x) (k k' : Nat) (x : Rat)
    (hk : v[k]? = some x) (hk' : v[k']? = some x) :
    (cumMax (scaled m v))[k]? = (cumMax (scaled m v))[k']? := by
  cases v with
  | nil => simp at hk
  | cons y ys =>
    have key : ∀ k k' : Nat, k ≤ k' → (y :: ys)[k]? = some x → (y :: ys)[k']? = some x →
        (cumMax (scaled m (y :: ys)))[k]? = (cumMax (scaled m (y :: ys)))[k']? := by
      intro k k' hkk hk hk'
      have e : cumMax (scaled m (y :: ys)) = cumMaxFrom (y * m) (scaled m (y :: ys)) := by
        simp [scaled, cumMax_cons]
      rw [e]
      exact cumMaxFrom_block _ _ _ hs h0 k k' hkk x hk hk'
    rcases Nat.le_total k k' with h | h
    · exact key k k' h hk hk'
    · exact (key k' k h hk' hk).symm

/-! ### argsort, gather, scatter -/

theorem map_getD_range (p : List Rat) : (List.range p.length).map (fun i => p.getD i 0) = p := by
  apply List.ext_getElem
  · simp
  · intro i h1 h2
    simp [List.getD_eq_getElem?_getD, List.getElem?_eq_getElem (by simpa using h1 : i < p.length)]

theorem gather_perm {o : List Nat} {p : List Rat} (h : o.Perm (List.range p.length)) :
    (gather o p).Perm p := by
  have := h.map (fun i => p.getD i 0)
  rwa [map_getD_range] at this

/-- the sorted gather is the same list whatever the tie order -/
theorem gather_unique {o₁ o₂ : List Nat} {p : List Rat} (h₁ : IsArgsort o₁ p) (h₂ : IsArgsort o₂ p) :
    gather o₁ p = gather o₂ p :=
  List.Perm.eq_of_pairwise (fun _ _ _ _ h1 h2 => le_antisymm h1 h2) h₁.2 h₂.2
    ((gather_perm h₁.1).trans (gather_perm h₂.1).symm)

theorem lookup_zip (o : List Nat) (c : List Rat) (i : Nat) (hlen : o.length = c.length)
    (hi : i ∈ o) : (o.zip c).lookup i = c[o.idxOf i]? := by
  induction o generalizing c with
  | nil => simp at hi
  | cons a as ih =>
    cases c with
    | nil => simp at hlen
    | cons x xs =>
      by_cases h : i = a
      · subst h; simp
      · have hi' : i ∈ as := by
          rcases List.mem_cons.mp hi with h' | h'
          · exact absurd h' h
          · exact h'
        have hne : (i == a) = false := by simpa using h
        have hne' : (a == i) = false := by simpa using (fun e : a = i => h e.symm)
        simp only [List.zip_cons_cons, List.lookup_cons, hne, List.idxOf_cons, hne', cond_false,
          List.getElem?_cons_succ]
        exact ih xs (by simpa using hlen) hi'

theorem lookup_zip_none (o : List Nat) (c : List Rat) (i : Nat) (hi : i ∉ o) :
    (o.zip c).lookup i = none := by
  induction o generalizing c with
  | nil => simp
  | cons a as ih =>
    cases c with
    | nil => simp
    | cons x xs =>
      have h : i ≠ a := fun e => hi (e ▸ List.mem_cons_self ..)
      have hne : (i == a) = false := by simpa using h
      simp only [List.zip_cons_cons, List.lookup_cons, hne]
      exact ih xs (fun h' => hi (List.mem_cons_of_mem _ h'))

theorem gather_getElem?_idxOf (o : List Nat) (p : List Rat) (i : Nat) (hi : i ∈ o) :
    (gather o p)[o.idxOf i]? = some (p.getD i 0) := by
  have hlt : o.idxOf i < o.length := List.idxOf_lt_length_of_mem hi
  simp [gather, List.getElem?_map, List.getElem?_eq_getElem hlt, List.getElem_idxOf hlt]

theorem mem_of_argsort {o : List Nat} {p : List Rat} (h : IsArgsort o p) {i : Nat}
    (hi : i < p.length) : i ∈ o := h.1.mem_iff.mpr (List.mem_range.mpr hi)

theorem length_of_argsort {o : List Nat} {p : List Rat} (h : IsArgsort o p) :
    o.length = p.length := by simpa using h.1.length_eq

theorem nonneg_gather {o : List Nat} {p : List Rat} (h : IsArgsort o p) (h0 : ∀ x ∈ p, 0 ≤ x) :
    ∀ x ∈ gather o p, 0 ≤ x := fun x hx => h0 x ((gather_perm h.1).mem_iff.mp hx)

/-- the value scattered to slot `i` is the running maximum at any position whose sorted
p-value is `p[i]` -/
theorem scatter_slot {o : List Nat} {p : List Rat} (h : IsArgsort o p) (h0 : ∀ x ∈ p, 0 ≤ x)
    (m : Rat) (i : Nat) (hi : i < p.length) (k : Nat)
    (hk : (gather o p)[k]? = some (p.getD i 0)) :
    ((o.zip (cumMax (scaled m (gather o p)))).lookup i) = (cumMax (scaled m (gather o p)))[k]? := by
  have him := mem_of_argsort h hi
  rw [lookup_zip _ _ _ (by simp) him]
  exact cumMax_block m _ h.2 (nonneg_gather h h0) _ _ _ (gather_getElem?_idxOf o p i him) hk


@[simp] theorem length_correctTtestWith (o : List Nat) (p : List Rat) (pad : Nat) :
    (correctTtestWith o p pad).length = p.length := by
  simp [correctTtestWith, scatter]

/-- slot `i` of `correct_ttest` -/
theorem correctTtestWith_slot {o : List Nat} {p : List Rat} (h : IsArgsort o p)
    (h0 : ∀ x ∈ p, 0 ≤ x) (pad : Nat) (i : Nat) (hi : i < p.length) (k : Nat)
    (hk : (gather o p)[k]? = some (p.getD i 0)) :
    (correctTtestWith o p pad)[i]? =
      some (cap1 (((cumMax (scaled ((p.length + pad : Nat) : Rat) (gather o p)))[k]?).getD 0)) := by
  simp only [correctTtestWith, scatter, List.getElem?_map, List.getElem?_range hi, Option.map_some]
  rw [scatter_slot h h0 _ i hi k hk]

/-- `correct_ttest` does not depend on the order `argsort` gives to equal p-values -/
theorem correctTtestWith_perm (p : List Rat) (pad : Nat) (o₁ o₂ : List Nat)
    (h₁ : IsArgsort o₁ p) (h₂ : IsArgsort o₂ p) (h0 : ∀ x ∈ p, 0 ≤ x) :
    correctTtestWith o₁ p pad = correctTtestWith o₂ p pad := by
  apply List.ext_getElem?
  intro i
  by_cases hi : i < p.length
  · have hk := gather_getElem?_idxOf o₁ p i (mem_of_argsort h₁ hi)
    rw [correctTtestWith_slot h₁ h0 pad i hi _ hk]
    rw [gather_unique h₁ h₂] at hk
    rw [correctTtestWith_slot h₂ h0 pad i hi _ hk, gather_unique h₁ h₂]
  · rw [List.getElem?_eq_none (by simpa using hi), List.getElem?_eq_none (by simpa using hi)]

/-! ### the restricted correction (`approx_correct_ttest`) -/

theorem sub_eq_filter (p : List Rat) (th : Rat) :
    gather (interestingIdx p th) p = p.filter (fun x => decide (x < th)) := by
  simp only [gather, interestingIdx]
  conv_rhs => rw [← map_getD_range p]
  rw [List.filter_map]
  rfl

/-- a sorted list is its `< th` part followed by the rest -/
theorem sorted_split (v : List Rat) (hs : v.Pairwise (· ≤ ·)) (th : Rat) :
    v = v.filter (fun x => decide (x < th)) ++ v.filter (fun x => !decide (x < th)) := by
  induction v with
  | nil => simp
  | cons y ys ih =>
    have hs' := (List.pairwise_cons.mp hs).2
    have hy := (List.pairwise_cons.mp hs).1
    by_cases h : y < th
    · simp only [List.filter_cons, h, decide_true, Bool.not_true]
      simp only [Bool.false_eq_true, if_false, if_true]
      exact congrArg _ (ih hs')
    · have hall : ∀ z ∈ ys, ¬ z < th := fun z hz hlt => h (lt_of_le_of_lt (hy z hz) hlt)
      have e1 : ys.filter (fun x => decide (x < th)) = [] := by
        apply List.filter_eq_nil_iff.mpr
        intro z hz; simpa using hall z hz
      have e2 : ys.filter (fun x => !decide (x < th)) = ys := by
        apply List.filter_eq_self.mpr
        intro z hz; simpa using hall z hz
      simp [h, e1, e2]

@[simp] theorem length_approx (o' : List Nat) (p : List Rat) (th : Rat) :
    (approxCorrectTtestWith o' p th).length = p.length := by
  simp [approxCorrectTtestWith]

theorem mem_interestingIdx {p : List Rat} {th : Rat} {i : Nat} :
    i ∈ interestingIdx p th ↔ i < p.length ∧ p.getD i 0 < th := by
  simp [interestingIdx]

theorem le_cumMax (l : List Rat) (k : Nat) (x c : Rat)
    (hx : l[k]? = some x) (hc : (cumMax l)[k]? = some c) : x ≤ c := by
  cases l with
  | nil => simp at hx
  | cons y ys =>
    rw [cumMax_cons] at hc
    exact le_cumMaxFrom _ _ _ _ _ hx hc

/-- on the `< th` prefix of a sorted list, values and running maxima agree with the whole list -/
theorem prefix_agree (m : Rat) (v : List Rat) (hs : v.Pairwise (· ≤ ·)) (th : Rat) (k : Nat)
    (hk : k < (v.filter (fun x => decide (x < th))).length) :
    (cumMax (scaled m (v.filter (fun x => decide (x < th)))))[k]? = (cumMax (scaled m v))[k]? ∧
      (v.filter (fun x => decide (x < th)))[k]? = v[k]? := by
  constructor
  · conv_rhs => rw [sorted_split v hs th, scaled_append]
    rw [cumMax_append_getElem? _ _ _ (by simpa using hk)]
  · conv_rhs => rw [sorted_split v hs th]
    rw [List.getElem?_append_left hk]

/-- below the threshold the restricted correction returns exactly the full correction -/
theorem approx_slot_lt {o o' : List Nat} {p : List Rat} {th : Rat} (h : IsArgsort o p)
    (h' : IsArgsort o' (gather (interestingIdx p th) p)) (h0 : ∀ x ∈ p, 0 ≤ x)
    (i : Nat) (hi : i < p.length) (hlt : p.getD i 0 < th) :
    (approxCorrectTtestWith o' p th)[i]? = (correctTtestWith o p 0)[i]? := by
  have hsubf := sub_eq_filter p th
  have hsub0 : ∀ x ∈ gather (interestingIdx p th) p, 0 ≤ x := by
    intro x hx; rw [hsubf] at hx; exact h0 x (List.mem_filter.mp hx).1
  -- the sorted interesting values are the `< th` prefix of the sorted values
  have hv' : gather o' (gather (interestingIdx p th) p)
      = (gather o p).filter (fun x => decide (x < th)) := by
    apply List.Perm.eq_of_pairwise (fun _ _ _ _ h1 h2 => le_antisymm h1 h2) h'.2
    · exact h.2.filter _
    · refine (gather_perm h'.1).trans ?_
      rw [hsubf]
      exact ((gather_perm h.1).filter _).symm
  have hlen_idx : (interestingIdx p th).length = (gather (interestingIdx p th) p).length := by simp
  have hlen_sub : (gather (interestingIdx p th) p).length ≤ p.length := by
    rw [hsubf]; exact List.length_filter_le _ _
  have hm : (((gather (interestingIdx p th) p).length + (p.length - (interestingIdx p th).length) : Nat) : Rat)
      = ((p.length + 0 : Nat) : Rat) := by
    congr 1; omega
  -- slot of the restricted correction
  have himem : i ∈ interestingIdx p th := mem_interestingIdx.mpr ⟨hi, hlt⟩
  have hr := gather_getElem?_idxOf (interestingIdx p th) p i himem
  have hrlt : (interestingIdx p th).idxOf i < (gather (interestingIdx p th) p).length := by
    rw [← hlen_idx]; exact List.idxOf_lt_length_of_mem himem
  have hsubr : (gather (interestingIdx p th) p).getD ((interestingIdx p th).idxOf i) 0 = p.getD i 0 := by
    rw [List.getD_eq_getElem?_getD, hr]; rfl
  have hrmem : (interestingIdx p th).idxOf i ∈ o' := mem_of_argsort h' hrlt
  have hk' := gather_getElem?_idxOf o' (gather (interestingIdx p th) p) _ hrmem
  have hcorr := correctTtestWith_slot h' hsub0 (p.length - (interestingIdx p th).length)
    ((interestingIdx p th).idxOf i) hrlt _ hk'
  have hk'lt : o'.idxOf ((interestingIdx p th).idxOf i)
      < ((gather o p).filter (fun x => decide (x < th))).length := by
    have := List.idxOf_lt_length_of_mem hrmem
    rw [← hv']; simpa using this
  obtain ⟨hpre1, hpre2⟩ := prefix_agree ((p.length + 0 : Nat) : Rat) (gather o p) h.2 th _ hk'lt
  -- the same position in the full sorted list carries the same value
  have hkfull : (gather o p)[o'.idxOf ((interestingIdx p th).idxOf i)]? = some (p.getD i 0) := by
    rw [← hpre2, ← hv', hk', hsubr]
  have hfull := correctTtestWith_slot h h0 0 i hi _ hkfull
  rw [hfull]
  -- unfold the restricted correction at slot i
  have hlook := lookup_zip (interestingIdx p th)
    (correctTtestWith o' (gather (interestingIdx p th) p) (p.length - (interestingIdx p th).length)) i
    (by simp) himem
  simp only [approxCorrectTtestWith, List.getElem?_map, List.getElem?_range hi, Option.map_some]
  rw [hlook, hcorr, Option.getD_some, hm, hv', hpre1]

/-- at or above the threshold both corrections stay at or above it -/
theorem approx_slot_ge {o o' : List Nat} {p : List Rat} {th : Rat} (h : IsArgsort o p)
    (h0 : ∀ x ∈ p, 0 ≤ x) (h1 : ∀ x ∈ p, x ≤ 1)
    (i : Nat) (hi : i < p.length) (hge : ¬ p.getD i 0 < th) :
    (approxCorrectTtestWith o' p th)[i]? = some (p.getD i 0) ∧
      ∃ y, (correctTtestWith o p 0)[i]? = some y ∧ th ≤ y := by
  constructor
  · have hnot : i ∉ interestingIdx p th := fun hm => hge (mem_interestingIdx.mp hm).2
    simp only [approxCorrectTtestWith, List.getElem?_map, List.getElem?_range hi, Option.map_some,
      lookup_zip_none _ _ _ hnot, Option.getD_none]
  · have him := mem_of_argsort h hi
    have hk := gather_getElem?_idxOf o p i him
    have hklt : o.idxOf i < p.length := by
      rw [← length_of_argsort h]; exact List.idxOf_lt_length_of_mem him
    rw [correctTtestWith_slot h h0 0 i hi _ hk]
    refine ⟨_, rfl, ?_⟩
    have hpi_mem : p.getD i 0 ∈ p := by
      simp only [List.getD_eq_getElem?_getD, List.getElem?_eq_getElem hi, Option.getD_some]
      exact List.getElem_mem hi
    have hp0 := h0 _ hpi_mem
    have hp1 := h1 _ hpi_mem
    have hth : th ≤ p.getD i 0 := not_lt.mp hge
    -- the running maximum at the position of i
    have hs : (scaled ((p.length + 0 : Nat) : Rat) (gather o p))[o.idxOf i]?
        = some (p.getD i 0 * (((p.length + 0 : Nat) : Rat) - (o.idxOf i : Nat))) := by
      rw [scaled_getElem?, hk]; rfl
    have hclt : o.idxOf i < (cumMax (scaled ((p.length + 0 : Nat) : Rat) (gather o p))).length := by
      simp [length_of_argsort h]; exact hklt
    rw [List.getElem?_eq_getElem hclt, Option.getD_some]
    have hc := List.getElem?_eq_getElem hclt
    have hge' : p.getD i 0 * (((p.length + 0 : Nat) : Rat) - (o.idxOf i : Nat)) ≤
        (cumMax (scaled ((p.length + 0 : Nat) : Rat) (gather o p)))[o.idxOf i] :=
      le_cumMax _ _ _ _ hs hc
    have hmult : (1 : Rat) ≤ ((p.length + 0 : Nat) : Rat) - (o.idxOf i : Nat) := by
      have : ((o.idxOf i + 1 : Nat) : Rat) ≤ ((p.length + 0 : Nat) : Rat) := by
        exact_mod_cast (by omega : o.idxOf i + 1 ≤ p.length + 0)
      push_cast at this ⊢; linarith
    have hck : p.getD i 0 ≤ (cumMax (scaled ((p.length + 0 : Nat) : Rat) (gather o p)))[o.idxOf i] := by
      nlinarith
    unfold cap1
    split
    · linarith
    · linarith

/-- **`holm_approx_iff`**: the p-value mask `corrected < p_th` is the same for
`approx_correct_ttest` and for the full `correct_ttest` -/
theorem approx_mask_eq {o o' : List Nat} {p : List Rat} {th : Rat} (h : IsArgsort o p)
    (h' : IsArgsort o' (gather (interestingIdx p th) p)) (h0 : ∀ x ∈ p, 0 ≤ x) (h1 : ∀ x ∈ p, x ≤ 1) :
    (approxCorrectTtestWith o' p th).map (fun x => decide (x < th))
      = (correctTtestWith o p 0).map (fun x => decide (x < th)) := by
  apply List.ext_getElem?
  intro i
  by_cases hi : i < p.length
  · by_cases hlt : p.getD i 0 < th
    · simp only [List.getElem?_map, approx_slot_lt h h' h0 i hi hlt]
    · obtain ⟨ha, y, hy, hyth⟩ := approx_slot_ge (o' := o') h h0 h1 i hi hlt
      simp only [List.getElem?_map, ha, hy, Option.map_some]
      congr 1
      rw [decide_eq_false hlt, decide_eq_false (not_lt.mpr hyth)]
  · simp only [List.getElem?_map]
    rw [List.getElem?_eq_none (by simpa using hi), List.getElem?_eq_none (by simpa using hi)]

/-- the canonical `argsort` of the model satisfies the `np.argsort` contract -/
theorem argsort_isArgsort (p : List Rat) : IsArgsort (argsort p) p := by
  constructor
  · exact List.mergeSort_perm _ _
  · unfold gather argsort
    rw [List.pairwise_map]
    have := List.pairwise_mergeSort (le := fun i j => decide (p.getD i 0 ≤ p.getD j 0))
      (by intro a b c h1 h2; simp only [decide_eq_true_eq] at *; exact le_trans h1 h2)
      (by intro a b; simp only [Bool.or_eq_true, decide_eq_true_eq]; exact le_total _ _)
      (List.range p.length)
    exact this.imp (by intro a b h; simpa using h)

/-- `correct_ttest` of the model, whatever tie order numpy used -/
theorem correctTtestWith_eq_canonical {o : List Nat} {p : List Rat} (h : IsArgsort o p)
    (h0 : ∀ x ∈ p, 0 ≤ x) (pad : Nat) : correctTtestWith o p pad = correctTtest p pad :=
  correctTtestWith_perm p pad o (argsort p) h (argsort_isArgsort p) h0

/-- Holm-corrected p-values lie between the raw p-value and 1 -/
theorem holm_bounds {o : List Nat} {p : List Rat} (h : IsArgsort o p) (h0 : ∀ x ∈ p, 0 ≤ x)
    (h1 : ∀ x ∈ p, x ≤ 1) (i : Nat) (hi : i < p.length) :
    ∃ y, (correctTtestWith o p 0)[i]? = some y ∧ p.getD i 0 ≤ y ∧ y ≤ 1 := by
  obtain ⟨_, y, hy, hge⟩ := approx_slot_ge (o' := []) (th := p.getD i 0) h h0 h1 i hi (lt_irrefl _)
  refine ⟨y, hy, hge, ?_⟩
  have him := mem_of_argsort h hi
  have hk := gather_getElem?_idxOf o p i him
  rw [correctTtestWith_slot h h0 0 i hi _ hk] at hy
  cases hy
  unfold cap1
  split
  · rename_i hlt; exact le_of_lt hlt
  · exact le_refl _

/-- pointwise form of `approx_mask_eq` -/
theorem approx_iff_pointwise {o o' : List Nat} {p : List Rat} {th : Rat} (h : IsArgsort o p)
    (h' : IsArgsort o' (gather (interestingIdx p th) p)) (h0 : ∀ x ∈ p, 0 ≤ x) (h1 : ∀ x ∈ p, x ≤ 1)
    (i : Nat) (hi : i < p.length) :
    ∃ a b, (approxCorrectTtestWith o' p th)[i]? = some a ∧ (correctTtestWith o p 0)[i]? = some b ∧
      (a < th ↔ b < th) := by
  have ha : i < (approxCorrectTtestWith o' p th).length := by simpa using hi
  have hb : i < (correctTtestWith o p 0).length := by simpa using hi
  refine ⟨_, _, List.getElem?_eq_getElem ha, List.getElem?_eq_getElem hb, ?_⟩
  have := congrArg (fun l => l[i]?) (approx_mask_eq h h' h0 h1)
  simp only [List.getElem?_map, List.getElem?_eq_getElem ha, List.getElem?_eq_getElem hb,
    Option.map_some, Option.some.injEq] at this
  constructor
  · intro hlt
    have e : decide ((approxCorrectTtestWith o' p th)[i] < th) = true := decide_eq_true hlt
    rw [this] at e
    exact of_decide_eq_true e
  · intro hlt
    have e : decide ((correctTtestWith o p 0)[i] < th) = true := decide_eq_true hlt
    rw [← this] at e
    exact of_decide_eq_true e

end CTM.Holm
