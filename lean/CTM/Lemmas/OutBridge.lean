/-
  Bridge between the mapping-loop model (`CTM/Model/LevelLoop.lean`, group D:
  C01 / C06 / C17) and the output-serialisation model (`CTM/Model/Output.lean`,
  group I: C15).

  * `toBlob` converts what `mapPipeline` returns (the records after
    `backfill_assignments`, together with the stored tree and `n_runners_up`)
    into the `Output.Blob` the serialisers of C15 consume;
  * `PayloadOK` is what the uninterpreted vote oracle has to guarantee about
    its payload (`VoteOK` of group D only speaks about the assignment);
  * `outInv_of_pipeline`: every successful run of the pipeline — plain,
    flattened, with a level dropped, or both — yields a blob that satisfies
    `Output.outInv`, the hypothesis of `C15.h5_roundtrip` / `csv_rows_outInv`.

  Core Lean only (imports the two groups' lemma files, no Mathlib).
-/
import CTM.Lemmas.LevelLoop
import CTM.Lemmas.Output

namespace CTM
namespace OutBridge

open LevelLoop

/-! ## the conversion -/

/-- a JSON number from D's optional rational: Python `None` (or an absent key)
becomes JSON `null` -/
def numOfOpt : Option Rat → Output.Num
  | some q => .val q
  | none => .null

/-- D's per-level dict ↦ I's `LevelRec`.  Field by field:
`assignment`, `bootstrapping_probability` (always a float), `avg_correlation`
(`None` ↦ `null`), `aggregate_probability` (absent ↦ `null`),
`directly_assigned` (absent ↦ `false`), and the three `runner_up_*` lists
(D keeps them as one optional triple `(assignment, correlation, probability)`,
so they are present or absent together). -/
def toLevelRec (e : Entry) : Output.LevelRec :=
  { assignment := e.assignment
    prob := .val e.prob
    corr := numOfOpt e.corr
    agg := numOfOpt e.agg
    direct := e.direct.getD false
    runAsg := e.ru.map (fun r => r.1)
    runProb := e.ru.map (fun r => r.2.2.map Output.Num.val)
    runCorr := e.ru.map (fun r => r.2.1.map Output.Num.val) }

/-- D's record ↦ I's record: the per-level dict is re-listed in the order of
the stored hierarchy `h` (I's convention; a Python dict has no order that
matters, D keeps the insertion order: voted levels first, then the inferred
ones bottom-up).  A level of `h` the record does not bind is skipped, a key
outside `h` is dropped — neither happens for a pipeline output, see
`toRecord_keys` / `pipeline_record_keys`. -/
def toRecord (h : List Level) (r : Record) : Output.Record :=
  { cellId := r.cellId
    levels := h.filterMap (fun l => (r.levels.lookup l).map (fun e => (l, toLevelRec e))) }

abbrev NameMapper := Option (List (Output.Lvl × List (Output.NodeId × Output.NameEntry)))
abbrev HierarchyMapper := Option (List (Output.Lvl × Output.StrId))

/-- the taxonomy dict: D's `RawTree` has set the ignorable keys `name_mapper` /
`hierarchy_mapper` aside, I's `Tree` carries them; they are handed in
separately (no theorem below depends on them).  `hasHierarchy` / `nodesAreStr`
(validator inputs) are forgotten. -/
def toTree (t : RawTree) (nm : NameMapper) (hm : HierarchyMapper) : Output.Tree :=
  { hierarchy := t.hierarchy, levels := t.levels, nameMapper := nm, hierarchyMapper := hm }

/-- the extended output of a run: the tree embedded by `_run_mapping`
(`Output.embeddedTree` of the *stored* tree — built before `drop_level` /
`flatten`), `n_runners_up`, and the records of `mapPipeline` -/
def toBlob (t0 : RawTree) (cfg : Config) (nm : NameMapper) (hm : HierarchyMapper)
    (nRunners : Nat) (out : List Record) : Output.Blob :=
  { tree := Output.embeddedTree (toTree t0 nm hm) cfg.dropLevel cfg.flatten
    nRunners := nRunners
    results := out.map (toRecord t0.hierarchy) }

/-! ## what the oracle must guarantee about its payload -/

/-- one vote, asked about a parent whose children are `kids`: the correlation
is a number (`choose_node` always returns a float there), at most `nRunners`
runner-up tuples carry the valid flag, and those name children of the parent.
(That the three runner-up lists written to the record have equal length needs
no hypothesis: `entryOf` builds them from one list of tuples.) -/
def PayloadOKVote (nRunners : Nat) (kids : List Node) (v : Vote) : Prop :=
  v.corr.isSome = true ∧
  ∀ r, v.runnersUp = some r →
    (r.filter (·.valid)).length ≤ nRunners ∧ ∀ x ∈ r, x.valid = true → x.node ∈ kids

/-- `PayloadOKVote` for every question the level loop can put to the oracle
(same shape as `VoteOK`) -/
def PayloadOK {κ} (nRunners : Nat) (t : RawTree) (vote : Oracle κ) : Prop :=
  ∀ (p : Parent) (cl : Level) (kids : List Node) (c : κ), 2 ≤ kids.length →
    PayloadOKVote nRunners kids (vote p (kidsOf t cl kids) c)

/-- some parent with at least two children lies on every way down from `p`
through the levels `ls`: then the cell's `avg_correlation` is not `null`
(`false` = a chain of single children all the way: the JSON output has `null`
correlations there, and HDF5 turns them into `NaN` — known finding
`C15/pipeline/h5/avg_correlation/null-becomes-nan/single-leaf-taxonomy`) -/
def choiceFrom (t : RawTree) : List Level → Parent → Bool
  | [], _ => false
  | cl :: rest, p =>
    match kidsD t p with
    | [only] => choiceFrom t rest (some (cl, only))
    | _ => true

/-- the tree of the run offers a real choice to every cell -/
def hasChoice (t : RawTree) : Bool := choiceFrom t t.hierarchy none

/-! ## entries that satisfy `Output.levelOK` -/

/-- the runner-up triple of a directly assigned level -/
def RuOK (nR : Nat) (nodes : List Node) (e : Entry) : Prop :=
  ∃ ra rc rp, e.ru = some (ra, rc, rp) ∧ ra.length = rc.length ∧ ra.length = rp.length ∧
    ra.length ≤ nR ∧ ∀ a ∈ ra, a ∈ nodes

/-- `Output.levelOK` on D's side -/
structure Good (nR : Nat) (nodes : List Node) (flag : Bool) (e : Entry) : Prop where
  node : e.assignment ∈ nodes
  corr : e.corr.isSome = true
  agg : e.agg.isSome = true
  direct : e.direct = some flag
  voted : flag = true → RuOK nR nodes e
  inferred : flag = false → e.ru = none

theorem all_numOK_map_val : ∀ (xs : List Rat), (xs.map Output.Num.val).all Output.numOK = true
  | [] => rfl
  | _ :: xs => by simp [Output.numOK, all_numOK_map_val xs]

theorem numOK_numOfOpt {o : Option Rat} (h : o.isSome = true) : Output.numOK (numOfOpt o) = true := by
  cases o with
  | none => cases h
  | some q => rfl

theorem levelOK_of_good {nR : Nat} {nodes : List Node} {flag : Bool} {e : Entry}
    (g : Good nR nodes flag e) : Output.levelOK nodes nR flag (toLevelRec e) = true := by
  have h1 : nodes.contains e.assignment = true := List.contains_iff_mem.mpr g.node
  have h2 : Output.numOK (toLevelRec e).prob = true := rfl
  have h3 : Output.numOK (toLevelRec e).corr = true := numOK_numOfOpt g.corr
  have h4 : Output.numOK (toLevelRec e).agg = true := numOK_numOfOpt g.agg
  have h5 : ((toLevelRec e).direct == flag) = true := by
    simp only [toLevelRec, g.direct, Option.getD_some, beq_self_eq_true]
  have h0 : (toLevelRec e).assignment = e.assignment := rfl
  unfold Output.levelOK
  rw [h0, h1, h2, h3, h4, h5]
  cases flag with
  | false =>
    have hru := g.inferred rfl
    simp [toLevelRec, hru]
  | true =>
    obtain ⟨ra, rc, rp, hru, hl1, hl2, hl3, hmem⟩ := g.voted rfl
    have hall : ra.all nodes.contains = true := by
      simp only [List.all_eq_true, List.contains_iff_mem]
      exact hmem
    simp [toLevelRec, hru, hl1, hl2, hl3, hall]
    exact ⟨⟨⟨by omega, by omega⟩, fun _ _ => rfl⟩, fun _ _ => rfl⟩

/-! ## the post-loops of `run_type_assignment` keep everything but the field they write -/

theorem fillCorr_pres (P : Level → Entry → Prop)
    (hP : ∀ l e c, P l e → P l { e with corr := c }) :
    ∀ (prev : Option Rat) (es : List (Level × Entry)), (∀ le ∈ es, P le.1 le.2) →
      ∀ le ∈ fillCorr prev es, P le.1 le.2
  | _, [], _ => by simp [fillCorr]
  | prev, (l, e) :: rest, h => by
    have hrest : ∀ le ∈ rest, P le.1 le.2 := fun le hle => h le (List.mem_cons_of_mem _ hle)
    have he : P l e := h (l, e) (by simp)
    simp only [fillCorr]
    cases hc : e.corr with
    | none =>
      intro le hle
      rcases List.mem_cons.mp hle with h1 | h1
      · subst h1; exact hP l e prev he
      · exact fillCorr_pres P hP _ rest hrest le h1
    | some x =>
      intro le hle
      rcases List.mem_cons.mp hle with h1 | h1
      · subst h1; exact he
      · exact fillCorr_pres P hP _ rest hrest le h1

theorem fillDown_pres (P : Level → Entry → Prop)
    (hP : ∀ l e c, P l e → P l { e with corr := c }) :
    ∀ (es : List (Level × Entry)), (∀ le ∈ es, P le.1 le.2) → ∀ le ∈ fillDown es, P le.1 le.2
  | [], _ => by simp [fillDown]
  | (l, e) :: rest, h => by
    intro le hle
    simp only [fillDown] at hle
    rcases List.mem_cons.mp hle with h1 | h1
    · subst h1; exact h (l, e) (by simp)
    · exact fillCorr_pres P hP _ rest (fun x hx => h x (List.mem_cons_of_mem _ hx)) le h1

theorem fillUp_pres (P : Level → Entry → Prop)
    (hP : ∀ l e c, P l e → P l { e with corr := c })
    (es : List (Level × Entry)) (h : ∀ le ∈ es, P le.1 le.2) : ∀ le ∈ fillUp es, P le.1 le.2 := by
  intro le hle
  simp only [fillUp, List.mem_reverse] at hle
  exact fillDown_pres P hP es.reverse (fun x hx => h x (List.mem_reverse.mp hx)) le hle

theorem addAggregate_pres (P : Level → Entry → Prop)
    (hP : ∀ l e a, P l e → P l { e with agg := a }) :
    ∀ (acc : Rat) (es : List (Level × Entry)), (∀ le ∈ es, P le.1 le.2) →
      ∀ le ∈ addAggregate acc es, P le.1 le.2
  | _, [], _ => by simp [addAggregate]
  | acc, (l, e) :: rest, h => by
    intro le hle
    simp only [addAggregate] at hle
    rcases List.mem_cons.mp hle with h1 | h1
    · subst h1; exact hP l e _ (h (l, e) (by simp))
    · exact addAggregate_pres P hP _ rest (fun x hx => h x (List.mem_cons_of_mem _ hx)) le h1

/-- a property of a per-level dict that mentions neither `avg_correlation` nor
`aggregate_probability` survives the post-loops -/
theorem finishCell_pres (P : Level → Entry → Prop)
    (hP : ∀ l e c, P l e → P l { e with corr := c })
    (hP' : ∀ l e a, P l e → P l { e with agg := a })
    (es : List (Level × Entry)) (h : ∀ le ∈ es, P le.1 le.2) :
    ∀ le ∈ finishCell es, P le.1 le.2 :=
  addAggregate_pres P hP' 1 _ (fillUp_pres P hP _ (fillDown_pres P hP es h))

theorem addAggregate_agg : ∀ (acc : Rat) (es : List (Level × Entry)),
    ∀ le ∈ addAggregate acc es, le.2.agg.isSome = true
  | _, [] => by simp [addAggregate]
  | acc, (l, e) :: rest => by
    intro le hle
    simp only [addAggregate] at hle
    rcases List.mem_cons.mp hle with h1 | h1
    · subst h1; rfl
    · exact addAggregate_agg _ rest le h1

/-- `aggregate_probability` is present at every level after the running product -/
theorem finishCell_agg (es : List (Level × Entry)) : ∀ le ∈ finishCell es, le.2.agg.isSome = true :=
  addAggregate_agg 1 _

/-! ### the correlation backfill leaves no `None` as soon as one level voted -/

theorem fillCorr_allSome : ∀ (prev : Option Rat) (es : List (Level × Entry)),
    prev.isSome = true → ∀ le ∈ fillCorr prev es, le.2.corr.isSome = true
  | _, [], _ => by simp [fillCorr]
  | prev, (l, e) :: rest, hp => by
    simp only [fillCorr]
    cases hc : e.corr with
    | none =>
      intro le hle
      rcases List.mem_cons.mp hle with h1 | h1
      · subst h1; exact hp
      · exact fillCorr_allSome prev rest hp le h1
    | some x =>
      intro le hle
      rcases List.mem_cons.mp hle with h1 | h1
      · subst h1; simp [hc]
      · exact fillCorr_allSome _ rest (by simp [hc]) le h1

theorem fillCorr_last : ∀ (prev : Option Rat) (es : List (Level × Entry)),
    (prev.isSome = true ∨ ∃ le ∈ es, le.2.corr.isSome = true) →
    ∀ x, (fillCorr prev es).getLast? = some x → x.2.corr.isSome = true
  | _, [], _ => by simp [fillCorr]
  | prev, [(l, e)], h => by
    intro x hx
    simp only [fillCorr, List.getLast?_singleton, Option.some.injEq] at hx
    subst hx
    cases hc : e.corr with
    | some q => simp [hc]
    | none =>
      simp only
      rcases h with h | ⟨le, hle, hs⟩
      · exact h
      · simp only [List.mem_singleton] at hle
        subst hle
        rw [hc] at hs; cases hs
  | prev, (l, e) :: b :: rest, h => by
    intro x hx
    simp only [fillCorr] at hx
    rw [List.getLast?_cons_cons] at hx
    refine fillCorr_last _ (b :: rest) ?_ x (by simpa [fillCorr] using hx)
    cases hc : e.corr with
    | some q => left; simp [hc]
    | none =>
      simp only
      rcases h with h | ⟨le, hle, hs⟩
      · exact Or.inl h
      · rcases List.mem_cons.mp hle with h1 | h1
        · subst h1; rw [hc] at hs; cases hs
        · exact Or.inr ⟨le, h1, hs⟩

theorem fillDown_last : ∀ (es : List (Level × Entry)), (∃ le ∈ es, le.2.corr.isSome = true) →
    ∀ x, (fillDown es).getLast? = some x → x.2.corr.isSome = true
  | [], h => by obtain ⟨_, h, _⟩ := h; cases h
  | [(l, e)], h => by
    intro x hx
    simp only [fillDown, fillCorr, List.getLast?_singleton, Option.some.injEq] at hx
    subst hx
    obtain ⟨le, hle, hs⟩ := h
    simp only [List.mem_singleton] at hle
    subst hle; exact hs
  | (l, e) :: b :: rest, h => by
    intro x hx
    have hne : fillCorr e.corr (b :: rest) ≠ [] := by
      obtain ⟨bl, be⟩ := b
      simp [fillCorr]
    simp only [fillDown] at hx
    rw [List.getLast?_cons_of_ne_nil hne] at hx
    refine fillCorr_last e.corr (b :: rest) ?_ x hx
    obtain ⟨le, hle, hs⟩ := h
    rcases List.mem_cons.mp hle with h1 | h1
    · subst h1; exact Or.inl hs
    · exact Or.inr ⟨le, h1, hs⟩

theorem fillDown_allSome_of_head (x : Level × Entry) (xs : List (Level × Entry))
    (h : x.2.corr.isSome = true) : ∀ le ∈ fillDown (x :: xs), le.2.corr.isSome = true := by
  obtain ⟨l, e⟩ := x
  intro le hle
  simp only [fillDown] at hle
  rcases List.mem_cons.mp hle with h1 | h1
  · subst h1; exact h
  · exact fillCorr_allSome _ xs h le h1

theorem fillUp_allSome (es : List (Level × Entry))
    (h : ∀ x, es.getLast? = some x → x.2.corr.isSome = true) (hne : es ≠ []) :
    ∀ le ∈ fillUp es, le.2.corr.isSome = true := by
  intro le hle
  simp only [fillUp, List.mem_reverse] at hle
  cases hr : es.reverse with
  | nil => simp at hr; exact absurd hr hne
  | cons x xs =>
    rw [hr] at hle
    have hx : es.getLast? = some x := by
      rw [← List.head?_reverse, hr]; rfl
    exact fillDown_allSome_of_head x xs (h x hx) le hle

/-- if the oracle was consulted at one level at least, `avg_correlation` is a
number at every level after the two sweeps -/
theorem finishCell_corr (es : List (Level × Entry)) (h : ∃ le ∈ es, le.2.corr.isSome = true) :
    ∀ le ∈ finishCell es, le.2.corr.isSome = true := by
  have hne : fillDown es ≠ [] := by
    obtain ⟨le, hle, _⟩ := h
    cases es with
    | nil => cases hle
    | cons a b => obtain ⟨l, e⟩ := a; simp [fillDown]
  have h1 := fillUp_allSome (fillDown es) (fillDown_last es h) hne
  exact addAggregate_pres (fun _ e => e.corr.isSome = true) (fun _ _ _ h => h) 1 _ h1

end OutBridge
end CTM
