/-
  Bridge between the mapping-loop model (`CTM/Model/LevelLoop.lean`, group D:
  C01 / C06 / C17) and the output-serialisation model (`CTM/Model/Output.lean`,
  group I: C15).

  * `toBlob` converts what `mapPipeline` returns (the records after
    `backfill_assignments`, together with the stored tree and `n_runners_up`)
    into the `Output.Blob` the serialisers of C15 consume;
  * `PayloadOK` is what the uninterpreted vote oracle has to guarantee about
    its payload (`VoteOK` of group D only speaks about the assignment);
  * `outInv_of_pipeline`: every successful run of the pipeline — plain,
    flattened, with a level dropped, or both — yields a blob that satisfies
    `Output.outInv`, the hypothesis of `C15.h5_roundtrip` / `csv_rows_outInv`.

  Core Lean only (imports the two groups' lemma files, no Mathlib).
-/
import CTM.Lemmas.LevelLoop
import CTM.Lemmas.Output
import CTM.Model.Election

namespace CTM
namespace OutBridge

open LevelLoop

/-! ## the conversion -/

/-- a JSON number from D's optional rational: Python `None` (or an absent key)
becomes JSON `null` -/
def numOfOpt : Option Rat → Output.Num
  | some q => .val q
  | none => .null

/-- D's per-level dict ↦ I's `LevelRec`.  Field by field:
`assignment`, `bootstrapping_probability` (always a float), `avg_correlation`
(`None` ↦ `null`), `aggregate_probability` (absent ↦ `null`),
`directly_assigned` (absent ↦ `false`), and the three `runner_up_*` lists
(D keeps them as one optional triple `(assignment, correlation, probability)`,
so they are present or absent together). -/
def toLevelRec (e : Entry) : Output.LevelRec :=
  { assignment := e.assignment
    prob := .val e.prob
    corr := numOfOpt e.corr
    agg := numOfOpt e.agg
    direct := e.direct.getD false
    runAsg := e.ru.map (fun r => r.1)
    runProb := e.ru.map (fun r => r.2.2.map Output.Num.val)
    runCorr := e.ru.map (fun r => r.2.1.map Output.Num.val) }

/-- D's record ↦ I's record: the per-level dict is re-listed in the order of
the stored hierarchy `h` (I's convention; a Python dict has no order that
matters, D keeps the insertion order: voted levels first, then the inferred
ones bottom-up).  A level of `h` the record does not bind is skipped, a key
outside `h` is dropped — neither happens for a pipeline output, see
`toRecord_keys` / `pipeline_record_keys`. -/
def toRecord (h : List Level) (r : Record) : Output.Record :=
  { cellId := r.cellId
    levels := h.filterMap (fun l => (r.levels.lookup l).map (fun e => (l, toLevelRec e))) }

abbrev NameMapper := Option (List (Output.Lvl × List (Output.NodeId × Output.NameEntry)))
abbrev HierarchyMapper := Option (List (Output.Lvl × Output.StrId))

/-- the taxonomy dict: D's `RawTree` has set the ignorable keys `name_mapper` /
`hierarchy_mapper` aside, I's `Tree` carries them; they are handed in
separately (no theorem below depends on them).  `hasHierarchy` / `nodesAreStr`
(validator inputs) are forgotten. -/
def toTree (t : RawTree) (nm : NameMapper) (hm : HierarchyMapper) : Output.Tree :=
  { hierarchy := t.hierarchy, levels := t.levels, nameMapper := nm, hierarchyMapper := hm }

/-- the extended output of a run: the tree embedded by `_run_mapping`
(`Output.embeddedTree` of the *stored* tree — built before `drop_level` /
`flatten`), `n_runners_up`, and the records of `mapPipeline` -/
def toBlob (t0 : RawTree) (cfg : Config) (nm : NameMapper) (hm : HierarchyMapper)
    (nRunners : Nat) (out : List Record) : Output.Blob :=
  { tree := Output.embeddedTree (toTree t0 nm hm) cfg.dropLevel cfg.flatten
    nRunners := nRunners
    results := out.map (toRecord t0.hierarchy) }

/-- the tree `backfill_assignments` reads (D: `RawTree.dropCells`) is the tree
embedded in the output (I: `Output.Tree.dropCells`), when the level keys of
the dict are distinct (a Python dict) -/
theorem toTree_dropCells (t : RawTree) (nm : NameMapper) (hm : HierarchyMapper)
    (hk : (t.levels.map (·.1)).Nodup) :
    toTree t.dropCells nm hm = (toTree t nm hm).dropCells := by
  unfold RawTree.dropCells Output.Tree.dropCells
  cases hl : t.leafLevel with
  | none =>
    have h0 : (toTree t nm hm).leafLevel = none := hl
    simp only [h0]
    simp [toTree]
  | some ll =>
    have h1 : t.hierarchy.getLast? = some ll := hl
    simp only [toTree, RawTree.setLevel]
    congr 1
    apply List.map_congr_left
    intro kv hkv
    obtain ⟨k, v⟩ := kv
    by_cases he : k = ll
    · subst he
      have hv : t.level k = v := by
        simp only [RawTree.level, lookup_of_mem_nodup t.levels k v hk hkv, Option.getD_some]
      simp [hv, h1, Output.Tree.leafLevel]
    · have hb : (k == ll) = false := by simpa using he
      have hne : ¬ (some k = some ll) := fun h => he (Option.some.inj h)
      simp [hb, hne, h1, Output.Tree.leafLevel]

/-! ## what the oracle must guarantee about its payload -/

/-- one vote, asked about a parent whose children are `kids`: the correlation
is a number (`choose_node` always returns a float there), at most `nRunners`
runner-up tuples carry the valid flag, and those name children of the parent.
(That the three runner-up lists written to the record have equal length needs
no hypothesis: `entryOf` builds them from one list of tuples.) -/
def PayloadOKVote (nRunners : Nat) (kids : List Node) (v : Vote) : Prop :=
  v.corr.isSome = true ∧
  ∀ r, v.runnersUp = some r →
    (r.filter (·.valid)).length ≤ nRunners ∧ ∀ x ∈ r, x.valid = true → x.node ∈ kids

/-- `PayloadOKVote` for every question the level loop can put to the oracle
(same shape as `VoteOK`) -/
def PayloadOK {κ} (nRunners : Nat) (t : RawTree) (vote : Oracle κ) : Prop :=
  ∀ (p : Parent) (cl : Level) (kids : List Node) (c : κ), 2 ≤ kids.length →
    PayloadOKVote nRunners kids (vote p (kidsOf t cl kids) c)

/-- some parent with at least two children lies on every way down from `p`
through the levels `ls`: then the cell's `avg_correlation` is not `null`
(`false` = a chain of single children all the way: the JSON output has `null`
correlations there, and HDF5 turns them into `NaN` — known finding
`C15/pipeline/h5/avg_correlation/null-becomes-nan/single-leaf-taxonomy`) -/
def choiceFrom (t : RawTree) : List Level → Parent → Bool
  | [], _ => false
  | cl :: rest, p =>
    match kidsD t p with
    | [only] => choiceFrom t rest (some (cl, only))
    | _ => true

/-- the tree of the run offers a real choice to every cell -/
def hasChoice (t : RawTree) : Bool := choiceFrom t t.hierarchy none

/-! ## entries that satisfy `Output.levelOK` -/

/-- the runner-up triple of a directly assigned level -/
def RuOK (nR : Nat) (nodes : List Node) (e : Entry) : Prop :=
  ∃ ra rc rp, e.ru = some (ra, rc, rp) ∧ ra.length = rc.length ∧ ra.length = rp.length ∧
    ra.length ≤ nR ∧ ∀ a ∈ ra, a ∈ nodes

/-- `Output.levelOK` on D's side -/
structure Good (nR : Nat) (nodes : List Node) (flag : Bool) (e : Entry) : Prop where
  node : e.assignment ∈ nodes
  corr : e.corr.isSome = true
  agg : e.agg.isSome = true
  direct : e.direct = some flag
  voted : flag = true → RuOK nR nodes e
  inferred : flag = false → e.ru = none

theorem all_numOK_map_val : ∀ (xs : List Rat), (xs.map Output.Num.val).all Output.numOK = true
  | [] => rfl
  | _ :: xs => by simp [Output.numOK, all_numOK_map_val xs]

theorem numOK_numOfOpt {o : Option Rat} (h : o.isSome = true) : Output.numOK (numOfOpt o) = true := by
  cases o with
  | none => cases h
  | some q => rfl

theorem levelOK_of_good {nR : Nat} {nodes : List Node} {flag : Bool} {e : Entry}
    (g : Good nR nodes flag e) : Output.levelOK nodes nR flag (toLevelRec e) = true := by
  have h1 : nodes.contains e.assignment = true := List.contains_iff_mem.mpr g.node
  have h2 : Output.numOK (toLevelRec e).prob = true := rfl
  have h3 : Output.numOK (toLevelRec e).corr = true := numOK_numOfOpt g.corr
  have h4 : Output.numOK (toLevelRec e).agg = true := numOK_numOfOpt g.agg
  have h5 : ((toLevelRec e).direct == flag) = true := by
    simp only [toLevelRec, g.direct, Option.getD_some, beq_self_eq_true]
  have h0 : (toLevelRec e).assignment = e.assignment := rfl
  unfold Output.levelOK
  rw [h0, h1, h2, h3, h4, h5]
  cases flag with
  | false =>
    have hru := g.inferred rfl
    simp [toLevelRec, hru]
  | true =>
    obtain ⟨ra, rc, rp, hru, hl1, hl2, hl3, hmem⟩ := g.voted rfl
    have hall : ra.all nodes.contains = true := by
      simp only [List.all_eq_true, List.contains_iff_mem]
      exact hmem
    simp [toLevelRec, hru, hl1, hall]
    exact ⟨⟨⟨by omega, by omega⟩, fun _ _ => rfl⟩, fun _ _ => rfl⟩

/-! ## the post-loops of `run_type_assignment` keep everything but the field they write -/

theorem fillCorr_pres (P : Level → Entry → Prop)
    (hP : ∀ l e c, P l e → P l { e with corr := c }) :
    ∀ (prev : Option Rat) (es : List (Level × Entry)), (∀ le ∈ es, P le.1 le.2) →
      ∀ le ∈ fillCorr prev es, P le.1 le.2
  | _, [], _ => by simp [fillCorr]
  | prev, (l, e) :: rest, h => by
    have hrest : ∀ le ∈ rest, P le.1 le.2 := fun le hle => h le (List.mem_cons_of_mem _ hle)
    have he : P l e := h (l, e) (by simp)
    simp only [fillCorr]
    cases hc : e.corr with
    | none =>
      intro le hle
      rcases List.mem_cons.mp hle with h1 | h1
      · subst h1; exact hP l e prev he
      · exact fillCorr_pres P hP _ rest hrest le h1
    | some x =>
      intro le hle
      rcases List.mem_cons.mp hle with h1 | h1
      · subst h1; exact he
      · exact fillCorr_pres P hP _ rest hrest le h1

theorem fillDown_pres (P : Level → Entry → Prop)
    (hP : ∀ l e c, P l e → P l { e with corr := c }) :
    ∀ (es : List (Level × Entry)), (∀ le ∈ es, P le.1 le.2) → ∀ le ∈ fillDown es, P le.1 le.2
  | [], _ => by simp [fillDown]
  | (l, e) :: rest, h => by
    intro le hle
    simp only [fillDown] at hle
    rcases List.mem_cons.mp hle with h1 | h1
    · subst h1; exact h (l, e) (by simp)
    · exact fillCorr_pres P hP _ rest (fun x hx => h x (List.mem_cons_of_mem _ hx)) le h1

theorem fillUp_pres (P : Level → Entry → Prop)
    (hP : ∀ l e c, P l e → P l { e with corr := c })
    (es : List (Level × Entry)) (h : ∀ le ∈ es, P le.1 le.2) : ∀ le ∈ fillUp es, P le.1 le.2 := by
  intro le hle
  simp only [fillUp, List.mem_reverse] at hle
  exact fillDown_pres P hP es.reverse (fun x hx => h x (List.mem_reverse.mp hx)) le hle

theorem addAggregate_pres (P : Level → Entry → Prop)
    (hP : ∀ l e a, P l e → P l { e with agg := a }) :
    ∀ (acc : Rat) (es : List (Level × Entry)), (∀ le ∈ es, P le.1 le.2) →
      ∀ le ∈ addAggregate acc es, P le.1 le.2
  | _, [], _ => by simp [addAggregate]
  | acc, (l, e) :: rest, h => by
    intro le hle
    simp only [addAggregate] at hle
    rcases List.mem_cons.mp hle with h1 | h1
    · subst h1; exact hP l e _ (h (l, e) (by simp))
    · exact addAggregate_pres P hP _ rest (fun x hx => h x (List.mem_cons_of_mem _ hx)) le h1

/-- a property of a per-level dict that mentions neither `avg_correlation` nor
`aggregate_probability` survives the post-loops -/
theorem finishCell_pres (P : Level → Entry → Prop)
    (hP : ∀ l e c, P l e → P l { e with corr := c })
    (hP' : ∀ l e a, P l e → P l { e with agg := a })
    (es : List (Level × Entry)) (h : ∀ le ∈ es, P le.1 le.2) :
    ∀ le ∈ finishCell es, P le.1 le.2 :=
  addAggregate_pres P hP' 1 _ (fillUp_pres P hP _ (fillDown_pres P hP es h))

theorem addAggregate_agg : ∀ (acc : Rat) (es : List (Level × Entry)),
    ∀ le ∈ addAggregate acc es, le.2.agg.isSome = true
  | _, [] => by simp [addAggregate]
  | acc, (l, e) :: rest => by
    intro le hle
    simp only [addAggregate] at hle
    rcases List.mem_cons.mp hle with h1 | h1
    · subst h1; rfl
    · exact addAggregate_agg _ rest le h1

/-- `aggregate_probability` is present at every level after the running product -/
theorem finishCell_agg (es : List (Level × Entry)) : ∀ le ∈ finishCell es, le.2.agg.isSome = true :=
  addAggregate_agg 1 _

/-! ### the correlation backfill leaves no `None` as soon as one level voted -/

theorem fillCorr_allSome : ∀ (prev : Option Rat) (es : List (Level × Entry)),
    prev.isSome = true → ∀ le ∈ fillCorr prev es, le.2.corr.isSome = true
  | _, [], _ => by simp [fillCorr]
  | prev, (l, e) :: rest, hp => by
    simp only [fillCorr]
    cases hc : e.corr with
    | none =>
      intro le hle
      rcases List.mem_cons.mp hle with h1 | h1
      · subst h1; exact hp
      · exact fillCorr_allSome prev rest hp le h1
    | some x =>
      intro le hle
      rcases List.mem_cons.mp hle with h1 | h1
      · subst h1; simp [hc]
      · exact fillCorr_allSome _ rest (by simp [hc]) le h1

theorem fillCorr_last : ∀ (prev : Option Rat) (es : List (Level × Entry)),
    (prev.isSome = true ∨ ∃ le ∈ es, le.2.corr.isSome = true) →
    ∀ x, (fillCorr prev es).getLast? = some x → x.2.corr.isSome = true
  | _, [], _ => by simp [fillCorr]
  | prev, [(l, e)], h => by
    intro x hx
    simp only [fillCorr, List.getLast?_singleton, Option.some.injEq] at hx
    subst hx
    cases hc : e.corr with
    | some q => simp [hc]
    | none =>
      simp only
      rcases h with h | ⟨le, hle, hs⟩
      · exact h
      · simp only [List.mem_singleton] at hle
        subst hle
        rw [hc] at hs; cases hs
  | prev, (l, e) :: b :: rest, h => by
    intro x hx
    simp only [fillCorr] at hx
    rw [List.getLast?_cons_cons] at hx
    refine fillCorr_last _ (b :: rest) ?_ x (by simpa [fillCorr] using hx)
    cases hc : e.corr with
    | some q => left; simp [hc]
    | none =>
      simp only
      rcases h with h | ⟨le, hle, hs⟩
      · exact Or.inl h
      · rcases List.mem_cons.mp hle with h1 | h1
        · subst h1; rw [hc] at hs; cases hs
        · exact Or.inr ⟨le, h1, hs⟩

theorem fillDown_last : ∀ (es : List (Level × Entry)), (∃ le ∈ es, le.2.corr.isSome = true) →
    ∀ x, (fillDown es).getLast? = some x → x.2.corr.isSome = true
  | [], h => by obtain ⟨_, h, _⟩ := h; cases h
  | [(l, e)], h => by
    intro x hx
    simp only [fillDown, fillCorr, List.getLast?_singleton, Option.some.injEq] at hx
    subst hx
    obtain ⟨le, hle, hs⟩ := h
    simp only [List.mem_singleton] at hle
    subst hle; exact hs
  | (l, e) :: b :: rest, h => by
    intro x hx
    have hne : fillCorr e.corr (b :: rest) ≠ [] := by
      obtain ⟨bl, be⟩ := b
      simp [fillCorr]
    simp only [fillDown] at hx
    rw [List.getLast?_cons_of_ne_nil hne] at hx
    refine fillCorr_last e.corr (b :: rest) ?_ x hx
    obtain ⟨le, hle, hs⟩ := h
    rcases List.mem_cons.mp hle with h1 | h1
    · subst h1; exact Or.inl hs
    · exact Or.inr ⟨le, h1, hs⟩

theorem fillDown_allSome_of_head (x : Level × Entry) (xs : List (Level × Entry))
    (h : x.2.corr.isSome = true) : ∀ le ∈ fillDown (x :: xs), le.2.corr.isSome = true := by
  obtain ⟨l, e⟩ := x
  intro le hle
  simp only [fillDown] at hle
  rcases List.mem_cons.mp hle with h1 | h1
  · subst h1; exact h
  · exact fillCorr_allSome _ xs h le h1

theorem fillUp_allSome (es : List (Level × Entry))
    (h : ∀ x, es.getLast? = some x → x.2.corr.isSome = true) (hne : es ≠ []) :
    ∀ le ∈ fillUp es, le.2.corr.isSome = true := by
  intro le hle
  simp only [fillUp, List.mem_reverse] at hle
  cases hr : es.reverse with
  | nil => simp at hr; exact absurd hr hne
  | cons x xs =>
    rw [hr] at hle
    have hx : es.getLast? = some x := by
      rw [← List.head?_reverse, hr]; rfl
    exact fillDown_allSome_of_head x xs (h x hx) le hle

/-- if the oracle was consulted at one level at least, `avg_correlation` is a
number at every level after the two sweeps -/
theorem finishCell_corr (es : List (Level × Entry)) (h : ∃ le ∈ es, le.2.corr.isSome = true) :
    ∀ le ∈ finishCell es, le.2.corr.isSome = true := by
  have hne : fillDown es ≠ [] := by
    obtain ⟨le, hle, _⟩ := h
    cases es with
    | nil => cases hle
    | cons a b => obtain ⟨l, e⟩ := a; simp [fillDown]
  have h1 := fillUp_allSome (fillDown es) (fillDown_last es h) hne
  exact addAggregate_pres (fun _ e => e.corr.isSome = true) (fun _ _ _ h => h) 1 _ h1

/-! ## the one-cell walk: what is written at each level -/

/-- what the level loop writes at a level, before the post-loops and the flag -/
def RawGood (nR : Nat) (nodes : List Node) (e : Entry) : Prop :=
  e.assignment ∈ nodes ∧ RuOK nR nodes e

theorem entryOf_assignment (v : Vote) : (entryOf v).assignment = v.assignment := by
  unfold entryOf; split <;> rfl

theorem entryOf_corr (v : Vote) : (entryOf v).corr = v.corr := by
  unfold entryOf; split <;> rfl

theorem ruOK_entryOf {nR : Nat} {nodes kids : List Node} {v : Vote}
    (hsub : ∀ k ∈ kids, k ∈ nodes)
    (hp : ∀ r, v.runnersUp = some r →
      (r.filter (·.valid)).length ≤ nR ∧ ∀ x ∈ r, x.valid = true → x.node ∈ kids) :
    RuOK nR nodes (entryOf v) := by
  unfold entryOf
  cases hr : v.runnersUp with
  | none => exact ⟨[], [], [], rfl, rfl, rfl, Nat.zero_le _, by simp⟩
  | some r =>
    obtain ⟨h1, h2⟩ := hp r hr
    refine ⟨_, _, _, rfl, by simp, by simp, by simpa using h1, ?_⟩
    intro a ha
    simp only [List.mem_map, List.mem_filter] at ha
    obtain ⟨x, ⟨hx, hval⟩, rfl⟩ := ha
    exact hsub _ (h2 x hx hval)

/-- the dict written for one consulted parent with children `kids` -/
theorem voteFn_entry {κ} {t : RawTree} {vote : Oracle κ} {nR : Nat}
    (hpay : PayloadOK nR t vote) (p : Parent) (cl : Level) (kids : List Node) (c : κ)
    (hkne : kids ≠ []) {nodes : List Node} (hsub : ∀ k ∈ kids, k ∈ nodes) :
    RuOK nR nodes (entryOf (voteFn t vote p cl kids c)) ∧
    ((∀ only, kids ≠ [only]) → (entryOf (voteFn t vote p cl kids c)).corr.isSome = true) := by
  match kids, hkne with
  | [only], _ =>
    refine ⟨?_, fun h => absurd rfl (h only)⟩
    exact ⟨[], [], [], rfl, rfl, rfl, Nat.zero_le _, by simp⟩
  | a :: b :: rest, _ =>
    have hpv := hpay p cl (a :: b :: rest) c (by simp)
    simp only [voteFn]
    exact ⟨ruOK_entryOf hsub hpv.2, fun _ => by rw [entryOf_corr]; exact hpv.1⟩

theorem walkFrom_raw {κ} {t : RawTree} {vote : Oracle κ} {nR : Nat} (hwf : wfb t = true)
    (hv : VoteOK t vote) (hpay : PayloadOK nR t vote) (c : κ) :
    ∀ (ls pre : List Level) (p : Parent), t.hierarchy = pre ++ ls → At t pre p →
      ∀ es, walkFrom t vote c ls p = .ok es →
        (∀ le ∈ es, RawGood nR (t.nodesAt le.1) le.2) ∧
        (choiceFrom t ls p = true → ∃ le ∈ es, le.2.corr.isSome = true)
  | [], _, p, _, _, es, h => by
    simp only [walkFrom] at h; cases h
    exact ⟨by simp, by simp [choiceFrom]⟩
  | cl :: rest, pre, p, hs, hat, es, h => by
    have hpair : ∃ plo, (plo, cl) ∈ levelPairs t ∧ p ∈ parentNodeList t plo := by
      rcases hat with ⟨rfl, rfl⟩ | ⟨pre', pl, n, rfl, rfl, hn⟩
      · refine ⟨none, ?_, by simp [parentNodeList]⟩
        unfold levelPairs; rw [hs]; simp
      · refine ⟨some pl, ?_, (mem_parentNodeList_some t pl _).mpr ⟨n, hn, rfl⟩⟩
        unfold levelPairs; rw [hs, List.append_assoc]
        exact mem_zip_of_split pl cl rest pre' none
    obtain ⟨plo, hmem, hp⟩ := hpair
    have facts := levelOK_facts t plo cl (wfb_levelOK hwf hmem)
    obtain ⟨kids, hkids, hkne, hsub⟩ := facts.kids p hp
    have hkne' : kids.isEmpty = false := by
      cases kids with
      | nil => exact absurd rfl hkne
      | cons a b => rfl
    have hsub' : ∀ k ∈ kids, k ∈ t.nodesAt cl := by
      intro k hk
      obtain ⟨k', hk', he⟩ := (mem_parentNodeList_some t cl _).mp (hsub k hk)
      cases he; exact hk'
    have ha := voteFn_mem hv p cl kids c hkne
    have hnode := hsub' _ ha
    simp only [walkFrom, hkids, hkne', Bool.false_eq_true, if_false] at h
    cases hrest : walkFrom t vote c rest (some (cl, (voteFn t vote p cl kids c).assignment)) with
    | error e => rw [hrest] at h; cases h
    | ok tl =>
      rw [hrest] at h
      cases h
      obtain ⟨ih1, ih2⟩ := walkFrom_raw hwf hv hpay c rest (pre ++ [cl])
        (some (cl, (voteFn t vote p cl kids c).assignment)) (by rw [hs]; simp)
        (Or.inr ⟨pre, cl, _, rfl, rfl, hnode⟩) tl hrest
      obtain ⟨hru, hcorr⟩ := voteFn_entry hpay p cl kids c hkne hsub'
      refine ⟨?_, ?_⟩
      · intro le hle
        rcases List.mem_cons.mp hle with h1 | h1
        · subst h1
          exact ⟨by rw [entryOf_assignment]; exact hnode, hru⟩
        · exact ih1 le h1
      · intro hch
        simp only [choiceFrom, kidsD_of_ok hkids] at hch
        by_cases hone : ∃ only, kids = [only]
        · obtain ⟨only, rfl⟩ := hone
          simp only [voteFn, trivialVote] at ih2
          obtain ⟨le, hle, hs'⟩ := ih2 hch
          exact ⟨le, List.mem_cons_of_mem _ hle, hs'⟩
        · exact ⟨_, List.mem_cons_self, hcorr (fun only he => hone ⟨only, he⟩)⟩

/-- the finished walk of one cell: every level of the run's tree is bound, in
order, to a dict that has a node of the level, numbers everywhere, and
runner-up lists of equal length ≤ `n_runners_up` naming nodes of the level -/
theorem walk_good {κ} {t : RawTree} {vote : Oracle κ} {nR : Nat} (hwf : wfb t = true)
    (hv : VoteOK t vote) (hpay : PayloadOK nR t vote) (hch : hasChoice t = true) (c : κ) :
    (walkD t vote c).map (·.1) = t.hierarchy ∧
    ∀ le ∈ walkD t vote c, RawGood nR (t.nodesAt le.1) le.2 ∧
      le.2.corr.isSome = true ∧ le.2.agg.isSome = true := by
  obtain ⟨r, hr, hp⟩ := walk_path hwf hv c
  have hwd : walkD t vote c = r := by simp [walkD, hr]
  rw [hwd]
  refine ⟨hp.1, ?_⟩
  simp only [walk] at hr
  cases hw : walkFrom t vote c t.hierarchy none with
  | error e => rw [hw] at hr; cases hr
  | ok es =>
    rw [hw] at hr
    cases hr
    obtain ⟨h1, h2⟩ := walkFrom_raw hwf hv hpay c t.hierarchy [] none (by simp)
      (Or.inl ⟨rfl, rfl⟩) es hw
    intro le hle
    refine ⟨?_, finishCell_corr es (h2 hch) le hle, finishCell_agg es le hle⟩
    exact finishCell_pres (fun l e => RawGood nR (t.nodesAt l) e) (fun _ _ _ h => h)
      (fun _ _ _ h => h) es h1 le hle

/-! ## the tree of the run versus the stored tree -/

/-- how the tree the run votes on (`t`, after `drop_level` / `flatten`) sits in
the stored tree `t0`: both well-formed, the run's levels are levels of the
stored tree with the same nodes, and the leaf level is voted on -/
structure RunTreeOK (t0 t : RawTree) : Prop where
  wf0 : wfb t0 = true
  wf : wfb t = true
  sub : ∀ l ∈ t.hierarchy, l ∈ t0.hierarchy
  nodes : ∀ l ∈ t.hierarchy, t.nodesAt l = t0.nodesAt l
  leaf : ∀ ll, t0.leafLevel = some ll → ll ∈ t.hierarchy

/-- `child_to_parent[cl][c]`, when defined, is a node of the level above -/
theorem childToParent_mem {t : RawTree} {cl : Level} {c pn : Node}
    (h : t.childToParent cl c = some pn) :
    ∃ pl, t.parentLevel cl = some pl ∧ pn ∈ t.nodesAt pl := by
  simp only [RawTree.childToParent] at h
  cases hp : t.parentLevel cl with
  | none => rw [hp] at h; cases h
  | some pl =>
    rw [hp] at h
    simp only at h
    cases hf : (t.level pl).reverse.find? (fun x => x.2.contains c) with
    | none => rw [hf] at h; cases h
    | some pc =>
      rw [hf] at h
      simp only [Option.map_some, Option.some.injEq] at h
      subst h
      have hmem : pc ∈ t.level pl := List.mem_reverse.mp (List.mem_of_find?_eq_some hf)
      exact ⟨pl, rfl, List.mem_map.mpr ⟨pc, hmem, rfl⟩⟩

/-- induction up a chain of levels (`xs` = the hierarchy, leaf level first) -/
theorem chain_up (P : Level → Prop) : ∀ (xs : List Level),
    (∀ l, xs.head? = some l → P l) → (∀ cp ∈ pairsOf xs, P cp.1 → P cp.2) → ∀ l ∈ xs, P l
  | [], _, _ => by simp
  | [c], h0, _ => by
    intro l hl
    simp only [List.mem_singleton] at hl
    subst hl; exact h0 l rfl
  | c :: p :: rest, h0, hstep => by
    have hpairs : pairsOf (c :: p :: rest) = (c, p) :: pairsOf (p :: rest) := by simp [pairsOf]
    have hc : P c := h0 c rfl
    have hp : P p := hstep (c, p) (by rw [hpairs]; simp) hc
    have ih := chain_up P (p :: rest) (fun l hl => by simp at hl; subst hl; exact hp)
      (fun cp hm => hstep cp (by rw [hpairs]; exact List.mem_cons_of_mem _ hm))
    intro l hl
    rcases List.mem_cons.mp hl with h | h
    · subst h; exact hc
    · exact ih l h

/-- the flagged walk of a cell, level by level -/
theorem flagged_lookup {κ} {t : RawTree} {vote : Oracle κ} {nR : Nat} (hwf : wfb t = true)
    (hv : VoteOK t vote) (hpay : PayloadOK nR t vote) (hch : hasChoice t = true)
    (id : CellId) (c : κ) :
    (∀ l ∈ t.hierarchy, ∃ e,
      (markDirect t.hierarchy (mkRecord t vote id c)).levels.lookup l = some e ∧
        Good nR (t.nodesAt l) true e) ∧
    ∀ l, l ∉ t.hierarchy →
      (markDirect t.hierarchy (mkRecord t vote id c)).levels.lookup l = none := by
  obtain ⟨hkeys, hall⟩ := walk_good hwf hv hpay hch c
  refine ⟨?_, ?_⟩
  · intro l hl
    rw [markDirect_lookup]
    have hsome : ((mkRecord t vote id c).levels.lookup l).isSome = true :=
      lookup_isSome_of_keys _ l (by simp only [mkRecord]; rw [hkeys]; exact hl)
    cases hlk : (mkRecord t vote id c).levels.lookup l with
    | none => rw [hlk] at hsome; cases hsome
    | some e0 =>
      have hmem : (l, e0) ∈ walkD t vote c := mem_of_lookup _ l e0 hlk
      obtain ⟨⟨hnode, hru⟩, hcorr, hagg⟩ := hall (l, e0) hmem
      have hc : t.hierarchy.contains l = true := List.contains_iff_mem.mpr hl
      refine ⟨_, rfl, ?_⟩
      simp only [flagDirect, hc, if_true]
      exact ⟨hnode, hcorr, hagg, rfl, fun _ => hru, fun h => by cases h⟩
  · intro l hl
    apply lookup_none_of_not_keys
    rw [record_keys hwf hv id c]
    exact hl

/-- **one record of the output.**  Whatever `backfill_assignments` returns for
the flagged walk of a cell binds every level of the stored hierarchy: a voted
level (one of the run's tree) to a `directly_assigned = True` dict with
runner-up lists, any other level to an inferred dict (`False`, no runner-up
keys, numbers copied from below), each assignment a node of its level in the
stored tree. -/
theorem cellResult_good {κ} {t0 t : RawTree} {vote : Oracle κ} {nR : Nat} (rt : RunTreeOK t0 t)
    (hv : VoteOK t vote) (hpay : PayloadOK nR t vote) (hch : hasChoice t = true)
    (id : CellId) (c : κ) (o : Record) (h : cellResult t0 t vote id c = .ok o) :
    o.cellId = id ∧
    ∀ l ∈ t0.hierarchy, ∃ e, o.levels.lookup l = some e ∧
      Good nR (t0.nodesAt l) (t.hierarchy.contains l) e := by
  have hnd0 := wfb_nodup_hierarchy rt.wf0
  obtain ⟨hin, hout⟩ := flagged_lookup rt.wf hv hpay hch id c
  unfold cellResult at h
  rw [dropCells_hierarchy] at h
  have hhead : ∀ l, t0.hierarchy.reverse.head? = some l →
      ((markDirect t.hierarchy (mkRecord t vote id c)).levels.lookup l).isSome = true := by
    intro l hl
    rw [List.head?_reverse] at hl
    obtain ⟨e, he, _⟩ := hin l (rt.leaf l hl)
    rw [he]; rfl
  obtain ⟨hid, hkeep, _, _, hinf⟩ := backfillPairs_ok_spec t0.dropCells t0.hierarchy.reverse _ o
    (nodup_reverse hnd0) hhead h
  refine ⟨by rw [hid]; rfl, ?_⟩
  -- a voted level keeps its dict
  have hvoted : ∀ l ∈ t.hierarchy, ∃ e, o.levels.lookup l = some e ∧
      Good nR (t0.nodesAt l) (t.hierarchy.contains l) e := by
    intro l hl
    obtain ⟨e, he, hg⟩ := hin l hl
    refine ⟨e, hkeep l e he, ?_⟩
    rw [List.contains_iff_mem.mpr hl, ← rt.nodes l hl]
    exact hg
  intro l hl
  refine chain_up (fun l => ∃ e, o.levels.lookup l = some e ∧
    Good nR (t0.nodesAt l) (t.hierarchy.contains l) e) t0.hierarchy.reverse ?_ ?_ l
    (List.mem_reverse.mpr hl)
  · intro x hx
    rw [List.head?_reverse] at hx
    exact hvoted x (rt.leaf x hx)
  · rintro ⟨cl, pl⟩ hm ⟨ec, hec, hgc⟩
    by_cases hpl : pl ∈ t.hierarchy
    · exact hvoted pl hpl
    · obtain ⟨ec', pn, hec', hq, hpe⟩ := hinf (cl, pl) hm (hout pl hpl)
      simp only at hec' hq hpe hec
      rw [hec] at hec'
      cases hec'
      rw [childToParent_dropCells hnd0] at hq
      obtain ⟨a, b, hs⟩ := (mem_pairsOf_reverse_iff cl pl t0.hierarchy).mp hm
      obtain ⟨pl', hpl', hmem⟩ := childToParent_mem hq
      rw [parentLevel_of_split hnd0 hs] at hpl'
      cases hpl'
      have hcf : t.hierarchy.contains pl = false := by
        cases hb : t.hierarchy.contains pl with
        | false => rfl
        | true => exact absurd (List.contains_iff_mem.mp hb) hpl
      refine ⟨_, hpe, ?_⟩
      rw [hcf]
      exact ⟨hmem, hgc.corr, hgc.agg, rfl, fun h => (by cases h), fun _ => rfl⟩

/-! ### `RunTreeOK` for every tree `_run_mapping` can vote on -/

theorem runTreeOK_plain {t0 : RawTree} (hwf : wfb t0 = true) : RunTreeOK t0 t0 :=
  ⟨hwf, hwf, fun _ h => h, fun _ _ => rfl, fun _ h => List.mem_of_getLast? h⟩

theorem RunTreeOK.trans {t0 t1 t2 : RawTree} (h1 : RunTreeOK t0 t1) (h2 : RunTreeOK t1 t2)
    (hleaf : t1.leafLevel = t0.leafLevel) : RunTreeOK t0 t2 :=
  ⟨h1.wf0, h2.wf, fun l hl => h1.sub l (h2.sub l hl),
   fun l hl => by rw [h2.nodes l hl, h1.nodes l (h2.sub l hl)],
   fun ll hl => h2.leaf ll (by rw [hleaf]; exact hl)⟩

theorem runTreeOK_flatten {t0 : RawTree} (hwf : wfb t0 = true) : RunTreeOK t0 t0.flatten := by
  cases hl : t0.leafLevel with
  | none =>
    have : t0.flatten = t0 := by simp [RawTree.flatten, hl]
    rw [this]; exact runTreeOK_plain hwf
  | some ll =>
    have hnd := wfb_nodup_hierarchy hwf
    have hfh : t0.flatten.hierarchy = [ll] := by simp only [RawTree.flatten, hl]
    refine ⟨hwf, wfb_flatten hwf hl, ?_, ?_, ?_⟩
    · intro l h
      rw [hfh, List.mem_singleton] at h
      subst h; exact List.mem_of_getLast? hl
    · intro l h
      rw [hfh, List.mem_singleton] at h
      subst h; exact flatten_nodesAt_leaf hnd hl
    · intro ll' h
      have : some ll = some ll' := hl.symm.trans h
      cases this
      rw [hfh]; simp

/-- `drop_level` never removes the leaf level -/
theorem dropLevel_not_leaf {t t' : RawTree} {l : Level} (h : t.dropLevel l = .ok t') :
    t.leafLevel ≠ some l := by
  unfold RawTree.dropLevel at h
  cases hraw : t.dropLevelRaw l with
  | error e => rw [hraw] at h; cases h
  | ok t1 =>
    unfold RawTree.dropLevelRaw at hraw
    split at hraw
    · cases hraw
    · cases hidx : t.levelIdx l with
      | none => simp only [hidx] at hraw; cases hraw
      | some idx =>
        simp only [hidx] at hraw
        split at hraw
        · cases hraw
        · rename_i hnl
          intro he
          apply hnl
          simp [he]

/-- a level that `drop_level` accepts sits strictly above another level -/
theorem dropLevel_split {t t' : RawTree} {l : Level} (h : t.dropLevel l = .ok t') :
    ∃ pre cl post, t.hierarchy = pre ++ l :: cl :: post := by
  obtain ⟨hmem, _⟩ := dropLevel_hierarchy h
  obtain ⟨pre, rest, hs⟩ := List.append_of_mem hmem
  cases rest with
  | nil =>
    exfalso
    apply dropLevel_not_leaf h
    simp [RawTree.leafLevel, hs]
  | cons cl post => exact ⟨pre, cl, post, hs⟩

theorem runTreeOK_drop {t0 t' : RawTree} {l : Level} (hwf : wfb t0 = true)
    (h : t0.dropLevel l = .ok t') : RunTreeOK t0 t' ∧ t'.leafLevel = t0.leafLevel := by
  have hnd := wfb_nodup_hierarchy hwf
  obtain ⟨pre, cl, post, hs⟩ := dropLevel_split h
  obtain ⟨_, hh'⟩ := dropLevel_hierarchy h
  have hl_pre : l ∉ pre := by
    intro hm
    rw [hs] at hnd
    exact (List.nodup_append.mp hnd).2.2 l hm l (by simp) rfl
  have hh'' : t'.hierarchy = pre ++ cl :: post := by
    rw [hh', hs, List.erase_append_right _ hl_pre, List.erase_cons_head]
  have hmem0 : ∀ x, x ∈ t'.hierarchy → x ≠ l ∧ x ∈ t0.hierarchy := by
    intro x hx; rw [hh'] at hx; exact hnd.mem_erase_iff.mp hx
  have hleaf : t'.leafLevel = t0.leafLevel := by
    simp only [RawTree.leafLevel, hh'', hs, List.getLast?_append, List.getLast?_cons_cons]
  refine ⟨⟨hwf, wfb_dropLevel hwf h hs, fun x hx => (hmem0 x hx).2, ?_, ?_⟩, hleaf⟩
  · intro x hx
    exact drop_nodesAt h (post := cl :: post) hs hnd (hmem0 x hx).1
  · intro ll hll
    rw [← hleaf] at hll
    exact List.mem_of_getLast? hll

/-- **every tree `_run_mapping` can hand to the election** (`drop_level` of an
absent level is a no-op, of a present non-leaf level `_drop_level`; then
`flatten` if asked) relates to the stored tree as `RunTreeOK` demands -/
theorem runTreeOK_of_runTree {t0 t : RawTree} {cfg : Config} (hwf : wfb t0 = true)
    (h : runTree t0 cfg = .ok t) : RunTreeOK t0 t := by
  unfold runTree at h
  -- the tree after the `drop_level` block
  have key : ∀ t1, RunTreeOK t0 t1 → t1.leafLevel = t0.leafLevel →
      RunTreeOK t0 (if cfg.flatten then t1.flatten else t1) := by
    intro t1 h1 hl
    cases cfg.flatten with
    | false => exact h1
    | true =>
      refine h1.trans (runTreeOK_flatten h1.wf) hl
  cases hd : cfg.dropLevel with
  | none =>
    simp only [hd] at h
    cases h
    exact key t0 (runTreeOK_plain hwf) rfl
  | some l =>
    simp only [hd] at h
    by_cases hc : t0.hierarchy.contains l = true
    · simp only [hc, if_true] at h
      cases hdl : t0.dropLevel l with
      | error e => rw [hdl] at h; cases h
      | ok t' =>
        rw [hdl] at h
        simp only at h
        cases h
        obtain ⟨h1, h2⟩ := runTreeOK_drop hwf hdl
        exact key t' h1 h2
    · simp only [hc] at h
      cases h
      exact key t0 (runTreeOK_plain hwf) rfl

/-! ## from the records to `Output.outInv` -/

theorem lookup_filterMap_none {β γ} (m : List (Nat × β)) (f : β → γ) :
    ∀ (h : List Nat) (l : Nat), l ∉ h →
      (h.filterMap (fun k => (m.lookup k).map (fun e => (k, f e)))).lookup l = none
  | [], _, _ => rfl
  | k :: ks, l, hl => by
    have hne : l ≠ k := fun he => hl (by simp [he])
    have hl' : l ∉ ks := fun hm => hl (List.mem_cons_of_mem _ hm)
    have hb : (l == k) = false := by simpa using hne
    simp only [List.filterMap_cons]
    cases m.lookup k with
    | none => exact lookup_filterMap_none m f ks l hl'
    | some e =>
      simp only [Option.map_some, List.lookup, hb]
      exact lookup_filterMap_none m f ks l hl'

/-- looking a level up in the re-listed dict = looking it up in the dict -/
theorem lookup_filterMap_keys {β γ} (m : List (Nat × β)) (f : β → γ) :
    ∀ (h : List Nat), h.Nodup → ∀ l ∈ h,
      (h.filterMap (fun k => (m.lookup k).map (fun e => (k, f e)))).lookup l = (m.lookup l).map f
  | [], _, _, hl => by cases hl
  | k :: ks, hnd, l, hl => by
    have hnd' := List.nodup_cons.mp hnd
    simp only [List.filterMap_cons]
    by_cases he : l = k
    · subst he
      cases hk : m.lookup l with
      | none =>
        simp only [Option.map_none]
        exact lookup_filterMap_none m f ks l hnd'.1
      | some e => simp
    · have hb : (l == k) = false := by simpa using he
      have hl' : l ∈ ks := by
        rcases List.mem_cons.mp hl with h | h
        · exact absurd h he
        · exact h
      cases m.lookup k with
      | none => exact lookup_filterMap_keys m f ks hnd'.2 l hl'
      | some e =>
        simp only [Option.map_some, List.lookup, hb]
        exact lookup_filterMap_keys m f ks hnd'.2 l hl'

theorem keys_filterMap_all {β γ} (m : List (Nat × β)) (f : β → γ) :
    ∀ (h : List Nat), (∀ k ∈ h, (m.lookup k).isSome = true) →
      (h.filterMap (fun k => (m.lookup k).map (fun e => (k, f e)))).map (·.1) = h
  | [], _ => rfl
  | k :: ks, hall => by
    have hk := hall k (by simp)
    simp only [List.filterMap_cons]
    cases hlk : m.lookup k with
    | none => rw [hlk] at hk; cases hk
    | some e =>
      simp only [Option.map_some, List.map_cons]
      rw [keys_filterMap_all m f ks (fun x hx => hall x (List.mem_cons_of_mem _ hx))]

theorem nodupB_of_nodup : ∀ (xs : List Nat), xs.Nodup → Output.nodupB xs = true
  | [], _ => rfl
  | x :: xs, h => by
    have h' := List.nodup_cons.mp h
    simp only [Output.nodupB, Bool.and_eq_true, Bool.not_eq_true']
    exact ⟨by simpa using h'.1, nodupB_of_nodup xs h'.2⟩

theorem levelsOK_of_forall (T : Output.Tree) (nR : Nat) (first : Output.Record) :
    ∀ (ls : List (Output.Lvl × Output.LevelRec)),
      (∀ x ∈ ls, ∃ nodes f, T.nodesAt x.1 = some nodes ∧ first.levels.lookup x.1 = some f ∧
        Output.levelOK nodes nR f.direct x.2 = true) →
      Output.levelsOK T nR first ls = true
  | [], _ => rfl
  | (l, lr) :: rest, h => by
    obtain ⟨nodes, f, h1, h2, h3⟩ := h (l, lr) (by simp)
    simp only [Output.levelsOK, h1, h2, h3, Bool.true_and]
    exact levelsOK_of_forall T nR first rest (fun x hx => h x (List.mem_cons_of_mem _ hx))

/-- the node list of a level, read from the embedded tree -/
theorem embedded_nodesAt {t0 : RawTree} (hwf : wfb t0 = true) (nm : NameMapper)
    (hm : HierarchyMapper) (dl : Option Level) (fl : Bool) {l : Level} (hl : l ∈ t0.hierarchy) :
    (Output.embeddedTree (toTree t0 nm hm) dl fl).nodesAt l = some (t0.nodesAt l) := by
  simp only [Output.embeddedTree, Output.dropCells_nodesAt]
  have hne := wfb_nodesAt_nonempty hwf hl
  simp only [Output.Tree.nodesAt, toTree, RawTree.nodesAt, RawTree.level] at hne ⊢
  cases hlk : t0.levels.lookup l with
  | none => rw [hlk] at hne; simp at hne
  | some m => simp

theorem embedded_hierarchy (t0 : RawTree) (nm : NameMapper) (hm : HierarchyMapper)
    (dl : Option Level) (fl : Bool) :
    (Output.embeddedTree (toTree t0 nm hm) dl fl).hierarchy = t0.hierarchy := rfl

/-- records that bind every stored level to a `Good` dict, with a flag that
depends on the level only, make a blob that satisfies `outInv` -/
theorem outInv_of_records (t0 : RawTree) (cfg : Config) (nm : NameMapper) (hm : HierarchyMapper)
    (nR : Nat) (flag : Level → Bool) (out : List Record) (hne : out ≠ [])
    (hwf0 : wfb t0 = true)
    (hgood : ∀ o ∈ out, ∀ l ∈ t0.hierarchy, ∃ e, o.levels.lookup l = some e ∧
      Good nR (t0.nodesAt l) (flag l) e) :
    Output.outInv (toBlob t0 cfg nm hm nR out) = true := by
  have hnd0 := wfb_nodup_hierarchy hwf0
  cases out with
  | nil => exact absurd rfl hne
  | cons first rest =>
    simp only [Output.outInv, toBlob, List.map_cons, embedded_hierarchy, Bool.and_eq_true,
      List.all_eq_true, beq_iff_eq]
    refine ⟨nodupB_of_nodup _ hnd0, ?_⟩
    intro r' hr'
    have hr'' : ∃ o ∈ first :: rest, r' = toRecord t0.hierarchy o := by
      rcases List.mem_cons.mp hr' with h | h
      · exact ⟨first, by simp, h⟩
      · obtain ⟨o, ho, rfl⟩ := List.mem_map.mp h
        exact ⟨o, List.mem_cons_of_mem _ ho, rfl⟩
    obtain ⟨o, ho, rfl⟩ := hr''
    refine ⟨?_, ?_⟩
    · exact keys_filterMap_all o.levels toLevelRec t0.hierarchy
        (fun k hk => by obtain ⟨e, he, _⟩ := hgood o ho k hk; rw [he]; rfl)
    · apply levelsOK_of_forall
      intro x hx
      simp only [toRecord, List.mem_filterMap] at hx
      obtain ⟨l, hl, hx⟩ := hx
      obtain ⟨e, he, hg⟩ := hgood o ho l hl
      rw [he] at hx
      simp only [Option.map_some, Option.some.injEq] at hx
      subst hx
      obtain ⟨e0, he0, hg0⟩ := hgood first (by simp) l hl
      refine ⟨t0.nodesAt l, toLevelRec e0, embedded_nodesAt hwf0 nm hm _ _ hl, ?_, ?_⟩
      · simp only [toRecord]
        rw [lookup_filterMap_keys first.levels toLevelRec t0.hierarchy hnd0 l hl, he0]
        rfl
      · have hd : (toLevelRec e0).direct = flag l := by
          simp only [toLevelRec, hg0.direct, Option.getD_some]
        rw [hd]
        exact levelOK_of_good hg

theorem mapM_mem {α β ε} (f : α → Except ε β) : ∀ (rs : List α) (out : List β),
    rs.mapM f = .ok out → out.length = rs.length ∧ ∀ o ∈ out, ∃ r ∈ rs, f r = .ok o
  | [], out, h => by simp at h; cases h; simp
  | a :: rs, out, h => by
    simp only [List.mapM_cons] at h
    cases h1 : f a with
    | error e => rw [h1] at h; cases h
    | ok a' =>
      cases h2 : rs.mapM f with
      | error e => rw [h1, h2] at h; cases h
      | ok out' =>
        rw [h1, h2] at h
        cases h
        obtain ⟨ih1, ih2⟩ := mapM_mem f rs out' h2
        refine ⟨by simp [ih1], ?_⟩
        intro o ho
        rcases List.mem_cons.mp ho with h | h
        · subst h; exact ⟨a, by simp, h1⟩
        · obtain ⟨r, hr, hfr⟩ := ih2 o h
          exact ⟨r, List.mem_cons_of_mem _ hr, hfr⟩

/-- every record of a successful pipeline run is the finished record
(`cellResult`) of one of the query cells -/
theorem pipeline_records {κ} (t0 t : RawTree) (cfg : Config) (vote : Oracle κ)
    (ids : List CellId) (cells : List κ) (order : List Nat)
    (hrun : runTree t0 cfg = .ok t) (hwf : wfb t = true) (hv : VoteOK t vote)
    (hlen : ids.length = cells.length) (hnd : ids.Nodup)
    (hproc : 1 ≤ cfg.nProc) (hcs : 1 ≤ cfg.chunkSize)
    (horder : order.Perm (List.range
      (chunks cells.length (effChunk cells.length cfg.nProc cfg.chunkSize)).length))
    (out : List Record) (hout : mapPipeline t0 cfg vote ids cells order = .ok out) :
    out.length = cells.length ∧
    ∀ o ∈ out, ∃ id c, cellResult t0 t vote id c = .ok o := by
  rw [mapPipeline_spec t0 t cfg vote ids cells order hrun hwf hv hlen hnd hproc hcs horder] at hout
  unfold backfill at hout
  obtain ⟨h1, h2⟩ := mapM_mem _ _ out hout
  refine ⟨by simpa [hlen] using h1, ?_⟩
  intro o ho
  obtain ⟨r, hr, hfr⟩ := h2 o ho
  obtain ⟨r0, hr0, rfl⟩ := List.mem_map.mp hr
  obtain ⟨id, c, rfl⟩ := mem_zipWith_exists _ ids cells r0 hr0
  exact ⟨id, c, hfr⟩

/-- **The output of the mapping loop satisfies the invariant of the
serialisers.**  Stored tree `t0` well-formed (`wfb`); `t` the tree the run
votes on — any `drop_level` (absent, top or middle level), `flatten` on or off,
or both; the oracle returns children (`VoteOK`) with a payload as `PayloadOK`
describes; the run's tree offers a choice on every way down (`hasChoice`,
otherwise `avg_correlation` is legitimately `null`); at least one cell,
distinct ids; any chunk size ≥ 1, worker count ≥ 1 and gather order.  Then
whatever `mapPipeline` returns converts to a blob with `outInv`. -/
theorem outInv_of_pipeline {κ} (t0 t : RawTree) (cfg : Config) (vote : Oracle κ)
    (nm : NameMapper) (hm : HierarchyMapper) (nR : Nat)
    (ids : List CellId) (cells : List κ) (order : List Nat)
    (hwf0 : wfb t0 = true) (hrun : runTree t0 cfg = .ok t)
    (hv : VoteOK t vote) (hpay : PayloadOK nR t vote) (hch : hasChoice t = true)
    (hcells : cells ≠ []) (hlen : ids.length = cells.length) (hnd : ids.Nodup)
    (hproc : 1 ≤ cfg.nProc) (hcs : 1 ≤ cfg.chunkSize)
    (horder : order.Perm (List.range
      (chunks cells.length (effChunk cells.length cfg.nProc cfg.chunkSize)).length))
    (out : List Record) (hout : mapPipeline t0 cfg vote ids cells order = .ok out) :
    Output.outInv (toBlob t0 cfg nm hm nR out) = true := by
  have rt := runTreeOK_of_runTree hwf0 hrun
  obtain ⟨hl, hrec⟩ := pipeline_records t0 t cfg vote ids cells order hrun rt.wf hv hlen hnd
    hproc hcs horder out hout
  have hne : out ≠ [] := by
    intro he
    rw [he] at hl
    exact hcells (List.eq_nil_of_length_eq_zero hl.symm)
  apply outInv_of_records t0 cfg nm hm nR (fun l => t.hierarchy.contains l) out hne hwf0
  intro o ho
  obtain ⟨id, c, hc⟩ := hrec o ho
  exact (cellResult_good rt hv hpay hch id c o hc).2

/-! ## what the conversion keeps: record-level facts of a pipeline output -/

/-- the dict of a finished record, level by level: exactly the levels of the
stored hierarchy are bound; a level the run voted on keeps the dict of the
flagged walk; a level it did not vote on is `inferred` from the level right
below it (parent looked up in the stored tree) -/
theorem cellResult_levels {κ} {t0 t : RawTree} {vote : Oracle κ} (rt : RunTreeOK t0 t)
    (hv : VoteOK t vote) (id : CellId) (c : κ) (o : Record)
    (h : cellResult t0 t vote id c = .ok o) :
    (∀ l, (o.levels.lookup l).isSome = true ↔ l ∈ t0.hierarchy) ∧
    (∀ l ∈ t.hierarchy, o.levels.lookup l =
      (markDirect t.hierarchy (mkRecord t vote id c)).levels.lookup l) ∧
    (∀ cp ∈ pairsOf t0.hierarchy.reverse, cp.2 ∉ t.hierarchy →
      ∃ ec pn, o.levels.lookup cp.1 = some ec ∧ t0.childToParent cp.1 ec.assignment = some pn ∧
        o.levels.lookup cp.2 = some (inferred ec pn)) := by
  have hnd0 := wfb_nodup_hierarchy rt.wf0
  have hkeys := record_keys rt.wf hv id c
  have hin : ∀ l ∈ t.hierarchy,
      ((markDirect t.hierarchy (mkRecord t vote id c)).levels.lookup l).isSome = true :=
    fun l hl => lookup_isSome_of_keys _ l (by rw [hkeys]; exact hl)
  have hout : ∀ l, l ∉ t.hierarchy →
      (markDirect t.hierarchy (mkRecord t vote id c)).levels.lookup l = none :=
    fun l hl => lookup_none_of_not_keys _ l (by rw [hkeys]; exact hl)
  unfold cellResult at h
  rw [dropCells_hierarchy] at h
  have hhead : ∀ l, t0.hierarchy.reverse.head? = some l →
      ((markDirect t.hierarchy (mkRecord t vote id c)).levels.lookup l).isSome = true := by
    intro l hl
    rw [List.head?_reverse] at hl
    exact hin l (rt.leaf l hl)
  obtain ⟨_, hkeep, hother, hall, hinf⟩ := backfillPairs_ok_spec t0.dropCells
    t0.hierarchy.reverse _ o (nodup_reverse hnd0) hhead h
  refine ⟨?_, ?_, ?_⟩
  · intro l
    constructor
    · intro hs
      by_cases hl : l ∈ t0.hierarchy
      · exact hl
      · exfalso
        rw [hother l (fun hm => hl (List.mem_reverse.mp hm)),
          hout l (fun hm => hl (rt.sub l hm))] at hs
        cases hs
    · intro hl
      exact hall l (List.mem_reverse.mpr hl)
  · intro l hl
    cases hlk : (markDirect t.hierarchy (mkRecord t vote id c)).levels.lookup l with
    | none => have := hin l hl; rw [hlk] at this; cases this
    | some e => exact hkeep l e hlk
  · intro cp hm hnot
    obtain ⟨ec, pn, h1, h2, h3⟩ := hinf cp hm (hout cp.2 hnot)
    exact ⟨ec, pn, h1, by rw [← childToParent_dropCells hnd0]; exact h2, h3⟩

/-- **`toRecord` forgets only the order of the per-level dict**: on a finished
record, looking any level up after the conversion is looking it up before -/
theorem toRecord_lookup {κ} {t0 t : RawTree} {vote : Oracle κ} (rt : RunTreeOK t0 t)
    (hv : VoteOK t vote) (id : CellId) (c : κ) (o : Record)
    (h : cellResult t0 t vote id c = .ok o) (l : Level) :
    (toRecord t0.hierarchy o).levels.lookup l = (o.levels.lookup l).map toLevelRec := by
  obtain ⟨hk, _, _⟩ := cellResult_levels rt hv id c o h
  by_cases hl : l ∈ t0.hierarchy
  · exact lookup_filterMap_keys o.levels toLevelRec t0.hierarchy (wfb_nodup_hierarchy rt.wf0) l hl
  · have : o.levels.lookup l = none := by
      cases hlk : o.levels.lookup l with
      | none => rfl
      | some e => exact absurd ((hk l).mp (by rw [hlk]; rfl)) hl
    rw [this]
    exact lookup_filterMap_none o.levels toLevelRec t0.hierarchy l hl

/-! ## the interpreted oracle: `choose_node` (group C's `Election.chooseCell`) -/

/-- the answer of `_run_type_assignment` for one cell, read off the result of
`choose_node`: winner, vote share, average correlation (always a float) and the
runner-up tuples `(type, votes > 0, avg_corr, vote share)` -/
def voteOfChoice (ch : Election.Choice) : Vote :=
  { assignment := ch.winner, prob := ch.prob, corr := some ch.avgCorr,
    runnersUp := some (ch.runners.map (fun r =>
      { node := r.type, valid := r.valid, corr := r.avgCorr, prob := r.prob })) }

/-- the two models agree on the write-back: D's `entryOf` of the interpreted
vote is the dict with C's `keepRunners` as runner-up lists -/
theorem entryOf_voteOfChoice (ch : Election.Choice) :
    entryOf (voteOfChoice ch) =
      { assignment := ch.winner, prob := ch.prob, corr := some ch.avgCorr,
        ru := some (Election.keepRunners ch.runners) } := by
  simp only [entryOf, voteOfChoice, Election.keepRunners, List.filter_map, List.map_map]
  rfl

/-! ## the two models of the post-loops agree

Group C (`Election.finishCell`, one cell, records in hierarchy order) and group
D (`LevelLoop.finishCell`, inside the level loop) both model the correlation
backfill and the running product of `run_type_assignment`.  They are the same
function up to the record types. -/

/-- D's per-level dict as C's record of the level loop (runner-up lists `[]`
when the keys are absent) -/
def toElectionRec (e : Entry) : Election.LevelRec :=
  { assignment := e.assignment, prob := e.prob, avgCorr := e.corr,
    runnerAssignment := (e.ru.getD ([], [], [])).1
    runnerCorrelation := (e.ru.getD ([], [], [])).2.1
    runnerProbability := (e.ru.getD ([], [], [])).2.2 }

/-- D's finished dict as C's finished record (absent aggregate ↦ 0, absent
flag ↦ false; both are present in a pipeline output) -/
def toElectionOut (e : Entry) : Election.OutRec :=
  { assignment := e.assignment, prob := e.prob, avgCorr := e.corr,
    aggregate := e.agg.getD 0, runners := e.ru, directlyAssigned := e.direct.getD false }

theorem fillCorr_agree : ∀ (prev : Option Rat) (es : List (Level × Entry)),
    (fillCorr prev es).map (fun le => toElectionRec le.2) =
      Election.fillDown prev (es.map (fun le => toElectionRec le.2))
  | _, [] => rfl
  | prev, (l, e) :: rest => by
    simp only [fillCorr, List.map_cons, Election.fillDown]
    cases hc : e.corr with
    | none =>
      have h1 : (toElectionRec e).avgCorr = none := hc
      simp only [h1]
      rw [fillCorr_agree prev rest]
      rfl
    | some x =>
      have h1 : (toElectionRec e).avgCorr = some x := hc
      simp only [h1]
      rw [hc, fillCorr_agree (some x) rest]
      congr 1
      simp only [toElectionRec, hc]

theorem fillDown_agree : ∀ (es : List (Level × Entry)),
    (LevelLoop.fillDown es).map (fun le => toElectionRec le.2) =
      Election.fillDown none (es.map (fun le => toElectionRec le.2))
  | [] => rfl
  | (l, e) :: rest => by
    simp only [LevelLoop.fillDown, List.map_cons, Election.fillDown]
    rw [fillCorr_agree e.corr rest]
    cases hc : e.corr with
    | none =>
      have h1 : (toElectionRec e).avgCorr = none := hc
      simp only [h1]
      congr 1
      simp only [toElectionRec, hc]
    | some x =>
      have h1 : (toElectionRec e).avgCorr = some x := hc
      simp only [h1]
      congr 1
      simp only [toElectionRec, hc]

/-- the value `prev` has after C's top-down sweep has passed `xs` -/
def lastCorr : Option Rat → List Election.LevelRec → Option Rat
  | prev, [] => prev
  | prev, r :: rs =>
    lastCorr (match r.avgCorr with
      | some c => some c
      | none => prev) rs

theorem election_fillDown_append : ∀ (xs : List Election.LevelRec) (prev : Option Rat)
    (ys : List Election.LevelRec),
    Election.fillDown prev (xs ++ ys) =
      Election.fillDown prev xs ++ Election.fillDown (lastCorr prev xs) ys
  | [], _, _ => rfl
  | r :: rs, prev, ys => by
    simp only [List.cons_append, Election.fillDown, lastCorr]
    exact congrArg _ (election_fillDown_append rs _ ys)

theorem lastCorr_append : ∀ (xs : List Election.LevelRec) (prev : Option Rat)
    (ys : List Election.LevelRec), lastCorr prev (xs ++ ys) = lastCorr (lastCorr prev xs) ys
  | [], _, _ => rfl
  | r :: rs, prev, ys => by
    simp only [List.cons_append, lastCorr]
    rw [lastCorr_append rs _ ys]

/-- `avg_correlation` of the first record -/
def headCorr : List Election.LevelRec → Option Rat
  | [] => none
  | r :: _ => r.avgCorr

/-- C's bottom-up sweep (structural recursion) is D's (top-down sweep of the
reversed list) -/
theorem election_fillUp_eq : ∀ (rs : List Election.LevelRec),
    Election.fillUp rs = (Election.fillDown none rs.reverse).reverse ∧
    headCorr (Election.fillUp rs) = lastCorr none rs.reverse
  | [] => ⟨rfl, rfl⟩
  | r :: rs => by
    obtain ⟨ih1, ih2⟩ := election_fillUp_eq rs
    refine ⟨?_, ?_⟩
    · simp only [Election.fillUp, List.reverse_cons, election_fillDown_append, List.reverse_append,
        Election.fillDown, List.reverse_nil, List.nil_append,
        List.singleton_append, ← ih1, ← ih2]
      cases Election.fillUp rs <;> rfl
    · simp only [Election.fillUp, headCorr, List.reverse_cons, lastCorr_append, lastCorr, ← ih2]
      cases Election.fillUp rs <;> rfl

theorem fillUp_agree (es : List (Level × Entry)) :
    (LevelLoop.fillUp es).map (fun le => toElectionRec le.2) =
      Election.fillUp (es.map (fun le => toElectionRec le.2)) := by
  rw [(election_fillUp_eq _).1]
  simp only [LevelLoop.fillUp, List.map_reverse, fillDown_agree]

theorem addAggregate_agree : ∀ (acc : Rat) (es : List (Level × Entry)),
    (∀ le ∈ es, le.2.ru.isSome = true) →
    (addAggregate acc es).map (fun le => toElectionOut { le.2 with direct := some true }) =
      (List.zip (es.map (fun le => toElectionRec le.2))
        (Election.runningProduct acc (es.map (fun le => le.2.prob)))).map
        (fun (ra : Election.LevelRec × Rat) =>
          ({ assignment := ra.1.assignment, prob := ra.1.prob, avgCorr := ra.1.avgCorr,
             aggregate := ra.2,
             runners := some (ra.1.runnerAssignment, ra.1.runnerCorrelation,
               ra.1.runnerProbability),
             directlyAssigned := true } : Election.OutRec))
  | _, [], _ => rfl
  | acc, (l, e) :: rest, h => by
    have he := h (l, e) (by simp)
    simp only [addAggregate, List.map_cons, Election.runningProduct, List.zip_cons_cons]
    rw [addAggregate_agree (acc * e.prob) rest (fun x hx => h x (List.mem_cons_of_mem _ hx))]
    congr 1
    cases hru : e.ru with
    | none => rw [hru] at he; cases he
    | some r => simp [toElectionOut, toElectionRec, hru]

/-- **D's `finishCell` is C's `finishCell`** (on the dicts the level loop
writes, which always carry the runner-up keys), the `directly_assigned = True`
mark of `run_type_assignment_on_h5ad` included.  So `C03.finished_level`,
`C03.aggregate`, `C03.single_child`, `C03.pure_chain` speak about the records
of group D's pipeline. -/
theorem finishCell_agree (es : List (Level × Entry)) (h : ∀ le ∈ es, le.2.ru.isSome = true) :
    (LevelLoop.finishCell es).map (fun le => toElectionOut { le.2 with direct := some true }) =
      Election.finishCell (es.map (fun le => toElectionRec le.2)) := by
  have hru : ∀ le ∈ LevelLoop.fillUp (LevelLoop.fillDown es), le.2.ru.isSome = true :=
    fillUp_pres (fun _ e => e.ru.isSome = true) (fun _ _ _ h => h) _
      (fillDown_pres (fun _ e => e.ru.isSome = true) (fun _ _ _ h => h) es h)
  simp only [LevelLoop.finishCell, Election.finishCell]
  rw [addAggregate_agree 1 _ hru, fillUp_agree, fillDown_agree]
  have hp : (LevelLoop.fillUp (LevelLoop.fillDown es)).map (fun le => le.2.prob) =
      (Election.fillUp (Election.fillDown none (es.map (fun le => toElectionRec le.2)))).map
        (·.prob) := by
    rw [← fillDown_agree, ← fillUp_agree, List.map_map]
    rfl
  rw [hp]

/-! ## the two models of `backfill_assignments` agree -/

/-- D's record as C's `Cell` (level ↦ finished record, a Python dict) -/
def toElectionCell (r : Record) : Election.Cell :=
  r.levels.map (fun le => (le.1, toElectionOut le.2))

/-- outcomes: the only failure of `backfill_assignments` is the `KeyError` of
`_child_to_parent[level][node]` -/
def toInferResult : Except Err Record → Except Election.InferErr Election.Cell
  | .ok r => .ok (toElectionCell r)
  | .error _ => .error .keyError

theorem toElectionCell_lookup (r : Record) (k : Level) :
    (toElectionCell r).lookup k = (r.levels.lookup k).map toElectionOut :=
  lookup_map_snd toElectionOut k r.levels

theorem backfillOne_agree (tMeta : RawTree) (cl pl : Level) (r : Record) :
    Election.inferStep tMeta.childToParent (toElectionCell r) cl pl =
      toInferResult (backfillOne tMeta cl pl r) := by
  unfold Election.inferStep backfillOne
  rw [toElectionCell_lookup, toElectionCell_lookup]
  cases hp : r.levels.lookup pl with
  | some ep => simp [toInferResult]
  | none =>
    simp only [Option.map_none, Option.isSome_none, Bool.false_eq_true, if_false]
    cases hc : r.levels.lookup cl with
    | none => simp [toInferResult]
    | some e =>
      simp only [Option.map_some]
      have ha : (toElectionOut e).assignment = e.assignment := rfl
      rw [ha]
      cases hq : tMeta.childToParent cl e.assignment with
      | none => simp [toInferResult]
      | some p =>
        simp only [toInferResult, toElectionCell, List.map_append, List.map_cons, List.map_nil]
        rfl

theorem backfillPairs_agree (tMeta : RawTree) : ∀ (ps : List (Level × Level)) (r : Record),
    ps.foldlM (fun c p => Election.inferStep tMeta.childToParent c p.1 p.2) (toElectionCell r) =
      toInferResult (backfillPairs tMeta ps r)
  | [], r => rfl
  | (cl, pl) :: rest, r => by
    simp only [List.foldlM_cons, backfillPairs, backfillOne_agree]
    cases h1 : backfillOne tMeta cl pl r with
    | error e => rfl
    | ok r1 =>
      simp only [toInferResult]
      exact backfillPairs_agree tMeta rest r1

/-- **D's `backfill_assignments` (one cell) is C's `inferLevels`**, so
`C03.inferred` speaks about the records of group D's pipeline -/
theorem backfill_agree (tMeta : RawTree) (r : Record) :
    Election.inferLevels tMeta.childToParent tMeta.hierarchy (toElectionCell r) =
      toInferResult (backfillPairs tMeta (pairsOf tMeta.hierarchy.reverse) r) :=
  backfillPairs_agree tMeta _ r

/-- **one record of D's pipeline, computed by C's model**: the flagged walk of
a cell is `Election.finishCell` of the raw per-level votes along the walk, and
the finished record is `Election.inferLevels` (parents from the stored tree)
of the flagged walk -/
theorem cellResult_election {κ} {t0 t : RawTree} {vote : Oracle κ} {nR : Nat}
    (rt : RunTreeOK t0 t) (hv : VoteOK t vote) (hpay : PayloadOK nR t vote)
    (id : CellId) (c : κ) (o : Record) (h : cellResult t0 t vote id c = .ok o) :
    ∃ raw, walkFrom t vote c t.hierarchy none = .ok raw ∧
      raw.map (·.1) = t.hierarchy ∧
      (markDirect t.hierarchy (mkRecord t vote id c)).levels.map (·.1) = t.hierarchy ∧
      (markDirect t.hierarchy (mkRecord t vote id c)).levels.map (fun le => toElectionOut le.2) =
        Election.finishCell (raw.map (fun le => toElectionRec le.2)) ∧
      Election.inferLevels t0.childToParent t0.hierarchy
        (toElectionCell (markDirect t.hierarchy (mkRecord t vote id c))) =
          .ok (toElectionCell o) := by
  obtain ⟨es, hes, hfst, _, _⟩ :=
    walkFrom_path rt.wf hv c t.hierarchy [] none (by simp) (Or.inl ⟨rfl, rfl⟩)
  have hwalk : walk t vote c = .ok (LevelLoop.finishCell es) := by simp only [walk, hes]
  have hwd : walkD t vote c = LevelLoop.finishCell es := by simp [walkD, hwalk]
  have hkeys := record_keys rt.wf hv id c
  obtain ⟨hraw, _⟩ := walkFrom_raw rt.wf hv hpay c t.hierarchy [] none (by simp)
    (Or.inl ⟨rfl, rfl⟩) es hes
  have hru : ∀ le ∈ es, le.2.ru.isSome = true := by
    intro le hle
    obtain ⟨_, ra, rc, rp, hr, _⟩ := hraw le hle
    rw [hr]; rfl
  refine ⟨es, hes, hfst, hkeys, ?_, ?_⟩
  · rw [← finishCell_agree es hru, markDirect_levels, List.map_map]
    simp only [mkRecord, hwd]
    apply List.map_congr_left
    intro le hle
    have hl : le.1 ∈ t.hierarchy := by
      have hk : (LevelLoop.finishCell es).map (·.1) = t.hierarchy := by
        rw [← hkeys, markDirect_keys]; simp only [mkRecord, hwd]
      rw [← hk]
      exact List.mem_map.mpr ⟨le, hle, rfl⟩
    simp only [Function.comp, flagDirect, List.contains_iff_mem.mpr hl, if_true]
  · have hb := backfill_agree t0.dropCells (markDirect t.hierarchy (mkRecord t vote id c))
    unfold cellResult at h
    rw [h, dropCells_hierarchy] at hb
    have hfun : t0.dropCells.childToParent = t0.childToParent := by
      funext cl n
      exact childToParent_dropCells (wfb_nodup_hierarchy rt.wf0) cl n
    rw [hfun] at hb
    exact hb

/-! ## a concrete instance (non-vacuity examples of `Props/C15/Bridge`, `Props/C03/Bridge`) -/

/-- an oracle with a full payload: the cell's number picks the child, every
other child is a valid runner-up, at most `nR` of them are returned -/
def exVoteP (nR : Nat) : Oracle Nat := fun _ kids c =>
  let w := ((kids[c % kids.length]?).map (·.1)).getD 0
  { assignment := w, prob := 1 / 2, corr := some (1 / 3),
    runnersUp := some (((kids.filter (fun k => k.1 != w)).take nR).map
      (fun k => { node := k.1, valid := true, corr := 1 / 4, prob := 1 / 4 })) }

theorem exVoteP_ok (nR : Nat) (t : RawTree) : VoteOK t (exVoteP nR) := by
  intro p cl kids c hk
  have hlt : c % kids.length < kids.length := Nat.mod_lt _ (by omega)
  simp only [exVoteP, kidsOf, List.length_map, List.getElem?_map, List.getElem?_eq_getElem hlt,
    Option.map_some, Option.getD_some]
  exact List.getElem_mem hlt

theorem exVoteP_payload (nR : Nat) (t : RawTree) : PayloadOK nR t (exVoteP nR) := by
  intro p cl kids c _
  refine ⟨rfl, ?_⟩
  intro r hr
  simp only [exVoteP, Option.some.injEq] at hr
  subst hr
  refine ⟨?_, ?_⟩
  · refine Nat.le_trans (List.length_filter_le _ _) ?_
    simp only [List.length_map, List.length_take]
    exact Nat.min_le_left _ _
  · intro x hx _
    simp only [List.mem_map] at hx
    obtain ⟨k, hk, rfl⟩ := hx
    have hk' := (List.mem_filter.mp (List.mem_of_mem_take hk)).1
    simp only [kidsOf, List.mem_map] at hk'
    obtain ⟨n, hn, rfl⟩ := hk'
    exact hn

end OutBridge
end CTM
