/-
  `_load_disjoint_csr` / `CSRRowIterator.get_batch`.
-/
import CTM.Lemmas.SparseConcat

namespace CTM.Sparse
open CTM.Chunking


/-- `_csr_to_dense` on a well-formed matrix with all column indices in range -/
theorem csrToDense_ok {α} (zero : α) (M : Mat α) (nRows nCols : Nat)
    (w : WFptr M.indptr nRows M.indices.length) (hr : ∀ x ∈ M.indices, x < nCols) :
    csrToDense zero M nRows nCols = .ok (toDense zero M nRows nCols) := by
  have hl := w.len
  unfold csrToDense
  have c1 : ¬ (M.indptr.length - 1 > nRows) := by omega
  simp only [c1, if_false]
  have c2 : (usedCols M).any (· ≥ nCols) = false := by
    rw [List.any_eq_false]
    intro x hx
    unfold usedCols at hx
    rw [List.mem_flatMap] at hx
    obtain ⟨p, _, hx⟩ := hx
    have := hr x ((slice_sublist _ _ _).subset hx)
    simp; omega
  rw [c2]
  simp only [Bool.false_eq_true, if_false]
  have hhead : M.indptr.head? = some 0 := by
    rw [List.head?_eq_getElem?, List.getElem?_eq_getElem (by omega)]
    have := w.first
    rw [ptr_eq_getElem _ _ (by omega)] at this
    rw [this]
  rw [csrRowsAux_eq zero nCols _ _ _ 0 w.sorted _ hhead]
  · have hfull : M.indptr = slice M.indptr 0 (0 + nRows + 1) := by
      have : 0 + nRows + 1 = M.indptr.length := by omega
      rw [this]; exact (slice_zero_length _).symm
    have hpairs := slice_pairs M.indptr nRows 0 (by omega)
    rw [← hfull] at hpairs
    rw [hpairs, List.map_map]
    have : (List.map ((fun ab : Nat × Nat =>
          scatter zero nCols (slice M.indices ab.1 ab.2) (slice M.data ab.1 ab.2)) ∘
        fun i => (ptr M.indptr i, ptr M.indptr (i + 1))) (List.range' 0 nRows))
        = toDense zero M nRows nCols := by
      unfold toDense
      rw [List.range_eq_range']
      rfl
    rw [this, toDense_length]
    simp
  · intro p hp
    rw [List.mem_iff_getElem] at hp
    obtain ⟨k, hk, rfl⟩ := hp
    rw [← ptr_eq_getElem _ _ hk]
    have := w.mono (by omega : k ≤ nRows) (Nat.le_refl nRows)
    rw [w.last] at this
    exact this

theorem segPrefix_mono {α} (segs : List (Seg α)) {i j : Nat} (h : i ≤ j) :
    segPrefix segs i ≤ segPrefix segs j := by
  unfold segPrefix
  have : segs.take j = (segs.take j).take i ++ (segs.take j).drop i := (List.take_append_drop i _).symm
  rw [this, List.take_take, Nat.min_eq_left h, List.map_append, List.sum_append]
  omega

theorem ofSegs_wf {α} (segs : List (Seg α)) :
    WFptr (ofSegs segs).indptr segs.length (ofSegs segs).indices.length := by
  constructor
  · simp [ofSegs]
  · unfold ofSegs
    simp only
    rw [List.pairwise_map]
    apply List.Pairwise.imp _ List.pairwise_lt_range
    intro a b hab
    exact segPrefix_mono segs (by omega)
  · rw [ptr_ofSegs segs 0 (by omega)]; simp [segPrefix]
  · rw [ptr_ofSegs segs segs.length (Nat.le_refl _), segPrefix_total]; rfl

theorem ofSegs_data_length {α} (segs : List (Seg α)) (h : SegsOK segs) :
    (ofSegs segs).data.length = (ofSegs segs).indices.length := flatMap_lengths segs h

/-- gathering with the total as last pointer is the canonical matrix of the
gathered slices -/
theorem gatherMat_eq_ofSegs {α} (M : Mat α) (order : List Nat) :
    gatherMat M order ((order.map fun o => (segOf M o).1.length).sum)
      = ofSegs (order.map (segOf M)) := by
  unfold gatherMat gatherMajors ofSegs
  simp only [List.length_map]
  congr 1
  rw [List.range_succ, List.map_append, List.map_cons, List.map_nil]
  congr 1
  unfold segPrefix
  rw [List.take_of_length_le (by simp), List.map_map]
  rfl

theorem telescope_from (ip : List Nat) (nRows nnz : Nat) (w : WFptr ip nRows nnz) (a : Nat) :
    ∀ d, a + d ≤ nRows →
      ((List.range' a d).map fun o => ptr ip (o + 1) - ptr ip o).sum = ptr ip (a + d) - ptr ip a := by
  intro d
  induction d with
  | zero => intro _; simp
  | succ d ih =>
    intro hd
    rw [List.range'_concat, List.map_append, List.sum_append, ih (by omega)]
    have h1 := w.mono (by omega : a ≤ a + d) (by omega : a + d ≤ nRows)
    have h2 := w.mono (by omega : a + d ≤ a + d + 1) (by omega : a + d + 1 ≤ nRows)
    simp only [Nat.one_mul, List.map_cons, List.map_nil, List.sum_cons, List.sum_nil]
    have e : a + (d + 1) = a + d + 1 := by omega
    rw [e]; omega

theorem slices_concat_from {β} (l : List β) (ip : List Nat) (nRows nnz : Nat)
    (w : WFptr ip nRows nnz) (a : Nat) :
    ∀ d, a + d ≤ nRows →
      (List.range' a d).flatMap (fun o => slice l (ptr ip o) (ptr ip (o + 1)))
        = slice l (ptr ip a) (ptr ip (a + d)) := by
  intro d
  induction d with
  | zero => intro _; simp [slice_self]
  | succ d ih =>
    intro hd
    rw [List.range'_concat, List.flatMap_append, ih (by omega)]
    simp only [Nat.one_mul, List.flatMap_cons, List.flatMap_nil, List.append_nil]
    have e : a + (d + 1) = a + d + 1 := by omega
    rw [e]
    exact slice_append l (w.mono (by omega : a ≤ a + d) (by omega : a + d ≤ nRows))
      (w.mono (by omega : a + d ≤ a + d + 1) (by omega : a + d + 1 ≤ nRows))

/-- what `_load_sparse` returns for rows `a ..< b` is the canonical matrix of
those rows' slices -/
theorem loadSparse_part_eq {α} (M : Mat α) (nRows : Nat)
    (w : WFptr M.indptr nRows M.indices.length) (hlen : M.data.length = M.indices.length)
    (a b : Nat) (hab : a ≤ b) (hb : b ≤ nRows) :
    (⟨(slice M.indptr a (b + 1)).map (· - ptr M.indptr a),
      slice M.indices (ptr M.indptr a) (ptr M.indptr b),
      slice M.data (ptr M.indptr a) (ptr M.indptr b)⟩ : Mat α)
      = ofSegs ((rangeOf (a, b)).map (segOf M)) := by
  have hl := w.len
  have hpre : ∀ k, k ≤ b - a →
      segPrefix ((List.range' a (b - a)).map (segOf M)) k = ptr M.indptr (a + k) - ptr M.indptr a := by
    intro k hk
    unfold segPrefix
    rw [← List.map_take, List.take_range'_of_length_ge (by omega), List.map_map,
      ← telescope_from _ _ _ w a k (by omega)]
    congr 1
    apply List.map_congr_left
    intro o ho
    rw [List.mem_range'_1] at ho
    exact (seg_lengths M nRows w hlen o (by omega)).1
  unfold ofSegs rangeOf
  simp only [List.length_map, List.length_range']
  congr 1
  · apply List.ext_getElem
    · simp [slice_length_le _ (by omega : b + 1 ≤ M.indptr.length)]; omega
    · intro k h1 h2
      have hk : k ≤ b - a := by simp at h2; omega
      simp only [List.getElem_map, List.getElem_range]
      rw [hpre k hk]
      have : (slice M.indptr a (b + 1))[k]? = M.indptr[a + k]? :=
        slice_getElem? _ _ _ _ (by omega)
      have hk' : k < (slice M.indptr a (b + 1)).length := by simpa using h1
      have h3 : (slice M.indptr a (b + 1))[k]'hk' = ptr M.indptr (a + k) := by
        rw [ptr_eq_getElem?_getD, ← this]
        simp [List.getElem?_eq_getElem hk']
      rw [h3]
  · rw [List.flatMap_def, List.map_map, ← List.flatMap_def]
    have := slices_concat_from M.indices M.indptr nRows _ w a (b - a) (by omega)
    have e : a + (b - a) = b := by omega
    rw [e] at this
    exact this.symm
  · rw [List.flatMap_def, List.map_map, ← List.flatMap_def]
    have := slices_concat_from M.data M.indptr nRows _ w a (b - a) (by omega)
    have e : a + (b - a) = b := by omega
    rw [e] at this
    exact this.symm

theorem gather_data_length {α} (M : Mat α) (order : List Nat)
    (hok : SegsOK (order.map (segOf M))) :
    (gatherMajors M order).2.2.length = (order.map fun o => (segOf M o).1.length).sum := by
  have h1 : (gatherMajors M order).2.2 = (order.map (segOf M)).flatMap (·.2) := rfl
  rw [h1, flatMap_lengths _ hok, List.flatMap_def, List.length_flatten, List.map_map, List.map_map]
  rfl

/-- **`_load_disjoint_csr`**: for a non-empty list of rows without repeats, all
in range, in any order, the returned arrays are the canonical CSR matrix of the
requested rows in the requested order -/
theorem loadDisjoint_ok {α} (M : Mat α) (nRows : Nat)
    (w : WFptr M.indptr nRows M.indices.length) (hlen : M.data.length = M.indices.length)
    (rows : List Nat) (hne : rows ≠ []) (hn : rows.Nodup) (hr : ∀ r ∈ rows, r < nRows) :
    loadDisjoint M rows = .ok (ofSegs (rows.map (segOf M))) := by
  have hs := sortedRows_strict rows hn
  have hperm := sortedRows_perm rows
  have hu := npUnique_of_strict _ hs
  have hsegok : ∀ l : List Nat, (∀ o ∈ l, o < nRows) → SegsOK (l.map (segOf M)) := by
    intro l hl s hs'
    rw [List.mem_map] at hs'
    obtain ⟨o, ho, rfl⟩ := hs'
    have := seg_lengths M nRows w hlen o (hl o ho)
    omega
  unfold loadDisjoint
  simp only [bind, Except.bind]
  generalize hsd : (argsort rows).map (rows.getD · 0) = s at hs hperm hu
  have hsr : ∀ o ∈ s, o < nRows := fun o ho => hr o (hperm.subset ho)
  cases s with
  | nil =>
    have := hperm.length_eq
    cases rows with
    | nil => exact absurd rfl hne
    | cons _ _ => simp at this
  | cons x rest =>
    have hmi : mergeIndexList (x :: rest) = .ok (mergeRuns x x rest) := by
      unfold mergeIndexList; rw [hu]
    rw [hmi]
    simp only
    obtain ⟨_, hb1, hb2⟩ := mergeRuns_sep rest x x (Nat.le_refl _) hs
    have hcover := mergeRuns_cover rest x x (Nat.le_refl _) hs
    have hparts : (mergeRuns x x rest).mapM (fun p => loadSparse M p.1 p.2)
        = .ok ((mergeRuns x x rest).map fun p => ofSegs ((rangeOf p).map (segOf M))) := by
      apply mapM_ok
      intro p hp
      have h1 := (hb1 p hp).2
      have h2 := hsr _ (hb2 p hp)
      rw [loadSparse_ok M nRows w p.1 p.2 (by omega) (by omega)]
      rw [loadSparse_part_eq M nRows w hlen p.1 p.2 (by omega) (by omega)]
    rw [hparts]
    simp only
    have hmerged : mergeCsr ((mergeRuns x x rest).map fun p => ofSegs ((rangeOf p).map (segOf M)))
        = ofSegs ((x :: rest).map (segOf M)) := by
      have : ((mergeRuns x x rest).map fun p => ofSegs ((rangeOf p).map (segOf M)))
          = ((mergeRuns x x rest).map fun p => (rangeOf p).map (segOf M)).map ofSegs := by
        rw [List.map_map]; rfl
      rw [this, mergeCsr_ofSegs]
      · congr 1
        rw [← List.flatMap_def]
        have : ((mergeRuns x x rest).flatMap fun p => (rangeOf p).map (segOf M))
            = ((mergeRuns x x rest).flatMap rangeOf).map (segOf M) := by
          rw [List.map_flatMap]
        rw [this, hcover]
        simp [List.range'_one]
      · intro L hL
        rw [List.mem_map] at hL
        obtain ⟨p, hp, rfl⟩ := hL
        apply hsegok
        intro o ho
        unfold rangeOf at ho
        rw [List.mem_range'_1] at ho
        have h2 := hsr _ (hb2 p hp)
        omega
    rw [hmerged]
    have hlen2 : (x :: rest).length = rows.length := hperm.length_eq
    have c : ((ofSegs ((x :: rest).map (segOf M))).indptr.length != rows.length + 1) = false := by
      have : rest.length + 1 = rows.length := by simpa using hlen2
      simp [ofSegs, this]
    rw [c]
    simp only [Bool.false_eq_true, if_false, pure, Except.pure]
    congr 1
    -- the un-sort step
    have hordermap : ((List.range rows.length).map fun ii => (argsort rows).idxOf ii).map
          (segOf (ofSegs ((x :: rest).map (segOf M))))
        = rows.map (segOf M) := by
      apply List.ext_getElem
      · simp
      · intro ii h1 h2
        have hii : ii < rows.length := by simpa using h2
        simp only [List.getElem_map, List.getElem_range]
        have hmem : ii ∈ argsort rows := (argsort_perm rows).mem_iff.mpr (List.mem_range.mpr hii)
        have hpos : (argsort rows).idxOf ii < (argsort rows).length :=
          List.idxOf_lt_length_of_mem hmem
        have hal : (argsort rows).length = rows.length := by
          rw [(argsort_perm rows).length_eq]; simp
        have hpos2 : (argsort rows).idxOf ii < ((x :: rest).map (segOf M)).length := by
          rw [List.length_map, hlen2, ← hal]; exact hpos
        rw [segOf_ofSegs _ (hsegok _ hsr) _ hpos2]
        simp only [List.getElem_map]
        congr 1
        -- (x :: rest)[pos] = rows[ii]
        have : (x :: rest)[(argsort rows).idxOf ii]'(by rw [hlen2, ← hal]; exact hpos)
            = rows[ii] := by
          have e := congrArg (fun l => l[(argsort rows).idxOf ii]?) hsd
          simp only [List.getElem?_map, List.getElem?_eq_getElem hpos, Option.map_some,
            List.getElem_idxOf hpos] at e
          rw [List.getElem?_eq_getElem (by rw [hlen2, ← hal]; exact hpos)] at e
          simp only [List.getD_eq_getElem?_getD, List.getElem?_eq_getElem hii, Option.getD_some,
            Option.some.injEq] at e
          exact e.symm
        exact this
    have hdl := gather_data_length (ofSegs ((x :: rest).map (segOf M)))
      ((List.range rows.length).map fun ii => (argsort rows).idxOf ii)
      (by rw [hordermap]; exact hsegok rows hr)
    have := gatherMat_eq_ofSegs (ofSegs ((x :: rest).map (segOf M)))
      ((List.range rows.length).map fun ii => (argsort rows).idxOf ii)
    rw [← hdl, hordermap] at this
    exact this

/-- **`CSRRowIterator.get_batch`**: for every non-empty row list without
repeats, all in range, in any order, row `i` of the result is row `rows[i]` of
the stored matrix -/
theorem csrGetBatch_ok {α} (zero : α) (M : Mat α) (nRows nCols : Nat)
    (w : WFptr M.indptr nRows M.indices.length) (hlen : M.data.length = M.indices.length)
    (hc : ∀ x ∈ M.indices, x < nCols)
    (rows : List Nat) (hne : rows ≠ []) (hn : rows.Nodup) (hr : ∀ r ∈ rows, r < nRows) :
    csrGetBatch zero M nCols rows
      = .ok (rows.map fun r => (toDense zero M nRows nCols).getD r []) := by
  unfold csrGetBatch
  rw [loadDisjoint_ok M nRows w hlen rows hne hn hr]
  simp only [bind, Except.bind]
  have hok : SegsOK (rows.map (segOf M)) := by
    intro s hs
    rw [List.mem_map] at hs
    obtain ⟨o, ho, rfl⟩ := hs
    have := seg_lengths M nRows w hlen o (hr o ho)
    omega
  have w2 := ofSegs_wf (rows.map (segOf M))
  rw [List.length_map] at w2
  have hc2 : ∀ x ∈ (ofSegs (rows.map (segOf M))).indices, x < nCols := by
    intro x hx
    unfold ofSegs at hx
    simp only [List.mem_flatMap, List.mem_map] at hx
    obtain ⟨s, ⟨o, _, rfl⟩, hx⟩ := hx
    exact hc x ((slice_sublist _ _ _).subset hx)
  rw [csrToDense_ok zero _ rows.length nCols w2 hc2]
  congr 1
  have := toDense_ofSegs zero (rows.map (segOf M)) hok nCols
  rw [List.length_map] at this
  rw [this, List.map_map]
  apply List.map_congr_left
  intro r hr'
  have := hr r hr'
  simp [toDense, List.getD_eq_getElem?_getD, this, rowSpec, segOf]

end CTM.Sparse
