/-
  Helper lemmas for C15: `clean_for_json`.
-/
import CTM.Model.Output

namespace CTM.Output

theorem plainList_map_int (ys : List Int) : plainList (ys.map PyVal.int) = true := by
  induction ys with
  | nil => simp [plainList]
  | cons y ys ih => simp [plainList, plain, ih]

mutual
theorem clean_plain : ∀ v, noOther v = true → plain (clean v) = true
  | .none, _ => by simp [clean, plain]
  | .bool _, _ => by simp [clean, plain]
  | .npBool _, _ => by simp [clean, plain]
  | .int _, _ => by simp [clean, plain]
  | .npInt64 _, _ => by simp [clean, plain]
  | .num _, _ => by simp [clean, plain]
  | .str _, _ => by simp [clean, plain]
  | .other _, h => by simp [noOther] at h
  | .list xs, h => by
      simp only [noOther] at h; simp [clean, plain, cleanList_plain xs h]
  | .tuple xs, h => by
      simp only [noOther] at h; simp [clean, plain, cleanList_plain xs h]
  | .intSet xs, _ => by simp [clean, plain, plainList_map_int]
  | .ndarray xs, h => by
      simp only [noOther] at h; simp [clean, plain, cleanList_plain xs h]
  | .dict kvs, h => by
      simp only [noOther] at h; simp [clean, plain, cleanKVs_plain kvs h]
theorem cleanList_plain : ∀ xs, noOtherList xs = true → plainList (cleanList xs) = true
  | [], _ => by simp [cleanList, plainList]
  | x :: xs, h => by
      simp only [noOtherList, Bool.and_eq_true] at h
      simp [cleanList, plainList, clean_plain x h.1, cleanList_plain xs h.2]
theorem cleanKVs_plain : ∀ kvs, noOtherKVs kvs = true → plainKVs (cleanKVs kvs) = true
  | [], _ => by simp [cleanKVs, plainKVs]
  | (k, v) :: rest, h => by
      simp only [noOtherKVs, Bool.and_eq_true] at h
      simp [cleanKVs, plainKVs, clean_plain k h.1.1, clean_plain v h.1.2, cleanKVs_plain rest h.2]
end

theorem cleanList_map_int (ys : List Int) : cleanList (ys.map PyVal.int) = ys.map PyVal.int := by
  induction ys with
  | nil => simp [cleanList]
  | cons y ys ih => simp [cleanList, clean, ih]

theorem eraseList_map_int (ys : List Int) : eraseList (ys.map PyVal.int) = ys.map JVal.int := by
  induction ys with
  | nil => simp [eraseList]
  | cons y ys ih => simp [eraseList, erase, ih]

mutual
theorem clean_idem : ∀ v, clean (clean v) = clean v
  | .none => by simp [clean]
  | .bool _ => by simp [clean]
  | .npBool _ => by simp [clean]
  | .int _ => by simp [clean]
  | .npInt64 _ => by simp [clean]
  | .num _ => by simp [clean]
  | .str _ => by simp [clean]
  | .other _ => by simp [clean]
  | .list xs => by simp [clean, cleanList_idem xs]
  | .tuple xs => by simp [clean, cleanList_idem xs]
  | .intSet xs => by simp [clean, cleanList_map_int]
  | .ndarray xs => by simp [clean, cleanList_idem xs]
  | .dict kvs => by simp [clean, cleanKVs_idem kvs]
theorem cleanList_idem : ∀ xs, cleanList (cleanList xs) = cleanList xs
  | [] => by simp [cleanList]
  | x :: xs => by simp [cleanList, clean_idem x, cleanList_idem xs]
theorem cleanKVs_idem : ∀ kvs, cleanKVs (cleanKVs kvs) = cleanKVs kvs
  | [] => by simp [cleanKVs]
  | (k, v) :: rest => by simp [cleanKVs, clean_idem k, clean_idem v, cleanKVs_idem rest]
end

mutual
theorem erase_clean : ∀ v, erase (clean v) = erase v
  | .none => by simp [clean]
  | .bool _ => by simp [clean]
  | .npBool _ => by simp [clean, erase]
  | .int _ => by simp [clean]
  | .npInt64 _ => by simp [clean, erase]
  | .num _ => by simp [clean]
  | .str _ => by simp [clean]
  | .other _ => by simp [clean]
  | .list xs => by simp [clean, erase, eraseList_clean xs]
  | .tuple xs => by simp [clean, erase, eraseList_clean xs]
  | .intSet xs => by simp [clean, erase, eraseList_map_int]
  | .ndarray xs => by simp [clean, erase, eraseList_clean xs]
  | .dict kvs => by simp [clean, erase, eraseKVs_clean kvs]
theorem eraseList_clean : ∀ xs, eraseList (cleanList xs) = eraseList xs
  | [] => by simp [cleanList]
  | x :: xs => by simp [cleanList, eraseList, erase_clean x, eraseList_clean xs]
theorem eraseKVs_clean : ∀ kvs, eraseKVs (cleanKVs kvs) = eraseKVs kvs
  | [] => by simp [cleanKVs]
  | (k, v) :: rest => by
      simp [cleanKVs, eraseKVs, erase_clean k, erase_clean v, eraseKVs_clean rest]
end

/-- sorting does not depend on the order in which a set is enumerated -/
theorem sortInts_perm {xs ys : List Int} (h : xs.Perm ys) :
    xs.mergeSort (fun a b => decide (a ≤ b)) = ys.mergeSort (fun a b => decide (a ≤ b)) := by
  have tr : ∀ a b c : Int, decide (a ≤ b) = true → decide (b ≤ c) = true → decide (a ≤ c) = true := by
    intro a b c h1 h2
    simp only [decide_eq_true_eq] at *
    omega
  have tot : ∀ a b : Int, (decide (a ≤ b) || decide (b ≤ a)) = true := by
    intro a b
    simp only [Bool.or_eq_true, decide_eq_true_eq]
    omega
  apply List.Perm.eq_of_pairwise (le := fun a b => decide (a ≤ b) = true)
  · intro a b _ _ h1 h2
    simp only [decide_eq_true_eq] at h1 h2
    omega
  · exact List.pairwise_mergeSort tr tot xs
  · exact List.pairwise_mergeSort tr tot ys
  · exact ((List.mergeSort_perm xs _).trans h).trans (List.mergeSort_perm ys _).symm

theorem clean_intSet_perm {xs ys : List Int} (h : xs.Perm ys) :
    clean (.intSet xs) = clean (.intSet ys) := by
  simp [clean, sortInts_perm h]

end CTM.Output
