/-
  Lemmas about `CTM/Model/Sparse.lean`.
-/
import CTM.Model.Sparse
import CTM.Lemmas.Chunking

namespace CTM.Sparse
open CTM.Chunking

/-! ### insertion sort -/

theorem isort_of_pairwise {β} (le : β → β → Bool) :
    ∀ (l : List β), l.Pairwise (fun a b => le a b = true) → isort le l = l := by
  intro l
  induction l with
  | nil => intro _; rfl
  | cons x xs ih =>
    intro h
    rw [List.pairwise_cons] at h
    simp only [isort]
    rw [ih h.2]
    cases xs with
    | nil => rfl
    | cons y ys =>
      have : le x y = true := h.1 y (by simp)
      simp [insertBy, this]

theorem insertBy_perm {β} (le : β → β → Bool) (x : β) :
    ∀ (l : List β), (insertBy le x l).Perm (x :: l) := by
  intro l
  induction l with
  | nil => exact List.Perm.refl _
  | cons y ys ih =>
    simp only [insertBy]
    split
    · exact List.Perm.refl _
    · exact (List.Perm.cons y ih).trans (List.Perm.swap x y ys)

theorem isort_perm {β} (le : β → β → Bool) : ∀ (l : List β), (isort le l).Perm l := by
  intro l
  induction l with
  | nil => exact List.Perm.refl _
  | cons x xs ih =>
    simp only [isort]
    exact (insertBy_perm le x _).trans (List.Perm.cons x ih)

/-! ### bucket level of the transposition -/

/-- the `indices_slice` filter distributes over concatenation -/
theorem sliceEntries_append {α} (sl : Option (Nat × Nat)) (a b : List (Entry α)) :
    sliceEntries sl (a ++ b) = sliceEntries sl a ++ sliceEntries sl b := by
  cases sl with
  | none => rfl
  | some p => simp [sliceEntries]

theorem sliceEntries_flatten {α} (sl : Option (Nat × Nat)) (cs : List (List (Entry α))) :
    (cs.map (sliceEntries sl)).flatten = sliceEntries sl cs.flatten := by
  induction cs with
  | nil => cases sl <;> simp [sliceEntries]
  | cons c cs ih => simp [sliceEntries_append, ih]

/-- major indices in non-decreasing order -/
def MajorsSorted {α} (E : List (Entry α)) : Prop :=
  E.Pairwise (fun a b => (decide (a.major ≤ b.major)) = true)

theorem MajorsSorted.sublist {α} {E F : List (Entry α)} (h : MajorsSorted E)
    (hs : F.Sublist E) : MajorsSorted F := List.Pairwise.sublist hs h

theorem slice_sublist {α} (l : List α) (a b : Nat) : (slice l a b).Sublist l :=
  (List.take_sublist _ _).trans (List.drop_sublist _ _)

theorem sliceEntries_majorsSorted {α} (sl : Option (Nat × Nat)) {E : List (Entry α)}
    (h : MajorsSorted E) : MajorsSorted (sliceEntries sl E) := by
  cases sl with
  | none => exact h
  | some p =>
    simp only [sliceEntries]
    unfold MajorsSorted
    rw [List.pairwise_map]
    exact List.Pairwise.sublist List.filter_sublist h

/-- on a chunk whose majors are already in order, the per-chunk sort is the
identity: the piece for `v` is the chunk's entries with minor `v`, in order -/
theorem piece_eq_filter {α} {c : List (Entry α)} (h : MajorsSorted c) (v : Nat) :
    piece c v = c.filter (·.minor == v) := by
  unfold piece sortByMajor
  apply isort_of_pairwise
  exact List.Pairwise.sublist List.filter_sublist h

/-- stable bucketing of a list of entries by minor index -/
def bucketSpec {α} (F : List (Entry α)) (nMinor : Nat) : List (Entry α) :=
  (List.range nMinor).flatMap fun v => F.filter (·.minor == v)

theorem flatMap_congr' {β γ} {l : List β} {f g : β → List γ} (h : ∀ x ∈ l, f x = g x) :
    l.flatMap f = l.flatMap g := by
  induction l with
  | nil => rfl
  | cons x xs ih =>
    simp only [List.flatMap_cons]
    rw [h x (by simp), ih (fun y hy => h y (by simp [hy]))]

theorem filter_flatten' {β} (p : β → Bool) (L : List (List β)) :
    L.flatMap (fun c => c.filter p) = L.flatten.filter p := by
  induction L with
  | nil => rfl
  | cons c cs ih => simp [ih]

/-- what all load chunks together contribute to minor index `v` is exactly the
entries with minor `v` in storage order — for every load-chunk size `lo ≥ 1` -/
theorem pieces_eq_filter {α} (E : List (Entry α)) (sl : Option (Nat × Nat)) (lo : Nat)
    (hlo : 1 ≤ lo) (hE : MajorsSorted E) (v : Nat) :
    ((sliceChunks lo E).map (sliceEntries sl)).flatMap (fun c => piece c v)
      = (sliceEntries sl E).filter (·.minor == v) := by
  have h1 : ∀ c ∈ (sliceChunks lo E).map (sliceEntries sl), MajorsSorted c := by
    intro c hc
    simp only [List.mem_map] at hc
    obtain ⟨c0, hc0, rfl⟩ := hc
    apply sliceEntries_majorsSorted
    unfold sliceChunks at hc0
    simp only [List.mem_map] at hc0
    obtain ⟨p, _, rfl⟩ := hc0
    exact hE.sublist (slice_sublist _ _ _)
  have h2 : ((sliceChunks lo E).map (sliceEntries sl)).flatMap (fun c => piece c v)
      = ((sliceChunks lo E).map (sliceEntries sl)).flatMap (fun c => c.filter (·.minor == v)) := by
    apply flatMap_congr'
    intro c hc
    exact piece_eq_filter (h1 c hc) v
  rw [h2, filter_flatten', sliceEntries_flatten, sliceChunks_flatten E lo hlo]


/-! ### the block loop -/

theorem findCut_some (ip : List Nat) (el r0 : Nat) (h : r0 + 1 < ip.length) :
    ∃ r1, findCut ip el r0 = some r1 ∧ r0 < r1 ∧ r1 ≤ ip.length - 1 := by
  unfold findCut
  have hmem : ip.length - 1 ∈ List.range' (r0 + 1) (ip.length - (r0 + 1)) := by
    rw [List.mem_range'_1]; omega
  have hsome : ((List.range' (r0 + 1) (ip.length - (r0 + 1))).find? fun c =>
      decide (ptr ip c - ptr ip r0 ≥ el) || c == ip.length - 1).isSome := by
    rw [List.find?_isSome]
    exact ⟨_, hmem, by simp⟩
  obtain ⟨r1, hr1⟩ := Option.isSome_iff_exists.mp hsome
  refine ⟨r1, hr1, ?_⟩
  have := List.mem_of_find?_eq_some hr1
  rw [List.mem_range'_1] at this
  omega

theorem findCut_none (ip : List Nat) (el r0 : Nat) (h : ip.length ≤ r0 + 1) :
    findCut ip el r0 = none := by
  unfold findCut
  have : ip.length - (r0 + 1) = 0 := by omega
  simp [this]

/-- the blocks from `r0` on concatenate to the minor indices `r0 ..< len-1`,
whatever the element budget -/
theorem blockCutsAux_cover (ip : List Nat) (el : Nat) :
    ∀ (fuel r0 : Nat), r0 ≤ ip.length - 1 → ip.length - 1 - r0 ≤ fuel →
      (blockCutsAux ip el fuel r0).flatMap rangeOf = List.range' r0 (ip.length - 1 - r0) := by
  intro fuel
  induction fuel with
  | zero =>
    intro r0 h1 h2
    have : ip.length - 1 - r0 = 0 := by omega
    simp [blockCutsAux, this]
  | succ f ih =>
    intro r0 h1 h2
    unfold blockCutsAux
    by_cases h : r0 + 1 < ip.length
    · obtain ⟨r1, e, h3, h4⟩ := findCut_some ip el r0 h
      simp only [e, List.flatMap_cons]
      rw [ih r1 h4 (by omega)]
      simp only [rangeOf]
      have : ip.length - 1 - r0 = (r1 - r0) + (ip.length - 1 - r1) := by omega
      rw [this, ← List.range'_append_1]
      congr 2
      omega
    · rw [findCut_none ip el r0 (by omega)]
      have : ip.length - 1 - r0 = 0 := by omega
      simp [this]

/-- block cut points partition `[0, nMinor)` for every element budget -/
theorem blockCuts_cover (ip : List Nat) (el : Nat) :
    (blockCuts ip el).flatMap rangeOf = List.range (ip.length - 1) := by
  unfold blockCuts
  rw [blockCutsAux_cover ip el ip.length 0 (by omega) (by omega), List.range_eq_range']
  rfl

/-- every block is a non-empty range of minor indices; a block that is not
the last one holds at least `el` stored entries, and no proper prefix of any
block reaches `el` (the element budget is exceeded by at most one slice) -/
theorem blockCutsAux_bounds (ip : List Nat) (el : Nat) :
    ∀ (fuel r0 : Nat), ∀ p ∈ blockCutsAux ip el fuel r0,
      r0 ≤ p.1 ∧ p.1 < p.2 ∧ p.2 ≤ ip.length - 1 ∧
      (p.2 < ip.length - 1 → el ≤ ptr ip p.2 - ptr ip p.1) ∧
      (∀ c, p.1 < c → c < p.2 → ptr ip c - ptr ip p.1 < el) := by
  intro fuel
  induction fuel with
  | zero => intro r0 p hp; simp [blockCutsAux] at hp
  | succ f ih =>
    intro r0 p hp
    unfold blockCutsAux at hp
    cases e : findCut ip el r0 with
    | none => simp [e] at hp
    | some r1 =>
      simp only [e, List.mem_cons] at hp
      have hlt : r0 + 1 < ip.length := by
        apply Classical.byContradiction
        intro hc
        rw [findCut_none ip el r0 (by omega)] at e
        cases e
      obtain ⟨r1', e', h3, h4⟩ := findCut_some ip el r0 hlt
      rw [e] at e'
      cases e'
      rcases hp with hp | hp
      · subst hp
        refine ⟨Nat.le_refl _, h3, h4, ?_, ?_⟩
        · intro hlast
          have hp := List.find?_some e
          simp only [Bool.or_eq_true, decide_eq_true_eq, beq_iff_eq] at hp
          dsimp only at hlast ⊢
          omega
        · intro c hc1 hc2
          dsimp only at hc1 hc2 ⊢
          unfold findCut at e
          rw [List.find?_eq_some_iff_append] at e
          obtain ⟨_, as, bs, hsplit, hnot⟩ := e
          have hcmem : c ∈ as := by
            have hc : c ∈ List.range' (r0 + 1) (ip.length - (r0 + 1)) := by
              rw [List.mem_range'_1]; omega
            rw [hsplit] at hc
            simp only [List.mem_append, List.mem_cons] at hc
            rcases hc with hc | hc | hc
            · exact hc
            · omega
            · -- elements after r1 in an increasing range are larger than r1
              have hpw : (List.range' (r0 + 1) (ip.length - (r0 + 1))).Pairwise (· < ·) :=
                List.pairwise_lt_range'
              rw [hsplit] at hpw
              have := (List.pairwise_append.mp hpw).2.1
              rw [List.pairwise_cons] at this
              have := this.1 c hc
              omega
          have := hnot c hcmem
          simp at this
          omega
      · obtain ⟨a1, a2, a3, a4, a5⟩ := ih r1 p hp
        exact ⟨by omega, a2, a3, a4, a5⟩


/-- **bucket level of the transposition**: for every load-chunk size `lo ≥ 1`
and every element budget `el`, the fill pass produces the stable bucketing of
the (slice-filtered) entries by minor index -/
theorem transposeEntries_eq_bucketSpec {α} (E : List (Entry α)) (sl : Option (Nat × Nat))
    (ip : List Nat) (lo el : Nat) (hlo : 1 ≤ lo) (hE : MajorsSorted E) :
    transposeEntries E sl ip lo el = bucketSpec (sliceEntries sl E) (ip.length - 1) := by
  unfold transposeEntries bucketSpec
  simp only
  have h : ∀ blk ∈ blockCuts ip el,
      ((rangeOf blk).flatMap fun v =>
        ((sliceChunks lo E).map (sliceEntries sl)).flatMap fun c => piece c v)
      = (rangeOf blk).flatMap fun v => (sliceEntries sl E).filter (·.minor == v) := by
    intro blk _
    apply flatMap_congr'
    intro v _
    exact pieces_eq_filter E sl lo hlo hE v
  rw [flatMap_congr' h, ← List.flatMap_assoc, blockCuts_cover]

/-! ### the counting pass -/

theorem sliceMinors_append (sl : Option (Nat × Nat)) (a b : List Nat) :
    sliceMinors sl (a ++ b) = sliceMinors sl a ++ sliceMinors sl b := by
  cases sl with
  | none => rfl
  | some p => simp [sliceMinors]

theorem sliceMinors_flatten (sl : Option (Nat × Nat)) (cs : List (List Nat)) :
    (cs.map (sliceMinors sl)).flatten = sliceMinors sl cs.flatten := by
  induction cs with
  | nil => cases sl <;> simp [sliceMinors]
  | cons c cs ih => simp [sliceMinors_append, ih]

/-- the chunked counting loop adds, for every `v`, the number of occurrences
of `v` in all chunks -/
theorem countFold (cs : List (List Nat)) :
    ∀ (init : List Nat),
      cs.foldl (fun cc chunk => cc.mapIdx fun v c => c + chunk.count v) init
        = init.mapIdx fun v c => c + cs.flatten.count v := by
  induction cs with
  | nil =>
    intro init
    apply List.ext_getElem <;> simp
  | cons c cs ih =>
    intro init
    simp only [List.foldl_cons, ih, List.mapIdx_mapIdx, List.flatten_cons, List.count_append]
    congr 1
    funext v x
    simp only [Function.comp]
    omega

theorem lengthFold (cs : List (List Nat)) :
    ∀ (n : Nat), cs.foldl (fun n c => n + c.length) n = n + cs.flatten.length := by
  induction cs with
  | nil => intro n; simp
  | cons c cs ih => intro n; simp [ih]; omega

/-- running sums -/
theorem cumsumFrom_eq (l : List Nat) :
    ∀ (acc : Nat), cumsumFrom acc l = (List.range l.length).map fun k => acc + (l.take (k + 1)).sum := by
  induction l with
  | nil => intro acc; rfl
  | cons x xs ih =>
    intro acc
    simp only [cumsumFrom, ih, List.length_cons, List.range_succ_eq_map, List.map_cons,
      List.map_map]
    congr 1
    simp [List.take_succ_cons]
    intros
    omega

theorem countP_lt_succ (l : List Nat) (k : Nat) :
    l.countP (· < k + 1) = l.countP (· < k) + l.count k := by
  induction l with
  | nil => simp
  | cons x xs ihx =>
    simp only [List.countP_cons, List.count_cons, ihx]
    by_cases h1 : x < k
    · have : ¬ (x = k) := by omega
      have h2 : x < k + 1 := by omega
      simp [h1, h2, this]; omega
    · by_cases h2 : x = k
      · subst h2; simp; omega
      · have : ¬ (x < k + 1) := by omega
        simp [h1, h2, this]

/-- the sum of the per-value counts below `k` is the number of elements below `k` -/
theorem sum_counts_lt (l : List Nat) :
    ∀ (k : Nat), ((List.range k).map fun v => l.count v).sum = l.countP (· < k) := by
  intro k
  induction k with
  | zero => simp
  | succ k ih =>
    rw [List.range_succ, List.map_append, List.sum_append, ih, countP_lt_succ]
    simp


theorem mapIdx_replicate_zero (n : Nat) (f : Nat → Nat) :
    (List.replicate n 0).mapIdx (fun v c => c + f v) = (List.range n).map f := by
  apply List.ext_getElem <;> simp

theorem cumsum_cons_zero (l : List Nat) :
    0 :: cumsumFrom 0 l = (List.range (l.length + 1)).map fun k => (l.take k).sum := by
  rw [cumsumFrom_eq, List.range_succ_eq_map]
  simp only [List.map_cons, List.map_map, List.take_zero, List.sum_nil, Nat.zero_add]
  rfl

theorem any_any_flatten {β} (p : β → Bool) (L : List (List β)) :
    L.any (·.any p) = L.flatten.any p := by
  simp [List.any_flatten]

/-- **the counting pass**: for every load-chunk size `≥ 1`, the pointer array
is `k ↦ #{stored entries whose (slice-shifted) minor index is < k}` and
`n_non_zero` is the number of entries inside the slice -/
theorem calcIndptr_ok (indices : List Nat) (imax : Nat) (sl : Option (Nat × Nat)) (loC : Nat)
    (h : 1 ≤ loC) (hr : ∀ x ∈ sliceMinors sl indices, x < nMinorOf imax sl) :
    calcIndptr indices imax sl loC =
      .ok ((List.range (nMinorOf imax sl + 1)).map
            (fun k => (sliceMinors sl indices).countP (· < k)),
           (sliceMinors sl indices).length) := by
  unfold calcIndptr
  simp only
  have hflat : ((sliceChunks loC indices).map (sliceMinors sl)).flatten = sliceMinors sl indices := by
    rw [sliceMinors_flatten, sliceChunks_flatten indices loC h]
  have hany : ((sliceChunks loC indices).map (sliceMinors sl)).any
      (·.any (· ≥ nMinorOf imax sl)) = false := by
    rw [any_any_flatten, hflat]
    rw [List.any_eq_false]
    intro x hx
    have := hr x hx
    simp; omega
  rw [hany]
  simp only [Bool.false_eq_true, if_false]
  rw [countFold, lengthFold, hflat, mapIdx_replicate_zero, cumsum_cons_zero]
  simp only [List.length_map, List.length_range, Nat.zero_add]
  congr 2
  apply List.map_congr_left
  intro k hk
  rw [List.mem_range] at hk
  rw [← List.map_take, List.take_range, Nat.min_eq_left (by omega), sum_counts_lt]


/-! ### entries of a compressed matrix -/

theorem zipIdx_pairwise_snd {β} : ∀ (l : List β) (k : Nat),
    (l.zipIdx k).Pairwise (fun a b => a.2 < b.2) := by
  intro l
  induction l with
  | nil => intro k; simp
  | cons x xs ih =>
    intro k
    rw [List.zipIdx_cons, List.pairwise_cons]
    refine ⟨?_, ih (k + 1)⟩
    intro a ha
    have := List.le_snd_of_mem_zipIdx ha
    simp only; omega

theorem majorOf_mono (ip : List Nat) {p q : Nat} (h : p ≤ q) : majorOf ip p ≤ majorOf ip q := by
  unfold majorOf
  have : ip.countP (· ≤ p) ≤ ip.countP (· ≤ q) := by
    apply List.countP_mono_left
    intro x _ hx
    simp only [decide_eq_true_eq] at hx ⊢
    omega
  omega

/-- the entries of any compressed matrix come with non-decreasing major index -/
theorem entriesOf_majorsSorted {α} (M : Mat α) : MajorsSorted (entriesOf M) := by
  unfold entriesOf MajorsSorted
  rw [List.pairwise_map]
  apply List.Pairwise.imp _ (zipIdx_pairwise_snd _ 0)
  intro a b hab
  simp only [decide_eq_true_eq]
  exact majorOf_mono _ (by omega)

theorem entriesOf_map_minor {α} (M : Mat α) (h : M.data.length = M.indices.length) :
    (entriesOf M).map (·.minor) = M.indices := by
  unfold entriesOf
  rw [List.map_map]
  have : ((fun e : Entry α => e.minor) ∘ fun x : (Nat × α) × Nat =>
      (⟨majorOf M.indptr x.2, x.1.1, x.1.2⟩ : Entry α)) = (fun x => x.1.1) := rfl
  rw [this]
  have h2 : (fun x : (Nat × α) × Nat => x.1.1) = Prod.fst ∘ Prod.fst := rfl
  rw [h2, ← List.map_map, List.zipIdx_map_fst, List.map_fst_zip]
  omega

theorem entriesOf_length {α} (M : Mat α) (h : M.data.length = M.indices.length) :
    (entriesOf M).length = M.indices.length := by
  rw [← entriesOf_map_minor M h, List.length_map]

theorem sliceEntries_map_minor {α} (sl : Option (Nat × Nat)) (E : List (Entry α)) :
    (sliceEntries sl E).map (·.minor) = sliceMinors sl (E.map (·.minor)) := by
  cases sl with
  | none => rfl
  | some p =>
    simp only [sliceEntries, sliceMinors, List.map_map, List.filter_map]
    rfl

/-- canonical transposed arrays of a list of entries: pointer `k` counts the
entries with minor index `< k`; indices / data are the major indices / values
of the stable bucketing by minor index -/
def canonOut {α} (F : List (Entry α)) (n : Nat) : Mat α :=
  ⟨(List.range (n + 1)).map (fun k => F.countP (·.minor < k)),
   (bucketSpec F n).map (·.major), (bucketSpec F n).map (·.val)⟩

/-- **the on-disk transposition at bucket level**, for every budget with
chunk sizes `≥ 1` -/
theorem transposeOnDisk_eq {α} (M : Mat α) (imax : Nat) (sl : Option (Nat × Nat)) (B : Budget)
    (hlo : 1 ≤ B.lo) (hc : 1 ≤ B.loCount) (hlen : M.data.length = M.indices.length)
    (hr : ∀ x ∈ sliceMinors sl M.indices, x < nMinorOf imax sl) :
    transposeOnDisk M imax sl B
      = .ok (canonOut (sliceEntries sl (entriesOf M)) (nMinorOf imax sl)) := by
  unfold transposeOnDisk
  rw [calcIndptr_ok M.indices imax sl B.loCount hc hr]
  simp only [bind, Except.bind, pure, Except.pure]
  rw [transposeEntries_eq_bucketSpec _ _ _ _ _ hlo (entriesOf_majorsSorted M)]
  simp only [List.length_map, List.length_range, Nat.add_sub_cancel]
  unfold canonOut
  congr 2
  apply List.map_congr_left
  intro k _
  rw [← entriesOf_map_minor M hlen, ← sliceEntries_map_minor, List.countP_map]
  rfl

end CTM.Sparse
