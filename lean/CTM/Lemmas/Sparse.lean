/-
  Lemmas about `CTM/Model/Sparse.lean`.
-/
import CTM.Model.Sparse
import CTM.Lemmas.Chunking

namespace CTM.Sparse
open CTM.Chunking

/-! ### insertion sort -/

theorem isort_of_pairwise {β} (le : β → β → Bool) :
    ∀ (l : List β), l.Pairwise (fun a b => le a b = true) → isort le l = l := by
  intro l
  induction l with
  | nil => intro _; rfl
  | cons x xs ih =>
    intro h
    rw [List.pairwise_cons] at h
    simp only [isort]
    rw [ih h.2]
    cases xs with
    | nil => rfl
    | cons y ys =>
      have : le x y = true := h.1 y (by simp)
      simp [insertBy, this]

theorem insertBy_perm {β} (le : β → β → Bool) (x : β) :
    ∀ (l : List β), (insertBy le x l).Perm (x :: l) := by
  intro l
  induction l with
  | nil => exact List.Perm.refl _
  | cons y ys ih =>
    simp only [insertBy]
    split
    · exact List.Perm.refl _
    · exact (List.Perm.cons y ih).trans (List.Perm.swap x y ys)

theorem isort_perm {β} (le : β → β → Bool) : ∀ (l : List β), (isort le l).Perm l := by
  intro l
  induction l with
  | nil => exact List.Perm.refl _
  | cons x xs ih =>
    simp only [isort]
    exact (insertBy_perm le x _).trans (List.Perm.cons x ih)

/-! ### bucket level of the transposition -/

/-- the `indices_slice` filter distributes over concatenation -/
theorem sliceEntries_append {α} (sl : Option (Nat × Nat)) (a b : List (Entry α)) :
    sliceEntries sl (a ++ b) = sliceEntries sl a ++ sliceEntries sl b := by
  cases sl with
  | none => rfl
  | some p => simp [sliceEntries]

theorem sliceEntries_flatten {α} (sl : Option (Nat × Nat)) (cs : List (List (Entry α))) :
    (cs.map (sliceEntries sl)).flatten = sliceEntries sl cs.flatten := by
  induction cs with
  | nil => cases sl <;> simp [sliceEntries]
  | cons c cs ih => simp [sliceEntries_append, ih]

/-- major indices in non-decreasing order -/
def MajorsSorted {α} (E : List (Entry α)) : Prop :=
  E.Pairwise (fun a b => (decide (a.major ≤ b.major)) = true)

theorem MajorsSorted.sublist {α} {E F : List (Entry α)} (h : MajorsSorted E)
    (hs : F.Sublist E) : MajorsSorted F := List.Pairwise.sublist hs h

theorem slice_sublist {α} (l : List α) (a b : Nat) : (slice l a b).Sublist l :=
  (List.take_sublist _ _).trans (List.drop_sublist _ _)

theorem sliceEntries_majorsSorted {α} (sl : Option (Nat × Nat)) {E : List (Entry α)}
    (h : MajorsSorted E) : MajorsSorted (sliceEntries sl E) := by
  cases sl with
  | none => exact h
  | some p =>
    simp only [sliceEntries]
    unfold MajorsSorted
    rw [List.pairwise_map]
    exact List.Pairwise.sublist List.filter_sublist h

/-- on a chunk whose majors are already in order, the per-chunk sort is the
identity: the piece for `v` is the chunk's entries with minor `v`, in order -/
theorem piece_eq_filter {α} {c : List (Entry α)} (h : MajorsSorted c) (v : Nat) :
    piece c v = c.filter (·.minor == v) := by
  unfold piece sortByMajor
  apply isort_of_pairwise
  exact List.Pairwise.sublist List.filter_sublist h

/-- stable bucketing of a list of entries by minor index -/
def bucketSpec {α} (F : List (Entry α)) (nMinor : Nat) : List (Entry α) :=
  (List.range nMinor).flatMap fun v => F.filter (·.minor == v)

theorem flatMap_congr' {β γ} {l : List β} {f g : β → List γ} (h : ∀ x ∈ l, f x = g x) :
    l.flatMap f = l.flatMap g := by
  induction l with
  | nil => rfl
  | cons x xs ih =>
    simp only [List.flatMap_cons]
    rw [h x (by simp), ih (fun y hy => h y (by simp [hy]))]

theorem filter_flatten' {β} (p : β → Bool) (L : List (List β)) :
    L.flatMap (fun c => c.filter p) = L.flatten.filter p := by
  induction L with
  | nil => rfl
  | cons c cs ih => simp [ih]

/-- what all load chunks together contribute to minor index `v` is exactly the
entries with minor `v` in storage order — for every load-chunk size `lo ≥ 1` -/
theorem pieces_eq_filter {α} (E : List (Entry α)) (sl : Option (Nat × Nat)) (lo : Nat)
    (hlo : 1 ≤ lo) (hE : MajorsSorted E) (v : Nat) :
    ((sliceChunks lo E).map (sliceEntries sl)).flatMap (fun c => piece c v)
      = (sliceEntries sl E).filter (·.minor == v) := by
  have h1 : ∀ c ∈ (sliceChunks lo E).map (sliceEntries sl), MajorsSorted c := by
    intro c hc
    simp only [List.mem_map] at hc
    obtain ⟨c0, hc0, rfl⟩ := hc
    apply sliceEntries_majorsSorted
    unfold sliceChunks at hc0
    simp only [List.mem_map] at hc0
    obtain ⟨p, _, rfl⟩ := hc0
    exact hE.sublist (slice_sublist _ _ _)
  have h2 : ((sliceChunks lo E).map (sliceEntries sl)).flatMap (fun c => piece c v)
      = ((sliceChunks lo E).map (sliceEntries sl)).flatMap (fun c => c.filter (·.minor == v)) := by
    apply flatMap_congr'
    intro c hc
    exact piece_eq_filter (h1 c hc) v
  rw [h2, filter_flatten', sliceEntries_flatten, sliceChunks_flatten E lo hlo]


/-! ### the block loop -/

theorem findCut_some (ip : List Nat) (el r0 : Nat) (h : r0 + 1 < ip.length) :
    ∃ r1, findCut ip el r0 = some r1 ∧ r0 < r1 ∧ r1 ≤ ip.length - 1 := by
  unfold findCut
  have hmem : ip.length - 1 ∈ List.range' (r0 + 1) (ip.length - (r0 + 1)) := by
    rw [List.mem_range'_1]; omega
  have hsome : ((List.range' (r0 + 1) (ip.length - (r0 + 1))).find? fun c =>
      decide (ptr ip c - ptr ip r0 ≥ el) || c == ip.length - 1).isSome := by
    rw [List.find?_isSome]
    exact ⟨_, hmem, by simp⟩
  obtain ⟨r1, hr1⟩ := Option.isSome_iff_exists.mp hsome
  refine ⟨r1, hr1, ?_⟩
  have := List.mem_of_find?_eq_some hr1
  rw [List.mem_range'_1] at this
  omega

theorem findCut_none (ip : List Nat) (el r0 : Nat) (h : ip.length ≤ r0 + 1) :
    findCut ip el r0 = none := by
  unfold findCut
  have : ip.length - (r0 + 1) = 0 := by omega
  simp [this]

/-- the blocks from `r0` on concatenate to the minor indices `r0 ..< len-1`,
whatever the element budget -/
theorem blockCutsAux_cover (ip : List Nat) (el : Nat) :
    ∀ (fuel r0 : Nat), r0 ≤ ip.length - 1 → ip.length - 1 - r0 ≤ fuel →
      (blockCutsAux ip el fuel r0).flatMap rangeOf = List.range' r0 (ip.length - 1 - r0) := by
  intro fuel
  induction fuel with
  | zero =>
    intro r0 h1 h2
    have : ip.length - 1 - r0 = 0 := by omega
    simp [blockCutsAux, this]
  | succ f ih =>
    intro r0 h1 h2
    unfold blockCutsAux
    by_cases h : r0 + 1 < ip.length
    · obtain ⟨r1, e, h3, h4⟩ := findCut_some ip el r0 h
      simp only [e, List.flatMap_cons]
      rw [ih r1 h4 (by omega)]
      simp only [rangeOf]
      have : ip.length - 1 - r0 = (r1 - r0) + (ip.length - 1 - r1) := by omega
      rw [this, ← List.range'_append_1]
      congr 2
      omega
    · rw [findCut_none ip el r0 (by omega)]
      have : ip.length - 1 - r0 = 0 := by omega
      simp [this]

/-- block cut points partition `[0, nMinor)` for every element budget -/
theorem blockCuts_cover (ip : List Nat) (el : Nat) :
    (blockCuts ip el).flatMap rangeOf = List.range (ip.length - 1) := by
  unfold blockCuts
  rw [blockCutsAux_cover ip el ip.length 0 (by omega) (by omega), List.range_eq_range']
  rfl

/-- every block is a non-empty range of minor indices; a block that is not
the last one holds at least `el` stored entries, and no proper prefix of any
block reaches `el` (the element budget is exceeded by at most one slice) -/
theorem blockCutsAux_bounds (ip : List Nat) (el : Nat) :
    ∀ (fuel r0 : Nat), ∀ p ∈ blockCutsAux ip el fuel r0,
      r0 ≤ p.1 ∧ p.1 < p.2 ∧ p.2 ≤ ip.length - 1 ∧
      (p.2 < ip.length - 1 → el ≤ ptr ip p.2 - ptr ip p.1) ∧
      (∀ c, p.1 < c → c < p.2 → ptr ip c - ptr ip p.1 < el) := by
  intro fuel
  induction fuel with
  | zero => intro r0 p hp; simp [blockCutsAux] at hp
  | succ f ih =>
    intro r0 p hp
    unfold blockCutsAux at hp
    cases e : findCut ip el r0 with
    | none => simp [e] at hp
    | some r1 =>
      simp only [e, List.mem_cons] at hp
      have hlt : r0 + 1 < ip.length := by
        apply Classical.byContradiction
        intro hc
        rw [findCut_none ip el r0 (by omega)] at e
        cases e
      obtain ⟨r1', e', h3, h4⟩ := findCut_some ip el r0 hlt
      rw [e] at e'
      cases e'
      rcases hp with hp | hp
      · subst hp
        refine ⟨Nat.le_refl _, h3, h4, ?_, ?_⟩
        · intro hlast
          have hp := List.find?_some e
          simp only [Bool.or_eq_true, decide_eq_true_eq, beq_iff_eq] at hp
          dsimp only at hlast ⊢
          omega
        · intro c hc1 hc2
          dsimp only at hc1 hc2 ⊢
          unfold findCut at e
          rw [List.find?_eq_some_iff_append] at e
          obtain ⟨_, as, bs, hsplit, hnot⟩ := e
          have hcmem : c ∈ as := by
            have hc : c ∈ List.range' (r0 + 1) (ip.length - (r0 + 1)) := by
              rw [List.mem_range'_1]; omega
            rw [hsplit] at hc
            simp only [List.mem_append, List.mem_cons] at hc
            rcases hc with hc | hc | hc
            · exact hc
            · omega
            · -- elements after r1 in an increasing range are larger than r1
              have hpw : (List.range' (r0 + 1) (ip.length - (r0 + 1))).Pairwise (· < ·) :=
                List.pairwise_lt_range'
              rw [hsplit] at hpw
              have := (List.pairwise_append.mp hpw).2.1
              rw [List.pairwise_cons] at this
              have := this.1 c hc
              omega
          have := hnot c hcmem
          simp at this
          omega
      · obtain ⟨a1, a2, a3, a4, a5⟩ := ih r1 p hp
        exact ⟨by omega, a2, a3, a4, a5⟩


/-- **bucket level of the transposition**: for every load-chunk size `lo ≥ 1`
and every element budget `el`, the fill pass produces the stable bucketing of
the (slice-filtered) entries by minor index -/
theorem transposeEntries_eq_bucketSpec {α} (E : List (Entry α)) (sl : Option (Nat × Nat))
    (ip : List Nat) (lo el : Nat) (hlo : 1 ≤ lo) (hE : MajorsSorted E) :
    transposeEntries E sl ip lo el = bucketSpec (sliceEntries sl E) (ip.length - 1) := by
  unfold transposeEntries bucketSpec
  simp only
  have h : ∀ blk ∈ blockCuts ip el,
      ((rangeOf blk).flatMap fun v =>
        ((sliceChunks lo E).map (sliceEntries sl)).flatMap fun c => piece c v)
      = (rangeOf blk).flatMap fun v => (sliceEntries sl E).filter (·.minor == v) := by
    intro blk _
    apply flatMap_congr'
    intro v _
    exact pieces_eq_filter E sl lo hlo hE v
  rw [flatMap_congr' h, ← List.flatMap_assoc, blockCuts_cover]

/-! ### the counting pass -/

theorem sliceMinors_append (sl : Option (Nat × Nat)) (a b : List Nat) :
    sliceMinors sl (a ++ b) = sliceMinors sl a ++ sliceMinors sl b := by
  cases sl with
  | none => rfl
  | some p => simp [sliceMinors]

theorem sliceMinors_flatten (sl : Option (Nat × Nat)) (cs : List (List Nat)) :
    (cs.map (sliceMinors sl)).flatten = sliceMinors sl cs.flatten := by
  induction cs with
  | nil => cases sl <;> simp [sliceMinors]
  | cons c cs ih => simp [sliceMinors_append, ih]

/-- the chunked counting loop adds, for every `v`, the number of occurrences
of `v` in all chunks -/
theorem countFold (cs : List (List Nat)) :
    ∀ (init : List Nat),
      cs.foldl (fun cc chunk => cc.mapIdx fun v c => c + chunk.count v) init
        = init.mapIdx fun v c => c + cs.flatten.count v := by
  induction cs with
  | nil =>
    intro init
    apply List.ext_getElem <;> simp
  | cons c cs ih =>
    intro init
    simp only [List.foldl_cons, ih, List.mapIdx_mapIdx, List.flatten_cons, List.count_append]
    congr 1
    funext v x
    simp only [Function.comp]
    omega

theorem lengthFold (cs : List (List Nat)) :
    ∀ (n : Nat), cs.foldl (fun n c => n + c.length) n = n + cs.flatten.length := by
  induction cs with
  | nil => intro n; simp
  | cons c cs ih => intro n; simp [ih]; omega

/-- running sums -/
theorem cumsumFrom_eq (l : List Nat) :
    ∀ (acc : Nat), cumsumFrom acc l = (List.range l.length).map fun k => acc + (l.take (k + 1)).sum := by
  induction l with
  | nil => intro acc; rfl
  | cons x xs ih =>
    intro acc
    simp only [cumsumFrom, ih, List.length_cons, List.range_succ_eq_map, List.map_cons,
      List.map_map]
    congr 1
    simp [List.take_succ_cons]
    intros
    omega

theorem countP_lt_succ (l : List Nat) (k : Nat) :
    l.countP (· < k + 1) = l.countP (· < k) + l.count k := by
  induction l with
  | nil => simp
  | cons x xs ihx =>
    simp only [List.countP_cons, List.count_cons, ihx]
    by_cases h1 : x < k
    · have : ¬ (x = k) := by omega
      have h2 : x < k + 1 := by omega
      simp [h1, h2, this]; omega
    · by_cases h2 : x = k
      · subst h2; simp; omega
      · have : ¬ (x < k + 1) := by omega
        simp [h1, h2, this]

/-- the sum of the per-value counts below `k` is the number of elements below `k` -/
theorem sum_counts_lt (l : List Nat) :
    ∀ (k : Nat), ((List.range k).map fun v => l.count v).sum = l.countP (· < k) := by
  intro k
  induction k with
  | zero => simp
  | succ k ih =>
    rw [List.range_succ, List.map_append, List.sum_append, ih, countP_lt_succ]
    simp


theorem mapIdx_replicate_zero (n : Nat) (f : Nat → Nat) :
    (List.replicate n 0).mapIdx (fun v c => c + f v) = (List.range n).map f := by
  apply List.ext_getElem <;> simp

theorem cumsum_cons_zero (l : List Nat) :
    0 :: cumsumFrom 0 l = (List.range (l.length + 1)).map fun k => (l.take k).sum := by
  rw [cumsumFrom_eq, List.range_succ_eq_map]
  simp only [List.map_cons, List.map_map, List.take_zero, List.sum_nil, Nat.zero_add]
  rfl

theorem any_any_flatten {β} (p : β → Bool) (L : List (List β)) :
    L.any (·.any p) = L.flatten.any p := by
  simp [List.any_flatten]

/-- **the counting pass**: for every load-chunk size `≥ 1`, the pointer array
is `k ↦ #{stored entries whose (slice-shifted) minor index is < k}` and
`n_non_zero` is the number of entries inside the slice -/
theorem calcIndptr_ok (indices : List Nat) (imax : Nat) (sl : Option (Nat × Nat)) (loC : Nat)
    (h : 1 ≤ loC) (hr : ∀ x ∈ sliceMinors sl indices, x < nMinorOf imax sl) :
    calcIndptr indices imax sl loC =
      .ok ((List.range (nMinorOf imax sl + 1)).map
            (fun k => (sliceMinors sl indices).countP (· < k)),
           (sliceMinors sl indices).length) := by
  unfold calcIndptr
  simp only
  have hflat : ((sliceChunks loC indices).map (sliceMinors sl)).flatten = sliceMinors sl indices := by
    rw [sliceMinors_flatten, sliceChunks_flatten indices loC h]
  have hany : ((sliceChunks loC indices).map (sliceMinors sl)).any
      (·.any (· ≥ nMinorOf imax sl)) = false := by
    rw [any_any_flatten, hflat]
    rw [List.any_eq_false]
    intro x hx
    have := hr x hx
    simp; omega
  rw [hany]
  simp only [Bool.false_eq_true, if_false]
  rw [countFold, lengthFold, hflat, mapIdx_replicate_zero, cumsum_cons_zero]
  simp only [List.length_map, List.length_range, Nat.zero_add]
  congr 2
  apply List.map_congr_left
  intro k hk
  rw [List.mem_range] at hk
  rw [← List.map_take, List.take_range, Nat.min_eq_left (by omega), sum_counts_lt]


/-! ### entries of a compressed matrix -/

theorem zipIdx_pairwise_snd {β} : ∀ (l : List β) (k : Nat),
    (l.zipIdx k).Pairwise (fun a b => a.2 < b.2) := by
  intro l
  induction l with
  | nil => intro k; simp
  | cons x xs ih =>
    intro k
    rw [List.zipIdx_cons, List.pairwise_cons]
    refine ⟨?_, ih (k + 1)⟩
    intro a ha
    have := List.le_snd_of_mem_zipIdx ha
    simp only; omega

theorem majorOf_mono (ip : List Nat) {p q : Nat} (h : p ≤ q) : majorOf ip p ≤ majorOf ip q := by
  unfold majorOf
  have : ip.countP (· ≤ p) ≤ ip.countP (· ≤ q) := by
    apply List.countP_mono_left
    intro x _ hx
    simp only [decide_eq_true_eq] at hx ⊢
    omega
  omega

/-- the entries of any compressed matrix come with non-decreasing major index -/
theorem entriesOf_majorsSorted {α} (M : Mat α) : MajorsSorted (entriesOf M) := by
  unfold entriesOf MajorsSorted
  rw [List.pairwise_map]
  apply List.Pairwise.imp _ (zipIdx_pairwise_snd _ 0)
  intro a b hab
  simp only [decide_eq_true_eq]
  exact majorOf_mono _ (by omega)

theorem entriesOf_map_minor {α} (M : Mat α) (h : M.data.length = M.indices.length) :
    (entriesOf M).map (·.minor) = M.indices := by
  unfold entriesOf
  rw [List.map_map]
  have : ((fun e : Entry α => e.minor) ∘ fun x : (Nat × α) × Nat =>
      (⟨majorOf M.indptr x.2, x.1.1, x.1.2⟩ : Entry α)) = (fun x => x.1.1) := rfl
  rw [this]
  have h2 : (fun x : (Nat × α) × Nat => x.1.1) = Prod.fst ∘ Prod.fst := rfl
  rw [h2, ← List.map_map, List.zipIdx_map_fst, List.map_fst_zip]
  omega

theorem entriesOf_length {α} (M : Mat α) (h : M.data.length = M.indices.length) :
    (entriesOf M).length = M.indices.length := by
  rw [← entriesOf_map_minor M h, List.length_map]

theorem sliceEntries_map_minor {α} (sl : Option (Nat × Nat)) (E : List (Entry α)) :
    (sliceEntries sl E).map (·.minor) = sliceMinors sl (E.map (·.minor)) := by
  cases sl with
  | none => rfl
  | some p =>
    simp only [sliceEntries, sliceMinors, List.map_map, List.filter_map]
    rfl

/-- canonical transposed arrays of a list of entries: pointer `k` counts the
entries with minor index `< k`; indices / data are the major indices / values
of the stable bucketing by minor index -/
def canonOut {α} (F : List (Entry α)) (n : Nat) : Mat α :=
  ⟨(List.range (n + 1)).map (fun k => F.countP (·.minor < k)),
   (bucketSpec F n).map (·.major), (bucketSpec F n).map (·.val)⟩

/-- **the on-disk transposition at bucket level**, for every budget with
chunk sizes `≥ 1` -/
theorem transposeOnDisk_eq {α} (M : Mat α) (imax : Nat) (sl : Option (Nat × Nat)) (B : Budget)
    (hlo : 1 ≤ B.lo) (hc : 1 ≤ B.loCount) (hlen : M.data.length = M.indices.length)
    (hr : ∀ x ∈ sliceMinors sl M.indices, x < nMinorOf imax sl) :
    transposeOnDisk M imax sl B
      = .ok (canonOut (sliceEntries sl (entriesOf M)) (nMinorOf imax sl)) := by
  unfold transposeOnDisk
  rw [calcIndptr_ok M.indices imax sl B.loCount hc hr]
  simp only [bind, Except.bind, pure, Except.pure]
  rw [transposeEntries_eq_bucketSpec _ _ _ _ _ hlo (entriesOf_majorsSorted M)]
  simp only [List.length_map, List.length_range, Nat.add_sub_cancel]
  unfold canonOut
  congr 2
  apply List.map_congr_left
  intro k _
  rw [← entriesOf_map_minor M hlen, ← sliceEntries_map_minor, List.countP_map]
  rfl


/-! ### slices of a concatenation of buckets -/

theorem slice_map {β γ} (f : β → γ) (l : List β) (a b : Nat) :
    slice (l.map f) a b = (slice l a b).map f := by
  simp [slice, List.map_take, List.map_drop]

/-- the `k`-th piece of a concatenation sits between the prefix sums of the
lengths -/
theorem slice_flatten {β} : ∀ (L : List (List β)) (k : Nat) (hk : k < L.length),
    slice L.flatten ((L.take k).map List.length).sum ((L.take (k + 1)).map List.length).sum
      = L[k] := by
  intro L
  induction L with
  | nil => intro k hk; simp at hk
  | cons c cs ih =>
    intro k hk
    cases k with
    | zero =>
      simp [slice]
    | succ k =>
      simp only [List.take_succ_cons, List.map_cons, List.sum_cons, List.flatten_cons,
        List.getElem_cons_succ]
      have hk' : k < cs.length := by simpa using hk
      rw [← ih k hk']
      unfold slice
      rw [List.drop_append]
      have h1 : List.drop (c.length + ((cs.take k).map List.length).sum) c = [] := by
        apply List.drop_eq_nil_of_le; omega
      rw [h1, List.nil_append]
      have e1 : c.length + ((cs.take k).map List.length).sum - c.length
          = ((cs.take k).map List.length).sum := by omega
      have e2 : c.length + ((cs.take (k + 1)).map List.length).sum
            - (c.length + ((cs.take k).map List.length).sum)
          = ((cs.take (k + 1)).map List.length).sum - ((cs.take k).map List.length).sum := by
        omega
      rw [e1, e2]

theorem ptr_map_range (f : Nat → Nat) (n k : Nat) (hk : k < n) :
    ptr ((List.range n).map f) k = f k := by
  simp [ptr, hk]

theorem filter_minor_length {α} (F : List (Entry α)) (v : Nat) :
    (F.filter (·.minor == v)).length = (F.map (·.minor)).count v := by
  induction F with
  | nil => rfl
  | cons e es ih =>
    simp only [List.filter_cons, List.map_cons, List.count_cons]
    by_cases h : e.minor = v
    · simp [h, ih]
    · simp [h, ih]

theorem bucket_lengths_sum {α} (F : List (Entry α)) (n k : Nat) (hk : k ≤ n) :
    ((((List.range n).map fun v => F.filter (·.minor == v)).take k).map List.length).sum
      = F.countP (·.minor < k) := by
  rw [← List.map_take, List.take_range, Nat.min_eq_left hk, List.map_map]
  have : (List.length ∘ fun v => F.filter (·.minor == v))
      = fun v => (F.map (·.minor)).count v := by
    funext v
    simp only [Function.comp]
    exact filter_minor_length F v
  rw [this, sum_counts_lt, List.countP_map]
  rfl

/-- **slices of the transposed arrays**: the pointer array cuts the output
`indices` / `data` exactly into the major indices / values of the entries with
minor index `v`, in storage order -/
theorem canonOut_slice {α} (F : List (Entry α)) (n v : Nat) (hv : v < n) :
    slice (canonOut F n).indices (ptr (canonOut F n).indptr v) (ptr (canonOut F n).indptr (v + 1))
        = (F.filter (·.minor == v)).map (·.major)
    ∧ slice (canonOut F n).data (ptr (canonOut F n).indptr v) (ptr (canonOut F n).indptr (v + 1))
        = (F.filter (·.minor == v)).map (·.val) := by
  unfold canonOut
  simp only
  rw [ptr_map_range _ _ _ (by omega), ptr_map_range _ _ _ (by omega)]
  have key : slice (bucketSpec F n) (F.countP (·.minor < v)) (F.countP (·.minor < v + 1))
      = F.filter (·.minor == v) := by
    unfold bucketSpec
    rw [List.flatMap_def]
    rw [← bucket_lengths_sum F n v (by omega), ← bucket_lengths_sum F n (v + 1) (by omega)]
    rw [slice_flatten _ v (by simp [hv])]
    simp
  rw [slice_map, slice_map, key]
  exact ⟨rfl, rfl⟩


/-! ### the major index of a storage position (`searchsorted`) -/

/-- in a non-decreasing list, the elements `≤ p` are exactly the first
`countP (· ≤ p)` ones -/
theorem sorted_le_iff_lt_countP : ∀ (l : List Nat), l.Pairwise (· ≤ ·) →
    ∀ (p k : Nat) (hk : k < l.length), (l[k] ≤ p ↔ k < l.countP (· ≤ p)) := by
  intro l
  induction l with
  | nil => intro _ p k hk; simp at hk
  | cons x xs ih =>
    intro hs p k hk
    rw [List.pairwise_cons] at hs
    by_cases hx : x ≤ p
    · cases k with
      | zero => simp [hx]
      | succ k =>
        have hk' : k < xs.length := by simpa using hk
        simp only [List.getElem_cons_succ, List.countP_cons, hx, decide_true, if_true]
        rw [ih hs.2 p k hk']
        omega
    · have hall : ∀ y ∈ xs, ¬ (y ≤ p) := by
        intro y hy
        have := hs.1 y hy
        omega
      have hc : xs.countP (· ≤ p) = 0 := by
        rw [List.countP_eq_zero]
        intro y hy
        simpa using hall y hy
      cases k with
      | zero => simp [hx, hc]
      | succ k =>
        have hk' : k < xs.length := by simpa using hk
        have := hall xs[k] (List.getElem_mem hk')
        simp [hx, hc, this]

/-- well-formed pointer array of a compressed matrix with `nMajor` slices over
`nnz` stored entries -/
structure WFptr (ip : List Nat) (nMajor nnz : Nat) : Prop where
  len : ip.length = nMajor + 1
  sorted : ip.Pairwise (· ≤ ·)
  first : ptr ip 0 = 0
  last : ptr ip nMajor = nnz

theorem ptr_eq_getElem (ip : List Nat) (i : Nat) (h : i < ip.length) : ptr ip i = ip[i] := by
  simp [ptr, h]

theorem WFptr.mono {ip : List Nat} {nMajor nnz : Nat} (w : WFptr ip nMajor nnz) {i j : Nat}
    (hij : i ≤ j) (hj : j ≤ nMajor) : ptr ip i ≤ ptr ip j := by
  rw [ptr_eq_getElem ip i (by have := w.len; omega), ptr_eq_getElem ip j (by have := w.len; omega)]
  rcases Nat.lt_or_ge i j with h | h
  · exact (List.pairwise_iff_getElem.mp w.sorted) i j _ _ h
  · have : i = j := by omega
    subst this; exact Nat.le_refl _

/-- `searchsorted(indptr, p, 'right') - 1 = i` exactly for the positions of slice `i` -/
theorem majorOf_eq_iff {ip : List Nat} {nMajor nnz : Nat} (w : WFptr ip nMajor nnz)
    (i p : Nat) (hi : i < nMajor) :
    majorOf ip p = i ↔ (ptr ip i ≤ p ∧ p < ptr ip (i + 1)) := by
  have hl := w.len
  have h0 : (0 : Nat) < ip.countP (· ≤ p) := by
    have := (sorted_le_iff_lt_countP ip w.sorted p 0 (by omega)).mp
      (by have := w.first; rw [ptr_eq_getElem ip 0 (by omega)] at this; omega)
    exact this
  have h1 := sorted_le_iff_lt_countP ip w.sorted p i (by omega)
  have h2 := sorted_le_iff_lt_countP ip w.sorted p (i + 1) (by omega)
  rw [ptr_eq_getElem ip i (by omega), ptr_eq_getElem ip (i + 1) (by omega)]
  unfold majorOf
  omega


/-! ### entries of one major slice -/

theorem zipIdx_filter_range {β} (a b : Nat) : ∀ (l : List β) (k : Nat),
    ((l.zipIdx k).filter (fun x => decide (a ≤ x.2) && decide (x.2 < b))).map (·.1)
      = slice l (a - k) (b - k) := by
  intro l
  induction l with
  | nil => intro k; simp [slice]
  | cons x xs ih =>
    intro k
    rw [List.zipIdx_cons, List.filter_cons]
    by_cases h1 : a ≤ k
    · by_cases h2 : k < b
      · simp only [h1, h2, decide_true, Bool.and_self, if_true, List.map_cons]
        rw [ih (k + 1)]
        unfold slice
        have e1 : a - k = 0 := by omega
        have e2 : a - (k + 1) = 0 := by omega
        have e3 : b - k - 0 = (b - (k + 1) - 0) + 1 := by omega
        rw [e1, e2, e3]
        simp
      · simp only [h1, h2, decide_true, decide_false, Bool.and_false, Bool.false_eq_true, if_false]
        rw [ih (k + 1)]
        unfold slice
        have e1 : b - k - (a - k) = 0 := by omega
        have e2 : b - (k + 1) - (a - (k + 1)) = 0 := by omega
        rw [e1, e2]; simp
    · simp only [h1, decide_false, Bool.false_and, Bool.false_eq_true, if_false]
      rw [ih (k + 1)]
      unfold slice
      have e1 : a - k = (a - (k + 1)) + 1 := by omega
      have e2 : b - k - (a - (k + 1) + 1) = b - (k + 1) - (a - (k + 1)) := by omega
      rw [e1, List.drop_succ_cons, e2]

theorem slice_zip {β γ} (l : List β) (m : List γ) (a b : Nat) :
    slice (l.zip m) a b = (slice l a b).zip (slice m a b) := by
  simp [slice, List.zip_eq_zipWith, List.take_zipWith, List.drop_zipWith]

/-- under a well-formed pointer array, the entries tagged with major index `i`
are the stored pairs of slice `i`, in order -/
theorem entries_of_major {α} (M : Mat α) (nMajor : Nat)
    (w : WFptr M.indptr nMajor M.indices.length) (i : Nat) (hi : i < nMajor) :
    ((entriesOf M).filter (·.major == i)).map (fun e => (e.minor, e.val))
      = (slice M.indices (ptr M.indptr i) (ptr M.indptr (i + 1))).zip
          (slice M.data (ptr M.indptr i) (ptr M.indptr (i + 1))) := by
  unfold entriesOf
  rw [List.filter_map, List.map_map]
  have hp : ∀ x ∈ (M.indices.zip M.data).zipIdx,
      (((fun e : Entry α => e.major == i) ∘ fun x : (Nat × α) × Nat =>
        (⟨majorOf M.indptr x.2, x.1.1, x.1.2⟩ : Entry α)) x)
      = (decide (ptr M.indptr i ≤ x.2) && decide (x.2 < ptr M.indptr (i + 1))) := by
    intro x _
    simp only [Function.comp]
    have := majorOf_eq_iff w i x.2 hi
    by_cases h : majorOf M.indptr x.2 = i
    · have h' := this.mp h
      simp [h, h'.1, h'.2]
    · have h' : ¬ (ptr M.indptr i ≤ x.2 ∧ x.2 < ptr M.indptr (i + 1)) := fun hh => h (this.mpr hh)
      have hb : (majorOf M.indptr x.2 == i) = false := by simp [h]
      rw [hb]
      symm
      rw [Bool.and_eq_false_iff]
      by_cases h1 : ptr M.indptr i ≤ x.2
      · right; simp
        apply Classical.byContradiction
        intro h2; exact h' ⟨h1, by omega⟩
      · left; simp [h1]
  rw [List.filter_congr hp]
  have hm : ((fun e : Entry α => (e.minor, e.val)) ∘ fun x : (Nat × α) × Nat =>
        (⟨majorOf M.indptr x.2, x.1.1, x.1.2⟩ : Entry α)) = (·.1) := rfl
  rw [hm, zipIdx_filter_range, slice_zip]
  rfl


/-! ### scattering a row -/

/-- value of the last pair with key `j` (numpy: the last of repeated positions
wins), `zero` if there is none -/
def lastVal {α} (zero : α) (l : List (Nat × α)) (j : Nat) : α :=
  match (l.filter (·.1 == j)).getLast? with
  | some cv => cv.2
  | none => zero

theorem foldl_set_getD {α} (zero : α) : ∀ (cvs : List (Nat × α)) (row : List α) (j : Nat),
    j < row.length →
    (cvs.foldl (fun r cv => r.set cv.1 cv.2) row).getD j zero
      = match (cvs.filter (·.1 == j)).getLast? with
        | some cv => cv.2
        | none => row.getD j zero := by
  intro cvs
  induction cvs with
  | nil => intro row j _; simp
  | cons cv rest ih =>
    intro row j hj
    rw [List.foldl_cons, ih (row.set cv.1 cv.2) j (by simpa using hj)]
    rw [List.filter_cons]
    by_cases h : cv.1 = j
    · simp only [h, beq_self_eq_true, if_true]
      cases hr : List.filter (fun x => x.1 == j) rest with
      | nil =>
        simp [List.getD_eq_getElem?_getD, hj]
      | cons y ys =>
        rw [List.getLast?_cons_cons]
        have : ((y :: ys).getLast?).isSome := by simp
        obtain ⟨z, hz⟩ := Option.isSome_iff_exists.mp this
        rw [hz]
    · have hb : (cv.1 == j) = false := by simp [h]
      simp only [hb, Bool.false_eq_true, if_false]
      cases hr : (List.filter (fun x => x.1 == j) rest).getLast? with
      | some y => rfl
      | none =>
        simp [List.getD_eq_getElem?_getD, h]

/-- element `j` of a scattered row is the value of the last stored pair with
column `j`, zero if there is none -/
theorem scatter_getD {α} (zero : α) (n : Nat) (cols : List Nat) (vals : List α) (j : Nat)
    (hj : j < n) :
    (scatter zero n cols vals).getD j zero = lastVal zero (cols.zip vals) j := by
  unfold scatter lastVal
  rw [foldl_set_getD zero _ _ j (by simpa using hj)]
  cases (List.filter (fun x => x.1 == j) (cols.zip vals)).getLast? with
  | some y => rfl
  | none => simp [List.getD_eq_getElem?_getD, hj]

theorem scatter_length {α} (zero : α) (n : Nat) (cols : List Nat) (vals : List α) :
    (scatter zero n cols vals).length = n := by
  unfold scatter
  have : ∀ (cvs : List (Nat × α)) (row : List α),
      (cvs.foldl (fun r cv => r.set cv.1 cv.2) row).length = row.length := by
    intro cvs
    induction cvs with
    | nil => intro row; rfl
    | cons cv rest ih => intro row; rw [List.foldl_cons, ih]; simp
  rw [this]; simp


/-! ### the transposed arrays as a dense matrix -/

theorem lastVal_map {α} (zero : α) (F : List (Entry α)) (key : Entry α → Nat) (j : Nat) :
    lastVal zero (F.map fun e => (key e, e.val)) j
      = match (F.filter (fun e => key e == j)).getLast? with
        | some e => e.val
        | none => zero := by
  unfold lastVal
  rw [List.filter_map, List.getLast?_map]
  have : ((fun x : Nat × α => x.1 == j) ∘ fun e : Entry α => (key e, e.val))
      = fun e => key e == j := rfl
  rw [this]
  cases (List.filter (fun e => key e == j) F).getLast? <;> rfl

theorem getElem_eq_getD {β} (l : List β) (i : Nat) (h : i < l.length) (d : β) :
    l[i] = l.getD i d := by
  simp [List.getD_eq_getElem?_getD, h]

/-- **the transposed arrays denote the transposed matrix** -/
theorem canonOut_toDense {α} (zero : α) (M : Mat α) (nMajor nMinor : Nat)
    (w : WFptr M.indptr nMajor M.indices.length) :
    toDense zero (canonOut (entriesOf M) nMinor) nMinor nMajor
      = transposeDense zero (toDense zero M nMajor nMinor) nMinor := by
  unfold toDense transposeDense
  apply List.map_congr_left
  intro v hv
  rw [List.mem_range] at hv
  rw [List.map_map]
  apply List.ext_getElem
  · simp [rowSpec, scatter_length]
  · intro i h1 h2
    have hi : i < nMajor := by simpa [rowSpec, scatter_length] using h1
    rw [getElem_eq_getD _ _ _ zero]
    simp only [List.getElem_map, List.getElem_range, Function.comp]
    unfold rowSpec
    obtain ⟨e1, e2⟩ := canonOut_slice (entriesOf M) nMinor v hv
    rw [e1, e2, scatter_getD zero _ _ _ _ hi, scatter_getD zero _ _ _ _ hv]
    rw [← entries_of_major M nMajor w i hi]
    rw [List.zip_map', lastVal_map zero _ (·.major) i, lastVal_map zero _ (·.minor) v]
    rw [List.filter_filter, List.filter_filter]
    have : (fun a : Entry α => (a.major == i) && (a.minor == v))
        = (fun a => (a.minor == v) && (a.major == i)) := by
      funext a; exact Bool.and_comm _ _
    rw [this]


/-! ### uniqueness of coordinates, sortedness of the output slices -/

/-- no two stored entries share their coordinates -/
def UniqueCoords {α} (E : List (Entry α)) : Prop :=
  E.Pairwise (fun a b => ¬ (a.major = b.major ∧ a.minor = b.minor))

/-- within every output slice the indices strictly increase -/
theorem bucket_strictly_increasing {α} (F : List (Entry α)) (hs : MajorsSorted F)
    (hu : UniqueCoords F) (v : Nat) :
    ((F.filter (·.minor == v)).map (·.major)).Pairwise (· < ·) := by
  rw [List.pairwise_map]
  have hboth : F.Pairwise (fun a b => (decide (a.major ≤ b.major)) = true
      ∧ ¬ (a.major = b.major ∧ a.minor = b.minor)) := List.Pairwise.and hs hu
  have hf := List.Pairwise.filter (fun e : Entry α => e.minor == v) hboth
  rw [List.pairwise_filter] at hf
  rw [List.pairwise_filter]
  apply List.Pairwise.imp _ hf
  intro a b hab ha hb
  have := hab ha hb
  simp only [decide_eq_true_eq, beq_iff_eq] at this ha hb
  have h2 := this.2
  have : a.major ≠ b.major := fun h => h2 ⟨h, by omega⟩
  omega

/-- `indices unique within every major slice` (array level) -/
def SlicesNodup {α} (M : Mat α) (nMajor : Nat) : Prop :=
  ∀ i, i < nMajor → (slice M.indices (ptr M.indptr i) (ptr M.indptr (i + 1))).Nodup

theorem pairwise_of_filter_key {β} (R : β → β → Prop) (key : β → Nat)
    (hdiff : ∀ a b, key a ≠ key b → R a b) :
    ∀ (l : List β), (∀ k, (l.filter (fun x => key x == k)).Pairwise R) → l.Pairwise R := by
  intro l
  induction l with
  | nil => intro _; exact List.Pairwise.nil
  | cons x xs ih =>
    intro h
    rw [List.pairwise_cons]
    constructor
    · intro y hy
      by_cases hk : key x = key y
      · have := h (key x)
        rw [List.filter_cons] at this
        simp only [beq_self_eq_true, if_true, List.pairwise_cons] at this
        exact this.1 y (by rw [List.mem_filter]; exact ⟨hy, by simp [hk]⟩)
      · exact hdiff x y hk
    · apply ih
      intro k
      have := h k
      rw [List.filter_cons] at this
      split at this
      · exact (List.pairwise_cons.mp this).2
      · exact this

theorem entriesOf_uniqueCoords {α} (M : Mat α) (nMajor : Nat)
    (w : WFptr M.indptr nMajor M.indices.length) (hlen : M.data.length = M.indices.length)
    (hn : SlicesNodup M nMajor) : UniqueCoords (entriesOf M) := by
  unfold UniqueCoords
  apply pairwise_of_filter_key _ (·.major)
  · intro a b hab h; exact hab h.1
  · intro i
    by_cases hi : i < nMajor
    · have h1 := entries_of_major M nMajor w i hi
      have h2 := hn i hi
      -- minors of the filtered entries are the slice's indices
      have h3 : ((entriesOf M).filter (·.major == i)).map (·.minor)
          = slice M.indices (ptr M.indptr i) (ptr M.indptr (i + 1)) := by
        have := congrArg (List.map Prod.fst) h1
        rw [List.map_map, List.map_fst_zip] at this
        · exact this
        · rw [slice_length_le _ (by
              have := w.mono (Nat.le_refl (i+1)) (by omega : i + 1 ≤ nMajor)
              have := w.mono (by omega : i + 1 ≤ nMajor) (Nat.le_refl nMajor)
              rw [w.last] at this; omega),
            slice_length_le _ (by
              have := w.mono (by omega : i + 1 ≤ nMajor) (Nat.le_refl nMajor)
              rw [w.last] at this; omega)]
          omega
      rw [← h3] at h2
      rw [List.Nodup] at h2
      rw [List.pairwise_map] at h2
      apply List.Pairwise.imp _ h2
      intro a b hab h
      exact hab h.2
    · -- no entry has a major index ≥ nMajor: the filter is empty or at least harmless
      have : (entriesOf M).filter (·.major == i) = [] := by
        rw [List.filter_eq_nil_iff]
        intro e he
        unfold entriesOf at he
        rw [List.mem_map] at he
        obtain ⟨x, hx, rfl⟩ := he
        simp only [beq_iff_eq]
        have hx2 : x.2 < M.indices.length := by
          have := List.snd_lt_of_mem_zipIdx hx
          simp only [List.length_zip, Nat.add_zero] at this
          omega
        have hl := w.len
        have h5 := sorted_le_iff_lt_countP M.indptr w.sorted x.2 nMajor (by omega)
        have h6 := w.last
        rw [ptr_eq_getElem _ _ (by omega)] at h6
        have h7 := w.first
        rw [ptr_eq_getElem _ _ (by omega)] at h7
        unfold majorOf
        by_cases hz : nMajor = 0
        · subst hz; omega
        · omega
      rw [this]; exact List.Pairwise.nil


/-! ### the output pointer array -/

theorem bucketSpec_length {α} (F : List (Entry α)) (n : Nat) :
    (bucketSpec F n).length = F.countP (·.minor < n) := by
  unfold bucketSpec
  rw [List.flatMap_def, List.length_flatten, ← bucket_lengths_sum F n n (Nat.le_refl _)]
  rw [List.take_of_length_le (by simp)]

theorem countP_minor_all {α} (F : List (Entry α)) (n : Nat) (h : ∀ e ∈ F, e.minor < n) :
    F.countP (·.minor < n) = F.length := by
  rw [List.countP_eq_length]
  intro e he
  simpa using h e he

/-- **the output pointer array**: `n + 1` entries, starts at 0, non-decreasing,
ends at the number of stored entries -/
theorem canonOut_wfptr {α} (F : List (Entry α)) (n : Nat) (h : ∀ e ∈ F, e.minor < n) :
    WFptr (canonOut F n).indptr n F.length := by
  unfold canonOut
  simp only
  constructor
  · simp
  · rw [List.pairwise_map]
    apply List.Pairwise.imp _ (List.pairwise_lt_range)
    intro a b hab
    apply List.countP_mono_left
    intro e _ he
    simp only [decide_eq_true_eq] at he ⊢
    omega
  · rw [ptr_map_range _ _ _ (by omega)]
    simp
  · rw [ptr_map_range _ _ _ (by omega)]
    exact countP_minor_all F n h

theorem canonOut_lengths {α} (F : List (Entry α)) (n : Nat) (h : ∀ e ∈ F, e.minor < n) :
    (canonOut F n).indices.length = F.length ∧ (canonOut F n).data.length = F.length := by
  unfold canonOut
  simp only [List.length_map, bucketSpec_length, countP_minor_all F n h, and_self]

end CTM.Sparse
