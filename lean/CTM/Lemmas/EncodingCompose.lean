/-
  Adapter lemmas between the row-access model (C05: `CTM/Model/Sparse.lean`,
  `CTM/Model/Chunking.lean`) and its consumers' models:

  * group F's reference statistics (`CTM/Model/Stats.lean`: `precompute` slices
    every file into `fileChunks` with its own `chunkRanges` / `slice`),
  * group E's per-chunk preparation (`CTM/Model/Normalize.lean`: `prepareChunk`),
  * group D's mapping pipeline (`CTM/Model/LevelLoop.lean`: `mapPipeline` slices
    the list of cell vectors with its own `chunks` / `effChunk` / `slice`).

  The three chunk loops are the same function; the per-chunk preparation is
  row-wise, so preparing the blocks of an iteration and concatenating is
  preparing the whole matrix.
-/
import CTM.Lemmas.SparseFlat
import CTM.Model.Stats
import CTM.Model.Normalize
import CTM.Model.LevelLoop

namespace CTM.EncodingCompose
open CTM.Sparse

/-! ### the consumers' chunk loops are the iterator's -/

/-- group D's `chunks` (row ranges of the mapper's chunk loop) is the
iterator's `chunks`, for every row count and chunk size -/
theorem levelLoop_chunks_eq (n cs : Nat) : LevelLoop.chunks n cs = Chunking.chunks n cs := by
  unfold LevelLoop.chunks Chunking.chunks
  have : ∀ fuel r0, LevelLoop.chunksFrom n cs fuel r0 = Chunking.chunksAux n cs fuel r0 := by
    intro fuel
    induction fuel with
    | zero => intro r0; rfl
    | succ f ih =>
      intro r0
      unfold LevelLoop.chunksFrom Chunking.chunksAux
      by_cases h : r0 < n
      · have h' : ¬ r0 ≥ n := by omega
        simp only [h, h', if_true, if_false, ih]
      · have h' : r0 ≥ n := by omega
        simp only [h, h', if_true, if_false]
  exact this n 0

theorem levelLoop_effChunk_eq (n nProc cs : Nat) :
    LevelLoop.effChunk n nProc cs = Chunking.effChunk n nProc cs := rfl

/-- group D's `xs[r0:r1]` is the iterator's -/
theorem levelLoop_slice_eq {β} (xs : List β) (r0 r1 : Nat) :
    LevelLoop.slice xs r0 r1 = Chunking.slice xs r0 r1 := by
  unfold LevelLoop.slice Chunking.slice
  rw [List.drop_take]

/-- group F's `chunkRanges` (`for r0 in range(0, n, rows): r1 = min(n, r0+rows)`)
is the iterator's `chunks`, for every row count and chunk size -/
theorem stats_chunkRanges_eq (n rows : Nat) : Stats.chunkRanges n rows = Chunking.chunks n rows := by
  unfold Stats.chunkRanges Chunking.chunks
  have hnil1 : ∀ fuel r0, n ≤ r0 → Stats.chunkRangesAux n rows fuel r0 = [] := by
    intro fuel r0 h
    cases fuel with
    | zero => rfl
    | succ f => unfold Stats.chunkRangesAux; simp [show ¬ r0 < n by omega]
  have hnil2 : ∀ fuel r0, n ≤ r0 → Chunking.chunksAux n rows fuel r0 = [] := by
    intro fuel r0 h
    cases fuel with
    | zero => rfl
    | succ f => unfold Chunking.chunksAux; simp [show ¬ r0 < n by omega]
  have : ∀ fuel r0, Stats.chunkRangesAux n rows fuel r0 = Chunking.chunksAux n rows fuel r0 := by
    intro fuel
    induction fuel with
    | zero => intro r0; rfl
    | succ f ih =>
      intro r0
      unfold Stats.chunkRangesAux Chunking.chunksAux
      by_cases h : r0 < n
      · simp only [h, if_true]
        congr 1
        by_cases h2 : r0 + rows ≤ n
        · rw [Nat.min_eq_right h2]; exact ih _
        · rw [hnil1 f (r0 + rows) (by omega), hnil2 f (min n (r0 + rows)) (by omega)]
      · simp only [h, if_false]
  exact this n 0

/-- group F's `slice` on cell records is the iterator's -/
theorem stats_slice_eq (cells : List Stats.CellRec) (r0 r1 : Nat) :
    Stats.slice cells r0 r1 = Chunking.slice cells r0 r1 := rfl


/-- the cell records group F's model takes for a file: obs names paired with
the normalised rows -/
def recsOf (names : List Nat) (norm : List Rat → List Rat) (rows : Dense Rat) :
    List Stats.CellRec :=
  (names.zip rows).map fun p => ⟨p.1, norm p.2⟩

theorem recsOf_slice (names : List Nat) (norm : List Rat → List Rat) (rows : Dense Rat)
    (r0 r1 : Nat) :
    Stats.slice (recsOf names norm rows) r0 r1
      = recsOf (Chunking.slice names r0 r1) norm (Chunking.slice rows r0 r1) := by
  rw [stats_slice_eq]
  unfold recsOf
  rw [slice_map, slice_zip]

/-- the row function of `prepareChunk`: CPM + `f` unless already log2CPM, then
the marker columns -/
def prepRow (f : Rat → Rat) (norm : Normalize.Norm) (idx : List Nat) (row : List Rat) : List Rat :=
  Normalize.takeCols
    (if norm != .log2CPM then (Normalize.cpmRow row).map f else row) idx

/-- **`prepareChunk` is row-wise**: whether it succeeds depends only on the gene
lists / width / normalisation, and when it does, its data is the input rows
mapped by one row function -/
theorem prepareChunk_rowwise (f : Rat → Rat) (width : Nat) (genes : List Markers.Gene)
    (norm : Normalize.Norm) (allMarkers : List Markers.Gene) :
    ∃ g : List Rat → List Rat, ∀ data : List (List Rat),
      Normalize.prepareChunk f data width genes norm allMarkers
        = (Normalize.prepareChunk f [] width genes norm allMarkers).map
            (fun m0 => { m0 with data := data.map g }) := by
  have hA : (Normalize.Norm.raw != Normalize.Norm.log2CPM) = true := by decide
  have hB : (Normalize.Norm.raw != Normalize.Norm.raw) = false := by decide
  have hC : (Normalize.Norm.log2CPM != Normalize.Norm.log2CPM) = false := by decide
  cases hidx : Normalize.colsOf genes allMarkers with
  | error e =>
    refine ⟨id, fun data => ?_⟩
    unfold Normalize.prepareChunk Normalize.CBG.make
    by_cases h1 : (genes.length != width) = true
    · simp [h1, Except.map]
    · by_cases h2 : RawTree.hasDup genes = true
      · simp [h1, h2, Except.map]
      · by_cases h3 : RawTree.hasDup allMarkers = true <;> cases norm <;>
          simp [h1, h2, h3, hA, hB, hC, Except.map, Normalize.CBG.toLog2CPM,
            Normalize.CBG.downsampleGenes, Normalize.CBG.selectData, hidx]
  | ok idx =>
    refine ⟨prepRow f norm idx, fun data => ?_⟩
    unfold Normalize.prepareChunk Normalize.CBG.make
    by_cases h1 : (genes.length != width) = true
    · simp [h1, Except.map]
    · by_cases h2 : RawTree.hasDup genes = true
      · simp [h1, h2, Except.map]
      · by_cases h3 : RawTree.hasDup allMarkers = true <;> cases norm <;>
          simp [h1, h2, h3, hA, hB, hC, Except.map, Normalize.CBG.toLog2CPM,
            Normalize.CBG.downsampleGenes, Normalize.CBG.selectData, hidx, prepRow,
            Normalize.convertToCpm]

/-- the cell vectors the mapper's chunk loop sees: every block `(rows, r0, r1)`
of an iteration is prepared on its own (`run_type_assignment_on_h5ad_cpu`), the
prepared rows in iteration order -/
def mapperCells (f : Rat → Rat) (width : Nat) (genes : List Markers.Gene)
    (norm : Normalize.Norm) (allMarkers : List Markers.Gene)
    (blocks : List (Dense Rat × Nat × Nat)) : Except Normalize.NErr (List (List Rat)) :=
  (blocks.mapM fun b => Normalize.prepareChunk f b.1 width genes norm allMarkers).map
    fun ms => ms.flatMap (·.data)

theorem mapM_error {β γ ε} (f : β → Except ε γ) (e : ε) : ∀ (l : List β), l ≠ [] →
    (∀ x ∈ l, f x = .error e) → l.mapM f = .error e := by
  intro l hne h
  cases l with
  | nil => exact absurd rfl hne
  | cons a as => rw [List.mapM_cons, h a (by simp)]; rfl

/-- **preparing chunk by chunk is preparing the whole matrix**: for every
non-empty list of blocks whose rows concatenate to `D`, the mapper's cell
vectors are the rows of `D` mapped by one row function (or the one error
`prepareChunk` raises for these gene lists), whatever the chunking -/
theorem mapperCells_eq (f : Rat → Rat) (width : Nat) (genes : List Markers.Gene)
    (norm : Normalize.Norm) (allMarkers : List Markers.Gene) :
    ∃ g : List Rat → List Rat, ∀ (blocks : List (Dense Rat × Nat × Nat)) (D : Dense Rat),
      blocks ≠ [] → (blocks.map (·.1)).flatten = D →
      mapperCells f width genes norm allMarkers blocks
        = (Normalize.prepareChunk f [] width genes norm allMarkers).map (fun _ => D.map g) := by
  obtain ⟨g, hg⟩ := prepareChunk_rowwise f width genes norm allMarkers
  refine ⟨g, fun blocks D hne hflat => ?_⟩
  unfold mapperCells
  cases h0 : Normalize.prepareChunk f [] width genes norm allMarkers with
  | error e =>
    rw [mapM_error _ e blocks hne (fun b _ => by rw [hg b.1, h0]; rfl)]
    rfl
  | ok m0 =>
    rw [mapM_ok _ (fun b => ({ m0 with data := b.1.map g } : Normalize.CBG)) blocks
      (fun b _ => by rw [hg b.1, h0]; rfl)]
    simp only [Except.map]
    congr 1
    rw [← hflat, List.flatMap_def, List.map_map, List.map_flatten, List.map_map]
    rfl


/-! ### what the iterators hand over -/

theorem denseIter_rows {β} (D : List (List β)) (cs : Nat) (hcs : 1 ≤ cs) :
    ((denseIter D cs).map (·.1)).flatten = D := by
  unfold denseIter denseGetChunk
  rw [List.map_map]
  exact chunks_blocks_flatten D cs hcs

theorem denseIter_ne_nil {β} (D : List (List β)) (cs : Nat) (hcs : 1 ≤ cs) (hD : D ≠ []) :
    denseIter D cs ≠ [] := by
  intro h
  have := denseIter_rows D cs hcs
  rw [h] at this
  exact hD this.symm

/-- `get_chunk` on a CSC layer: transposition to scratch space (any budget),
then `CSRRowIterator.get_chunk` -/
def cscGetChunk {α} (zero : α) (M : Mat α) (nRows nCols r0 r1 : Nat) (B : Budget) :
    Except SpErr (Dense α × Nat × Nat) :=
  transposeOnDisk M nRows none B >>= fun csr => csrGetChunk zero csr nCols r0 r1

theorem cscGetChunk_ok {α} (zero : α) (M : Mat α) (nRows nCols : Nat) (B : Budget)
    (hlo : 1 ≤ B.lo) (hc : 1 ≤ B.loCount)
    (w : WFptr M.indptr nCols M.indices.length) (hlen : M.data.length = M.indices.length)
    (hr : ∀ x ∈ M.indices, x < nRows) (r0 r1 : Nat) (h01 : r0 ≤ r1) (h1 : r1 ≤ nRows) :
    cscGetChunk zero M nRows nCols r0 r1 B
      = .ok (Chunking.slice (transposeDense zero (toDense zero M nCols nRows) nRows) r0 r1,
             r0, r1) := by
  unfold cscGetChunk
  rw [transposeOnDisk_eq M nRows none B hlo hc hlen hr]
  simp only [bind, Except.bind, nMinorOf, sliceEntries]
  have hE : ∀ e ∈ entriesOf M, e.minor < nRows := by
    intro e he
    apply hr
    rw [← entriesOf_map_minor M hlen]
    exact List.mem_map_of_mem he
  have w2 := canonOut_wfptr (entriesOf M) nRows hE
  rw [← (canonOut_lengths (entriesOf M) nRows hE).1] at w2
  unfold csrGetChunk
  rw [loadCsr_ok zero _ nRows nCols w2 (canonOut_indices_lt M nCols nRows w) r0 r1 h01 h1,
    canonOut_toDense zero M nCols nRows w]
  rfl

end CTM.EncodingCompose
