/-
  Canonical form of a compressed matrix (`ofSegs`: pointer array = prefix sums
  of the slice lengths) and the concatenation of pieces (`merge_csr`,
  `amalgamate_csr_to_x`, joining loop of the parallel transposition).
-/
import CTM.Lemmas.SparseOps

namespace CTM.Sparse
open CTM.Chunking


abbrev Seg (α : Type) := List Nat × List α

/-- prefix sum of the segment lengths -/
def segPrefix {α} (segs : List (Seg α)) (k : Nat) : Nat := ((segs.take k).map (·.1.length)).sum

/-- the compressed matrix whose major slices are the given segments -/
def ofSegs {α} (segs : List (Seg α)) : Mat α :=
  ⟨(List.range (segs.length + 1)).map (segPrefix segs), segs.flatMap (·.1), segs.flatMap (·.2)⟩

theorem segPrefix_append_left {α} (a b : List (Seg α)) (k : Nat) (hk : k ≤ a.length) :
    segPrefix (a ++ b) k = segPrefix a k := by
  unfold segPrefix
  rw [List.take_append_of_le_length hk]

theorem segPrefix_append_right {α} (a b : List (Seg α)) (k : Nat) :
    segPrefix (a ++ b) (a.length + k) = segPrefix a a.length + segPrefix b k := by
  unfold segPrefix
  rw [List.take_append, List.take_of_length_le (by omega)]
  simp

theorem segPrefix_total {α} (a : List (Seg α)) :
    segPrefix a a.length = (a.flatMap (·.1)).length := by
  unfold segPrefix
  rw [List.take_length, List.flatMap_def, List.length_flatten, List.map_map]
  rfl

/-- lengths agree pairwise -/
def SegsOK {α} (segs : List (Seg α)) : Prop := ∀ s ∈ segs, s.1.length = s.2.length

theorem flatMap_lengths {α} (a : List (Seg α)) (h : SegsOK a) :
    (a.flatMap (·.2)).length = (a.flatMap (·.1)).length := by
  induction a with
  | nil => rfl
  | cons s rest ih =>
    simp only [List.flatMap_cons, List.length_append]
    rw [ih (fun x hx => h x (by simp [hx])), h s (by simp)]

theorem ofSegs_indptr_dropLast {α} (segs : List (Seg α)) :
    (ofSegs segs).indptr.dropLast = (List.range segs.length).map (segPrefix segs) := by
  unfold ofSegs
  simp only
  rw [List.range_succ, List.map_append, List.map_cons, List.map_nil, List.dropLast_concat]

theorem ofSegs_last {α} (segs : List (Seg α)) :
    (ofSegs segs).indptr.getLast?.getD 0 = (ofSegs segs).indices.length := by
  unfold ofSegs
  simp only
  rw [List.range_succ, List.map_append, List.map_cons, List.map_nil, List.getLast?_concat]
  exact segPrefix_total segs

/-- concatenating canonical pieces, all pointer lists shifted by the running
offset, is the canonical matrix of the concatenated segments (shifted) -/
theorem concatAux_ofSegs {α} (off : Mat α → Nat)
    (hoff : ∀ segs : List (Seg α), SegsOK segs → off (ofSegs segs) = (segs.flatMap (·.1)).length) :
    ∀ (Ls : List (List (Seg α))) (i0 : Nat), (∀ L ∈ Ls, SegsOK L) →
      concatAux off (Ls.map ofSegs) i0
        = ((List.range Ls.flatten.length).map (fun k => segPrefix Ls.flatten k + i0),
           Ls.flatten.flatMap (·.1), Ls.flatten.flatMap (·.2)) := by
  intro Ls
  induction Ls with
  | nil => intro i0 _; simp [concatAux]
  | cons L rest ih =>
    intro i0 hok
    simp only [List.map_cons, concatAux]
    rw [ih _ (fun X hX => hok X (by simp [hX])), hoff L (hok L (by simp))]
    simp only [List.flatten_cons, List.length_append, List.flatMap_append]
    rw [ofSegs_indptr_dropLast]
    congr 1
    rw [List.range_add, List.map_append, List.map_map, List.map_map]
    congr 1
    · apply List.map_congr_left
      intro k hk
      rw [List.mem_range] at hk
      simp only [Function.comp]
      rw [segPrefix_append_left _ _ _ (by omega)]
    · apply List.map_congr_left
      intro k _
      simp only [Function.comp]
      rw [segPrefix_append_right, segPrefix_total]
      omega

theorem concat_ofSegs_mat {α} (off : Mat α → Nat)
    (hoff : ∀ segs : List (Seg α), SegsOK segs → off (ofSegs segs) = (segs.flatMap (·.1)).length)
    (Ls : List (List (Seg α))) (hok : ∀ L ∈ Ls, SegsOK L) (last : Nat)
    (hlast : last = (Ls.flatten.flatMap (·.1)).length) :
    (⟨(concatAux off (Ls.map ofSegs) 0).1 ++ [last], (concatAux off (Ls.map ofSegs) 0).2.1,
      (concatAux off (Ls.map ofSegs) 0).2.2⟩ : Mat α) = ofSegs Ls.flatten := by
  rw [concatAux_ofSegs off hoff Ls 0 hok]
  unfold ofSegs
  simp only [Nat.add_zero]
  congr 1
  rw [List.range_succ, List.map_append, List.map_cons, List.map_nil, hlast, segPrefix_total]

theorem segsOK_flatten {α} (Ls : List (List (Seg α))) (hok : ∀ L ∈ Ls, SegsOK L) :
    SegsOK Ls.flatten := by
  intro s hs
  rw [List.mem_flatten] at hs
  obtain ⟨L, hL, hs⟩ := hs
  exact hok L hL s hs

/-- **`merge_csr`** on canonical pieces -/
theorem mergeCsr_ofSegs {α} (Ls : List (List (Seg α))) (hok : ∀ L ∈ Ls, SegsOK L) :
    mergeCsr (Ls.map ofSegs) = ofSegs Ls.flatten := by
  unfold mergeCsr
  apply concat_ofSegs_mat _ _ Ls hok
  · rw [concatAux_ofSegs _ _ Ls 0 hok]
    · exact flatMap_lengths _ (segsOK_flatten Ls hok)
    · intro segs h; exact flatMap_lengths segs h
  · intro segs h; exact flatMap_lengths segs h

/-- the joining loop of the parallel transposition on canonical pieces -/
theorem joinParts_ofSegs {α} (Ls : List (List (Seg α))) (hok : ∀ L ∈ Ls, SegsOK L) :
    joinParts (Ls.map ofSegs) = ofSegs Ls.flatten := by
  unfold joinParts
  apply concat_ofSegs_mat _ _ Ls hok
  · rw [concatAux_ofSegs _ _ Ls 0 hok]
    intro segs _; rfl
  · intro segs _; rfl

/-- **`amalgamate_csr_to_x`** on canonical pieces -/
theorem amalgamateCsr_ofSegs {α} (Ls : List (List (Seg α))) (hok : ∀ L ∈ Ls, SegsOK L) :
    amalgamateCsr (Ls.map ofSegs) = ofSegs Ls.flatten := by
  unfold amalgamateCsr
  apply concat_ofSegs_mat _ _ Ls hok
  · rw [concatAux_ofSegs _ _ Ls 0 hok]
    · exact flatMap_lengths _ (segsOK_flatten Ls hok)
    · intro segs _; exact ofSegs_last segs
  · intro segs _; exact ofSegs_last segs

theorem ptr_ofSegs {α} (segs : List (Seg α)) (k : Nat) (hk : k ≤ segs.length) :
    ptr (ofSegs segs).indptr k = segPrefix segs k := by
  unfold ofSegs
  exact ptr_map_range _ _ _ (by omega)

/-- the major slices of a canonical matrix are its segments -/
theorem segOf_ofSegs {α} (segs : List (Seg α)) (hok : SegsOK segs) (k : Nat)
    (hk : k < segs.length) : segOf (ofSegs segs) k = segs[k] := by
  unfold segOf
  rw [ptr_ofSegs segs k (by omega), ptr_ofSegs segs (k + 1) (by omega)]
  have h1 : (ofSegs segs).indices = (segs.map (·.1)).flatten := by
    unfold ofSegs; simp [List.flatMap_def]
  have h2 : (ofSegs segs).data = (segs.map (·.2)).flatten := by
    unfold ofSegs; simp [List.flatMap_def]
  have hp : ∀ j, segPrefix segs j = (((segs.map (·.1)).take j).map List.length).sum := by
    intro j; unfold segPrefix; rw [← List.map_take, List.map_map]; rfl
  have hp2 : ∀ j, segPrefix segs j = (((segs.map (·.2)).take j).map List.length).sum := by
    intro j
    unfold segPrefix
    rw [← List.map_take, List.map_map]
    congr 1
    apply List.map_congr_left
    intro s hs
    exact hok s ((List.take_sublist _ _).subset hs)
  rw [h1, h2]
  have e1 := slice_flatten (segs.map (·.1)) k (by simpa using hk)
  have e2 := slice_flatten (segs.map (·.2)) k (by simpa using hk)
  rw [← hp, ← hp] at e1
  rw [← hp2, ← hp2] at e2
  rw [e1, e2]
  simp

theorem toDense_ofSegs {α} (zero : α) (segs : List (Seg α)) (hok : SegsOK segs) (nCols : Nat) :
    toDense zero (ofSegs segs) segs.length nCols
      = segs.map fun s => scatter zero nCols s.1 s.2 := by
  unfold toDense
  apply List.ext_getElem
  · simp
  · intro k h1 h2
    have hk : k < segs.length := by simpa using h1
    simp only [List.getElem_map, List.getElem_range]
    have := segOf_ofSegs segs hok k hk
    unfold segOf at this
    unfold rowSpec
    have e1 := (Prod.ext_iff.mp this).1
    have e2 := (Prod.ext_iff.mp this).2
    simp only at e1 e2
    rw [e1, e2]

theorem slices_concat {β} (l : List β) (ip : List Nat) (nRows nnz : Nat) (w : WFptr ip nRows nnz) :
    ∀ k, k ≤ nRows →
      (List.range k).flatMap (fun o => slice l (ptr ip o) (ptr ip (o + 1))) = slice l 0 (ptr ip k) := by
  intro k
  induction k with
  | zero => intro _; simp [slice_self, w.first]
  | succ k ih =>
    intro hk
    rw [List.range_succ, List.flatMap_append, ih (by omega)]
    simp only [List.flatMap_cons, List.flatMap_nil, List.append_nil]
    exact slice_append l (by omega) (w.mono (by omega) hk)

/-- every well-formed compressed matrix is the canonical matrix of its own
major slices -/
theorem eq_ofSegs {α} (M : Mat α) (nRows : Nat) (w : WFptr M.indptr nRows M.indices.length)
    (hlen : M.data.length = M.indices.length) :
    M = ofSegs ((List.range nRows).map (segOf M)) := by
  have hl := w.len
  have hpre : ∀ k, k ≤ nRows →
      segPrefix ((List.range nRows).map (segOf M)) k = ptr M.indptr k := by
    intro k hk
    unfold segPrefix
    rw [← List.map_take, List.take_range, Nat.min_eq_left hk, List.map_map]
    rw [← telescope _ _ _ w k hk]
    congr 1
    apply List.map_congr_left
    intro o ho
    rw [List.mem_range] at ho
    exact (seg_lengths M nRows w hlen o (by omega)).1
  cases M with
  | mk ip ind dat =>
    unfold ofSegs
    simp only [List.length_map, List.length_range]
    congr 1
    · apply List.ext_getElem
      · simp [hl]
      · intro k h1 h2
        have hk : k ≤ nRows := by simp at h2; omega
        simp only [List.getElem_map, List.getElem_range]
        rw [hpre k hk, ptr_eq_getElem _ _ h1]
    · rw [List.flatMap_def, List.map_map, ← List.flatMap_def]
      have := slices_concat ind ip nRows ind.length w nRows (Nat.le_refl _)
      show ind = (List.range nRows).flatMap (fun o => slice ind (ptr ip o) (ptr ip (o + 1)))
      rw [this, w.last]
      exact (slice_zero_length ind).symm
    · rw [List.flatMap_def, List.map_map, ← List.flatMap_def]
      have := slices_concat dat ip nRows ind.length w nRows (Nat.le_refl _)
      show dat = (List.range nRows).flatMap (fun o => slice dat (ptr ip o) (ptr ip (o + 1)))
      rw [this, w.last]
      simp only at hlen
      rw [← hlen]
      exact (slice_zero_length dat).symm

theorem segs_of_wf_ok {α} (M : Mat α) (nRows : Nat) (w : WFptr M.indptr nRows M.indices.length)
    (hlen : M.data.length = M.indices.length) : SegsOK ((List.range nRows).map (segOf M)) := by
  intro s hs
  rw [List.mem_map] at hs
  obtain ⟨o, ho, rfl⟩ := hs
  rw [List.mem_range] at ho
  have := seg_lengths M nRows w hlen o ho
  omega

/-- **pointer arithmetic when concatenating CSR pieces** (`merge_csr`,
`amalgamate_csr_to_x`, the joining loop of the parallel transposition): for
well-formed pieces the concatenated arrays denote the pieces' matrices stacked
in order -/
theorem concat_toDense {α} (zero : α) (join : List (Mat α) → Mat α)
    (hjoin : ∀ Ls : List (List (Seg α)), (∀ L ∈ Ls, SegsOK L) →
      join (Ls.map ofSegs) = ofSegs Ls.flatten)
    (parts : List (Mat α × Nat)) (nCols : Nat)
    (hwf : ∀ P ∈ parts, WFptr P.1.indptr P.2 P.1.indices.length ∧
      P.1.data.length = P.1.indices.length) :
    toDense zero (join (parts.map (·.1))) ((parts.map (·.2)).sum) nCols
      = parts.flatMap (fun P => toDense zero P.1 P.2 nCols) := by
  have h1 : parts.map (·.1)
      = (parts.map fun P => (List.range P.2).map (segOf P.1)).map ofSegs := by
    rw [List.map_map]
    apply List.map_congr_left
    intro P hP
    exact eq_ofSegs P.1 P.2 (hwf P hP).1 (hwf P hP).2
  have hok : ∀ L ∈ parts.map (fun P => (List.range P.2).map (segOf P.1)), SegsOK L := by
    intro L hL
    rw [List.mem_map] at hL
    obtain ⟨P, hP, rfl⟩ := hL
    exact segs_of_wf_ok P.1 P.2 (hwf P hP).1 (hwf P hP).2
  rw [h1, hjoin _ hok]
  have hlen : (parts.map fun P => (List.range P.2).map (segOf P.1)).flatten.length
      = (parts.map (·.2)).sum := by
    rw [List.length_flatten, List.map_map]
    congr 1
    apply List.map_congr_left
    intro P _
    simp
  rw [← hlen, toDense_ofSegs zero _ (segsOK_flatten _ hok), List.map_flatten, List.map_map,
    ← List.flatMap_def]
  apply flatMap_congr'
  intro P _
  simp only [Function.comp, List.map_map, toDense]
  rfl

end CTM.Sparse
