import CTM.Lemmas.TreeLeaves
import CTM.Lemmas.TreeValidate
namespace CTM.RawTree
variable {t : RawTree}

/-! ### every level of an accepted tree has a node -/

/-- the top level has a node (validator), every node above the leaf level has a
child (validator), every listed child is a key of the next level: so every
level of the hierarchy has at least one node -/
theorem nodesAt_ne_nil_of_validate (hv : t.validate = .ok ()) :
    ∀ (i : Nat) (hi : i < t.hierarchy.length), t.nodesAt t.hierarchy[i] ≠ []
  | 0, hi => by
    apply hasNode_of_validate hv
    rw [List.head?_eq_getElem?]; exact List.getElem?_eq_getElem hi
  | i+1, hi => by
    have s := strict_of_validate hv
    have ih := nodesAt_ne_nil_of_validate hv i (by omega)
    cases hp : t.nodesAt (t.hierarchy[i]'(by omega)) with
    | nil => exact absurd hp ih
    | cons p ps =>
      have hpm : p ∈ t.nodesAt (t.hierarchy[i]'(by omega)) := by rw [hp]; exact List.mem_cons_self
      have hne := s.childNe _ _ (mem_levelPairs_of_idx hi) p _ (mem_level_entry hpm)
      cases hc : t.entry (t.hierarchy[i]'(by omega)) p with
      | nil => exact absurd hc hne
      | cons c cs =>
        have := s.entry_sub hi hpm (c := c) (by rw [hc]; exact List.mem_cons_self)
        intro hnil
        rw [hnil] at this
        cases this

theorem nodesAt_ne_nil_of_validate_lv (hv : t.validate = .ok ()) {l : Level}
    (hl : l ∈ t.hierarchy) : t.nodesAt l ≠ [] := by
  obtain ⟨i, hi, rfl⟩ := List.mem_iff_getElem.1 hl
  exact nodesAt_ne_nil_of_validate hv i hi

/-! ### association lists through `filter` / `setLevel` -/

/-- the `fun (k, _) => q k` lambdas of the model are key predicates -/
theorem filter_key_eq {β} (q : Level → Bool) (m : List (Level × β)) :
    m.filter (fun x => match x with | (k, _) => q k) = m.filter (fun kv => q kv.1) := by
  congr 1

theorem lookup_filter_key {α β} [BEq α] [LawfulBEq α] (q : α → Bool) :
    ∀ (m : List (α × β)) {k : α}, q k = true →
      (m.filter (fun kv => q kv.1)).lookup k = m.lookup k
  | [], _, _ => rfl
  | (k', v') :: m, k, hk => by
    by_cases hkk : (k == k') = true
    · have e := eq_of_beq hkk
      subst e
      simp [List.filter, hk, List.lookup]
    · have hkk' : (k == k') = false := by simpa using hkk
      cases hq : q k'
      · simp only [List.filter, hq, List.lookup, hkk']
        exact lookup_filter_key q m hk
      · simp only [List.filter, hq, List.lookup, hkk']
        exact lookup_filter_key q m hk

theorem lookup_filter_key_false {α β} [BEq α] [LawfulBEq α] (q : α → Bool)
    (m : List (α × β)) {k : α} (hk : q k = false) :
    (m.filter (fun kv => q kv.1)).lookup k = none := by
  rw [lookup_eq_none_iff']
  intro h
  rw [List.mem_map] at h
  obtain ⟨⟨k', v⟩, hm, rfl⟩ := h
  rw [List.mem_filter] at hm
  simp [hk] at hm

theorem map_fst_filter_key {α β} (q : α → Bool) (m : List (α × β)) :
    (m.filter (fun kv => q kv.1)).map (·.1) = (m.map (·.1)).filter q := by
  rw [List.filter_map]
  rfl

/-! ### PART A: `flatten` -/

theorem WF.leafLevel_getLast (w : WF t) : t.leafLevel = some (t.hierarchy.getLast w.hNe) :=
  List.getLast?_eq_some_getLast w.hNe

theorem flatten_eq {leaf : Level} (hl : t.leafLevel = some leaf) :
    t.flatten = { t with hierarchy := [leaf]
                         levels := t.levels.filter
                           (fun kv => !(t.hierarchy.dropLast.contains kv.1)) } := by
  unfold flatten
  rw [hl]

theorem flatten_hierarchy {leaf : Level} (hl : t.leafLevel = some leaf) :
    t.flatten.hierarchy = [leaf] := by
  rw [flatten_eq hl]

theorem flatten_hasHierarchy : t.flatten.hasHierarchy = t.hasHierarchy := by
  unfold flatten; split <;> rfl

theorem flatten_nodesAreStr : t.flatten.nodesAreStr = t.nodesAreStr := by
  unfold flatten; split <;> rfl

theorem flatten_leafLevel {leaf : Level} (hl : t.leafLevel = some leaf) :
    t.flatten.leafLevel = some leaf := by
  unfold leafLevel
  rw [flatten_hierarchy hl]
  rfl

theorem hierarchy_eq_dropLast_leaf {leaf : Level} (hl : t.leafLevel = some leaf) :
    t.hierarchy = t.hierarchy.dropLast ++ [leaf] := by
  unfold leafLevel at hl
  have hne : t.hierarchy ≠ [] := by
    intro h; rw [h] at hl; cases hl
  rw [List.getLast?_eq_some_getLast hne] at hl
  cases hl
  exact (List.dropLast_concat_getLast hne).symm

theorem leaf_not_mem_dropLast (hn : t.hierarchy.Nodup) {leaf : Level}
    (hl : t.leafLevel = some leaf) : leaf ∉ t.hierarchy.dropLast := by
  have e := hierarchy_eq_dropLast_leaf hl
  rw [e, List.nodup_append] at hn
  intro hm
  exact hn.2.2 leaf hm leaf (by simp) rfl

theorem flatten_level_leaf (hn : t.hierarchy.Nodup) {leaf : Level}
    (hl : t.leafLevel = some leaf) : t.flatten.level leaf = t.level leaf := by
  unfold level
  rw [flatten_eq hl]
  simp only
  rw [lookup_filter_key (fun k => !(t.hierarchy.dropLast.contains k))]
  simpa using leaf_not_mem_dropLast hn hl

theorem flatten_nodesAt_leaf (hn : t.hierarchy.Nodup) {leaf : Level}
    (hl : t.leafLevel = some leaf) : t.flatten.nodesAt leaf = t.nodesAt leaf := by
  unfold nodesAt; rw [flatten_level_leaf hn hl]

theorem flatten_entry_leaf (hn : t.hierarchy.Nodup) {leaf : Level}
    (hl : t.leafLevel = some leaf) (n : Node) : t.flatten.entry leaf n = t.entry leaf n := by
  unfold entry; rw [flatten_level_leaf hn hl]

theorem flatten_allRows (hn : t.hierarchy.Nodup) : t.flatten.allRows = t.allRows := by
  cases hl : t.leafLevel with
  | none => unfold flatten; rw [hl]
  | some leaf =>
    unfold allRows
    rw [flatten_leafLevel hl, hl]
    simp only
    rw [flatten_level_leaf hn hl]

/-- the keys that survive `flatten`: exactly the leaf level -/
theorem flatten_keys {leaf : Level} (hl : t.leafLevel = some leaf) :
    t.flatten.levels.map (·.1) =
      (t.levels.map (·.1)).filter (fun k => !(t.hierarchy.dropLast.contains k)) := by
  rw [flatten_eq hl]
  exact map_fst_filter_key (fun k => !(t.hierarchy.dropLast.contains k)) t.levels

theorem flatten_dictOK (d : DictOK t) : DictOK t.flatten := by
  cases hl : t.leafLevel with
  | none => unfold flatten; rw [hl]; exact d
  | some leaf =>
    constructor
    · rw [flatten_keys hl]
      exact d.levelKeys.sublist List.filter_sublist
    · intro l m hm
      rw [flatten_eq hl] at hm
      exact d.nodeKeys l m (List.mem_filter.1 hm).1

theorem flatten_strict (s : Strict t) (hn : t.hierarchy.Nodup) {leaf : Level}
    (hl : t.leafLevel = some leaf) : Strict t.flatten := by
  have hh := flatten_hierarchy hl
  have hnp : levelPairs t.flatten.hierarchy = [] := by rw [hh]; rfl
  have e := hierarchy_eq_dropLast_leaf hl
  refine
    { hasH := by rw [flatten_hasHierarchy]; exact s.hasH
      keysSub := ?_
      hierSub := ?_
      str := by rw [flatten_nodesAreStr]; exact s.str
      childExists := fun pl cl hm => by rw [hnp] at hm; cases hm
      hasParent := fun pl cl hm => by rw [hnp] at hm; cases hm
      oneParent := fun pl cl hm => by rw [hnp] at hm; cases hm
      childNe := fun pl cl hm => by rw [hnp] at hm; cases hm
      childNodup := fun pl cl hm => by rw [hnp] at hm; cases hm
      rowsNodup := by rw [flatten_allRows hn]; exact s.rowsNodup }
  · intro k hk
    rw [flatten_keys hl, List.mem_filter] at hk
    have hk1 := s.keysSub k hk.1
    have hk2 : k ∉ t.hierarchy.dropLast := by simpa using hk.2
    rw [e, List.mem_append] at hk1
    rw [hh]
    rcases hk1 with h | h
    · exact absurd h hk2
    · exact h
  · intro k hk
    rw [hh, List.mem_singleton] at hk
    subst hk
    rw [flatten_keys hl, List.mem_filter]
    refine ⟨s.hierSub k ?_, by simpa using leaf_not_mem_dropLast hn hl⟩
    rw [e]; simp

theorem flatten_wf (w : WF t) : WF t.flatten := by
  have hl := w.leafLevel_getLast
  have hh := flatten_hierarchy hl
  have hn : t.flatten.hierarchy.Nodup := by rw [hh]; simp
  have hne : t.flatten.hierarchy ≠ [] := by rw [hh]; simp
  have hnode : ∀ l0, t.flatten.hierarchy.head? = some l0 → t.flatten.nodesAt l0 ≠ [] := by
    intro l0 h0
    rw [hh] at h0
    simp only [List.head?_cons, Option.some.injEq] at h0
    subst h0
    rw [flatten_nodesAt_leaf w.hNodup hl]
    exact nodesAt_ne_nil_of_validate_lv w.valid (List.mem_of_getLast? hl)
  exact
    { valid := validate_of_strict hn hne hnode
        (flatten_strict (strict_of_validate w.valid) w.hNodup hl)
      hNodup := hn
      hNe := hne
      dict := flatten_dictOK w.dict }

theorem flatten_validate (w : WF t) : t.flatten.validate = .ok () := (flatten_wf w).valid

theorem flatten_asLeaves {leaf : Level} (hl : t.leafLevel = some leaf) (n : Node) :
    t.flatten.asLeaves leaf n = [n] := by
  unfold asLeaves levelsBelow levelIdx
  rw [flatten_hierarchy hl]
  simp [List.idxOf?, leavesFrom]

/-! ### `setLevel` -/

theorem setLevel_eq (m : List (Level × LevelMap)) (l : Level) (v : LevelMap) :
    setLevel m l v = m.map (fun kv => if kv.1 == l then (kv.1, v) else kv) := by
  unfold setLevel
  congr 1

theorem map_fst_setLevel (m : List (Level × LevelMap)) (l : Level) (v : LevelMap) :
    (setLevel m l v).map (·.1) = m.map (·.1) := by
  rw [setLevel_eq, List.map_map]
  apply List.map_congr_left
  intro kv _
  simp only [Function.comp]
  split <;> rfl

theorem lookup_setLevel_ne {m : List (Level × LevelMap)} {l k : Level} (v : LevelMap)
    (hk : k ≠ l) : (setLevel m l v).lookup k = m.lookup k := by
  rw [setLevel_eq]
  induction m with
  | nil => rfl
  | cons kv m ih =>
    obtain ⟨k', v'⟩ := kv
    by_cases hkl : (k' == l) = true
    · have e := eq_of_beq hkl
      have hkk' : (k == k') = false := beq_false_of_ne (by rw [e]; exact hk)
      simp only [List.map_cons, hkl, if_true, List.lookup, hkk']
      exact ih
    · simp only [List.map_cons, hkl, Bool.false_eq_true, if_false, List.lookup]
      rw [ih]

theorem lookup_setLevel_self {m : List (Level × LevelMap)} {l : Level} (v : LevelMap)
    (hl : l ∈ m.map (·.1)) : (setLevel m l v).lookup l = some v := by
  rw [setLevel_eq]
  induction m with
  | nil => cases hl
  | cons kv m ih =>
    obtain ⟨k', v'⟩ := kv
    by_cases hkk : (l == k') = true
    · have e := eq_of_beq hkk
      subst e
      simp
    · have hkk' : (l == k') = false := by simpa using hkk
      have hne : l ≠ k' := by simpa using hkk
      have hkk2 : (k' == l) = false := beq_false_of_ne (Ne.symm hne)
      simp only [List.map_cons, List.mem_cons, hne, false_or] at hl
      simp only [List.map_cons, hkk2, Bool.false_eq_true, if_false, List.lookup, hkk']
      exact ih hl

theorem mem_setLevel_drop {m : List (Level × LevelMap)} {l k : Level} {v x : LevelMap}
    (h : (k, x) ∈ setLevel m l v) :
    (k ≠ l ∧ (k, x) ∈ m) ∨ (k = l ∧ x = v ∧ ∃ old, (k, old) ∈ m) := by
  rw [setLevel_eq, List.mem_map] at h
  obtain ⟨⟨k', v'⟩, hm, he⟩ := h
  by_cases hkl : (k' == l) = true
  · simp only [hkl, if_true, Prod.mk.injEq] at he
    obtain ⟨rfl, rfl⟩ := he
    exact Or.inr ⟨eq_of_beq hkl, rfl, v', hm⟩
  · simp only [hkl, Bool.false_eq_true, if_false, Prod.mk.injEq] at he
    obtain ⟨rfl, rfl⟩ := he
    exact Or.inl ⟨by simpa using hkl, hm⟩

/-! ### PART B: `dropLevelRaw` -/

/-- `new_parent` of `_drop_level`: every node of the level above the dropped one
gets its grandchildren -/
def reparent (t : RawTree) (pl l : Level) : LevelMap :=
  (t.level pl).map (fun (n, cs) => (n, cs.flatMap (fun c => t.entry l c)))

/-- the `levels` of the result of `_drop_level` on the level of index `i` -/
def dropLevels (t : RawTree) (i : Nat) (hi : i < t.hierarchy.length) : List (Level × LevelMap) :=
  if i = 0 then t.levels.filter (fun kv => kv.1 != t.hierarchy[i])
  else setLevel (t.levels.filter (fun kv => kv.1 != t.hierarchy[i]))
    (t.hierarchy[i-1]'(by omega)) (t.reparent (t.hierarchy[i-1]'(by omega)) t.hierarchy[i])

theorem leafLevel_getElem_iff (hn : t.hierarchy.Nodup) {i : Nat} (hi : i < t.hierarchy.length) :
    t.leafLevel = some t.hierarchy[i] ↔ i + 1 = t.hierarchy.length := by
  have hne : t.hierarchy ≠ [] := by intro h; rw [h] at hi; cases hi
  rw [leafLevel_eq hne, Option.some.injEq, List.getElem_inj hn]
  omega

theorem dropLevelRaw_eq (hn : t.hierarchy.Nodup) {i : Nat} (hi : i < t.hierarchy.length)
    (h2 : t.hierarchy.length ≠ 1) {allowLeaf : Bool}
    (hl : allowLeaf = true ∨ i + 1 < t.hierarchy.length) :
    t.dropLevelRaw t.hierarchy[i] allowLeaf =
      .ok { t with hierarchy := t.hierarchy.eraseIdx i, levels := t.dropLevels i hi } := by
  have hleaf : (!allowLeaf && some t.hierarchy[i] == t.leafLevel) = false := by
    rcases hl with h | h
    · simp [h]
    · have : ¬ t.leafLevel = some t.hierarchy[i] := by
        rw [leafLevel_getElem_iff hn hi]; omega
      have : (some t.hierarchy[i] == t.leafLevel) = false := by
        apply beq_false_of_ne
        intro e; exact this e.symm
      simp [this]
  unfold dropLevelRaw
  have h1 : (t.hierarchy.length == 1) = false := beq_false_of_ne h2
  simp only [h1, Bool.false_eq_true, if_false, levelIdx_getElem hn hi, hleaf]
  unfold dropLevels
  by_cases h0 : i = 0
  · subst h0
    simp only [beq_self_eq_true, if_true, List.drop_one, List.eraseIdx_zero]
  · have h0' : (i == 0) = false := beq_false_of_ne h0
    have hp : t.hierarchy[i-1]? = some (t.hierarchy[i-1]'(by omega)) :=
      List.getElem?_eq_getElem (by omega)
    simp only [h0', Bool.false_eq_true, if_false, hp, h0]
    rfl

theorem dropLevelRaw_flat {l : Level} {a : Bool} (h : t.hierarchy.length = 1) :
    t.dropLevelRaw l a = .error .flatTree := by
  simp [dropLevelRaw, h]

theorem dropLevelRaw_not_in {l : Level} {a : Bool} (h : t.hierarchy.length ≠ 1)
    (hl : l ∉ t.hierarchy) : t.dropLevelRaw l a = .error .levelNotInTree := by
  have h1 : (t.hierarchy.length == 1) = false := beq_false_of_ne h
  simp [dropLevelRaw, h1, levelIdx_none_of_not_mem hl]

theorem dropLevelRaw_leaf {l : Level} (h : t.hierarchy.length ≠ 1) (hl : l ∈ t.hierarchy)
    (hleaf : t.leafLevel = some l) : t.dropLevelRaw l false = .error .isLeafLevel := by
  have h1 : (t.hierarchy.length == 1) = false := beq_false_of_ne h
  obtain ⟨i, hi, _, hidx⟩ := levelIdx_of_mem hl
  simp [dropLevelRaw, h1, hidx, hleaf]

/-- inversion: a successful `dropLevelRaw` on the level of index `i` -/
theorem dropLevelRaw_ok_inv (hn : t.hierarchy.Nodup) {i : Nat} (hi : i < t.hierarchy.length)
    {allowLeaf : Bool} {t' : RawTree}
    (ht' : t.dropLevelRaw t.hierarchy[i] allowLeaf = .ok t') :
    t.hierarchy.length ≠ 1 ∧ (allowLeaf = true ∨ i + 1 < t.hierarchy.length) ∧
      t' = { t with hierarchy := t.hierarchy.eraseIdx i, levels := t.dropLevels i hi } := by
  have h2 : t.hierarchy.length ≠ 1 := by
    intro h; rw [dropLevelRaw_flat h] at ht'; cases ht'
  have hl : allowLeaf = true ∨ i + 1 < t.hierarchy.length := by
    cases allowLeaf with
    | true => exact Or.inl rfl
    | false =>
      right
      rcases Nat.lt_or_ge (i+1) t.hierarchy.length with h | h
      · exact h
      · have : t.leafLevel = some t.hierarchy[i] := by
          rw [leafLevel_getElem_iff hn hi]; omega
        rw [dropLevelRaw_leaf h2 (List.getElem_mem hi) this] at ht'
        cases ht'
  refine ⟨h2, hl, ?_⟩
  rw [dropLevelRaw_eq hn hi h2 hl] at ht'
  exact (Except.ok.inj ht').symm

theorem lookup_map_snd {α β γ} [BEq α] (f : β → γ) (m : List (α × β)) (k : α) :
    (m.map (fun kv => (kv.1, f kv.2))).lookup k = (m.lookup k).map f := by
  induction m with
  | nil => rfl
  | cons kv m ih =>
    obtain ⟨k', v'⟩ := kv
    simp only [List.map_cons, List.lookup]
    cases (k == k')
    · exact ih
    · rfl

theorem lookup_setLevel_self' {m : List (Level × LevelMap)} {l : Level} (v : LevelMap) :
    (setLevel m l v).lookup l = (m.lookup l).map (fun _ => v) := by
  cases h : m.lookup l with
  | none =>
    rw [lookup_eq_none_iff'] at h
    show _ = none
    rw [lookup_eq_none_iff', map_fst_setLevel]; exact h
  | some x =>
    have : l ∈ m.map (·.1) := List.mem_map.2 ⟨(l, x), mem_of_lookup h, rfl⟩
    rw [lookup_setLevel_self v this]; rfl

/-! the `levels` of the result -/

theorem dropLevels_keys {i : Nat} (hi : i < t.hierarchy.length) :
    (t.dropLevels i hi).map (·.1) = (t.levels.map (·.1)).filter (· != t.hierarchy[i]) := by
  unfold dropLevels
  split
  · exact map_fst_filter_key (· != t.hierarchy[i]) t.levels
  · rw [map_fst_setLevel]
    exact map_fst_filter_key (· != t.hierarchy[i]) t.levels

theorem dropLevels_lookup_dropped {i : Nat} (hi : i < t.hierarchy.length) :
    (t.dropLevels i hi).lookup t.hierarchy[i] = none := by
  rw [lookup_eq_none_iff', dropLevels_keys, List.mem_filter]
  simp

theorem dropLevels_lookup_other {i : Nat} (hi : i < t.hierarchy.length) {k : Level}
    (hk : k ≠ t.hierarchy[i]) (hp : ∀ h0 : 0 < i, k ≠ t.hierarchy[i-1]'(by omega)) :
    (t.dropLevels i hi).lookup k = t.levels.lookup k := by
  have hq : (fun x => x != t.hierarchy[i]) k = true := by simpa using hk
  unfold dropLevels
  split
  · exact lookup_filter_key (· != t.hierarchy[i]) t.levels hq
  · rw [lookup_setLevel_ne _ (hp (by omega))]
    exact lookup_filter_key (· != t.hierarchy[i]) t.levels hq

theorem dropLevels_lookup_parent (hn : t.hierarchy.Nodup) {i : Nat} (hi : i < t.hierarchy.length)
    (h0 : 0 < i) :
    (t.dropLevels i hi).lookup (t.hierarchy[i-1]'(by omega)) =
      (t.levels.lookup (t.hierarchy[i-1]'(by omega))).map
        (fun _ => t.reparent (t.hierarchy[i-1]'(by omega)) t.hierarchy[i]) := by
  have hne : t.hierarchy[i-1]'(by omega) ≠ t.hierarchy[i] := by
    intro e
    have := (List.getElem_inj hn).1 e
    omega
  have hq : (fun x => x != t.hierarchy[i]) (t.hierarchy[i-1]'(by omega)) = true := by
    simpa using hne
  unfold dropLevels
  rw [if_neg (by omega), lookup_setLevel_self']
  rw [lookup_filter_key (· != t.hierarchy[i]) t.levels hq]

/-! the result `t'` of a successful `dropLevelRaw` on the level of index `i` -/

theorem dropLevelRaw_eq_ok (hn : t.hierarchy.Nodup) {i : Nat} (hi : i < t.hierarchy.length)
    (h2 : 2 ≤ t.hierarchy.length) {allowLeaf : Bool}
    (hl : allowLeaf = true ∨ i + 1 < t.hierarchy.length) :
    ∃ t', t.dropLevelRaw t.hierarchy[i] allowLeaf = .ok t' ∧
      t'.hierarchy = t.hierarchy.eraseIdx i ∧ t'.hasHierarchy = t.hasHierarchy ∧
      t'.nodesAreStr = t.nodesAreStr ∧ t'.levels = t.dropLevels i hi :=
  ⟨_, dropLevelRaw_eq hn hi (by omega) hl, rfl, rfl, rfl, rfl⟩

section result
variable {i : Nat} {allowLeaf : Bool} {t' : RawTree}

theorem drop_hierarchy (hn : t.hierarchy.Nodup) (hi : i < t.hierarchy.length)
    (ht' : t.dropLevelRaw t.hierarchy[i] allowLeaf = .ok t') :
    t'.hierarchy = t.hierarchy.eraseIdx i := by
  rw [(dropLevelRaw_ok_inv hn hi ht').2.2]

theorem drop_hasHierarchy (hn : t.hierarchy.Nodup) (hi : i < t.hierarchy.length)
    (ht' : t.dropLevelRaw t.hierarchy[i] allowLeaf = .ok t') :
    t'.hasHierarchy = t.hasHierarchy := by
  rw [(dropLevelRaw_ok_inv hn hi ht').2.2]

theorem drop_nodesAreStr (hn : t.hierarchy.Nodup) (hi : i < t.hierarchy.length)
    (ht' : t.dropLevelRaw t.hierarchy[i] allowLeaf = .ok t') :
    t'.nodesAreStr = t.nodesAreStr := by
  rw [(dropLevelRaw_ok_inv hn hi ht').2.2]

theorem drop_levels (hn : t.hierarchy.Nodup) (hi : i < t.hierarchy.length)
    (ht' : t.dropLevelRaw t.hierarchy[i] allowLeaf = .ok t') :
    t'.levels = t.dropLevels i hi := by
  rw [(dropLevelRaw_ok_inv hn hi ht').2.2]

theorem drop_keys (hn : t.hierarchy.Nodup) (hi : i < t.hierarchy.length)
    (ht' : t.dropLevelRaw t.hierarchy[i] allowLeaf = .ok t') :
    t'.levels.map (·.1) = (t.levels.map (·.1)).filter (· != t.hierarchy[i]) := by
  rw [drop_levels hn hi ht', dropLevels_keys]

theorem drop_level_other (hn : t.hierarchy.Nodup) (hi : i < t.hierarchy.length)
    (ht' : t.dropLevelRaw t.hierarchy[i] allowLeaf = .ok t') {k : Level}
    (hk : k ≠ t.hierarchy[i]) (hp : ∀ h0 : 0 < i, k ≠ t.hierarchy[i-1]'(by omega)) :
    t'.level k = t.level k := by
  unfold level
  rw [drop_levels hn hi ht', dropLevels_lookup_other hi hk hp]

theorem drop_level_dropped (hn : t.hierarchy.Nodup) (hi : i < t.hierarchy.length)
    (ht' : t.dropLevelRaw t.hierarchy[i] allowLeaf = .ok t') :
    t'.level t.hierarchy[i] = [] ∧ t.hierarchy[i] ∉ t'.levels.map (·.1) := by
  have : t.hierarchy[i] ∉ t'.levels.map (·.1) := by
    rw [drop_keys hn hi ht', List.mem_filter]; simp
  exact ⟨level_eq_nil_of_not_mem this, this⟩

theorem drop_level_reparent (hn : t.hierarchy.Nodup) (hi : i < t.hierarchy.length)
    (ht' : t.dropLevelRaw t.hierarchy[i] allowLeaf = .ok t') (h0 : 0 < i) :
    t'.level (t.hierarchy[i-1]'(by omega)) =
      t.reparent (t.hierarchy[i-1]'(by omega)) t.hierarchy[i] := by
  unfold level
  rw [drop_levels hn hi ht', dropLevels_lookup_parent hn hi h0]
  cases h : t.levels.lookup (t.hierarchy[i-1]'(by omega)) with
  | none => simp [reparent, level, h]
  | some m => rfl

theorem drop_level_parent (hn : t.hierarchy.Nodup) (hi : i < t.hierarchy.length)
    (ht' : t.dropLevelRaw t.hierarchy[i] allowLeaf = .ok t') (h0 : 0 < i) :
    t'.level (t.hierarchy[i-1]'(by omega)) =
      (t.level (t.hierarchy[i-1]'(by omega))).map
        (fun (n, cs) => (n, cs.flatMap (fun c => t.entry t.hierarchy[i] c))) :=
  drop_level_reparent hn hi ht' h0

theorem reparent_eq (t : RawTree) (pl l : Level) :
    t.reparent pl l = (t.level pl).map (fun kv => (kv.1, kv.2.flatMap (t.entry l))) := rfl

theorem mem_reparent {pl l : Level} {n : Node} {cs' : List Nat} :
    (n, cs') ∈ t.reparent pl l ↔ ∃ cs, (n, cs) ∈ t.level pl ∧ cs' = cs.flatMap (t.entry l) := by
  rw [reparent_eq, List.mem_map]
  constructor
  · rintro ⟨⟨n0, cs⟩, hm, he⟩
    simp only [Prod.mk.injEq] at he
    obtain ⟨rfl, rfl⟩ := he
    exact ⟨cs, hm, rfl⟩
  · rintro ⟨cs, hm, rfl⟩
    exact ⟨(n, cs), hm, rfl⟩

/-- node keys of every remaining level are unchanged -/
theorem drop_nodesAt (hn : t.hierarchy.Nodup) (hi : i < t.hierarchy.length)
    (ht' : t.dropLevelRaw t.hierarchy[i] allowLeaf = .ok t') {k : Level}
    (hk : k ≠ t.hierarchy[i]) : t'.nodesAt k = t.nodesAt k := by
  unfold nodesAt
  have hb : i - 1 < t.hierarchy.length := Nat.lt_of_le_of_lt (Nat.sub_le i 1) hi
  rcases Nat.eq_zero_or_pos i with h | h0
  · rw [drop_level_other hn hi ht' hk (fun h0 => absurd h (Nat.ne_of_gt h0))]
  · by_cases hkp : k = t.hierarchy[i-1]'hb
    · rw [hkp, drop_level_reparent hn hi ht' h0, reparent_eq, List.map_map]
      rfl
    · rw [drop_level_other hn hi ht' hk (fun _ => hkp)]

/-- entries of the re-parented level: the grandchildren -/
theorem drop_entry_parent (hn : t.hierarchy.Nodup) (hi : i < t.hierarchy.length)
    (ht' : t.dropLevelRaw t.hierarchy[i] allowLeaf = .ok t') (h0 : 0 < i) (n : Node) :
    t'.entry (t.hierarchy[i-1]'(by omega)) n =
      (t.entry (t.hierarchy[i-1]'(by omega)) n).flatMap (t.entry t.hierarchy[i]) := by
  unfold entry
  rw [drop_level_reparent hn hi ht' h0, reparent_eq,
    lookup_map_snd (fun cs : List Nat => cs.flatMap (t.entry t.hierarchy[i]))]
  cases (t.level (t.hierarchy[i-1]'(by omega))).lookup n <;> rfl

theorem drop_entry_other (hn : t.hierarchy.Nodup) (hi : i < t.hierarchy.length)
    (ht' : t.dropLevelRaw t.hierarchy[i] allowLeaf = .ok t') {k : Level}
    (hk : k ≠ t.hierarchy[i]) (hp : ∀ h0 : 0 < i, k ≠ t.hierarchy[i-1]'(by omega)) (n : Node) :
    t'.entry k n = t.entry k n := by
  unfold entry
  rw [drop_level_other hn hi ht' hk hp]

end result

/-! ### PART C: the result of `dropLevelRaw` is well formed -/

/-- consecutive pairs of `h.eraseIdx i`: the old pairs not touching index `i`,
plus the new pair bridging the gap -/
theorem mem_levelPairs_eraseIdx {h : List Level} (hn : h.Nodup) {i : Nat} (hi : i < h.length)
    {pl cl : Level} (hm : (pl, cl) ∈ levelPairs (h.eraseIdx i)) :
    ((pl, cl) ∈ levelPairs h ∧ pl ≠ h[i] ∧ cl ≠ h[i]) ∨
      (∃ _ : 0 < i, ∃ hi1 : i + 1 < h.length,
        pl = h[i-1]'(Nat.lt_of_le_of_lt (Nat.sub_le i 1) hi) ∧ cl = h[i+1]) := by
  obtain ⟨j, hj, hp, hc⟩ := idx_of_mem_levelPairs hm
  have hj' : j + 1 < h.length - 1 := by
    rw [List.length_eraseIdx, if_pos hi] at hj; exact hj
  rw [List.getElem_eraseIdx] at hp hc
  rcases Nat.lt_trichotomy (j+1) i with hlt | heq | hgt
  · rw [dif_pos (by omega)] at hp
    rw [dif_pos hlt] at hc
    subst hp; subst hc
    refine Or.inl ⟨mem_levelPairs_of_idx (by omega), ?_, ?_⟩
    · intro e; have := (List.getElem_inj hn).1 e; omega
    · intro e; have := (List.getElem_inj hn).1 e; omega
  · rw [dif_pos (by omega)] at hp
    rw [dif_neg (by omega)] at hc
    subst hp; subst hc
    subst heq
    exact Or.inr ⟨by omega, by omega, rfl, rfl⟩
  · rw [dif_neg (by omega)] at hp
    rw [dif_neg (by omega)] at hc
    subst hp; subst hc
    refine Or.inl ⟨mem_levelPairs_of_idx (by omega), ?_, ?_⟩
    · intro e; have := (List.getElem_inj hn).1 e; omega
    · intro e; have := (List.getElem_inj hn).1 e; omega

/-- in a duplicate-free hierarchy the level right below `h[i-1]` is `h[i]` -/
theorem levelPairs_pred_unique {h : List Level} (hn : h.Nodup) {i : Nat} (hi : i < h.length)
    (h0 : 0 < i) {cl : Level}
    (hm : (h[i-1]'(Nat.lt_of_le_of_lt (Nat.sub_le i 1) hi), cl) ∈ levelPairs h) : cl = h[i] := by
  obtain ⟨j, hj, hp, hc⟩ := idx_of_mem_levelPairs hm
  have := (List.getElem_inj hn).1 hp
  subst hc
  have e : j + 1 = i := by omega
  subst e
  rfl

theorem mem_levelPairs_pred {h : List Level} {i : Nat} (hi : i < h.length) (h0 : 0 < i) :
    (h[i-1]'(Nat.lt_of_le_of_lt (Nat.sub_le i 1) hi), h[i]) ∈ levelPairs h := by
  obtain ⟨j, rfl⟩ : ∃ j, i = j + 1 := ⟨i - 1, by omega⟩
  exact mem_levelPairs_of_idx hi

/-- for a `DictOK` tree the lists stored at a level are the entries of its keys -/
theorem flatMap_entry_nodesAt (d : DictOK t) (l : Level) :
    (t.nodesAt l).flatMap (t.entry l) = (t.level l).flatMap (·.2) := by
  unfold nodesAt
  rw [List.flatMap_map]
  have key : ∀ (m : LevelMap), (∀ x, x ∈ m → t.entry l x.1 = x.2) →
      m.flatMap (fun a => t.entry l a.1) = m.flatMap (·.2) := by
    intro m
    induction m with
    | nil => intro _; rfl
    | cons x m ih =>
      intro hx
      simp only [List.flatMap_cons]
      rw [hx x List.mem_cons_self, ih (fun y hy => hx y (List.mem_cons_of_mem _ hy))]
  exact key _ (fun x hx => entry_of_mem d (show (x.1, x.2) ∈ t.level l from hx))

section wf
variable {i : Nat} {allowLeaf : Bool} {t' : RawTree}

theorem drop_leafLevel_nonleaf (hn : t.hierarchy.Nodup) (hi : i < t.hierarchy.length)
    (ht' : t.dropLevelRaw t.hierarchy[i] allowLeaf = .ok t') (hnl : i + 1 < t.hierarchy.length) :
    t'.leafLevel = t.leafLevel := by
  unfold leafLevel
  rw [drop_hierarchy hn hi ht', List.getLast?_eq_getElem?, List.getLast?_eq_getElem?,
    List.getElem?_eraseIdx, List.length_eraseIdx, if_pos hi, if_neg (by omega)]
  congr 1
  omega

theorem drop_leafLevel_leaf (hn : t.hierarchy.Nodup) (hi : i < t.hierarchy.length)
    (ht' : t.dropLevelRaw t.hierarchy[i] allowLeaf = .ok t') (hlf : i + 1 = t.hierarchy.length)
    (h0 : 0 < i) :
    t'.leafLevel = some (t.hierarchy[i-1]'(Nat.lt_of_le_of_lt (Nat.sub_le i 1) hi)) := by
  unfold leafLevel
  rw [drop_hierarchy hn hi ht', List.getLast?_eq_getElem?,
    List.getElem?_eraseIdx, List.length_eraseIdx, if_pos hi, if_pos (by omega)]
  have e : t.hierarchy.length - 1 - 1 = i - 1 := by omega
  rw [e]
  exact List.getElem?_eq_getElem _

/-- the leaf level dict is untouched when a non-leaf level is dropped -/
theorem drop_level_leaf (hn : t.hierarchy.Nodup) (hi : i < t.hierarchy.length)
    (ht' : t.dropLevelRaw t.hierarchy[i] allowLeaf = .ok t') (hnl : i + 1 < t.hierarchy.length) :
    t'.level (t.hierarchy[t.hierarchy.length - 1]'(by omega)) =
      t.level (t.hierarchy[t.hierarchy.length - 1]'(by omega)) := by
  apply drop_level_other hn hi ht'
  · intro e; have := (List.getElem_inj hn).1 e; omega
  · intro h0 e; have := (List.getElem_inj hn).1 e; omega

theorem drop_allRows_nonleaf (hn : t.hierarchy.Nodup) (hi : i < t.hierarchy.length)
    (ht' : t.dropLevelRaw t.hierarchy[i] allowLeaf = .ok t') (hnl : i + 1 < t.hierarchy.length) :
    t'.allRows = t.allRows := by
  have hne : t.hierarchy ≠ [] := by intro h; rw [h] at hi; cases hi
  unfold allRows
  rw [drop_leafLevel_nonleaf hn hi ht' hnl, leafLevel_eq hne]
  simp only
  rw [drop_level_leaf hn hi ht' hnl]

/-- dropping the leaf level: the rows of the new leaves are the concatenated
rows of their former children -/
theorem drop_allRows_leaf (hn : t.hierarchy.Nodup) (hi : i < t.hierarchy.length)
    (ht' : t.dropLevelRaw t.hierarchy[i] allowLeaf = .ok t') (hlf : i + 1 = t.hierarchy.length)
    (h0 : 0 < i) :
    t'.allRows =
      ((t.level (t.hierarchy[i-1]'(Nat.lt_of_le_of_lt (Nat.sub_le i 1) hi))).flatMap (·.2)).flatMap
        (t.entry t.hierarchy[i]) := by
  unfold allRows
  rw [drop_leafLevel_leaf hn hi ht' hlf h0]
  simp only
  rw [drop_level_reparent hn hi ht' h0, reparent_eq, List.flatMap_map, List.flatMap_assoc]

theorem drop_allRows_perm (s : Strict t) (d : DictOK t) (hn : t.hierarchy.Nodup)
    (hi : i < t.hierarchy.length)
    (ht' : t.dropLevelRaw t.hierarchy[i] allowLeaf = .ok t') : t'.allRows.Perm t.allRows := by
  obtain ⟨h2, _, _⟩ := dropLevelRaw_ok_inv hn hi ht'
  rcases Nat.lt_or_ge (i+1) t.hierarchy.length with hnl | hge
  · rw [drop_allRows_nonleaf hn hi ht' hnl]
  · have hlf : i + 1 = t.hierarchy.length := by omega
    have h0 : 0 < i := by omega
    obtain ⟨j, rfl⟩ : ∃ j, i = j + 1 := ⟨i - 1, by omega⟩
    have hne : t.hierarchy ≠ [] := by intro h; rw [h] at hi; cases hi
    have hrows : t.allRows = (t.level t.hierarchy[j+1]).flatMap (·.2) := by
      unfold allRows
      rw [(leafLevel_getElem_iff hn hi).2 hlf]
    rw [drop_allRows_leaf hn hi ht' hlf h0, hrows, ← flatMap_entry_nodesAt d t.hierarchy[j+1]]
    refine List.Perm.flatMap_right _ ?_
    have := s.children_perm_next d (i := j) hi
    rw [flatMap_entry_nodesAt d] at this
    exact this

theorem drop_dictOK (d : DictOK t) (hn : t.hierarchy.Nodup) (hi : i < t.hierarchy.length)
    (ht' : t.dropLevelRaw t.hierarchy[i] allowLeaf = .ok t') : DictOK t' := by
  constructor
  · rw [drop_keys hn hi ht']
    exact d.levelKeys.sublist List.filter_sublist
  · intro l m hm
    rw [drop_levels hn hi ht'] at hm
    unfold dropLevels at hm
    split at hm
    · exact d.nodeKeys l m (List.mem_filter.1 hm).1
    · rcases mem_setLevel_drop hm with ⟨_, h⟩ | ⟨_, rfl, _⟩
      · exact d.nodeKeys l m (List.mem_filter.1 h).1
      · rw [reparent_eq, List.map_map]
        exact d.nodesAt_nodup _

theorem drop_pairOK (s : Strict t) (d : DictOK t) (hn : t.hierarchy.Nodup)
    (hi : i < t.hierarchy.length)
    (ht' : t.dropLevelRaw t.hierarchy[i] allowLeaf = .ok t') {pl cl : Level}
    (hm : (pl, cl) ∈ levelPairs t'.hierarchy) :
    PairOK t' pl cl ∧ ∀ p cs, (p, cs) ∈ t'.level pl → cs.Nodup ∧ cs ≠ [] := by
  rw [drop_hierarchy hn hi ht'] at hm
  have hb : i - 1 < t.hierarchy.length := Nat.lt_of_le_of_lt (Nat.sub_le i 1) hi
  rcases mem_levelPairs_eraseIdx hn hi hm with ⟨hold, hpl, hcl⟩ | ⟨h0, h1, rfl, rfl⟩
  · have hplp : ∀ h0 : 0 < i, pl ≠ t.hierarchy[i-1]'hb := by
      intro h0 e
      rw [e] at hold
      exact hcl (levelPairs_pred_unique hn hi h0 hold)
    unfold PairOK
    rw [drop_level_other hn hi ht' hpl hplp, drop_nodesAt hn hi ht' hcl]
    exact ⟨⟨s.childExists pl cl hold, s.hasParent pl cl hold, s.oneParent pl cl hold⟩,
      fun p cs hp => ⟨s.childNodup pl cl hold p cs hp, s.childNe pl cl hold p cs hp⟩⟩
  · have hPD := mem_levelPairs_pred hi h0
    have hDC := mem_levelPairs_of_idx h1
    have hC : t.hierarchy[i+1] ≠ t.hierarchy[i] := by
      intro e; have := (List.getElem_inj hn).1 e; omega
    unfold PairOK
    rw [drop_level_reparent hn hi ht' h0, drop_nodesAt hn hi ht' hC]
    refine ⟨⟨?_, ?_, ?_⟩, ?_⟩
    · intro n cs' hm' c hc
      obtain ⟨cs, hcs, rfl⟩ := mem_reparent.1 hm'
      obtain ⟨m, hmcs, hcm⟩ := List.mem_flatMap.1 hc
      have hmD := s.childExists _ _ hPD n cs hcs m hmcs
      exact s.childExists _ _ hDC m _ (mem_level_entry hmD) c hcm
    · intro c hc
      obtain ⟨m, cs2, hm2, hc2⟩ := s.hasParent _ _ hDC c hc
      obtain ⟨n, cs, hn', hmcs⟩ := s.hasParent _ _ hPD m (mem_nodesAt.2 ⟨cs2, hm2⟩)
      refine ⟨n, cs.flatMap (t.entry t.hierarchy[i]), mem_reparent.2 ⟨cs, hn', rfl⟩, ?_⟩
      exact List.mem_flatMap.2 ⟨m, hmcs, by rw [entry_of_mem d hm2]; exact hc2⟩
    · intro n₁ cs₁' n₂ cs₂' hm₁ hm₂ c hc₁ hc₂
      obtain ⟨cs₁, hcs₁, rfl⟩ := mem_reparent.1 hm₁
      obtain ⟨cs₂, hcs₂, rfl⟩ := mem_reparent.1 hm₂
      obtain ⟨m₁, hm₁cs, hcm₁⟩ := List.mem_flatMap.1 hc₁
      obtain ⟨m₂, hm₂cs, hcm₂⟩ := List.mem_flatMap.1 hc₂
      have hm₁D := s.childExists _ _ hPD n₁ cs₁ hcs₁ m₁ hm₁cs
      have hm₂D := s.childExists _ _ hPD n₂ cs₂ hcs₂ m₂ hm₂cs
      have e : m₁ = m₂ := s.oneParent _ _ hDC m₁ _ m₂ _ (mem_level_entry hm₁D)
        (mem_level_entry hm₂D) c hcm₁ hcm₂
      subst e
      exact s.oneParent _ _ hPD n₁ cs₁ n₂ cs₂ hcs₁ hcs₂ m₁ hm₁cs hm₂cs
    · intro n cs' hm'
      obtain ⟨cs, hcs, rfl⟩ := mem_reparent.1 hm'
      refine ⟨s.children_nodup h1 (s.childNodup _ _ hPD n cs hcs)
        (fun m hm'' => s.childExists _ _ hPD n cs hcs m hm''), ?_⟩
      -- the first child of n has a first child of its own
      cases hcs' : cs with
      | nil => exact absurd hcs' (s.childNe _ _ hPD n cs hcs)
      | cons m ms =>
        have hmD := s.childExists _ _ hPD n cs hcs m (by rw [hcs']; exact List.mem_cons_self)
        have hne := s.childNe _ _ hDC m _ (mem_level_entry hmD)
        intro hnil
        rw [List.flatMap_cons] at hnil
        exact hne (List.append_eq_nil_iff.1 hnil).1

theorem drop_strict (s : Strict t) (d : DictOK t) (hn : t.hierarchy.Nodup)
    (hi : i < t.hierarchy.length)
    (ht' : t.dropLevelRaw t.hierarchy[i] allowLeaf = .ok t') : Strict t' := by
  have hh := drop_hierarchy hn hi ht'
  refine
    { hasH := by rw [drop_hasHierarchy hn hi ht']; exact s.hasH
      keysSub := ?_
      hierSub := ?_
      str := by rw [drop_nodesAreStr hn hi ht']; exact s.str
      childExists := fun pl cl hm => (drop_pairOK s d hn hi ht' hm).1.1
      hasParent := fun pl cl hm => (drop_pairOK s d hn hi ht' hm).1.2.1
      oneParent := fun pl cl hm => (drop_pairOK s d hn hi ht' hm).1.2.2
      childNe := fun pl cl hm p cs hp => ((drop_pairOK s d hn hi ht' hm).2 p cs hp).2
      childNodup := fun pl cl hm p cs hp => ((drop_pairOK s d hn hi ht' hm).2 p cs hp).1
      rowsNodup := (drop_allRows_perm s d hn hi ht').symm.nodup s.rowsNodup }
  · intro k hk
    rw [drop_keys hn hi ht', List.mem_filter] at hk
    obtain ⟨j, hj, rfl⟩ := List.getElem_of_mem (s.keysSub k hk.1)
    rw [hh, List.mem_eraseIdx_iff_getElem]
    refine ⟨j, hj, ?_, rfl⟩
    rintro rfl
    simp at hk
  · intro k hk
    rw [hh, List.mem_eraseIdx_iff_getElem] at hk
    obtain ⟨j, hj, hji, rfl⟩ := hk
    rw [drop_keys hn hi ht', List.mem_filter]
    refine ⟨s.hierSub _ (List.getElem_mem hj), ?_⟩
    have : t.hierarchy[j] ≠ t.hierarchy[i] := by
      intro e; exact hji ((List.getElem_inj hn).1 e)
    simpa using this

theorem dropLevelRaw_wf (w : WF t) (hi : i < t.hierarchy.length)
    (ht' : t.dropLevelRaw t.hierarchy[i] allowLeaf = .ok t') : WF t' := by
  have hn := w.hNodup
  have hh := drop_hierarchy hn hi ht'
  obtain ⟨h2, _, _⟩ := dropLevelRaw_ok_inv hn hi ht'
  have hn' : t'.hierarchy.Nodup := by
    rw [hh]; exact hn.sublist (List.eraseIdx_sublist _ _)
  have hne' : t'.hierarchy ≠ [] := by
    intro e
    have hlen : t'.hierarchy.length = 0 := by rw [e]; rfl
    rw [hh, List.length_eraseIdx, if_pos hi] at hlen
    omega
  have hnode : ∀ l0, t'.hierarchy.head? = some l0 → t'.nodesAt l0 ≠ [] := by
    intro l0 h0
    have hmem : l0 ∈ t'.hierarchy := List.mem_of_head? h0
    have hmem' := hmem
    rw [hh, List.mem_eraseIdx_iff_getElem] at hmem'
    obtain ⟨k, hk, hki, rfl⟩ := hmem'
    rw [drop_nodesAt hn hi ht' (fun e => hki ((List.getElem_inj hn).1 e))]
    exact nodesAt_ne_nil_of_validate w.valid k hk
  exact
    { valid := validate_of_strict hn' hne' hnode
        (drop_strict (strict_of_validate w.valid) w.dict hn hi ht')
      hNodup := hn'
      hNe := hne'
      dict := drop_dictOK w.dict hn hi ht' }

end wf

/-- `_drop_level` on a well-formed tree: the re-validation in the constructor of
the new tree never fails -/
theorem dropLevel_eq_ok (w : WF t) {i : Nat} (hi : i < t.hierarchy.length)
    (h2 : 2 ≤ t.hierarchy.length) {allowLeaf : Bool}
    (hl : allowLeaf = true ∨ i + 1 < t.hierarchy.length) :
    ∃ t', t.dropLevel t.hierarchy[i] allowLeaf = .ok t' ∧
      t.dropLevelRaw t.hierarchy[i] allowLeaf = .ok t' ∧ WF t' := by
  obtain ⟨t', ht', _⟩ := dropLevelRaw_eq_ok w.hNodup hi h2 hl
  have w' := dropLevelRaw_wf w hi ht'
  refine ⟨t', ?_, ht', w'⟩
  unfold dropLevel
  rw [ht']
  simp only [w'.valid]

/-! ### PART D: leaves are untouched when a non-leaf level is dropped -/

theorem drop_eraseIdx_of_le {α} : ∀ (m : Nat) (l : List α) (i : Nat), m ≤ i →
    (l.eraseIdx i).drop m = (l.drop m).eraseIdx (i - m)
  | 0, _, _, _ => rfl
  | m+1, [], i, _ => by simp
  | m+1, a :: l, i, h => by
    obtain ⟨i', rfl⟩ : ∃ i', i = i' + 1 := ⟨i - 1, by omega⟩
    rw [List.eraseIdx_cons_succ, List.drop_succ_cons, List.drop_succ_cons,
      drop_eraseIdx_of_le m l i' (by omega)]
    congr 1
    omega

theorem drop_eraseIdx_of_lt {α} : ∀ (l : List α) (i m : Nat), i < m →
    (l.eraseIdx i).drop m = l.drop (m + 1)
  | [], _, _, _ => by simp
  | a :: l, 0, m, _ => by simp
  | a :: l, i+1, m, h => by
    obtain ⟨m', rfl⟩ : ∃ m', m = m' + 1 := ⟨m - 1, by omega⟩
    rw [List.eraseIdx_cons_succ, List.drop_succ_cons, List.drop_succ_cons,
      drop_eraseIdx_of_lt l i m' (by omega)]

theorem levelsBelow_of_getElem? (hn : t.hierarchy.Nodup) {j : Nat} {x : Level}
    (h : t.hierarchy[j]? = some x) : t.levelsBelow x = t.hierarchy.drop (j+1) := by
  obtain ⟨hj, rfl⟩ := List.getElem?_eq_some_iff.1 h
  exact levelsBelow_getElem hn hj

/-- `leavesSpec` only reads the level dicts of the levels it walks through -/
theorem leavesSpec_congr {t t' : RawTree} : ∀ (below : List Level) (lv : Level) (n : Node),
    (∀ l, l ∈ lv :: below → t'.level l = t.level l) →
      leavesSpec t' below lv n = leavesSpec t below lv n
  | [], _, _, _ => rfl
  | cl :: rest, lv, n, h => by
    rw [leavesSpec, leavesSpec]
    have e : t'.entry lv n = t.entry lv n := by
      unfold entry; rw [h lv List.mem_cons_self]
    rw [e]
    congr 1
    funext c
    exact leavesSpec_congr rest cl c (fun l hl => h l (List.mem_cons_of_mem _ hl))

/-- walking down through a level list from which level `D` (at position `k`) was
removed, when the entries of the level `P` right above it were replaced by the
grandchildren and every other level is unchanged -/
theorem leavesSpec_eraseIdx {t t' : RawTree} {D P : Level}
    (hP : ∀ n, t'.entry P n = (t.entry P n).flatMap (t.entry D)) :
    ∀ (k : Nat) (below : List Level) (l : Level) (n : Node) (hk : k + 1 < below.length),
      below[k] = D → (l :: below)[k]'(by rw [List.length_cons]; omega) = P → (l :: below).Nodup →
      (∀ x, x ∈ l :: below → x ≠ D → x ≠ P → t'.level x = t.level x) →
      leavesSpec t' (below.eraseIdx k) l n = leavesSpec t below l n
  | 0, [], _, _, hk, _, _, _, _ => by cases hk
  | 0, [_], _, _, hk, _, _, _, _ => by simp at hk
  | 0, D' :: c :: B, l, n, _, hD, hPl, hnd, hlev => by
    simp only [List.getElem_cons_zero] at hD hPl
    subst hD; subst hPl
    rw [List.eraseIdx_zero, List.tail_cons, leavesSpec, leavesSpec, hP, List.flatMap_assoc]
    congr 1
    funext x
    rw [leavesSpec]
    congr 1
    funext y
    apply leavesSpec_congr
    intro z hz
    have hnd' : (l :: D' :: c :: B).Nodup := hnd
    simp only [List.nodup_cons] at hnd'
    apply hlev z (List.mem_cons_of_mem _ (List.mem_cons_of_mem _ hz))
    · rintro rfl; exact hnd'.2.1 hz
    · rintro rfl
      exact hnd'.1 (List.mem_cons_of_mem _ hz)
  | k+1, [], _, _, hk, _, _, _, _ => by cases hk
  | k+1, a :: below, l, n, hk, hD, hPl, hnd, hlev => by
    simp only [List.getElem_cons_succ] at hD hPl
    have hk' : k + 1 < below.length := by simpa using hk
    have hDmem : D ∈ below := by rw [← hD]; exact List.getElem_mem _
    have hPmem : P ∈ a :: below := by rw [← hPl]; exact List.getElem_mem _
    have hnd' := hnd
    rw [List.nodup_cons] at hnd'
    have hlD : l ≠ D := by rintro rfl; exact hnd'.1 (List.mem_cons_of_mem _ hDmem)
    have hlP : l ≠ P := by rintro rfl; exact hnd'.1 hPmem
    rw [List.eraseIdx_cons_succ, leavesSpec, leavesSpec]
    have e : t'.entry l n = t.entry l n := by
      unfold entry; rw [hlev l List.mem_cons_self hlD hlP]
    rw [e]
    congr 1
    funext c
    exact leavesSpec_eraseIdx hP k below a c hk' hD hPl hnd'.2
      (fun x hx => hlev x (List.mem_cons_of_mem _ hx))

section leaves
variable {i : Nat} {allowLeaf : Bool} {t' : RawTree}

theorem drop_nodesAt_idx (hn : t.hierarchy.Nodup) (hi : i < t.hierarchy.length)
    (ht' : t.dropLevelRaw t.hierarchy[i] allowLeaf = .ok t') {j : Nat}
    (hj : j < t.hierarchy.length) (hji : j ≠ i) :
    t'.nodesAt t.hierarchy[j] = t.nodesAt t.hierarchy[j] :=
  drop_nodesAt hn hi ht' (fun e => hji ((List.getElem_inj hn).1 e))

/-- the plain recursive leaf lists of every remaining node are unchanged -/
theorem drop_leavesSpec (hn : t.hierarchy.Nodup) (hi : i < t.hierarchy.length)
    (ht' : t.dropLevelRaw t.hierarchy[i] allowLeaf = .ok t') (hnl : i + 1 < t.hierarchy.length)
    {j : Nat} (hj : j < t.hierarchy.length) (hji : j ≠ i) (n : Node) :
    leavesSpec t' (t'.levelsBelow t.hierarchy[j]) t.hierarchy[j] n =
      leavesSpec t (t.levelsBelow t.hierarchy[j]) t.hierarchy[j] n := by
  have hh := drop_hierarchy hn hi ht'
  have hn' : t'.hierarchy.Nodup := by
    rw [hh]; exact hn.sublist (List.eraseIdx_sublist _ _)
  have hb : i - 1 < t.hierarchy.length := Nat.lt_of_le_of_lt (Nat.sub_le i 1) hi
  rw [levelsBelow_getElem hn hj]
  rcases Nat.lt_or_ge j i with hlt | hge
  · -- above the dropped level
    have hidx : t'.hierarchy[j]? = some t.hierarchy[j] := by
      rw [hh, List.getElem?_eraseIdx, if_pos hlt]
      exact List.getElem?_eq_getElem hj
    rw [levelsBelow_of_getElem? hn' hidx, hh, drop_eraseIdx_of_le (j+1) _ i (by omega)]
    have h0 : 0 < i := by omega
    apply leavesSpec_eraseIdx (D := t.hierarchy[i]) (P := t.hierarchy[i-1]'hb)
      (drop_entry_parent hn hi ht' h0)
    · rw [List.getElem_drop]
      congr 1; omega
    · rw [List.getElem_cons]
      split
      · rename_i hz
        congr 1; omega
      · rw [List.getElem_drop]
        congr 1; omega
    · rw [← List.drop_eq_getElem_cons hj]
      exact hn.sublist (List.drop_sublist _ _)
    · intro x _ hxD hxP
      exact drop_level_other hn hi ht' hxD (fun _ => hxP)
    · rw [List.length_drop]; omega
  · -- below the dropped level
    have hgt : i < j := by omega
    have hidx : t'.hierarchy[j-1]? = some t.hierarchy[j] := by
      rw [hh, List.getElem?_eraseIdx, if_neg (by omega)]
      have e : j - 1 + 1 = j := by omega
      rw [e]
      exact List.getElem?_eq_getElem hj
    have e : j - 1 + 1 = j := by omega
    rw [levelsBelow_of_getElem? hn' hidx, hh, e, drop_eraseIdx_of_lt _ _ _ hgt]
    apply leavesSpec_congr
    intro x hx
    rw [← List.drop_eq_getElem_cons hj] at hx
    obtain ⟨m, hm, rfl⟩ := List.getElem_of_mem hx
    rw [List.getElem_drop]
    rw [List.length_drop] at hm
    apply drop_level_other hn hi ht'
    · intro e; have := (List.getElem_inj hn).1 e; omega
    · intro h0 e; have := (List.getElem_inj hn).1 e; omega

/-- `as_leaves` of every remaining node: the same leaves (the order may differ:
the Python sorts children at each step, and one step has gone) -/
theorem drop_asLeaves (hn : t.hierarchy.Nodup) (hi : i < t.hierarchy.length)
    (ht' : t.dropLevelRaw t.hierarchy[i] allowLeaf = .ok t') (hnl : i + 1 < t.hierarchy.length)
    {j : Nat} (hj : j < t.hierarchy.length) (hji : j ≠ i) (n : Node) :
    (t'.asLeaves t.hierarchy[j] n).Perm (t.asLeaves t.hierarchy[j] n) := by
  refine (asLeaves_perm_spec t' _ n).trans ?_
  rw [drop_leavesSpec hn hi ht' hnl hj hji n]
  exact (asLeaves_perm_spec t _ n).symm

end leaves

end CTM.RawTree
