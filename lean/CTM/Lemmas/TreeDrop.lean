import CTM.Lemmas.TreeLeaves
import CTM.Lemmas.TreeValidate
namespace CTM.RawTree
variable {t : RawTree}

/-! ### association lists through `filter` / `setLevel` -/

/-- the `fun (k, _) => q k` lambdas of the model are key predicates -/
theorem filter_key_eq {β} (q : Level → Bool) (m : List (Level × β)) :
    m.filter (fun x => match x with | (k, _) => q k) = m.filter (fun kv => q kv.1) := by
  congr 1

theorem lookup_filter_key {α β} [BEq α] [LawfulBEq α] (q : α → Bool) :
    ∀ (m : List (α × β)) {k : α}, q k = true →
      (m.filter (fun kv => q kv.1)).lookup k = m.lookup k
  | [], _, _ => rfl
  | (k', v') :: m, k, hk => by
    by_cases hkk : (k == k') = true
    · have e := eq_of_beq hkk
      subst e
      simp [List.filter, hk, List.lookup]
    · have hkk' : (k == k') = false := by simpa using hkk
      cases hq : q k'
      · simp only [List.filter, hq, List.lookup, hkk']
        exact lookup_filter_key q m hk
      · simp only [List.filter, hq, List.lookup, hkk']
        exact lookup_filter_key q m hk

theorem lookup_filter_key_false {α β} [BEq α] [LawfulBEq α] (q : α → Bool)
    (m : List (α × β)) {k : α} (hk : q k = false) :
    (m.filter (fun kv => q kv.1)).lookup k = none := by
  rw [lookup_eq_none_iff']
  intro h
  rw [List.mem_map] at h
  obtain ⟨⟨k', v⟩, hm, rfl⟩ := h
  rw [List.mem_filter] at hm
  simp [hk] at hm

theorem map_fst_filter_key {α β} (q : α → Bool) (m : List (α × β)) :
    (m.filter (fun kv => q kv.1)).map (·.1) = (m.map (·.1)).filter q := by
  rw [List.filter_map]
  rfl

/-! ### PART A: `flatten` -/

theorem WF.leafLevel_getLast (w : WF t) : t.leafLevel = some (t.hierarchy.getLast w.hNe) :=
  List.getLast?_eq_some_getLast w.hNe

theorem flatten_eq {leaf : Level} (hl : t.leafLevel = some leaf) :
    t.flatten = { t with hierarchy := [leaf]
                         levels := t.levels.filter
                           (fun kv => !(t.hierarchy.dropLast.contains kv.1)) } := by
  unfold flatten
  rw [hl]

theorem flatten_hierarchy {leaf : Level} (hl : t.leafLevel = some leaf) :
    t.flatten.hierarchy = [leaf] := by
  rw [flatten_eq hl]

theorem flatten_hasHierarchy : t.flatten.hasHierarchy = t.hasHierarchy := by
  unfold flatten; split <;> rfl

theorem flatten_nodesAreStr : t.flatten.nodesAreStr = t.nodesAreStr := by
  unfold flatten; split <;> rfl

theorem flatten_leafLevel {leaf : Level} (hl : t.leafLevel = some leaf) :
    t.flatten.leafLevel = some leaf := by
  unfold leafLevel
  rw [flatten_hierarchy hl]
  rfl

theorem hierarchy_eq_dropLast_leaf {leaf : Level} (hl : t.leafLevel = some leaf) :
    t.hierarchy = t.hierarchy.dropLast ++ [leaf] := by
  unfold leafLevel at hl
  have hne : t.hierarchy ≠ [] := by
    intro h; rw [h] at hl; cases hl
  rw [List.getLast?_eq_some_getLast hne] at hl
  cases hl
  exact (List.dropLast_concat_getLast hne).symm

theorem leaf_not_mem_dropLast (hn : t.hierarchy.Nodup) {leaf : Level}
    (hl : t.leafLevel = some leaf) : leaf ∉ t.hierarchy.dropLast := by
  have e := hierarchy_eq_dropLast_leaf hl
  rw [e, List.nodup_append] at hn
  intro hm
  exact hn.2.2 leaf hm leaf (by simp) rfl

theorem flatten_level_leaf (hn : t.hierarchy.Nodup) {leaf : Level}
    (hl : t.leafLevel = some leaf) : t.flatten.level leaf = t.level leaf := by
  unfold level
  rw [flatten_eq hl]
  simp only
  rw [lookup_filter_key (fun k => !(t.hierarchy.dropLast.contains k))]
  simpa using leaf_not_mem_dropLast hn hl

theorem flatten_nodesAt_leaf (hn : t.hierarchy.Nodup) {leaf : Level}
    (hl : t.leafLevel = some leaf) : t.flatten.nodesAt leaf = t.nodesAt leaf := by
  unfold nodesAt; rw [flatten_level_leaf hn hl]

theorem flatten_entry_leaf (hn : t.hierarchy.Nodup) {leaf : Level}
    (hl : t.leafLevel = some leaf) (n : Node) : t.flatten.entry leaf n = t.entry leaf n := by
  unfold entry; rw [flatten_level_leaf hn hl]

theorem flatten_allRows (hn : t.hierarchy.Nodup) : t.flatten.allRows = t.allRows := by
  cases hl : t.leafLevel with
  | none => unfold flatten; rw [hl]
  | some leaf =>
    unfold allRows
    rw [flatten_leafLevel hl, hl]
    simp only
    rw [flatten_level_leaf hn hl]

/-- the keys that survive `flatten`: exactly the leaf level -/
theorem flatten_keys {leaf : Level} (hl : t.leafLevel = some leaf) :
    t.flatten.levels.map (·.1) =
      (t.levels.map (·.1)).filter (fun k => !(t.hierarchy.dropLast.contains k)) := by
  rw [flatten_eq hl]
  exact map_fst_filter_key (fun k => !(t.hierarchy.dropLast.contains k)) t.levels

theorem flatten_dictOK (d : DictOK t) : DictOK t.flatten := by
  cases hl : t.leafLevel with
  | none => unfold flatten; rw [hl]; exact d
  | some leaf =>
    constructor
    · rw [flatten_keys hl]
      exact d.levelKeys.sublist List.filter_sublist
    · intro l m hm
      rw [flatten_eq hl] at hm
      exact d.nodeKeys l m (List.mem_filter.1 hm).1

theorem flatten_strict (s : Strict t) (hn : t.hierarchy.Nodup) {leaf : Level}
    (hl : t.leafLevel = some leaf) : Strict t.flatten := by
  have hh := flatten_hierarchy hl
  have hnp : levelPairs t.flatten.hierarchy = [] := by rw [hh]; rfl
  have e := hierarchy_eq_dropLast_leaf hl
  refine
    { hasH := by rw [flatten_hasHierarchy]; exact s.hasH
      keysSub := ?_
      hierSub := ?_
      str := by rw [flatten_nodesAreStr]; exact s.str
      childExists := fun pl cl hm => by rw [hnp] at hm; cases hm
      hasParent := fun pl cl hm => by rw [hnp] at hm; cases hm
      oneParent := fun pl cl hm => by rw [hnp] at hm; cases hm
      childNodup := fun pl cl hm => by rw [hnp] at hm; cases hm
      rowsNodup := by rw [flatten_allRows hn]; exact s.rowsNodup }
  · intro k hk
    rw [flatten_keys hl, List.mem_filter] at hk
    have hk1 := s.keysSub k hk.1
    have hk2 : k ∉ t.hierarchy.dropLast := by simpa using hk.2
    rw [e, List.mem_append] at hk1
    rw [hh]
    rcases hk1 with h | h
    · exact absurd h hk2
    · exact h
  · intro k hk
    rw [hh, List.mem_singleton] at hk
    subst hk
    rw [flatten_keys hl, List.mem_filter]
    refine ⟨s.hierSub k ?_, by simpa using leaf_not_mem_dropLast hn hl⟩
    rw [e]; simp

theorem flatten_wf (w : WF t) : WF t.flatten := by
  have hl := w.leafLevel_getLast
  have hh := flatten_hierarchy hl
  have hn : t.flatten.hierarchy.Nodup := by rw [hh]; simp
  exact
    { valid := validate_of_strict hn (flatten_strict (strict_of_validate w.valid) w.hNodup hl)
      hNodup := hn
      hNe := by rw [hh]; simp
      dict := flatten_dictOK w.dict }

theorem flatten_validate (w : WF t) : t.flatten.validate = .ok () := (flatten_wf w).valid

theorem flatten_asLeaves {leaf : Level} (hl : t.leafLevel = some leaf) (n : Node) :
    t.flatten.asLeaves leaf n = [n] := by
  unfold asLeaves levelsBelow levelIdx
  rw [flatten_hierarchy hl]
  simp [List.idxOf?, leavesFrom]

end CTM.RawTree
