/-
  The row iterator as a state machine (`iterStep`, `iterRun` of
  `CTM/Model/Sparse.lean`): random access is stateless w.r.t. iteration.
-/
import CTM.Lemmas.SparseFlat
namespace CTM.Sparse
open CTM.Chunking

/-- a reader that returns the stored rows of `D` on every legal request -/
structure ReaderExact {α} (rd : Reader α) (D : Dense α) : Prop where
  rows : rd.nRows = D.length
  chunk : ∀ r0 r1, r0 ≤ r1 → r1 ≤ D.length → rd.getChunk r0 r1 = .ok (slice D r0 r1)
  batch : ∀ rows, rows ≠ [] → rows.Nodup → (∀ r ∈ rows, r < D.length) →
    rd.getBatch rows = .ok (rows.map (D.getD · []))

theorem iterRun_append {α} (rd : Reader α) (cs : Nat) : ∀ (pre post : List IterOp) (cur : Nat),
    iterRun rd cs cur (pre ++ post)
      = ((iterRun rd cs (iterRun rd cs cur pre).1 post).1,
         (iterRun rd cs cur pre).2 ++ (iterRun rd cs (iterRun rd cs cur pre).1 post).2) := by
  intro pre
  induction pre with
  | nil => intro post cur; rfl
  | cons op ops ih =>
    intro post cur
    simp only [List.cons_append, iterRun, ih, List.cons_append]

theorem iterRun_length {α} (rd : Reader α) (cs : Nat) : ∀ (ops : List IterOp) (cur : Nat),
    (iterRun rd cs cur ops).2.length = ops.length := by
  intro ops
  induction ops with
  | nil => intro cur; rfl
  | cons op ops ih => intro cur; simp [iterRun, ih]

/-- random access never moves the cursor -/
theorem iterStep_cursor {α} (rd : Reader α) (cs cur : Nat) (op : IterOp) (h : op ≠ .next) :
    (iterStep rd cs cur op).1 = cur := by
  cases op with
  | next => exact absurd rfl h
  | getChunk r0 r1 => rfl
  | getItem i => rfl
  | getItemList xs =>
    simp only [iterStep]
    cases xs.head? <;> cases xs.getLast? <;> rfl
  | getBatch rows => rfl

/-- **the rows delivered by `next()` are a prefix of the matrix, whatever is
interleaved**: from cursor `cur`, after any operation sequence the cursor is
some `cur' ∈ [cur, n]` and the `next()` blocks concatenate to rows
`cur ..< cur'` -/
theorem iterRun_prefix {α} (rd : Reader α) (D : Dense α) (ex : ReaderExact rd D) (cs : Nat)
    (hcs : 1 ≤ cs) : ∀ (ops : List IterOp) (cur : Nat), cur ≤ D.length →
      cur ≤ (iterRun rd cs cur ops).1 ∧ (iterRun rd cs cur ops).1 ≤ D.length ∧
      nextRows ops (iterRun rd cs cur ops).2 = slice D cur (iterRun rd cs cur ops).1 := by
  intro ops
  induction ops with
  | nil => intro cur h; simp [iterRun, nextRows, slice_self, h]
  | cons op ops ih =>
    intro cur hcur
    by_cases hop : op = .next
    · subst hop
      simp only [iterRun, iterStep, ex.rows]
      by_cases hend : cur ≥ D.length
      · simp only [hend, if_true]
        obtain ⟨i1, i2, i3⟩ := ih cur hcur
        exact ⟨i1, i2, by simpa [nextRows] using i3⟩
      · simp only [hend, if_false]
        rw [ex.chunk cur (min D.length (cur + cs)) (by omega) (by omega)]
        simp only
        obtain ⟨i1, i2, i3⟩ := ih (min D.length (cur + cs)) (by omega)
        refine ⟨by omega, i2, ?_⟩
        simp only [nextRows, i3]
        exact slice_append D (by omega) i1
    · have hc := iterStep_cursor rd cs cur op hop
      simp only [iterRun, hc]
      obtain ⟨i1, i2, i3⟩ := ih cur hcur
      refine ⟨i1, i2, ?_⟩
      rw [← i3]
      cases op with
      | next => exact absurd rfl hop
      | getChunk r0 r1 => rfl
      | getItem i => rfl
      | getItemList xs => rfl
      | getBatch rows => rfl

end CTM.Sparse
namespace CTM.Sparse
open CTM.Chunking

theorem csrReader_exact {α} (zero : α) (M : Mat α) (nRows nCols : Nat)
    (w : WFptr M.indptr nRows M.indices.length) (hlen : M.data.length = M.indices.length)
    (hr : ∀ x ∈ M.indices, x < nCols) :
    ReaderExact (csrReader zero M nRows nCols) (toDense zero M nRows nCols) := by
  constructor
  · simp [csrReader, toDense_length]
  · intro r0 r1 h01 h1
    rw [toDense_length] at h1
    exact loadCsr_ok zero M nRows nCols w hr r0 r1 h01 h1
  · intro rows hne hn hrows
    simp only [toDense_length] at hrows
    exact csrGetBatch_ok zero M nRows nCols w hlen hr rows hne hn hrows

theorem denseReader_exact {α} (zero : α) (D : Dense α) (nCols : Nat) :
    ReaderExact (denseReader zero D nCols) D :=
  ⟨rfl, fun _ _ _ _ => rfl, fun rows hne hn hr => denseGetBatch_ok zero D nCols rows hne hn hr⟩

theorem cscReader_exact {α} (zero : α) (M : Mat α) (nRows nCols : Nat) (B : Budget)
    (hlo : 1 ≤ B.lo) (hc : 1 ≤ B.loCount)
    (w : WFptr M.indptr nCols M.indices.length) (hlen : M.data.length = M.indices.length)
    (hr : ∀ x ∈ M.indices, x < nRows) :
    ∃ rd, cscReader zero M nRows nCols B = .ok rd ∧
      ReaderExact rd (transposeDense zero (toDense zero M nCols nRows) nRows) := by
  unfold cscReader
  rw [transposeOnDisk_eq M nRows none B hlo hc hlen hr]
  simp only [bind, Except.bind, pure, Except.pure, nMinorOf, sliceEntries]
  have hE : ∀ e ∈ entriesOf M, e.minor < nRows := by
    intro e he
    apply hr
    rw [← entriesOf_map_minor M hlen]
    exact List.mem_map_of_mem he
  have w2 := canonOut_wfptr (entriesOf M) nRows hE
  have hl := canonOut_lengths (entriesOf M) nRows hE
  rw [← hl.1] at w2
  refine ⟨_, rfl, ?_⟩
  have := csrReader_exact zero (canonOut (entriesOf M) nRows) nRows nCols w2
    (by rw [hl.1, hl.2]) (canonOut_indices_lt M nCols nRows w)
  rw [canonOut_toDense zero M nCols nRows w] at this
  exact this

/-- random-access operations answer from the stored rows whatever the cursor -/
theorem iterStep_random_access {α} (rd : Reader α) (D : Dense α) (ex : ReaderExact rd D)
    (cs cur : Nat) :
    (∀ r0 r1, r0 ≤ r1 → r1 ≤ D.length →
      iterStep rd cs cur (.getChunk r0 r1) = (cur, .block (slice D r0 r1) r0 r1)) ∧
    (∀ i, i < D.length →
      iterStep rd cs cur (.getItem i) = (cur, .block (slice D i (i + 1)) i (i + 1))) ∧
    (∀ xs a b, xs.head? = some a → xs.getLast? = some b → a ≤ b + 1 → b < D.length →
      iterStep rd cs cur (.getItemList xs) = (cur, .block (slice D a (b + 1)) a (b + 1))) ∧
    (∀ rows, rows ≠ [] → rows.Nodup → (∀ r ∈ rows, r < D.length) →
      iterStep rd cs cur (.getBatch rows) = (cur, .batch (rows.map (D.getD · [])))) := by
  refine ⟨?_, ?_, ?_, ?_⟩
  · intro r0 r1 h1 h2
    simp [iterStep, chunkOut, ex.chunk r0 r1 h1 h2]
  · intro i hi
    simp [iterStep, chunkOut, ex.chunk i (i + 1) (by omega) (by omega)]
  · intro xs a b ha hb h1 h2
    simp [iterStep, chunkOut, ha, hb, ex.chunk a (b + 1) h1 (by omega)]
  · intro rows h1 h2 h3
    simp [iterStep, ex.batch rows h1 h2 h3]

end CTM.Sparse
